//go:build verif

package harness

// Suites C01 C02 C08 C09: histories of coinswap messages on the real keeper /
// message server, emitted as cases for Check/CoinswapCheck.v.

import (
	"fmt"
	"github.com/cosmos/cosmos-sdk/x/params"
	paramproposal "github.com/cosmos/cosmos-sdk/x/params/types/proposal"
	"math/big"
	"os"
	"sort"
	"strings"
	"time"

	sdkmath "cosmossdk.io/math"
	sdk "github.com/cosmos/cosmos-sdk/types"
	authtypes "github.com/cosmos/cosmos-sdk/x/auth/types"
	distrtypes "github.com/cosmos/cosmos-sdk/x/distribution/types"
	govtypes "github.com/cosmos/cosmos-sdk/x/gov/types"

	"github.com/Canto-Network/Canto/v8/app"
	coinswapkeeper "github.com/Canto-Network/Canto/v8/x/coinswap/keeper"
	coinswaptypes "github.com/Canto-Network/Canto/v8/x/coinswap/types"
	erc20types "github.com/Canto-Network/Canto/v8/x/erc20/types"
)

func init() {
	for _, p := range []string{"C01", "C02", "C08", "C09"} {
		p := p
		runners[p] = func(e *Env) { runCoinswap(e, p) }
	}
}

const (
	csUsers   = 4
	csTokens  = 4 // T0..T2 may be whitelisted, T3 ("fee-1") never is
	csMaxPool = 4
)

// the last token is an ordinary coin whose name has the shape <word>-<number> of a pool-token denomination
// ("lpt-1"): ParseLptDenom accepts it, only the denomination index tells it from a pool token
var csTokNames = []string{"tokena", "tokenb", "ibc/17CD484EE7D9723B847D95015FA3EBD1572FD13BC84FB838F55B18A57450F25B", "fee-1"}
// the last two are module accounts that nothing has written to the account store yet when a case starts (a module
// account is stored the first time its module uses it): a module account is one by its NAME in the app's table, not by
// what the account store holds
var csModules = []string{coinswaptypes.ModuleName, authtypes.FeeCollectorName, distrtypes.ModuleName, erc20types.ModuleName, "onboarding", "transfer"}

// ---- replay format ----
type csParams struct {
	Fee       string     `json:"fee"` // LegacyDec raw integer
	CfeeDenom string     `json:"cfee_denom"`
	CfeeAmt   string     `json:"cfee_amt"`
	Tax       string     `json:"tax"`
	Cap       string     `json:"cap"`
	WL        [][]string `json:"wl"` // [denom code, amount]
}
type csOp struct {
	Kind     string    `json:"kind"`
	NowNs    string    `json:"now_ns"`
	Sender   int       `json:"sender"`
	Rec      string    `json:"rec,omitempty"`  // account code U0 E1 M2
	Pres     string    `json:"pres,omitempty"` // presentation of textual addresses: "" | "upper"
	Din      string    `json:"din,omitempty"`  // denom code S T0 L1
	Dout     string    `json:"dout,omitempty"`
	A        []string  `json:"a,omitempty"` // amounts, meaning per kind
	Deadline int64     `json:"deadline,omitempty"`
	Params   *csParams `json:"params,omitempty"`
	Bad      string    `json:"bad,omitempty"` // for kind invalid: which malformation
	// Legacy (kind setparams): the parameters are changed the way a legacy ParameterChangeProposal does it - the params
	// module's proposal handler writes each field straight into the coinswap subspace (per-field validator only), without
	// going through the coinswap message server or keeper.SetParams.  app.go registers that route, so it is a parameter
	// setting "governance can enact".
	Legacy bool `json:"legacy,omitempty"`
}
type csCase struct {
	Params csParams            `json:"params"`
	Funds  map[string][]string `json:"funds"` // user -> amounts per denom code order S,T0..T3
	Ops    []csOp              `json:"ops"`
	// ModuleFunds: coins the coinswap module account itself holds from the start (a genesis balance; nothing can send to
	// it later), amounts per denom code order S,T0..T3.  The creation fee passes through this account: exactly the fee
	// may leave it again (tax forwarded, rest burned), never what was there before.
	ModuleFunds []string `json:"module_funds,omitempty"`
}

// ---- name <-> code mapping ----
type csWorld struct {
	a      *app.Canto
	std    string
	users  []sdk.AccAddress
	accts  map[string]sdk.AccAddress // code -> address
	denoms map[string]string         // code -> denom string
	acodes []string
	dcodes []string
}

func csNewWorld(a *app.Canto, ctx sdk.Context) *csWorld {
	w := &csWorld{a: a, accts: map[string]sdk.AccAddress{}, denoms: map[string]string{}}
	std, err := a.CoinswapKeeper.GetStandardDenom(ctx)
	if err != nil || std == "" {
		panic("no standard denom")
	}
	w.std = std
	for i := 0; i < csUsers; i++ {
		addr := sdk.AccAddress([]byte(fmt.Sprintf("verif-cs-user-%02d-----", i))[:20])
		w.users = append(w.users, addr)
		code := fmt.Sprintf("U%d", i)
		w.accts[code] = addr
		w.acodes = append(w.acodes, code)
	}
	for q := 1; q <= csMaxPool; q++ {
		code := fmt.Sprintf("E%d", q)
		w.accts[code] = coinswaptypes.GetReservePoolAddr(coinswaptypes.GetLptDenom(uint64(q)))
		w.acodes = append(w.acodes, code)
	}
	for i, m := range csModules {
		code := fmt.Sprintf("M%d", i)
		w.accts[code] = authtypes.NewModuleAddress(m)
		w.acodes = append(w.acodes, code)
	}
	w.denoms["S"] = std
	w.dcodes = append(w.dcodes, "S")
	for i := 0; i < csTokens; i++ {
		code := fmt.Sprintf("T%d", i)
		w.denoms[code] = csTokNames[i]
		w.dcodes = append(w.dcodes, code)
	}
	for q := 1; q <= csMaxPool; q++ {
		code := fmt.Sprintf("L%d", q)
		w.denoms[code] = coinswaptypes.GetLptDenom(uint64(q))
		w.dcodes = append(w.dcodes, code)
	}
	return w
}

func csAcctTerm(code string) string {
	n := code[1:]
	switch code[0] {
	case 'U':
		return "(User " + n + ")"
	case 'E':
		return "(Escrow " + n + ")"
	default:
		return "(Module " + n + ")"
	}
}
func csDenomTerm(code string) string {
	switch code[0] {
	case 'S':
		return "Std"
	case 'T':
		return "(Tok " + code[1:] + ")"
	default:
		return "(Lpt " + code[1:] + ")"
	}
}
func (w *csWorld) denomCode(denom string) string {
	for c, d := range w.denoms {
		if d == denom {
			return c
		}
	}
	return ""
}

func csParamsTerm(p csParams) string {
	var wl []string
	for _, e := range p.WL {
		wl = append(wl, Tup(csDenomTerm(e[0]), Z(bigOf(e[1]))))
	}
	return App("mkParams", Z(bigOf(p.Fee)), csDenomTerm(p.CfeeDenom), Z(bigOf(p.CfeeAmt)), Z(bigOf(p.Tax)), Z(bigOf(p.Cap)), L(wl))
}

func (w *csWorld) toParams(p csParams) coinswaptypes.Params {
	var wl sdk.Coins
	for _, e := range p.WL {
		wl = append(wl, sdk.Coin{Denom: w.denoms[e[0]], Amount: sdkmath.NewIntFromBigInt(bigOf(e[1]))})
	}
	sort.Slice(wl, func(i, j int) bool { return wl[i].Denom < wl[j].Denom })
	return coinswaptypes.Params{
		Fee:                    sdkmath.LegacyNewDecFromBigIntWithPrec(bigOf(p.Fee), 18),
		PoolCreationFee:        sdk.Coin{Denom: w.denoms[p.CfeeDenom], Amount: sdkmath.NewIntFromBigInt(bigOf(p.CfeeAmt))},
		TaxRate:                sdkmath.LegacyNewDecFromBigIntWithPrec(bigOf(p.Tax), 18),
		MaxStandardCoinPerPool: sdkmath.NewIntFromBigInt(bigOf(p.Cap)),
		MaxSwapAmount:          wl,
	}
}

// the whitelist in the order the keeper iterates it (sdk.Coins order = sorted by denom string)
func (w *csWorld) fromParams(p coinswaptypes.Params) csParams {
	out := csParams{Fee: p.Fee.BigInt().String(), CfeeDenom: w.denomCode(p.PoolCreationFee.Denom), CfeeAmt: p.PoolCreationFee.Amount.BigInt().String(),
		Tax: p.TaxRate.BigInt().String(), Cap: p.MaxStandardCoinPerPool.BigInt().String()}
	for _, c := range p.MaxSwapAmount {
		out.WL = append(out.WL, []string{w.denomCode(c.Denom), c.Amount.BigInt().String()})
	}
	return out
}

// ---- observation ----
type csObs struct {
	params csParams
	next   uint64
	pools  [][2]int64 // (token index, seq), newest first
	bal    map[string]*big.Int
	sup    map[string]*big.Int
	other  string // digest of every balance outside the tracked universe
}

func (w *csWorld) observe(ctx sdk.Context) csObs {
	gs := w.a.CoinswapKeeper.ExportGenesis(ctx)
	o := csObs{params: w.fromParams(gs.Params), next: gs.Sequence, bal: map[string]*big.Int{}, sup: map[string]*big.Int{}}
	for _, p := range gs.Pool {
		seq, err := coinswaptypes.ParseLptDenom(p.LptDenom)
		if err != nil {
			panic(err)
		}
		tc := w.denomCode(p.CounterpartyDenom)
		if tc == "" || tc[0] != 'T' {
			panic("pool for untracked denom " + p.CounterpartyDenom)
		}
		var ti int64
		fmt.Sscan(tc[1:], &ti)
		o.pools = append(o.pools, [2]int64{ti, int64(seq)})
	}
	sort.Slice(o.pools, func(i, j int) bool { return o.pools[i][1] > o.pools[j][1] })
	tracked := map[string]bool{}
	for _, ac := range w.acodes {
		tracked[w.accts[ac].String()] = true
		for _, dc := range w.dcodes {
			o.bal[ac+"|"+dc] = w.a.BankKeeper.GetBalance(ctx, w.accts[ac], w.denoms[dc]).Amount.BigInt()
		}
	}
	for _, dc := range w.dcodes {
		o.sup[dc] = w.a.BankKeeper.GetSupply(ctx, w.denoms[dc]).Amount.BigInt()
	}
	// everything else in the bank: untracked accounts, and untracked denominations of tracked accounts
	var sb strings.Builder
	trackedDenom := map[string]bool{}
	for _, d := range w.denoms {
		trackedDenom[d] = true
	}
	w.a.BankKeeper.IterateAllBalances(ctx, func(addr sdk.AccAddress, c sdk.Coin) bool {
		if !tracked[addr.String()] || !trackedDenom[c.Denom] {
			fmt.Fprintf(&sb, "%s:%s;", addr.String(), c.String())
		}
		return false
	})
	w.a.BankKeeper.IterateTotalSupply(ctx, func(c sdk.Coin) bool {
		if !trackedDenom[c.Denom] {
			fmt.Fprintf(&sb, "supply:%s;", c.String())
		}
		return false
	})
	o.other = sb.String()
	return o
}

// supOf: supply of a tracked denomination code; zero for a code outside the tracked set (the real code may number a
// pool beyond the pools the harness tracks, e.g. after a change that skips sequence numbers)
func (o csObs) supOf(code string) *big.Int {
	if v, ok := o.sup[code]; ok && v != nil {
		return v
	}
	return big.NewInt(0)
}

func csObsTerm(w *csWorld, o csObs) string {
	var pools, bal, sup []string
	for _, p := range o.pools {
		pools = append(pools, Tup(Zi(p[0]), Zi(p[1])))
	}
	for _, ac := range w.acodes {
		for _, dc := range w.dcodes {
			if v := o.bal[ac+"|"+dc]; v.Sign() != 0 {
				bal = append(bal, Tup(csAcctTerm(ac), csDenomTerm(dc), Z(v)))
			}
		}
	}
	for _, dc := range w.dcodes {
		if v := o.sup[dc]; v.Sign() != 0 {
			sup = append(sup, Tup(csDenomTerm(dc), Z(v)))
		}
	}
	return App("mkObs", csParamsTerm(o.params), Zi(int64(o.next)), L(pools), L(bal), L(sup))
}

func csStepTerm(w *csWorld, op csOp, opTerm string, res string, before, after csObs) string {
	var pools, bal, sup []string
	for _, p := range after.pools {
		pools = append(pools, Tup(Zi(p[0]), Zi(p[1])))
	}
	for _, ac := range w.acodes {
		for _, dc := range w.dcodes {
			k := ac + "|" + dc
			if after.bal[k].Cmp(before.bal[k]) != 0 {
				bal = append(bal, Tup(csAcctTerm(ac), csDenomTerm(dc), Z(after.bal[k])))
			}
		}
	}
	for _, dc := range w.dcodes {
		if after.sup[dc].Cmp(before.sup[dc]) != 0 {
			sup = append(sup, Tup(csDenomTerm(dc), Z(after.sup[dc])))
		}
	}
	pt := "None"
	if fmt.Sprint(after.params) != fmt.Sprint(before.params) {
		pt = "(Some " + csParamsTerm(after.params) + ")"
	}
	return App("mkStep", Z(bigOf(op.NowNs)), opTerm, res, pt, Zi(int64(after.next)), L(pools), L(bal), L(sup))
}

// ---- op -> Coq term ----
func csOpTerm(op csOp) string {
	z := func(i int) string { return Z(bigOf(op.A[i])) }
	switch op.Kind {
	case "sell":
		return App("Sell", Zi(int64(op.Sender)), csAcctTerm(op.Rec), csDenomTerm(op.Din), z(0), csDenomTerm(op.Dout), z(1), Zi(op.Deadline))
	case "buy":
		return App("Buy", Zi(int64(op.Sender)), csAcctTerm(op.Rec), csDenomTerm(op.Din), z(0), csDenomTerm(op.Dout), z(1), Zi(op.Deadline))
	case "add":
		return App("AddLiq", Zi(int64(op.Sender)), csDenomTerm(op.Din), z(0), z(1), z(2), Zi(op.Deadline))
	case "remove":
		return App("RemoveLiq", Zi(int64(op.Sender)), csDenomTerm(op.Din), z(0), z(1), z(2), Zi(op.Deadline))
	case "donate":
		return App("Donate", Zi(int64(op.Sender)), csAcctTerm(op.Rec), csDenomTerm(op.Din), z(0))
	case "autoswap":
		return App("AutoSwap", Zi(int64(op.Sender)), csDenomTerm(op.Din), z(0), z(1))
	case "setparams":
		return App("SetParams", csParamsTerm(*op.Params))
	default:
		return "Invalid"
	}
}

func (w *csWorld) addrText(code, pres string) string {
	s := w.accts[code].String()
	if pres == "upper" {
		return strings.ToUpper(s)
	}
	return s
}

// exec runs one message on the real code; returns (ok, response numbers)
var csLastErr error

func (w *csWorld) exec(ctx sdk.Context, op csOp) (ok bool, out []*big.Int) {
	defer func() { csLastErr = nil }()
	return w.exec1(ctx, op)
}

func (w *csWorld) exec1(ctx sdk.Context, op csOp) (bool, []*big.Int) {
	now := nsToTime(bigOf(op.NowNs))
	ctx = ctx.WithBlockTime(now)
	ms := coinswapkeeper.NewMsgServerImpl(w.a.CoinswapKeeper)
	coin := func(dc string, amt string) sdk.Coin {
		return sdk.Coin{Denom: w.denoms[dc], Amount: sdkmath.NewIntFromBigInt(bigOf(amt))}
	}
	sender := fmt.Sprintf("U%d", op.Sender)
	var resp []*big.Int
	err := Try(ctx, func(c sdk.Context) error {
		switch op.Kind {
		case "sell", "buy":
			msg := &coinswaptypes.MsgSwapOrder{
				Input:      coinswaptypes.Input{Address: w.addrText(sender, ""), Coin: coin(op.Din, op.A[0])},
				Output:     coinswaptypes.Output{Address: w.addrText(op.Rec, op.Pres), Coin: coin(op.Dout, op.A[1])},
				Deadline:   op.Deadline,
				IsBuyOrder: op.Kind == "buy",
			}
			_, err := ms.SwapCoin(c, msg)
			return err
		case "add":
			msg := &coinswaptypes.MsgAddLiquidity{MaxToken: coin(op.Din, op.A[0]), ExactStandardAmt: sdkmath.NewIntFromBigInt(bigOf(op.A[1])),
				MinLiquidity: sdkmath.NewIntFromBigInt(bigOf(op.A[2])), Deadline: op.Deadline, Sender: w.addrText(sender, op.Pres)}
			r, err := ms.AddLiquidity(c, msg)
			if err == nil {
				if r.MintToken == nil {
					resp = []*big.Int{big.NewInt(0)}
				} else {
					resp = []*big.Int{r.MintToken.Amount.BigInt()}
				}
			}
			return err
		case "remove":
			msg := &coinswaptypes.MsgRemoveLiquidity{WithdrawLiquidity: coin(op.Din, op.A[0]), MinStandardAmt: sdkmath.NewIntFromBigInt(bigOf(op.A[1])),
				MinToken: sdkmath.NewIntFromBigInt(bigOf(op.A[2])), Deadline: op.Deadline, Sender: w.addrText(sender, op.Pres)}
			r, err := ms.RemoveLiquidity(c, msg)
			if err == nil {
				// decode the response as a multiset: amount reported for the standard coin and for the pool's token
				std, tok := big.NewInt(0), big.NewInt(0)
				for _, cn := range r.WithdrawCoins {
					if cn.Denom == w.std {
						std.Add(std, cn.Amount.BigInt())
					} else {
						tok.Add(tok, cn.Amount.BigInt())
					}
				}
				resp = []*big.Int{std, tok}
			}
			return err
		case "donate":
			return w.a.BankKeeper.SendCoins(c, w.accts[sender], w.accts[op.Rec], sdk.NewCoins(coin(op.Din, op.A[0])))
		case "setparams":
			if op.Legacy {
				return w.legacyParamChange(c, w.toParams(*op.Params))
			}
			_, err := ms.UpdateParams(c, &coinswaptypes.MsgUpdateParams{Authority: authtypes.NewModuleAddress(govtypes.ModuleName).String(), Params: w.toParams(*op.Params)})
			return err
		case "invalid":
			return w.execInvalid(c, ms, op)
		}
		return fmt.Errorf("unknown kind")
	})
	if op.Kind == "autoswap" {
		// onboarding calls the keeper directly, outside any branch: a failure must itself leave no trace
		func() {
			defer func() {
				if r := recover(); r != nil {
					err = fmt.Errorf("panic: %v", r)
				}
			}()
			var sold sdkmath.Int
			sold, err = w.a.CoinswapKeeper.TradeInputForExactOutput(ctx,
				coinswaptypes.Input{Coin: coin(op.Din, op.A[0]), Address: w.accts[sender].String()},
				coinswaptypes.Output{Coin: coin("S", op.A[1]), Address: w.accts[sender].String()})
			if err == nil {
				resp = []*big.Int{sold.BigInt()}
			}
		}()
	}
	if err != nil && os.Getenv("VERIF_DEBUG") != "" {
		msg := err.Error()
		if i := strings.LastIndex(msg, ": "); i >= 0 {
			msg = msg[i+2:]
		}
		if len(msg) > 40 {
			msg = msg[:40]
		}
		csDebug[op.Kind+": "+msg]++
	}
	return err == nil, resp
}

// legacyParamChange: what the gov module does for a passed ParameterChangeProposal on the coinswap subspace
func (w *csWorld) legacyParamChange(c sdk.Context, p coinswaptypes.Params) error {
	amino := w.a.LegacyAmino()
	var changes []paramproposal.ParamChange
	for _, kv := range []struct {
		key string
		val interface{}
	}{
		{string(coinswaptypes.KeyFee), p.Fee},
		{string(coinswaptypes.KeyPoolCreationFee), p.PoolCreationFee},
		{string(coinswaptypes.KeyTaxRate), p.TaxRate},
		{string(coinswaptypes.KeyMaxStandardCoinPerPool), p.MaxStandardCoinPerPool},
		{string(coinswaptypes.KeyMaxSwapAmount), p.MaxSwapAmount},
	} {
		bz, err := amino.MarshalJSON(kv.val)
		if err != nil {
			return err
		}
		if cn, isCoin := kv.val.(sdk.Coin); isCoin && !cn.Amount.IsNil() {
			// amino JSON omits an empty denomination and Subspace.Update decodes the JSON over the value stored before
			// (the old denomination would survive): spell the submitted value out in full
			bz = []byte(fmt.Sprintf(`{"denom":%q,"amount":%q}`, cn.Denom, cn.Amount.String()))
		}
		changes = append(changes, paramproposal.NewParamChange(coinswaptypes.ModuleName, kv.key, string(bz)))
	}
	h := params.NewParamChangeProposalHandler(w.a.ParamsKeeper)
	return h(c, paramproposal.NewParameterChangeProposal("verif", "legacy parameter change", changes))
}

var csDebug = map[string]int{}

func (w *csWorld) execInvalid(c sdk.Context, ms coinswaptypes.MsgServer, op csOp) error {
	u0 := w.accts["U0"].String()
	good := sdk.NewInt64Coin(w.std, 10)
	tok := sdk.NewInt64Coin(w.denoms["T0"], 10)
	dl := time.Unix(0, 0).Add(time.Duration(bigOf(op.NowNs).Int64())).Unix() + 1000
	switch op.Bad {
	case "sender-garbage":
		_, err := ms.SwapCoin(c, &coinswaptypes.MsgSwapOrder{Input: coinswaptypes.Input{Address: "canto1notanaddress", Coin: good}, Output: coinswaptypes.Output{Address: u0, Coin: tok}, Deadline: dl})
		return err
	case "recipient-garbage":
		_, err := ms.SwapCoin(c, &coinswaptypes.MsgSwapOrder{Input: coinswaptypes.Input{Address: u0, Coin: good}, Output: coinswaptypes.Output{Address: "", Coin: tok}, Deadline: dl})
		return err
	case "denom-garbage":
		_, err := ms.SwapCoin(c, &coinswaptypes.MsgSwapOrder{Input: coinswaptypes.Input{Address: u0, Coin: sdk.Coin{Denom: "!!", Amount: sdkmath.NewInt(5)}}, Output: coinswaptypes.Output{Address: u0, Coin: tok}, Deadline: dl})
		return err
	case "lpt-denom-garbage":
		_, err := ms.RemoveLiquidity(c, &coinswaptypes.MsgRemoveLiquidity{WithdrawLiquidity: sdk.Coin{Denom: "lpt-x", Amount: sdkmath.NewInt(5)}, MinToken: sdkmath.ZeroInt(), MinStandardAmt: sdkmath.ZeroInt(), Deadline: dl, Sender: u0})
		return err
	case "add-sender-garbage":
		_, err := ms.AddLiquidity(c, &coinswaptypes.MsgAddLiquidity{MaxToken: tok, ExactStandardAmt: sdkmath.NewInt(5), MinLiquidity: sdkmath.ZeroInt(), Deadline: dl, Sender: "x"})
		return err
	case "authority-user":
		_, err := ms.UpdateParams(c, &coinswaptypes.MsgUpdateParams{Authority: u0, Params: w.a.CoinswapKeeper.GetParams(c)})
		if err == nil {
			return fmt.Errorf("accepted-but-noop") // treated as rejected only if nothing changed; checked by the rejected monitor
		}
		return err
	}
	return fmt.Errorf("unknown malformation")
}

// ---- generation ----
var csS18 = new(big.Int).Exp(big.NewInt(10), big.NewInt(18), nil)

func (e *Env) csAmount(hint *big.Int) *big.Int {
	// hint: a natural scale (balance or reserve); mixture of tiny, relative and absolute magnitudes
	r := e.Pick(20)
	switch {
	case r < 3:
		return big.NewInt(int64(1 + e.Pick(5)))
	case r < 9:
		if hint != nil && hint.Sign() > 0 {
			return new(big.Int).Add(e.Below(hint), big.NewInt(1))
		}
		return e.Mag(60)
	case r < 16:
		if hint != nil && hint.Sign() > 0 {
			d := big.NewInt(int64(2 + e.Pick(50)))
			return new(big.Int).Add(new(big.Int).Div(hint, d), big.NewInt(1))
		}
		return e.Mag(40)
	case r < 18:
		if hint != nil {
			return new(big.Int).Add(hint, big.NewInt(int64(e.Pick(3)))) // the whole thing, or just beyond
		}
		return e.Mag(60)
	default:
		return e.Mag(140)
	}
}

// csGenParams draws a valid parameter set; F is the typical size of a user's funds in this case
func (e *Env) csGenParams(w *csWorld, F *big.Int) csParams {
	p := csParams{}
	one := csS18
	rel := func(num, den int64) *big.Int {
		v := new(big.Int).Div(new(big.Int).Mul(F, big.NewInt(num)), big.NewInt(den))
		return v.Add(v, big.NewInt(1))
	}
	switch e.Pick(7) {
	case 0:
		p.Fee = "0"
	case 1:
		p.Fee = "3000000000000000"
	case 2:
		p.Fee = "500000000000000000"
	case 3:
		p.Fee = new(big.Int).Sub(one, big.NewInt(1)).String()
	case 4:
		p.Fee = "1"
	default:
		p.Fee = e.Below(one).String()
	}
	p.CfeeDenom = []string{"S", "T0", "T3", "S"}[e.Pick(4)]
	switch e.Pick(6) {
	case 0, 1, 2:
		p.CfeeAmt = "0"
	case 3:
		p.CfeeAmt = fmt.Sprint(1 + e.Pick(9))
	case 4:
		p.CfeeAmt = rel(1, int64(10+e.Pick(1000))).String()
	default:
		p.CfeeAmt = e.Mag(40).String()
	}
	switch e.Pick(5) {
	case 0:
		p.Tax = "0"
	case 1:
		p.Tax = "250000000000000000"
	case 2:
		p.Tax = new(big.Int).Sub(one, big.NewInt(1)).String()
	default:
		p.Tax = e.Below(one).String()
	}
	switch e.Pick(10) {
	case 0:
		p.Cap = fmt.Sprint(1 + e.Pick(2000))
	case 1:
		p.Cap = "10000000000000000000000"
	case 2, 3:
		p.Cap = new(big.Int).Lsh(big.NewInt(1), uint(150+e.Pick(100))).String()
	case 4, 5, 6:
		p.Cap = rel(int64(1+e.Pick(8)), 2).String()
	case 7, 8:
		p.Cap = rel(1, int64(1+e.Pick(6))).String()
	default:
		p.Cap = e.Mag(120).String()
	}
	// whitelist: a subset of T0..T2 (sometimes also the standard coin itself), sorted like sdk.Coins
	type ent struct{ code, denom, amt string }
	var ents []ent
	for i := 0; i < 3; i++ {
		if e.Chance(0.9) {
			code := fmt.Sprintf("T%d", i)
			var mx *big.Int
			switch e.Pick(6) {
			case 0:
				mx = e.Mag(130)
			case 1:
				mx = rel(1, int64(2+e.Pick(30)))
			case 2:
				mx = big.NewInt(int64(1 + e.Pick(50)))
			default:
				mx = rel(int64(1+e.Pick(6)), 1)
			}
			ents = append(ents, ent{code, w.denoms[code], mx.String()})
		}
	}
	if e.Chance(0.1) {
		ents = append(ents, ent{"S", w.std, e.Mag(80).String()})
	}
	sort.Slice(ents, func(i, j int) bool { return ents[i].denom < ents[j].denom })
	for _, x := range ents {
		p.WL = append(p.WL, []string{x.code, x.amt})
	}
	return p
}

func csTypicalFund(o csObs) *big.Int {
	best := big.NewInt(1)
	for i := 0; i < csUsers; i++ {
		if v := o.bal[fmt.Sprintf("U%d|S", i)]; v != nil && v.Cmp(best) > 0 {
			best = v
		}
	}
	return best
}

func csInputPrice(ain, inres, outres, fee *big.Int) *big.Int {
	g := new(big.Int).Sub(csS18, fee)
	awf := new(big.Int).Mul(ain, g)
	num := new(big.Int).Mul(awf, outres)
	den := new(big.Int).Add(new(big.Int).Mul(inres, csS18), awf)
	if den.Sign() == 0 {
		return big.NewInt(0)
	}
	return num.Quo(num, den)
}
func csOutputPrice(aout, inres, outres, fee *big.Int) *big.Int {
	g := new(big.Int).Sub(csS18, fee)
	num := new(big.Int).Mul(new(big.Int).Mul(inres, aout), csS18)
	den := new(big.Int).Mul(new(big.Int).Sub(outres, aout), g)
	if den.Sign() <= 0 {
		return big.NewInt(1)
	}
	return new(big.Int).Add(num.Quo(num, den), big.NewInt(1))
}

func (e *Env) csDeadline(now *big.Int) int64 {
	sec := new(big.Int).Div(now, big.NewInt(1_000_000_000)).Int64()
	switch e.Pick(30) {
	case 0:
		return sec // met only when the block time has no sub-second part
	case 1:
		return sec - 1
	case 2:
		return sec + 1
	case 3:
		return 0
	case 4:
		return -5
	default:
		return sec + 1000
	}
}

func (e *Env) csRecipient(w *csWorld, sender int, prop string) (string, string) {
	r := e.Rng.Float64()
	modP := 0.06
	if prop == "C09" {
		modP = 0.2
	}
	switch {
	case r < modP:
		pres := ""
		if e.Chance(0.5) {
			pres = "upper"
		}
		return fmt.Sprintf("M%d", e.Pick(len(csModules))), pres
	case r < modP+0.05:
		return fmt.Sprintf("E%d", 1+e.Pick(csMaxPool)), ""
	case r < modP+0.25:
		pres := ""
		if e.Chance(0.3) {
			pres = "upper"
		}
		return fmt.Sprintf("U%d", e.Pick(csUsers)), pres
	default:
		return fmt.Sprintf("U%d", sender), ""
	}
}

func (e *Env) csGenOp(w *csWorld, o csObs, now *big.Int, prop string) csOp {
	op := csOp{NowNs: now.String(), Sender: e.Pick(csUsers)}
	u := fmt.Sprintf("U%d", op.Sender)
	fee := bigOf(o.params.Fee)
	bal := func(ac, dc string) *big.Int {
		if v, ok := o.bal[ac+"|"+dc]; ok && v != nil {
			return v
		}
		return big.NewInt(0) // an account or denomination outside the tracked set
	}
	poolSeq := func(ti int) int64 {
		for _, p := range o.pools {
			if p[0] == int64(ti) {
				return p[1]
			}
		}
		return 0
	}
	weights := map[string]int{"sell": 22, "buy": 22, "add": 22, "remove": 14, "donate": 5, "autoswap": 6, "setparams": 3, "invalid": 3, "setparams-bad": 2}
	switch prop {
	case "C02":
		weights["invalid"] = 10
		weights["setparams-bad"] = 4
	case "C09":
		weights["setparams"] = 10
		weights["autoswap"] = 12
	case "C08":
		weights["donate"] = 2
	}
	if len(o.pools) == 0 {
		weights["add"] = 70
	}
	total := 0
	var keys []string
	for k := range weights {
		keys = append(keys, k)
	}
	sort.Strings(keys)
	for _, k := range keys {
		total += weights[k]
	}
	r := e.Pick(total)
	kind := ""
	for _, k := range keys {
		if r < weights[k] {
			kind = k
			break
		}
		r -= weights[k]
	}
	ti := e.Pick(3)
	if e.Chance(0.05) {
		ti = 3
	}
	switch kind {
	case "sell", "buy", "autoswap":
		if len(o.pools) > 0 && e.Chance(0.92) { // mostly trade on pools that exist
			ti = int(o.pools[e.Pick(len(o.pools))][0])
		}
	case "add":
		if len(o.params.WL) > 0 && e.Chance(0.92) { // mostly whitelisted counter-assets
			c := o.params.WL[e.Pick(len(o.params.WL))][0]
			if c[0] == 'T' {
				fmt.Sscan(c[1:], &ti)
			}
		}
	}
	tok := fmt.Sprintf("T%d", ti)
	seq := poolSeq(ti)
	esc := fmt.Sprintf("E%d", seq)
	switch kind {
	case "sell", "buy":
		op.Kind = kind
		op.Rec, op.Pres = e.csRecipient(w, op.Sender, prop)
		op.Deadline = e.csDeadline(now)
		stdIn := e.Chance(0.5)
		op.Din, op.Dout = tok, "S"
		if stdIn {
			op.Din, op.Dout = "S", tok
		}
		switch e.Pick(25) {
		case 0: // double swap
			op.Din, op.Dout = "T0", "T1"
		case 1: // equal denoms
			op.Dout = op.Din
		case 2: // lpt as input
			op.Din = "L1"
		}
		var inres, outres *big.Int
		if seq > 0 {
			inres, outres = bal(esc, op.Din), bal(esc, op.Dout)
		}
		if kind == "sell" {
			ain := e.csAmount(bal(u, op.Din))
			if e.Chance(0.25) && inres != nil && inres.Sign() > 0 {
				ain = e.csAmount(inres)
			}
			minOut := big.NewInt(1)
			if inres != nil && inres.Sign() > 0 && outres.Sign() > 0 {
				exact := csInputPrice(ain, inres, outres, fee)
				switch e.Pick(5) {
				case 0:
					minOut = exact // just met
					e.Stats.Count("boundary:sell-min-just-met")
				case 1:
					minOut = new(big.Int).Add(exact, big.NewInt(1)) // just missed
					e.Stats.Count("boundary:sell-min-just-missed")
				case 2:
					minOut = e.csAmount(exact)
				}
				// aim at the per-swap maximum of the quoted leg
				if e.Chance(0.2) {
					for _, wl := range o.params.WL {
						if wl[0] == tok && op.Din == tok {
							ain = new(big.Int).Add(bigOf(wl[1]), big.NewInt(int64(e.Pick(3)-1)))
							e.Stats.Count("boundary:sell-max-swap")
						}
					}
				}
			}
			if e.Chance(0.03) {
				ain = big.NewInt(0)
			}
			if minOut.Sign() <= 0 && e.Chance(0.9) {
				minOut = big.NewInt(1)
			}
			op.A = []string{ain.String(), minOut.String()}
		} else {
			var aout *big.Int
			if outres != nil && outres.Sign() > 0 {
				switch e.Pick(8) {
				case 0:
					aout = new(big.Int).Set(outres) // everything: rejected
					e.Stats.Count("boundary:buy-all-reserve")
				case 1:
					aout = new(big.Int).Sub(outres, big.NewInt(1))
					e.Stats.Count("boundary:buy-reserve-minus-1")
				default:
					aout = e.csAmount(outres)
				}
				if e.Chance(0.2) {
					for _, wl := range o.params.WL {
						if wl[0] == tok && op.Dout == tok {
							aout = new(big.Int).Add(bigOf(wl[1]), big.NewInt(int64(e.Pick(3)-1)))
							e.Stats.Count("boundary:buy-max-swap")
						}
					}
				}
			} else {
				aout = e.csAmount(nil)
			}
			if aout.Sign() <= 0 {
				aout = big.NewInt(1)
			}
			maxIn := e.csAmount(bal(u, op.Din))
			if inres != nil && inres.Sign() > 0 && outres.Sign() > 0 && aout.Cmp(outres) < 0 {
				exact := csOutputPrice(aout, inres, outres, fee)
				switch e.Pick(5) {
				case 0:
					maxIn = exact
					e.Stats.Count("boundary:buy-max-just-met")
				case 1:
					maxIn = new(big.Int).Sub(exact, big.NewInt(1))
					e.Stats.Count("boundary:buy-max-just-missed")
				case 2:
					maxIn = new(big.Int).Add(exact, e.csAmount(exact))
				}
			}
			if maxIn.Sign() <= 0 && e.Chance(0.9) {
				maxIn = big.NewInt(1)
			}
			op.A = []string{maxIn.String(), aout.String()}
		}
	case "add":
		op.Kind = "add"
		op.Din = tok
		if e.Chance(0.03) {
			op.Din = "S"
		}
		if e.Chance(0.02) {
			op.Din = "L1"
		}
		if e.Chance(0.1) {
			op.Pres = "upper"
		}
		op.Deadline = e.csDeadline(now)
		capv := bigOf(o.params.Cap)
		exact := e.csAmount(bal(u, "S"))
		maxTok := e.csAmount(bal(u, tok))
		minLiq := big.NewInt(0)
		if seq > 0 && o.supOf(fmt.Sprintf("L%d", seq)).Sign() > 0 {
			X, Y, Lq := bal(esc, "S"), bal(esc, tok), o.supOf(fmt.Sprintf("L%d", seq))
			room := new(big.Int).Sub(capv, X)
			switch e.Pick(6) {
			case 0:
				exact = new(big.Int).Set(room)
				e.Stats.Count("boundary:add-room-exact")
			case 1:
				exact = new(big.Int).Add(room, big.NewInt(1))
				e.Stats.Count("boundary:add-room-plus-1")
			}
			if exact.Sign() <= 0 {
				exact = big.NewInt(1)
			}
			stdIn := exact
			if room.Cmp(stdIn) < 0 {
				stdIn = room
			}
			if X.Sign() > 0 && stdIn.Sign() > 0 {
				mint := new(big.Int).Div(new(big.Int).Mul(Lq, stdIn), X)
				dep := new(big.Int).Add(new(big.Int).Div(new(big.Int).Mul(Y, stdIn), X), big.NewInt(1))
				switch e.Pick(5) {
				case 0:
					maxTok = dep
					e.Stats.Count("boundary:add-maxtoken-just-met")
				case 1:
					maxTok = new(big.Int).Sub(dep, big.NewInt(1))
					e.Stats.Count("boundary:add-maxtoken-just-missed")
				case 2:
					maxTok = new(big.Int).Add(dep, e.csAmount(dep))
				}
				switch e.Pick(5) {
				case 0:
					minLiq = mint
					e.Stats.Count("boundary:add-minliq-just-met")
				case 1:
					minLiq = new(big.Int).Add(mint, big.NewInt(1))
					e.Stats.Count("boundary:add-minliq-just-missed")
				}
			}
		} else {
			switch e.Pick(6) {
			case 0:
				exact = new(big.Int).Set(capv)
				e.Stats.Count("boundary:add-cap-exact")
			case 1:
				exact = new(big.Int).Add(capv, big.NewInt(1))
				e.Stats.Count("boundary:add-cap-plus-1")
			}
			switch e.Pick(5) {
			case 0:
				minLiq = new(big.Int).Set(exact)
			case 1:
				minLiq = new(big.Int).Add(exact, big.NewInt(1))
			}
		}
		if maxTok.Sign() <= 0 && e.Chance(0.9) {
			maxTok = big.NewInt(1)
		}
		if e.Chance(0.02) {
			minLiq = big.NewInt(-1)
		}
		op.A = []string{maxTok.String(), exact.String(), minLiq.String()}
	case "remove":
		op.Kind = "remove"
		q := int64(1 + e.Pick(csMaxPool))
		if len(o.pools) > 0 && e.Chance(0.9) {
			q = o.pools[e.Pick(len(o.pools))][1]
		}
		lc := fmt.Sprintf("L%d", q)
		op.Din = lc
		if e.Chance(0.05) { // an ordinary coin offered as pool token (one of them named like a pool token)
			op.Din = []string{"T0", "T3", "T3"}[e.Pick(3)]
			e.Stats.Count("remove:ordinary-coin-as-pool-token")
		}
		if e.Chance(0.1) {
			op.Pres = "upper"
		}
		op.Deadline = e.csDeadline(now)
		// prefer a sender that holds pool tokens
		for try := 0; try < 4 && bal(u, lc).Sign() == 0; try++ {
			op.Sender = e.Pick(csUsers)
			u = fmt.Sprintf("U%d", op.Sender)
		}
		wamt := e.csAmount(bal(u, lc))
		if e.Chance(0.15) {
			wamt = new(big.Int).Set(bal(u, lc))
		}
		if e.Chance(0.05) {
			wamt = new(big.Int).Set(o.supOf(lc))
		}
		if wamt.Sign() <= 0 {
			wamt = big.NewInt(1)
		}
		minStd, minTok := big.NewInt(0), big.NewInt(0)
		var tcode string
		for _, p := range o.pools {
			if p[1] == q {
				tcode = fmt.Sprintf("T%d", p[0])
			}
		}
		if tcode != "" && o.supOf(lc).Sign() > 0 {
			ec := fmt.Sprintf("E%d", q)
			ps := new(big.Int).Div(new(big.Int).Mul(wamt, bal(ec, "S")), o.supOf(lc))
			pt := new(big.Int).Div(new(big.Int).Mul(wamt, bal(ec, tcode)), o.supOf(lc))
			switch e.Pick(6) {
			case 0:
				minStd, minTok = ps, pt
				e.Stats.Count("boundary:remove-mins-just-met")
			case 1:
				minStd = new(big.Int).Add(ps, big.NewInt(1))
				e.Stats.Count("boundary:remove-minstd-just-missed")
			case 2:
				minTok = new(big.Int).Add(pt, big.NewInt(1))
				e.Stats.Count("boundary:remove-mintok-just-missed")
			}
		}
		op.A = []string{wamt.String(), minStd.String(), minTok.String()}
	case "donate":
		op.Kind = "donate"
		dcs := []string{"S", tok, "L1"}
		op.Din = dcs[e.Pick(len(dcs))]
		if e.Chance(0.7) {
			op.Rec = fmt.Sprintf("E%d", 1+e.Pick(csMaxPool))
			if len(o.pools) > 0 {
				op.Rec = fmt.Sprintf("E%d", o.pools[e.Pick(len(o.pools))][1])
			}
		} else {
			op.Rec = fmt.Sprintf("U%d", e.Pick(csUsers))
		}
		damt := e.csAmount(bal(u, op.Din))
		if damt.Sign() <= 0 {
			damt = big.NewInt(1)
		}
		op.A = []string{damt.String()}
	case "autoswap":
		op.Kind = "autoswap"
		op.Din = tok
		if e.Chance(0.05) {
			op.Din = "S"
		}
		thr := e.csAmount(nil)
		maxIn := e.csAmount(bal(u, op.Din))
		if seq > 0 {
			X, Y := bal(esc, "S"), bal(esc, tok)
			if X.Sign() > 0 && Y.Sign() > 0 {
				thr = e.csAmount(X)
				if thr.Cmp(X) < 0 {
					exact := csOutputPrice(thr, Y, X, fee)
					switch e.Pick(4) {
					case 0:
						maxIn = exact
						e.Stats.Count("boundary:autoswap-max-just-met")
					case 1:
						maxIn = new(big.Int).Sub(exact, big.NewInt(1))
						e.Stats.Count("boundary:autoswap-max-just-missed")
					}
				}
				if e.Chance(0.25) {
					for _, wl := range o.params.WL {
						if wl[0] == tok {
							// the sold amount should land around the per-swap maximum: pick the threshold from it
							mx := bigOf(wl[1])
							thr2 := csInputPrice(mx, Y, X, fee)
							if thr2.Sign() > 0 {
								thr = new(big.Int).Add(thr2, big.NewInt(int64(e.Pick(3)-1)))
								maxIn = new(big.Int).Add(mx, e.csAmount(mx))
								e.Stats.Count("boundary:autoswap-max-swap")
							}
						}
					}
				}
			}
		}
		if thr.Sign() <= 0 {
			thr = big.NewInt(1)
		}
		if maxIn.Sign() <= 0 {
			maxIn = big.NewInt(1)
		}
		op.A = []string{maxIn.String(), thr.String()}
	case "setparams":
		op.Kind = "setparams"
		op.Legacy = e.Chance(0.4)
		if op.Legacy {
			e.Stats.Count("setparams:legacy-parameter-change-proposal-route")
		}
		np := e.csGenParams(w, csTypicalFund(o))
		if e.Chance(0.5) { // change only caps / whitelist, keep the rest
			np.Fee, np.Tax, np.CfeeAmt, np.CfeeDenom = o.params.Fee, o.params.Tax, o.params.CfeeAmt, o.params.CfeeDenom
		}
		op.Params = &np
	case "setparams-bad":
		op.Kind = "setparams"
		np := o.params
		np.WL = append([][]string{}, o.params.WL...)
		switch e.Pick(6) {
		case 0:
			np.Fee = csS18.String()
		case 1:
			np.Fee = "-1"
		case 2:
			np.Tax = csS18.String()
		case 3:
			np.Cap = "0"
		case 4:
			np.Cap = "-7"
		default:
			np.CfeeAmt = "-1"
		}
		op.Params = &np
	default:
		op.Kind = "invalid"
		bads := []string{"sender-garbage", "recipient-garbage", "denom-garbage", "lpt-denom-garbage", "add-sender-garbage", "authority-user"}
		op.Bad = bads[e.Pick(len(bads))]
	}
	return op
}

// csBrokenInvariants evaluates every invariant registered with the crisis keeper and returns the broken routes.
func csBrokenInvariants(a *app.Canto, ctx sdk.Context) map[string]bool {
	out := map[string]bool{}
	for _, ir := range a.CrisisKeeper.Routes() {
		func() {
			defer func() {
				if r := recover(); r != nil {
					out[ir.FullRoute()+" (panic)"] = true
				}
			}()
			cctx, _ := ctx.CacheContext()
			if _, broken := ir.Invar(cctx); broken {
				out[ir.FullRoute()] = true
			}
		}()
	}
	return out
}

func runCoinswap(e *Env, prop string) {
	e.Header("From Coq Require Import ZArith List.\nFrom Canto Require Import Model.Coinswap Check.Common Check.CoinswapCheck.\nImport ListNotations.\nOpen Scope Z_scope.\n")
	e.Stats.Rule = "case = random valid coinswap params (fee 0 / 0.003 / 0.5 / 1-1ulp / 1ulp / random; creation fee+tax on and off; caps tiny..2^250; whitelist subsets) + funded users (magnitudes 1..5, 1..1e3, 1..1e9, k*2^j up to 2^200) + history of messages through the real message server (sell, buy both directions, add, remove, donations to escrows, onboarding-style keeper-level buys, live parameter changes, invalid/malformed messages), amounts aimed at every bound (just met / just missed) computed from the live pool state; recipients incl. module accounts and escrows, upper-case bech32; after every message the complete tracked bank projection (users, 4 escrows, 6 module accounts - two of them not yet in the account store - x 9 denoms + supplies), pools, sequence, params and decoded response are compared with the model and fed to the monitors; a digest of every untracked balance/supply must not change; non-trivial = at least one accepted pool operation; distinct by hash of the accepted-operation sequence"
	a, baseCtx := NewApp()
	e.ShardSize = 3
	nCases := e.Scale(30, 600)
	if e.Tier == "search" {
		nCases = 80
	}
	if e.Replay != nil {
		nCases = 1
	}
	for c := 0; c < nCases; c++ {
		ctx, _ := baseCtx.CacheContext()
		w := csNewWorld(a, ctx)
		var kase csCase
		if e.Replay != nil {
			mustUnmarshal(e.Replay, &kase)
		} else {
			kase.Funds = map[string][]string{}
			scale := e.Pick(4)
			for i := 0; i < csUsers; i++ {
				var f []string
				for d := 0; d <= csTokens; d++ {
					var v *big.Int
					switch scale {
					case 0:
						v = big.NewInt(int64(1 + e.Pick(60)))
					case 1:
						v = big.NewInt(int64(1000 + e.Pick(1_000_000)))
					case 2:
						v = new(big.Int).Mul(csS18, big.NewInt(int64(1+e.Pick(100000))))
					default:
						v = new(big.Int).Lsh(big.NewInt(int64(1+e.Pick(1000))), uint(100+e.Pick(100)))
					}
					f = append(f, v.String())
				}
				kase.Funds[fmt.Sprintf("U%d", i)] = f
			}
			kase.Params = e.csGenParams(w, bigOf(kase.Funds["U0"][0]))
			if e.Chance(0.35) {
				for d := 0; d < 1+csTokens; d++ {
					v := big.NewInt(0)
					if d == 0 || e.Chance(0.4) {
						v = new(big.Int).Add(e.Below(bigOf(kase.Funds["U0"][d])), big.NewInt(1))
					}
					kase.ModuleFunds = append(kase.ModuleFunds, v.String())
				}
				e.Stats.Count("prep:coinswap-module-account-holds-coins")
			}
		}
		// ---- set up the real state ----
		w.a.CoinswapKeeper.SetParams(ctx, w.toParams(kase.Params))
		for i := 0; i < csUsers; i++ {
			f := kase.Funds[fmt.Sprintf("U%d", i)]
			var coins sdk.Coins
			for d, dc := range append([]string{"S"}, w.dcodes[1:1+csTokens]...) {
				coins = coins.Add(sdk.NewCoin(w.denoms[dc], sdkmath.NewIntFromBigInt(bigOf(f[d]))))
			}
			if err := w.a.BankKeeper.MintCoins(ctx, coinswaptypes.ModuleName, coins); err != nil {
				panic(err)
			}
			if err := w.a.BankKeeper.SendCoinsFromModuleToAccount(ctx, coinswaptypes.ModuleName, w.users[i], coins); err != nil {
				panic(err)
			}
		}
		if len(kase.ModuleFunds) > 0 {
			var coins sdk.Coins
			for d, dc := range append([]string{"S"}, w.dcodes[1:1+csTokens]...) {
				if d < len(kase.ModuleFunds) && bigOf(kase.ModuleFunds[d]).Sign() > 0 {
					coins = coins.Add(sdk.NewCoin(w.denoms[dc], sdkmath.NewIntFromBigInt(bigOf(kase.ModuleFunds[d]))))
				}
			}
			if err := w.a.BankKeeper.MintCoins(ctx, coinswaptypes.ModuleName, coins); err != nil {
				panic(err)
			}
		}
		// the blocked-address set the keeper was built with must cover every module account (assumption of C09's theorem)
		blocked := w.a.BlockedAddrs()
		for _, m := range csModules {
			if !blocked[authtypes.NewModuleAddress(m).String()] {
				e.Stats.ImplFailures = append(e.Stats.ImplFailures, ImplFailure{Case: c, Step: -1, Monitor: "module-account-not-blocked", Detail: m})
			}
		}
		// the chain's registered accounting invariants (crisis routes): those that hold at the start of the case must keep
		// holding after every message (C02); evaluated per route so that one broken route does not hide another
		brokenAtStart := csBrokenInvariants(a, ctx)
		obs := w.observe(ctx)
		initTerm := csObsTerm(w, obs)
		now := new(big.Int).Add(TimeNs(GenesisTime), big.NewInt(e.Rng.Int63n(1_000_000_000)))
		nOps := e.Scale(60, 150)
		if e.Replay != nil {
			nOps = len(kase.Ops)
		}
		var steps []string
		sig := ""
		for i := 0; i < nOps; i++ {
			var op csOp
			if e.Replay != nil {
				op = kase.Ops[i]
			} else {
				switch e.Pick(4) {
				case 0: // whole seconds, so that deadline == block second is met
					now = new(big.Int).Mul(new(big.Int).Add(new(big.Int).Div(now, big.NewInt(1_000_000_000)), big.NewInt(int64(1+e.Pick(5)))), big.NewInt(1_000_000_000))
				case 1:
					now = new(big.Int).Add(now, big.NewInt(1))
				default:
					now = new(big.Int).Add(now, big.NewInt(e.Rng.Int63n(3_000_000_000)))
				}
				// mostly-valid stream: with probability 0.7 keep drawing (up to 8 times) until a dry run on a
				// throw-away branch is accepted; the remaining draws are kept whatever their outcome
				wantValid := e.Chance(0.7)
				for attempt := 0; attempt < 8; attempt++ {
					op = e.csGenOp(w, obs, now, prop)
					if !wantValid {
						break
					}
					dry, _ := ctx.CacheContext()
					if ok, _ := w.exec(dry, op); ok {
						break
					}
				}
				kase.Ops = append(kase.Ops, op)
			}
			ok, resp := w.exec(ctx, op)
			e.Stats.Evaluations++
			after := w.observe(ctx)
			if after.other != obs.other {
				e.Stats.ImplFailures = append(e.Stats.ImplFailures, ImplFailure{Case: c, Step: i, Monitor: "untracked-balance-changed",
					Detail: "a balance or supply outside the tracked accounts/denominations changed during a coinswap message"})
			}
			if prop == "C02" {
				for route := range csBrokenInvariants(a, ctx) {
					if !brokenAtStart[route] {
						e.Stats.ImplFailures = append(e.Stats.ImplFailures, ImplFailure{Case: c, Step: i, Monitor: "registered-invariant-broken",
							Detail: "crisis invariant " + route + " held before the history and is broken after this coinswap message"})
						brokenAtStart[route] = true // report once per case
					}
				}
				e.Stats.Count("invariant-routes-evaluated")
			}
			res := "None"
			if ok {
				var rs []string
				for _, r := range resp {
					rs = append(rs, Z(r))
				}
				res = "(Some " + L(rs) + ")"
				e.Stats.Count("ok:" + op.Kind)
				if op.Kind != "setparams" && op.Kind != "donate" {
					sig += fmt.Sprintf("%s%v;", op.Kind, op.A)
				}
			} else {
				e.Stats.Count("rejected:" + op.Kind)
			}
			steps = append(steps, csStepTerm(w, op, csOpTerm(op), res, obs, after))
			obs = after
		}
		if sig != "" {
			e.Stats.Nontrivial(sig)
		}
		var accts, denoms []string
		for _, ac := range w.acodes {
			accts = append(accts, csAcctTerm(ac))
		}
		for _, dc := range w.dcodes {
			denoms = append(denoms, csDenomTerm(dc))
		}
		term := App("mkCsCase", L(accts), L(denoms), initTerm, L(steps))
		e.AddCase("check_case", term, kase)
		e.Stats.Sample(kase)
	}
	for k, v := range csDebug {
		e.Stats.Count("debug-err:" + k)
		e.Stats.Distribution["debug-err:"+k] = v
	}
}
