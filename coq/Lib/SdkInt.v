(** sdkmath.Int (cosmossdk.io/math v1.3.0) as partial operations on unbounded Z.

    An Int panics when a result needs more than 256 bits (|x| >= 2^256) and on
    division by zero; [Quo] truncates toward zero (big.Int.Quo).  A panic is
    [None]; inside a message it is a rejected message. *)
From Coq Require Import ZArith Bool.
Open Scope Z_scope.

Module SdkInt.
  Definition bound : Z := 2 ^ 256.
  Definition overflows (x : Z) : bool := bound <=? Z.abs x.
  Definition chk (x : Z) : option Z := if overflows x then None else Some x.

  Definition add (a b : Z) : option Z := chk (a + b).
  Definition sub (a b : Z) : option Z := chk (a - b).
  Definition mul (a b : Z) : option Z := chk (a * b).
  Definition quo (a b : Z) : option Z := if b =? 0 then None else Some (Z.quot a b).
  (* NewIntFromBigInt *)
  Definition of_big (a : Z) : option Z := chk a.
  (* NewIntWithDecimal n dec *)
  Definition with_decimal (n dec : Z) : option Z := if dec <? 0 then None else chk (n * 10 ^ dec).
End SdkInt.

(** option monad notations used by the models *)
Definition obind {A B} (o : option A) (f : A -> option B) : option B :=
  match o with Some x => f x | None => None end.
Notation "x <- e1 ;; e2" := (obind e1 (fun x => e2)) (at level 61, e1 at next level, right associativity).
Notation "'guard' b ;; e" := (if b then e else None) (at level 61, b at next level, right associativity).
