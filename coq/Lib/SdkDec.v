(** sdkmath.LegacyDec (cosmossdk.io/math v1.3.0): 18-digit fixed point.

    A LegacyDec is represented by its raw integer (value * 10^18).  Mul and
    Quo chop with banker's rounding (chopPrecisionAndRound); results needing
    more than 315 bits panic; Quo by zero panics; Power is the
    square-and-multiply loop of PowerMut, which is structural recursion on the
    binary exponent. *)
From Coq Require Import ZArith Bool.
Open Scope Z_scope.

Module SdkDec.
  Definition S : Z := 10 ^ 18.              (* precisionReuse *)
  Definition one : Z := S.
  Definition bound : Z := 2 ^ 315.          (* maxDecBitLen = 256 + 59 *)
  Definition overflows (x : Z) : bool := bound <=? Z.abs x.
  Definition chk (x : Z) : option Z := if overflows x then None else Some x.

  (* chopPrecisionAndRound on a non-negative argument *)
  Definition chop_round_nn (x : Z) : Z :=
    let q := x / S in let r := x mod S in
    if 2 * r <? S then q
    else if S <? 2 * r then q + 1
    else if Z.even q then q else q + 1.
  (* chopPrecisionAndRound: negative arguments are negated, chopped, negated back *)
  Definition chop_round (x : Z) : Z :=
    if x <? 0 then - chop_round_nn (- x) else chop_round_nn x.

  Definition rmul (a b : Z) : Z := chop_round (a * b).
  Definition mul (a b : Z) : option Z := chk (rmul a b).
  Definition quo (a b : Z) : option Z :=
    if b =? 0 then None else chk (chop_round (Z.quot (a * S * S) b)).
  Definition add (a b : Z) : option Z := chk (a + b).
  Definition sub (a b : Z) : option Z := chk (a - b).
  Definition mul_int (a i : Z) : option Z := chk (a * i).
  Definition quo_int (a i : Z) : option Z := if i =? 0 then None else Some (Z.quot a i).
  (* LegacyNewDecFromInt: no overflow check in the SDK *)
  Definition of_int (i : Z) : Z := i * S.
  (* TruncateInt: truncation toward zero, then NewIntFromBigIntMut (256-bit check) *)
  Definition truncate_int (a : Z) : option Z :=
    let q := Z.quot a S in if 2 ^ 256 <=? Z.abs q then None else Some q.
  Definition min (a b : Z) : Z := if a <? b then a else b.

  (* PowerMut: for i := power; i > 1; { if i odd { tmp *= d }; i /= 2; d *= d }; return d * tmp *)
  Fixpoint powF (d t : Z) (p : positive) : Z :=
    match p with
    | xH => rmul d t
    | xO q => powF (rmul d d) t q
    | xI q => powF (rmul d d) (rmul t d) q
    end.
  (* every intermediate product must fit in 315 bits; the checked version *)
  Fixpoint powF_chk (d t : Z) (p : positive) : option Z :=
    match p with
    | xH => mul d t
    | xO q => match mul d d with Some d2 => powF_chk d2 t q | None => None end
    | xI q => match mul t d with
              | Some t' => match mul d d with Some d2 => powF_chk d2 t' q | None => None end
              | None => None end
    end.
  Definition power (d : Z) (n : N) : Z :=
    match n with N0 => one | Npos p => powF d one p end.
  Definition power_chk (d : Z) (n : N) : option Z :=
    match n with N0 => Some one | Npos p => powF_chk d one p end.
End SdkDec.
