(** Facts about LegacyDec arithmetic: rounding bounds, monotonicity, and that
    Power as the SDK executes it (square-and-multiply with banker's rounding at
    every multiplication) is non-increasing in the exponent for bases in [0,1]. *)
From Coq Require Import ZArith Lia Bool.
From Canto Require Import Lib.SdkDec.
Open Scope Z_scope.
Import SdkDec.

Lemma S_pos : 0 < S. Proof. unfold S. lia. Qed.
Lemma S_val : S = 1000000000000000000. Proof. reflexivity. Qed.

Lemma chop_round_nonneg_eq x : 0 <= x -> chop_round x = chop_round_nn x.
Proof. intros H. unfold chop_round. destruct (x <? 0) eqn:E; [apply Z.ltb_lt in E; lia|reflexivity]. Qed.

Lemma chop_round_nn_bounds x : 0 <= x ->
  2 * S * chop_round_nn x <= 2 * x + S /\ 2 * x - S <= 2 * S * chop_round_nn x.
Proof.
  intros Hx. unfold chop_round_nn.
  pose proof S_pos as HS.
  pose proof (Z.div_mod x S ltac:(lia)) as E.
  pose proof (Z.mod_pos_bound x S HS) as B.
  destruct (2 * (x mod S) <? S) eqn:E1; [apply Z.ltb_lt in E1; nia|apply Z.ltb_ge in E1].
  destruct (S <? 2 * (x mod S)) eqn:E2; [apply Z.ltb_lt in E2; nia|apply Z.ltb_ge in E2].
  destruct (Z.even (x / S)); nia.
Qed.

Lemma chop_round_bounds x : 0 <= x ->
  2 * S * chop_round x <= 2 * x + S /\ 2 * x - S <= 2 * S * chop_round x.
Proof. intros H. rewrite chop_round_nonneg_eq by exact H. apply chop_round_nn_bounds; exact H. Qed.

Lemma chop_round_nn_mono x y : 0 <= x -> x <= y -> chop_round_nn x <= chop_round_nn y.
Proof.
  intros Hx Hxy.
  pose proof S_pos as HS.
  destruct (Z.eq_dec (x / S) (y / S)) as [Eq|Ne].
  - unfold chop_round_nn. rewrite <- Eq.
    pose proof (Z.div_mod x S ltac:(lia)) as Ex.
    pose proof (Z.div_mod y S ltac:(lia)) as Ey.
    assert (x mod S <= y mod S) by nia.
    destruct (2 * (x mod S) <? S) eqn:A1; destruct (2 * (y mod S) <? S) eqn:B1;
    destruct (S <? 2 * (x mod S)) eqn:A2; destruct (S <? 2 * (y mod S)) eqn:B2;
    destruct (Z.even (x / S)); try lia;
    repeat match goal with
    | H : (_ <? _) = true |- _ => apply Z.ltb_lt in H
    | H : (_ <? _) = false |- _ => apply Z.ltb_ge in H end; lia.
  - assert (x / S < y / S).
    { pose proof (Z.div_le_mono x y S HS Hxy). lia. }
    assert (chop_round_nn x <= x / S + 1).
    { unfold chop_round_nn. destruct (_ <? _); [lia|]. destruct (_ <? _); [lia|]. destruct (Z.even _); lia. }
    assert (y / S <= chop_round_nn y).
    { unfold chop_round_nn. destruct (_ <? _); [lia|]. destruct (_ <? _); [lia|]. destruct (Z.even _); lia. }
    lia.
Qed.

Lemma chop_round_mono x y : 0 <= x -> x <= y -> chop_round x <= chop_round y.
Proof. intros. rewrite !chop_round_nonneg_eq by lia. apply chop_round_nn_mono; lia. Qed.

Lemma chop_round_exact k : 0 <= k -> chop_round (k * S) = k.
Proof.
  intros Hk. pose proof S_pos. rewrite chop_round_nonneg_eq by nia. unfold chop_round_nn.
  rewrite Z.div_mul by lia. rewrite Z.mod_mul by lia.
  replace (2*0 <? S) with true; [reflexivity|]. symmetry. apply Z.ltb_lt. lia.
Qed.

Lemma chop_round_nonneg x : 0 <= x -> 0 <= chop_round x.
Proof.
  intros. replace 0 with (chop_round (0 * S)) by (apply chop_round_exact; lia).
  apply chop_round_mono; lia.
Qed.

Lemma rmul_mono a b a' b' : 0 <= a <= a' -> 0 <= b <= b' -> rmul a b <= rmul a' b'.
Proof. intros. unfold rmul. apply chop_round_mono; nia. Qed.
Lemma rmul_one_r a : 0 <= a -> rmul a S = a.
Proof. intros. unfold rmul. apply chop_round_exact; lia. Qed.
Lemma rmul_one_l a : 0 <= a -> rmul S a = a.
Proof. intros. unfold rmul. rewrite Z.mul_comm. apply chop_round_exact; lia. Qed.
Lemma rmul_nonneg a b : 0 <= a -> 0 <= b -> 0 <= rmul a b.
Proof. intros. unfold rmul. apply chop_round_nonneg. nia. Qed.
Lemma rmul_le_l a b : 0 <= a -> 0 <= b <= S -> rmul a b <= a.
Proof. intros. rewrite <- (rmul_one_r a) at 2 by lia. apply rmul_mono; lia. Qed.
Lemma rmul_comm a b : rmul a b = rmul b a.
Proof. unfold rmul. rewrite Z.mul_comm. reflexivity. Qed.

Lemma sq_bounds d : 0 <= d <= S -> 0 <= rmul d d <= S.
Proof. intros. split; [apply rmul_nonneg; lia|]. pose proof (rmul_le_l d d). lia. Qed.
Lemma sq_le d : 0 <= d <= S -> rmul d d <= d.
Proof. intros. apply rmul_le_l; lia. Qed.

Lemma powF_mono_t p : forall d t t', 0 <= d <= S -> 0 <= t <= t' -> powF d t p <= powF d t' p.
Proof.
  induction p as [q IH|q IH|]; intros d t t' Hd Ht; cbn [powF].
  - apply IH. apply sq_bounds; lia.
    split; [apply rmul_nonneg; lia|apply rmul_mono; lia].
  - apply IH; [|lia]. apply sq_bounds; lia.
  - apply rmul_mono; lia.
Qed.

Lemma powF_bounds p : forall d t, 0 <= d <= S -> 0 <= t <= S -> 0 <= powF d t p <= S.
Proof.
  induction p as [q IH|q IH|]; intros d t Hd Ht; cbn [powF].
  - apply IH; [apply sq_bounds; lia|]. split; [apply rmul_nonneg; lia|]. pose proof (rmul_le_l t d). lia.
  - apply IH; [apply sq_bounds; lia|lia].
  - split; [apply rmul_nonneg; lia|]. pose proof (rmul_le_l d t). lia.
Qed.

Lemma powF_succ p : forall e u, 0 <= e <= u -> u <= S -> powF e S (Pos.succ p) <= powF e u p.
Proof.
  induction p as [q IH|q IH|]; intros e u He Hu; cbn [Pos.succ powF].
  - apply IH.
    + split; [apply rmul_nonneg; lia|apply rmul_mono; lia].
    + pose proof (rmul_le_l u e). lia.
  - rewrite rmul_one_l by lia.
    apply powF_mono_t; [|lia]. apply sq_bounds; lia.
  - rewrite rmul_one_r by (apply rmul_nonneg; lia). apply rmul_mono; lia.
Qed.

(** LegacyDec.Power is non-increasing in the exponent for every base in [0,1] *)
Theorem power_nonincreasing d n : 0 <= d <= S -> power d (N.succ n) <= power d n.
Proof.
  intros Hd. destruct n as [|p]; cbn [N.succ power]; unfold one.
  - cbn [powF]. rewrite rmul_one_r; lia.
  - destruct p as [q|q|]; cbn [Pos.succ powF].
    + rewrite rmul_one_l by lia.
      apply powF_succ; [|lia]. split; [apply rmul_nonneg; lia|apply sq_le; lia].
    + rewrite rmul_one_l by lia.
      apply powF_mono_t; [|lia]. apply sq_bounds; lia.
    + rewrite !rmul_one_r by (try apply rmul_nonneg; lia). apply rmul_le_l; lia.
Qed.

Theorem power_bounds d n : 0 <= d <= S -> 0 <= power d n <= S.
Proof.
  intros Hd. destruct n as [|p]; cbn [power]; unfold one; [pose proof S_pos; lia|].
  apply powF_bounds; [lia|pose proof S_pos; lia].
Qed.

(* for bases in [0,1] no intermediate product overflows: the checked power is the plain one *)
Lemma mul_small a b : 0 <= a <= S -> 0 <= b <= S -> mul a b = Some (rmul a b).
Proof.
  intros Ha Hb. unfold mul, chk, overflows.
  assert (0 <= rmul a b <= S) by (split; [apply rmul_nonneg; lia|pose proof (rmul_le_l a b); lia]).
  destruct (bound <=? Z.abs (rmul a b)) eqn:E; [|reflexivity].
  apply Z.leb_le in E. unfold bound in E. rewrite S_val in *. lia.
Qed.

Lemma powF_chk_small p : forall d t, 0 <= d <= S -> 0 <= t <= S -> powF_chk d t p = Some (powF d t p).
Proof.
  induction p as [q IH|q IH|]; intros d t Hd Ht; cbn [powF powF_chk].
  - rewrite (mul_small t d) by lia. rewrite (mul_small d d) by lia.
    apply IH; [apply sq_bounds; lia|]. split; [apply rmul_nonneg; lia|pose proof (rmul_le_l t d); lia].
  - rewrite (mul_small d d) by lia. apply IH; [apply sq_bounds; lia|lia].
  - apply mul_small; lia.
Qed.

Theorem power_chk_small d n : 0 <= d <= S -> power_chk d n = Some (power d n).
Proof.
  intros Hd. destruct n as [|p]; cbn [power power_chk]; [reflexivity|].
  apply powF_chk_small; [lia|unfold one; pose proof S_pos; lia].
Qed.
