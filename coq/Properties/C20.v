(** C20 — Passed lending-market and treasury proposals are recorded faithfully on the EVM.
    Statements only; proofs are in Proofs/GovshuttleProofs.v.

    [wf c st] (the store at the port address was deployed by the module
    account) holds in every state without a port and is preserved by every
    message ([C20_wf_reachable]), so it holds along every history that starts
    before the first govshuttle proposal. *)
From Coq Require Import ZArith List Bool.
From Canto Require Import Model.Govshuttle Proofs.GovshuttleProofs.
Import ListNotations.
Open Scope Z_scope.

Theorem C20_wf_reachable : forall c h st, g_port st = None -> wf c (run c h st).
Proof. exact wf_reachable. Qed.

(* accepted exactly when the authority is governance and the contents are valid *)
Theorem C20_accepted_iff : forall c o x st,
  wf c st -> (fst (step c o x st) = true <-> valid_op c x = true).
Proof. exact accepted_iff. Qed.

(* Ok -> QueryProp under the proposal's id (the chain's next id when it is 0) returns exactly:
   lending: title, description, HexToAddress of each account, values, signatures, Hex2Bytes of each call data;
   treasury: targets [recipient], values [amount], signatures [denom], no call data *)
Theorem C20_recorded : forall c o x st st',
  wf c st -> exec c o x st = Some st' ->
  g_query st' (op_id o x) = expected_record o x /\
  op_id o x = (match x with
               | Lending m => if lm_id m =? 0 then o_next_id o else lm_id m
               | Treasury m => if tm_id m =? 0 then o_next_id o else tm_id m
               end) /\
  expected_record o x =
    (match x with
     | Lending m => mkProp (op_id o x) (lm_title m) (lm_desc m) (map hex_to_address (lm_accounts m))
                           (lm_values m) (lm_sigs m) (map hex2bytes (lm_calldatas m))
     | Treasury m => mkProp (op_id o x) (tm_title m) (tm_desc m) [hex_to_address (tm_recipient m)]
                            [tm_amount m] [tm_denom m] []
     end).
Proof. exact recorded_full. Qed.

(* well-formed targets (0x + 40 hex digits) and well-formed hex call data are recorded literally *)
Theorem C20_recorded_wellformed : forall o m addrs datas,
  Forall (fun b => Forall is_byte b /\ zlen b = 20) addrs ->
  Forall (Forall is_byte) datas ->
  lm_accounts m = map (fun b => 48 :: 120 :: bytes2hex b) addrs ->
  lm_calldatas m = map bytes2hex datas ->
  expected_record o (Lending m) =
  mkProp (effective_id o (lm_id m)) (lm_title m) (lm_desc m) (map be_value addrs)
         (lm_values m) (lm_sigs m) datas.
Proof. exact expected_wellformed. Qed.

(* earlier records with other ids stay retrievable: one step, and any later history *)
Theorem C20_others_kept : forall c o x st st',
  wf c st -> exec c o x st = Some st' ->
  forall j, j <> op_id o x -> g_query st' j = g_query st j.
Proof. exact others_kept. Qed.

Theorem C20_record_persists : forall c h st i,
  wf c st ->
  Forall (fun ox => op_id (fst ox) (snd ox) <> i) h ->
  g_query (run c h st) i = g_query st i.
Proof. exact record_persists. Qed.

(* the store is deployed by the first accepted proposal ... *)
Theorem C20_port_set_first : forall c o x st st',
  g_port st = None -> exec c o x st = Some st' -> g_port st' = Some (o_fresh o).
Proof. exact port_set_first. Qed.

(* ... not before ... *)
Theorem C20_port_none_run : forall c h st,
  g_port (run c h st) = None ->
  run c h st = st /\ Forall (fun ox => fst (step c (fst ox) (snd ox) st) = false) h.
Proof. exact port_none_run. Qed.

(* ... and its address never changes over any history *)
Theorem C20_port_once : forall c h1 h2 st a,
  g_port (run c h1 st) = Some a -> g_port (run c (h1 ++ h2) st) = Some a.
Proof. exact port_once. Qed.

(* unequal list lengths, unsupported denomination, non-governance authority (and a missing
   metadata block): rejected, no change *)
Theorem C20_bad_rejected : forall c o x st,
  valid_op c x = false -> step c o x st = (false, st).
Proof. exact bad_rejected. Qed.

Theorem C20_invalid_cases : forall c,
  (forall m, lm_auth m <> cfg_gov c -> valid_op c (Lending m) = false) /\
  (forall m, length (lm_calldatas m) <> length (lm_values m) -> valid_op c (Lending m) = false) /\
  (forall m, length (lm_values m) <> length (lm_sigs m) -> valid_op c (Lending m) = false) /\
  (forall m, lm_has_meta m = false -> valid_op c (Lending m) = false) /\
  (forall m, tm_auth m <> cfg_gov c -> valid_op c (Treasury m) = false) /\
  (forall m, map lower_byte (tm_denom m) <> str_canto -> map lower_byte (tm_denom m) <> str_note ->
             valid_op c (Treasury m) = false).
Proof. exact invalid_cases. Qed.

Theorem C20_valid_cases : forall c,
  (forall m, lm_auth m = cfg_gov c -> length (lm_calldatas m) = length (lm_values m) ->
             length (lm_values m) = length (lm_sigs m) -> lm_has_meta m = true ->
             valid_op c (Lending m) = true) /\
  (forall m, tm_auth m = cfg_gov c ->
             (map lower_byte (tm_denom m) = str_canto \/ map lower_byte (tm_denom m) = str_note) ->
             valid_op c (Treasury m) = true).
Proof. exact valid_cases. Qed.

(* hex: decoding inverts encoding on every byte string; a string is decoded completely exactly
   when it is well-formed (even length, hex digits only), and then re-encodes to itself in lower
   case; a 0x prefix makes the recorded call data empty *)
Theorem C20_hex_round_trip : forall b, Forall is_byte b -> hex2bytes (bytes2hex b) = b.
Proof. exact hex_round_trip. Qed.

Theorem C20_hex_wellformed : forall s,
  (wf_hex s = true <-> 2 * zlen (hex2bytes s) = zlen s) /\
  2 * zlen (hex2bytes s) <= zlen s /\
  (wf_hex s = true -> bytes2hex (hex2bytes s) = map lower_byte s) /\
  hex2bytes (48 :: 120 :: s) = [] /\ hex2bytes (48 :: 88 :: s) = [].
Proof. exact hex_wellformed. Qed.

Print Assumptions C20_wf_reachable.
Print Assumptions C20_accepted_iff.
Print Assumptions C20_recorded.
Print Assumptions C20_recorded_wellformed.
Print Assumptions C20_others_kept.
Print Assumptions C20_record_persists.
Print Assumptions C20_port_set_first.
Print Assumptions C20_port_none_run.
Print Assumptions C20_port_once.
Print Assumptions C20_bad_rejected.
Print Assumptions C20_invalid_cases.
Print Assumptions C20_valid_cases.
Print Assumptions C20_hex_round_trip.
Print Assumptions C20_hex_wellformed.
