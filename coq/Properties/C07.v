(** C07 — Only a message's required signers can be debited by it.
    Statements only; proofs are in Proofs/SignersProofs.v. *)
From Coq Require Import ZArith List Bool.
From Canto Require Import Model.Coinswap Model.Signers Proofs.SignersProofs.
From Canto Require Check.SignersCheck.
Import ListNotations.
Open Scope Z_scope.

(* "The signer set the chain derives is exactly the paying account named in the
   message, for every well-formed message": all five message types, every
   payer, recipient, amount and every accepted spelling of the paying field *)
Theorem C07_signers_exact : forall m, payer_wf m = true -> signers m = Some [payer_of m].
Proof. exact signers_exact. Qed.

(* the same per message type, in the words of the property *)
Theorem C07_signers_swap_order : forall p pp r is_buy din ain dout aout dl,
  bech_ok pp = true -> signers (MSwapOrder p pp r is_buy din ain dout aout dl) = Some [User p].
Proof. exact signers_exact_swap. Qed.
Theorem C07_signers_add_liquidity : forall p pp tok a b c dl,
  bech_ok pp = true -> signers (MAddLiquidity p pp tok a b c dl) = Some [User p].
Proof. exact signers_exact_add. Qed.
Theorem C07_signers_remove_liquidity : forall p pp lpt a b c dl,
  bech_ok pp = true -> signers (MRemoveLiquidity p pp lpt a b c dl) = Some [User p].
Proof. exact signers_exact_remove. Qed.
Theorem C07_signers_convert_coin : forall p pp r c amt g hc,
  bech_ok pp = true -> signers (MConvertCoin p pp r c amt g hc) = Some [User p].
Proof. exact signers_exact_convert_coin. Qed.
Theorem C07_signers_convert_erc20 : forall p pp junk r c cp amt g hc,
  hex_ok pp = true -> signers (MConvertERC20 p pp junk r c cp amt g hc) = Some [User p].
Proof. exact signers_exact_convert_erc20. Qed.

(* "every account whose coin or token balance decreases when it executes, other
   than the pool escrow or module account acting as counterparty, is among the
   signers the chain requires for that message": every state with validated
   coinswap parameters, every message (well-formed or not), every account, every
   denomination and every pair's token contract *)
Theorem C07_only_signers_debited : forall now s m a,
  params_valid (st_params (s_cs s)) = true ->
  debited s (fst (deliver now s m)) a ->
  is_counterparty s m a = true \/ in_signers m a = true.
Proof. exact only_signers_debited. Qed.

Theorem C07_only_signers_debited_list : forall now s m a s' cl,
  params_valid (st_params (s_cs s)) = true ->
  deliver now s m = (s', cl) -> debited s s' a ->
  is_counterparty s m a = true \/ exists l, signers m = Some l /\ In a l.
Proof. exact only_signers_debited_list. Qed.

(* both halves together: apart from the counterparty only the paying account named in the message pays *)
Theorem C07_only_named_payer_debited : forall now s m a,
  params_valid (st_params (s_cs s)) = true -> payer_wf m = true ->
  debited s (fst (deliver now s m)) a ->
  is_counterparty s m a = true \/ a = payer_of m.
Proof. exact only_named_payer_debited. Qed.

(* a paying field in a spelling its field does not accept: the message is never executed *)
Theorem C07_malformed_payer_rejected : forall now s m,
  payer_wf m = false -> deliver now s m = (s, CRejected).
Proof. exact malformed_payer_rejected. Qed.

(* a message that is not executed debits nobody *)
Theorem C07_not_ok_no_debit : forall now s m a,
  snd (deliver now s m) <> COk -> ~ debited s (fst (deliver now s m)) a.
Proof. exact not_ok_no_debit. Qed.

(* every history of user messages: in every step only signers of THAT step's message (or its counterparty) pay *)
Theorem C07_history : forall h s,
  params_valid (st_params (s_cs s)) = true -> Forall step_ok (trace h s).
Proof. exact history_only_signers_debited. Qed.
Theorem C07_history_is_run : forall h s, final (trace h s) s = run h s.
Proof. exact trace_run. Qed.

(* the two monitors the correspondence check evaluates on the implementation's observations are the boolean
   forms of the theorems: they hold of every transition of the model, for every tracked universe *)
Theorem C07_monitor_sound : forall now s m accts denoms pairs,
  params_valid (st_params (s_cs s)) = true ->
  SignersCheck.mon_only_signers accts denoms pairs s (fst (deliver now s m)) m (signers m) = true.
Proof. exact monitor_sound. Qed.
Theorem C07_monitor_exact_sound : forall m, SignersCheck.mon_exact_signer m (signers m) = true.
Proof. exact monitor_exact_sound. Qed.

Print Assumptions C07_signers_exact.
Print Assumptions C07_signers_swap_order.
Print Assumptions C07_signers_add_liquidity.
Print Assumptions C07_signers_remove_liquidity.
Print Assumptions C07_signers_convert_coin.
Print Assumptions C07_signers_convert_erc20.
Print Assumptions C07_only_signers_debited.
Print Assumptions C07_only_signers_debited_list.
Print Assumptions C07_only_named_payer_debited.
Print Assumptions C07_malformed_payer_rejected.
Print Assumptions C07_not_ok_no_debit.
Print Assumptions C07_history.
Print Assumptions C07_history_is_run.
Print Assumptions C07_monitor_sound.
Print Assumptions C07_monitor_exact_sound.
