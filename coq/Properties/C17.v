(** C17 — Only governance can change parameters or registrations; stored params stay valid.
    Statements only; proofs are in Proofs/AuthorityProofs.v.

    [R] is the part of the chain state the five non-parameter handlers work on
    (token-pair registry, port address, EVM); what the keeper does with it once
    the authority check has passed is an arbitrary function carried by the
    operation, so the theorems hold for every behaviour of that code. *)
From Coq Require Import ZArith List Bool.
From Canto Require Import Model.Authority Proofs.AuthorityProofs.
Import ListNotations.
Open Scope Z_scope.

(* any authority string other than the governance account's: rejected, nothing changes — all ten handlers *)
Theorem C17_non_gov_rejected : forall R gov (x : op R) st,
  op_auth x <> gov -> step gov x st = (false, st).
Proof. exact @non_gov_rejected. Qed.

Theorem C17_non_gov_rejected_each : forall R gov a (st : chain R),
  a <> gov ->
  (forall n p, step gov (UpdCoinswap a n p) st = (false, st)) /\
  (forall n p, step gov (UpdInflation a n p) st = (false, st)) /\
  (forall n p, step gov (UpdCsr a n p) st = (false, st)) /\
  (forall n p, step gov (UpdOnboarding a n p) st = (false, st)) /\
  (forall p, step gov (UpdErc20 a p) st = (false, st)) /\
  (forall inner, step gov (Priv RegisterCoin a inner) st = (false, st)) /\
  (forall inner, step gov (Priv RegisterERC20 a inner) st = (false, st)) /\
  (forall inner, step gov (Priv ToggleConversion a inner) st = (false, st)) /\
  (forall inner, step gov (Priv LendingMarket a inner) st = (false, st)) /\
  (forall inner, step gov (Priv TreasuryProp a inner) st = (false, st)).
Proof. exact @non_gov_rejected_each. Qed.

(* genesis valid -> after any history of attempts every module's stored params are valid *)
Theorem C17_stored_valid : forall R gov (h : list (op R)) st,
  chain_valid st = true -> chain_valid (run gov h st) = true.
Proof. exact @stored_valid. Qed.

(* accepted -> stored exactly as submitted, all other parameter sets untouched *)
Theorem C17_stored_as_submitted : forall R gov (x : op R) st st',
  step gov x st = (true, st') ->
  match x with
  | UpdCoinswap _ _ p => st' = mkChain p (c_inf st) (c_csr st) (c_onb st) (c_erc st) (c_reg st)
  | UpdInflation _ _ p => st' = mkChain (c_cs st) p (c_csr st) (c_onb st) (c_erc st) (c_reg st)
  | UpdCsr _ _ p => st' = mkChain (c_cs st) (c_inf st) p (c_onb st) (c_erc st) (c_reg st)
  | UpdOnboarding _ _ p => st' = mkChain (c_cs st) (c_inf st) (c_csr st) p (c_erc st) (c_reg st)
  | UpdErc20 _ p => st' = mkChain (c_cs st) (c_inf st) (c_csr st) (c_onb st) p (c_reg st)
  | Priv _ _ _ => c_cs st' = c_cs st /\ c_inf st' = c_inf st /\ c_csr st' = c_csr st /\
                  c_onb st' = c_onb st /\ c_erc st' = c_erc st
  end.
Proof. exact @stored_as_submitted. Qed.

(* an update is accepted exactly when governance submits complete parameters that satisfy the module's rules *)
Theorem C17_accepted_iff : forall R gov (st : chain R),
  (forall a n p, fst (step gov (UpdCoinswap a n p) st) = true <-> a = gov /\ n = false /\ cs_valid p = true) /\
  (forall a n p, fst (step gov (UpdInflation a n p) st) = true <-> a = gov /\ n = false /\ inf_valid p = true) /\
  (forall a n p, fst (step gov (UpdCsr a n p) st) = true <-> a = gov /\ n = false /\ csr_valid p = true) /\
  (forall a n p, fst (step gov (UpdOnboarding a n p) st) = true <-> a = gov /\ n = false /\ onb_valid p = true) /\
  (forall a p, fst (step gov (UpdErc20 a p) st) = true <-> a = gov).
Proof. exact @accepted_iff. Qed.

(* the validity predicates in arithmetic (LegacyDec raw values: 1 = 10^18) *)
Theorem C17_cs_valid_meaning : forall p,
  cs_valid p = true <->
  0 <= cs_fee p < 10 ^ 18 /\ 0 <= cs_pcf_amount p /\ 0 <= cs_tax p < 10 ^ 18 /\ 0 < cs_max_std p /\
  cs_v_max_swap (cs_max_swap p) = true.
Proof. exact cs_valid_meaning. Qed.

Theorem C17_inf_valid_meaning : forall p,
  inf_valid p = true <->
  valid_denom (inf_denom p) = true /\
  0 <= inf_a p /\ 0 <= inf_r p <= 10 ^ 18 /\ 0 <= inf_c p /\ 0 < inf_bt p <= 10 ^ 18 /\ 0 <= inf_mv p /\
  inf_computable (inf_a p) (inf_r p) (inf_c p) (inf_bt p) (inf_mv p) = true /\
  0 <= inf_staking p /\ 0 <= inf_community p /\ inf_staking p + inf_community p = 10 ^ 18.
Proof. exact inf_valid_meaning. Qed.

Theorem C17_csr_valid_meaning : forall p, csr_valid p = true <-> 0 <= csr_shares p <= 10 ^ 18.
Proof. exact csr_valid_meaning. Qed.

Theorem C17_onb_valid_meaning : forall p, onb_valid p = true <-> 0 <= onb_threshold p.
Proof. exact onb_valid_meaning. Qed.

Print Assumptions C17_non_gov_rejected.
Print Assumptions C17_non_gov_rejected_each.
Print Assumptions C17_stored_valid.
Print Assumptions C17_stored_as_submitted.
Print Assumptions C17_accepted_iff.
Print Assumptions C17_cs_valid_meaning.
Print Assumptions C17_inf_valid_meaning.
Print Assumptions C17_csr_valid_meaning.
Print Assumptions C17_onb_valid_meaning.
