(** C14 — Disabled conversion means no conversion, by any route.
    Statements only; proofs are in Proofs/Erc20Proofs.v, the model in Model/Erc20.v.

    The gate theorems need no hypothesis on the state: they hold in every state, hence at
    every step of every history however switch changes are interleaved
    ([C14_gates_under_flips]).  Only the "disabled period" theorem uses [wf_blocked] (the
    module account is a blocked address) and [origin_ok_op] (nothing originates from the
    module address), for the bank sends of the paired denomination. *)
From Coq Require Import ZArith NArith List Bool.
From Canto Require Import Model.Erc20 Proofs.Erc20Proofs Proofs.Erc20Accounts.
Import ListNotations.
Open Scope Z_scope.

(* msg_gate: module disabled or pair toggled off -> both messages are rejected and the
   state (both ledgers of every pair) is unchanged.  [o] ranges over ConvertCoin and
   ConvertERC20, [p] over pairs of either kind. *)
Theorem C14_msg_gate : forall s p o sender receiver,
  is_convert_msg o = Some (sender, receiver) ->
  en_mod s = false \/ p_enabled (pairs s p) = false ->
  exec s (OnPair p o) = None /\ deliver s (OnPair p o) = s.
Proof. exact msg_gate. Qed.

(* receiver_gate: a receiver that may not receive funds, or a third party while bank sends
   of the coin are disabled -> rejected, state unchanged *)
Theorem C14_receiver_gate : forall s p o sender receiver,
  is_convert_msg o = Some (sender, receiver) ->
  blocked s receiver = true \/ (sender <> receiver /\ p_sendok (pairs s p) = false) ->
  exec s (OnPair p o) = None /\ deliver s (OnPair p o) = s.
Proof. exact receiver_gate. Qed.

(* in particular the erc20 module account itself *)
Theorem C14_receiver_module_account : forall s p o sender,
  wf_blocked (blocked s) -> is_convert_msg o = Some (sender, MOD) ->
  exec s (OnPair p o) = None.
Proof. exact receiver_module_account. Qed.

(* "third party" is about ACCOUNTS.  Accounts are numbers read from all the bytes of the address;
   a 32-byte Cosmos account (legal as MsgConvertCoin.Sender and MsgConvertERC20.Receiver) whose
   last 20 bytes are the other party's address has that party's EVM form (common.BytesToAddress)
   and is nevertheless a third party: rejected while bank sends of the coin are disabled *)
Theorem C14_alias_is_third_party : forall s p o sender receiver,
  is_convert_msg o = Some (sender, receiver) ->
  evm_form sender = evm_form receiver -> sender <> receiver ->
  p_sendok (pairs s p) = false ->
  exec s (OnPair p o) = None /\ deliver s (OnPair p o) = s.
Proof. exact alias_is_third_party. Qed.

(* with the other gates open and bank sends of the coin disabled, the gate is exactly
   "sender and receiver are the same account" *)
Theorem C14_send_gate_is_on_accounts : forall m bl ps sender receiver,
  m = true -> p_enabled ps = true -> bl receiver = false -> p_sendok ps = false ->
  minting_enabled m bl ps sender receiver = N.eqb sender receiver.
Proof. exact send_gate_is_on_accounts. Qed.

(* the list of gates is complete: a conversion message that succeeds passed all of them *)
Theorem C14_msg_ok_gate_open : forall m h bl ps o sender receiver ps',
  is_convert_msg o = Some (sender, receiver) ->
  exec_pair m h bl ps o = Some ps' ->
  m = true /\ p_enabled ps = true /\ bl receiver = false /\
  (sender = receiver \/ p_sendok ps = true).
Proof. exact msg_ok_gate_open. Qed.

(* hook_gate: module or hook disabled or pair toggled off -> an ERC-20 transfer (to the
   module address or anywhere else) leaves the bank side of the pair unchanged, is exactly
   the ordinary transfer on the ERC-20 ledger, and is carried out whenever the sender owns
   the tokens *)
Theorem C14_hook_gate : forall s p from to amt,
  en_mod s = false \/ en_hook s = false \/ p_enabled (pairs s p) = false ->
  let s' := deliver s (OnPair p (EvmTransfer from to amt)) in
  bank_same (pairs s p) (pairs s' p) /\
  exec_pair (en_mod s) (en_hook s) (blocked s) (pairs s p) (EvmTransfer from to amt) =
    (if amt <? 0 then None else tmove (pairs s p) from to amt) /\
  (from <> ZERO -> to <> ZERO -> 0 <= amt <= p_tbal (pairs s p) from ->
   exists ps', tmove (pairs s p) from to amt = Some ps' /\ pairs s' p = ps').
Proof. exact hook_gate. Qed.

(* what the ordinary transfer is *)
Theorem C14_ordinary_transfer : forall ps a b amt ps',
  tmove ps a b amt = Some ps' ->
  p_cbal ps' = p_cbal ps /\ p_supply ps' = p_supply ps /\ p_total ps' = p_total ps /\
  p_kind ps' = p_kind ps /\ p_enabled ps' = p_enabled ps /\ p_sendok ps' = p_sendok ps /\
  p_selfburned ps' = p_selfburned ps /\ p_stuck ps' = p_stuck ps /\
  (forall x, x <> a -> x <> b -> p_tbal ps' x = p_tbal ps x) /\
  (a <> b -> p_tbal ps' a = p_tbal ps a - amt /\ p_tbal ps' b = p_tbal ps b + amt) /\
  (a = b -> p_tbal ps' a = p_tbal ps a).
Proof. exact tmove_effect. Qed.

(* ordinary transfers keep working under every switch setting *)
Theorem C14_transfer_works : forall m h bl ps from to amt,
  from <> ZERO -> to <> ZERO -> 0 <= amt <= p_tbal ps from ->
  exists ps', exec_pair m h bl ps (EvmTransfer from to amt) = Some ps'.
Proof. exact transfer_works. Qed.

(* gates_under_flips: at every step of every history — whatever SetParams / Toggle /
   SetSendEnabled operations precede it — the gates hold for the state that step starts from *)
Theorem C14_gates_under_flips : forall ops s, Forall gate_step (trace s ops).
Proof. exact gates_under_flips. Qed.

(* a disabled period: from a state in which the module is off or the pair is toggled off,
   through any history that does not change the parameters or toggle this pair, no coin of
   the pair is minted, burned, escrowed or released and no token is minted *)
Theorem C14_disabled_period_frozen : forall ops s p,
  wf_blocked (blocked s) -> Forall origin_ok_op ops -> Forall (keeps_switches p) ops ->
  en_mod s = false \/ p_enabled (pairs s p) = false ->
  let ps := pairs s p in
  let ps' := pairs (run ops s) p in
  p_supply ps' = p_supply ps /\ escrow ps' = escrow ps /\ p_total ps' <= p_total ps.
Proof. exact disabled_period_frozen. Qed.

(* non-vacuity: the same conversion succeeds with the gates open and is rejected with any
   one closed; the same transfer converts with the hook on and is a plain transfer with it off *)
Example C14_example_open :
  exists s', exec ex_state (OnPair 0 (ConvertCoin 1%N 2%N 40)) = Some s' /\
             escrow (pairs s' 0) = 90 /\ p_tbal (pairs s' 0) 2%N = 70.
Proof. exact ex_gate_open. Qed.
Example C14_example_closed :
  exec (mkState false true ex_blocked (pairs ex_state)) (OnPair 0 (ConvertCoin 1%N 2%N 40)) = None /\
  exec ex_state (OnPair 0 (ConvertCoin 1%N OTHER_MODULE 40)) = None /\
  exec ex_state (OnPair 1 (ConvertERC20 2%N MOD 5)) = None.
Proof. exact ex_gate_closed. Qed.
Example C14_example_alias :
  (evm_form ALIAS2 = evm_form 2%N /\ ALIAS2 <> 2%N) /\
  p_cbal (pairs (deliver ex_state (OnPair 0 (ConvertERC20 2%N ALIAS2 5))) 0) ALIAS2 = 5 /\
  exec ex_nosend (OnPair 0 (ConvertERC20 2%N ALIAS2 5)) = None /\
  exec ex_nosend (OnPair 0 (ConvertCoin ALIAS2 2%N 5)) = None /\
  exec ex_nosend (OnPair 0 (ConvertERC20 2%N 2%N 5)) <> None.
Proof.
  exact (conj ex_alias_shares_evm_form (conj (proj1 ex_alias_open) ex_alias_closed)).
Qed.
Example C14_example_hook :
  let t := OnPair 0 (EvmTransfer 3%N MOD 20) in
  escrow (pairs (deliver ex_state t) 0) = 30 /\
  escrow (pairs (deliver (mkState true false ex_blocked (pairs ex_state)) t) 0) = 50 /\
  p_tbal (pairs (deliver (mkState true false ex_blocked (pairs ex_state)) t) 0) MOD = 20.
Proof. exact ex_hook_open_vs_closed. Qed.

Print Assumptions C14_msg_gate.
Print Assumptions C14_receiver_gate.
Print Assumptions C14_receiver_module_account.
Print Assumptions C14_alias_is_third_party.
Print Assumptions C14_send_gate_is_on_accounts.
Print Assumptions C14_msg_ok_gate_open.
Print Assumptions C14_hook_gate.
Print Assumptions C14_ordinary_transfer.
Print Assumptions C14_transfer_works.
Print Assumptions C14_gates_under_flips.
Print Assumptions C14_disabled_period_frozen.
