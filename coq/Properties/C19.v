(** C19 — Transaction admission routes Ethereum and Cosmos messages to the right checks.
    Statements only; proofs are in Proofs/AnteProofs.v.  [admission e t] is the model of
    CheckTx/FinalizeBlock admission of transaction [t] (Model/Ante.v); [e] carries what the
    property quantifies over besides the transaction: the simulation flag, the codec's registry of
    extension options and the outcome of every unmodelled check (signatures, fees, gas, ...),
    which can only reject. *)
From Coq Require Import List Arith Bool String.
From Canto Require Import Model.Ante Proofs.AnteProofs.
Import ListNotations.
Open Scope string_scope.
Open Scope list_scope.

(* admitted with a top-level Ethereum message => Ethereum option (the only option), Ethereum chain,
   only Ethereum messages, and the chain's signature verification and fee deduction both ran and
   did not object *)
Theorem C19_eth_only_eth_path : forall e t,
  admission e t = Accept -> has_eth (tx_msgs t) = true ->
  tx_opts t = [eth_url] /\
  route_of (e_sim e) (tx_opts t) = Some REth /\
  forallb is_eth (tx_msgs t) = true /\
  In d_eth_sig ref_eth_chain /\ In d_eth_fee ref_eth_chain /\
  e_orc e d_eth_sig t = true /\ e_orc e d_eth_fee t = true.
Proof. exact eth_only_eth_path. Qed.

(* never inside an ordinary, simulation or EIP-712 Cosmos transaction *)
Theorem C19_no_eth_in_cosmos : forall e t r,
  admission e t = Accept -> route_of (e_sim e) (tx_opts t) = Some r -> r <> REth ->
  has_eth (tx_msgs t) = false.
Proof. exact no_eth_in_cosmos. Qed.
Theorem C19_no_eth_unless_eth_option : forall e t,
  admission e t = Accept -> (forall rest, tx_opts t <> eth_url :: rest) -> has_eth (tx_msgs t) = false.
Proof. exact no_eth_unless_eth_option. Qed.

(* a first extension option outside the switch is rejected; the dynamic-fee option is one *)
Theorem C19_unknown_ext_rejected : forall e o rest msgs,
  ~ In o (map fst ref_switch) -> exists r, admission e (mkTx (o :: rest) msgs) = Reject r.
Proof. exact unknown_ext_rejected. Qed.
Theorem C19_dynfee_rejected : forall e rest msgs,
  exists r, admission e (mkTx (dynfee_url :: rest) msgs) = Reject r.
Proof. exact dynfee_rejected. Qed.
Theorem C19_unknown_ext_reason : forall e o rest m ms,
  ~ In o (map fst ref_switch) ->
  forallb (fun o => mem o (e_ext_registered e)) (o :: rest) = true ->
  (negb (e_vest_registered e) && has_vest_list (m :: ms)) = false ->
  admission e (mkTx (o :: rest) (m :: ms)) = Reject RUnknownExt.
Proof. exact unknown_ext_reason. Qed.

(* authz: the limiter itself, for all message forests (DESIGN.md A.3) ... *)
Theorem C19_authz_safe : forall msgs,
  authz_ok msgs = true -> bad_list msgs false = false /\ depth_list msgs <= 5.
Proof. exact authz_safe. Qed.
Theorem C19_too_deep_rejected : forall msgs, 6 <= depth_list msgs -> authz_ok msgs = false.
Proof. exact too_deep_rejected. Qed.
(* ... and for whole transactions, on every route *)
Theorem C19_admission_authz_safe : forall e t,
  admission e t = Accept -> bad_list (tx_msgs t) false = false /\ depth_list (tx_msgs t) <= 5.
Proof. exact admission_authz_safe. Qed.
Theorem C19_admission_too_deep_rejected : forall e t,
  6 <= depth_list (tx_msgs t) -> exists r, admission e t = Reject r.
Proof. exact admission_too_deep_rejected. Qed.

(* the three Cosmos chains start with reject-Ethereum, then the limiter *)
Theorem C19_chains_start_right :
  firstn 2 ref_cosmos_chain = [d_reject; d_authz] /\
  firstn 2 ref_eip712_chain = [d_reject; d_authz] /\
  firstn 2 ref_sim_chain = [d_reject; d_authz].
Proof. exact chains_start_right. Qed.

(* the list wired in app.go names the Ethereum message and the three vesting-creation messages *)
Theorem C19_disabled_covers :
  In m_eth ref_disabled /\ In m_vest ref_disabled /\ In m_vest_perm ref_disabled /\ In m_vest_periodic ref_disabled.
Proof. exact disabled_covers. Qed.

(* the Cosmos routes: signature verification and fee deduction ran; EIP-712 insists on one option
   (checked inside signature verification, hence only observable on signed transactions: the
   harness's signed stream reaches it) *)
Theorem C19_eip712_one_option : forall e t,
  admission e t = Accept -> route_of (e_sim e) (tx_opts t) = Some REip712 ->
  tx_opts t = [web3_url] /\ e_orc e d_eip712_sig t = true /\ e_orc e d_deduct_fee t = true.
Proof. exact eip712_one_option. Qed.
Theorem C19_plain_cosmos_checked : forall e t,
  admission e t = Accept -> tx_opts t = [] -> e_sim e = false ->
  e_orc e d_sig t = true /\ e_orc e d_deduct_fee t = true.
Proof. exact plain_cosmos_checked. Qed.

(* the unmodelled checks can only reject *)
Theorem C19_oracle_only_rejects : forall e t,
  admission e t = Accept ->
  admission (mkEnv (e_sim e) (e_ext_registered e) (e_vest_registered e) orc_true) t = Accept.
Proof. exact oracle_only_rejects. Qed.

Print Assumptions C19_eth_only_eth_path.
Print Assumptions C19_no_eth_in_cosmos.
Print Assumptions C19_no_eth_unless_eth_option.
Print Assumptions C19_unknown_ext_rejected.
Print Assumptions C19_dynfee_rejected.
Print Assumptions C19_unknown_ext_reason.
Print Assumptions C19_authz_safe.
Print Assumptions C19_too_deep_rejected.
Print Assumptions C19_admission_authz_safe.
Print Assumptions C19_admission_too_deep_rejected.
Print Assumptions C19_chains_start_right.
Print Assumptions C19_disabled_covers.
Print Assumptions C19_eip712_one_option.
Print Assumptions C19_plain_cosmos_checked.
Print Assumptions C19_oracle_only_rejects.
