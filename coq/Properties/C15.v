(** C15 — Token-pair registry stays a consistent one-to-one mapping.
    Statements only; proofs are in Proofs/TokenPairsProofs.v.

    [Inv s]: the pair table, the denomination index and the address index of state [s]
    form a one-to-one correspondence (every record stored under the id of its content and
    indexed under its denomination and its address; every index entry pointing to a record
    with that denomination / address).
    [hist_ok s os]: in the history [os] run from [s], every address the EVM hands to
    RegisterCoin for the freshly deployed contract is not a registered address at that moment.
    This is the only hypothesis on histories. *)
From stdpp Require Import gmap.
From Canto Require Import Model.TokenPairs Proofs.TokenPairsProofs.
Open Scope Z_scope.

(** the invariant holds initially and after every operation, hence over all histories of
    coin registrations, ERC-20 registrations (repeats, cross-registrations), toggles by
    denomination or address, removals on self-destructed contracts, parameter updates and
    genesis export/import *)
Theorem C15_inv_initial : forall en, Inv (empty_state en).
Proof. exact inv_empty. Qed.

Theorem C15_inv_step : forall o s, Inv s -> fresh_ok s o -> Inv (step o s).1.
Proof. exact step_inv. Qed.

Theorem C15_inv_history : forall os en,
  hist_ok (empty_state en) os -> Inv (run os (empty_state en)).
Proof. exact history_inv. Qed.

(* the Boolean form evaluated by the checker on the implementation's tables is the invariant *)
Theorem C15_inv_b_spec : forall s, inv_b s = true <-> Inv s.
Proof. exact inv_b_spec. Qed.

(** one-to-one: at most one pair per denomination and per address, no repeats in the listing,
    and the indexes know exactly the denominations / addresses of the listed pairs *)
Theorem C15_denom_unique : forall s p q,
  Inv s -> p ∈ listing s -> q ∈ listing s -> p_denom p = p_denom q -> p = q.
Proof. exact denom_unique. Qed.

Theorem C15_addr_unique : forall s p q,
  Inv s -> p ∈ listing s -> q ∈ listing s -> p_addr p = p_addr q -> p = q.
Proof. exact addr_unique. Qed.

Theorem C15_listing_nodup : forall s, Inv s -> NoDup (listing s).
Proof. exact listing_nodup. Qed.

Theorem C15_denom_registered_iff : forall s d,
  Inv s -> (is_Some (st_denom s !! d) <-> exists p, p ∈ listing s /\ p_denom p = d).
Proof. exact denom_registered_iff. Qed.

Theorem C15_addr_registered_iff : forall s a,
  Inv s -> (is_Some (st_addr s !! a) <-> exists p, p ∈ listing s /\ p_addr p = a).
Proof. exact addr_registered_iff. Qed.

(** lookups by id, by denomination and by (any spelling of the) address return the same pair.
    The lookup by denomination needs [not_shadowed]: the denomination must not have the shape
    of the hex address of a DIFFERENT registered pair.  The hypothesis is exact
    (C15_lookup_by_denom_iff) and cannot be dropped (C15_lookup_by_denom_unconditional_refuted:
    the code as it is violates the unconditional statement). *)
Theorem C15_lookup_agree : forall s p,
  Inv s -> p ∈ listing s -> not_shadowed s p ->
  get_pair s (id_of p) = Some p /\
  lookup_tok s (p_denom p) = Some p /\
  (forall t, hex_of t = Some (p_addr p) -> lookup_tok s t = Some p).
Proof. exact lookup_agree. Qed.

Theorem C15_lookup_by_id : forall s p, Inv s -> p ∈ listing s -> get_pair s (id_of p) = Some p.
Proof. exact lookup_by_id. Qed.

Theorem C15_lookup_by_addr : forall s p t,
  Inv s -> p ∈ listing s -> hex_of t = Some (p_addr p) -> lookup_tok s t = Some p.
Proof. exact lookup_by_addr. Qed.

Theorem C15_lookup_by_denom_iff : forall s p,
  Inv s -> p ∈ listing s -> (lookup_tok s (p_denom p) = Some p <-> not_shadowed s p).
Proof. exact lookup_by_denom_iff. Qed.

Theorem C15_plain_not_shadowed : forall s p, hex_of (p_denom p) = None -> not_shadowed s p.
Proof. exact plain_not_shadowed. Qed.

Theorem C15_lookup_by_denom_unconditional_refuted :
  exists os, hist_ok (empty_state true) os /\
    let s := run os (empty_state true) in
    exists p, p ∈ listing s /\ lookup_tok s (p_denom p) <> Some p.
Proof. exact lookup_by_denom_unconditional_refuted. Qed.

(** listing = exactly the pairs some lookup reaches; and a lookup only ever returns a pair
    that carries the token it was asked for *)
Theorem C15_listing_iff_lookup : forall s p,
  Inv s ->
  (p ∈ listing s <-> exists t, lookup_tok s t = Some p) /\
  (p ∈ listing s <-> exists i, get_pair s i = Some p).
Proof. exact listing_iff_lookup. Qed.

Theorem C15_lookup_tok_matches : forall s t p,
  Inv s -> lookup_tok s t = Some p -> p_denom p = t \/ hex_of t = Some (p_addr p).
Proof. exact lookup_tok_matches. Qed.

(** registering an already-registered denomination or contract (directly or crosswise) is
    rejected without effect; any operation that is not accepted changes nothing *)
Theorem C15_dup_rejected : forall s p,
  Inv s -> p ∈ listing s ->
  (forall auth ext fresh, step (OpRegCoin auth ext (p_denom p) fresh) s = (s, Rejected)) /\
  (forall auth ext, step (OpRegErc20 auth ext (p_addr p)) s = (s, Rejected)) /\
  (forall auth ext a, p_denom p = TErc20 a -> step (OpRegErc20 auth ext a) s = (s, Rejected)).
Proof. exact dup_rejected. Qed.

Theorem C15_rejected_no_effect : forall o s, (step o s).2 <> Ok -> (step o s).1 = s.
Proof. exact rejected_no_effect. Qed.

(** toggling changes only the enabled flag of the pair found, every lookup answers as before
    up to that flag, and toggling twice restores the state *)
Theorem C15_toggle_only_flag : forall auth t s s',
  Inv s -> step (OpToggle auth t) s = (s', Ok) ->
  exists p,
    lookup_tok s t = Some p /\
    st_pairs s !! id_of p = Some p /\
    st_pairs s' = <[id_of p := flip p]> (st_pairs s) /\
    st_denom s' = st_denom s /\ st_addr s' = st_addr s /\ st_enable s' = st_enable s /\
    p_addr (flip p) = p_addr p /\ p_denom (flip p) = p_denom p /\ p_owner (flip p) = p_owner p /\
    p_enabled (flip p) = negb (p_enabled p).
Proof. exact toggle_only_flag. Qed.

Theorem C15_toggle_lookups : forall auth t s s',
  Inv s -> step (OpToggle auth t) s = (s', Ok) ->
  exists p, lookup_tok s t = Some p /\
    (forall i, get_pair s' i = (fun q => if decide (q = p) then flip p else q) <$> get_pair s i) /\
    (forall t', lookup_tok s' t' = (fun q => if decide (q = p) then flip p else q) <$> lookup_tok s t').
Proof. exact toggle_lookups. Qed.

Theorem C15_toggle_twice : forall auth t s s1 s2,
  Inv s -> step (OpToggle auth t) s = (s1, Ok) -> step (OpToggle auth t) s1 = (s2, Ok) -> s2 = s.
Proof. exact toggle_twice. Qed.

(** removing a pair whose contract self-destructed removes all three entries, touches nothing
    else, and afterwards no lookup reaches the pair, its denomination or its address *)
Theorem C15_delete_all_three : forall coin t dead s s',
  Inv s -> step (OpConvert coin t dead) s = (s', Ok) ->
  exists p,
    lookup_tok s t = Some p /\ p_addr p ∈ dead /\
    s' = delete_pair p s /\
    st_pairs s' !! id_of p = None /\ st_denom s' !! p_denom p = None /\ st_addr s' !! p_addr p = None /\
    (forall q, q ∈ listing s' <-> q ∈ listing s /\ q <> p) /\
    (forall d, d <> p_denom p -> st_denom s' !! d = st_denom s !! d) /\
    (forall a, a <> p_addr p -> st_addr s' !! a = st_addr s !! a) /\
    (forall t' q, lookup_tok s' t' = Some q -> p_denom q <> p_denom p /\ p_addr q <> p_addr p).
Proof. exact delete_all_three. Qed.

(** exporting the genesis of a consistent registry and loading it into an empty store gives
    back the same registry *)
Theorem C15_export_import_id : forall s, Inv s -> step OpExportImport s = (s, Ok).
Proof. exact export_import_id. Qed.

Print Assumptions C15_inv_initial.
Print Assumptions C15_inv_step.
Print Assumptions C15_inv_history.
Print Assumptions C15_inv_b_spec.
Print Assumptions C15_denom_unique.
Print Assumptions C15_addr_unique.
Print Assumptions C15_listing_nodup.
Print Assumptions C15_denom_registered_iff.
Print Assumptions C15_addr_registered_iff.
Print Assumptions C15_lookup_agree.
Print Assumptions C15_lookup_by_id.
Print Assumptions C15_lookup_by_addr.
Print Assumptions C15_lookup_by_denom_iff.
Print Assumptions C15_plain_not_shadowed.
Print Assumptions C15_lookup_by_denom_unconditional_refuted.
Print Assumptions C15_listing_iff_lookup.
Print Assumptions C15_lookup_tok_matches.
Print Assumptions C15_dup_rejected.
Print Assumptions C15_rejected_no_effect.
Print Assumptions C15_toggle_only_flag.
Print Assumptions C15_toggle_lookups.
Print Assumptions C15_toggle_twice.
Print Assumptions C15_delete_all_three.
Print Assumptions C15_export_import_id.
