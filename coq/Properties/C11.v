(** C11 — Onboarding never loses or touches funds beyond the transferred amount.
    Statements only; proofs are in Proofs/OnboardingProofs.v.

    [E : Convert.evm_model] is an ARBITRARY EVM / token contract (a state type
    and four call functions about which nothing is assumed).  [recv] = the
    transfer module's credit followed by the callback [on_recv]; a panic inside
    the callback aborts the delivering transaction ([recv] returns the state
    before the credit and no receipt).  [pre] = parsable non-module recipient,
    transferred coin is not the standard coin, positive amount, valid coinswap
    parameters, non-negative standard balance of the recipient. *)
From Coq Require Import ZArith List Bool.
From Canto Require Import Model.Coinswap Model.Onboarding Proofs.CoinswapBase Proofs.CoinswapEffects Proofs.OnboardingProofs.
From Canto Require Model.Convert.
Import ListNotations.
Open Scope Z_scope.

Theorem C11_accounting : forall (E : Convert.evm_model) c p n tk (s0 s2 : ostate E) rep,
  pre E p n tk s0 -> recv E c p s0 = (s2, Some rep) ->
  let s1 := credit E p s0 in
  let d := pk_denom p in
  let sw := pool_gain (o_cs s1) (o_cs s2) d in
  let cv := conv_meas (o_cs s1) (o_cs s2) d in
  let lf := st_bal (o_cs s2) (User n) d - st_bal (o_cs s0) (User n) d in
  sw + cv + lf = pk_amount p /\ 0 <= sw /\ 0 <= cv /\ 0 <= lf /\
  sw = r_swapped rep /\ cv = r_converted rep /\
  (0 < cv -> exists k ct t0 t1, pk_pair p = PairOn k ct true true /\
      Convert.call_balance_of E (o_evm s0) ct (enc (User n)) = Some t0 /\
      Convert.call_balance_of E (o_evm s2) ct (enc (User n)) = Some t1 /\ t1 = t0 + cv).
Proof. exact accounting. Qed.

Theorem C11_guards : forall (E : Convert.evm_model) c p (s : ostate E),
  c_enabled c = false \/ whitelisted c (pk_channel p) = false \/
  (pk_sender_ok p = true /\ exists m, pk_recipient p = Some (Module m)) ->
  on_recv E c p s = Some (s, idle AckOriginal).
Proof. exact guards. Qed.

Theorem C11_ack_unchanged : forall (E : Convert.evm_model) c p (s s' : ostate E) rep r,
  pk_sender_ok p = true -> pk_recipient p = Some r ->
  on_recv E c p s = Some (s', rep) -> r_ack rep = AckOriginal.
Proof. exact ack_unchanged. Qed.

Theorem C11_ack_error_only_unparsable : forall (E : Convert.evm_model) c p (s s' : ostate E) rep,
  on_recv E c p s = Some (s', rep) -> r_ack rep = AckError ->
  s' = s /\ (pk_sender_ok p = false \/ pk_recipient p = None).
Proof. exact ack_error_only_unparsable. Qed.

(** prior balances *)
Theorem C11_prior_untouched : forall (E : Convert.evm_model) c p n tk (s0 s2 : ostate E) rep,
  pre E p n tk s0 -> recv E c p s0 = (s2, Some rep) ->
  st_bal (o_cs s0) (User n) (pk_denom p) <= st_bal (o_cs s2) (User n) (pk_denom p) /\
  st_bal (o_cs s0) (User n) Std <= st_bal (o_cs s2) (User n) Std /\
  (forall e, e <> pk_denom p -> e <> Std -> st_bal (o_cs s2) (User n) e = st_bal (o_cs s0) (User n) e).
Proof. exact prior_untouched. Qed.

(** a swap only below the threshold; then exactly the threshold, paid by the pool *)
Theorem C11_swap_iff : forall (E : Convert.evm_model) c p n tk (s0 s2 : ostate E) rep,
  pre E p n tk s0 -> recv E c p s0 = (s2, Some rep) ->
  let d := pk_denom p in
  let thr := c_threshold c in
  (0 < r_swapped rep ->
     st_bal (o_cs s0) (User n) Std < thr /\
     st_bal (o_cs s2) (User n) Std = st_bal (o_cs s0) (User n) Std + thr /\
     r_swapped rep <= pk_amount p /\
     exists q, pool_of (o_cs s0) Std d = Some q /\
       st_bal (o_cs s2) (Escrow q) Std = st_bal (o_cs s0) (Escrow q) Std - thr /\
       st_bal (o_cs s2) (Escrow q) d = st_bal (o_cs s0) (Escrow q) d + r_swapped rep) /\
  (r_swapped rep = 0 -> forall x, st_bal (o_cs s2) x Std = st_bal (o_cs s0) x Std) /\
  (thr <= st_bal (o_cs s0) (User n) Std -> r_swapped rep = 0) /\
  0 <= r_swapped rep.
Proof. exact swap_iff. Qed.

(** no partial effect, swap: the keeper-level buy is NOT on a branch; whatever
    error it returns, the caller's context is untouched ... *)
Theorem C11_failed_buy_leaves_no_trace : forall s n din max_in aout p,
  buy_keeper s (User n) din max_in aout = BuyErr p -> 0 <= aout -> p = s.
Proof. exact buy_keeper_err_clean. Qed.

(** ... on success it is Coinswap.trade_buy (so the AMM theorems of C01/C02/C08/C09 apply to it) ... *)
Theorem C11_buy_is_trade_buy : forall s who din max_in aout s' sold,
  buy_keeper s who din max_in aout = BuyOk s' sold <->
  trade_buy s who who din max_in Std aout = Some (s', sold).
Proof. exact buy_keeper_ok. Qed.

(** ... and a swap step that reports nothing swapped leaves the state it found *)
Theorem C11_failed_swap_leaves_state : forall thr n d amt s s',
  params_valid (st_params s) = true -> 0 <= st_bal s (User n) Std ->
  swap_phase thr (User n) d amt s = Some (s', 0) -> s' = s.
Proof. exact failed_swap_leaves_state. Qed.

(** no partial effect, conversion: nothing converted -> bank AND EVM state are
    those after the swap step, for every EVM *)
Theorem C11_failed_conversion_leaves_post_swap_state : forall (E : Convert.evm_model) c p n (s1 s2 : ostate E) rep,
  on_recv E c p s1 = Some (s2, rep) -> pk_recipient p = Some (User n) ->
  r_conv rep <> ConvDone ->
  r_converted rep = 0 /\
  ((s2 = s1 /\ r_acted rep = false) \/
   exists cs1, swap_phase (c_threshold c) (User n) (pk_denom p) (pk_amount p) (o_cs s1) = Some (cs1, r_swapped rep) /\
               s2 = mkO cs1 (o_evm s1)).
Proof. exact failed_conversion_leaves_post_swap_state. Qed.

(** fault sequences: a failure injected at the k-th EVM call of the conversion
    (1 balanceOf before, 2 the committing call, 3 balanceOf after), around ANY EVM *)
Theorem C11_failing_call_never_converts : forall (E : Convert.evm_model) k pi n d a cs e0 s' cv conv,
  1 <= k <= 3 ->
  convert_phase (fail_at E k) pi (User n) d a (@mkO (fail_at E k) cs (e0, 0)) = Some (s', cv, conv) ->
  cv <> ConvDone /\ conv = 0 /\ s' = @mkO (fail_at E k) cs (e0, 0).
Proof. exact failing_call_never_converts. Qed.

(** every balance and supply after the callback in terms of the state before it *)
Theorem C11_on_recv_effect : forall (E : Convert.evm_model) c p (s1 s2 : ostate E) rep n tk,
  on_recv E c p s1 = Some (s2, rep) ->
  pk_recipient p = Some (User n) -> pk_denom p = Tok tk ->
  params_valid (st_params (o_cs s1)) = true ->
  0 <= st_bal (o_cs s1) (User n) Std ->
  exists q g k, effect E c p n s1 s2 rep q g k.
Proof. exact on_recv_effect. Qed.

(** histories of packets to the same recipient *)
Theorem C11_history : forall (E : Convert.evm_model) n h (s s' : ostate E) rs,
  to_rcpt n h ->
  params_valid (st_params (o_cs s)) = true -> 0 <= st_bal (o_cs s) (User n) Std ->
  run E h s = (s', rs) ->
  receipts_ok h rs /\
  st_bal (o_cs s') (User n) Std = st_bal (o_cs s) (User n) Std + total std_of h rs /\
  (forall e, e <> Std -> st_bal (o_cs s') (User n) e = st_bal (o_cs s) (User n) e + total (left_of e) h rs) /\
  0 <= total std_of h rs /\ (forall e, 0 <= total (left_of e) h rs).
Proof. exact history. Qed.

Theorem C11_history_never_reduces : forall (E : Convert.evm_model) n h (s s' : ostate E) rs,
  to_rcpt n h -> params_valid (st_params (o_cs s)) = true -> 0 <= st_bal (o_cs s) (User n) Std ->
  run E h s = (s', rs) ->
  forall e, st_bal (o_cs s) (User n) e <= st_bal (o_cs s') (User n) e.
Proof. exact history_never_reduces. Qed.

Print Assumptions C11_accounting.
Print Assumptions C11_guards.
Print Assumptions C11_ack_unchanged.
Print Assumptions C11_ack_error_only_unparsable.
Print Assumptions C11_prior_untouched.
Print Assumptions C11_swap_iff.
Print Assumptions C11_failed_buy_leaves_no_trace.
Print Assumptions C11_buy_is_trade_buy.
Print Assumptions C11_failed_swap_leaves_state.
Print Assumptions C11_failed_conversion_leaves_post_swap_state.
Print Assumptions C11_failing_call_never_converts.
Print Assumptions C11_on_recv_effect.
Print Assumptions C11_history.
Print Assumptions C11_history_never_reduces.
