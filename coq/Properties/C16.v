(** C16 — CSR registry: each contract belongs to at most one NFT, set only by Turnstile.
    Statements only; proofs are in Proofs/CsrProofs.v. *)
From Coq Require Import ZArith List Bool.
From Canto Require Import Model.Csr Proofs.CsrProofs.
Import ListNotations.
Open Scope Z_scope.

(* csr_inv g: looking up a contract returns an NFT whose list contains it and vice versa,
   and no list has duplicates *)
Theorem C16_csr_inv_def : forall g,
  csr_inv g <->
  (forall c n, byc g c = Some n <-> exists r, csrs g n = Some r /\ In c (c_contracts r)) /\
  (forall n r, csrs g n = Some r -> NoDup (c_contracts r)).
Proof. exact csr_inv_def. Qed.

(* hence every contract is under at most one NFT *)
Theorem C16_one_nft_per_contract : forall g c n1 r1 n2 r2,
  csr_inv g -> csrs g n1 = Some r1 -> In c (c_contracts r1) ->
  csrs g n2 = Some r2 -> In c (c_contracts r2) -> n1 = n2.
Proof. exact inv_one_nft. Qed.

(* preserved by the events of any receipt (any emitters, payloads and code oracle) ... *)
Theorem C16_inv_receipt : forall hc ts logs g, csr_inv g -> csr_inv (process_events hc ts logs g).
Proof. exact process_events_inv. Qed.
(* ... by the whole post-tx hook including fee distribution ... *)
Theorem C16_inv_hook : forall t s s', csr_inv (reg s) -> post_tx t s = Some s' -> csr_inv (reg s').
Proof. exact post_tx_inv. Qed.
(* ... by the import of a well-formed genesis (what every export of such a state is) ... *)
Theorem C16_inv_genesis : forall l ts en sh s,
  wf_genesis l -> reg s = empty_reg -> csr_inv (reg (import_genesis l ts en sh s)).
Proof. exact import_genesis_inv. Qed.
Theorem C16_export_wf : forall g l,
  csr_inv g -> NoDup (map fst l) -> (forall n r, In (n, r) l -> csrs g n = Some r) -> wf_genesis l.
Proof. exact export_wf. Qed.
(* ... hence it holds after every history of transactions *)
Theorem C16_csr_inv : forall l s, csr_inv (reg s) -> csr_inv (reg (run l s)).
Proof. exact run_inv. Qed.

(* erasing every log whose emitter is not the stored Turnstile address changes nothing:
   for the events of a receipt, for the hook, and for whole histories *)
Theorem C16_only_turnstile_events : forall hc ts logs g,
  process_events hc ts (filter (from_ts ts) logs) g = process_events hc ts logs g.
Proof. exact only_turnstile_events. Qed.
Theorem C16_only_turnstile : forall t s ts,
  turnstile (cfg s) = Some ts -> post_tx (erase_foreign ts t) s = post_tx t s.
Proof. exact only_turnstile. Qed.
Theorem C16_only_turnstile_run : forall ts l s,
  turnstile (cfg s) = Some ts -> run (map (erase_foreign ts) l) s = run l s.
Proof. exact only_turnstile_run. Qed.

(* every index entry after a receipt was there before, or its contract held code and a
   register/assign event emitted by the Turnstile placed it under that NFT *)
Theorem C16_events_added : forall hc ts logs g c n,
  csr_inv g -> byc (process_events hc ts logs g) c = Some n ->
  byc g c = Some n \/
  (byc g c = None /\ hc c = true /\ exists l, In l logs /\ places ts l c n).
Proof. exact events_added. Qed.
Theorem C16_only_code : forall hc ts logs g c,
  csr_inv g -> byc g c = None -> byc (process_events hc ts logs g) c <> None -> hc c = true.
Proof. exact only_code. Qed.
(* the same over whole histories *)
Theorem C16_added_over_history : forall l s ts c n,
  csr_inv (reg s) -> turnstile (cfg s) = Some ts ->
  byc (reg (run l s)) c = Some n ->
  byc (reg s) c = Some n \/
  (byc (reg s) c = None /\
   exists t lg, In t l /\ tx_code t c = true /\ In lg (tx_logs t) /\ places ts lg c n).
Proof. exact added_over_history. Qed.

(* an existing id is never re-created: its list only grows at the end, txs and revenue untouched by events *)
Theorem C16_no_recreate : forall hc ts logs g n r,
  csrs g n = Some r ->
  exists r', csrs (process_events hc ts logs g) n = Some r' /\ extends r r'.
Proof. exact no_recreate_events. Qed.
Theorem C16_no_recreate_run : forall l s n r,
  csrs (reg s) n = Some r ->
  exists r', csrs (reg (run l s)) n = Some r' /\ exists ext, c_contracts r' = c_contracts r ++ ext.
Proof. exact no_recreate_run. Qed.
(* txs / revenue of an NFT change only when the hook processes a fee for one of its contracts *)
Theorem C16_metrics_frame : forall t s s' ts n,
  post_tx t s = Some s' -> turnstile (cfg s) = Some ts ->
  (tx_gas_used t = 0 \/ enable (cfg s) = false \/ target_nft t (after_events t ts s) <> Some n) ->
  rev_of (reg s') n = rev_of (reg s) n /\ txs_of (reg s') n = txs_of (reg s) n.
Proof. exact post_tx_metrics_frame. Qed.

(* a malformed (or unknown-topic) Turnstile event changes nothing and hides what follows it;
   foreign logs, other Turnstile events and logs without topics can be erased anywhere *)
Theorem C16_malformed_inert : forall hc ts l post pre g,
  aborting ts l -> process_events hc ts (pre ++ l :: post) g = process_events hc ts pre g.
Proof. exact malformed_inert. Qed.
Theorem C16_skipped_inert : forall hc ts l post pre g,
  skipped ts l -> process_events hc ts (pre ++ l :: post) g = process_events hc ts (pre ++ post) g.
Proof. exact skipped_inert. Qed.

(* the registry function evaluated by the checker is the registry effect of the hook *)
Theorem C16_checker_function : forall t s s' ts,
  turnstile (cfg s) = Some ts -> enable (cfg s) = true -> post_tx t s = Some s' ->
  (forall c, byc (reg s') c = byc (hook_reg t ts (reg s)) c) /\
  (forall n, option_map c_contracts (csrs (reg s') n) = option_map c_contracts (csrs (hook_reg t ts (reg s)) n)).
Proof. exact hook_reg_agrees. Qed.

Print Assumptions C16_csr_inv_def.
Print Assumptions C16_one_nft_per_contract.
Print Assumptions C16_inv_receipt.
Print Assumptions C16_inv_hook.
Print Assumptions C16_inv_genesis.
Print Assumptions C16_export_wf.
Print Assumptions C16_csr_inv.
Print Assumptions C16_only_turnstile_events.
Print Assumptions C16_only_turnstile.
Print Assumptions C16_only_turnstile_run.
Print Assumptions C16_events_added.
Print Assumptions C16_only_code.
Print Assumptions C16_added_over_history.
Print Assumptions C16_no_recreate.
Print Assumptions C16_no_recreate_run.
Print Assumptions C16_metrics_frame.
Print Assumptions C16_malformed_inert.
Print Assumptions C16_skipped_inert.
Print Assumptions C16_checker_function.
