(** C05 — Inflation mints exactly the epoch provision and distributes all of it.
    Statements only; proofs are in Proofs/InflationProofs.v. *)
From Coq Require Import ZArith List Bool.
From Canto Require Import Lib.SdkInt Lib.SdkDec Model.Epochs Model.Inflation Proofs.EpochsProofs Proofs.InflationProofs.
Import ListNotations.
Open Scope Z_scope.
Import SdkDec.

(* end of an epoch of the configured identifier while enabled: supply grows by exactly the integer
   part of the provision; the fee collector gets the truncated staking share, which is what the
   SDK's ToLegacyDec().Mul(share).TruncateInt() returns; everything else, INCLUDING whatever the
   inflation module account held before, goes to the distribution account / community pool; the
   module account ends empty *)
Theorem C05_mint_exact : forall day o id n s s',
  p_enable (st_params s) = true -> id = st_ident s ->
  after_epoch_end day o id n s = Some s' ->
  let minted := Z.quot (st_provision s) S in
  exists stk,
    get_proportion minted (d_staking (p_dist (st_params s))) = Some stk /\
    stk = Z.quot (minted * d_staking (p_dist (st_params s))) S /\
    0 <= minted /\ 0 <= stk <= st_module s + minted /\
    st_supply s' = st_supply s + minted /\
    st_fee s' = st_fee s + stk /\
    st_distr s' = st_distr s + ((minted - stk) + st_module s) /\
    st_pool s' = st_pool s + of_int ((minted - stk) + st_module s) /\
    st_module s' = 0 /\
    st_skipped s' = st_skipped s.
Proof. exact hook_mint_exact. Qed.

(* for a validated split the truncated share is the floor of minted*share/10^18, between 0 and minted *)
Theorem C05_staking_share_floor : forall minted sh,
  0 <= minted -> 0 <= sh <= S ->
  Z.quot (minted * sh) S = (minted * sh) / S /\ 0 <= (minted * sh) / S <= minted.
Proof. exact staking_share_floor. Qed.

(* the SDK expression equals that floor: the product is exact before the chop *)
Theorem C05_get_proportion_floor : forall m sh,
  0 <= m -> m * S < bound -> 0 <= sh <= S ->
  get_proportion m sh = Some ((m * sh) / S) /\ 0 <= (m * sh) / S <= m.
Proof. exact get_proportion_floor. Qed.

(* disabled: only the literal "day" identifier is counted as skipped, nothing else moves;
   enabled and another identifier: nothing moves *)
Theorem C05_no_mint : forall day o id n s s',
  after_epoch_end day o id n s = Some s' ->
  (p_enable (st_params s) = false -> id = day -> s' = with_skipped s (st_skipped s + 1)) /\
  (p_enable (st_params s) = false -> id <> day -> s' = s) /\
  (p_enable (st_params s) = true -> id <> st_ident s -> s' = s).
Proof. exact hook_no_mint. Qed.

(* any history of block times through the clock (any identifiers, long gaps) and any parameter
   changes: final supply = initial supply + sum of the integer parts of the provision at each mint *)
Theorem C05_history_supply : forall day ops es s es' s' log,
  run_ops day ops es s = Some (es', s', log) -> st_supply s' = st_supply s + zsum log.
Proof. exact history_supply. Qed.

(* ... and mints + skipped = number of elapsed epochs of the (daily) identifier *)
Theorem C05_history_count : forall day ops es s e es' s' log,
  st_ident s = day -> NoDup (map e_id es) -> In e es -> e_id e = day ->
  run_ops day ops es s = Some (es', s', log) ->
  exists e',
    In e' es' /\ e_id e' = day /\ NoDup (map e_id es') /\
    st_ident s' = day /\ st_epp s' = st_epp s /\
    zlen log + (st_skipped s' - st_skipped s) = cur_eff e' - cur_eff e /\
    (sched_inv (cur_eff e) s -> sched_inv (cur_eff e') s').
Proof. exact history_schedule. Qed.

(* the hook completes (no panic) for validated parameters under the overflow guard *)
Theorem C05_hook_completes : forall day o id n s,
  ValidExp (p_exp (st_params s)) -> calc_guard (p_exp (st_params s)) ->
  valid_dist (p_dist (st_params s)) = true -> 0 < st_epp s -> 0 <= o_bonded o ->
  0 <= st_provision s < bound -> 0 <= st_module s ->
  exists s', after_epoch_end day o id n s = Some s'.
Proof. exact hook_completes. Qed.

Print Assumptions C05_mint_exact.
Print Assumptions C05_staking_share_floor.
Print Assumptions C05_get_proportion_floor.
Print Assumptions C05_no_mint.
Print Assumptions C05_history_supply.
Print Assumptions C05_history_count.
Print Assumptions C05_hook_completes.
