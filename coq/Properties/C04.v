(** C04 — Conversions are exact, all-or-nothing and reversible.
    Statements only; proofs are in Proofs/ConvertProofs.v.

    [E : evm_model] is an ARBITRARY token contract / EVM: a state type and four
    functions (balance query, mint, burnCoins, transfer) about which nothing is
    assumed.  [M] is the erc20 module account.  [exec] is the message handler,
    [deliver] the handler under baseapp's message atomicity (modelled).
    Token-side statements are about the balance the path compares, AS ANSWERED
    by the contract; for a contract that lies consistently nothing more can be
    said, for the honest contract ([honest M]) the answers are the ledger. *)
From Coq Require Import ZArith List Bool.
From Canto Require Import Model.Convert Proofs.ConvertProofs.
Import ListNotations.
Open Scope Z_scope.

(** exact: a successful conversion moved exactly the amount on the bank side,
    the checked token balance as answered before/after differs by exactly the
    amount, transfer answered true and its logs hold neither an Approval nor a
    topic-less entry *)
Theorem C04_convert_ok_exact : forall (E : evm_model) (M : account) (m : msg) b e b' e',
  exec E M m (b, e) = Done (b', e') ->
  0 < m_amt m /\ m_gate m = true /\ m_has_code m = true /\
  bank_exact M m b b' /\
  exists t0 t1 r logs,
    call_balance_of E e (m_contract m) (checked M m) = Some t0 /\
    the_call E M m e = Some (e', r, logs) /\
    call_balance_of E e' (m_contract m) (checked M m) = Some t1 /\
    t1 = t0 + token_delta m /\
    (uses_transfer m = true -> r = RetTrue /\ Forall (fun l => l = LogOther) logs).
Proof. exact convert_ok_exact. Qed.

(** the same for [exec_named], the handler including a MsgConvertCoin that spells
    its denomination like the pair's contract address: no precondition on the
    denomination is needed, because such a message is refused (next theorem) *)
Theorem C04_convert_ok_exact_named : forall (E : evm_model) (M : account) own (m : msg) other b e b' e' other',
  exec_named E M own m other (b, e) = (Done (b', e'), other') ->
  other' = other /\
  0 < m_amt m /\ m_gate m = true /\ m_has_code m = true /\
  bank_exact M m b b' /\
  exists t0 t1 r logs,
    call_balance_of E e (m_contract m) (checked M m) = Some t0 /\
    the_call E M m e = Some (e', r, logs) /\
    call_balance_of E e' (m_contract m) (checked M m) = Some t1 /\
    t1 = t0 + token_delta m /\
    (uses_transfer m = true -> r = RetTrue /\ Forall (fun l => l = LogOther) logs).
Proof. exact convert_ok_exact_named. Qed.

(** a coin merely NAMED like the pair's contract address is never converted *)
Theorem C04_lookalike_denomination_refused : forall (E : evm_model) (M : account) (m : msg) other s,
  m_dir m = CoinToToken ->
  exists x, exec_named E M false m other s = (Failed x (fst s), other).
Proof. exact lookalike_denomination_refused. Qed.

Theorem C04_convert_coin_debits_sender : forall (E : evm_model) (M : account) (m : msg) b e b' e',
  exec E M m (b, e) = Done (b', e') -> m_dir m = CoinToToken -> m_sender m <> M ->
  bal b' (m_sender m) = bal b (m_sender m) - m_amt m /\
  (forall a, a <> m_sender m -> a <> M -> bal b' a = bal b a).
Proof. exact convert_coin_debits_sender. Qed.

Theorem C04_convert_erc20_credits_receiver : forall (E : evm_model) (M : account) (m : msg) b e b' e',
  exec E M m (b, e) = Done (b', e') -> m_dir m = TokenToCoin ->
  bal b' (m_receiver m) = bal b (m_receiver m) + m_amt m /\
  (forall a, a <> m_receiver m -> a <> M -> bal b' a = bal b a).
Proof. exact convert_erc20_credits_receiver. Qed.

(** all-or-nothing *)
Theorem C04_convert_failure_atomic : forall (E : evm_model) (M : account) (m : msg) s,
  snd (deliver E M m s) <> COk -> fst (deliver E M m s) = s.
Proof. exact convert_failure_atomic. Qed.

Theorem C04_deliver_all_or_nothing : forall (E : evm_model) (M : account) (m : msg) b e,
  (exists b' e', deliver E M m (b, e) = ((b', e'), COk) /\ exec E M m (b, e) = Done (b', e') /\ bank_exact M m b b')
  \/ (fst (deliver E M m (b, e)) = (b, e) /\ snd (deliver E M m (b, e)) <> COk).
Proof. exact deliver_all_or_nothing. Qed.

(** whatever the contract does: one statement per check
    ([not_ok] = not reported as success AND both ledgers unchanged) *)
Theorem C04_err_balance_before_nil : forall (E : evm_model) (M : account) (m : msg) b e,
  call_balance_of E e (m_contract m) (checked M m) = None -> not_ok E M m (b, e).
Proof. exact err_balance_before_nil. Qed.

Theorem C04_err_call_fails : forall (E : evm_model) (M : account) (m : msg) b e,
  the_call E M m e = None -> not_ok E M m (b, e).
Proof. exact err_call_fails. Qed.

Theorem C04_err_balance_after_nil : forall (E : evm_model) (M : account) (m : msg) b e e1 r logs,
  the_call E M m e = Some (e1, r, logs) ->
  call_balance_of E e1 (m_contract m) (checked M m) = None -> not_ok E M m (b, e).
Proof. exact err_balance_after_nil. Qed.

Theorem C04_err_balance_mismatch : forall (E : evm_model) (M : account) (m : msg) b e t0 e1 r logs t1,
  call_balance_of E e (m_contract m) (checked M m) = Some t0 ->
  the_call E M m e = Some (e1, r, logs) ->
  call_balance_of E e1 (m_contract m) (checked M m) = Some t1 ->
  t1 <> t0 + token_delta m -> not_ok E M m (b, e).
Proof. exact err_balance_mismatch. Qed.

Theorem C04_err_balance_over : forall (E : evm_model) (M : account) (m : msg) b e t0 e1 r logs t1,
  call_balance_of E e (m_contract m) (checked M m) = Some t0 ->
  the_call E M m e = Some (e1, r, logs) ->
  call_balance_of E e1 (m_contract m) (checked M m) = Some t1 ->
  t1 > t0 + token_delta m -> not_ok E M m (b, e).
Proof. exact err_balance_over. Qed.

Theorem C04_err_balance_under : forall (E : evm_model) (M : account) (m : msg) b e t0 e1 r logs t1,
  call_balance_of E e (m_contract m) (checked M m) = Some t0 ->
  the_call E M m e = Some (e1, r, logs) ->
  call_balance_of E e1 (m_contract m) (checked M m) = Some t1 ->
  t1 < t0 + token_delta m -> not_ok E M m (b, e).
Proof. exact err_balance_under. Qed.

Theorem C04_err_false_return : forall (E : evm_model) (M : account) (m : msg) b e e1 logs,
  uses_transfer m = true ->
  the_call E M m e = Some (e1, RetFalse, logs) -> not_ok E M m (b, e).
Proof. exact err_false_return. Qed.

Theorem C04_err_bad_return : forall (E : evm_model) (M : account) (m : msg) b e e1 logs,
  uses_transfer m = true ->
  the_call E M m e = Some (e1, RetBad, logs) -> not_ok E M m (b, e).
Proof. exact err_bad_return. Qed.

Theorem C04_err_approval_log : forall (E : evm_model) (M : account) (m : msg) b e e1 r logs,
  uses_transfer m = true ->
  the_call E M m e = Some (e1, r, logs) -> In LogApproval logs -> not_ok E M m (b, e).
Proof. exact err_approval_log. Qed.

Theorem C04_err_topicless_log : forall (E : evm_model) (M : account) (m : msg) b e e1 r logs,
  uses_transfer m = true ->
  the_call E M m e = Some (e1, r, logs) -> In LogNoTopics logs -> not_ok E M m (b, e).
Proof. exact err_topicless_log. Qed.

Theorem C04_err_insufficient_coins : forall (E : evm_model) (M : account) (m : msg) b e,
  m_dir m = CoinToToken -> bal b (m_sender m) < m_amt m -> not_ok E M m (b, e).
Proof. exact err_insufficient_coins. Qed.

Theorem C04_err_insufficient_escrow : forall (E : evm_model) (M : account) (m : msg) b e,
  m_dir m = TokenToCoin -> m_kind m = NativeCoin -> bal b M < m_amt m -> not_ok E M m (b, e).
Proof. exact err_insufficient_escrow. Qed.

Theorem C04_err_nonpositive_amount : forall (E : evm_model) (M : account) (m : msg) b e,
  m_amt m <= 0 -> not_ok E M m (b, e).
Proof. exact err_nonpositive_amount. Qed.

Theorem C04_err_gate_closed : forall (E : evm_model) (M : account) (m : msg) b e,
  m_gate m = false -> not_ok E M m (b, e).
Proof. exact err_gate_closed. Qed.

(** reversible: with the honest contract, converting back the same amount by
    the same party succeeds and restores every balance and both supplies — for
    both pair kinds and both orders (m_dir m = CoinToToken: coins -> tokens ->
    coins; TokenToCoin: tokens -> coins -> tokens) *)
Theorem C04_round_trip : forall (M : account) (m : msg) b h b1 h1,
  (forall a, 0 <= bal b a) -> (forall a, 0 <= tbal h a) ->
  (m_dir m = CoinToToken -> m_kind m = NativeCoin -> m_sender m <> M) ->
  exec (honest M) M m (b, h) = Done (b1, h1) ->
  exists b2 h2, exec (honest M) M (back m) (b1, h1) = Done (b2, h2) /\ same_ledgers b b2 h h2.
Proof. exact round_trip. Qed.

Theorem C04_round_trip_four_balances : forall (M : account) (m : msg) b h b1 h1,
  (forall a, 0 <= bal b a) -> (forall a, 0 <= tbal h a) ->
  (m_dir m = CoinToToken -> m_kind m = NativeCoin -> m_sender m <> M) ->
  exec (honest M) M m (b, h) = Done (b1, h1) ->
  exists b2 h2, exec (honest M) M (back m) (b1, h1) = Done (b2, h2) /\
    bal b2 (m_sender m) = bal b (m_sender m) /\ bal b2 (m_receiver m) = bal b (m_receiver m) /\
    tbal h2 (m_sender m) = tbal h (m_sender m) /\ tbal h2 (m_receiver m) = tbal h (m_receiver m).
Proof. exact round_trip_four_balances. Qed.

Print Assumptions C04_convert_ok_exact.
Print Assumptions C04_convert_ok_exact_named.
Print Assumptions C04_lookalike_denomination_refused.
Print Assumptions C04_convert_coin_debits_sender.
Print Assumptions C04_convert_erc20_credits_receiver.
Print Assumptions C04_convert_failure_atomic.
Print Assumptions C04_deliver_all_or_nothing.
Print Assumptions C04_err_balance_before_nil.
Print Assumptions C04_err_call_fails.
Print Assumptions C04_err_balance_after_nil.
Print Assumptions C04_err_balance_mismatch.
Print Assumptions C04_err_balance_over.
Print Assumptions C04_err_balance_under.
Print Assumptions C04_err_false_return.
Print Assumptions C04_err_bad_return.
Print Assumptions C04_err_approval_log.
Print Assumptions C04_err_topicless_log.
Print Assumptions C04_err_insufficient_coins.
Print Assumptions C04_err_insufficient_escrow.
Print Assumptions C04_err_nonpositive_amount.
Print Assumptions C04_err_gate_closed.
Print Assumptions C04_round_trip.
Print Assumptions C04_round_trip_four_balances.
