(** C09 -- Governance risk caps bound every pool interaction.
    Statements only; proofs are in Proofs/Coinswap*.v. *)
From Coq Require Import ZArith List Bool.
From Canto Require Import Lib.SdkInt Lib.SdkDec Model.Coinswap Proofs.CoinswapBase Proofs.CoinswapEffects
     Proofs.CoinswapValue Proofs.CoinswapWF Proofs.CoinswapLaws Proofs.CoinswapHistory Proofs.CoinswapReserves.
Import ListNotations.
Open Scope Z_scope.

(* sell: standard coin on exactly one side, whitelisted counter-asset, counter-asset leg within its per-swap maximum, recipient not a module account *)
Theorem C09_sell_ok :
  forall (now : Z) (s : state) (u : Z) (rec : acct) (din : denom) 
           (ain : Z) (dout : denom) (min_out deadline : Z) (s' : state) (r : list Z),
         WF s ->
         exec now s (Sell u rec din ain dout min_out deadline) = Some (s', r) ->
         exists q n out mx : Z,
           r = [] /\
           pool_of s din dout = Some q /\
           lookup_pool n (st_pools s) = Some q /\
           expired now deadline = false /\
           (let X := st_bal s (Escrow q) din in
            let Y := st_bal s (Escrow q) dout in
            let g := S18 - p_fee (st_params s) in
            0 < X /\
            0 < Y /\
            st_bal s' (User u) din = st_bal s (User u) din - ain /\
            min_out <= out /\
            0 <= out < Y /\
            (rec <> Escrow q -> st_bal s' rec dout = st_bal s rec dout + out) /\
            (rec <> Escrow q ->
             st_bal s' (Escrow q) din = X + ain /\ st_bal s' (Escrow q) dout = Y - out) /\
            out * (X * S18 + ain * g) <= ain * g * Y < (out + 1) * (X * S18 + ain * g) /\
            X * Y <= (X + ain) * (Y - out) /\
            is_module rec = false /\
            (din = Std /\ dout = Tok n /\ out <= mx \/ din = Tok n /\ dout = Std /\ ain <= mx) /\
            wl_lookup (Tok n) (p_wl (st_params s)) = Some mx).
Proof. exact sell_ok. Qed.

(* buy: the same four facts *)
Theorem C09_buy_ok :
  forall (now : Z) (s : state) (u : Z) (rec : acct) (din : denom) 
           (max_in : Z) (dout : denom) (aout deadline : Z) (s' : state) (r : list Z),
         WF s ->
         exec now s (Buy u rec din max_in dout aout deadline) = Some (s', r) ->
         exists q n sold mx : Z,
           r = [] /\
           pool_of s din dout = Some q /\
           lookup_pool n (st_pools s) = Some q /\
           expired now deadline = false /\
           (let X := st_bal s (Escrow q) din in
            let Y := st_bal s (Escrow q) dout in
            let g := S18 - p_fee (st_params s) in
            0 < X /\
            0 < aout < Y /\
            0 < sold <= max_in /\
            st_bal s' (User u) din = st_bal s (User u) din - sold /\
            (rec <> Escrow q -> st_bal s' rec dout = st_bal s rec dout + aout) /\
            (rec <> Escrow q ->
             st_bal s' (Escrow q) din = X + sold /\ st_bal s' (Escrow q) dout = Y - aout) /\
            (sold - 1) * ((Y - aout) * g) <= X * aout * S18 < sold * ((Y - aout) * g) /\
            X * Y < (X + sold) * (Y - aout) /\
            is_module rec = false /\
            (din = Std /\ dout = Tok n /\ aout <= mx \/ din = Tok n /\ dout = Std /\ sold <= mx) /\
            wl_lookup (Tok n) (p_wl (st_params s)) = Some mx).
Proof. exact buy_ok. Qed.

(* addition: whitelisted non-standard token; standard coin deposited at most the cap, and at most the room left when the pool has liquidity *)
Theorem C09_add_ok :
  forall (now : Z) (s : state) (u : Z) (tok : denom) (max_tok exact_std min_liq deadline : Z)
           (s' : state) (r : list Z),
         WF s ->
         exec now s (AddLiq u tok max_tok exact_std min_liq deadline) = Some (s', r) ->
         exists tokn q m std_in dep A tax : Z,
           tok = Tok tokn /\
           r = [m] /\
           lookup_pool tokn (st_pools s') = Some q /\
           negb (expired now deadline) = true /\
           0 < std_in <= exact_std /\
           0 < dep <= max_tok /\
           min_liq <= m /\
           0 <= m /\
           st_bal s' (Escrow q) Std = st_bal s (Escrow q) Std + std_in /\
           st_bal s' (Escrow q) (Tok tokn) = st_bal s (Escrow q) (Tok tokn) + dep /\
           add_bal_eq s s' (User u) q tokn std_in dep m (p_cfee_denom (st_params s)) A tax /\
           add_sup_eq s s' q m (p_cfee_denom (st_params s)) (A - tax) /\
           0 <= tax <= A /\
           (lookup_pool tokn (st_pools s) = None /\
            A = p_cfee_amt (st_params s) /\
            tax = A * p_tax (st_params s) / S18 /\
            q = st_next s /\ std_in = exact_std /\ dep = max_tok /\ m = exact_std \/
            lookup_pool tokn (st_pools s) = Some q /\
            A = 0 /\
            tax = 0 /\
            (st_sup s (Lpt q) = 0 /\ std_in = exact_std /\ dep = max_tok /\ m = exact_std \/
             0 < st_sup s (Lpt q) /\
             0 < st_bal s (Escrow q) Std /\
             std_in = Z.min exact_std (p_cap (st_params s) - st_bal s (Escrow q) Std) /\
             m = st_sup s (Lpt q) * std_in / st_bal s (Escrow q) Std /\
             dep = st_bal s (Escrow q) (Tok tokn) * std_in / st_bal s (Escrow q) Std + 1)) /\
           0 < wl_amount (Tok tokn) (p_wl (st_params s)) /\
           std_in <= p_cap (st_params s) /\
           (0 < st_sup s (Lpt q) ->
            lookup_pool tokn (st_pools s) = Some q ->
            std_in <= p_cap (st_params s) - st_bal s (Escrow q) Std).
Proof. exact add_ok. Qed.

(* onboarding auto-swap: whitelisted counter-asset, sold amount within its per-swap maximum *)
Theorem C09_autoswap_ok :
  forall (now : Z) (s : state) (u : Z) (din : denom) (max_in thr : Z) 
           (s' : state) (r : list Z),
         WF s ->
         exec now s (AutoSwap u din max_in thr) = Some (s', r) ->
         exists q n sold mx : Z,
           r = [sold] /\
           din = Tok n /\
           lookup_pool n (st_pools s) = Some q /\
           wl_lookup (Tok n) (p_wl (st_params s)) = Some mx /\
           0 < sold <= max_in /\
           sold <= mx /\
           st_bal s' (User u) Std = st_bal s (User u) Std + thr /\
           st_bal s' (User u) din = st_bal s (User u) din - sold /\
           st_bal s' (Escrow q) Std = st_bal s (Escrow q) Std - thr /\
           st_bal s' (Escrow q) din = st_bal s (Escrow q) din + sold /\
           (forall e : denom, st_sup s' e = st_sup s e) /\
           (forall x : acct,
            x <> User u -> x <> Escrow q -> forall e : denom, st_bal s' x e = st_bal s x e).
Proof. exact autoswap_ok. Qed.

(* all of the above as one predicate on a single step, for whatever valid parameters are in force *)
Theorem C09_caps_step :
  forall (now : Z) (s : state) (o : op), WF s -> caps_hold now s o.
Proof. exact caps_step. Qed.

(* ... at every step of every history, parameter changes interleaved arbitrarily *)
Theorem C09_caps_along_history :
  forall (h : list (Z * op)) (s : state), WF s -> along caps_hold h s.
Proof. exact caps_along_history. Qed.

(* non-vacuity: a concrete well-formed state on which operations are accepted *)
Example C09_nonvacuous : WF ex_state.
Proof. exact ex_state_WF. Qed.

Print Assumptions C09_sell_ok.
Print Assumptions C09_buy_ok.
Print Assumptions C09_add_ok.
Print Assumptions C09_autoswap_ok.
Print Assumptions C09_caps_step.
Print Assumptions C09_caps_along_history.
