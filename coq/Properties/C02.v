(** C02 -- Coinswap operations conserve value; rejected operations change nothing.
    Statements only; proofs are in Proofs/Coinswap*.v. *)
From Coq Require Import ZArith List Bool.
From Canto Require Import Lib.SdkInt Lib.SdkDec Model.Coinswap Proofs.CoinswapBase Proofs.CoinswapEffects
     Proofs.CoinswapValue Proofs.CoinswapWF Proofs.CoinswapLaws Proofs.CoinswapHistory Proofs.CoinswapReserves.
Import ListNotations.
Open Scope Z_scope.

(* an accepted swap: supplies, params, pools unchanged; nobody but payer, recipient and escrow changes; every coin is conserved over any account set containing the three *)
Theorem C02_swap_conserves :
  forall (now : Z) (s : state) (o : op) (s' : state) (r : list Z),
         WF s ->
         exec now s o = Some (s', r) ->
         match o with
         | Sell u rec din _ dout _ _ | Buy u rec din _ dout _ _ =>
             exists q : Z,
               pool_of s din dout = Some q /\
               (forall e : denom, st_sup s' e = st_sup s e) /\
               st_params s' = st_params s /\
               st_pools s' = st_pools s /\
               st_next s' = st_next s /\
               (forall x : acct,
                x <> User u ->
                x <> rec -> x <> Escrow q -> forall e : denom, st_bal s' x e = st_bal s x e) /\
               (forall accts : list acct,
                NoDup accts ->
                In (User u) accts ->
                In rec accts ->
                In (Escrow q) accts -> forall e : denom, total s' accts e = total s accts e)
         | _ => True
         end.
Proof. exact swap_conserves. Qed.

(* an accepted addition: exact balance and supply equations (add_bal_eq/add_sup_eq): only provider, escrow and - on pool creation - the fee collector change; pool-token supply grows by exactly the amount credited; the creation fee is split exactly into floor(fee*tax) to the fee collector and a burn of the rest *)
Theorem C02_add_ok :
  forall (now : Z) (s : state) (u : Z) (tok : denom) (max_tok exact_std min_liq deadline : Z)
           (s' : state) (r : list Z),
         WF s ->
         exec now s (AddLiq u tok max_tok exact_std min_liq deadline) = Some (s', r) ->
         exists tokn q m std_in dep A tax : Z,
           tok = Tok tokn /\
           r = [m] /\
           lookup_pool tokn (st_pools s') = Some q /\
           negb (expired now deadline) = true /\
           0 < std_in <= exact_std /\
           0 < dep <= max_tok /\
           min_liq <= m /\
           0 <= m /\
           st_bal s' (Escrow q) Std = st_bal s (Escrow q) Std + std_in /\
           st_bal s' (Escrow q) (Tok tokn) = st_bal s (Escrow q) (Tok tokn) + dep /\
           add_bal_eq s s' (User u) q tokn std_in dep m (p_cfee_denom (st_params s)) A tax /\
           add_sup_eq s s' q m (p_cfee_denom (st_params s)) (A - tax) /\
           0 <= tax <= A /\
           (lookup_pool tokn (st_pools s) = None /\
            A = p_cfee_amt (st_params s) /\
            tax = A * p_tax (st_params s) / S18 /\
            q = st_next s /\ std_in = exact_std /\ dep = max_tok /\ m = exact_std \/
            lookup_pool tokn (st_pools s) = Some q /\
            A = 0 /\
            tax = 0 /\
            (st_sup s (Lpt q) = 0 /\ std_in = exact_std /\ dep = max_tok /\ m = exact_std \/
             0 < st_sup s (Lpt q) /\
             0 < st_bal s (Escrow q) Std /\
             std_in = Z.min exact_std (p_cap (st_params s) - st_bal s (Escrow q) Std) /\
             m = st_sup s (Lpt q) * std_in / st_bal s (Escrow q) Std /\
             dep = st_bal s (Escrow q) (Tok tokn) * std_in / st_bal s (Escrow q) Std + 1)) /\
           0 < wl_amount (Tok tokn) (p_wl (st_params s)) /\
           std_in <= p_cap (st_params s) /\
           (0 < st_sup s (Lpt q) ->
            lookup_pool tokn (st_pools s) = Some q ->
            std_in <= p_cap (st_params s) - st_bal s (Escrow q) Std).
Proof. exact add_ok. Qed.

(* an accepted removal: pool-token supply and the provider pool tokens drop by exactly w; escrow pays exactly what the provider receives; nobody else changes *)
Theorem C02_remove_ok :
  forall (now : Z) (s : state) (u : Z) (lpt : denom) (w min_std min_tok deadline : Z)
           (s' : state) (r : list Z),
         WF s ->
         exec now s (RemoveLiq u lpt w min_std min_tok deadline) = Some (s', r) ->
         exists q n ps pt : Z,
           lpt = Lpt q /\
           r = [ps; pt] /\
           lookup_pool n (st_pools s) = Some q /\
           expired now deadline = false /\
           (let X := st_bal s (Escrow q) Std in
            let Y := st_bal s (Escrow q) (Tok n) in
            let L := st_sup s (Lpt q) in
            0 < w <= L /\
            st_sup s' (Lpt q) = L - w /\
            st_bal s' (User u) (Lpt q) = st_bal s (User u) (Lpt q) - w /\
            min_std <= ps /\
            min_tok <= pt /\
            st_bal s' (Escrow q) Std = X - ps /\
            st_bal s' (Escrow q) (Tok n) = Y - pt /\
            st_bal s' (User u) Std = st_bal s (User u) Std + ps /\
            st_bal s' (User u) (Tok n) = st_bal s (User u) (Tok n) + pt /\
            ps * L <= w * X < (ps + 1) * L /\
            pt * L <= w * Y < (pt + 1) * L /\
            (forall e : denom, e <> Lpt q -> st_sup s' e = st_sup s e) /\
            (forall x : acct,
             x <> User u -> x <> Escrow q -> forall e : denom, st_bal s' x e = st_bal s x e)).
Proof. exact remove_ok. Qed.

(* an onboarding auto-swap moves coins only between the recipient and the escrow *)
Theorem C02_autoswap_ok :
  forall (now : Z) (s : state) (u : Z) (din : denom) (max_in thr : Z) 
           (s' : state) (r : list Z),
         WF s ->
         exec now s (AutoSwap u din max_in thr) = Some (s', r) ->
         exists q n sold mx : Z,
           r = [sold] /\
           din = Tok n /\
           lookup_pool n (st_pools s) = Some q /\
           wl_lookup (Tok n) (p_wl (st_params s)) = Some mx /\
           0 < sold <= max_in /\
           sold <= mx /\
           st_bal s' (User u) Std = st_bal s (User u) Std + thr /\
           st_bal s' (User u) din = st_bal s (User u) din - sold /\
           st_bal s' (Escrow q) Std = st_bal s (Escrow q) Std - thr /\
           st_bal s' (Escrow q) din = st_bal s (Escrow q) din + sold /\
           (forall e : denom, st_sup s' e = st_sup s e) /\
           (forall x : acct,
            x <> User u -> x <> Escrow q -> forall e : denom, st_bal s' x e = st_bal s x e).
Proof. exact autoswap_ok. Qed.

(* a rejected message leaves the state unchanged (baseapp message atomicity, modelled by deliver) *)
Theorem C02_rejected_no_change :
  forall (now : Z) (s : state) (o : op),
         snd (deliver now s o) = None -> fst (deliver now s o) = s.
Proof. exact rejected_no_change. Qed.

(* no message can make a balance or supply negative or corrupt the pool list *)
Theorem C02_deliver_WF :
  forall (now : Z) (s : state) (o : op), WF s -> WF (fst (deliver now s o)).
Proof. exact deliver_WF. Qed.

(* non-vacuity: a concrete well-formed state on which operations are accepted *)
Example C02_nonvacuous : WF ex_state.
Proof. exact ex_state_WF. Qed.

Print Assumptions C02_swap_conserves.
Print Assumptions C02_add_ok.
Print Assumptions C02_remove_ok.
Print Assumptions C02_autoswap_ok.
Print Assumptions C02_rejected_no_change.
Print Assumptions C02_deliver_WF.
