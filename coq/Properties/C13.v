(** C13 — Inflation follows the published decay schedule, one period per fixed mint count.
    Statements only; proofs are in Proofs/InflationProofs.v. *)
From Coq Require Import ZArith List Bool.
From Canto Require Import Lib.SdkInt Lib.SdkDec Model.Epochs Model.Inflation Proofs.EpochsProofs Proofs.InflationProofs.
Import ListNotations.
Open Scope Z_scope.
Import SdkDec.

(* the result of CalculateEpochMintProvision, whenever the computation completes, is the
   fixed-point evaluation (banker's rounding at every Mul/Quo, the SDK's square-and-multiply
   Power) of  (a (1-r)^x + c) (1 + maxVar - min(b,target) (maxVar/target)) / epp * 10^18 *)
Theorem C13_provision_formula : forall e x epp bonded v,
  calc_provision e x epp bonded = Some v ->
  v = pure_calc e x epp bonded /\ epp <> 0 /\ ec_target e <> 0.
Proof. exact calc_some_pure. Qed.

(* never negative: all parameters accepted by validation, every period, every bonded ratio >= 0 *)
Theorem C13_provision_nonneg : forall e x epp bonded v,
  valid_exp e = true -> valid_epp epp = true -> 0 <= bonded ->
  calc_provision e x epp bonded = Some v -> 0 <= v.
Proof. exact provision_nonneg. Qed.

(* no panic, with an explicit upper bound, when two products fit the 315-bit LegacyDec:
   (a+c+1)(1+maxVar+1ulp) and maxVar*10^18 + 10^18  (calc_guard) *)
Theorem C13_provision_no_panic : forall e x epp bonded,
  valid_exp e = true -> valid_epp epp = true -> 0 <= bonded -> calc_guard e ->
  exists v, calc_provision e x epp bonded = Some v /\ 0 <= v /\
            S * v <= ((ec_a e + ec_c e) * (S + ec_maxvar e) + S) * power_reduction.
Proof. exact provision_no_panic. Qed.

(* no panic at all for parameters the (repaired) validator accepts: it evaluates the worst case
   (period 0, one epoch per period, bonded ratio 0), which dominates every other evaluation *)
Theorem C13_provision_no_panic_validated : forall e x epp bonded,
  valid_exp e = true -> (exists v0, calc_provision e 0%N 1 0 = Some v0) ->
  valid_epp epp = true -> 0 <= bonded ->
  exists v, calc_provision e x epp bonded = Some v /\ 0 <= v.
Proof. exact provision_no_panic_validated. Qed.

(* bonding incentive in [1, 1 + maxVariance]; at or above the target at most 1 + 1ulp *)
Theorem C13_incentive_bounds : forall e bonded v,
  valid_exp e = true -> 0 <= bonded ->
  calc_incentive e bonded = Some v ->
  S <= v <= S + ec_maxvar e /\ (ec_target e <= bonded -> v <= S + 1).
Proof. exact incentive_bounds. Qed.

(* ... and that incentive is the factor inside the provision *)
Theorem C13_provision_uses_incentive : forall e x epp bonded v,
  calc_provision e x epp bonded = Some v ->
  exists inc, calc_incentive e bonded = Some inc /\
    v = rmul (rquo (rmul (pure_decay e x) inc) (of_int epp)) (of_int power_reduction).
Proof. exact provision_uses_incentive. Qed.

(* every computed provision is a whole number of base coins *)
Theorem C13_provision_integral : forall e x epp bonded v,
  calc_provision e x epp bonded = Some v -> exists k, v = k * S /\ Z.quot v S = k.
Proof. exact provision_integral. Qed.

(* fixed parameters and bonded ratio: never increases from a period to any later one, every x : N *)
Theorem C13_provision_nonincreasing : forall e epp bonded,
  valid_exp e = true -> valid_epp epp = true -> 0 <= bonded ->
  forall (x y : N) vx vy, (x <= y)%N ->
  calc_provision e x epp bonded = Some vx -> calc_provision e y epp bonded = Some vy -> vy <= vx.
Proof. exact provision_nonincreasing. Qed.

(* one end-of-epoch call of the counted identifier, numbered n+1 (the number of the epoch that
   starts): the invariant  0 <= n - 1 - skipped - epp*period < epp  is kept, the call either mints
   or is counted as skipped, and the period advances by one exactly when this is the epp-th
   minting epoch of the period -- the `>` of hooks.go is exact for that numbering *)
Theorem C13_period_step : forall day o n s s',
  st_ident s = day -> sched_inv n s ->
  after_epoch_end day o day (n + 1) s = Some s' ->
  sched_inv (n + 1) s' /\
  zlen (due_amount day s) + (st_skipped s' - st_skipped s) = 1 /\
  (st_period s' = st_period s + 1 <-> mint_due day s = true /\ mints_in_period n s = st_epp s - 1) /\
  (st_period s' = st_period s \/ st_period s' = st_period s + 1).
Proof. exact hook_day_step. Qed.

(* the invariant says: period = floor (minting epochs so far / epochs_per_period) *)
Theorem C13_sched_inv_div : forall n s,
  0 < st_epp s -> (sched_inv n s <-> st_period s = (n - 1 - st_skipped s) / st_epp s).
Proof. exact sched_inv_div. Qed.

(* every history of blocks through the epoch clock (any identifiers ticking along) with
   parameter changes / toggling at arbitrary points: each elapsed epoch minted or was skipped,
   and the invariant is kept *)
Theorem C13_period_count : forall day ops es s e es' s' log,
  st_ident s = day -> NoDup (map e_id es) -> In e es -> e_id e = day ->
  run_ops day ops es s = Some (es', s', log) ->
  exists e',
    In e' es' /\ e_id e' = day /\ NoDup (map e_id es') /\
    st_ident s' = day /\ st_epp s' = st_epp s /\
    zlen log + (st_skipped s' - st_skipped s) = cur_eff e' - cur_eff e /\
    (sched_inv (cur_eff e) s -> sched_inv (cur_eff e') s').
Proof. exact history_schedule. Qed.

(* closed form: after m minting epochs the period is floor ((minting epochs before + m) / epp) *)
Theorem C13_period_closed_form : forall day ops es s e es' s' log,
  st_ident s = day -> NoDup (map e_id es) -> In e es -> e_id e = day -> 0 < st_epp s ->
  st_period s = (cur_eff e - 1 - st_skipped s) / st_epp s ->
  run_ops day ops es s = Some (es', s', log) ->
  st_period s' = (cur_eff e - 1 - st_skipped s + zlen log) / st_epp s.
Proof. exact history_period_closed_form. Qed.

(* the stored provision changes only in a call that advances the period, and then to the
   formula's value for the new period *)
Theorem C13_provision_stable : forall day o id n s s',
  after_epoch_end day o id n s = Some s' ->
  st_period s <= st_period s' <= st_period s + 1 /\
  (st_period s' = st_period s -> st_provision s' = st_provision s) /\
  (st_period s' <> st_period s ->
     mint_due id s = true /\ period_passed n s = true /\
     exists br, calc_provision (p_exp (st_params s)) (Z.to_N (st_period s')) (st_epp s) br = Some (st_provision s')).
Proof. exact hook_provision_stable. Qed.

Theorem C13_provision_stable_history : forall day ops es s es' s' log,
  run_ops day ops es s = Some (es', s', log) ->
  st_period s <= st_period s' /\ (st_period s' = st_period s -> st_provision s' = st_provision s).
Proof. exact history_provision_stable. Qed.

(* the stored provision stays non-negative through the hook *)
Theorem C13_stored_provision_nonneg : forall day o id n s s',
  ValidExp (p_exp (st_params s)) -> 0 < st_epp s -> 0 <= o_bonded o -> 0 <= st_provision s ->
  after_epoch_end day o id n s = Some s' -> 0 <= st_provision s'.
Proof. exact hook_provision_nonneg. Qed.

Print Assumptions C13_provision_formula.
Print Assumptions C13_provision_nonneg.
Print Assumptions C13_provision_no_panic.
Print Assumptions C13_provision_no_panic_validated.
Print Assumptions C13_incentive_bounds.
Print Assumptions C13_provision_uses_incentive.
Print Assumptions C13_provision_integral.
Print Assumptions C13_provision_nonincreasing.
Print Assumptions C13_period_step.
Print Assumptions C13_sched_inv_div.
Print Assumptions C13_period_count.
Print Assumptions C13_period_closed_form.
Print Assumptions C13_provision_stable.
Print Assumptions C13_provision_stable_history.
Print Assumptions C13_stored_provision_nonneg.
