(** C06 — Replicas agree: execution is deterministic and survives restarts and reads.

    PARTIAL.  The theorems below are about the node model of Model/Chain.v (the
    composition of the epochs, inflation, coinswap, csr and authority models
    under baseapp's begin-block / deliver / end-block / commit discipline).
    They establish the LOGIC of the property: block results, committed state
    and export are a function of the committed state and the block list; the
    volatile check state, restarts at any block boundary, and any number of
    queries, mempool checks and simulations cannot influence any later result.

    NOT covered by any theorem, because a Gallina model cannot exhibit it:
      - Go map iteration order in consensus code,
      - goroutine scheduling / data races,
      - the behaviour of the database and the IAVL tree (what is really
        persisted, caches that survive a block but not a restart),
      - CometBFT itself.
    This runtime part is covered by the four-replica differential on the real
    application (harness/c06.go: plain / restarted from its database at every
    block boundary / reads interleaved / second quiet node; AppHash, result
    codes+data and exported genesis compared at every height) and by the static
    scan for new sources of nondeterminism.  That is exploration, not proof.

    Statements only; proofs are in Proofs/ChainProofs.v. *)
From Coq Require Import ZArith List Bool.
From Canto Require Import Model.Epochs Model.Chain Proofs.ChainProofs Proofs.ChainSupply.
From Canto Require Model.Inflation Model.Coinswap Model.Csr Model.Authority.
Import ListNotations.
Open Scope Z_scope.

(* any two nodes fed the same blocks: identical results, committed state, export at every height *)
Theorem C06_run_functional : forall bs n1 n2,
  ceq n1 n2 ->
  forall k : nat,
    snd (run_blocks (firstn k bs) n1) = snd (run_blocks (firstn k bs) n2) /\
    committed (fst (run_blocks (firstn k bs) n1)) = committed (fst (run_blocks (firstn k bs) n2)) /\
    export (committed (fst (run_blocks (firstn k bs) n1))) = export (committed (fst (run_blocks (firstn k bs) n2))) /\
    height (fst (run_blocks (firstn k bs) n1)) = height (fst (run_blocks (firstn k bs) n2)).
Proof. exact run_functional. Qed.

(* a later block cannot change an earlier result *)
Theorem C06_results_prefix : forall bs n (k : nat),
  snd (run_blocks (firstn k bs) n) = firstn k (snd (run_blocks bs n)).
Proof. exact results_prefix. Qed.

(* restarts / queries / mempool checks / simulations inserted anywhere change no block result
   and not the final committed state *)
Theorem C06_stutter_invariance : forall h1 h2 n1 n2,
  blocks_of h1 = blocks_of h2 -> ceq n1 n2 ->
  results_of (snd (run_ops h1 n1)) = results_of (snd (run_ops h2 n2)) /\
  committed (fst (run_ops h1 n1)) = committed (fst (run_ops h2 n2)) /\
  export (committed (fst (run_ops h1 n1))) = export (committed (fst (run_ops h2 n2))) /\
  height (fst (run_ops h1 n1)) = height (fst (run_ops h2 n2)).
Proof. exact stutter_invariance. Qed.

Theorem C06_stutter_every_height : forall h n (k : nat),
  firstn k (results_of (snd (run_ops h n))) = snd (run_blocks (firstn k (blocks_of h)) n).
Proof. exact stutter_every_height. Qed.

Theorem C06_restart_idempotent : forall n,
  restart (restart n) = restart n /\ ceq (restart n) n.
Proof. exact restart_idempotent. Qed.

Theorem C06_block_leaves_nothing_volatile : forall b n,
  r_halted (snd (run_block b n)) = false ->
  restart (fst (run_block b n)) = fst (run_block b n).
Proof. exact run_block_clean. Qed.

Theorem C06_reads_do_not_touch_committed : forall o n,
  match o with Block _ => False | _ => True end ->
  ceq (fst (step o n)) n /\
  (match o with Query _ | Simulate _ => fst (step o n) = n | _ => True end).
Proof. exact reads_do_not_touch_committed. Qed.

Theorem C06_checktx_only_checkstate : forall t n,
  committed (fst (check_tx t n)) = committed n /\
  height (fst (check_tx t n)) = height n /\
  checkst (fst (check_tx t n)) = fst (deliver_tx (c_time (checkst n)) (checkst n) t) /\
  restart (fst (check_tx t n)) = restart n.
Proof. exact checktx_only_checkstate. Qed.

Theorem C06_failed_tx_leaves_no_trace : forall now s t,
  snd (deliver_tx now s t) = false ->
  (ante t s = None /\ fst (deliver_tx now s t) = s) \/
  (ante t s = Some (fst (deliver_tx now s t)) /\ exec_msgs now t (fst (deliver_tx now s t)) = None).
Proof. exact deliver_tx_rejected_no_trace. Qed.

Theorem C06_failed_cosmos_tx_leaves_no_trace : forall now s t,
  match t with TxEvm _ _ _ _ _ _ => False | _ => True end ->
  snd (deliver_tx now s t) = false -> fst (deliver_tx now s t) = s.
Proof. exact deliver_tx_rejected_no_trace_cosmos. Qed.

(* chain-level accounting: consequences of determinism of the composed model used by C05 / C10 / C02 *)

(* over every block list: the acanto supply after = the supply before + the mint events of the blocks
   (x/inflation: the provision, per due epoch end) - the burn events of the transactions (x/csr hook:
   fee - csr fee for a registered target, the whole fee otherwise; x/coinswap: the burned part of a
   pool-creation fee) -- the events are the explicit contribution formulas of Model/Chain.v carried
   by the block results, and nothing else moves the supply *)
Theorem C06_supply_accounting : forall bs n,
  supply (committed (fst (run_blocks bs n))) =
  supply (committed n) + minted_total (snd (run_blocks bs n)) - burned_total (snd (run_blocks bs n)).
Proof. exact supply_accounting. Qed.

Theorem C06_supply_accounting_every_height : forall bs n (k : nat),
  supply (committed (fst (run_blocks (firstn k bs) n))) =
  supply (committed n) + minted_total (firstn k (snd (run_blocks bs n))) - burned_total (firstn k (snd (run_blocks bs n))).
Proof. exact supply_accounting_every_height. Qed.

(* restarts, queries, mempool checks and simulations contribute nothing *)
Theorem C06_supply_accounting_history : forall h n,
  supply (committed (fst (run_ops h n))) =
  supply (committed n) + minted_total (results_of (snd (run_ops h n))) - burned_total (results_of (snd (run_ops h n))).
Proof. exact supply_accounting_history. Qed.

Theorem C06_supply_accounting_block : forall b n,
  supply (committed (fst (run_block b n))) =
  supply (committed n) + r_minted (snd (run_block b n)) - zsum (r_burned (snd (run_block b n))).
Proof. exact run_block_supply. Qed.

(* what contributes 0: parameter updates, other messages (conversions, governance bookkeeping), failed
   EVM executions, every coinswap message but a pool-creating addition, additions to an existing pool
   or with a creation fee in another denomination, the whole end-blocker; a rejected transaction *)
Theorem C06_supply_accounting_zero_contributions :
  (forall s a u, tx_burn_of (TxParams a u) s = 0) /\
  (forall s acc, tx_burn_of (TxOther acc) s = 0) /\
  (forall s sender limit aok cok e, tx_burn_of (TxEvm sender limit aok cok false e) s = 0) /\
  (forall s o, match o with Coinswap.AddLiq _ _ _ _ _ _ => False | _ => True end -> tx_burn_of (TxSwap o) s = 0) /\
  (forall s sender n q mt es ml dl, Coinswap.lookup_pool n (Coinswap.st_pools (c_swap s)) = Some q ->
     tx_burn_of (TxSwap (Coinswap.AddLiq sender (Coinswap.Tok n) mt es ml dl)) s = 0) /\
  (forall s sender n mt es ml dl,
     Coinswap.denom_eqb (Coinswap.p_cfee_denom (Coinswap.st_params (c_swap s))) Coinswap.Std = false ->
     tx_burn_of (TxSwap (Coinswap.AddLiq sender (Coinswap.Tok n) mt es ml dl)) s = 0) /\
  (forall us s, supply (end_blocker us s) = supply s).
Proof. exact zero_contributions. Qed.

Theorem C06_supply_accounting_rejected_tx : forall now t r s,
  snd (deliver_tx now s t) = false -> hd 0 (burns_of now (t :: r) s) = 0.
Proof. exact burns_of_rejected. Qed.

(* module accounts: the inflation module account is empty after every block; the csr module account
   is left as it was by every block (while the csr share is not negative, which governance preserves);
   the coinswap module account (standard coin) is left as it was by every block (no transfer addressed
   to the module account itself -- the real bank refuses those) *)
Theorem C06_supply_accounting_inflation_module_empty : forall bs n,
  infl_module (committed n) = 0 -> infl_module (committed (fst (run_blocks bs n))) = 0.
Proof. exact inflation_module_empty. Qed.

Theorem C06_supply_accounting_csr_module_unchanged : forall bs n,
  shares_ok (committed n) ->
  shares_ok (committed (fst (run_blocks bs n))) /\
  csr_module (committed (fst (run_blocks bs n))) = csr_module (committed n).
Proof. exact csr_module_unchanged. Qed.

Theorem C06_supply_accounting_coinswap_module_unchanged : forall bs n,
  Forall blk_ok bs ->
  swap_module (committed (fst (run_blocks bs n))) = swap_module (committed n).
Proof. exact coinswap_module_unchanged. Qed.

Print Assumptions C06_run_functional.
Print Assumptions C06_results_prefix.
Print Assumptions C06_stutter_invariance.
Print Assumptions C06_stutter_every_height.
Print Assumptions C06_restart_idempotent.
Print Assumptions C06_block_leaves_nothing_volatile.
Print Assumptions C06_reads_do_not_touch_committed.
Print Assumptions C06_checktx_only_checkstate.
Print Assumptions C06_failed_tx_leaves_no_trace.
Print Assumptions C06_failed_cosmos_tx_leaves_no_trace.
Print Assumptions C06_supply_accounting.
Print Assumptions C06_supply_accounting_every_height.
Print Assumptions C06_supply_accounting_history.
Print Assumptions C06_supply_accounting_block.
Print Assumptions C06_supply_accounting_zero_contributions.
Print Assumptions C06_supply_accounting_rejected_tx.
Print Assumptions C06_supply_accounting_inflation_module_empty.
Print Assumptions C06_supply_accounting_csr_module_unchanged.
Print Assumptions C06_supply_accounting_coinswap_module_unchanged.
