(** C06 — Replicas agree: execution is deterministic and survives restarts and reads.

    PARTIAL.  The theorems below are about the node model of Model/Chain.v (the
    composition of the epochs, inflation, coinswap, csr and authority models
    under baseapp's begin-block / deliver / end-block / commit discipline).
    They establish the LOGIC of the property: block results, committed state
    and export are a function of the committed state and the block list; the
    volatile check state, restarts at any block boundary, and any number of
    queries, mempool checks and simulations cannot influence any later result.

    NOT covered by any theorem, because a Gallina model cannot exhibit it:
      - Go map iteration order in consensus code,
      - goroutine scheduling / data races,
      - the behaviour of the database and the IAVL tree (what is really
        persisted, caches that survive a block but not a restart),
      - CometBFT itself.
    This runtime part is covered by the four-replica differential on the real
    application (harness/c06.go: plain / restarted from its database at every
    block boundary / reads interleaved / second quiet node; AppHash, result
    codes+data and exported genesis compared at every height) and by the static
    scan for new sources of nondeterminism.  That is exploration, not proof.

    Statements only; proofs are in Proofs/ChainProofs.v. *)
From Coq Require Import ZArith List Bool.
From Canto Require Import Model.Epochs Model.Chain Proofs.ChainProofs.
Import ListNotations.
Open Scope Z_scope.

(* any two nodes fed the same blocks: identical results, committed state, export at every height *)
Theorem C06_run_functional : forall bs n1 n2,
  ceq n1 n2 ->
  forall k : nat,
    snd (run_blocks (firstn k bs) n1) = snd (run_blocks (firstn k bs) n2) /\
    committed (fst (run_blocks (firstn k bs) n1)) = committed (fst (run_blocks (firstn k bs) n2)) /\
    export (committed (fst (run_blocks (firstn k bs) n1))) = export (committed (fst (run_blocks (firstn k bs) n2))) /\
    height (fst (run_blocks (firstn k bs) n1)) = height (fst (run_blocks (firstn k bs) n2)).
Proof. exact run_functional. Qed.

(* a later block cannot change an earlier result *)
Theorem C06_results_prefix : forall bs n (k : nat),
  snd (run_blocks (firstn k bs) n) = firstn k (snd (run_blocks bs n)).
Proof. exact results_prefix. Qed.

(* restarts / queries / mempool checks / simulations inserted anywhere change no block result
   and not the final committed state *)
Theorem C06_stutter_invariance : forall h1 h2 n1 n2,
  blocks_of h1 = blocks_of h2 -> ceq n1 n2 ->
  results_of (snd (run_ops h1 n1)) = results_of (snd (run_ops h2 n2)) /\
  committed (fst (run_ops h1 n1)) = committed (fst (run_ops h2 n2)) /\
  export (committed (fst (run_ops h1 n1))) = export (committed (fst (run_ops h2 n2))) /\
  height (fst (run_ops h1 n1)) = height (fst (run_ops h2 n2)).
Proof. exact stutter_invariance. Qed.

Theorem C06_stutter_every_height : forall h n (k : nat),
  firstn k (results_of (snd (run_ops h n))) = snd (run_blocks (firstn k (blocks_of h)) n).
Proof. exact stutter_every_height. Qed.

Theorem C06_restart_idempotent : forall n,
  restart (restart n) = restart n /\ ceq (restart n) n.
Proof. exact restart_idempotent. Qed.

Theorem C06_block_leaves_nothing_volatile : forall b n,
  r_halted (snd (run_block b n)) = false ->
  restart (fst (run_block b n)) = fst (run_block b n).
Proof. exact run_block_clean. Qed.

Theorem C06_reads_do_not_touch_committed : forall o n,
  match o with Block _ => False | _ => True end ->
  ceq (fst (step o n)) n /\
  (match o with Query _ | Simulate _ => fst (step o n) = n | _ => True end).
Proof. exact reads_do_not_touch_committed. Qed.

Theorem C06_checktx_only_checkstate : forall t n,
  committed (fst (check_tx t n)) = committed n /\
  height (fst (check_tx t n)) = height n /\
  checkst (fst (check_tx t n)) = fst (deliver_tx (c_time (checkst n)) (checkst n) t) /\
  restart (fst (check_tx t n)) = restart n.
Proof. exact checktx_only_checkstate. Qed.

Theorem C06_failed_tx_leaves_no_trace : forall now s t,
  snd (deliver_tx now s t) = false ->
  (ante t s = None /\ fst (deliver_tx now s t) = s) \/
  (ante t s = Some (fst (deliver_tx now s t)) /\ exec_msgs now t (fst (deliver_tx now s t)) = None).
Proof. exact deliver_tx_rejected_no_trace. Qed.

Theorem C06_failed_cosmos_tx_leaves_no_trace : forall now s t,
  match t with TxEvm _ _ _ _ _ _ => False | _ => True end ->
  snd (deliver_tx now s t) = false -> fst (deliver_tx now s t) = s.
Proof. exact deliver_tx_rejected_no_trace_cosmos. Qed.

Print Assumptions C06_run_functional.
Print Assumptions C06_results_prefix.
Print Assumptions C06_stutter_invariance.
Print Assumptions C06_stutter_every_height.
Print Assumptions C06_restart_idempotent.
Print Assumptions C06_block_leaves_nothing_volatile.
Print Assumptions C06_reads_do_not_touch_committed.
Print Assumptions C06_checktx_only_checkstate.
Print Assumptions C06_failed_tx_leaves_no_trace.
Print Assumptions C06_failed_cosmos_tx_leaves_no_trace.
