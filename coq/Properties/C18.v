(** C18 — Exported genesis is complete: export, import, export is a fixed point.
    Statements only; proofs are in Proofs/GenesisProofs.v.

    [Inv] is the conjunction of the reachable-state invariants: coinswap (what ValidateGenesis
    demands of the stored pools and sequence, every stored parameter field valid, exact
    lpt-denom index), erc20 ([TokenPairsProofs.Inv] of C15), csr ([CsrProofs.csr_inv] of C16, stored
    ids listed, share valid), inflation (stored parameters valid, epochs per period > 0, the
    provision formula inside LegacyDec), epochs (identifiers in order and not blank, duration <> 0,
    start time <> the zero-time sentinel), onboarding (threshold valid).
    [ctx_ok c]: bonded ratio and block height of InitGenesis are not negative. *)
From stdpp Require Import gmap.
From Coq Require Import ZArith List Bool.
From Canto Require Import Model.Authority Model.Epochs Model.Genesis Proofs.GenesisProofs.
Import ListNotations.
Open Scope Z_scope.

(* the export always passes the modules' own genesis validation *)
Theorem C18_export_valid : forall s, Inv s -> validate (export s) = true.
Proof. exact export_valid. Qed.

(* a fresh chain can always be initialised from the export *)
Theorem C18_import_export_defined : forall c s, ctx_ok c -> Inv s -> exists s', import c (export s) = Some s'.
Proof. exact import_export_defined. Qed.

(* exporting again yields the same documents, except each epoch's current_epoch_start_height *)
Theorem C18_fixed_point : forall c s s',
  ctx_ok c -> Inv s -> import c (export s) = Some s' -> gen_equiv (export s') (export s).
Proof. exact fixed_point. Qed.

(* pools, token pairs, CSRs, contract addresses, epochs, periods and parameters are answered
   identically by the re-imported chain, for every choice of query arguments *)
Theorem C18_queries_equal : forall c s s' pr,
  ctx_ok c -> Inv s -> import c (export s) = Some s' -> answer pr s' = answer pr s.
Proof. exact queries_equal. Qed.

(* the re-imported chain is again a state of the invariant *)
Theorem C18_after_inv : forall c s, ctx_ok c -> Inv s -> Inv (after c s).
Proof. exact after_inv. Qed.

(* the hypotheses are satisfiable by a state with pools, pairs, CSRs with revenue and started epochs *)
Theorem C18_nonvacuous : Inv ex_st /\ ctx_ok ex_ctx.
Proof. exact (conj ex_inv ex_ctx_ok). Qed.

Print Assumptions C18_export_valid.
Print Assumptions C18_import_export_defined.
Print Assumptions C18_fixed_point.
Print Assumptions C18_queries_equal.
Print Assumptions C18_after_inv.
Print Assumptions C18_nonvacuous.
