(** C18 — Exported genesis is complete: export, import, export is a fixed point.
    Statements only; proofs are in Proofs/GenesisProofs.v.

    [Inv] is the conjunction of the reachable-state invariants: coinswap (what ValidateGenesis
    demands of the stored pools and sequence, every stored parameter field valid, exact
    lpt-denom index), erc20 ([TokenPairsProofs.Inv] of C15), csr ([CsrProofs.csr_inv] of C16, stored
    ids listed, share valid), inflation (stored parameters valid - which since the repair of
    the C18 finding includes that the provision is computable -, epochs per period > 0), epochs (identifiers in order and not blank, duration <> 0,
    start time <> the zero-time sentinel), onboarding (threshold valid).
    [ctx_ok c]: bonded ratio and block height of InitGenesis are not negative. *)
From stdpp Require Import gmap.
From Coq Require Import ZArith List Bool.
From Canto Require Import Model.Authority Model.Epochs Model.Genesis Proofs.GenesisProofs.
Import ListNotations.
Open Scope Z_scope.

(* the export always passes the modules' own genesis validation *)
Theorem C18_export_valid : forall s, Inv s -> validate (export s) = true.
Proof. exact export_valid. Qed.

(* a fresh chain can always be initialised from the export *)
Theorem C18_import_export_defined : forall c s, ctx_ok c -> Inv s -> exists s', import c (export s) = Some s'.
Proof. exact import_export_defined. Qed.

(* exporting again yields the same documents, except each epoch's current_epoch_start_height *)
Theorem C18_fixed_point : forall c s s',
  ctx_ok c -> Inv s -> import c (export s) = Some s' -> gen_equiv (export s') (export s).
Proof. exact fixed_point. Qed.

(* pools, token pairs, CSRs, contract addresses, epochs, periods and parameters are answered
   identically by the re-imported chain, for every choice of query arguments *)
Theorem C18_queries_equal : forall c s s' pr,
  ctx_ok c -> Inv s -> import c (export s) = Some s' -> answer pr s' = answer pr s.
Proof. exact queries_equal. Qed.

(* the re-imported chain is again a state of the invariant *)
Theorem C18_after_inv : forall c s, ctx_ok c -> Inv s -> Inv (after c s).
Proof. exact after_inv. Qed.

(* the hypotheses are satisfiable by a state with pools, pairs, CSRs with revenue and started epochs *)
Theorem C18_nonvacuous : Inv ex_st /\ ctx_ok ex_ctx.
Proof. exact (conj ex_inv ex_ctx_ok). Qed.

(** ** All histories.  The chain is the product of the operational models of the other properties
    ([world]: AMM with pool creation, stored parameter sets under governance, token-pair registry, CSR
    registry with the post-transaction hook, epoch clock with inflation as listener, govshuttle port);
    [abs] is the stored state the seven modules export.  [WInv] is the conjunction of the models' own
    invariants (coinswap well-formedness and "next sequence = 1 + highest sequence", stored parameters
    valid, registry invariants of C15 and C16, listed NFT ids, epochs per period > 0, epoch records). *)

(* coinswap: along every history of the AMM the next pool sequence is one above the highest in use *)
Theorem C18_coinswap_sequence : forall h s,
  Canto.Proofs.CoinswapEffects.WF s -> Canto.Proofs.GenesisCoinswap.seq_exact s ->
  Canto.Proofs.GenesisCoinswap.seq_exact (Canto.Model.Coinswap.run h s).
Proof. exact Canto.Proofs.GenesisCoinswap.run_seq_exact. Qed.

(* every operation keeps the invariant of the world, every invariant world exports an [Inv] state *)
Theorem C18_wstep_inv : forall gov day o w, WInv w -> op_ok w o -> WInv (wstep gov day o w).
Proof. exact wstep_inv. Qed.
Theorem C18_abs_inv : forall w, WInv w -> Inv (abs w).
Proof. exact abs_inv. Qed.

(* NFT ids appear only through Register events of the Turnstile: derived from Model/Csr.v *)
Theorem C18_csr_ids_from_register_events : forall t s n,
  Canto.Model.Csr.csrs (Canto.Model.Csr.reg (Canto.Model.Csr.deliver t s)) n <> None ->
  Canto.Model.Csr.csrs (Canto.Model.Csr.reg s) n <> None \/
  exists ts, Canto.Model.Csr.turnstile (Canto.Model.Csr.cfg s) = Some ts /\ In n (ts_reg_ids ts (Canto.Model.Csr.tx_logs t)).
Proof. exact deliver_ids. Qed.

(* after any history: the export is valid, imports, re-exports to the same documents, answers the same.
   [hist_ok gov day w os] asks, operation by operation ([op_ok]), only for two external facts:
     - WErc20: the address the EVM gives to the contract deployed by RegisterCoin is not the address of a
       registered pair ([TokenPairsProofs.fresh_ok], a fact about the EVM's CREATE addresses);
     - WBlock: the block height is not negative.
   Everything else is derived from the operational models. *)
Theorem C18_history : forall gov day c os w,
  ctx_ok c -> WInv w -> hist_ok gov day w os ->
  let s := abs (wrun gov day os w) in
  validate (export s) = true /\
  exists s', import c (export s) = Some s' /\
             gen_equiv (export s') (export s) /\
             forall pr, answer pr s' = answer pr s.
Proof. exact history. Qed.

Theorem C18_history_nonvacuous : WInv ex_world /\ hist_ok ex_gov 0 ex_world ex_ops.
Proof. exact (conj ex_winv ex_hist_ok). Qed.

(* whatever passes x/inflation's ValidateGenesis is imported without a panic: the validator evaluates the
   worst case of the provision (repair of the C18 finding), which dominates every other evaluation *)
Theorem C18_import_defined_for_valid_params : forall c g,
  0 <= ic_bonded c -> validate_inf g = true -> exists s, import_inf c g = Some s.
Proof. exact import_defined_for_valid_params. Qed.

Print Assumptions C18_export_valid.
Print Assumptions C18_import_export_defined.
Print Assumptions C18_fixed_point.
Print Assumptions C18_queries_equal.
Print Assumptions C18_after_inv.
Print Assumptions C18_nonvacuous.
Print Assumptions C18_coinswap_sequence.
Print Assumptions C18_wstep_inv.
Print Assumptions C18_abs_inv.
Print Assumptions C18_csr_ids_from_register_events.
Print Assumptions C18_history.
Print Assumptions C18_history_nonvacuous.
Print Assumptions C18_import_defined_for_valid_params.
