(** C12 — Epochs tick in order, at most once per block, and never early.
    Statements only; proofs are in Proofs/EpochsProofs.v. *)
From Coq Require Import ZArith List Bool.
From Canto Require Import Model.Epochs Proofs.EpochsProofs.
Import ListNotations.
Open Scope Z_scope.

(* counting starts at the first block whose time is not before the start time *)
Theorem C12_starts_iff : forall t h e,
  e_started e = false ->
  (e_started (fst (tick t h e)) = true <-> e_start e <= t) /\
  (e_start e <= t -> tick t h e = (started_rec h e, [BeforeStart (e_id e) 1])) /\
  (t < e_start e -> tick t h e = (e, [])).
Proof. exact starts_iff. Qed.

(* thereafter: +1 exactly in the blocks strictly after current start + duration,
   end-of-epoch then start-of-epoch with the same number, once; all other
   blocks leave the record unchanged *)
Theorem C12_tick_iff : forall t0 t h e,
  Inv t0 e -> t0 <= t -> e_started e = true ->
  (e_cur (fst (tick t h e)) = e_cur e + 1 <-> e_cur_start e + e_dur e < t) /\
  (e_cur_start e + e_dur e < t ->
     tick t h e = (ticked_rec h e,
                   [AfterEnd (e_id e) (e_cur e + 1); BeforeStart (e_id e) (e_cur e + 1)])) /\
  (t <= e_cur_start e + e_dur e -> tick t h e = (e, [])).
Proof. exact tick_iff. Qed.

Theorem C12_at_most_one : forall t h e,
  e_cur (fst (tick t h e)) = e_cur e \/
  e_cur (fst (tick t h e)) = e_cur e + 1 \/
  (e_started e = false /\ e_cur (fst (tick t h e)) = 1).
Proof. exact at_most_one. Qed.

(* every history of non-decreasing block times: closed form of the current
   start, never in the future *)
Theorem C12_clock_inv : forall bs t0 e,
  mono t0 bs -> e_started e = false ->
  let e' := fst (run1 bs e) in
  e_started e' = true ->
  e_cur_start e' = e_start e + (e_cur e' - 1) * e_dur e /\
  1 <= e_cur e' /\ e_cur_start e' <= last_time t0 bs.
Proof. exact clock_inv. Qed.

(* every history: what a listener sees is BeforeStart 1, then (AfterEnd n;
   BeforeStart n) for n = 2,3,... without gap or repeat, ending at the stored number *)
Theorem C12_hooks_consecutive : forall bs t0 e,
  mono t0 bs -> e_started e = false ->
  (snd (run1 bs e) = [] /\ fst (run1 bs e) = e) \/
  (exists k : nat,
     snd (run1 bs e) = BeforeStart (e_id e) 1 :: seg (e_id e) 1 k /\
     e_cur (fst (run1 bs e)) = 1 + Z.of_nat k /\
     e_started (fst (run1 bs e)) = true).
Proof. exact hooks_consecutive. Qed.

(* several identifiers in one block: each advanced by its own tick, and the
   calls for one identifier are exactly its own *)
Theorem C12_block_records : forall t h es,
  fst (begin_block t h es) = map (fun e => fst (tick t h e)) es.
Proof. exact block_records. Qed.
Theorem C12_block_hooks_per_id : forall t h es e,
  NoDup (map e_id es) -> In e es ->
  for_id (e_id e) (snd (begin_block t h es)) = snd (tick t h e).
Proof. exact block_hooks_per_id. Qed.

Print Assumptions C12_starts_iff.
Print Assumptions C12_tick_iff.
Print Assumptions C12_at_most_one.
Print Assumptions C12_clock_inv.
Print Assumptions C12_hooks_consecutive.
Print Assumptions C12_block_records.
Print Assumptions C12_block_hooks_per_id.
