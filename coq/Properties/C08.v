(** C08 -- User-set limits, deadlines and quoted amounts are honoured exactly.
    Statements only; proofs are in Proofs/Coinswap*.v. *)
From Coq Require Import ZArith List Bool.
From Canto Require Import Lib.SdkInt Lib.SdkDec Model.Coinswap Proofs.CoinswapBase Proofs.CoinswapEffects
     Proofs.CoinswapValue Proofs.CoinswapWF Proofs.CoinswapLaws Proofs.CoinswapHistory Proofs.CoinswapReserves.
Import ListNotations.
Open Scope Z_scope.

(* sell order: exactly the stated input, at least the stated minimum, within one unit of the exact constant-product value rounded in the pool favour *)
Theorem C08_sell_ok :
  forall (now : Z) (s : state) (u : Z) (rec : acct) (din : denom) 
           (ain : Z) (dout : denom) (min_out deadline : Z) (s' : state) (r : list Z),
         WF s ->
         exec now s (Sell u rec din ain dout min_out deadline) = Some (s', r) ->
         exists q n out mx : Z,
           r = [] /\
           pool_of s din dout = Some q /\
           lookup_pool n (st_pools s) = Some q /\
           expired now deadline = false /\
           (let X := st_bal s (Escrow q) din in
            let Y := st_bal s (Escrow q) dout in
            let g := S18 - p_fee (st_params s) in
            0 < X /\
            0 < Y /\
            st_bal s' (User u) din = st_bal s (User u) din - ain /\
            min_out <= out /\
            0 <= out < Y /\
            (rec <> Escrow q -> st_bal s' rec dout = st_bal s rec dout + out) /\
            (rec <> Escrow q ->
             st_bal s' (Escrow q) din = X + ain /\ st_bal s' (Escrow q) dout = Y - out) /\
            out * (X * S18 + ain * g) <= ain * g * Y < (out + 1) * (X * S18 + ain * g) /\
            X * Y <= (X + ain) * (Y - out) /\
            is_module rec = false /\
            (din = Std /\ dout = Tok n /\ out <= mx \/ din = Tok n /\ dout = Std /\ ain <= mx) /\
            wl_lookup (Tok n) (p_wl (st_params s)) = Some mx).
Proof. exact sell_ok. Qed.

(* buy order: exactly the stated output for at most the stated maximum, within one unit, rounded in the pool favour *)
Theorem C08_buy_ok :
  forall (now : Z) (s : state) (u : Z) (rec : acct) (din : denom) 
           (max_in : Z) (dout : denom) (aout deadline : Z) (s' : state) (r : list Z),
         WF s ->
         exec now s (Buy u rec din max_in dout aout deadline) = Some (s', r) ->
         exists q n sold mx : Z,
           r = [] /\
           pool_of s din dout = Some q /\
           lookup_pool n (st_pools s) = Some q /\
           expired now deadline = false /\
           (let X := st_bal s (Escrow q) din in
            let Y := st_bal s (Escrow q) dout in
            let g := S18 - p_fee (st_params s) in
            0 < X /\
            0 < aout < Y /\
            0 < sold <= max_in /\
            st_bal s' (User u) din = st_bal s (User u) din - sold /\
            (rec <> Escrow q -> st_bal s' rec dout = st_bal s rec dout + aout) /\
            (rec <> Escrow q ->
             st_bal s' (Escrow q) din = X + sold /\ st_bal s' (Escrow q) dout = Y - aout) /\
            (sold - 1) * ((Y - aout) * g) <= X * aout * S18 < sold * ((Y - aout) * g) /\
            X * Y < (X + sold) * (Y - aout) /\
            is_module rec = false /\
            (din = Std /\ dout = Tok n /\ aout <= mx \/ din = Tok n /\ dout = Std /\ sold <= mx) /\
            wl_lookup (Tok n) (p_wl (st_params s)) = Some mx).
Proof. exact buy_ok. Qed.

(* addition: at most the stated token and standard amounts, at least the stated minimum liquidity, pro-rata formulas, response = minted = credited *)
Theorem C08_add_ok :
  forall (now : Z) (s : state) (u : Z) (tok : denom) (max_tok exact_std min_liq deadline : Z)
           (s' : state) (r : list Z),
         WF s ->
         exec now s (AddLiq u tok max_tok exact_std min_liq deadline) = Some (s', r) ->
         exists tokn q m std_in dep A tax : Z,
           tok = Tok tokn /\
           r = [m] /\
           lookup_pool tokn (st_pools s') = Some q /\
           negb (expired now deadline) = true /\
           0 < std_in <= exact_std /\
           0 < dep <= max_tok /\
           min_liq <= m /\
           0 <= m /\
           st_bal s' (Escrow q) Std = st_bal s (Escrow q) Std + std_in /\
           st_bal s' (Escrow q) (Tok tokn) = st_bal s (Escrow q) (Tok tokn) + dep /\
           add_bal_eq s s' (User u) q tokn std_in dep m (p_cfee_denom (st_params s)) A tax /\
           add_sup_eq s s' q m (p_cfee_denom (st_params s)) (A - tax) /\
           0 <= tax <= A /\
           (lookup_pool tokn (st_pools s) = None /\
            A = p_cfee_amt (st_params s) /\
            tax = A * p_tax (st_params s) / S18 /\
            q = st_next s /\ std_in = exact_std /\ dep = max_tok /\ m = exact_std \/
            lookup_pool tokn (st_pools s) = Some q /\
            A = 0 /\
            tax = 0 /\
            (st_sup s (Lpt q) = 0 /\ std_in = exact_std /\ dep = max_tok /\ m = exact_std \/
             0 < st_sup s (Lpt q) /\
             0 < st_bal s (Escrow q) Std /\
             std_in = Z.min exact_std (p_cap (st_params s) - st_bal s (Escrow q) Std) /\
             m = st_sup s (Lpt q) * std_in / st_bal s (Escrow q) Std /\
             dep = st_bal s (Escrow q) (Tok tokn) * std_in / st_bal s (Escrow q) Std + 1)) /\
           0 < wl_amount (Tok tokn) (p_wl (st_params s)) /\
           std_in <= p_cap (st_params s) /\
           (0 < st_sup s (Lpt q) ->
            lookup_pool tokn (st_pools s) = Some q ->
            std_in <= p_cap (st_params s) - st_bal s (Escrow q) Std).
Proof. exact add_ok. Qed.

(* removal: burns exactly the stated pool tokens, pays at least both minimums, pro-rata within one unit, response = applied balance changes *)
Theorem C08_remove_ok :
  forall (now : Z) (s : state) (u : Z) (lpt : denom) (w min_std min_tok deadline : Z)
           (s' : state) (r : list Z),
         WF s ->
         exec now s (RemoveLiq u lpt w min_std min_tok deadline) = Some (s', r) ->
         exists q n ps pt : Z,
           lpt = Lpt q /\
           r = [ps; pt] /\
           lookup_pool n (st_pools s) = Some q /\
           expired now deadline = false /\
           (let X := st_bal s (Escrow q) Std in
            let Y := st_bal s (Escrow q) (Tok n) in
            let L := st_sup s (Lpt q) in
            0 < w <= L /\
            st_sup s' (Lpt q) = L - w /\
            st_bal s' (User u) (Lpt q) = st_bal s (User u) (Lpt q) - w /\
            min_std <= ps /\
            min_tok <= pt /\
            st_bal s' (Escrow q) Std = X - ps /\
            st_bal s' (Escrow q) (Tok n) = Y - pt /\
            st_bal s' (User u) Std = st_bal s (User u) Std + ps /\
            st_bal s' (User u) (Tok n) = st_bal s (User u) (Tok n) + pt /\
            ps * L <= w * X < (ps + 1) * L /\
            pt * L <= w * Y < (pt + 1) * L /\
            (forall e : denom, e <> Lpt q -> st_sup s' e = st_sup s e) /\
            (forall x : acct,
             x <> User u -> x <> Escrow q -> forall e : denom, st_bal s' x e = st_bal s x e)).
Proof. exact remove_ok. Qed.

(* no message takes effect when the block time is past its deadline *)
Theorem C08_deadline_ok :
  forall (now : Z) (s : state) (o : op) (s' : state) (r : list Z),
         exec now s o = Some (s', r) ->
         match o with
         | Sell _ _ _ _ _ _ dl | Buy _ _ _ _ _ _ dl | AddLiq _ _ _ _ _ dl | RemoveLiq _ _ _ _ _ dl =>
             now <= dl * 1000000000
         | _ => True
         end.
Proof. exact deadline_ok. Qed.

(* the minimum-output bound is sharp: equal to the quote is accepted, one more is rejected *)
Theorem C08_sell_min_boundary :
  forall (s : state) (a rec : acct) (din : denom) (ain : Z) (dout : denom) 
           (m : Z) (s' : state) (out : Z),
         trade_sell s a rec din ain dout m = Some (s', out) ->
         trade_sell s a rec din ain dout out = Some (s', out) /\
         trade_sell s a rec din ain dout (out + 1) = None.
Proof. exact sell_min_boundary. Qed.

(* the maximum-input bound is sharp: equal to the quote is accepted, one less is rejected *)
Theorem C08_buy_max_boundary :
  forall (s : state) (a rec : acct) (din : denom) (mx : Z) (dout : denom) 
           (aout : Z) (s' : state) (sold : Z),
         trade_buy s a rec din mx dout aout = Some (s', sold) ->
         trade_buy s a rec din sold dout aout = Some (s', sold) /\
         trade_buy s a rec din (sold - 1) dout aout = None.
Proof. exact buy_max_boundary. Qed.

(* GetInputPrice as executed (with its overflow checks) computes floor(a g Y / (X 10^18 + a g)) *)
Theorem C08_input_price_spec :
  forall a X Y fee r : Z,
         0 <= fee < S18 ->
         0 < a ->
         0 < X ->
         0 < Y ->
         input_price a X Y fee = Some r -> r = a * (S18 - fee) * Y / (X * S18 + a * (S18 - fee)).
Proof. exact input_price_spec. Qed.

(* GetOutputPrice as executed computes floor(X dy 10^18 / ((Y - dy) g)) + 1 *)
Theorem C08_output_price_spec :
  forall dy X Y fee r : Z,
         0 <= fee < S18 ->
         0 < dy < Y ->
         0 < X -> output_price dy X Y fee = Some r -> r = X * dy * S18 / ((Y - dy) * (S18 - fee)) + 1.
Proof. exact output_price_spec. Qed.

(* the exact condition under which the sell kernel cannot panic *)
Theorem C08_input_price_total :
  forall a X Y fee : Z,
         0 <= fee < S18 ->
         0 < a ->
         0 < X ->
         0 < Y ->
         a * (S18 - fee) * Y < 2 ^ 256 ->
         X * S18 + a * (S18 - fee) < 2 ^ 256 -> exists r : Z, input_price a X Y fee = Some r.
Proof. exact input_price_total. Qed.

(* non-vacuity: a concrete well-formed state on which operations are accepted *)
Example C08_nonvacuous : WF ex_state.
Proof. exact ex_state_WF. Qed.

Print Assumptions C08_sell_ok.
Print Assumptions C08_buy_ok.
Print Assumptions C08_add_ok.
Print Assumptions C08_remove_ok.
Print Assumptions C08_deadline_ok.
Print Assumptions C08_sell_min_boundary.
Print Assumptions C08_buy_max_boundary.
Print Assumptions C08_input_price_spec.
Print Assumptions C08_output_price_spec.
Print Assumptions C08_input_price_total.
