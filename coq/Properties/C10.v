(** C10 — Contract-secured-revenue fee split is exact and leaves nothing behind.
    Statements only; proofs are in Proofs/CsrProofs.v.

    fee_hyps t s ts: csr enabled, Turnstile stored, 0 <= share <= 10^18 (what
    ValidateShares accepts), 0 < gas used < 2^64, 0 <= gas price, the fee
    collector holds the fee, fee < 2^255, module account balance >= 0. *)
From Coq Require Import ZArith List Bool.
From Canto Require Import Lib.SdkInt Lib.SdkDec Model.Csr Proofs.CsrProofs.
Import ListNotations.
Open Scope Z_scope.

(* fee * share is exact before TruncateInt: csrFee = floor(fee * share / 10^18) *)
Theorem C10_dec_mul_int_exact : forall fee sh,
  0 <= fee -> 0 <= sh -> SdkDec.rmul (SdkDec.of_int fee) sh = fee * sh.
Proof. exact dec_mul_int_exact. Qed.
Theorem C10_csr_fee_exact : forall fee sh,
  0 <= fee -> 0 <= sh -> fee * sh < 2 ^ 315 -> csr_fee_of fee sh = Some (fee * sh / SdkDec.S).
Proof. exact csr_fee_exact. Qed.

(* registered target: collector -fee, balances[nft] and revenue + floor(fee*share), txs + 1,
   supply -(fee - floor(fee*share)), module account unchanged, no other NFT touched *)
Theorem C10_split_registered : forall t s ts n r,
  fee_hyps t s ts ->
  let g := after_events t ts s in
  let fee := tx_gas_used t * tx_gas_price t in
  let cf := fee * share (cfg s) / SdkDec.S in
  target_nft t g = Some n -> csrs g n = Some r ->
  ts_bal (mon s) n + fee < 2 ^ 256 -> 0 <= c_revenue r -> c_revenue r + fee < 2 ^ 256 ->
  exists s', post_tx t s = Some s' /\
    collector (mon s') = collector (mon s) - fee /\
    module_acct (mon s') = module_acct (mon s) /\
    supply (mon s') = supply (mon s) - (fee - cf) /\
    ts_acct (mon s') = ts_acct (mon s) + cf /\
    (forall k, ts_bal (mon s') k = ts_bal (mon s) k + (if k =? n then cf else 0)) /\
    csrs (reg s') n = Some (mkCsr (c_contracts r) (u64 (c_txs r + 1)) (c_revenue r + cf)) /\
    (forall k, k <> n -> csrs (reg s') k = csrs g k) /\
    0 <= cf <= fee.
Proof. exact split_registered. Qed.

(* unregistered target or creation: the whole fee is burned, also when it is zero *)
Theorem C10_split_unregistered : forall t s ts,
  fee_hyps t s ts ->
  let g := after_events t ts s in
  let fee := tx_gas_used t * tx_gas_price t in
  target_nft t g = None ->
  exists s', post_tx t s = Some s' /\
    collector (mon s') = collector (mon s) - fee /\
    module_acct (mon s') = module_acct (mon s) /\
    supply (mon s') = supply (mon s) - fee /\
    ts_acct (mon s') = ts_acct (mon s) /\
    ts_bal (mon s') = ts_bal (mon s) /\
    reg s' = g.
Proof. exact split_unregistered. Qed.
Theorem C10_split_creation : forall t s ts,
  fee_hyps t s ts -> tx_to t = None ->
  let fee := tx_gas_used t * tx_gas_price t in
  exists s', post_tx t s = Some s' /\
    collector (mon s') = collector (mon s) - fee /\
    module_acct (mon s') = module_acct (mon s) /\
    supply (mon s') = supply (mon s) - fee /\
    ts_acct (mon s') = ts_acct (mon s) /\ ts_bal (mon s') = ts_bal (mon s).
Proof. exact split_creation. Qed.
Theorem C10_split_zero_fee : forall t s ts,
  fee_hyps t s ts -> tx_gas_price t = 0 -> target_nft t (after_events t ts s) = None ->
  exists s', post_tx t s = Some s' /\ collector (mon s') = collector (mon s) /\
    module_acct (mon s') = module_acct (mon s) /\ supply (mon s') = supply (mon s).
Proof. exact split_zero_fee. Qed.

(* with the collector funded the hook returns Ok for every accepted share and every target *)
Theorem C10_never_fails : forall t s ts,
  fee_hyps t s ts -> csr_inv (reg s) -> nft_room t s ts -> exists s', post_tx t s = Some s'.
Proof. exact never_fails. Qed.

(* finding F3, kept as documentation: the same statement is false of the hook as it was
   before the repair (share 0; share 1; gas price 0) *)
Theorem C10_never_fails_refuted :
  exists t s ts, fee_hyps t s ts /\ csr_inv (reg s) /\ nft_room t s ts /\ post_tx_unfixed t s = None.
Proof. exact never_fails_refuted. Qed.
Theorem C10_never_fails_refuted_share_one :
  exists t s ts, fee_hyps t s ts /\ csr_inv (reg s) /\ nft_room t s ts /\
    share (cfg s) = SdkDec.S /\ post_tx_unfixed t s = None.
Proof. exact never_fails_refuted_share_one. Qed.
Theorem C10_never_fails_refuted_gas_price_zero :
  exists t s ts, fee_hyps t s ts /\ csr_inv (reg s) /\ nft_room t s ts /\
    tx_gas_price t = 0 /\ tx_to t = None /\ post_tx_unfixed t s = None.
Proof. exact never_fails_refuted_gas_price_zero. Qed.

(* every history, transactions spread over any NFTs, failed ones included (they leave no trace):
   the module account keeps nothing; credited to the Turnstile = left the collector - burned;
   per NFT, revenue grew by what balances[nft] grew; summed over the NFTs that is the amount credited *)
Theorem C10_sum_over_history : forall l s,
  0 <= share (cfg s) ->
  let s' := run l s in
  module_acct (mon s') = module_acct (mon s) /\
  ts_acct (mon s') - ts_acct (mon s) =
    (collector (mon s) - collector (mon s')) - (supply (mon s) - supply (mon s')) /\
  (forall n, rev_of (reg s') n - rev_of (reg s) n = ts_bal (mon s') n - ts_bal (mon s) n) /\
  (forall ns, NoDup ns -> (forall n, csrs (reg s') n <> None -> In n ns) ->
     sumZ (fun n => rev_of (reg s') n - rev_of (reg s) n) ns = ts_acct (mon s') - ts_acct (mon s)).
Proof. exact sum_over_history. Qed.

Print Assumptions C10_dec_mul_int_exact.
Print Assumptions C10_csr_fee_exact.
Print Assumptions C10_split_registered.
Print Assumptions C10_split_unregistered.
Print Assumptions C10_split_creation.
Print Assumptions C10_split_zero_fee.
Print Assumptions C10_never_fails.
Print Assumptions C10_never_fails_refuted.
Print Assumptions C10_never_fails_refuted_share_one.
Print Assumptions C10_never_fails_refuted_gas_price_zero.
Print Assumptions C10_sum_over_history.
