(** C03 — Every wrapped token is backed one-for-one by escrowed value.
    Statements only; proofs are in Proofs/Erc20Proofs.v, the model in Model/Erc20.v.

    Hypotheses (stated in every theorem that needs them):
    - [wf_blocked]: the erc20 module account is a blocked address (app.go: every module
      account is; the harness checks it on the real app).  It is part of [state_inv].
    - [origin_ok_op]: no message, Ethereum transaction, call inside a transaction or bank
      send originates from the module address (nobody holds its key), and the deployer of an
      external contract does not apply its BURNER_ROLE (burnCoins — not a standard ERC-20
      function) to the tokens escrowed by the module.
    - [from_not_blocked_op] (only for the "equal except self-destroyed" clause): no Transfer
      event to the module names a blocked address as sender.

    Histories ([list op]) contain, besides the operations on one pair, whole Ethereum
    transactions [EvmTx legs] whose receipt carries an ARBITRARY list of logs, of several
    registered contracts and of unregistered ones, from externally owned accounts and from
    contract accounts alike: all calls are executed, then PostTxProcessing walks over all
    logs in order.  [C03_backing_step], [C03_backing_history], [C03_backed_after_history],
    [C03_ledger_history], [C03_stuck_zero] and [C03_escrow_equals_total_plus_selfburned]
    quantify over them (induction over the list of logs inside, induction over the history
    outside). *)
From Coq Require Import ZArith NArith List Bool.
From Canto Require Import Model.Erc20 Proofs.Erc20Proofs.
Import ListNotations.
Open Scope Z_scope.

(* the boolean evaluated by the monitor on implementation states is the invariant *)
Theorem C03_monitor_is_backing : forall ps, backing_b ps = true <-> backing ps.
Proof. exact backing_b_spec. Qed.

(* one operation on one pair: ConvertCoin, ConvertERC20 (all four internal paths), an ERC-20
   transfer followed by the post-tx hook with its failure branches, holder burn, role burn,
   bank send, toggle, send-enabled flip — each preserves
     module-owned:  escrow = totalSupply + selfburned + stuck
     external:      bank supply of the coin representation <= balanceOf(module) *)
Theorem C03_backing_pair_step : forall m h bl ps o ps',
  wf_blocked bl -> origin_ok o -> pair_inv ps ->
  exec_pair m h bl ps o = Some ps' -> pair_inv ps'.
Proof. exact exec_pair_inv. Qed.

(* several pairs: an operation on one pair leaves every other pair and the switches alone *)
Theorem C03_frame : forall s p po s',
  exec s (OnPair p po) = Some s' ->
  en_mod s' = en_mod s /\ en_hook s' = en_hook s /\ blocked s' = blocked s /\
  forall q, q <> p -> pairs s' q = pairs s q.
Proof. exact exec_frame. Qed.

(* one Ethereum transaction with any number of logs.  Between the execution of the calls and
   the hook an external pair is AHEAD of its invariant by the tokens the module has already
   received ([credits]); every iteration of the hook's loop uses up the credit of its own log
   and of no other, so no log is converted twice and none is paid out without its tokens *)
Theorem C03_hook_iteration : forall m h bl ps from to amt c,
  wf_blocked bl -> pair_inv_c ps (c + to_mod_amt to amt) ->
  pair_inv_c (hook m h bl ps from to amt) c.
Proof. exact hook_inv_c. Qed.
Theorem C03_hook_loop : forall m h bl ls f (c : Z -> Z),
  wf_blocked bl -> (forall q, pair_inv_c (f q) (c q + credits q ls)) ->
  forall q, pair_inv_c (hooks_run m h bl f ls q) (c q).
Proof. exact hooks_run_inv. Qed.
Theorem C03_backing_tx : forall s legs s',
  Forall leg_origin_ok legs -> state_inv s ->
  exec s (EvmTx legs) = Some s' -> state_inv s'.
Proof. exact exec_tx_inv. Qed.
(* a multi-log transaction is never counted as tokens destroyed by their holders *)
Theorem C03_tx_selfburned : forall s legs s',
  exec s (EvmTx legs) = Some s' ->
  forall q, p_selfburned (pairs s' q) = p_selfburned (pairs s q).
Proof. exact exec_tx_selfburned. Qed.

(* a coin that is merely NAMED like a pair's contract address (40 hex digits: GetTokenPairID
   resolves such a string through the ERC-20 address index) is not the pair's coin: the
   conversion is refused in every state and nothing changes - in particular no token of the
   pair is minted or released for it.  Histories may contain such messages anywhere
   ([origin_ok_op] puts no condition on them) *)
Theorem C03_foreign_coin_refused : forall s p sender receiver amt,
  exec s (OnPair p (ConvertForeignCoin sender receiver amt)) = None /\
  deliver s (OnPair p (ConvertForeignCoin sender receiver amt)) = s.
Proof. exact foreign_coin_refused. Qed.

(* every delivered operation (failed ones leave the state unchanged) preserves the invariant
   of every pair *)
Theorem C03_backing_step : forall s o,
  origin_ok_op o -> state_inv s -> state_inv (deliver s o).
Proof. exact backing_step. Qed.

(* ... hence every history does *)
Theorem C03_backing_history : forall ops s,
  Forall origin_ok_op ops -> state_inv s -> state_inv (run ops s).
Proof. exact backing_history. Qed.

(* the property in its own words, after any history, for any pair *)
Theorem C03_backed_after_history : forall ops s p,
  Forall origin_ok_op ops -> state_inv s ->
  let ps := pairs (run ops s) p in
  match p_kind ps with
  | ModuleOwned =>
      escrow ps >= p_total ps /\
      escrow ps = p_total ps + p_selfburned ps + p_stuck ps
  | External => p_supply ps <= p_tbal ps MOD
  end.
Proof. exact backed_after_history. Qed.

(* [selfburned] is exactly what holders destroyed themselves: it grows by the amount of each
   successful holder burn and by nothing else *)
Theorem C03_selfburned_is_holder_burns : forall m h bl ps o ps',
  exec_pair m h bl ps o = Some ps' ->
  p_selfburned ps' = p_selfburned ps + match o with HolderBurn _ amt => amt | _ => 0 end.
Proof. exact exec_pair_selfburned. Qed.

(* the honest ledger stays a ledger (non-negative, finitely supported balances summing to
   totalSupply) along every history; hence no balance exceeds totalSupply *)
Theorem C03_ledger_history : forall ops s, state_ledgers s -> state_ledgers (run ops s).
Proof. exact ledgers_history. Qed.
Theorem C03_balance_le_total : forall ps a, ledger_ok ps -> p_tbal ps a <= p_total ps.
Proof. exact balance_le_total. Qed.

(* stuck_zero: as long as no Transfer event has a blocked address as `from`, nothing gets
   stuck: the release of escrowed coins by the hook never fails for lack of escrow *)
Theorem C03_stuck_zero : forall ops s p,
  Forall origin_ok_op ops -> Forall (from_not_blocked_op (blocked s)) ops ->
  state_inv s -> state_ledgers s ->
  p_stuck (pairs (run ops s) p) = p_stuck (pairs s p).
Proof. exact stuck_history. Qed.

(* ... which gives "equal to it except for tokens that holders destroy themselves" *)
Theorem C03_escrow_equals_total_plus_selfburned : forall ops s p,
  Forall origin_ok_op ops -> Forall (from_not_blocked_op (blocked s)) ops ->
  state_inv s -> state_ledgers s -> p_stuck (pairs s p) = 0 ->
  let ps := pairs (run ops s) p in
  p_kind ps = ModuleOwned -> escrow ps = p_total ps + p_selfburned ps.
Proof. exact escrow_equals_total_plus_selfburned. Qed.

(* non-vacuity: a concrete two-pair state satisfies the hypotheses and a concrete history
   through both routes and both kinds ends in the computed, backed state *)
Example C03_example_state : state_inv ex_state /\ state_ledgers ex_state.
Proof. split; [exact ex_state_inv|exact ex_state_ledgers]. Qed.
Example C03_example_history :
  Forall origin_ok_op ex_history /\
  let s := run ex_history ex_state in
  (escrow (pairs s 0), p_total (pairs s 0), p_selfburned (pairs s 0), p_stuck (pairs s 0)) = (65, 60, 5, 0) /\
  (p_supply (pairs s 1), p_tbal (pairs s 1) MOD) = (63, 70) /\
  p_enabled (pairs s 0) = false.
Proof. split; [exact ex_history_origin|exact ex_history_result]. Qed.
(* transactions with several logs: two transfers to the module by a contract account in one
   transaction, mixed with a holder-to-holder transfer, an approval, a foreign log and another
   holder's transfer; on the external pair a zero amount, a blocked sender in the middle and a
   further log after it; a reverting transaction *)
Example C03_example_multi_log :
  Forall origin_ok_op ex_tx_history /\
  let s := run ex_tx_history ex_state in
  (escrow (pairs s 0), p_total (pairs s 0), p_cbal (pairs s 0) 7%N, p_cbal (pairs s 0) 3%N,
   p_tbal (pairs s 0) 7%N, p_tbal (pairs s 0) MOD) = (38, 38, 11, 1, 9, 0) /\
  (p_supply (pairs s 1), p_tbal (pairs s 1) MOD, escrow (pairs s 1), p_cbal (pairs s 1) 2%N) = (25, 25, 2, 13).
Proof. split; [exact ex_tx_history_origin|exact ex_tx_history_result]. Qed.
(* the hypothesis on origins is necessary *)
Example C03_origin_needed :
  let s' := deliver ex_state (OnPair 0 (ConvertCoin MOD 2%N 40)) in
  escrow (pairs s' 0) = 50 /\ p_total (pairs s' 0) = 90.
Proof. exact ex_origin_needed. Qed.

Print Assumptions C03_monitor_is_backing.
Print Assumptions C03_backing_pair_step.
Print Assumptions C03_frame.
Print Assumptions C03_hook_iteration.
Print Assumptions C03_hook_loop.
Print Assumptions C03_backing_tx.
Print Assumptions C03_tx_selfburned.
Print Assumptions C03_foreign_coin_refused.
Print Assumptions C03_backing_step.
Print Assumptions C03_backing_history.
Print Assumptions C03_backed_after_history.
Print Assumptions C03_selfburned_is_holder_burns.
Print Assumptions C03_ledger_history.
Print Assumptions C03_balance_le_total.
Print Assumptions C03_stuck_zero.
Print Assumptions C03_escrow_equals_total_plus_selfburned.
