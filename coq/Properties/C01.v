(** C01 -- Liquidity-provider share value is never diluted by any pool operation.
    Statements only; proofs are in Proofs/Coinswap*.v. *)
From Coq Require Import ZArith List Bool.
From Canto Require Import Lib.SdkInt Lib.SdkDec Model.Coinswap Proofs.CoinswapBase Proofs.CoinswapEffects
     Proofs.CoinswapValue Proofs.CoinswapWF Proofs.CoinswapLaws Proofs.CoinswapHistory Proofs.CoinswapReserves.
Import ListNotations.
Open Scope Z_scope.

(* for every message and every pool with outstanding tokens before and after: X Y / L^2 does not decrease (cross-multiplied) *)
Theorem C01_value_step :
  forall (now : Z) (s : state) (o : op) (n q : Z),
         WF s ->
         lookup_pool n (st_pools s) = Some q ->
         let s' := fst (deliver now s o) in 0 < RL s q -> 0 < RL s' q -> value_le s s' n q.
Proof. exact value_step. Qed.

(* over every history during which the pool keeps outstanding tokens (alive): the ratio at the end is at least the ratio at the start; any number of accounts and pools, donations, auto-swaps and live parameter changes included *)
Theorem C01_value_history :
  forall (h : list (Z * op)) (s : state) (n q : Z),
         WF s ->
         lookup_pool n (st_pools s) = Some q -> 0 < RL s q -> alive h s q -> value_le s (run h s) n q.
Proof. exact value_history. Qed.

(* a removal never pays more than the pro-rata share of either reserve (ps L <= w X, pt L <= w Y), rounded in the pool favour *)
Theorem C01_remove_ok :
  forall (now : Z) (s : state) (u : Z) (lpt : denom) (w min_std min_tok deadline : Z)
           (s' : state) (r : list Z),
         WF s ->
         exec now s (RemoveLiq u lpt w min_std min_tok deadline) = Some (s', r) ->
         exists q n ps pt : Z,
           lpt = Lpt q /\
           r = [ps; pt] /\
           lookup_pool n (st_pools s) = Some q /\
           expired now deadline = false /\
           (let X := st_bal s (Escrow q) Std in
            let Y := st_bal s (Escrow q) (Tok n) in
            let L := st_sup s (Lpt q) in
            0 < w <= L /\
            st_sup s' (Lpt q) = L - w /\
            st_bal s' (User u) (Lpt q) = st_bal s (User u) (Lpt q) - w /\
            min_std <= ps /\
            min_tok <= pt /\
            st_bal s' (Escrow q) Std = X - ps /\
            st_bal s' (Escrow q) (Tok n) = Y - pt /\
            st_bal s' (User u) Std = st_bal s (User u) Std + ps /\
            st_bal s' (User u) (Tok n) = st_bal s (User u) (Tok n) + pt /\
            ps * L <= w * X < (ps + 1) * L /\
            pt * L <= w * Y < (pt + 1) * L /\
            (forall e : denom, e <> Lpt q -> st_sup s' e = st_sup s e) /\
            (forall x : acct,
             x <> User u -> x <> Escrow q -> forall e : denom, st_bal s' x e = st_bal s x e)).
Proof. exact remove_ok. Qed.

(* adding and immediately removing the minted amount never returns more of either coin than was deposited (pool with outstanding tokens) *)
Theorem C01_add_then_remove :
  forall (now now' : Z) (s : state) (u n q max_tok exact_std min_liq dl : Z) 
           (s1 : state) (m min_std min_tok dl' : Z) (s2 : state) (ps pt : Z),
         WF s ->
         lookup_pool n (st_pools s) = Some q ->
         0 < st_sup s (Lpt q) ->
         exec now s (AddLiq u (Tok n) max_tok exact_std min_liq dl) = Some (s1, [m]) ->
         exec now' s1 (RemoveLiq u (Lpt q) m min_std min_tok dl') = Some (s2, [ps; pt]) ->
         ps <= st_bal s1 (Escrow q) Std - st_bal s (Escrow q) Std /\
         pt <= st_bal s1 (Escrow q) (Tok n) - st_bal s (Escrow q) (Tok n).
Proof. exact add_then_remove. Qed.

(* no round trip of swaps by one trader returns more than it started with *)
Theorem C01_swap_round_trip :
  forall (h : list (Z * op)) (s : state) (t n q : Z),
         WF s ->
         lookup_pool n (st_pools s) = Some q ->
         Forall (fun e : Z * op => swap_by t n (snd e)) h ->
         let s' := run h s in
         (st_bal s' (User t) (Tok n) = st_bal s (User t) (Tok n) ->
          0 < RY s q n -> st_bal s' (User t) Std <= st_bal s (User t) Std) /\
         (st_bal s' (User t) Std = st_bal s (User t) Std ->
          0 < RX s q -> st_bal s' (User t) (Tok n) <= st_bal s (User t) (Tok n)).
Proof. exact swap_round_trip. Qed.

(* a pool with outstanding tokens never has an empty reserve: preserved by every message *)
Theorem C01_reserves_step :
  forall (now : Z) (s : state) (o : op),
         WF s -> reserves_pos s -> reserves_pos (fst (deliver now s o)).
Proof. exact reserves_step. Qed.

(* ... hence along every history from a state where it holds (genesis has no pool) *)
Theorem C01_reserves_history :
  forall (h : list (Z * op)) (s : state), WF s -> reserves_pos s -> reserves_pos (run h s).
Proof. exact reserves_history. Qed.

(* the well-formedness hypothesis (valid params, non-negative balances and supplies, consistent pool list) holds along every history *)
Theorem C01_run_WF :
  forall (h : list (Z * op)) (s : state), WF s -> WF (run h s).
Proof. exact run_WF. Qed.

(* non-vacuity: a concrete well-formed state on which operations are accepted *)
Example C01_nonvacuous : WF ex_state.
Proof. exact ex_state_WF. Qed.

Print Assumptions C01_value_step.
Print Assumptions C01_value_history.
Print Assumptions C01_remove_ok.
Print Assumptions C01_add_then_remove.
Print Assumptions C01_swap_round_trip.
Print Assumptions C01_reserves_step.
Print Assumptions C01_reserves_history.
Print Assumptions C01_run_WF.
