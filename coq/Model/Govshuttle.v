(** Model of x/govshuttle: recording passed lending-market and treasury
    proposals in the ProposalStore contract (property C20).

    Mirrors /repo/x/govshuttle/keeper/msg_server.go (LendingMarketProposal,
    TreasuryProposal), keeper/proposals.go (AppendLendingMarketProposal,
    DeployMapContract, ToAddress, ToBytes, ToBigInt), keeper/keeper.go
    (GetPort, SetPort), types/proposal.go (FromTreasuryToLendingMarket),
    /repo/contracts/Port.sol (ProposalStore: constructor, AddProposal with its
    sender guard, QueryProp with its id guard) and go-ethereum v1.10.26
    common/bytes.go + common/types.go (Hex2Bytes, Bytes2Hex, FromHex,
    HexToAddress) over Go 1.23 encoding/hex (Decode, EncodeToString).

    Strings and byte strings are [list Z] of bytes (0..255).  An address is the
    big-endian value of its 20 bytes.  No proofs here. *)
From Coq Require Import ZArith List Bool.
From Canto Require Import Lib.SdkInt.
Import ListNotations.
Open Scope Z_scope.

Definition bytes := list Z.

Fixpoint bytes_eqb (a b : bytes) : bool :=
  match a, b with
  | [], [] => true
  | x :: r, y :: s => (x =? y) && bytes_eqb r s
  | _, _ => false
  end.

Fixpoint lists_eqb {A} (eqb : A -> A -> bool) (l1 l2 : list A) : bool :=
  match l1, l2 with
  | [], [] => true
  | x :: r, y :: s => eqb x y && lists_eqb eqb r s
  | _, _ => false
  end.

(* len(a) == len(b) without counting *)
Fixpoint same_length {A B} (a : list A) (b : list B) : bool :=
  match a, b with
  | [], [] => true
  | _ :: r, _ :: s => same_length r s
  | _, _ => false
  end.

(** * encoding/hex and go-ethereum common *)

(* reverseHexTable: '0'..'9', 'a'..'f', 'A'..'F'; everything else is invalid *)
Definition hexval (c : Z) : option Z :=
  if (48 <=? c) && (c <=? 57) then Some (c - 48)
  else if (97 <=? c) && (c <=? 102) then Some (c - 87)
  else if (65 <=? c) && (c <=? 70) then Some (c - 55)
  else None.

(* common.Hex2Bytes = hex.DecodeString with the error dropped: hex.Decode
   converts pair after pair and returns the bytes decoded before the first
   invalid character; an odd trailing character is dropped.  So "0x.." gives
   the empty byte string. *)
Fixpoint hex2bytes (s : bytes) : bytes :=
  match s with
  | p :: q :: r =>
      match hexval p, hexval q with
      | Some a, Some b => (16 * a + b) :: hex2bytes r
      | _, _ => []
      end
  | _ => []
  end.

(* hextable = "0123456789abcdef" *)
Definition hexdigit (d : Z) : Z := if d <? 10 then 48 + d else 87 + d.

(* common.Bytes2Hex = hex.EncodeToString *)
Fixpoint bytes2hex (b : bytes) : bytes :=
  match b with
  | [] => []
  | x :: r => hexdigit (x / 16) :: hexdigit (x mod 16) :: bytes2hex r
  end.

(* has0xPrefix *)
Definition has0x (s : bytes) : bool :=
  match s with
  | a :: c :: _ => (a =? 48) && ((c =? 120) || (c =? 88))
  | _ => false
  end.

Fixpoint even_length {A} (s : list A) : bool :=
  match s with
  | [] => true
  | [_] => false
  | _ :: _ :: r => even_length r
  end.

(* common.FromHex: strip 0x/0X, left-pad an odd string with '0', Hex2Bytes *)
Definition from_hex (s : bytes) : bytes :=
  let s1 := if has0x s then match s with _ :: _ :: r => r | _ => s end else s in
  hex2bytes (if even_length s1 then s1 else 48 :: s1).

Definition be_value (b : bytes) : Z := fold_left (fun acc x => acc * 256 + x) b 0.

(* common.HexToAddress = BytesToAddress (FromHex s): the last 20 bytes,
   left-padded with zeros, i.e. the big-endian value modulo 2^160 *)
Definition hex_to_address (s : bytes) : Z := be_value (from_hex s) mod 2 ^ 160.

(* strings.ToLower restricted to what can matter for the comparison with the
   ASCII words "canto" and "note": ASCII upper-case letters are lowered, every
   other byte is kept (no non-ASCII rune lowers to one of the letters of these
   words, so a string with a byte >= 128 never compares equal) *)
Definition lower_byte (c : Z) : Z := if (65 <=? c) && (c <=? 90) then c + 32 else c.
Definition str_canto : bytes := [99; 97; 110; 116; 111].
Definition str_note : bytes := [110; 111; 116; 101].
Definition supported_denom (d : bytes) : bool :=
  let s := map lower_byte d in bytes_eqb s str_canto || bytes_eqb s str_note.

(** * The ProposalStore contract (honest model of contracts/Port.sol) *)

Record proposal := mkProp {
  p_id : Z;
  p_title : bytes;
  p_desc : bytes;
  p_targets : list Z;
  p_values : list Z;
  p_sigs : list bytes;
  p_datas : list bytes
}.

(* the zero value of the Solidity struct; also what QueryProp returns on a miss *)
Definition empty_prop : proposal := mkProp 0 [] [] [] [] [] [].

Definition set_id (p : proposal) (i : Z) : proposal :=
  mkProp i (p_title p) (p_desc p) (p_targets p) (p_values p) (p_sigs p) (p_datas p).

Record pstore := mkStore {
  ps_owner : Z;                 (* immutable govshuttleModAcct = deployer *)
  ps_props : Z -> proposal      (* mapping(uint256 => Proposal), zero-initialised *)
}.

(* constructor: remembers the deployer and records the first proposal *)
Definition ps_deploy (sender : Z) (p : proposal) : pstore :=
  mkStore sender (fun i => if i =? p_id p then p else empty_prop).

(* AddProposal: require(msg.sender == govshuttleModAcct); proposals[propId] = newProp *)
Definition ps_add (sender : Z) (p : proposal) (c : pstore) : option pstore :=
  guard (sender =? ps_owner c) ;;
  Some (mkStore (ps_owner c) (fun i => if i =? p_id p then p else ps_props c i)).

(* QueryProp: the stored struct when its id field equals the key, else the empty struct *)
Definition ps_query (c : pstore) (i : Z) : proposal :=
  if p_id (ps_props c i) =? i then ps_props c i else empty_prop.

(** * The module *)

Record gstate := mkG {
  g_port : option Z;      (* GetPort: address of the store contract, if deployed *)
  g_store : pstore        (* storage of the contract at that address *)
}.

(* what an observer retrieves for id [i]: nothing before the store exists *)
Definition g_query (st : gstate) (i : Z) : proposal :=
  match g_port st with
  | Some _ => ps_query (g_store st) i
  | None => empty_prop
  end.

Record cfg := mkCfg {
  cfg_gov : bytes;        (* k.GetAuthority(): the authority string the keeper was built with *)
  cfg_mod : Z             (* types.ModuleAddress: EVM address of the govshuttle module account *)
}.

(* oracle inputs, recorded by the harness before every message *)
Record oracle := mkOracle {
  o_next_id : Z;          (* govKeeper.ProposalID.Peek(ctx) *)
  o_fresh : Z             (* crypto.CreateAddress(ModuleAddress, account sequence) *)
}.

Record lending_msg := mkLM {
  lm_auth : bytes;
  lm_title : bytes;
  lm_desc : bytes;
  lm_has_meta : bool;             (* Metadata != nil *)
  lm_accounts : list bytes;       (* Metadata.Account, hex strings *)
  lm_id : Z;                      (* Metadata.PropId *)
  lm_values : list Z;
  lm_calldatas : list bytes;      (* hex strings *)
  lm_sigs : list bytes
}.

Record treasury_msg := mkTM {
  tm_auth : bytes;
  tm_title : bytes;
  tm_desc : bytes;
  tm_id : Z;                      (* Metadata.PropID *)
  tm_recipient : bytes;
  tm_amount : Z;
  tm_denom : bytes
}.

Inductive op :=
| Lending (m : lending_msg)
| Treasury (m : treasury_msg).

(* the arguments handed to the contract: ToAddress, ToBigInt, ToBytes *)
Definition lending_proposal (m : lending_msg) : proposal :=
  mkProp (lm_id m) (lm_title m) (lm_desc m)
         (map hex_to_address (lm_accounts m)) (lm_values m) (lm_sigs m)
         (map hex2bytes (lm_calldatas m)).

(* MsgTreasuryProposal.FromTreasuryToLendingMarket *)
Definition treasury_to_lending (m : treasury_msg) : lending_msg :=
  mkLM (tm_auth m) (tm_title m) (tm_desc m) true
       [tm_recipient m] (tm_id m) [tm_amount m] [] [tm_denom m].

(* the id under which the proposal is stored *)
Definition effective_id (o : oracle) (i : Z) : Z := if i =? 0 then o_next_id o else i.

(* AppendLendingMarketProposal *)
Definition append_proposal (c : cfg) (o : oracle) (p : proposal) (st : gstate) : option gstate :=
  let p' := set_id p (effective_id o (p_id p)) in
  match g_port st with
  | Some a =>
      s <- ps_add (cfg_mod c) p' (g_store st) ;;
      Some (mkG (Some a) s)
  | None =>
      (* DeployMapContract (constructor records the proposal), SetPort, then AddProposal *)
      s <- ps_add (cfg_mod c) p' (ps_deploy (cfg_mod c) p') ;;
      Some (mkG (Some (o_fresh o)) s)
  end.

(* Keeper.LendingMarketProposal; a nil Metadata passes the length checks and
   panics in AppendLendingMarketProposal (assignment through the nil pointer) *)
Definition valid_lending (c : cfg) (m : lending_msg) : bool :=
  bytes_eqb (cfg_gov c) (lm_auth m) &&
  same_length (lm_calldatas m) (lm_values m) &&
  same_length (lm_values m) (lm_sigs m) &&
  lm_has_meta m.

Definition exec_lending (c : cfg) (o : oracle) (m : lending_msg) (st : gstate) : option gstate :=
  guard (bytes_eqb (cfg_gov c) (lm_auth m)) ;;
  guard (same_length (lm_calldatas m) (lm_values m)) ;;
  guard (same_length (lm_values m) (lm_sigs m)) ;;
  guard (lm_has_meta m) ;;
  append_proposal c o (lending_proposal m) st.

(* Keeper.TreasuryProposal (no length check: the mapped message has one
   target, one value, one signature and no call data) *)
Definition valid_treasury (c : cfg) (m : treasury_msg) : bool :=
  bytes_eqb (cfg_gov c) (tm_auth m) && supported_denom (tm_denom m).

Definition exec_treasury (c : cfg) (o : oracle) (m : treasury_msg) (st : gstate) : option gstate :=
  guard (bytes_eqb (cfg_gov c) (tm_auth m)) ;;
  guard (supported_denom (tm_denom m)) ;;
  append_proposal c o (lending_proposal (treasury_to_lending m)) st.

Definition exec (c : cfg) (o : oracle) (x : op) (st : gstate) : option gstate :=
  match x with
  | Lending m => exec_lending c o m st
  | Treasury m => exec_treasury c o m st
  end.

(* message atomicity of the gov proposal executor: a failed message leaves no trace *)
Definition step (c : cfg) (o : oracle) (x : op) (st : gstate) : bool * gstate :=
  match exec c o x st with
  | Some st' => (true, st')
  | None => (false, st)
  end.

Fixpoint run (c : cfg) (h : list (oracle * op)) (st : gstate) : gstate :=
  match h with
  | [] => st
  | (o, x) :: r => run c r (snd (step c o x st))
  end.

(** * Specification-side definitions shared by the theorems and the checker *)

Definition valid_op (c : cfg) (x : op) : bool :=
  match x with
  | Lending m => valid_lending c m
  | Treasury m => valid_treasury c m
  end.

Definition op_id (o : oracle) (x : op) : Z :=
  match x with
  | Lending m => effective_id o (lm_id m)
  | Treasury m => effective_id o (tm_id m)
  end.

(* what the store must return under [op_id] after the proposal was executed *)
Definition expected_record (o : oracle) (x : op) : proposal :=
  match x with
  | Lending m =>
      mkProp (effective_id o (lm_id m)) (lm_title m) (lm_desc m)
             (map hex_to_address (lm_accounts m)) (lm_values m) (lm_sigs m)
             (map hex2bytes (lm_calldatas m))
  | Treasury m =>
      mkProp (effective_id o (tm_id m)) (tm_title m) (tm_desc m)
             [hex_to_address (tm_recipient m)] [tm_amount m] [tm_denom m] []
  end.

Definition prop_eqb (a b : proposal) : bool :=
  (p_id a =? p_id b) && bytes_eqb (p_title a) (p_title b) && bytes_eqb (p_desc a) (p_desc b) &&
  bytes_eqb (p_targets a) (p_targets b) && bytes_eqb (p_values a) (p_values b) &&
  lists_eqb bytes_eqb (p_sigs a) (p_sigs b) && lists_eqb bytes_eqb (p_datas a) (p_datas b).

(* well-formed hex: even length, hex digits only (go-ethereum's isHex) *)
Fixpoint wf_hex (s : bytes) : bool :=
  match s with
  | [] => true
  | [_] => false
  | p :: q :: r =>
      match hexval p, hexval q with
      | Some _, Some _ => wf_hex r
      | _, _ => false
      end
  end.

Fixpoint zlen {A} (l : list A) : Z :=
  match l with [] => 0 | _ :: r => 1 + zlen r end.
