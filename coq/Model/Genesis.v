(** Genesis export / import / validation of the seven Canto modules (property C18).

    Mirrors, as the code is in /repo now:
      x/coinswap/keeper/genesis.go   InitGenesis (panics unless types.ValidateGenesis passes; SetParams;
                                     SetStandardDenom; setSequence; setPool = pool record + lpt-denom index),
                                     ExportGenesis
      x/coinswap/types/genesis.go    ValidateGenesis (standard denom; per pool: unique id, unique lpt denom,
                                     ParseLptDenom, the two denominations, the escrow address; max sequence + 1 =
                                     Sequence; Params.Validate = the fee only)
      x/erc20/genesis.go             InitGenesis / ExportGenesis (pairs and the two indexes: Model/TokenPairs.v)
      x/erc20/types/genesis.go       Validate (no repeated address, no repeated denomination, TokenPair.Validate)
      x/csr/genesis.go               InitGenesis (SetParams, SetCSR per record, SetTurnstile unless ""), ExportGenesis
      x/csr/types/genesis.go         Validate = Params.Validate ONLY (records and Turnstile address are not looked at)
      x/inflation/genesis.go         InitGenesis (params, period, identifier, epochs per period, skipped epochs, then
                                     the provision RECOMPUTED from the bonded ratio at import), ExportGenesis (no provision)
      x/inflation/types/genesis.go   Validate (identifier not blank, epochs per period > 0, Params.Validate)
      x/epochs/genesis.go            InitGenesis (zero StartTime := block time; CurrentEpochStartHeight := block height)
      x/epochs/types/genesis.go      Validate (no repeated identifier; per record: identifier not blank, duration <> 0,
                                     current epoch >= 0, start height >= 0)
      x/govshuttle/genesis.go        params (an empty set) and the port contract address (SetPort unless "")
      x/onboarding/genesis.go        params only
    SetParams of a module is Subspace.SetParamSet: it panics when a field validator fails
    ([*_set_param_set] of Model/Authority.v); a panic inside InitGenesis is [None].

    Strings.  The param sets carry real strings (Model/Authority.v).  Every other string of a genesis
    document (denominations, pool ids, identifiers, addresses in text form) is a number given by the
    harness' intern table of the case: equal strings <-> equal numbers, with these conventions
      pool id        "pool-" ++ d  is the number of the denomination d (>= 0); any other string is negative
      lpt denom      the canonical "lpt-<n>" (what GetLptDenom prints) is n itself; any other string is negative;
                     [gp_seq] is the result of ParseLptDenom on the string
      escrow         0 when the string is GetReservePoolAddr(LptDenom).String(), otherwise another number
      identifiers    rank in byte order (as in Model/Epochs.v); blank identifiers (TrimSpace = "") are negative
    and the purely syntactic checks on such strings (sdk.ValidateDenom, bech32 / hex address syntax) are flags
    recorded with the string.  Store iteration order is not part of the model: pools, pairs and CSRs are sets
    (the lists are compared as sets by the checker); epochs are kept in identifier order as in Model/Epochs.v. *)
From stdpp Require Import gmap.
From Coq Require Import ZArith List Bool.
From Canto Require Lib.SdkInt Lib.SdkDec Model.TokenPairs Model.Csr Model.Inflation.
From Canto Require Import Model.Authority Model.Epochs.
Import ListNotations.
Open Scope Z_scope.

(** * Context of InitGenesis *)
(* the option monad (the notations of Lib/SdkInt.v clash with std++'s levels) *)
Notation "'do' x <- e1 ; e2" := (SdkInt.obind e1 (fun x => e2)) (at level 200, x name, e1 at level 100, e2 at level 200).

Record ictx := mkICtx {
  ic_time : Z;      (* ctx.BlockTime(), ns *)
  ic_height : Z;    (* ctx.BlockHeight() *)
  ic_bonded : Z     (* inflation keeper's BondedRatio(ctx) at import, LegacyDec raw *)
}.

(** * Small list helpers *)
Fixpoint zmem (x : Z) (l : list Z) : bool :=
  match l with [] => false | y :: r => (x =? y) || zmem x r end.
Fixpoint znodup (l : list Z) : bool :=
  match l with [] => true | x :: r => negb (zmem x r) && znodup r end.
Fixpoint zmax (l : list Z) : Z :=
  match l with [] => 0 | x :: r => Z.max x (zmax r) end.
Fixpoint zassoc {V} (k : Z) (l : list (Z * V)) : option V :=
  match l with [] => None | (k', v) :: r => if k' =? k then Some v else zassoc k r end.
(* keys in first-occurrence order *)
Fixpoint zdedup (l : list Z) : list Z :=
  match l with [] => [] | x :: r => x :: filter (fun y => negb (y =? x)) (zdedup r) end.

(** * coinswap *)
Record gpool := mkGPool {
  gp_id : Z;              (* Id *)
  gp_std : Z;             (* StandardDenom *)
  gp_std_ok : bool;       (*   sdk.ValidateDenom of it *)
  gp_tok : Z;             (* CounterpartyDenom *)
  gp_tok_ok : bool;       (*   sdk.ValidateDenom of it *)
  gp_escrow : Z;          (* EscrowAddress (0 = the address derived from the lpt denom) *)
  gp_escrow_ok : bool;    (*   sdk.AccAddressFromBech32 accepts it *)
  gp_lpt : Z;             (* LptDenom *)
  gp_seq : option Z       (*   ParseLptDenom of it *)
}.

Record cs_gen := mkCsGen {
  cg_params : cs_params;
  cg_std : Z;             (* StandardDenom *)
  cg_std_ok : bool;       (*   sdk.ValidateDenom of it *)
  cg_pools : list gpool;
  cg_seq : Z              (* Sequence *)
}.

(* the module's store: the genesis data plus the lpt-denom index written by setPool *)
Record cs_st := mkCsSt {
  cs_par : cs_params;
  cs_std : Z; cs_std_ok : bool;
  cs_next : Z;                    (* KeyNextPoolSequence *)
  cs_pools : list gpool;          (* KeyPool/<id> *)
  cs_idx : list (Z * Z)           (* KeyPoolLptDenom/<lpt denom> -> pool id *)
}.

Definition pool_ok (p : gpool) : bool :=
  match gp_seq p with Some _ => true | None => false end && gp_tok_ok p && gp_std_ok p && gp_escrow_ok p.
Definition seq_of (p : gpool) : Z := match gp_seq p with Some q => q | None => 0 end.

(* types.ValidateGenesis (uint64 arithmetic of maxSequence+1 without wrap-around: fewer than 2^64-1 pools) *)
Definition validate_cs (g : cs_gen) : bool :=
  cg_std_ok g &&
  znodup (map gp_id (cg_pools g)) && znodup (map gp_lpt (cg_pools g)) &&
  forallb pool_ok (cg_pools g) &&
  (zmax (map seq_of (cg_pools g)) + 1 =? cg_seq g) &&
  cs_validate (cg_params g).

Definition cs_zero : cs_params := mkCs 0 [] 0 0 0 [].

Definition export_cs (s : cs_st) : cs_gen :=
  mkCsGen (cs_par s) (cs_std s) (cs_std_ok s) (cs_pools s) (cs_next s).

Definition import_cs (g : cs_gen) : option cs_st :=
  if negb (validate_cs g) then None else
  do p <- cs_set_param_set (cg_params g) cs_zero ;
  Some (mkCsSt p (cg_std g) (cg_std_ok g) (cg_seq g) (cg_pools g)
               (map (fun p => (gp_lpt p, gp_id p)) (cg_pools g))).

(* queries: LiquidityPools; LiquidityPool(lpt denom) = GetPoolByLptDenom: index, then record *)
Definition pool_by_id (s : cs_st) (i : Z) : option gpool := find (fun p => gp_id p =? i) (cs_pools s).
Definition pool_by_lpt (s : cs_st) (l : Z) : option gpool :=
  match zassoc l (cs_idx s) with Some i => pool_by_id s i | None => None end.

(* the pool CreatePool writes for counterparty denomination [tok] at sequence [q] *)
Definition canon_pool (std tok q : Z) : gpool := mkGPool tok std true tok true 0 true q (Some q).

(** * erc20 *)
Record erc_gen := mkErcGen {
  eg_params : erc_params;
  eg_pairs : list TokenPairs.pair;
  eg_denoms : list (TokenPairs.tok * TokenPairs.pid);
  eg_addrs : list (Z * TokenPairs.pid);
  eg_syntax_ok : bool     (* every pair passes TokenPair.Validate (denomination and address syntax) *)
}.
Record erc_st := mkErcSt {
  es_reg : TokenPairs.state;      (* the three store prefixes; its st_enable is Params.EnableErc20 *)
  es_hook : bool;                 (* Params.EnableEVMHook *)
  es_syntax_ok : bool             (* stored pairs carry well-formed denomination / address strings *)
}.

Fixpoint nodup_dec {A} `{EqDecision A} (l : list A) : bool :=
  match l with [] => true | x :: r => negb (bool_decide (x ∈ r)) && nodup_dec r end.

Definition validate_erc (g : erc_gen) : bool :=
  nodup_dec (map TokenPairs.p_addr (eg_pairs g)) && nodup_dec (map TokenPairs.p_denom (eg_pairs g)) &&
  eg_syntax_ok g && erc_validate (eg_params g).

Definition export_erc (s : erc_st) : erc_gen :=
  let g := TokenPairs.export_genesis (es_reg s) in
  mkErcGen (mkErc (TokenPairs.g_enable g) (es_hook s)) (TokenPairs.g_pairs g) (TokenPairs.g_denoms g)
           (TokenPairs.g_addrs g) (es_syntax_ok s).

Definition erc_zero : erc_params := mkErc false false.

Definition import_erc (g : erc_gen) : option erc_st :=
  do p <- erc_set_param_set (eg_params g) erc_zero ;
  Some (mkErcSt (TokenPairs.init_genesis
                   (TokenPairs.mkGenesis (erc_enable p) (eg_pairs g) (eg_denoms g) (eg_addrs g))
                   (TokenPairs.empty_state false))
                (erc_hook p) (eg_syntax_ok g)).

(** * csr *)
Record csr_gen := mkCsrGen {
  rg_params : csr_params;
  rg_csrs : list (Z * Csr.csr);     (* Id, record *)
  rg_turnstile : option Z           (* "" = None, otherwise common.HexToAddress of the string *)
}.
Record csr_st := mkCsrSt {
  rs_par : csr_params;
  rs_reg : Csr.registry;            (* the two store prefixes *)
  rs_dom : list Z;                  (* the NFT ids present under the first prefix *)
  rs_ts : option Z                  (* stored Turnstile address *)
}.

Definition validate_csr (g : csr_gen) : bool := csr_validate (rg_params g).

Definition listed (g : Csr.registry) (dom : list Z) : list (Z * Csr.csr) :=
  flat_map (fun n => match Csr.csrs g n with Some r => [(n, r)] | None => [] end) dom.

Definition export_csr (s : csr_st) : csr_gen := mkCsrGen (rs_par s) (listed (rs_reg s) (rs_dom s)) (rs_ts s).

Definition csr_zero : csr_params := mkCsr false 0.

Definition import_csr (g : csr_gen) : option csr_st :=
  do p <- csr_set_param_set (rg_params g) csr_zero ;
  Some (mkCsrSt p (Csr.import_csrs (rg_csrs g) Csr.empty_reg) (zdedup (map fst (rg_csrs g))) (rg_turnstile g)).

(* queries CSRByNFT, CSRByContract *)
Definition csr_by_nft (s : csr_st) (n : Z) : option Csr.csr := Csr.csrs (rs_reg s) n.
Definition csr_by_contract (s : csr_st) (c : Z) : option (Z * Csr.csr) :=
  match Csr.byc (rs_reg s) c with
  | Some n => match Csr.csrs (rs_reg s) n with Some r => Some (n, r) | None => None end
  | None => None
  end.

(** * inflation *)
Record inf_gen := mkInfGen {
  ig_params : inf_params;
  ig_period : Z;
  ig_ident : Z;           (* EpochIdentifier *)
  ig_epp : Z;             (* EpochsPerPeriod *)
  ig_skipped : Z
}.
Record inf_st := mkInfSt {
  is_par : inf_params;
  is_period : Z; is_ident : Z; is_epp : Z; is_skipped : Z;
  is_prov : Z             (* EpochMintProvision: stored, NOT exported, recomputed by InitGenesis *)
}.

Definition id_blank (i : Z) : bool := i <? 0.

Definition validate_inf (g : inf_gen) : bool :=
  negb (id_blank (ig_ident g)) && (0 <? ig_epp g) && inf_validate (ig_params g).

Definition export_inf (s : inf_st) : inf_gen :=
  mkInfGen (is_par s) (is_period s) (is_ident s) (is_epp s) (is_skipped s).

Definition inf_zero : inf_params := mkInf [] 0 0 0 0 0 0 0 false.
Definition exp_of (p : inf_params) : Inflation.exp_calc :=
  Inflation.mkExp (inf_a p) (inf_r p) (inf_c p) (inf_bt p) (inf_mv p).

Definition import_inf (c : ictx) (g : inf_gen) : option inf_st :=
  do p <- inf_set_param_set (ig_params g) inf_zero ;
  do prov <- Inflation.calc_provision (exp_of p) (Z.to_N (ig_period g)) (ig_epp g) (ic_bonded c) ;
  Some (mkInfSt p (ig_period g) (ig_ident g) (ig_epp g) (ig_skipped g) prov).

(** * epochs: the store is the list of records in identifier order *)
Definition epoch_ok (e : epoch) : bool :=
  negb (id_blank (e_id e)) && negb (e_dur e =? 0) && negb (e_cur e <? 0) && negb (e_height e <? 0).

Definition validate_ep (g : list epoch) : bool := znodup (map e_id g) && forallb epoch_ok g.

(* SetEpochInfo: keyed by identifier *)
Fixpoint ep_set (x : epoch) (l : list epoch) : list epoch :=
  match l with
  | [] => [x]
  | y :: r => if e_id x <? e_id y then x :: y :: r
              else if e_id x =? e_id y then x :: r
              else y :: ep_set x r
  end.

Definition export_ep (s : list epoch) : list epoch := s.
Definition import_ep (c : ictx) (g : list epoch) : option (list epoch) :=
  Some (fold_left (fun acc e => ep_set (import_epoch (ic_time c) (ic_height c) e) acc) g []).

Definition epoch_by_id (s : list epoch) (i : Z) : option epoch := find (fun e => e_id e =? i) s.
(* CurrentEpoch query *)
Definition current_epoch (s : list epoch) (i : Z) : option Z :=
  match epoch_by_id s i with Some e => Some (e_cur e) | None => None end.

(* the informational field the property exempts *)
Definition mask_epoch (e : epoch) : epoch :=
  mkEpoch (e_id e) (e_start e) (e_dur e) (e_cur e) (e_cur_start e) (e_started e) 0.

(** * govshuttle: an empty parameter set and the port contract address *)
Definition gs_gen := option Z.      (* "" = None, otherwise common.HexToAddress of the string *)
Definition gs_st := option Z.
Definition validate_gs (g : gs_gen) : bool := true.
Definition export_gs (s : gs_st) : gs_gen := s.
Definition import_gs (g : gs_gen) : option gs_st := Some g.

(** * onboarding: parameters only *)
Definition validate_onb (g : onb_params) : bool := onb_validate g.
Definition export_onb (s : onb_params) : onb_params := s.
Definition onb_zero : onb_params := mkOnb false 0 [].
Definition import_onb (g : onb_params) : option onb_params := onb_set_param_set g onb_zero.

(** * The seven modules together *)
Record genesis := mkGen {
  g_cs : cs_gen; g_erc : erc_gen; g_csr : csr_gen; g_inf : inf_gen;
  g_ep : list epoch; g_gs : gs_gen; g_onb : onb_params
}.
Record state := mkSt {
  s_cs : cs_st; s_erc : erc_st; s_csr : csr_st; s_inf : inf_st;
  s_ep : list epoch; s_gs : gs_st; s_onb : onb_params
}.

Definition export (s : state) : genesis :=
  mkGen (export_cs (s_cs s)) (export_erc (s_erc s)) (export_csr (s_csr s)) (export_inf (s_inf s))
        (export_ep (s_ep s)) (export_gs (s_gs s)) (export_onb (s_onb s)).

Definition import (c : ictx) (g : genesis) : option state :=
  do cs <- import_cs (g_cs g) ;
  do erc <- import_erc (g_erc g) ;
  do csr <- import_csr (g_csr g) ;
  do inf <- import_inf c (g_inf g) ;
  do ep <- import_ep c (g_ep g) ;
  do gs <- import_gs (g_gs g) ;
  do onb <- import_onb (g_onb g) ;
  Some (mkSt cs erc csr inf ep gs onb).

Definition validate (g : genesis) : bool :=
  validate_cs (g_cs g) && validate_erc (g_erc g) && validate_csr (g_csr g) && validate_inf (g_inf g) &&
  validate_ep (g_ep g) && validate_gs (g_gs g) && validate_onb (g_onb g).

(* the equivalence of the property text: everything equal except each epoch's
   current_epoch_start_height (the provision is not part of the document at all) *)
Definition mask (g : genesis) : genesis :=
  mkGen (g_cs g) (g_erc g) (g_csr g) (g_inf g) (map mask_epoch (g_ep g)) (g_gs g) (g_onb g).
Definition gen_equiv (g1 g2 : genesis) : Prop := mask g1 = mask g2.

(** * Query answers (the module query servers) for a set of probe arguments *)
Record probes := mkProbes {
  pr_lpts : list Z;                   (* LiquidityPool(lpt denom) *)
  pr_toks : list TokenPairs.tok;      (* TokenPair(token): denominations and address strings *)
  pr_pids : list TokenPairs.pid;      (* GetTokenPair(id) *)
  pr_nfts : list Z;                   (* CSRByNFT *)
  pr_contracts : list Z;              (* CSRByContract *)
  pr_idents : list Z                  (* CurrentEpoch(identifier) *)
}.

Record answers := mkAns {
  a_pools : list gpool;                                   (* LiquidityPools *)
  a_pool_by_lpt : list (option gpool);
  a_cs_params : cs_params;
  a_pairs : list TokenPairs.pair;                         (* TokenPairs *)
  a_pair_by_tok : list (option TokenPairs.pair);
  a_pair_by_id : list (option TokenPairs.pair);
  a_erc_params : erc_params;
  a_csrs : list (Z * Csr.csr);                            (* CSRs *)
  a_csr_by_nft : list (option Csr.csr);
  a_csr_by_contract : list (option (Z * Csr.csr));
  a_turnstile : option Z;
  a_csr_params : csr_params;
  a_port : option Z;                                      (* govshuttle port contract *)
  a_epochs : list epoch;                                  (* EpochInfos, start height masked *)
  a_current : list (option Z);                            (* CurrentEpoch *)
  a_period : Z; a_skipped : Z; a_epp : Z; a_ident : Z;
  a_inf_params : inf_params;
  a_onb_params : onb_params
}.

Definition erc_params_of (s : erc_st) : erc_params := mkErc (TokenPairs.st_enable (es_reg s)) (es_hook s).

Definition answer (pr : probes) (s : state) : answers :=
  mkAns (cs_pools (s_cs s)) (map (pool_by_lpt (s_cs s)) (pr_lpts pr)) (cs_par (s_cs s))
        (TokenPairs.listing (es_reg (s_erc s)))
        (map (TokenPairs.lookup_tok (es_reg (s_erc s))) (pr_toks pr))
        (map (TokenPairs.get_pair (es_reg (s_erc s))) (pr_pids pr))
        (erc_params_of (s_erc s))
        (listed (rs_reg (s_csr s)) (rs_dom (s_csr s)))
        (map (csr_by_nft (s_csr s)) (pr_nfts pr))
        (map (csr_by_contract (s_csr s)) (pr_contracts pr))
        (rs_ts (s_csr s)) (rs_par (s_csr s))
        (s_gs s)
        (map mask_epoch (s_ep s)) (map (current_epoch (s_ep s)) (pr_idents pr))
        (is_period (s_inf s)) (is_skipped (s_inf s)) (is_epp (s_inf s)) (is_ident (s_inf s))
        (is_par (s_inf s)) (s_onb s).
