(** Model of a NODE of the Canto chain (property C06): the logic by which a
    node turns a sequence of blocks into a sequence of block results, and what
    restarts and read-only requests do to it.

    Mirrors
      /repo/app/app.go            SetOrderBeginBlockers (epochs first; its only
                                  listener is x/inflation), SetOrderEndBlockers
                                  (gov executes passed proposals), store mounting:
                                  all consensus state lives in the multistore
      /repo/x/epochs/keeper/abci.go  BeginBlocker        (Model/Epochs.v)
      /repo/x/inflation/keeper/hooks.go AfterEpochEnd    (Model/Inflation.v)
      /repo/x/coinswap/keeper/msg_server.go              (Model/Coinswap.v)
      /repo/x/csr/keeper/evm_hooks.go PostTxProcessing   (Model/Csr.v)
      the governance-only handlers of the Canto modules  (Model/Authority.v)
    and, of cosmos-sdk's baseapp (trusted, modelled not proved):
      FinalizeBlock = beginBlock ; deliverTx* ; endBlock, each transaction on a
      branch that is written only when it succeeds; Commit makes the result the
      committed state and resets the check state to it; CheckTx runs on the
      check state; Query and Simulate run on a branch that is thrown away; a
      restarted process is rebuilt from the committed multistore alone.

    The committed state is the product of the existing module models.  What a
    Gallina function CANNOT exhibit -- Go map iteration order, goroutine
    scheduling, the behaviour of the database / IAVL tree, CometBFT -- is not
    in this model; that part of C06 is explored on the real binary by the
    four-replica differential of harness/c06.go, not proved.

    The acanto supply is one quantity of the real bank that three module models
    carry a copy of (Inflation.st_supply, Coinswap.st_sup Std, Csr.supply);
    every step propagates the change one component makes to the other copies.
    The fee collector is emptied by x/distribution in every block and is not
    part of the projection.  No proofs here. *)
From Coq Require Import ZArith List Bool.
From Canto Require Import Lib.SdkInt Lib.SdkDec Model.Epochs.
From Canto Require Model.Inflation Model.Coinswap Model.Csr Model.Authority.
Import ListNotations.
Open Scope Z_scope.

(** * Committed (consensus) state *)
Record cstate := mkC {
  c_epochs : list epoch;                 (* x/epochs records, store order *)
  c_infl : Inflation.state;              (* x/inflation schedule + mint-denomination ledger *)
  c_swap : Coinswap.state;               (* x/coinswap pools + the bank as coinswap sees it *)
  c_csr : Csr.state;                     (* x/csr registry, fee money, config *)
  c_auth : Authority.chain unit;         (* the parameter sets as governance sees them *)
  c_pver : Z;                            (* params version: number of parameter updates applied *)
  c_time : Z;                            (* time of the last committed block (the check state's header) *)
  c_day : Z;                             (* rank of the identifier "day" (constant) *)
  c_gov : Authority.str                  (* the governance module address as a string (constant) *)
}.

Definition with_epochs_infl (s : cstate) (es : list epoch) (i : Inflation.state) (t : Z) : cstate :=
  mkC es i (c_swap s) (c_csr s) (c_auth s) (c_pver s) t (c_day s) (c_gov s).
Definition with_infl (s : cstate) (i : Inflation.state) : cstate :=
  mkC (c_epochs s) i (c_swap s) (c_csr s) (c_auth s) (c_pver s) (c_time s) (c_day s) (c_gov s).
Definition with_swap (s : cstate) (w : Coinswap.state) : cstate :=
  mkC (c_epochs s) (c_infl s) w (c_csr s) (c_auth s) (c_pver s) (c_time s) (c_day s) (c_gov s).
Definition with_csr (s : cstate) (r : Csr.state) : cstate :=
  mkC (c_epochs s) (c_infl s) (c_swap s) r (c_auth s) (c_pver s) (c_time s) (c_day s) (c_gov s).
Definition with_auth (s : cstate) (a : Authority.chain unit) : cstate :=
  mkC (c_epochs s) (c_infl s) (c_swap s) (c_csr s) a (c_pver s + 1) (c_time s) (c_day s) (c_gov s).
Definition bump_pver (s : cstate) : cstate :=
  mkC (c_epochs s) (c_infl s) (c_swap s) (c_csr s) (c_auth s) (c_pver s + 1) (c_time s) (c_day s) (c_gov s).

(** ** the shared acanto supply *)
Definition infl_add_supply (d : Z) (i : Inflation.state) : Inflation.state :=
  Inflation.with_ledger i (Inflation.st_fee i) (Inflation.st_module i) (Inflation.st_distr i)
                        (Inflation.st_pool i) (Inflation.st_supply i + d).
Definition swap_add_supply (d : Z) (w : Coinswap.state) : Coinswap.state :=
  Coinswap.set_bank w (Coinswap.st_bal w)
    (Coinswap.upd_sup (Coinswap.st_sup w) Coinswap.Std (Coinswap.st_sup w Coinswap.Std + d)).
Definition csr_add_supply (d : Z) (r : Csr.state) : Csr.state :=
  let m := Csr.mon r in
  Csr.mkState (Csr.reg r)
    (Csr.mkMoney (Csr.collector m) (Csr.module_acct m) (Csr.supply m + d) (Csr.ts_acct m) (Csr.ts_bal m))
    (Csr.cfg r).

(** * Transactions *)
Inductive param_update :=
| PUSwap (p : Coinswap.params)            (* coinswap MsgUpdateParams *)
| PUAuth (x : Authority.op unit).         (* inflation / csr / onboarding / erc20 updates and the privileged handlers *)

Inductive tx :=
| TxSwap (o : Coinswap.op)                (* a coinswap message, or a bank transfer (Donate) *)
| TxEvm (sender limit : Z) (ante_ok core_ok evm_ok : bool) (t : Csr.tx)
      (* an Ethereum transaction of user [sender] with gas limit [limit]; the EVM
         execution is external: its receipt (logs, gas used, price, target) is the
         oracle input [t]; [ante_ok] = admitted by the ante handler (nonce, funds);
         [core_ok] = accepted by the state transition (intrinsic gas ...);
         [evm_ok] = the EVM execution succeeded *)
| TxParams (auth : Authority.str) (u : param_update)
      (* a parameter update sent as an ordinary signed transaction; [auth] is the
         authority string on the wire *)
| TxOther (accepted : bool).
      (* any other message (conversions, governance bookkeeping, malformed bytes):
         no effect on the projection; its result class is an oracle input *)

Record blk := mkBlk {
  b_time : Z;                             (* header time, ns *)
  b_oracle : Inflation.oracle;            (* bonded tokens seen by the inflation hook *)
  b_fresh : Z;                            (* oracle: the address a Turnstile deployment in this block yields *)
  b_txs : list tx;
  b_gov : list param_update               (* proposals passing in this block's gov EndBlocker, in order *)
}.

(** * BeginBlock: the epoch clock with its inflation listener, then (app.go
      order: epochs ... csr) csr's begin-blocker, which deploys the Turnstile
      when none is recorded and CSR is enabled (x/csr/module.go BeginBlock).
      Whether it deploys is decided by the COMMITTED state alone -- not by how
      long the process has been running.  The deployment is an EVM call of the
      module account; the address it yields is the oracle input [b_fresh]. *)
Definition csr_begin_block (fresh : Z) (r : Csr.state) : Csr.state :=
  match Csr.turnstile (Csr.cfg r) with
  | Some _ => r
  | None =>
      if Csr.enable (Csr.cfg r)
      then Csr.mkState (Csr.reg r) (Csr.mon r) (Csr.mkCfg (Some fresh) (Csr.enable (Csr.cfg r)) (Csr.share (Csr.cfg r)))
      else r
  end.

Definition begin_blocker (b : blk) (h : Z) (s : cstate) : option cstate :=
  r <- Inflation.block (c_day s) (b_oracle b) (b_time b) h (c_epochs s) (c_infl s) ;;
  let '(es, i) := r in
  let d := Inflation.st_supply i - Inflation.st_supply (c_infl s) in
  Some (mkC es i (swap_add_supply d (c_swap s)) (csr_begin_block (b_fresh b) (csr_add_supply d (c_csr s)))
            (c_auth s) (c_pver s) (b_time b) (c_day s) (c_gov s)).

(** * Updates of module params *)
Definition push_params (a : Authority.chain unit) (s : cstate) : cstate :=
  let ip := Authority.c_inf a in
  let cp := Authority.c_csr a in
  let i := Inflation.set_params
             (Inflation.mkExp (Authority.inf_a ip) (Authority.inf_r ip) (Authority.inf_c ip)
                              (Authority.inf_bt ip) (Authority.inf_mv ip))
             (Inflation.mkDistr (Authority.inf_staking ip) (Authority.inf_community ip))
             (Authority.inf_enable ip) (c_infl s) in
  let r := Csr.mkState (Csr.reg (c_csr s)) (Csr.mon (c_csr s))
             (Csr.mkCfg (Csr.turnstile (Csr.cfg (c_csr s))) (Authority.csr_enable cp) (Authority.csr_shares cp)) in
  with_csr (with_infl s i) r.

Definition apply_update (u : param_update) (s : cstate) : option cstate :=
  match u with
  | PUSwap p =>
      r <- Coinswap.exec (c_time s) (c_swap s) (Coinswap.SetParams p) ;;
      Some (bump_pver (with_swap s (fst r)))
  | PUAuth x =>
      a <- Authority.exec (c_gov s) x (c_auth s) ;;
      Some (push_params a (with_auth s a))
  end.

(** * One transaction
    baseapp.runTx: the ante handler runs on its own branch, written when it
    succeeds; then the messages run on a second branch, written only when they
    succeed.  So a transaction the ante handler refuses leaves no trace, and a
    transaction whose message fails leaves the ante handler's effects only (on
    this projection: the gas money of an Ethereum transaction; sequence numbers
    and the zero fees of the Cosmos transactions are outside the projection). *)
Definition ante (t : tx) (s : cstate) : option cstate :=
  match t with
  | TxEvm sender limit ante_ok _ _ e =>
      guard ante_ok ;;
      gp <- SdkInt.of_big (Csr.tx_gas_price e) ;;
      cost <- SdkInt.mul limit gp ;;
      (* DeductTxCostsFromUserBalance: gas limit x price to the fee collector *)
      w <- Coinswap.send (c_swap s) (Coinswap.User sender) Coinswap.M_feecollector Coinswap.Std cost ;;
      Some (with_swap s w)
  | _ => Some s
  end.

(* the message part: [Some s'] = accepted (code 0), [None] = failed, branch dropped *)
Definition exec_msgs (now : Z) (t : tx) (s : cstate) : option cstate :=
  match t with
  | TxSwap o =>
      match o with
      | Coinswap.SetParams _ | Coinswap.AutoSwap _ _ _ _ => None   (* not user messages *)
      | _ =>
        r <- Coinswap.exec now (c_swap s) o ;;
        let w := fst r in
        let d := Coinswap.st_sup w Coinswap.Std - Coinswap.st_sup (c_swap s) Coinswap.Std in
        Some (with_csr (with_infl (with_swap s w) (infl_add_supply d (c_infl s))) (csr_add_supply d (c_csr s)))
      end
  | TxEvm sender limit _ core_ok evm_ok t =>
      guard core_ok ;;                       (* the state transition refused the message (e.g. intrinsic gas) *)
      fee <- Csr.fee_of t ;;
      gp <- SdkInt.of_big (Csr.tx_gas_price t) ;;
      refund <- SdkInt.mul (limit - Csr.tx_gas_used t) gp ;;
      guard (0 <=? refund) ;;
      let r0 := c_csr s in
      let m0 := Csr.mon r0 in
      (* of the money the ante handler put into the collector, gas used x price is there for the hook *)
      let r1 := Csr.mkState (Csr.reg r0)
                  (Csr.mkMoney (Csr.collector m0 + fee) (Csr.module_acct m0) (Csr.supply m0) (Csr.ts_acct m0) (Csr.ts_bal m0))
                  (Csr.cfg r0) in
      (* ethermint runs the post-tx hooks only when the EVM execution succeeded; a failing hook reverts itself *)
      let r2 := if evm_ok then Csr.deliver t r1 else r1 in
      (* RefundGas: the unused part goes back to the sender *)
      w <- Coinswap.send (c_swap s) Coinswap.M_feecollector (Coinswap.User sender) Coinswap.Std refund ;;
      let d := Csr.supply (Csr.mon r2) - Csr.supply m0 in
      Some (with_csr (with_infl (with_swap s (swap_add_supply d w)) (infl_add_supply d (c_infl s))) r2)
  | TxParams auth u =>
      guard (Authority.str_eqb (c_gov s) auth) ;;
      apply_update u s
  | TxOther accepted =>
      guard accepted ;; Some s
  end.

Definition deliver_tx (now : Z) (s : cstate) (t : tx) : cstate * bool :=
  match ante t s with
  | None => (s, false)
  | Some s1 =>
      match exec_msgs now t s1 with
      | Some s2 => (s2, true)
      | None => (s1, false)
      end
  end.

Fixpoint deliver_txs (now : Z) (ts : list tx) (s : cstate) : cstate * list bool :=
  match ts with
  | [] => (s, [])
  | t :: r =>
      let '(s1, c) := deliver_tx now s t in
      let '(s2, cs) := deliver_txs now r s1 in
      (s2, c :: cs)
  end.

(** * Supply accounting: what each step of a block contributes to the acanto supply.
    These are the amounts of the bank's mint / burn events, written as explicit
    formulas of the step's inputs -- NOT as differences of the supply -- so that
    "the supply changes by exactly these" (Proofs/ChainSupply.v) has content. *)

(* x/inflation: what the end-of-epoch calls of this block have to mint -- for every call of the
   configured identifier while inflation is enabled, the integer part of the stored provision
   (Inflation.due_amount); 0 when the begin-blocker panics *)
Definition minted_of (b : blk) (h : Z) (s : cstate) : Z :=
  let '(_, hs) := begin_block (b_time b) h (c_epochs s) in
  match Inflation.run_hooks_log (c_day s) (b_oracle b) hs (c_infl s) with
  | Some (_, l) => Inflation.zsum l
  | None => 0
  end.

(* x/csr: burned by a successful post-tx hook -- nothing when CSR is disabled or no gas was used;
   otherwise the fee (gas used x price) minus the csr fee (fee x share, truncated) when the target
   is registered to an NFT after the events of the receipt, and the whole fee when it is not
   (contract creation, unregistered target) *)
Definition csr_burn_of (t : Csr.tx) (r : Csr.state) : Z :=
  if negb (Csr.enable (Csr.cfg r)) then 0 else
  match Csr.turnstile (Csr.cfg r) with
  | None => 0
  | Some ts =>
      if Csr.tx_gas_used t =? 0 then 0 else
      match Csr.fee_of t with
      | None => 0
      | Some fee =>
          let g := Csr.process_events (Csr.tx_code t) ts (Csr.tx_logs t) (Csr.reg r) in
          match match Csr.tx_to t with Some c => Csr.byc g c | None => None end with
          | None => fee
          | Some _ =>
              match Csr.csr_fee_of fee (Csr.share (Csr.cfg r)) with
              | Some cf => fee - cf
              | None => 0
              end
          end
      end
  end.

(* x/coinswap: the burned part of the pool-creation fee (amount minus the tax that goes to the
   fee collector) -- only for a liquidity addition that creates the pool, and only when the fee
   is charged in the standard coin; every other coinswap message and bank transfer: 0 *)
Definition swap_burn_of (w : Coinswap.state) (o : Coinswap.op) : Z :=
  match o with
  | Coinswap.AddLiq _ (Coinswap.Tok n) _ _ _ _ =>
      match Coinswap.lookup_pool n (Coinswap.st_pools w) with
      | Some _ => 0
      | None =>
          let p := Coinswap.st_params w in
          if Coinswap.denom_eqb (Coinswap.p_cfee_denom p) Coinswap.Std
          then match Coinswap.tax_part (Coinswap.p_cfee_amt p) (Coinswap.p_tax p) with
               | Some tax => Coinswap.p_cfee_amt p - tax
               | None => 0
               end
          else 0
      end
  | _ => 0
  end.

(* the csr state the hook of an Ethereum transaction runs on: the fee is in the collector *)
Definition csr_with_fee (t : Csr.tx) (r0 : Csr.state) : Csr.state :=
  match Csr.fee_of t with
  | Some fee =>
      let m0 := Csr.mon r0 in
      Csr.mkState (Csr.reg r0)
        (Csr.mkMoney (Csr.collector m0 + fee) (Csr.module_acct m0) (Csr.supply m0) (Csr.ts_acct m0) (Csr.ts_bal m0))
        (Csr.cfg r0)
  | None => r0
  end.

(* burned by an ACCEPTED transaction, evaluated on the state its messages start from *)
Definition tx_burn_of (t : tx) (s : cstate) : Z :=
  match t with
  | TxSwap o => swap_burn_of (c_swap s) o
  | TxEvm _ _ _ _ evm_ok e =>
      if evm_ok
      then match Csr.post_tx e (csr_with_fee e (c_csr s)) with
           | Some _ => csr_burn_of e (csr_with_fee e (c_csr s))
           | None => 0                       (* a failing hook reverts itself: nothing burned *)
           end
      else 0                                 (* failed EVM execution: no hook *)
  | TxParams _ _ => 0
  | TxOther _ => 0
  end.

(* per transaction of a block: the burn of an accepted one, 0 for a rejected one *)
Fixpoint burns_of (now : Z) (ts : list tx) (s : cstate) : list Z :=
  match ts with
  | [] => []
  | t :: r =>
      let '(s1, ok) := deliver_tx now s t in
      (if ok then match ante t s with Some sa => tx_burn_of t sa | None => 0 end else 0) :: burns_of now r s1
  end.

(** * EndBlock: gov executes the proposals that passed; a failing message fails the proposal *)
Fixpoint end_blocker (us : list param_update) (s : cstate) : cstate :=
  match us with
  | [] => s
  | u :: r => end_blocker r (match apply_update u s with Some s' => s' | None => s end)
  end.

(** * Projections *)
Definition epoch_words (e : epoch) : list Z :=
  [e_id e; e_start e; e_dur e; e_cur e; e_cur_start e; (if e_started e then 1 else 0); e_height e].

Definition pool_words (w : Coinswap.state) (e : Z * Z) : list Z :=
  let '(n, q) := e in
  [n; q; Coinswap.st_bal w (Coinswap.Escrow q) Coinswap.Std;
   Coinswap.st_bal w (Coinswap.Escrow q) (Coinswap.Tok n); Coinswap.st_sup w (Coinswap.Lpt q)].

(* stands for the AppHash: a commitment to the projected state *)
Definition digest (s : cstate) : list Z :=
  flat_map epoch_words (c_epochs s) ++
  [Inflation.st_period (c_infl s); Inflation.st_skipped (c_infl s); Inflation.st_provision (c_infl s);
   Inflation.st_supply (c_infl s)] ++
  Coinswap.st_next (c_swap s) :: flat_map (pool_words (c_swap s)) (Coinswap.st_pools (c_swap s)) ++
  [Csr.supply (Csr.mon (c_csr s)); Csr.module_acct (Csr.mon (c_csr s)); c_pver s].

(* stands for the exported genesis *)
Definition export (s : cstate) : list epoch * list Z := (c_epochs s, digest s).

(** * The node *)
Record node := mkNode {
  committed : cstate;      (* the committed multistore *)
  checkst : cstate;        (* baseapp's check state: volatile, never persisted *)
  height : Z
}.

Definition genesis_node (g : cstate) : node := mkNode g g 0.

Record block_result := mkRes {
  r_halted : bool;         (* BeginBlock panicked: the block is not committed, the node stays where it is *)
  r_codes : list bool;     (* per transaction: accepted *)
  r_digest : list Z;       (* the AppHash stand-in after Commit *)
  r_minted : Z;            (* mint events of the begin-blocker (x/inflation) *)
  r_burned : list Z        (* per transaction: its burn event (csr hook / coinswap creation fee) *)
}.

Definition run_block (b : blk) (n : node) : node * block_result :=
  let h := height n + 1 in
  match begin_blocker b h (committed n) with
  | None => (n, mkRes true [] (digest (committed n)) 0 [])
  | Some s1 =>
      let '(s2, codes) := deliver_txs (b_time b) (b_txs b) s1 in
      let s3 := end_blocker (b_gov b) s2 in
      (mkNode s3 s3 h,                                      (* Commit: check state := committed *)
       mkRes false codes (digest s3) (minted_of b h (committed n)) (burns_of (b_time b) (b_txs b) s1))
  end.

Fixpoint run_blocks (bs : list blk) (n : node) : node * list block_result :=
  match bs with
  | [] => (n, [])
  | b :: r =>
      let '(n1, res) := run_block b n in
      let '(n2, rs) := run_blocks r n1 in
      (n2, res :: rs)
  end.

(** ** restarts and read-only requests *)
Inductive query := QEpochs | QInflation | QPools | QParamsVersion | QExport.

Definition eval_query (q : query) (s : cstate) : list Z :=
  match q with
  | QEpochs => flat_map epoch_words (c_epochs s)
  | QInflation => [Inflation.st_period (c_infl s); Inflation.st_skipped (c_infl s); Inflation.st_provision (c_infl s)]
  | QPools => flat_map (pool_words (c_swap s)) (Coinswap.st_pools (c_swap s))
  | QParamsVersion => [c_pver s]
  | QExport => digest s
  end.

Inductive op :=
| Block (b : blk)
| Restart                  (* stop at a block boundary, start again from the database *)
| Query (q : query)        (* gRPC query *)
| CheckTx (t : tx)         (* mempool check *)
| Simulate (t : tx).       (* gas simulation *)

Inductive output :=
| OBlock (r : block_result)
| ORestart
| OQuery (a : list Z)
| OCheck (ok : bool)
| OSim (ok : bool).

(* the restarted process knows nothing but the committed multistore *)
Definition restart (n : node) : node := mkNode (committed n) (committed n) (height n).

(* CheckTx: real CheckTx runs the ante handler only; the model lets the whole
   transaction run on the check state, which is the stronger reading *)
Definition check_tx (t : tx) (n : node) : node * bool :=
  let '(s', ok) := deliver_tx (c_time (checkst n)) (checkst n) t in
  (mkNode (committed n) s' (height n), ok).

(* Simulate and Query run on a branch of the check state / committed state that is dropped *)
Definition simulate (t : tx) (n : node) : bool := snd (deliver_tx (c_time (checkst n)) (checkst n) t).

Definition step (o : op) (n : node) : node * output :=
  match o with
  | Block b => let '(n', r) := run_block b n in (n', OBlock r)
  | Restart => (restart n, ORestart)
  | Query q => (n, OQuery (eval_query q (committed n)))
  | CheckTx t => let '(n', ok) := check_tx t n in (n', OCheck ok)
  | Simulate t => (n, OSim (simulate t n))
  end.

Fixpoint run_ops (h : list op) (n : node) : node * list output :=
  match h with
  | [] => (n, [])
  | o :: r =>
      let '(n1, out) := step o n in
      let '(n2, outs) := run_ops r n1 in
      (n2, out :: outs)
  end.

(* the subsequence of blocks of a history / of block results of its outputs *)
Fixpoint blocks_of (h : list op) : list blk :=
  match h with
  | [] => []
  | Block b :: r => b :: blocks_of r
  | _ :: r => blocks_of r
  end.
Fixpoint results_of (outs : list output) : list block_result :=
  match outs with
  | [] => []
  | OBlock r :: l => r :: results_of l
  | _ :: l => results_of l
  end.

(** Boolean equalities for the checker *)
Fixpoint bools_eqb (a b : list bool) : bool :=
  match a, b with
  | [], [] => true
  | x :: r, y :: s => Bool.eqb x y && bools_eqb r s
  | _, _ => false
  end.
