(** Model of x/csr: the CSR registry and the fee split of the EVM post-tx hook.

    Mirrors /repo/x/csr/keeper/evm_hooks.go (PostTxProcessing, processEvents),
    keeper/event_handler.go (RegisterEvent, UpdateEvent, ValidateContract),
    keeper/csr.go (SetCSR and the two store prefixes), types/csr.go (Validate),
    genesis.go (InitGenesis) and the part of contracts/turnstile.sol the module
    talks to (distributeFees / balances).

    Addresses are the 20 address bytes read as Z; NFT ids are Z (the keeper
    keeps the low 64 bits of the uint256 in the event: big.Int.Uint64()).
    The registry is a pair of total lookup functions (the two KV prefixes), so
    all statements about it are pointwise and no extensionality is needed.

    External code:
      - `has_code` (evmKeeper.GetAccount(c).IsContract()) is an oracle input of
        every transaction, recorded in the case;
      - the Turnstile contract is the honest ledger [ts_bal] (its `balances`
        mapping) together with the bank balance [ts_acct] of its account;
        distributeFees reverts on zero value, the EVM refuses a value transfer
        the sender cannot cover, Solidity 0.8 arithmetic reverts above 2^256;
      - the bank: SendCoinsFromModuleToModule fails on insufficient funds,
        BurnCoins lowers balance and supply; an empty coin set (what
        sdk.NewCoins makes of a zero amount) is a no-op, while a literal
        sdk.Coins{{denom,0}} is invalid and rejected (finding F3, see
        [post_tx_unfixed]); sdk.NewCoin panics on a negative amount. *)
From Coq Require Import ZArith List Bool.
From Canto Require Import Lib.SdkInt Lib.SdkDec.
Import ListNotations.
Open Scope Z_scope.

(** * State *)

Record csr := mkCsr {
  c_contracts : list Z;   (* CSR.Contracts, in stored order *)
  c_txs : Z;              (* CSR.Txs (uint64) *)
  c_revenue : Z           (* CSR.Revenue (sdkmath.Int) *)
}.

Record registry := mkReg {
  csrs : Z -> option csr;     (* prefix 1: NFT id -> CSR *)
  byc : Z -> option Z         (* prefix 2: contract -> NFT id *)
}.

Record money := mkMoney {
  collector : Z;              (* fee collector, EVM denom *)
  module_acct : Z;            (* csr module account, EVM denom *)
  supply : Z;                 (* bank supply of the EVM denom *)
  ts_acct : Z;                (* bank balance of the Turnstile contract's account *)
  ts_bal : Z -> Z             (* Turnstile.balances[nft] *)
}.

Record config := mkCfg {
  turnstile : option Z;       (* stored Turnstile address *)
  enable : bool;              (* Params.EnableCsr *)
  share : Z                   (* Params.CsrShares, raw LegacyDec (value * 10^18) *)
}.

Record state := mkState { reg : registry; mon : money; cfg : config }.

Definition empty_reg : registry := mkReg (fun _ => None) (fun _ => None).

(** * Registry operations *)

Definition memZ (x : Z) (l : list Z) : bool := existsb (Z.eqb x) l.

Fixpoint nodupb (l : list Z) : bool :=
  match l with
  | [] => true
  | x :: r => negb (memZ x r) && nodupb r
  end.

Definition u64 (x : Z) : Z := x mod 2 ^ 64.

(* keeper.SetCSR: store the record under its id and point every listed contract at the id *)
Definition set_csr (g : registry) (n : Z) (r : csr) : registry :=
  mkReg (fun k => if k =? n then Some r else csrs g k)
        (fun c => if memZ c (c_contracts r) then Some n else byc g c).

(* types.CSR.Validate: every address non-zero, no duplicates, at least one contract *)
Definition validate (r : csr) : bool :=
  forallb (fun c => negb (c =? 0)) (c_contracts r) &&
  nodupb (c_contracts r) &&
  match c_contracts r with [] => false | _ => true end.

(* keeper.ValidateContract: not yet registered to any NFT, and holds code *)
Definition validate_contract (has_code : Z -> bool) (g : registry) (c : Z) : bool :=
  match byc g c with
  | Some _ => false
  | None => has_code c
  end.

(* keeper.RegisterEvent after a successful unpack *)
Definition register_event (has_code : Z -> bool) (g : registry) (c id : Z) : option registry :=
  guard validate_contract has_code g c ;;
  let n := u64 id in
  match csrs g n with
  | Some _ => None                              (* ErrDuplicateNFTID *)
  | None =>
      let r := mkCsr [c] 0 0 in
      guard validate r ;; Some (set_csr g n r)
  end.

(* keeper.UpdateEvent after a successful unpack *)
Definition assign_event (has_code : Z -> bool) (g : registry) (c id : Z) : option registry :=
  guard validate_contract has_code g c ;;
  let n := u64 id in
  match csrs g n with
  | None => None                                (* ErrNFTNotFound *)
  | Some r =>
      let r' := mkCsr (c_contracts r ++ [c]) (c_txs r) (c_revenue r) in
      guard validate r' ;; Some (set_csr g n r')
  end.

(** * Logs of a receipt *)

Inductive payload :=
| PRegister (c recv id : Z)   (* topic0 = Register, data unpacks to (smartContract, recipient, tokenId) *)
| PAssign (c id : Z)          (* topic0 = Assign, data unpacks to (smartContract, tokenId) *)
| PMalformed                  (* topic0 = Register or Assign, data does not unpack *)
| POther                      (* topic0 = another event of the Turnstile ABI (Transfer, Withdraw, ...) *)
| PUnknown                    (* topic0 is not an event of the Turnstile ABI *)
| PNoTopics.                  (* a log without topics *)

Record log := mkLog { l_emitter : Z; l_payload : payload }.

Inductive outcome := Skip | Abort | Apply (g : registry).

(* one iteration of the loop of processEvents *)
Definition log_step (has_code : Z -> bool) (ts : Z) (g : registry) (l : log) : outcome :=
  if negb (l_emitter l =? ts) then Skip
  else match l_payload l with
       | PNoTopics => Skip
       | POther => Skip
       | PUnknown => Abort                      (* EventByID fails: logged, return *)
       | PMalformed => Abort                    (* unpack error: logged, return *)
       | PRegister c _ id =>
           match register_event has_code g c id with Some g' => Apply g' | None => Abort end
       | PAssign c id =>
           match assign_event has_code g c id with Some g' => Apply g' | None => Abort end
       end.

(* processEvents: stops at the first Turnstile event that fails *)
Fixpoint process_events (has_code : Z -> bool) (ts : Z) (logs : list log) (g : registry) : registry :=
  match logs with
  | [] => g
  | l :: r =>
      match log_step has_code ts g l with
      | Skip => process_events has_code ts r g
      | Abort => g
      | Apply g' => process_events has_code ts r g'
      end
  end.

(** * Bank and Turnstile ledger *)

Definition upd (f : Z -> Z) (k v : Z) : Z -> Z := fun x => if x =? k then v else f x.

(* SendCoinsFromModuleToModule(feeCollector, csr, NewCoins(NewCoin(denom, amt))) *)
Definition send_fee (m : money) (amt : Z) : option money :=
  if amt =? 0 then Some m
  else guard (amt <=? collector m) ;;
       Some (mkMoney (collector m - amt) (module_acct m + amt) (supply m) (ts_acct m) (ts_bal m)).

(* BurnCoins(csr, NewCoins(NewCoin(denom, amt))) *)
Definition burn (m : money) (amt : Z) : option money :=
  if amt =? 0 then Some m
  else guard (amt <=? module_acct m) ;;
       Some (mkMoney (collector m) (module_acct m - amt) (supply m - amt) (ts_acct m) (ts_bal m)).

(* the same two calls with the literal coin set sdk.Coins{{denom, amt}}: a
   non-positive amount makes the set invalid and the bank rejects it *)
Definition send_fee_lit (m : money) (amt : Z) : option money :=
  guard (0 <? amt) ;; guard (amt <=? collector m) ;;
  Some (mkMoney (collector m - amt) (module_acct m + amt) (supply m) (ts_acct m) (ts_bal m)).
Definition burn_lit (m : money) (amt : Z) : option money :=
  guard (0 <? amt) ;; guard (amt <=? module_acct m) ;;
  Some (mkMoney (collector m) (module_acct m - amt) (supply m - amt) (ts_acct m) (ts_bal m)).

(* CallMethod "distributeFees" from the module account with msg.value = amt *)
Definition distribute (m : money) (n amt : Z) : option money :=
  guard (0 <? amt) ;;                            (* revert NothingToDistribute *)
  guard (amt <=? module_acct m) ;;               (* EVM CanTransfer *)
  guard (ts_bal m n + amt <? 2 ^ 256) ;;         (* checked += of Solidity 0.8 *)
  Some (mkMoney (collector m) (module_acct m - amt) (supply m) (ts_acct m + amt)
                (upd (ts_bal m) n (ts_bal m n + amt))).

(** * The post-transaction hook *)

Record tx := mkTx {
  tx_code : Z -> bool;       (* oracle: which addresses hold code while this tx is processed *)
  tx_logs : list log;        (* receipt.Logs *)
  tx_gas_used : Z;           (* receipt.GasUsed (uint64) *)
  tx_gas_price : Z;          (* msg.GasPrice() *)
  tx_to : option Z           (* msg.To(); None = contract creation *)
}.

(* fee := NewIntFromUint64(GasUsed).Mul(NewIntFromBigInt(GasPrice)); NewCoin panics when negative *)
Definition fee_of (t : tx) : option Z :=
  gp <- SdkInt.of_big (tx_gas_price t) ;;
  fee <- SdkInt.mul (tx_gas_used t) gp ;;
  guard (0 <=? fee) ;; Some fee.

(* csrFee := LegacyNewDecFromInt(fee).Mul(CsrShares).TruncateInt() *)
Definition csr_fee_of (fee sh : Z) : option Z :=
  d <- SdkDec.mul (SdkDec.of_int fee) sh ;;
  SdkDec.truncate_int d.

(* PostTxProcessing as it is in /repo now (after the repair of finding F3) *)
Definition post_tx (t : tx) (s : state) : option state :=
  if negb (enable (cfg s)) then Some s else
  match turnstile (cfg s) with
  | None => None                                  (* processEvents panics *)
  | Some ts =>
    let g := process_events (tx_code t) ts (tx_logs t) (reg s) in
    if tx_gas_used t =? 0 then Some (mkState g (mon s) (cfg s)) else
    fee <- fee_of t ;;
    m1 <- send_fee (mon s) fee ;;
    match match tx_to t with Some c => byc g c | None => None end with
    | None =>                                     (* creation or unregistered target: burn everything *)
        m2 <- burn m1 fee ;; Some (mkState g m2 (cfg s))
    | Some n =>
        match csrs g n with
        | None => None                            (* ErrNonexistentCSR *)
        | Some r =>
            cf <- csr_fee_of fee (share (cfg s)) ;;
            rem <- SdkInt.sub fee cf ;;
            guard (0 <=? rem) ;;                  (* NewCoin(denom, remainingFee) *)
            m2 <- (if 0 <? cf then distribute m1 n cf else Some m1) ;;
            m3 <- burn m2 rem ;;
            rev <- SdkInt.add (c_revenue r) cf ;;
            let r' := mkCsr (c_contracts r) (u64 (c_txs r + 1)) rev in
            Some (mkState (set_csr g n r') m3 (cfg s))
        end
    end
  end.

(** The hook as it was before the repair of finding F3 (kept as documentation;
    /verif/seeded/F3-revert-C10/patch.diff restores it in the Go source):
    literal coin sets and an unconditional call of distributeFees. *)
Definition post_tx_unfixed (t : tx) (s : state) : option state :=
  if negb (enable (cfg s)) then Some s else
  match turnstile (cfg s) with
  | None => None
  | Some ts =>
    let g := process_events (tx_code t) ts (tx_logs t) (reg s) in
    if tx_gas_used t =? 0 then Some (mkState g (mon s) (cfg s)) else
    fee <- fee_of t ;;
    m1 <- send_fee_lit (mon s) fee ;;
    match match tx_to t with Some c => byc g c | None => None end with
    | None => m2 <- burn_lit m1 fee ;; Some (mkState g m2 (cfg s))
    | Some n =>
        match csrs g n with
        | None => None
        | Some r =>
            cf <- csr_fee_of fee (share (cfg s)) ;;
            rem <- SdkInt.sub fee cf ;;
            m2 <- distribute m1 n cf ;;
            m3 <- burn_lit m2 rem ;;
            rev <- SdkInt.add (c_revenue r) cf ;;
            let r' := mkCsr (c_contracts r) (u64 (c_txs r + 1)) rev in
            Some (mkState (set_csr g n r') m3 (cfg s))
        end
    end
  end.

(* a failed hook reverts the whole EVM transaction: nothing of it is kept *)
Definition deliver (t : tx) (s : state) : state :=
  match post_tx t s with Some s' => s' | None => s end.

(* a history of transactions *)
Fixpoint run (l : list tx) (s : state) : state :=
  match l with
  | [] => s
  | t :: r => run r (deliver t s)
  end.

(* the part of the hook that touches the registry (used by the C16 checker,
   proved to agree with [post_tx] in Proofs/CsrProofs.v) *)
Definition hook_reg (t : tx) (ts : Z) (g0 : registry) : registry :=
  let g := process_events (tx_code t) ts (tx_logs t) g0 in
  if tx_gas_used t =? 0 then g else
  match match tx_to t with Some c => byc g c | None => None end with
  | None => g
  | Some n => match csrs g n with None => g | Some r => set_csr g n r end
  end.

(** * Genesis import (InitGenesis): SetCSR for every record, in order *)
Definition import_csrs (l : list (Z * csr)) (g : registry) : registry :=
  fold_left (fun g nr => set_csr g (fst nr) (snd nr)) l g.

Definition import_genesis (l : list (Z * csr)) (ts : option Z) (en : bool) (sh : Z) (s : state) : state :=
  mkState (import_csrs l (reg s)) (mon s)
          (mkCfg (match ts with Some a => Some a | None => turnstile (cfg s) end) en sh).

(** * Boolean equalities used by the correspondence check *)
Fixpoint zl_eqb (a b : list Z) : bool :=
  match a, b with
  | [], [] => true
  | x :: r, y :: s => (x =? y) && zl_eqb r s
  | _, _ => false
  end.
Definition csr_eqb (a b : csr) : bool :=
  zl_eqb (c_contracts a) (c_contracts b) && (c_txs a =? c_txs b) && (c_revenue a =? c_revenue b).
