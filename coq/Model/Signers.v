(** Model of signer derivation and execution of the five Canto user messages
    (property C07: only a message's required signers can be debited by it).

    Mirrors
      /repo/app/app.go:300-316        signing.Options: bech32 address codec; custom signer functions for
                                      MsgSwapOrder (input.address, decoded by the address codec) and
                                      MsgConvertERC20 (common.HexToAddress of the sender string)
      /repo/x/coinswap/types/msgs.go  CreateGetSignersFromMsgSwapOrderV2
      /repo/x/erc20/types/msg.go      GetSignersFromMsgConvertERC20V2 / MsgConvertERC20.GetSigners
      /repo/proto/canto/{coinswap,erc20}/v1/tx.proto
                                      option (cosmos.msg.v1.signer) = "sender" on MsgAddLiquidity,
                                      MsgRemoveLiquidity and MsgConvertCoin (decoded by the address codec)
      /repo/x/coinswap/keeper/msg_server.go + types/validation.go
                                      every address field is read with sdk.AccAddressFromBech32
      /repo/x/erc20/keeper/msg_server.go
                                      ConvertCoin: sender bech32, receiver common.IsHexAddress/HexToAddress;
                                      ConvertERC20: sender and contract IsHexAddress/HexToAddress, receiver bech32

    What the message does to the ledgers is NOT re-modelled here: the three
    coinswap messages are handed to [Coinswap.exec], the two conversions to
    [Convert.deliver] over the honest token contract ([Convert.honest]).

    Identities.  An account is a [Coinswap.acct]: [User n] (n = the 20 address
    bytes read as a number), [Escrow q] (the 20-byte hash address of pool q's reserve)
    or [Module i] (a module account; 0 = coinswap, 1 = fee collector, 3 = erc20).
    The harness interns the bytes.  An address FIELD of a message is a text: the
    account it spells and the presentation chosen for it.  The decoders below
    are shared by signer derivation and execution, exactly as both sides of the
    real code go through bech32.DecodeAndConvert + prefix check +
    VerifyAddressFormat, resp. through common.HexToAddress.

    The paying field always spells a user account ([User payer]): nobody can
    sign for a hash address, so a message naming an escrow or module account as
    payer can never pass signature verification. *)
From Coq Require Import ZArith List Bool.
From Canto Require Import Lib.SdkInt Lib.SdkDec Model.Coinswap.
From Canto Require Model.Convert.
Import ListNotations.
Open Scope Z_scope.

(** * Textual presentations of an address *)
Inductive pres :=
| PBech            (* canto1... : bech32, lower case *)
| PBechUpper       (* CANTO1... : bech32, all upper case (legal bech32) *)
| PHex0x           (* 0x + 40 lower-case hex digits *)
| PHexBare         (* 40 hex digits without prefix *)
| PHexEip55        (* 0x + EIP-55 mixed-case checksum form *)
| PHexUpper        (* 0X + 40 upper-case hex digits *)
| PBad (k : Z).    (* a malformed text; k names the malformation (statistics only) *)

Record atext := mkText { tx_pres : pres; tx_addr : acct }.

Definition bech_ok (p : pres) : bool :=
  match p with PBech | PBechUpper => true | _ => false end.
Definition hex_ok (p : pres) : bool :=
  match p with PHex0x | PHexBare | PHexEip55 | PHexUpper => true | _ => false end.
(* sdk.AccAddressFromBech32 (keepers) = address.Bech32Codec.StringToBytes (signing context) *)
Definition dec_bech (t : atext) : option acct :=
  if bech_ok (tx_pres t) then Some (tx_addr t) else None.
(* common.IsHexAddress: 40 hex digits after an optional 0x/0X (every account of this world -- users,
   module accounts, reserve pools = crypto.AddressHash -- has 20 bytes, so each can be spelled either way) *)
Definition is_hex (t : atext) : bool := hex_ok (tx_pres t).
(* common.HexToAddress is total: of a hex address the bytes it spells; of any other string
   SOME address determined by the string ([junk], an oracle input recorded by the harness) *)
Definition hex_lenient (t : atext) (junk : acct) : acct := if is_hex t then tx_addr t else junk.
(* IsHexAddress followed by HexToAddress *)
Definition dec_hex (t : atext) : option acct := if is_hex t then Some (tx_addr t) else None.

(** * The five user messages *)
Inductive msg :=
(* Input{Address, Coin}, Output{Address, Coin}, Deadline, IsBuyOrder.
   sell order: ain exact, aout the minimum; buy order: aout exact, ain the maximum *)
| MSwapOrder (payer : Z) (ppres : pres) (rcpt : atext) (is_buy : bool)
             (din : denom) (ain : Z) (dout : denom) (aout : Z) (deadline : Z)
| MAddLiquidity (payer : Z) (ppres : pres) (tok : denom) (max_tok exact_std min_liq deadline : Z)
| MRemoveLiquidity (payer : Z) (ppres : pres) (lpt : denom) (w min_std min_tok deadline : Z)
(* Coin (the pair's denomination), Receiver (hex), Sender (bech32); [gate], [has_code]: oracles of Convert.v *)
| MConvertCoin (payer : Z) (ppres : pres) (rcpt : atext) (pair : Z) (amt : Z) (gate has_code : bool)
(* ContractAddress (hex), Amount, Receiver (bech32), Sender (hex); [junk]: see [hex_lenient] *)
| MConvertERC20 (payer : Z) (ppres : pres) (junk : acct) (rcpt : atext) (pair : Z) (cpres : pres)
                (amt : Z) (gate has_code : bool).

(* the paying account named in the message *)
Definition payer_of (m : msg) : acct :=
  match m with
  | MSwapOrder p _ _ _ _ _ _ _ _ | MAddLiquidity p _ _ _ _ _ _ | MRemoveLiquidity p _ _ _ _ _ _
  | MConvertCoin p _ _ _ _ _ _ | MConvertERC20 p _ _ _ _ _ _ _ _ => User p
  end.
Definition payer_text (m : msg) : atext :=
  match m with
  | MSwapOrder p pp _ _ _ _ _ _ _ | MAddLiquidity p pp _ _ _ _ _ | MRemoveLiquidity p pp _ _ _ _ _
  | MConvertCoin p pp _ _ _ _ _ | MConvertERC20 p pp _ _ _ _ _ _ _ => mkText pp (User p)
  end.

(* the paying field is written in a form that field accepts *)
Definition payer_wf (m : msg) : bool :=
  match m with
  | MConvertERC20 _ pp _ _ _ _ _ _ _ => hex_ok pp
  | MSwapOrder _ pp _ _ _ _ _ _ _ | MAddLiquidity _ pp _ _ _ _ _ | MRemoveLiquidity _ pp _ _ _ _ _
  | MConvertCoin _ pp _ _ _ _ _ => bech_ok pp
  end.
(* every address field is *)
Definition wf (m : msg) : bool :=
  payer_wf m &&
  match m with
  | MSwapOrder _ _ r _ _ _ _ _ _ => bech_ok (tx_pres r)
  | MConvertCoin _ _ r _ _ _ _ => is_hex r
  | MConvertERC20 _ _ _ r _ cp _ _ _ => bech_ok (tx_pres r) && hex_ok cp
  | _ => true
  end.

(** * Signer derivation (codec.GetMsgV1Signers -> signing.Context.GetSigners) *)
Definition signers (m : msg) : option (list acct) :=
  match m with
  | MSwapOrder _ _ _ _ _ _ _ _ _            (* custom: AddressCodec.StringToBytes(msg.Input.Address) *)
  | MAddLiquidity _ _ _ _ _ _ _             (* annotation: field "sender", decoded by the address codec *)
  | MRemoveLiquidity _ _ _ _ _ _ _
  | MConvertCoin _ _ _ _ _ _ _ =>
      a <- dec_bech (payer_text m) ;; Some [a]
  | MConvertERC20 _ _ junk _ _ _ _ _ _ =>   (* custom: common.HexToAddress(msg.Sender), never fails *)
      Some [hex_lenient (payer_text m) junk]
  end.

(** * State: the coinswap world and, per token pair, the ledger of the pair's
      coin denomination with the pair's (honest) token contract *)
Record state := mkS {
  s_cs : Coinswap.state;
  s_kind : Z -> Convert.pair_kind;
  s_pair : Z -> Convert.bank * Convert.hledger
}.

Definition M_erc20 : acct := Module 3.

(* account numbering on the conversion side (injective) *)
Definition enc (a : acct) : Z :=
  match a with User n => 3 * n | Escrow q => 3 * q + 1 | Module i => 3 * i + 2 end.
Definition MZ : Z := enc M_erc20.

Definition set_cs (s : state) (c : Coinswap.state) : state := mkS c (s_kind s) (s_pair s).
Definition set_pair (s : state) (p : Z) (v : Convert.bank * Convert.hledger) : state :=
  mkS (s_cs s) (s_kind s) (fun c => if c =? p then v else s_pair s c).

(** * Execution: decoding of the address fields as the message servers do it, then the existing models *)
Definition to_op (m : msg) : option Coinswap.op :=
  match m with
  | MSwapOrder p pp r is_buy din ain dout aout dl =>
      guard (bech_ok pp) ;;                          (* ValidateInput: sdk.AccAddressFromBech32 *)
      rc <- dec_bech r ;;                            (* ValidateOutput *)
      Some (if is_buy then Buy p rc din ain dout aout dl else Sell p rc din ain dout aout dl)
  | MAddLiquidity p pp tok max_tok exact_std min_liq dl =>
      guard (bech_ok pp) ;;
      Some (AddLiq p tok max_tok exact_std min_liq dl)
  | MRemoveLiquidity p pp lpt w min_std min_tok dl =>
      guard (bech_ok pp) ;;
      Some (RemoveLiq p lpt w min_std min_tok dl)
  | _ => None
  end.

Definition to_conv (s : state) (m : msg) : option (Z * Convert.msg) :=
  match m with
  | MConvertCoin p pp r c amt gate code =>
      sd <- dec_bech (mkText pp (User p)) ;;
      rc <- dec_hex r ;;
      Some (c, Convert.mkMsg Convert.CoinToToken (s_kind s c) gate code c (enc sd) (enc rc) amt)
  | MConvertERC20 p pp junk r c cp amt gate code =>
      guard (hex_ok cp) ;;
      rc <- dec_bech r ;;
      guard (is_hex (mkText pp (User p))) ;;
      Some (c, Convert.mkMsg Convert.TokenToCoin (s_kind s c) gate code c
                             (enc (hex_lenient (mkText pp (User p)) junk)) (enc rc) amt)
  | _ => None
  end.

Inductive class := COk | CRejected | CRemoved.
Definition class_of (c : Convert.class) : class :=
  match c with Convert.COk => COk | Convert.CRejected => CRejected | Convert.CRemoved => CRemoved end.

Definition is_conversion (m : msg) : bool :=
  match m with MConvertCoin _ _ _ _ _ _ _ | MConvertERC20 _ _ _ _ _ _ _ _ _ => true | _ => false end.

(* message atomicity is that of the two underlying models *)
Definition deliver (now : Z) (s : state) (m : msg) : state * class :=
  if is_conversion m then
    match to_conv s m with
    | Some (c, cm) =>
        let '(ps, cl) := Convert.deliver (Convert.honest MZ) MZ cm (s_pair s c) in
        (set_pair s c ps, class_of cl)
    | None => (s, CRejected)
    end
  else
    match to_op m with
    | Some o =>
        match Coinswap.deliver now (s_cs s) o with
        | (cs, Some _) => (set_cs s cs, COk)
        | (_, None) => (s, CRejected)
        end
    | None => (s, CRejected)
    end.

Fixpoint run (h : list (Z * msg)) (s : state) : state :=
  match h with
  | [] => s
  | (now, m) :: r => run r (fst (deliver now s m))
  end.

(** * Observables of the property *)
Definition coin_bal (s : state) (a : acct) (d : denom) : Z := st_bal (s_cs s) a d.
Definition pair_bal (s : state) (c : Z) (a : acct) : Z := Convert.bal (fst (s_pair s c)) (enc a).
Definition token_bal (s : state) (c : Z) (a : acct) : Z := Convert.tbal (snd (s_pair s c)) (enc a).

(* the counterparty of a message: the reserve of the pool it trades with / withdraws from,
   the erc20 module account for a conversion.  (Adding liquidity only pays INTO a reserve.) *)
Definition is_counterparty (s : state) (m : msg) (a : acct) : bool :=
  match m with
  | MSwapOrder _ _ _ _ din _ dout _ _ =>
      match pool_of (s_cs s) din dout with Some q => acct_eqb a (Escrow q) | None => false end
  | MAddLiquidity _ _ _ _ _ _ _ => false
  | MRemoveLiquidity _ _ lpt _ _ _ _ =>
      match lpt with Lpt q => acct_eqb a (Escrow q) | _ => false end
  | MConvertCoin _ _ _ _ _ _ _ | MConvertERC20 _ _ _ _ _ _ _ _ _ => acct_eqb a M_erc20
  end.

Definition in_signers (m : msg) (a : acct) : bool :=
  match signers m with Some l => existsb (acct_eqb a) l | None => false end.
