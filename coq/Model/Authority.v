(** Model of the ten governance-only message handlers of the Canto modules
    (property C17).

    Mirrors
      /repo/x/coinswap/keeper/msg_server.go   UpdateParams
      /repo/x/inflation/keeper/msg_server.go  UpdateParams
      /repo/x/csr/keeper/msg_server.go        UpdateParams
      /repo/x/onboarding/keeper/msg_server.go UpdateParams
      /repo/x/erc20/keeper/msg_server.go      UpdateParams, RegisterCoinProposal,
                                              RegisterERC20Proposal, ToggleTokenConversionProposal
      /repo/x/govshuttle/keeper/msg_server.go LendingMarketProposal, TreasuryProposal
    and the validation in each module's types/params.go: [Params.Validate()]
    (called by the handler) and the per-field validators that
    [Subspace.SetParamSet] (cosmos-sdk v0.50.8 x/params/types/subspace.go) runs,
    field after field, each immediately before writing that field; a failing
    validator panics after the earlier fields were written (invisible only
    because the message runs on a branch that is then discarded).

    Every handler starts with  if k.GetAuthority() != req.Authority { return err }
    — a comparison of *strings*.  LegacyDec values are their raw integers
    (value * 10^18); sdkmath.Int values are Z; strings are lists of bytes.
    No proofs here. *)
From Coq Require Import ZArith List Bool.
From Canto Require Import Lib.SdkInt Lib.SdkDec.
From Canto Require Model.Inflation.
Import ListNotations.
Open Scope Z_scope.

Definition str := list Z.

Fixpoint str_eqb (a b : str) : bool :=
  match a, b with
  | [], [] => true
  | x :: r, y :: s => (x =? y) && str_eqb r s
  | _, _ => false
  end.

(* Go string comparison a < b: bytewise lexicographic *)
Fixpoint str_ltb (a b : str) : bool :=
  match a, b with
  | [], [] => false
  | [], _ :: _ => true
  | _ :: _, [] => false
  | x :: r, y :: s => if x <? y then true else if y <? x then false else str_ltb r s
  end.

Fixpoint slen {A} (l : list A) : Z :=
  match l with [] => 0 | _ :: r => 1 + slen r end.

Definition dec_one : Z := SdkDec.one.

(** * sdk.ValidateDenom:  ^[a-zA-Z][a-zA-Z0-9/:._-]{2,127}$  (a byte >= 128 never matches) *)
Definition is_alpha (c : Z) : bool := ((65 <=? c) && (c <=? 90)) || ((97 <=? c) && (c <=? 122)).
Definition is_digit (c : Z) : bool := (48 <=? c) && (c <=? 57).
Definition is_denom_char (c : Z) : bool :=
  is_alpha c || is_digit c || (c =? 47) || (c =? 58) || (c =? 46) || (c =? 95) || (c =? 45).
Definition valid_denom (d : str) : bool :=
  match d with
  | c :: r => is_alpha c && forallb is_denom_char r && (2 <=? slen r) && (slen r <=? 127)
  | [] => false
  end.

(** * sdk.Coins.Validate: valid denoms, strictly increasing, strictly positive amounts *)
Definition coin := (str * Z)%type.

Fixpoint coins_rest_ok (low : str) (cs : list coin) : bool :=
  match cs with
  | [] => true
  | (d, a) :: r =>
      valid_denom d && negb (str_ltb d low) && negb (str_eqb d low) && (0 <? a) && coins_rest_ok d r
  end.

Definition coins_validate (cs : list coin) : bool :=
  match cs with
  | [] => true
  | (d, a) :: r => valid_denom d && (0 <? a) && coins_rest_ok d r
  end.

(** * coinswap *)
Record cs_params := mkCs {
  cs_fee : Z;               (* LegacyDec *)
  cs_pcf_denom : str;       (* PoolCreationFee.Denom — no rule of the module looks at it *)
  cs_pcf_amount : Z;        (* PoolCreationFee.Amount *)
  cs_tax : Z;               (* LegacyDec *)
  cs_max_std : Z;           (* MaxStandardCoinPerPool *)
  cs_max_swap : list coin   (* MaxSwapAmount *)
}.

(* v.IsNegative() || !v.LT(1)  is the error condition *)
Definition dec_in_0_1 (v : Z) : bool := negb (v <? 0) && (v <? dec_one).

Definition cs_validate (p : cs_params) : bool := dec_in_0_1 (cs_fee p).      (* Params.Validate *)
Definition cs_v_fee (v : Z) : bool := dec_in_0_1 v.                          (* validateFee *)
Definition cs_v_pcf (a : Z) : bool := negb (a <? 0).                         (* validatePoolCreationFee *)
Definition cs_v_tax (v : Z) : bool := dec_in_0_1 v.                          (* validateTaxRate *)
Definition cs_v_max_std (v : Z) : bool := 0 <? v.                            (* validateMaxStandardCoinPerPool *)
Definition cs_v_max_swap (cs : list coin) : bool :=                          (* validateMaxSwapAmount *)
  coins_validate cs && forallb (fun c => valid_denom (fst c) && negb (snd c <? 0)) cs.

(* SetParamSet over ParamSetPairs: Fee, PoolCreationFee, TaxRate, MaxStandardCoinPerPool, MaxSwapAmount *)
Definition cs_set_param_set (p st : cs_params) : option cs_params :=
  guard (cs_v_fee (cs_fee p)) ;;
  let st := mkCs (cs_fee p) (cs_pcf_denom st) (cs_pcf_amount st) (cs_tax st) (cs_max_std st) (cs_max_swap st) in
  guard (cs_v_pcf (cs_pcf_amount p)) ;;
  let st := mkCs (cs_fee st) (cs_pcf_denom p) (cs_pcf_amount p) (cs_tax st) (cs_max_std st) (cs_max_swap st) in
  guard (cs_v_tax (cs_tax p)) ;;
  let st := mkCs (cs_fee st) (cs_pcf_denom st) (cs_pcf_amount st) (cs_tax p) (cs_max_std st) (cs_max_swap st) in
  guard (cs_v_max_std (cs_max_std p)) ;;
  let st := mkCs (cs_fee st) (cs_pcf_denom st) (cs_pcf_amount st) (cs_tax st) (cs_max_std p) (cs_max_swap st) in
  guard (cs_v_max_swap (cs_max_swap p)) ;;
  Some (mkCs (cs_fee st) (cs_pcf_denom st) (cs_pcf_amount st) (cs_tax st) (cs_max_std st) (cs_max_swap p)).

(* the module's validity rules: Validate() and every field validator *)
Definition cs_valid (p : cs_params) : bool :=
  cs_validate p && cs_v_fee (cs_fee p) && cs_v_pcf (cs_pcf_amount p) && cs_v_tax (cs_tax p) &&
  cs_v_max_std (cs_max_std p) && cs_v_max_swap (cs_max_swap p).

(** * inflation *)
Record inf_params := mkInf {
  inf_denom : str;
  inf_a : Z; inf_r : Z; inf_c : Z; inf_bt : Z; inf_mv : Z;    (* ExponentialCalculation, LegacyDec *)
  inf_staking : Z; inf_community : Z;                          (* InflationDistribution, LegacyDec *)
  inf_enable : bool
}.

(* validateMintDenom: TrimSpace(v) != "" and ValidateDenom(v); a blank string has no
   leading letter, so the first test is implied by the second *)
Definition inf_v_denom (d : str) : bool := valid_denom d.
(* provisionComputable (added by the repair of the C18 finding): the worst-case evaluation
   CalculateEpochMintProvision(v, period 0, 1 epoch per period, bonded ratio 0).TruncateInt()
   does not panic.  [Inflation.calc_provision] is the checked transcription of the formula
   (None = LegacyDec overflow or division by zero), [SdkDec.truncate_int] has the 256-bit limit
   of sdkmath.Int. *)
Definition inf_computable (a r c bt mv : Z) : bool :=
  match Inflation.calc_provision (Inflation.mkExp a r c bt mv) 0%N 1 0 with
  | Some p => match SdkDec.truncate_int p with Some _ => true | None => false end
  | None => false
  end.
(* validateExponentialCalculation: the range checks, then provisionComputable *)
Definition inf_v_exp (a r c bt mv : Z) : bool :=
  negb (a <? 0) && negb (dec_one <? r) && negb (r <? 0) && negb (c <? 0) &&
  negb (dec_one <? bt) && (0 <? bt) && negb (mv <? 0) &&
  inf_computable a r c bt mv.
(* validateInflationDistribution: Add panics above 315 bits *)
Definition inf_v_dist (s cp : Z) : bool :=
  negb (s <? 0) && negb (cp <? 0) &&
  match SdkDec.add s cp with Some t => t =? dec_one | None => false end.

Definition inf_validate (p : inf_params) : bool :=      (* Params.Validate *)
  inf_v_denom (inf_denom p) &&
  inf_v_exp (inf_a p) (inf_r p) (inf_c p) (inf_bt p) (inf_mv p) &&
  inf_v_dist (inf_staking p) (inf_community p).

(* ParamSetPairs: MintDenom, ExponentialCalculation, InflationDistribution, EnableInflation *)
Definition inf_set_param_set (p st : inf_params) : option inf_params :=
  guard (inf_v_denom (inf_denom p)) ;;
  let st := mkInf (inf_denom p) (inf_a st) (inf_r st) (inf_c st) (inf_bt st) (inf_mv st)
                  (inf_staking st) (inf_community st) (inf_enable st) in
  guard (inf_v_exp (inf_a p) (inf_r p) (inf_c p) (inf_bt p) (inf_mv p)) ;;
  let st := mkInf (inf_denom st) (inf_a p) (inf_r p) (inf_c p) (inf_bt p) (inf_mv p)
                  (inf_staking st) (inf_community st) (inf_enable st) in
  guard (inf_v_dist (inf_staking p) (inf_community p)) ;;
  let st := mkInf (inf_denom st) (inf_a st) (inf_r st) (inf_c st) (inf_bt st) (inf_mv st)
                  (inf_staking p) (inf_community p) (inf_enable st) in
  Some (mkInf (inf_denom st) (inf_a st) (inf_r st) (inf_c st) (inf_bt st) (inf_mv st)
              (inf_staking st) (inf_community st) (inf_enable p)).

Definition inf_valid (p : inf_params) : bool := inf_validate p.

(** * csr *)
Record csr_params := mkCsr { csr_enable : bool; csr_shares : Z }.
(* ValidateShares: not nil, not negative, not greater than 1 *)
Definition csr_v_shares (s : Z) : bool := negb (s <? 0) && negb (dec_one <? s).
Definition csr_validate (p : csr_params) : bool := csr_v_shares (csr_shares p).
Definition csr_set_param_set (p st : csr_params) : option csr_params :=
  let st := mkCsr (csr_enable p) (csr_shares st) in
  guard (csr_v_shares (csr_shares p)) ;;
  Some (mkCsr (csr_enable st) (csr_shares p)).
Definition csr_valid (p : csr_params) : bool := csr_validate p.

(** * onboarding *)
Record onb_params := mkOnb { onb_enable : bool; onb_threshold : Z; onb_channels : list str }.
(* validateAutoSwapThreshold; validateWhitelistedChannels accepts every list *)
Definition onb_v_threshold (t : Z) : bool := negb (t <? 0).
Definition onb_validate (p : onb_params) : bool := onb_v_threshold (onb_threshold p).
Definition onb_set_param_set (p st : onb_params) : option onb_params :=
  let st := mkOnb (onb_enable p) (onb_threshold st) (onb_channels st) in
  guard (onb_v_threshold (onb_threshold p)) ;;
  let st := mkOnb (onb_enable st) (onb_threshold p) (onb_channels st) in
  Some (mkOnb (onb_enable st) (onb_threshold st) (onb_channels p)).
Definition onb_valid (p : onb_params) : bool := onb_validate p.

(** * erc20: two booleans, Validate() returns nil *)
Record erc_params := mkErc { erc_enable : bool; erc_hook : bool }.
Definition erc_validate (p : erc_params) : bool := true.
Definition erc_set_param_set (p st : erc_params) : option erc_params :=
  let st := mkErc (erc_enable p) (erc_hook st) in
  Some (mkErc (erc_enable st) (erc_hook p)).
Definition erc_valid (p : erc_params) : bool := true.

(** * The handlers *)

(* UpdateParams of every module:
     authority check; req.Params.Validate(); k.SetParams -> SetParamSet.
   [nil_field]: a numeric field is absent on the wire (nil Int / LegacyDec): the first
   validator that touches it panics (csr: returns an error) *)
Definition update_params {P} (validate : P -> bool) (set : P -> P -> option P)
           (gov auth : str) (nil_field : bool) (p st : P) : option P :=
  guard (str_eqb gov auth) ;;
  guard (negb nil_field) ;;
  guard (validate p) ;;
  set p st.

(* the five other handlers: authority check, then the keeper function — arbitrary here *)
Definition privileged {R} (inner : R -> option R) (gov auth : str) (st : R) : option R :=
  guard (str_eqb gov auth) ;;
  inner st.

(* chain state: the five parameter sets and the rest (token-pair registry, port, EVM) *)
Record chain (R : Type) := mkChain {
  c_cs : cs_params; c_inf : inf_params; c_csr : csr_params; c_onb : onb_params; c_erc : erc_params;
  c_reg : R
}.
Arguments mkChain {R}. Arguments c_cs {R}. Arguments c_inf {R}. Arguments c_csr {R}.
Arguments c_onb {R}. Arguments c_erc {R}. Arguments c_reg {R}.

Inductive priv_kind := RegisterCoin | RegisterERC20 | ToggleConversion | LendingMarket | TreasuryProp.

Inductive op (R : Type) :=
| UpdCoinswap (auth : str) (nil_field : bool) (p : cs_params)
| UpdInflation (auth : str) (nil_field : bool) (p : inf_params)
| UpdCsr (auth : str) (nil_field : bool) (p : csr_params)
| UpdOnboarding (auth : str) (nil_field : bool) (p : onb_params)
| UpdErc20 (auth : str) (p : erc_params)
| Priv (k : priv_kind) (auth : str) (inner : R -> option R).
Arguments UpdCoinswap {R}. Arguments UpdInflation {R}. Arguments UpdCsr {R}.
Arguments UpdOnboarding {R}. Arguments UpdErc20 {R}. Arguments Priv {R}.

Definition op_auth {R} (x : op R) : str :=
  match x with
  | UpdCoinswap a _ _ | UpdInflation a _ _ | UpdCsr a _ _ | UpdOnboarding a _ _ | UpdErc20 a _ | Priv _ a _ => a
  end.

Definition exec {R} (gov : str) (x : op R) (st : chain R) : option (chain R) :=
  match x with
  | UpdCoinswap a n p =>
      s <- update_params cs_validate cs_set_param_set gov a n p (c_cs st) ;;
      Some (mkChain s (c_inf st) (c_csr st) (c_onb st) (c_erc st) (c_reg st))
  | UpdInflation a n p =>
      s <- update_params inf_validate inf_set_param_set gov a n p (c_inf st) ;;
      Some (mkChain (c_cs st) s (c_csr st) (c_onb st) (c_erc st) (c_reg st))
  | UpdCsr a n p =>
      s <- update_params csr_validate csr_set_param_set gov a n p (c_csr st) ;;
      Some (mkChain (c_cs st) (c_inf st) s (c_onb st) (c_erc st) (c_reg st))
  | UpdOnboarding a n p =>
      s <- update_params onb_validate onb_set_param_set gov a n p (c_onb st) ;;
      Some (mkChain (c_cs st) (c_inf st) (c_csr st) s (c_erc st) (c_reg st))
  | UpdErc20 a p =>
      s <- update_params erc_validate erc_set_param_set gov a false p (c_erc st) ;;
      Some (mkChain (c_cs st) (c_inf st) (c_csr st) (c_onb st) s (c_reg st))
  | Priv _ a inner =>
      r <- privileged inner gov a (c_reg st) ;;
      Some (mkChain (c_cs st) (c_inf st) (c_csr st) (c_onb st) (c_erc st) r)
  end.

(* message atomicity: a failed message leaves no trace *)
Definition step {R} (gov : str) (x : op R) (st : chain R) : bool * chain R :=
  match exec gov x st with
  | Some st' => (true, st')
  | None => (false, st)
  end.

Fixpoint run {R} (gov : str) (h : list (op R)) (st : chain R) : chain R :=
  match h with
  | [] => st
  | x :: r => run gov r (snd (step gov x st))
  end.

Definition chain_valid {R} (st : chain R) : bool :=
  cs_valid (c_cs st) && inf_valid (c_inf st) && csr_valid (c_csr st) &&
  onb_valid (c_onb st) && erc_valid (c_erc st).

(** * Boolean equalities for the checker *)
Fixpoint list_eqb' {A} (eqb : A -> A -> bool) (l1 l2 : list A) : bool :=
  match l1, l2 with
  | [], [] => true
  | x :: r, y :: s => eqb x y && list_eqb' eqb r s
  | _, _ => false
  end.
Definition coin_eqb (a b : coin) : bool := str_eqb (fst a) (fst b) && (snd a =? snd b).
Definition cs_eqb (a b : cs_params) : bool :=
  (cs_fee a =? cs_fee b) && str_eqb (cs_pcf_denom a) (cs_pcf_denom b) && (cs_pcf_amount a =? cs_pcf_amount b) &&
  (cs_tax a =? cs_tax b) && (cs_max_std a =? cs_max_std b) && list_eqb' coin_eqb (cs_max_swap a) (cs_max_swap b).
Definition inf_eqb (a b : inf_params) : bool :=
  str_eqb (inf_denom a) (inf_denom b) && (inf_a a =? inf_a b) && (inf_r a =? inf_r b) && (inf_c a =? inf_c b) &&
  (inf_bt a =? inf_bt b) && (inf_mv a =? inf_mv b) && (inf_staking a =? inf_staking b) &&
  (inf_community a =? inf_community b) && Bool.eqb (inf_enable a) (inf_enable b).
Definition csr_eqb (a b : csr_params) : bool :=
  Bool.eqb (csr_enable a) (csr_enable b) && (csr_shares a =? csr_shares b).
Definition onb_eqb (a b : onb_params) : bool :=
  Bool.eqb (onb_enable a) (onb_enable b) && (onb_threshold a =? onb_threshold b) &&
  list_eqb' str_eqb (onb_channels a) (onb_channels b).
Definition erc_eqb (a b : erc_params) : bool :=
  Bool.eqb (erc_enable a) (erc_enable b) && Bool.eqb (erc_hook a) (erc_hook b).
