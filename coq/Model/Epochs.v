(** Model of x/epochs: the epoch clock run by BeginBlocker.

    Mirrors /repo/x/epochs/keeper/abci.go (BeginBlocker),
    /repo/x/epochs/types/epoch_info.go (StartInitialEpoch, EndEpoch) and
    /repo/x/epochs/genesis.go (InitGenesis).

    Times are Z nanoseconds since the Unix epoch (time.Time comparisons are at
    nanosecond resolution); the zero time.Time{} is the distinguished value
    [zero_time].  Identifiers are represented by their rank in store-key order
    (the order in which IterateEpochInfo visits them). *)
From Coq Require Import ZArith List Bool.
Import ListNotations.
Open Scope Z_scope.

Record epoch := mkEpoch {
  e_id : Z;            (* rank of the identifier in store order *)
  e_start : Z;         (* StartTime *)
  e_dur : Z;           (* Duration, ns *)
  e_cur : Z;           (* CurrentEpoch *)
  e_cur_start : Z;     (* CurrentEpochStartTime *)
  e_started : bool;    (* EpochCountingStarted *)
  e_height : Z         (* CurrentEpochStartHeight *)
}.

Inductive hook :=
| AfterEnd (id n : Z)       (* AfterEpochEnd(identifier, number) *)
| BeforeStart (id n : Z).   (* BeforeEpochStart(identifier, number) *)

(* time.Time{} : 0001-01-01T00:00:00Z *)
Definition zero_time : Z := -62135596800 * 1000000000.

(* one identifier, one block: new record and the listener calls, in order *)
Definition tick (t h : Z) (e : epoch) : epoch * list hook :=
  let should_start := negb (e_started e) && negb (t <? e_start e) in
  let end_time := e_cur_start e + e_dur e in
  let should_end := (end_time <? t) && negb should_start && negb (t <? e_start e) in
  if should_start then
    (mkEpoch (e_id e) (e_start e) (e_dur e) 1 (e_start e) true h,
     [BeforeStart (e_id e) 1])
  else if should_end then
    (mkEpoch (e_id e) (e_start e) (e_dur e) (e_cur e + 1) (e_cur_start e + e_dur e) (e_started e) h,
     [AfterEnd (e_id e) (e_cur e + 1); BeforeStart (e_id e) (e_cur e + 1)])
  else (e, []).

(* BeginBlocker: all identifiers in store order *)
Fixpoint begin_block (t h : Z) (es : list epoch) : list epoch * list hook :=
  match es with
  | [] => ([], [])
  | e :: r =>
      let '(e', hs) := tick t h e in
      let '(r', hs') := begin_block t h r in
      (e' :: r', hs ++ hs')
  end.

(* a history of blocks (time, height) *)
Fixpoint run (bs : list (Z * Z)) (es : list epoch) : list epoch * list hook :=
  match bs with
  | [] => (es, [])
  | (t, h) :: r =>
      let '(es1, hs1) := begin_block t h es in
      let '(es2, hs2) := run r es1 in
      (es2, hs1 ++ hs2)
  end.

(* InitGenesis at block time t0, height h0 *)
Definition import_epoch (t0 h0 : Z) (e : epoch) : epoch :=
  mkEpoch (e_id e)
          (if e_start e =? zero_time then t0 else e_start e)
          (e_dur e) (e_cur e) (e_cur_start e) (e_started e) h0.

(** Boolean equalities used by the correspondence check *)
Definition epoch_eqb (a b : epoch) : bool :=
  (e_id a =? e_id b) && (e_start a =? e_start b) && (e_dur a =? e_dur b) &&
  (e_cur a =? e_cur b) && (e_cur_start a =? e_cur_start b) &&
  Bool.eqb (e_started a) (e_started b) && (e_height a =? e_height b).

Definition hook_eqb (a b : hook) : bool :=
  match a, b with
  | AfterEnd i n, AfterEnd j m => (i =? j) && (n =? m)
  | BeforeStart i n, BeforeStart j m => (i =? j) && (n =? m)
  | _, _ => false
  end.

Fixpoint list_eqb {A} (eqb : A -> A -> bool) (l1 l2 : list A) : bool :=
  match l1, l2 with
  | [], [] => true
  | x :: r, y :: s => eqb x y && list_eqb eqb r s
  | _, _ => false
  end.
