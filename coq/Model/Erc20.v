(** Model of x/erc20 conversions (properties C03 and C14).

    Mirrors, in /repo:
      x/erc20/keeper/mint.go        MintingEnabled (the gate, checks in code order)
      x/erc20/keeper/msg_server.go  ConvertCoin / ConvertERC20 and the four internal paths
                                    convertCoinNativeCoin, convertERC20NativeCoin,
                                    convertERC20NativeToken, convertCoinNativeERC20
      x/erc20/keeper/evm_hooks.go   PostTxProcessing (the loop over ALL logs of the receipt, in
                                    order; which conditions `continue`; the hook never returns
                                    an error, so it never reverts the EVM tx)
      x/erc20/keeper/proposals.go   ToggleConversion
      x/erc20/types/params.go       EnableErc20, EnableEVMHook
      contracts/ERC20MinterBurnerDecimals.sol (OpenZeppelin ERC20 + ERC20Burnable + roles):
                                    the honest ledger  transfer / mint / burn / burnCoins
      x/bank                        SendCoinsFromAccountToModule, SendCoinsFromModuleToAccount
                                    (blocked-address check), MintCoins, BurnCoins, MsgSend.

    State.  Every registered pair has its own bank denomination and its own contract
    (one-to-one registry: property C15), so the state is a map  pair id -> pair state
    plus the two module parameters and the bank's blocked-address predicate.  A pair
    state holds the bank balances of the paired denomination (the entry of [MOD] is the
    escrow), the bank supply of that denomination, the ERC-20 ledger of the pair's
    contract, the pair's kind, its Enabled flag, the bank send-enabled flag of the
    denomination, and two ghost counters:
      selfburned : tokens that holders destroyed themselves (ERC20Burnable.burn)
      stuck      : coins that stayed in escrow because the hook burned the tokens but
                   could not release the coins (SendCoinsFromModuleToAccount failed).

    Accounts are the 20 address bytes read as a number.  [None] = the message returned
    an error / the Ethereum transaction reverted; [deliver] keeps the old state then
    (message atomicity of baseapp.runMsgs; a reverted EVM tx commits nothing).
    No proofs in this file. *)
From Coq Require Import ZArith NArith List Bool.
Import ListNotations.
Open Scope Z_scope.

Definition addr := N.
(* erc20types.ModuleAddress = first 20 bytes of sha256("erc20"); the harness checks this constant *)
Definition MOD : addr := 410661507958332025406385958229306956281279308448%N.
Definition ZERO : addr := 0%N.      (* the Ethereum zero address *)
Definition UINT256 : Z := 2 ^ 256.

Definition upd (f : addr -> Z) (a : addr) (v : Z) : addr -> Z :=
  fun x => if N.eqb x a then v else f x.

Inductive kind :=
| ModuleOwned   (* contract deployed by the chain for a native coin (OWNER_MODULE) *)
| External.     (* externally deployed ERC-20 with coin representation erc20/0x.. (OWNER_EXTERNAL) *)

Record pair := mkPair {
  p_kind : kind;
  p_owner : addr;          (* deployer of an External contract (holds MINTER/BURNER roles); unused for ModuleOwned *)
  p_cbal : addr -> Z;      (* bank balances of the paired denomination; [p_cbal MOD] = escrow *)
  p_supply : Z;            (* bank supply of the paired denomination *)
  p_tbal : addr -> Z;      (* ERC-20 balanceOf *)
  p_total : Z;             (* ERC-20 totalSupply *)
  p_enabled : bool;        (* TokenPair.Enabled *)
  p_sendok : bool;         (* bank IsSendEnabledCoin of the denomination *)
  p_selfburned : Z;        (* ghost *)
  p_stuck : Z              (* ghost *)
}.

Definition escrow (ps : pair) : Z := p_cbal ps MOD.

(* the account holding BURNER_ROLE (the deployer) *)
Definition burner (ps : pair) : addr :=
  match p_kind ps with ModuleOwned => MOD | External => p_owner ps end.

Definition set_c (ps : pair) (f : addr -> Z) (sup : Z) : pair :=
  mkPair (p_kind ps) (p_owner ps) f sup (p_tbal ps) (p_total ps) (p_enabled ps) (p_sendok ps)
         (p_selfburned ps) (p_stuck ps).
Definition set_t (ps : pair) (f : addr -> Z) (tot : Z) : pair :=
  mkPair (p_kind ps) (p_owner ps) (p_cbal ps) (p_supply ps) f tot (p_enabled ps) (p_sendok ps)
         (p_selfburned ps) (p_stuck ps).
Definition set_ghost (ps : pair) (b u : Z) : pair :=
  mkPair (p_kind ps) (p_owner ps) (p_cbal ps) (p_supply ps) (p_tbal ps) (p_total ps) (p_enabled ps)
         (p_sendok ps) b u.
Definition set_flags (ps : pair) (en sendok : bool) : pair :=
  mkPair (p_kind ps) (p_owner ps) (p_cbal ps) (p_supply ps) (p_tbal ps) (p_total ps) en sendok
         (p_selfburned ps) (p_stuck ps).

(** * Bank primitives on the paired denomination *)

(* SendCoins: insufficient funds -> error *)
Definition csend (ps : pair) (a b : addr) (amt : Z) : option pair :=
  if p_cbal ps a <? amt then None else
  let f := upd (p_cbal ps) a (p_cbal ps a - amt) in
  Some (set_c ps (upd f b (f b + amt)) (p_supply ps)).
(* SendCoinsFromModuleToAccount(erc20, recipient): refuses blocked recipients *)
Definition csend_m2a (bl : addr -> bool) (ps : pair) (b : addr) (amt : Z) : option pair :=
  if bl b then None else csend ps MOD b amt.
(* MintCoins(erc20) *)
Definition cmint (ps : pair) (amt : Z) : pair :=
  set_c ps (upd (p_cbal ps) MOD (p_cbal ps MOD + amt)) (p_supply ps + amt).
(* BurnCoins(erc20) *)
Definition cburn (ps : pair) (amt : Z) : option pair :=
  if p_cbal ps MOD <? amt then None else
  Some (set_c ps (upd (p_cbal ps) MOD (p_cbal ps MOD - amt)) (p_supply ps - amt)).

(** * The honest ERC20MinterBurnerDecimals ledger (OpenZeppelin ERC20) *)

(* _transfer: to the zero address reverts; insufficient balance reverts *)
Definition tmove (ps : pair) (a b : addr) (amt : Z) : option pair :=
  if N.eqb a ZERO || N.eqb b ZERO then None else
  if p_tbal ps a <? amt then None else
  let f := upd (p_tbal ps) a (p_tbal ps a - amt) in
  Some (set_t ps (upd f b (f b + amt)) (p_total ps)).
(* _mint: to the zero address reverts; checked uint256 arithmetic on totalSupply *)
Definition tmint (ps : pair) (a : addr) (amt : Z) : option pair :=
  if N.eqb a ZERO then None else
  if UINT256 <=? p_total ps + amt then None else
  Some (set_t ps (upd (p_tbal ps) a (p_tbal ps a + amt)) (p_total ps + amt)).
(* _burn *)
Definition tburn (ps : pair) (a : addr) (amt : Z) : option pair :=
  if N.eqb a ZERO then None else
  if p_tbal ps a <? amt then None else
  Some (set_t ps (upd (p_tbal ps) a (p_tbal ps a - amt)) (p_total ps - amt)).

(** * mint.go MintingEnabled, in the order of the code
      (pair ids denote registered pairs; lookups are property C15) *)
Definition minting_enabled (m : bool) (bl : addr -> bool) (ps : pair) (sender receiver : addr) : bool :=
  if negb m then false                                   (* !params.EnableErc20 *)
  else if negb (p_enabled ps) then false                 (* !pair.Enabled *)
  else if bl receiver then false                         (* bankKeeper.BlockedAddr(receiver) *)
  else if negb (N.eqb sender receiver) && negb (p_sendok ps) then false
                                                         (* !sender.Equals(receiver) && !IsSendEnabledCoin *)
  else true.

(** * Operations on one pair *)
Inductive pop :=
| ConvertCoin (sender receiver : addr) (amt : Z)     (* MsgConvertCoin *)
| ConvertERC20 (sender receiver : addr) (amt : Z)    (* MsgConvertERC20 *)
| EvmTransfer (from to : addr) (amt : Z)             (* Ethereum tx: contract.transfer(to, amt) signed by from *)
| HolderBurn (a : addr) (amt : Z)                    (* Ethereum tx: contract.burn(amt) signed by a *)
| RoleBurn (caller victim : addr) (amt : Z)          (* Ethereum tx: contract.burnCoins(victim, amt) signed by caller *)
| BankSend (from to : addr) (amt : Z)                (* bank MsgSend of the paired denomination *)
| Toggle                                             (* ToggleConversion *)
| SetSendEnabled (b : bool)                          (* bank governance: send-enabled of the denomination *)
| ConvertForeignCoin (sender receiver : addr) (amt : Z).
    (* MsgConvertCoin whose coin is NOT of the pair's denomination although its name resolves
       to the pair: GetTokenPairID answers a string of 40 hex digits by the ERC-20 address
       index, so a coin merely named like the pair's contract address finds the pair.
       ConvertCoin refuses it (msg.Coin.Denom != pair.Denom); the balances of that foreign
       denomination are not part of the pair state *)

(* evm_hooks.go PostTxProcessing: one iteration of the loop, for the log Transfer(from, to, amt)
   of this pair's contract; every failure is a `continue`, the hook returns nil.  (The two
   parameters are read once before the loop; they do not change inside it.) *)
Definition hook (m h : bool) (bl : addr -> bool) (ps : pair) (from to : addr) (amt : Z) : pair :=
  if negb m || negb h then ps                           (* !EnableErc20 || !EnableEVMHook : return nil *)
  else if negb (0 <? amt) then ps                       (* tokens.Sign() != 1 : continue *)
  else if negb (N.eqb to MOD) then ps                   (* to != ModuleAddress : continue *)
  else if negb (p_enabled ps) then ps                   (* !pair.Enabled : continue *)
  else match p_kind ps with
       | ModuleOwned =>
           match tburn ps MOD amt with                  (* CallEVM burn from the module *)
           | None => ps                                 (* err : continue *)
           | Some ps2 =>
               match csend_m2a bl ps2 from amt with     (* SendCoinsFromModuleToAccount(from) *)
               | Some ps3 => ps3
               | None => set_ghost ps2 (p_selfburned ps2) (p_stuck ps2 + amt)   (* err : continue *)
               end
           end
       | External =>
           let ps2 := cmint ps amt in                   (* MintCoins *)
           match csend_m2a bl ps2 from amt with
           | Some ps3 => ps3
           | None => ps2                                (* err : continue; minted coins stay in the module *)
           end
       end.

Definition exec_pair (m h : bool) (bl : addr -> bool) (ps : pair) (o : pop) : option pair :=
  match o with
  | ConvertCoin sender receiver amt =>
      if amt <=? 0 then None                            (* !Amount.IsPositive() *)
      else if negb (minting_enabled m bl ps sender receiver) then None
      else match p_kind ps with
      | ModuleOwned =>                                  (* convertCoinNativeCoin *)
          match csend ps sender MOD amt with            (* escrow *)
          | None => None
          | Some ps1 =>
              match tmint ps1 receiver amt with         (* CallEVM mint *)
              | None => None
              | Some ps2 =>
                  if p_tbal ps2 receiver =? p_tbal ps receiver + amt then Some ps2 else None
              end
          end
      | External =>                                     (* convertCoinNativeERC20 *)
          match csend ps sender MOD amt with            (* escrow coins *)
          | None => None
          | Some ps1 =>
              match tmove ps1 MOD receiver amt with     (* CallEVM transfer from the module *)
              | None => None
              | Some ps2 =>
                  if p_tbal ps2 receiver =? p_tbal ps receiver + amt
                  then cburn ps2 amt                    (* BurnCoins *)
                  else None
              end
          end
      end
  | ConvertERC20 sender receiver amt =>
      if amt <=? 0 then None
      else if negb (minting_enabled m bl ps sender receiver) then None
      else match p_kind ps with
      | ModuleOwned =>                                  (* convertERC20NativeCoin *)
          match tburn ps sender amt with                (* CallEVM burnCoins(sender) from the module *)
          | None => None
          | Some ps1 =>
              match csend_m2a bl ps1 receiver amt with  (* unescrow *)
              | None => None
              | Some ps2 =>
                  if (p_cbal ps2 receiver =? p_cbal ps receiver + amt)
                     && (p_tbal ps2 sender =? p_tbal ps sender - amt)
                  then Some ps2 else None
              end
          end
      | External =>                                     (* convertERC20NativeToken *)
          match tmove ps sender MOD amt with            (* CallEVMWithData transfer, as the sender *)
          | None => None
          | Some ps1 =>
              if p_tbal ps1 MOD =? p_tbal ps MOD + amt then
                match csend_m2a bl (cmint ps1 amt) receiver amt with   (* MintCoins; send to receiver *)
                | None => None
                | Some ps2 =>
                    if p_cbal ps2 receiver =? p_cbal ps receiver + amt then Some ps2 else None
                end
              else None
          end
      end
  | EvmTransfer from to amt =>
      if amt <? 0 then None
      else match tmove ps from to amt with
           | None => None                               (* revert: nothing committed, hooks not called *)
           | Some ps1 => Some (hook m h bl ps1 from to amt)
           end
  | HolderBurn a amt =>
      if amt <? 0 then None
      else match tburn ps a amt with
           | None => None
           | Some ps1 => Some (set_ghost ps1 (p_selfburned ps1 + amt) (p_stuck ps1))
           end                                          (* log Transfer(a, 0, amt): hook continues (to != module) *)
  | RoleBurn caller victim amt =>
      if amt <? 0 then None
      else if negb (N.eqb caller (burner ps)) then None (* require(hasRole(BURNER_ROLE, msg.sender)) *)
      else tburn ps victim amt
  | BankSend from to amt =>                             (* bank msg server Send *)
      if amt <=? 0 then None
      else if negb (p_sendok ps) then None              (* IsSendEnabledCoins *)
      else if bl to then None                           (* BlockedAddr(to) *)
      else csend ps from to amt
  | Toggle => Some (set_flags ps (negb (p_enabled ps)) (p_sendok ps))
  | SetSendEnabled b => Some (set_flags ps (p_enabled ps) b)
  | ConvertForeignCoin _ _ _ => None                    (* every path returns an error *)
  end.

(** * Whole state: several pairs *)
Record state := mkState {
  en_mod : bool;             (* params.EnableErc20 *)
  en_hook : bool;            (* params.EnableEVMHook *)
  blocked : addr -> bool;    (* bankKeeper.BlockedAddr *)
  pairs : Z -> pair          (* pair id -> pair state *)
}.

Definition updp (f : Z -> pair) (p : Z) (v : pair) : Z -> pair :=
  fun q => if Z.eqb q p then v else f q.

(** * One Ethereum transaction with several logs

    A contract account (a router, a vault, a multisig) may call several token contracts
    several times within ONE transaction; the receipt then carries one log per call, and
    PostTxProcessing walks over all of them, in order, AFTER the whole transaction has been
    executed.  A leg is one call of the transaction together with the log it emits:
      LTransfer p from to amt     transfer / transferFrom on the contract of pair p
                                  (log Transfer(from, to, amt));  [from] may be an account
                                  with code - the hook does not distinguish
      LApprove p owner spender amt  approve on the contract of pair p: log
                                  Approval(owner, spender, amt) - three topics and one word
                                  of data like Transfer, another event id: `continue`
                                  (allowances are not part of the projection)
      LForeign from to amt        a Transfer log of a contract that is NOT registered
                                  (GetTokenPairIdByERC20Addr finds nothing: `continue`). *)
Inductive leg :=
| LTransfer (p : Z) (from to : addr) (amt : Z)
| LApprove (p : Z) (owner spender : addr) (amt : Z)
| LForeign (from to : addr) (amt : Z).

(* phase 1: the EVM executes the calls in order; a failing call reverts the transaction
   (the calling contract requires success) *)
Definition leg_exec (f : Z -> pair) (l : leg) : option (Z -> pair) :=
  match l with
  | LTransfer p from to amt =>
      if amt <? 0 then None else
      match tmove (f p) from to amt with
      | None => None
      | Some ps1 => Some (updp f p ps1)
      end
  | LApprove _ owner spender amt =>               (* OpenZeppelin _approve: zero owner / spender reverts *)
      if (amt <? 0) || N.eqb owner ZERO || N.eqb spender ZERO then None else Some f
  | LForeign _ _ _ => Some f
  end.

Fixpoint legs_exec (f : Z -> pair) (ls : list leg) : option (Z -> pair) :=
  match ls with
  | [] => Some f
  | l :: r => match leg_exec f l with None => None | Some f1 => legs_exec f1 r end
  end.

(* phase 2: PostTxProcessing, one iteration of `for i, log := range receipt.Logs` *)
Definition hook_leg (m h : bool) (bl : addr -> bool) (f : Z -> pair) (l : leg) : Z -> pair :=
  match l with
  | LTransfer p from to amt => updp f p (hook m h bl (f p) from to amt)
  | LApprove _ _ _ _ => f                       (* event.Name != "Transfer" : continue *)
  | LForeign _ _ _ => f                         (* len(id) == 0 : continue *)
  end.

Definition hooks_run (m h : bool) (bl : addr -> bool) (f : Z -> pair) (ls : list leg) : Z -> pair :=
  fold_left (hook_leg m h bl) ls f.

Inductive op :=
| OnPair (p : Z) (o : pop)
| SetParams (m h : bool)     (* MsgUpdateParams *)
| EvmTx (legs : list leg).   (* one Ethereum transaction whose receipt carries these logs *)

Definition exec (s : state) (o : op) : option state :=
  match o with
  | OnPair p po =>
      match exec_pair (en_mod s) (en_hook s) (blocked s) (pairs s p) po with
      | None => None
      | Some ps' => Some (mkState (en_mod s) (en_hook s) (blocked s) (updp (pairs s) p ps'))
      end
  | SetParams m h => Some (mkState m h (blocked s) (pairs s))
  | EvmTx legs =>
      match legs_exec (pairs s) legs with
      | None => None                                (* revert: nothing committed, hooks not called *)
      | Some f =>
          Some (mkState (en_mod s) (en_hook s) (blocked s)
                        (hooks_run (en_mod s) (en_hook s) (blocked s) f legs))
      end
  end.

(* message atomicity: an error (or a reverted EVM tx) leaves the state as it was *)
Definition deliver (s : state) (o : op) : state :=
  match exec s o with Some s' => s' | None => s end.

Definition run (ops : list op) (s : state) : state := fold_left deliver ops s.

(** * The backing predicate, as a boolean (evaluated by the checker on observed states) *)
Definition backing_b (ps : pair) : bool :=
  match p_kind ps with
  | ModuleOwned => escrow ps =? p_total ps + p_selfburned ps + p_stuck ps
  | External => p_supply ps <=? p_tbal ps MOD
  end.
