(** Model of x/onboarding: the IBC receive callback (property C11).

    Mirrors /repo/x/onboarding/keeper/ibc_callbacks.go OnRecvPacket as it is NOW:

      params.EnableOnboarding            -> else: original ack, nothing done
      DestinationChannel in whitelist    -> else: original ack, nothing done
      sender / recipient strings parse   -> else: ERROR ack (the only place the ack is replaced)
      recipient is a module account      -> original ack, nothing done
      if SpendableCoins(recipient)[std] < AutoSwapThreshold:
          TradeInputForExactOutput(max in = the transferred coin, out = exactly the threshold)
          -- called on the caller's context, OUTSIDE any cache branch; an error is logged and
             swallowed (swapped := 0); a panic is not caught
      pair of the transferred denomination not registered / not enabled -> original ack
          -- checked AFTER the swap: the swap happens also for denominations that cannot be converted
      ConvertCoin(amount - swapped, recipient -> recipient) on ctx.CacheContext();
          the branch is written iff ConvertCoin returns no error.  `nil, nil` (pair of a
          self-destructed contract deleted, nothing converted) counts as success: the branch is written.
      original ack

    The bank, the pools and the coinswap parameters are the state of Model/Coinswap.v
    ([Coinswap.state]); the keeper-level buy is re-stated here with the PARTIAL state a failure
    would leave behind ([buy_keeper]; Coinswap.trade_buy is its all-or-nothing reading and
    Proofs/OnboardingProofs.v proves the two agree on success and that the partial state of a
    failure is the initial state).  The conversion is [Convert.exec] of Model/Convert.v run
    against an ARBITRARY EVM on the bank view of the transferred denomination.

    Panics (sdkmath overflow inside GetOutputPrice, sdk.NewCoin on a negative amount, index out
    of range on a topic-less log in monitorApprovalEvent) are not recovered anywhere in the
    callback: they abort the transaction that delivers the packet, so the voucher credit is
    rolled back with everything else ([recv]).

    Not modelled: GetStandardDenom failing (the standard denomination is set at genesis), vesting
    locks (SpendableCoins = balance: the app registers no vesting account type), packet data that does not unmarshal (the transfer module has
    already decoded it), sdkmath overflow inside x/erc20 (as in Model/Convert.v). *)
From Coq Require Import ZArith List Bool.
From Canto Require Import Lib.SdkInt Lib.SdkDec Model.Coinswap.
From Canto Require Model.Convert.
Import ListNotations.
Open Scope Z_scope.

(** * Keeper-level buy with the state a failure leaves behind *)

Inductive buy_result :=
| BuyOk (s : state) (sold : Z)
| BuyErr (partial : state)      (* error returned; [partial] is what the caller's context holds *)
| BuyPanic.

(* TradeInputForExactOutput(input = (din, max_in) from who, output = (Std, aout) to who) *)
Definition buy_keeper (s : state) (who : acct) (din : denom) (max_in aout : Z) : buy_result :=
  match pool_of s Std din with
  | None => BuyErr s
  | Some seq =>
      let esc := Escrow seq in
      let outres := st_bal s esc Std in
      let inres := st_bal s esc din in
      if negb (0 <? inres) then BuyErr s else
      if negb (0 <? outres) then BuyErr s else
      if negb (aout <? outres) then BuyErr s else
      match output_price aout inres outres (p_fee (st_params s)) with
      | None => BuyPanic                                    (* sdkmath.Int overflow *)
      | Some sold =>
          if max_in <? sold then BuyErr s else
          if sold <? 0 then BuyPanic else                   (* sdk.NewCoin *)
          let '(qd, qa) := quote Std aout din sold in
          match wl_lookup qd (p_wl (st_params s)) with
          | None => BuyErr s
          | Some mx =>
              if mx <? qa then BuyErr s else
              match send s who esc din sold with            (* swapCoins: first transfer *)
              | None => BuyErr s
              | Some s1 =>
                  match send s1 esc who Std aout with       (* second transfer: no branch protects the first *)
                  | None => BuyErr s1
                  | Some s2 => BuyOk s2 sold
                  end
              end
          end
      end
  end.

(** * Account numbering shared with Model/Convert.v (accounts there are numbers; 0 is the
      zero address of the honest contract, so no account of a non-negative index maps to it) *)
Definition enc (a : acct) : Z :=
  match a with User n => 3 * n + 3 | Escrow q => 3 * q + 1 | Module m => 3 * m + 2 end.
Definition dec (z : Z) : acct :=
  let r := z mod 3 in
  if r =? 0 then User (z / 3 - 1) else if r =? 1 then Escrow (z / 3) else Module (z / 3).

(* the erc20 module account (index 3 in the harness' module table) *)
Definition M_erc20 : acct := Module 3.
Definition MZ : Z := enc M_erc20.

(* the ledger of one denomination, as Model/Convert.v sees it, and its write-back *)
Definition view (s : state) (d : denom) : Convert.bank :=
  Convert.mkBank (fun z => st_bal s (dec z) d) (st_sup s d).
Definition put (s : state) (d : denom) (b : Convert.bank) : state :=
  set_bank s (fun a d' => if denom_eqb d' d then Convert.bal b (enc a) else st_bal s a d')
             (fun d' => if denom_eqb d' d then Convert.supply b else st_sup s d').

(** * The callback *)

Record config := mkCfg {
  c_enabled : bool;            (* EnableOnboarding *)
  c_whitelist : list Z;        (* WhitelistedChannels *)
  c_threshold : Z              (* AutoSwapThreshold (validated non-negative) *)
}.

(* what the erc20 registry answers for the transferred denomination (the registry itself is C15's) *)
Inductive pair_info :=
| NoPair
| PairDisabled
| PairOn (kind : Convert.pair_kind) (contract : Z)
         (gate : bool)        (* ConvertCoin's own validation + MintingEnabled pass (erc20 enabled, recipient not blocked) *)
         (has_code : bool).   (* the contract account still has code *)

Record packet := mkPacket {
  pk_channel : Z;                 (* DestinationChannel *)
  pk_sender_ok : bool;            (* data.Sender is valid bech32 *)
  pk_recipient : option acct;     (* data.Receiver decoded; None = not valid bech32 *)
  pk_denom : denom;               (* the coin as seen on this chain (ibc.GetReceivedCoin) *)
  pk_amount : Z;
  pk_pair : pair_info
}.

Inductive ack := AckOriginal | AckError.
Inductive conv := ConvNotTried | ConvDone | ConvRemoved | ConvFailed.

Record receipt := mkRep {
  r_ack : ack;
  r_acted : bool;      (* all guards passed *)
  r_swapped : Z;       (* swappedAmount of the code: what the recipient paid into the pool *)
  r_conv : conv;
  r_converted : Z      (* amount really converted (NOT the event attribute: that one also reports Removed) *)
}.

Definition idle (a : ack) : receipt := mkRep a false 0 ConvNotTried 0.

Definition whitelisted (c : config) (ch : Z) : bool := existsb (Z.eqb ch) (c_whitelist c).

(* the swap step: None = panic; otherwise the state left behind and swappedAmount *)
Definition swap_phase (thr : Z) (r : acct) (d : denom) (amt : Z) (s : state) : option (state * Z) :=
  if st_bal s r Std <? thr then
    match buy_keeper s r d amt thr with
    | BuyOk s' sold => Some (s', sold)
    | BuyErr p => Some (p, 0)          (* error swallowed; whatever was done stays *)
    | BuyPanic => None
    end
  else Some (s, 0).

Section WithEvm.
  Variable E : Convert.evm_model.     (* arbitrary *)

  Record ostate := mkO { o_cs : state; o_evm : Convert.evm E }.

  Definition convert_msg (k : Convert.pair_kind) (c : Z) (g hc : bool) (r : acct) (amt : Z) : Convert.msg :=
    Convert.mkMsg Convert.CoinToToken k g hc c (enc r) (enc r) amt.

  (* the conversion step on a branch: None = panic *)
  Definition convert_phase (pi : pair_info) (r : acct) (d : denom) (amt : Z) (s : ostate)
    : option (ostate * conv * Z) :=
    match pi with
    | NoPair | PairDisabled => Some (s, ConvNotTried, 0)
    | PairOn k c g hc =>
        if amt <? 0 then None else                         (* sdk.NewCoin *)
        match Convert.exec E MZ (convert_msg k c g hc r amt) (view (o_cs s) d, o_evm s) with
        | Convert.Done (b', e') => Some (mkO (put (o_cs s) d b') e', ConvDone, amt)   (* writeCache() *)
        | Convert.Removed => Some (s, ConvRemoved, 0)      (* branch written; only the registry changed *)
        | Convert.Failed Convert.EPanic _ => None          (* not an error return: the panic escapes *)
        | Convert.Failed _ _ => Some (s, ConvFailed, 0)    (* branch dropped *)
        end
    end.

  Definition on_recv (c : config) (p : packet) (s : ostate) : option (ostate * receipt) :=
    if negb (c_enabled c) then Some (s, idle AckOriginal) else
    if negb (whitelisted c (pk_channel p)) then Some (s, idle AckOriginal) else
    if negb (pk_sender_ok p) then Some (s, idle AckError) else
    match pk_recipient p with
    | None => Some (s, idle AckError)
    | Some r =>
        if is_module r then Some (s, idle AckOriginal) else
        match swap_phase (c_threshold c) r (pk_denom p) (pk_amount p) (o_cs s) with
        | None => None
        | Some (cs1, swapped) =>
            match convert_phase (pk_pair p) r (pk_denom p) (pk_amount p - swapped) (mkO cs1 (o_evm s)) with
            | None => None
            | Some (s2, cv, converted) => Some (s2, mkRep AckOriginal true swapped cv converted)
            end
        end
    end.

  (** The transfer module credits the recipient, then the callback runs; a panic
      aborts the delivering transaction (baseapp; modelled) and with it the credit. *)
  Definition credit (p : packet) (s : ostate) : ostate :=
    match pk_recipient p with
    | Some r => mkO (mint (o_cs s) r (pk_denom p) (pk_amount p)) (o_evm s)
    | None => s
    end.

  Definition recv (c : config) (p : packet) (s : ostate) : ostate * option receipt :=
    match on_recv c p (credit p s) with
    | Some (s', rep) => (s', Some rep)
    | None => (s, None)
    end.

  (* a history of packets, each under the configuration in force when it arrives *)
  Fixpoint run (h : list (config * packet)) (s : ostate) : ostate * list (option receipt) :=
    match h with
    | [] => (s, [])
    | (c, p) :: rest =>
        let '(s1, rp) := recv c p s in
        let '(s2, rps) := run rest s1 in
        (s2, rp :: rps)
    end.
End WithEvm.

Arguments mkO {E} o_cs o_evm.
Arguments o_cs {E} o.
Arguments o_evm {E} o.

(** * An EVM whose k-th call of a conversion fails (fault sequences)

    A conversion makes three calls: balanceOf before (1), the committing call
    (2), balanceOf after (3).  The wrapper counts committing calls to know which
    balanceOf it is answering. *)
Definition fail_at (E : Convert.evm_model) (k : Z) : Convert.evm_model :=
  let lift (ph : Z) (r : Convert.reply (Convert.evm E)) : Convert.reply (Convert.evm E * Z) :=
      match r with
      | Some (e', v, l) => Some ((e', ph + 1), v, l)
      | None => None
      end in
  Convert.mkEvm (Convert.evm E * Z)%type
    (fun s c a => let '(e, ph) := s in
                  if ((k =? 1) && (ph =? 0)) || ((k =? 3) && (ph =? 1)) then None
                  else Convert.call_balance_of E e c a)
    (fun s c to amt => let '(e, ph) := s in
                       if (k =? 2) && (ph =? 0) then None else lift ph (Convert.call_mint E e c to amt))
    (fun s c from amt => let '(e, ph) := s in
                         if (k =? 2) && (ph =? 0) then None else lift ph (Convert.call_burn E e c from amt))
    (fun s c caller to amt => let '(e, ph) := s in
                              if (k =? 2) && (ph =? 0) then None else lift ph (Convert.call_transfer E e c caller to amt)).
