(** Model of the x/erc20 token-pair registry (property C15).

    Mirrors, as the code is in /repo now:
      x/erc20/keeper/token_pairs.go  GetTokenPairs, GetTokenPairID (address index first when
                                     the token string has the shape of a hex address, and the
                                     fall-back to the denomination index when that finds
                                     nothing), GetTokenPair, SetTokenPair, DeleteTokenPair,
                                     the two index setters/getters/deleters
      x/erc20/keeper/proposals.go    RegisterCoin, RegisterERC20 (+ the registry check inside
                                     CreateCoinMetadata), ToggleConversion
      x/erc20/keeper/msg_server.go   RegisterCoinProposal / RegisterERC20Proposal /
                                     ToggleTokenConversionProposal / UpdateParams (authority
                                     check), ConvertCoin / ConvertERC20 up to and including the
                                     "contract is gone => DeleteTokenPair, return nil" branch
      x/erc20/keeper/mint.go         MintingEnabled (the registry part)
      x/erc20/genesis.go             InitGenesis, ExportGenesis
      x/erc20/types/token_pair.go    NewTokenPair (Enabled is always true), GetID

    Strings.  A token string (a coin denomination, or the "token" argument of a toggle,
    query or conversion) is one of
      [TPlain n]   an ordinary string, number n of the harness' intern table; not of the shape
                   of a hex address and not literally "erc20/" ++ EIP-55(address)
      [THex a v]   a string for which common.IsHexAddress holds and which common.HexToAddress
                   reads as address [a]; [v] distinguishes the spellings (0x / 0X / no prefix,
                   lower / upper / mixed case).  Spellings without prefix that begin with a
                   letter are valid SDK denominations, so a THex can be a registered denomination.
      [TErc20 a]   exactly types.CreateDenom(a.String()) = "erc20/" ++ EIP-55(a), the
                   denomination RegisterERC20 gives to the coin of contract [a]
    Different constructors / arguments are different strings.  Addresses are the 20 bytes
    read as a number.

    Pair ids.  GetID is sha256(Erc20Address ++ "|" ++ Denom); the model uses the pair
    (address, denomination) itself (collision-freeness of sha256; stored address strings are
    in the canonical EIP-55 spelling, as every pair written by the keeper is).

    External facts are inputs of the operations, recorded by the harness before the call:
      ext    every check that does not read the registry passes (RegisterCoin: base does not
             contain "CANTO", bank supply exists, stored metadata absent or equal, contract
             deployment succeeds; RegisterERC20: name/symbol/decimals can be queried, no bank
             metadata for the new denomination yet, generated metadata valid)
      fresh  the address the EVM gives to the contract deployed by RegisterCoin
      dead   the contracts that have no code any more (self-destructed)
      auth   the message's authority equals the module's authority *)
From stdpp Require Import gmap.
Open Scope Z_scope.

Inductive tok :=
| TPlain (n : Z)
| THex (a v : Z)
| TErc20 (a : Z).

Global Instance tok_eq_dec : EqDecision tok.
Proof. solve_decision. Defined.

Definition tok_enc (t : tok) : Z + (Z * Z) + Z :=
  match t with TPlain n => inl (inl n) | THex a v => inl (inr (a, v)) | TErc20 a => inr a end.
Definition tok_dec (x : Z + (Z * Z) + Z) : tok :=
  match x with inl (inl n) => TPlain n | inl (inr (a, v)) => THex a v | inr a => TErc20 a end.
Global Instance tok_countable : Countable tok.
Proof. refine (inj_countable' tok_enc tok_dec _). intros []; reflexivity. Defined.

(* common.IsHexAddress / common.HexToAddress *)
Definition hex_of (t : tok) : option Z :=
  match t with THex a _ => Some a | _ => None end.

Inductive owner := OwnerUnspecified | OwnerModule | OwnerExternal.
Global Instance owner_eq_dec : EqDecision owner.
Proof. solve_decision. Defined.

Record pair := mkPair {
  p_addr : Z;          (* Erc20Address *)
  p_denom : tok;       (* Denom *)
  p_enabled : bool;    (* Enabled *)
  p_owner : owner      (* ContractOwner *)
}.
Global Instance pair_eq_dec : EqDecision pair.
Proof. solve_decision. Defined.

Definition pid := (Z * tok)%type.
Definition id_of (p : pair) : pid := (p_addr p, p_denom p).       (* GetID *)

(** The three store prefixes, and the one parameter the registry operations read. *)
Record state := mkState {
  st_pairs : gmap pid pair;     (* KeyPrefixTokenPair:               id -> pair *)
  st_denom : gmap tok pid;      (* KeyPrefixTokenPairByDenom:        denomination -> id *)
  st_addr : gmap Z pid;         (* KeyPrefixTokenPairByERC20Address: address -> id *)
  st_enable : bool              (* Params.EnableErc20 *)
}.
Global Instance state_eq_dec : EqDecision state.
Proof. solve_decision. Defined.

Definition empty_state (en : bool) : state := mkState ∅ ∅ ∅ en.

(** * Store accessors *)
Definition get_id_by_addr (s : state) (a : Z) : option pid := st_addr s !! a.
Definition get_id_by_denom (s : state) (d : tok) : option pid := st_denom s !! d.
Definition get_pair (s : state) (i : pid) : option pair := st_pairs s !! i.

(* GetTokenPairID *)
Definition get_pair_id (s : state) (t : tok) : option pid :=
  match hex_of t with
  | Some a =>
      match get_id_by_addr s a with
      | Some i => Some i
      | None => get_id_by_denom s t
      end
  | None => get_id_by_denom s t
  end.

(* what the TokenPair query, ToggleConversion and MintingEnabled do with a token string *)
Definition lookup_tok (s : state) (t : tok) : option pair :=
  match get_pair_id s t with
  | Some i => get_pair s i
  | None => None
  end.

(* GetTokenPairs / the TokenPairs query (as a set; the store orders by sha256) *)
Definition listing (s : state) : list pair := (map_to_list (st_pairs s)).*2.

Definition set_pair (p : pair) (s : state) : state :=
  mkState (<[id_of p := p]> (st_pairs s)) (st_denom s) (st_addr s) (st_enable s).
Definition set_id_by_denom (d : tok) (i : pid) (s : state) : state :=
  mkState (st_pairs s) (<[d := i]> (st_denom s)) (st_addr s) (st_enable s).
Definition set_id_by_addr (a : Z) (i : pid) (s : state) : state :=
  mkState (st_pairs s) (st_denom s) (<[a := i]> (st_addr s)) (st_enable s).

(* DeleteTokenPair *)
Definition delete_pair (p : pair) (s : state) : state :=
  mkState (delete (id_of p) (st_pairs s)) (delete (p_denom p) (st_denom s))
          (delete (p_addr p) (st_addr s)) (st_enable s).

(* the three writes at the end of RegisterCoin / RegisterERC20 *)
Definition add_pair (p : pair) (s : state) : state :=
  set_id_by_addr (p_addr p) (id_of p) (set_id_by_denom (p_denom p) (id_of p) (set_pair p s)).

(** * Operations *)
Inductive res := Ok | Rejected | Unspec.
Global Instance res_eq_dec : EqDecision res.
Proof. solve_decision. Defined.

Definition is_some {A} (o : option A) : bool := match o with Some _ => true | None => false end.

(* RegisterCoinProposal -> RegisterCoin *)
Definition register_coin (auth ext : bool) (d : tok) (fresh : Z) (s : state) : state * res :=
  if negb auth then (s, Rejected)
  else if negb (st_enable s) then (s, Rejected)
  else if is_some (st_denom s !! d) then (s, Rejected)        (* IsDenomRegistered *)
  else if negb ext then (s, Rejected)
  else (add_pair (mkPair fresh d true OwnerModule) s, Ok).

(* RegisterERC20Proposal -> RegisterERC20 (-> CreateCoinMetadata) *)
Definition register_erc20 (auth ext : bool) (a : Z) (s : state) : state * res :=
  if negb auth then (s, Rejected)
  else if negb (st_enable s) then (s, Rejected)
  else if is_some (st_addr s !! a) then (s, Rejected)         (* IsERC20Registered *)
  else if negb ext then (s, Rejected)
  else if is_some (st_denom s !! TErc20 a) then (s, Rejected) (* IsDenomRegistered in CreateCoinMetadata *)
  else (add_pair (mkPair a (TErc20 a) true OwnerExternal) s, Ok).

Definition flip (p : pair) : pair := mkPair (p_addr p) (p_denom p) (negb (p_enabled p)) (p_owner p).

(* ToggleTokenConversionProposal -> ToggleConversion *)
Definition toggle (auth : bool) (t : tok) (s : state) : state * res :=
  if negb auth then (s, Rejected)
  else match get_pair_id s t with
       | None => (s, Rejected)
       | Some i =>
           match get_pair s i with
           | None => (s, Rejected)
           | Some p => (set_pair (flip p) s, Ok)
           end
       end.

(* ConvertCoin ([coin = true], t = the denomination of the coin offered) / ConvertERC20
   ([coin = false], t = the contract address string), with a receiver that is not blocked and
   equal to the sender, and a positive amount.
   Only the registry is modelled: when the contract still has code the conversion proper runs
   (C03/C04), the registry is untouched and the result is not specified here.
   ConvertCoin refuses a coin whose denomination is not the denomination of the pair the string
   resolves to (a coin merely NAMED like the pair's contract address; /repo fix 1aaf795) - before
   it looks at the contract, so such a message never removes a pair. *)
Definition convert (coin : bool) (t : tok) (dead : list Z) (s : state) : state * res :=
  if negb (st_enable s) then (s, Rejected)
  else match get_pair_id s t with
       | None => (s, Rejected)
       | Some i =>
           match get_pair s i with
           | None => (s, Rejected)
           | Some p =>
               if negb (p_enabled p) then (s, Rejected)
               else if coin && negb (bool_decide (t = p_denom p)) then (s, Rejected)
               else if existsb (Z.eqb (p_addr p)) dead then (delete_pair p s, Ok)
               else (s, Unspec)
           end
       end.

(* UpdateParams, restricted to the EnableErc20 field *)
Definition set_enable (auth b : bool) (s : state) : state * res :=
  if negb auth then (s, Rejected)
  else (mkState (st_pairs s) (st_denom s) (st_addr s) b, Ok).

(** * Genesis *)
Record genesis := mkGenesis {
  g_enable : bool;
  g_pairs : list pair;            (* TokenPairs *)
  g_denoms : list (tok * pid);    (* DenomIndexes *)
  g_addrs : list (Z * pid)        (* Erc20AddressIndexes *)
}.

Definition export_genesis (s : state) : genesis :=
  mkGenesis (st_enable s) (listing s) (map_to_list (st_denom s)) (map_to_list (st_addr s)).

(* InitGenesis: three loops of writes over the store it is given *)
Definition init_genesis (g : genesis) (s : state) : state :=
  mkState (foldl (fun m p => <[id_of p := p]> m) (st_pairs s) (g_pairs g))
          (foldl (fun m e => <[e.1 := e.2]> m) (st_denom s) (g_denoms g))
          (foldl (fun m e => <[e.1 := e.2]> m) (st_addr s) (g_addrs g))
          (g_enable g).

(** * Histories *)
Inductive op :=
| OpRegCoin (auth ext : bool) (d : tok) (fresh : Z)
| OpRegErc20 (auth ext : bool) (a : Z)
| OpToggle (auth : bool) (t : tok)
| OpConvert (coin : bool) (t : tok) (dead : list Z)
| OpSetEnable (auth b : bool)
| OpExportImport        (* export the module's genesis and start an empty store from it *)
| OpEnv.                (* something outside the registry happened (mint, self-destruct) *)

Definition step (o : op) (s : state) : state * res :=
  match o with
  | OpRegCoin auth ext d fresh => register_coin auth ext d fresh s
  | OpRegErc20 auth ext a => register_erc20 auth ext a s
  | OpToggle auth t => toggle auth t s
  | OpConvert coin t dead => convert coin t dead s
  | OpSetEnable auth b => set_enable auth b s
  | OpExportImport => (init_genesis (export_genesis s) (empty_state false), Ok)
  | OpEnv => (s, Ok)
  end.

Definition run (os : list op) (s : state) : state := foldl (fun s o => (step o s).1) s os.

(** * The invariant in Boolean form
    Evaluated by the checker on the tables observed in the implementation
    ([inv_b_spec] in Proofs/TokenPairsProofs.v: [inv_b s = true <-> Inv s]). *)
Definition inv_b (s : state) : bool :=
  forallb (fun e : pid * pair =>
             bool_decide (e.1 = id_of e.2) &&
             bool_decide (st_denom s !! p_denom e.2 = Some e.1) &&
             bool_decide (st_addr s !! p_addr e.2 = Some e.1)) (map_to_list (st_pairs s)) &&
  forallb (fun e : tok * pid =>
             match st_pairs s !! e.2 with
             | Some p => bool_decide (p_denom p = e.1)
             | None => false
             end) (map_to_list (st_denom s)) &&
  forallb (fun e : Z * pid =>
             match st_pairs s !! e.2 with
             | Some p => bool_decide (p_addr p = e.1)
             | None => false
             end) (map_to_list (st_addr s)).
