(** Model of x/coinswap: the constant-product AMM.

    Mirrors /repo/x/coinswap/keeper/{msg_server,keeper,swap,pool,fees}.go and
    types/validation.go.  sdkmath panics (overflow, division by zero) are
    [None]; a message that returns an error or panics is a rejected message
    and leaves the state unchanged ([deliver], baseapp's branch semantics).

    Accounts: users (who can sign), pool escrow accounts (hash of the lpt
    denomination; nobody signs for them) and module accounts (all blocked
    addresses of app.go).  Denominations: the standard coin, counterparty
    tokens, liquidity-pool tokens "lpt-<seq>". *)
From Coq Require Import ZArith List Bool.
From Canto Require Import Lib.SdkInt Lib.SdkDec.
Import ListNotations.
Open Scope Z_scope.

Inductive acct := User (n : Z) | Escrow (seq : Z) | Module (m : Z).
Inductive denom := Std | Tok (n : Z) | Lpt (seq : Z).

Definition acct_eqb (a b : acct) : bool :=
  match a, b with
  | User x, User y | Escrow x, Escrow y | Module x, Module y => x =? y
  | _, _ => false
  end.
Definition denom_eqb (a b : denom) : bool :=
  match a, b with
  | Std, Std => true
  | Tok x, Tok y | Lpt x, Lpt y => x =? y
  | _, _ => false
  end.

(* module account ids *)
Definition M_coinswap : acct := Module 0.
Definition M_feecollector : acct := Module 1.

Record params := mkParams {
  p_fee : Z;                 (* LegacyDec raw, validated 0 <= fee < 10^18 *)
  p_cfee_denom : denom;      (* PoolCreationFee *)
  p_cfee_amt : Z;
  p_tax : Z;                 (* TaxRate, LegacyDec raw *)
  p_cap : Z;                 (* MaxStandardCoinPerPool *)
  p_wl : list (denom * Z)    (* MaxSwapAmount: whitelist with per-swap maxima *)
}.

Record state := mkState {
  st_params : params;
  st_next : Z;                      (* next pool sequence *)
  st_pools : list (Z * Z);          (* counterparty token id -> lpt sequence *)
  st_bal : acct -> denom -> Z;      (* bank balances *)
  st_sup : denom -> Z               (* bank supply *)
}.

Definition set_bank (s : state) (b : acct -> denom -> Z) (u : denom -> Z) : state :=
  mkState (st_params s) (st_next s) (st_pools s) b u.

(** * Bank primitives *)
Definition upd_bal (b : acct -> denom -> Z) (a : acct) (d : denom) (v : Z) : acct -> denom -> Z :=
  fun a' d' => if acct_eqb a' a && denom_eqb d' d then v else b a' d'.
Definition upd_sup (u : denom -> Z) (d : denom) (v : Z) : denom -> Z :=
  fun d' => if denom_eqb d' d then v else u d'.

(* SendCoins of one coin; a zero amount is dropped by sdk.NewCoins: nothing happens *)
Definition send (s : state) (a b : acct) (d : denom) (amt : Z) : option state :=
  if amt =? 0 then Some s else
  if st_bal s a d <? amt then None else
  let b1 := upd_bal (st_bal s) a d (st_bal s a d - amt) in
  Some (set_bank s (upd_bal b1 b d (b1 b d + amt)) (st_sup s)).
Definition mint (s : state) (a : acct) (d : denom) (amt : Z) : state :=
  if amt =? 0 then s else
  set_bank s (upd_bal (st_bal s) a d (st_bal s a d + amt)) (upd_sup (st_sup s) d (st_sup s d + amt)).
(* BurnCoins: the module balance and the supply are both decreased; Coin.Sub panics on a negative result *)
Definition burn (s : state) (a : acct) (d : denom) (amt : Z) : option state :=
  if amt =? 0 then Some s else
  if (st_bal s a d <? amt) || (st_sup s d <? amt) then None else
  Some (set_bank s (upd_bal (st_bal s) a d (st_bal s a d - amt)) (upd_sup (st_sup s) d (st_sup s d - amt))).

(** * Lookups *)
Fixpoint lookup_pool (n : Z) (l : list (Z * Z)) : option Z :=
  match l with
  | [] => None
  | (k, q) :: r => if k =? n then Some q else lookup_pool n r
  end.
Fixpoint lookup_seq (q : Z) (l : list (Z * Z)) : option Z :=   (* GetPoolByLptDenom *)
  match l with
  | [] => None
  | (k, q') :: r => if q' =? q then Some k else lookup_seq q r
  end.
(* GetMaximumSwapAmount: first whitelist entry with this denomination *)
Fixpoint wl_lookup (d : denom) (l : list (denom * Z)) : option Z :=
  match l with
  | [] => None
  | (d', m) :: r => if denom_eqb d' d then Some m else wl_lookup d r
  end.
(* Coins.AmountOf *)
Definition wl_amount (d : denom) (l : list (denom * Z)) : Z :=
  match wl_lookup d l with Some m => m | None => 0 end.

(* GetLptDenomFromDenoms: one side must be the standard coin; the pool of the other side *)
Definition pool_of (s : state) (d1 d2 : denom) : option Z :=
  if denom_eqb d1 d2 then None else
  match d1, d2 with
  | Std, Tok n | Tok n, Std => lookup_pool n (st_pools s)
  | _, _ => None
  end.

(** * Price kernels (reference copies of GetInputPrice / GetOutputPrice, in the
      evaluation order of the Go code so that panics happen in the same place) *)
Definition input_price (inputAmt inputReserve outputReserve fee : Z) : option Z :=
  deltaFee <- SdkDec.sub SdkDec.one fee ;;
  t1 <- SdkInt.of_big deltaFee ;;
  inputAmtWithFee <- SdkInt.mul inputAmt t1 ;;
  numerator <- SdkInt.mul inputAmtWithFee outputReserve ;;
  t2 <- SdkInt.with_decimal 1 18 ;;
  t3 <- SdkInt.mul inputReserve t2 ;;
  denominator <- SdkInt.add t3 inputAmtWithFee ;;
  SdkInt.quo numerator denominator.

Definition output_price (outputAmt inputReserve outputReserve fee : Z) : option Z :=
  deltaFee <- SdkDec.sub SdkDec.one fee ;;
  t1 <- SdkInt.mul inputReserve outputAmt ;;
  t2 <- SdkInt.with_decimal 1 18 ;;
  numerator <- SdkInt.mul t1 t2 ;;
  t3 <- SdkInt.sub outputReserve outputAmt ;;
  t4 <- SdkInt.of_big deltaFee ;;
  denominator <- SdkInt.mul t3 t4 ;;
  t5 <- SdkInt.quo numerator denominator ;;
  SdkInt.add t5 1.

(** * Keeper-level trades *)

(* the coin checked against the per-swap maximum: the non-standard leg *)
Definition quote (other_d : denom) (other_a : Z) (calc_d : denom) (calc_a : Z) : denom * Z :=
  (* calc_* is the computed leg; it is the quoted one unless it is the standard coin *)
  if negb (denom_eqb calc_d Std) then (calc_d, calc_a) else (other_d, other_a).

(* TradeExactInputForOutput *)
Definition trade_sell (s : state) (sender recipient : acct) (din : denom) (ain : Z) (dout : denom) (min_out : Z)
  : option (state * Z) :=
  seq <- pool_of s din dout ;;
  let esc := Escrow seq in
  let inres := st_bal s esc din in
  let outres := st_bal s esc dout in
  guard (0 <? inres) ;;
  guard (0 <? outres) ;;
  bought <- input_price ain inres outres (p_fee (st_params s)) ;;
  guard (negb (bought <? min_out)) ;;
  guard (negb (bought <? 0)) ;;                                     (* sdk.NewCoin panics on a negative amount *)
  let '(qd, qa) := quote din ain dout bought in
  mx <- wl_lookup qd (p_wl (st_params s)) ;;
  guard (negb (mx <? qa)) ;;
  s1 <- send s sender esc din ain ;;
  s2 <- send s1 esc recipient dout bought ;;
  Some (s2, bought).

(* TradeInputForExactOutput *)
Definition trade_buy (s : state) (sender recipient : acct) (din : denom) (max_in : Z) (dout : denom) (aout : Z)
  : option (state * Z) :=
  seq <- pool_of s dout din ;;
  let esc := Escrow seq in
  let outres := st_bal s esc dout in
  let inres := st_bal s esc din in
  guard (0 <? inres) ;;
  guard (0 <? outres) ;;
  guard (aout <? outres) ;;
  sold <- output_price aout inres outres (p_fee (st_params s)) ;;
  guard (negb (max_in <? sold)) ;;
  guard (negb (sold <? 0)) ;;
  let '(qd, qa) := quote dout aout din sold in
  mx <- wl_lookup qd (p_wl (st_params s)) ;;
  guard (negb (mx <? qa)) ;;
  s1 <- send s sender esc din sold ;;
  s2 <- send s1 esc recipient dout aout ;;
  Some (s2, sold).

(** * Pool creation fee (DeductPoolCreationFee) *)
Definition tax_part (amt tax : Z) : option Z :=
  t <- SdkDec.mul (SdkDec.of_int amt) tax ;;
  SdkDec.truncate_int t.

Definition deduct_creation_fee (s : state) (creator : acct) : option state :=
  let p := st_params s in
  let d := p_cfee_denom p in
  tax <- tax_part (p_cfee_amt p) (p_tax p) ;;
  guard (negb (tax <? 0)) ;;                              (* sdk.NewCoin *)
  guard (negb (p_cfee_amt p - tax <? 0)) ;;               (* Coin.Sub panics on a negative result *)
  s1 <- send s creator M_coinswap d (p_cfee_amt p) ;;
  s2 <- send s1 M_coinswap M_feecollector d tax ;;
  burn s2 M_coinswap d (p_cfee_amt p - tax).

(** * Liquidity *)
Definition add_transfer (s : state) (sender : acct) (seq : Z) (tok : denom) (std_amt tok_amt mint_amt : Z)
  : option (state * Z) :=
  s1 <- send s sender (Escrow seq) Std std_amt ;;
  s2 <- send s1 sender (Escrow seq) tok tok_amt ;;
  let s3 := mint s2 M_coinswap (Lpt seq) mint_amt in
  s4 <- send s3 M_coinswap sender (Lpt seq) mint_amt ;;
  Some (s4, mint_amt).

Definition initial_add_checks (p : params) (exact_std min_liq : Z) : bool :=
  negb (p_cap p <? exact_std) && negb (exact_std <? min_liq).

(* Keeper.AddLiquidity; [tokn] is the id of the counterparty token MaxToken.Denom = Tok tokn *)
Definition add_liquidity (s : state) (sender : acct) (tokn : Z) (max_tok exact_std min_liq : Z)
  : option (state * Z) :=
  let p := st_params s in
  let tok := Tok tokn in
  guard (0 <? wl_amount tok (p_wl p)) ;;
  match lookup_pool tokn (st_pools s) with
  | None =>
      s1 <- deduct_creation_fee s sender ;;
      guard (initial_add_checks p exact_std min_liq) ;;
      let seq := st_next s in
      let s2 := mkState (st_params s1) (seq + 1) ((tokn, seq) :: st_pools s1) (st_bal s1) (st_sup s1) in
      add_transfer s2 sender seq tok exact_std max_tok exact_std
  | Some seq =>
      let esc := Escrow seq in
      let stdres := st_bal s esc Std in
      let tokres := st_bal s esc tok in
      let liq := st_sup s (Lpt seq) in
      if liq =? 0 then
        guard (initial_add_checks p exact_std min_liq) ;;
        add_transfer s sender seq tok exact_std max_tok exact_std
      else
        guard (stdres <? p_cap p) ;;
        room <- SdkInt.sub (p_cap p) stdres ;;
        let std_in := Z.min exact_std room in
        t1 <- SdkInt.mul liq std_in ;;
        mint_amt <- SdkInt.quo t1 stdres ;;
        guard (negb (mint_amt <? min_liq)) ;;
        t2 <- SdkInt.mul tokres std_in ;;
        t3 <- SdkInt.quo t2 stdres ;;
        deposit <- SdkInt.add t3 1 ;;
        guard (negb (deposit <? 0)) ;; guard (negb (std_in <? 0)) ;;   (* sdk.NewCoin *)
        guard (negb (max_tok <? deposit)) ;;
        guard (negb (mint_amt <? 0)) ;;
        add_transfer s sender seq tok std_in deposit mint_amt
  end.

(* Keeper.RemoveLiquidity; response = (standard paid, token paid) *)
Definition remove_liquidity (s : state) (sender : acct) (seq : Z) (w min_std min_tok : Z)
  : option (state * (Z * Z)) :=
  tokn <- lookup_seq seq (st_pools s) ;;
  let tok := Tok tokn in
  let esc := Escrow seq in
  let stdres := st_bal s esc Std in
  let tokres := st_bal s esc tok in
  let liq := st_sup s (Lpt seq) in
  guard (negb (stdres <? min_std)) ;;
  guard (negb (tokres <? min_tok)) ;;
  guard (negb (liq <? w)) ;;
  t1 <- SdkInt.mul w stdres ;;
  std_w <- SdkInt.quo t1 liq ;;
  t2 <- SdkInt.mul w tokres ;;
  tok_w <- SdkInt.quo t2 liq ;;
  guard (negb (std_w <? 0)) ;; guard (negb (tok_w <? 0)) ;;          (* sdk.NewCoin *)
  guard (negb (std_w <? min_std)) ;;
  guard (negb (tok_w <? min_tok)) ;;
  s1 <- send s sender M_coinswap (Lpt seq) w ;;
  s2 <- burn s1 M_coinswap (Lpt seq) w ;;
  s3 <- send s2 esc sender Std std_w ;;
  s4 <- send s3 esc sender tok tok_w ;;
  Some (s4, (std_w, tok_w)).

(** * Messages *)
Inductive op :=
| Sell (sender : Z) (recipient : acct) (din : denom) (ain : Z) (dout : denom) (min_out : Z) (deadline : Z)
| Buy (sender : Z) (recipient : acct) (din : denom) (max_in : Z) (dout : denom) (aout : Z) (deadline : Z)
| AddLiq (sender : Z) (tok : denom) (max_tok exact_std min_liq deadline : Z)
| RemoveLiq (sender : Z) (lpt : denom) (w min_std min_tok deadline : Z)
| Donate (from : Z) (to : acct) (d : denom) (amt : Z)          (* plain bank transfer by a user *)
| AutoSwap (who : Z) (din : denom) (max_in threshold : Z)       (* onboarding: keeper-level buy of the standard coin *)
| SetParams (p : params)                                        (* governance, already validated *)
| Invalid.                                                      (* a message that fails stateless validation *)

Definition is_lpt (d : denom) : bool := match d with Lpt _ => true | _ => false end.
Definition is_module (a : acct) : bool := match a with Module _ => true | _ => false end.
(* block time (ns) after time.Unix(deadline, 0) *)
Definition expired (now deadline : Z) : bool := deadline * 1000000000 <? now.

(* valid parameter sets (types/params.go): what SetParams may carry *)
Definition params_valid (p : params) : bool :=
  (0 <=? p_fee p) && (p_fee p <? SdkDec.one) &&
  (0 <=? p_tax p) && (p_tax p <? SdkDec.one) &&
  (0 <=? p_cfee_amt p) && (0 <? p_cap p) &&
  forallb (fun e => 0 <? snd e) (p_wl p).

(* response numbers: Sell/Buy: [] ; AddLiq: [minted] ; RemoveLiq: [std; tok] *)
Definition exec (now : Z) (s : state) (o : op) : option (state * list Z) :=
  match o with
  | Sell sender recipient din ain dout min_out deadline =>
      guard (0 <? ain) ;; guard (negb (is_lpt din)) ;;
      guard (0 <? min_out) ;; guard (negb (is_lpt dout)) ;;
      guard (negb (denom_eqb din dout)) ;;
      guard (0 <? deadline) ;; guard (negb (expired now deadline)) ;;
      guard (negb (is_module recipient)) ;;
      guard (denom_eqb din Std || denom_eqb dout Std) ;;
      r <- trade_sell s (User sender) recipient din ain dout min_out ;;
      Some (fst r, [])
  | Buy sender recipient din max_in dout aout deadline =>
      guard (0 <? max_in) ;; guard (negb (is_lpt din)) ;;
      guard (0 <? aout) ;; guard (negb (is_lpt dout)) ;;
      guard (negb (denom_eqb din dout)) ;;
      guard (0 <? deadline) ;; guard (negb (expired now deadline)) ;;
      guard (negb (is_module recipient)) ;;
      guard (denom_eqb din Std || denom_eqb dout Std) ;;
      r <- trade_buy s (User sender) recipient din max_in dout aout ;;
      Some (fst r, [])
  | AddLiq sender tok max_tok exact_std min_liq deadline =>
      guard (0 <? max_tok) ;; guard (negb (is_lpt tok)) ;;
      guard (0 <? exact_std) ;; guard (negb (min_liq <? 0)) ;;
      guard (0 <? deadline) ;; guard (negb (expired now deadline)) ;;
      match tok with
      | Tok n => r <- add_liquidity s (User sender) n max_tok exact_std min_liq ;; Some (fst r, [snd r])
      | _ => None                                    (* MaxToken must not be the standard coin *)
      end
  | RemoveLiq sender lpt w min_std min_tok deadline =>
      guard (negb (min_tok <? 0)) ;; guard (0 <? w) ;; guard (negb (min_std <? 0)) ;;
      guard (0 <? deadline) ;; guard (negb (expired now deadline)) ;;
      match lpt with
      | Lpt seq => r <- remove_liquidity s (User sender) seq w min_std min_tok ;;
                   Some (fst r, [fst (snd r); snd (snd r)])
      | _ => None
      end
  | Donate from to d amt =>
      guard (0 <? amt) ;;
      s' <- send s (User from) to d amt ;; Some (s', [])
  | AutoSwap who din max_in threshold =>
      guard (0 <? threshold) ;;        (* onboarding swaps only when balance < threshold, and sdk.NewCoin rejects negatives *)
      r <- trade_buy s (User who) (User who) din max_in Std threshold ;;
      Some (fst r, [snd r])
  | SetParams p =>
      guard (params_valid p) ;;
      Some (mkState p (st_next s) (st_pools s) (st_bal s) (st_sup s), [])
  | Invalid => None
  end.

(* message atomicity: an error or panic discards the branch *)
Definition deliver (now : Z) (s : state) (o : op) : state * option (list Z) :=
  match exec now s o with
  | Some (s', r) => (s', Some r)
  | None => (s, None)
  end.

(* a history: list of (block time, message) *)
Fixpoint run (h : list (Z * op)) (s : state) : state :=
  match h with
  | [] => s
  | (now, o) :: r => run r (fst (deliver now s o))
  end.
