(** Model of x/inflation driven by x/epochs (properties C05 and C13).

    Mirrors
      /repo/x/inflation/types/inflation_calculation.go  CalculateEpochMintProvision
      /repo/x/inflation/types/params.go                 validate* (as booleans)
      /repo/x/inflation/keeper/hooks.go                 AfterEpochEnd
      /repo/x/inflation/keeper/inflation.go             MintAndAllocateInflation, MintCoins,
                                                        AllocateExponentialInflation, GetProportions,
                                                        BondedRatio
      /repo/x/inflation/genesis.go                      InitGenesis (the provision part)
      /repo/app/app.go                                  inflation is the only listener of x/epochs
    and composes them with the epoch clock of Model/Epochs.v.

    Conventions: every LegacyDec is its raw integer (value * 10^18); integers
    are unbounded Z; a panic (overflow of LegacyDec / Int, division by zero,
    sdk.NewCoin on a negative amount, insufficient funds) is [None] -- inside
    BeginBlocker that is a halted block.  Epoch identifiers are represented by
    their rank in store order as in Model/Epochs.v; [day] is the rank of the
    literal identifier "day" (epochstypes.DayEpochID) that the disabled branch
    of the hook compares with.  The ledger part of the state is the projection
    onto the mint denomination. *)
From Coq Require Import ZArith List Bool.
From Canto Require Import Lib.SdkInt Lib.SdkDec Model.Epochs.
Import ListNotations.
Open Scope Z_scope.

(** * Module params (types/params.go, types/inflation.pb.go) *)

Record exp_calc := mkExp {
  ec_a : Z;        (* A: initial value *)
  ec_r : Z;        (* R: reduction factor *)
  ec_c : Z;        (* C: long term inflation *)
  ec_target : Z;   (* BondingTarget *)
  ec_maxvar : Z    (* MaxVariance *)
}.

Record distr := mkDistr {
  d_staking : Z;   (* StakingRewards *)
  d_community : Z  (* CommunityPool *)
}.

Record params := mkParams {
  p_denom : Z;       (* MintDenom (an opaque tag; the ledger below is that denomination's) *)
  p_exp : exp_calc;
  p_dist : distr;
  p_enable : bool    (* EnableInflation *)
}.

(* validateExponentialCalculation *)
Definition valid_exp (e : exp_calc) : bool :=
  negb (ec_a e <? 0) &&
  negb (SdkDec.one <? ec_r e) && negb (ec_r e <? 0) &&
  negb (ec_c e <? 0) &&
  negb (SdkDec.one <? ec_target e) && (0 <? ec_target e) &&
  negb (ec_maxvar e <? 0).

(* validateInflationDistribution *)
Definition valid_dist (d : distr) : bool :=
  negb (d_staking d <? 0) && negb (d_community d <? 0) &&
  match SdkDec.add (d_staking d) (d_community d) with
  | Some t => t =? SdkDec.one
  | None => false
  end.

(* Params.Validate, the numeric part (the denomination string is not modelled) *)
Definition valid_params (p : params) : bool := valid_exp (p_exp p) && valid_dist (p_dist p).

(* validateEpochsPerPeriod (types/genesis.go) *)
Definition valid_epp (epp : Z) : bool := 0 <? epp.

(** * CalculateEpochMintProvision, operation by operation *)

(* ethermint.PowerReduction = 10^18 *)
Definition power_reduction : Z := 10 ^ 18.

Definition calc_provision (e : exp_calc) (period : N) (epp bonded : Z) : option Z :=
  (* decay := 1 - r *)
  decay <- SdkDec.sub SdkDec.one (ec_r e) ;;
  (* exponentialDecay := a.Mul(decay.Power(x)).Add(c) *)
  pw <- SdkDec.power_chk decay period ;;
  t1 <- SdkDec.mul (ec_a e) pw ;;
  ed <- SdkDec.add t1 (ec_c e) ;;
  (* if bondedRatio.GTE(bTarget) { bondedRatio = bTarget } *)
  let b := if ec_target e <=? bonded then ec_target e else bonded in
  (* sub := bondedRatio.Mul(maxVariance.Quo(bTarget)) *)
  q <- SdkDec.quo (ec_maxvar e) (ec_target e) ;;
  sb <- SdkDec.mul b q ;;
  (* bondingIncentive := 1.Add(maxVariance).Sub(sub) *)
  t2 <- SdkDec.add SdkDec.one (ec_maxvar e) ;;
  inc <- SdkDec.sub t2 sb ;;
  (* periodProvision := exponentialDecay.Mul(bondingIncentive) *)
  pp <- SdkDec.mul ed inc ;;
  (* epochProvision := periodProvision.Quo(LegacyNewDec(epochsPerPeriod)) *)
  ep <- SdkDec.quo pp (SdkDec.of_int epp) ;;
  (* epochProvision.Mul(PowerReduction.ToLegacyDec()) *)
  SdkDec.mul ep (SdkDec.of_int power_reduction).

(* the bonding incentive on its own (same operations), for the statement of its bounds *)
Definition calc_incentive (e : exp_calc) (bonded : Z) : option Z :=
  let b := if ec_target e <=? bonded then ec_target e else bonded in
  q <- SdkDec.quo (ec_maxvar e) (ec_target e) ;;
  sb <- SdkDec.mul b q ;;
  t2 <- SdkDec.add SdkDec.one (ec_maxvar e) ;;
  SdkDec.sub t2 sb.

(** * State *)

Record state := mkState {
  st_params : params;
  st_period : Z;          (* uint64 *)
  st_skipped : Z;         (* uint64 *)
  st_epp : Z;             (* EpochsPerPeriod, int64 *)
  st_ident : Z;           (* EpochIdentifier: rank of the configured identifier *)
  st_provision : Z;       (* EpochMintProvision, LegacyDec raw *)
  (* ledger, mint denomination only *)
  st_fee : Z;             (* fee collector module account *)
  st_module : Z;          (* inflation module account *)
  st_distr : Z;           (* distribution module account *)
  st_pool : Z;            (* FeePool.CommunityPool amount, LegacyDec raw *)
  st_supply : Z           (* bank supply *)
}.

Definition with_params (s : state) (p : params) : state :=
  mkState p (st_period s) (st_skipped s) (st_epp s) (st_ident s) (st_provision s)
          (st_fee s) (st_module s) (st_distr s) (st_pool s) (st_supply s).
Definition with_skipped (s : state) (k : Z) : state :=
  mkState (st_params s) (st_period s) k (st_epp s) (st_ident s) (st_provision s)
          (st_fee s) (st_module s) (st_distr s) (st_pool s) (st_supply s).
Definition with_schedule (s : state) (period prov : Z) : state :=
  mkState (st_params s) period (st_skipped s) (st_epp s) (st_ident s) prov
          (st_fee s) (st_module s) (st_distr s) (st_pool s) (st_supply s).
Definition with_ledger (s : state) (fee module dis pool supply : Z) : state :=
  mkState (st_params s) (st_period s) (st_skipped s) (st_epp s) (st_ident s) (st_provision s)
          fee module dis pool supply.

(* MsgUpdateParams / SetParams: calculation, split and switch; the mint
   denomination is kept (the ledger of this model is that denomination's) *)
Definition set_params (e : exp_calc) (d : distr) (en : bool) (s : state) : state :=
  with_params s (mkParams (p_denom (st_params s)) e d en).

(** * BondedRatio (keeper/inflation.go)

    totalBonded.ToLegacyDec().QuoInt(stakeSupply), zero when the supply of the
    bond denomination is not positive.  The bonded-pool balance is an oracle
    input; the supply of the bond denomination is the model's own supply when
    the bond denomination is the mint denomination ([o_stake_supply = None],
    the configuration of the Canto app: both are acanto), else an oracle
    input too. *)
Record oracle := mkOracle {
  o_bonded : Z;                 (* StakingKeeper.TotalBondedTokens *)
  o_stake_supply : option Z     (* StakingTokenSupply when bond denom <> mint denom *)
}.

Definition bonded_ratio (o : oracle) (s : state) : Z :=
  let sup := match o_stake_supply o with Some x => x | None => st_supply s end in
  if sup <=? 0 then 0 else Z.quot (SdkDec.of_int (o_bonded o)) sup.

(** * MintAndAllocateInflation *)

(* GetProportions: coin.Amount.ToLegacyDec().Mul(distribution).TruncateInt(), then sdk.NewCoin *)
Definition get_proportion (amount share : Z) : option Z :=
  prod <- SdkDec.mul (SdkDec.of_int amount) share ;;
  r <- SdkDec.truncate_int prod ;;
  guard (0 <=? r) ;;          (* sdk.NewCoin panics on a negative amount *)
  Some r.

(* MintCoins (a zero coin is dropped by sdk.NewCoins: nothing to mint), then
   AllocateExponentialInflation: staking share to the fee collector, then the
   WHOLE remaining balance of the module account to the community pool
   (FundCommunityPool: coins to the distribution module account, the pool
   record grows by the same amount). *)
Definition mint_and_allocate (minted : Z) (s : state) : option state :=
  let module1 := st_module s + minted in
  let supply1 := st_supply s + minted in
  stk <- get_proportion minted (d_staking (p_dist (st_params s))) ;;
  guard (stk <=? module1) ;;  (* SendCoinsFromModuleToModule: insufficient funds -> error -> panic *)
  let rest := module1 - stk in
  Some (with_ledger s (st_fee s + stk) 0 (st_distr s + rest)
                    (st_pool s + SdkDec.of_int rest) supply1).

(** * AfterEpochEnd *)

Definition period_passed (n : Z) (s : state) : bool :=
  st_epp s <? n - st_epp s * st_period s - st_skipped s.

Definition after_epoch_end (day : Z) (o : oracle) (id n : Z) (s : state) : option state :=
  if negb (p_enable (st_params s)) then
    (* disabled: only the literal "day" identifier is counted *)
    if negb (id =? day) then Some s
    else Some (with_skipped s (st_skipped s + 1))
  else if negb (id =? st_ident s) then Some s
  else
    (* mintedCoin := sdk.NewCoin(MintDenom, epochMintProvision.TruncateInt()) *)
    minted <- SdkDec.truncate_int (st_provision s) ;;
    guard (0 <=? minted) ;;
    s1 <- mint_and_allocate minted s ;;
    if period_passed n s1 then
      let period' := st_period s1 + 1 in
      (* bondedRatio := k.BondedRatio(ctx), read after the mint *)
      prov <- calc_provision (p_exp (st_params s1)) (Z.to_N period') (st_epp s1) (bonded_ratio o s1) ;;
      Some (with_schedule s1 period' prov)
    else Some s1.

(** * InitGenesis: the stored provision is computed from the imported schedule *)
Definition init_provision (o : oracle) (s : state) : option state :=
  prov <- calc_provision (p_exp (st_params s)) (Z.to_N (st_period s)) (st_epp s) (bonded_ratio o s) ;;
  Some (with_schedule s (st_period s) prov).

(** * Composition with the epoch clock

    x/epochs calls its only listener (app.go) for every call the clock emits;
    BeforeEpochStart is a no-op in x/inflation. *)
Fixpoint run_hooks (day : Z) (o : oracle) (hs : list hook) (s : state) : option state :=
  match hs with
  | [] => Some s
  | AfterEnd id n :: r => s' <- after_epoch_end day o id n s ;; run_hooks day o r s'
  | BeforeStart _ _ :: r => run_hooks day o r s
  end.

(* EpochsKeeper.BeginBlocker of the app *)
Definition block (day : Z) (o : oracle) (t h : Z) (es : list epoch) (s : state)
  : option (list epoch * state) :=
  let '(es', hs) := begin_block t h es in
  s' <- run_hooks day o hs s ;;
  Some (es', s').

(** * Histories: blocks through the clock, interleaved with parameter changes

    The log lists, in order, what the property text says each end-of-epoch
    call has to mint: the integer part of the stored provision, for every call
    of the configured identifier made while inflation is enabled. *)
Definition mint_due (id : Z) (s : state) : bool :=
  p_enable (st_params s) && (id =? st_ident s).
Definition due_amount (id : Z) (s : state) : list Z :=
  if mint_due id s then [Z.quot (st_provision s) SdkDec.S] else [].

Fixpoint run_hooks_log (day : Z) (o : oracle) (hs : list hook) (s : state) : option (state * list Z) :=
  match hs with
  | [] => Some (s, [])
  | AfterEnd id n :: r =>
      match after_epoch_end day o id n s with
      | Some s' =>
          match run_hooks_log day o r s' with
          | Some (s'', l) => Some (s'', due_amount id s ++ l)
          | None => None
          end
      | None => None
      end
  | BeforeStart _ _ :: r => run_hooks_log day o r s
  end.

Inductive op :=
| OBlock (t h : Z) (o : oracle)                        (* EpochsKeeper.BeginBlocker at time t, height h *)
| OParams (e : exp_calc) (d : distr) (en : bool).      (* SetParams: toggling, new split, new calculation *)

Fixpoint run_ops (day : Z) (ops : list op) (es : list epoch) (s : state)
  : option (list epoch * state * list Z) :=
  match ops with
  | [] => Some (es, s, [])
  | OBlock t h o :: r =>
      let '(es1, hs) := begin_block t h es in
      match run_hooks_log day o hs s with
      | Some (s1, l1) =>
          match run_ops day r es1 s1 with
          | Some (es2, s2, l2) => Some (es2, s2, l1 ++ l2)
          | None => None
          end
      | None => None
      end
  | OParams e d en :: r => run_ops day r es (set_params e d en s)
  end.

Fixpoint zsum (l : list Z) : Z := match l with [] => 0 | x :: r => x + zsum r end.
Fixpoint zlen (l : list Z) : Z := match l with [] => 0 | _ :: r => 1 + zlen r end.

(** Boolean equality on the projection, field by field, for the checker *)
Definition exp_eqb (a b : exp_calc) : bool :=
  (ec_a a =? ec_a b) && (ec_r a =? ec_r b) && (ec_c a =? ec_c b) &&
  (ec_target a =? ec_target b) && (ec_maxvar a =? ec_maxvar b).
