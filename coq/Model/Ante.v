(** Model of transaction admission (property C19).

    Mirrors
      /repo/app/ante/ante.go              NewAnteHandler: switch on the type URL of the FIRST extension option
      /repo/app/ante/handler_options.go   the four decorator chains
      /repo/app/app.go                    setAnteHandler: HandlerOptions.DisabledAuthzMsgs
    and, from the ethermint dependency that /repo wires in (github.com/evmos/ethermint, replaced by
    github.com/b-harvest/ethermint v0.22.0-sdk50-1 in /repo/go.mod), app/ante:
      reject_msgs.go   RejectMessagesDecorator
      authz.go         AuthzLimiterDecorator.checkDisabledMsgs (maxNestedMsgs = 6, by-value counter)
      setup.go         EthValidateBasicDecorator: "length of ExtensionOptions should be 1", every message a MsgEthereumTx
      eip712.go        LegacyEip712SigVerificationDecorator/VerifySignature: "expected amount of extension options"
    and the two checks baseapp performs before the ante handler (transaction decoding with
    interface unpacking; "must contain at least one message").

    /repo/app/ante/cosmos/authz.go holds a second copy of the limiter; it is NOT wired and not modelled.

    The nesting counter and depths are [nat] exactly as in the design-round proof (DESIGN.md A.3): they
    count constructors of the message tree, they never hold an amount.

    Part 1 is the design-round development, verbatim.  No proofs in this file. *)
From Coq Require Import List Arith Bool String.
Import ListNotations.
Open Scope string_scope.
Open Scope list_scope.

(** * Part 1 — the authz limiter over message trees (DESIGN.md appendix A.3) *)

Inductive msg := MEth | MVest | MOther | MExec (inner : list msg) | MGrant (disabled : bool).

(* induction principle for the nested inductive *)
Section msg_ind'.
  Variable P : msg -> Prop.
  Hypothesis HEth : P MEth.
  Hypothesis HVest : P MVest.
  Hypothesis HOther : P MOther.
  Hypothesis HGrant : forall d, P (MGrant d).
  Hypothesis HExec : forall l, Forall P l -> P (MExec l).
  Fixpoint msg_ind' (m : msg) : P m :=
    match m with
    | MEth => HEth | MVest => HVest | MOther => HOther | MGrant d => HGrant d
    | MExec l => HExec l ((fix go (l : list msg) : Forall P l :=
         match l with [] => Forall_nil _ | x :: r => Forall_cons _ (msg_ind' x) (go r) end) l)
    end.
End msg_ind'.

Definition limit := 6.

(* checkDisabledMsgs, message by message; returns the updated by-value counter *)
Fixpoint chk (m : msg) (inner : bool) (n : nat) : option nat :=
  match m with
  | MExec l =>
      let n' := S n in
      if (limit <=? n')%nat then None else
      if (fix go (l : list msg) (k : nat) : bool :=
            match l with
            | [] => true
            | x :: r => match chk x true k with Some k' => go r k' | None => false end
            end) l n'
      then Some n' else None
  | MGrant d => if d then None else Some n
  | MEth | MVest => if inner then None else Some n
  | MOther => Some n
  end.
Fixpoint chk_list (l : list msg) (inner : bool) (k : nat) : bool :=
  match l with
  | [] => true
  | x :: r => match chk x inner k with Some k' => chk_list r inner k' | None => false end
  end.
Definition authz_ok (msgs : list msg) : bool := chk_list msgs false 0.

Fixpoint depth (m : msg) : nat :=
  match m with
  | MExec l => S ((fix go (l : list msg) : nat := match l with [] => 0 | x :: r => Nat.max (depth x) (go r) end) l)
  | _ => 0
  end.
Fixpoint depth_list (l : list msg) : nat := match l with [] => 0 | x :: r => Nat.max (depth x) (depth_list r) end.

Fixpoint bad (m : msg) (inner : bool) : bool :=
  match m with
  | MExec l => (fix go (l : list msg) : bool := match l with [] => false | x :: r => bad x true || go r end) l
  | MGrant d => d
  | MEth | MVest => inner
  | MOther => false
  end.
Fixpoint bad_list (l : list msg) (inner : bool) : bool := match l with [] => false | x :: r => bad x inner || bad_list r inner end.

(** * Part 2 — tables read off the source

    Each decorator is written as the extractor (harness/c19_tables.go, tools/antelist) prints it:
    import path of the package, ".", the constructor call or composite literal with its arguments as
    they stand in handler_options.go.  The harness re-extracts these tables from the source tree on
    every run and the checker compares them with the reference copies below. *)

Definition eth_url := "/ethermint.evm.v1.ExtensionOptionsEthereumTx".
Definition web3_url := "/ethermint.types.v1.ExtensionOptionsWeb3Tx".
Definition dynfee_url := "/ethermint.types.v1.ExtensionOptionDynamicFeeTx".

(* decorators with a modelled (structural) meaning *)
Definition d_reject := "github.com/evmos/ethermint/app/ante.RejectMessagesDecorator{}".
Definition d_authz := "github.com/evmos/ethermint/app/ante.NewAuthzLimiterDecorator(options.DisabledAuthzMsgs)".
Definition d_eth_validate_basic := "github.com/evmos/ethermint/app/ante.NewEthValidateBasicDecorator(options.EvmKeeper)".
Definition d_eip712_sig := "github.com/evmos/ethermint/app/ante.NewLegacyEip712SigVerificationDecorator(options.AccountKeeper, options.SignModeHandler)".
(* decorators the theorems name; their behaviour is an oracle *)
Definition d_eth_sig := "github.com/evmos/ethermint/app/ante.NewEthSigVerificationDecorator(options.EvmKeeper)".
Definition d_eth_fee := "github.com/evmos/ethermint/app/ante.NewEthGasConsumeDecorator(options.EvmKeeper, options.MaxTxGasWanted)".
Definition d_eth_account := "github.com/evmos/ethermint/app/ante.NewEthAccountVerificationDecorator(options.AccountKeeper, options.EvmKeeper)".
Definition d_validate_basic := "github.com/cosmos/cosmos-sdk/x/auth/ante.NewValidateBasicDecorator()".
Definition d_deduct_fee := "github.com/cosmos/cosmos-sdk/x/auth/ante.NewDeductFeeDecorator(options.AccountKeeper, options.BankKeeper, options.FeegrantKeeper, nil)".
Definition d_sig := "github.com/cosmos/cosmos-sdk/x/auth/ante.NewSigVerificationDecorator(options.AccountKeeper, options.SignModeHandler)".

Definition ref_eth_chain : list string := [
  "github.com/evmos/ethermint/app/ante.NewEthSetUpContextDecorator(options.EvmKeeper)";
  "github.com/evmos/ethermint/app/ante.NewEthMempoolFeeDecorator(options.EvmKeeper)";
  "github.com/evmos/ethermint/app/ante.NewEthMinGasPriceDecorator(options.FeeMarketKeeper, options.EvmKeeper)";
  d_eth_validate_basic;
  d_eth_sig;
  d_eth_account;
  "github.com/evmos/ethermint/app/ante.NewCanTransferDecorator(options.EvmKeeper)";
  d_eth_fee;
  "github.com/evmos/ethermint/app/ante.NewEthIncrementSenderSequenceDecorator(options.AccountKeeper)";
  "github.com/evmos/ethermint/app/ante.NewGasWantedDecorator(options.EvmKeeper, options.FeeMarketKeeper)";
  "github.com/evmos/ethermint/app/ante.NewEthEmitEventDecorator(options.EvmKeeper)" ].

Definition ref_cosmos_chain : list string := [
  d_reject;
  d_authz;
  "github.com/cosmos/cosmos-sdk/x/auth/ante.NewSetUpContextDecorator()";
  "github.com/cosmos/cosmos-sdk/x/auth/ante.NewExtensionOptionsDecorator(options.ExtensionOptionChecker)";
  d_validate_basic;
  "github.com/evmos/ethermint/app/ante.NewMinGasPriceDecorator(options.FeeMarketKeeper, options.EvmKeeper)";
  "github.com/cosmos/cosmos-sdk/x/auth/ante.NewTxTimeoutHeightDecorator()";
  "github.com/cosmos/cosmos-sdk/x/auth/ante.NewValidateMemoDecorator(options.AccountKeeper)";
  "github.com/cosmos/cosmos-sdk/x/auth/ante.NewConsumeGasForTxSizeDecorator(options.AccountKeeper)";
  d_deduct_fee;
  "github.com/cosmos/cosmos-sdk/x/auth/ante.NewSetPubKeyDecorator(options.AccountKeeper)";
  "github.com/cosmos/cosmos-sdk/x/auth/ante.NewValidateSigCountDecorator(options.AccountKeeper)";
  "github.com/cosmos/cosmos-sdk/x/auth/ante.NewSigGasConsumeDecorator(options.AccountKeeper, options.SigGasConsumer)";
  d_sig;
  "github.com/cosmos/cosmos-sdk/x/auth/ante.NewIncrementSequenceDecorator(options.AccountKeeper)";
  "github.com/cosmos/ibc-go/v8/modules/core/ante.NewRedundantRelayDecorator(options.IBCKeeper)";
  "github.com/evmos/ethermint/app/ante.NewGasWantedDecorator(options.EvmKeeper, options.FeeMarketKeeper)" ].

Definition ref_sim_chain : list string := [
  d_reject;
  d_authz;
  "github.com/cosmos/cosmos-sdk/x/auth/ante.NewSetUpContextDecorator()";
  "github.com/cosmos/cosmos-sdk/x/auth/ante.NewExtensionOptionsDecorator(options.ExtensionOptionChecker)";
  d_validate_basic;
  "github.com/evmos/ethermint/app/ante.NewMinGasPriceDecorator(options.FeeMarketKeeper, options.EvmKeeper)";
  "github.com/cosmos/cosmos-sdk/x/auth/ante.NewTxTimeoutHeightDecorator()";
  "github.com/cosmos/cosmos-sdk/x/auth/ante.NewValidateMemoDecorator(options.AccountKeeper)";
  "github.com/cosmos/cosmos-sdk/x/auth/ante.NewConsumeGasForTxSizeDecorator(options.AccountKeeper)";
  d_deduct_fee;
  "github.com/cosmos/cosmos-sdk/x/auth/ante.NewValidateSigCountDecorator(options.AccountKeeper)";
  "github.com/cosmos/cosmos-sdk/x/auth/ante.NewIncrementSequenceDecorator(options.AccountKeeper)";
  "github.com/cosmos/ibc-go/v8/modules/core/ante.NewRedundantRelayDecorator(options.IBCKeeper)";
  "github.com/evmos/ethermint/app/ante.NewGasWantedDecorator(options.EvmKeeper, options.FeeMarketKeeper)" ].

Definition ref_eip712_chain : list string := [
  d_reject;
  d_authz;
  "github.com/cosmos/cosmos-sdk/x/auth/ante.NewSetUpContextDecorator()";
  d_validate_basic;
  "github.com/evmos/ethermint/app/ante.NewMinGasPriceDecorator(options.FeeMarketKeeper, options.EvmKeeper)";
  "github.com/cosmos/cosmos-sdk/x/auth/ante.NewTxTimeoutHeightDecorator()";
  "github.com/cosmos/cosmos-sdk/x/auth/ante.NewValidateMemoDecorator(options.AccountKeeper)";
  "github.com/cosmos/cosmos-sdk/x/auth/ante.NewConsumeGasForTxSizeDecorator(options.AccountKeeper)";
  d_deduct_fee;
  "github.com/cosmos/cosmos-sdk/x/auth/ante.NewSetPubKeyDecorator(options.AccountKeeper)";
  "github.com/cosmos/cosmos-sdk/x/auth/ante.NewValidateSigCountDecorator(options.AccountKeeper)";
  "github.com/cosmos/cosmos-sdk/x/auth/ante.NewSigGasConsumeDecorator(options.AccountKeeper, options.SigGasConsumer)";
  d_eip712_sig;
  "github.com/cosmos/cosmos-sdk/x/auth/ante.NewIncrementSequenceDecorator(options.AccountKeeper)";
  "github.com/cosmos/ibc-go/v8/modules/core/ante.NewRedundantRelayDecorator(options.IBCKeeper)";
  "github.com/evmos/ethermint/app/ante.NewGasWantedDecorator(options.EvmKeeper, options.FeeMarketKeeper)" ].

(* the chain-building functions of handler_options.go, in file order *)
Definition h_eth := "newEthAnteHandler".
Definition h_cosmos := "newCosmosAnteHandler".
Definition h_sim := "newCosmosSimulationAnteHandler".
Definition h_eip712 := "newCosmosAnteHandlerEip712".
Definition ref_chains : list (string * list string) :=
  [ (h_eth, ref_eth_chain); (h_cosmos, ref_cosmos_chain); (h_sim, ref_sim_chain); (h_eip712, ref_eip712_chain) ].

(* ante.go: what the extension-option switch switches on, and the handler each case assigns *)
Definition ref_switch_on := "typeURL := opts[0].GetTypeUrl(); typeURL".
Definition ref_switch : list (string * string) :=
  [ (eth_url, "newEthAnteHandler(options)"); (web3_url, "newCosmosAnteHandlerEip712(options)") ].
(* handler assigned in the default clause of that switch; "" = no handler, the clause returns an error *)
Definition ref_switch_default := "".
(* the no-option branch (type switch on tx): clause / condition / handler *)
Definition ref_plain : list string :=
  [ "case sdk.Tx | if options.Simulation | newCosmosSimulationAnteHandler(options)";
    "case sdk.Tx | else options.Simulation | newCosmosAnteHandler(options)" ].

(* app.go: DisabledAuthzMsgs, each entry as  import path "." message type *)
Definition m_eth := "github.com/evmos/ethermint/x/evm/types.MsgEthereumTx".
Definition m_vest := "github.com/cosmos/cosmos-sdk/x/auth/vesting/types.MsgCreateVestingAccount".
Definition m_vest_perm := "github.com/cosmos/cosmos-sdk/x/auth/vesting/types.MsgCreatePermanentLockedAccount".
Definition m_vest_periodic := "github.com/cosmos/cosmos-sdk/x/auth/vesting/types.MsgCreatePeriodicVestingAccount".
Definition ref_disabled : list string := [ m_eth; m_vest; m_vest_perm; m_vest_periodic ].

Record tables := mkTables {
  t_chains : list (string * list string);
  t_switch_on : string;
  t_switch : list (string * string);
  t_switch_default : string;
  t_plain : list string;
  t_disabled : list string
}.
Definition ref_tables : tables :=
  mkTables ref_chains ref_switch_on ref_switch ref_switch_default ref_plain ref_disabled.

(** * Part 3 — routing and the gate *)

Record tx := mkTx {
  tx_opts : list string;   (* type URLs of body.extension_options, in order *)
  tx_msgs : list msg       (* the message forest *)
}.

Inductive route := REth | REip712 | RCosmos | RSim.

Definition handler_route (h : string) : option route :=
  if h =? "newEthAnteHandler(options)" then Some REth
  else if h =? "newCosmosAnteHandlerEip712(options)" then Some REip712
  else if h =? "newCosmosAnteHandler(options)" then Some RCosmos
  else if h =? "newCosmosSimulationAnteHandler(options)" then Some RSim
  else None.

Fixpoint lookup (k : string) (l : list (string * string)) : option string :=
  match l with
  | [] => None
  | (k', v) :: r => if k =? k' then Some v else lookup k r
  end.

(* NewAnteHandler: the first option decides; no option = plain Cosmos transaction *)
Definition route_of (sim : bool) (opts : list string) : option route :=
  match opts with
  | [] => Some (if sim then RSim else RCosmos)
  | o :: _ =>
      match lookup o ref_switch with
      | Some h => handler_route h
      | None => handler_route ref_switch_default
      end
  end.

Definition chain_of (r : route) : list string :=
  match r with
  | REth => ref_eth_chain
  | REip712 => ref_eip712_chain
  | RCosmos => ref_cosmos_chain
  | RSim => ref_sim_chain
  end.

Inductive reason :=
| RUndecodable        (* tx decoder: an Any whose type is not registered for its interface *)
| RNoMsgs             (* baseapp validateBasicTxMsgs: empty message list *)
| RUnknownExt         (* the switch's default clause *)
| REthMsgOutside      (* RejectMessagesDecorator *)
| RAuthz              (* AuthzLimiterDecorator *)
| REthOptCount        (* EthValidateBasicDecorator: len(ExtensionOptions) != 1 *)
| REthNonEthMsg       (* EthValidateBasicDecorator: a message that is not MsgEthereumTx *)
| REipOptCount        (* eip712 VerifySignature: len(opts) != 1 *)
| ROracle (d : string). (* any other check of decorator d *)

Inductive verdict := Accept | Reject (r : reason).

Definition is_eth (m : msg) : bool := match m with MEth => true | _ => false end.
Definition has_eth (l : list msg) : bool := existsb is_eth l.   (* top level only, as tx.GetMsgs() *)

Fixpoint has_vest (m : msg) : bool :=
  match m with
  | MVest => true
  | MExec l => (fix go (l : list msg) : bool := match l with [] => false | x :: r => has_vest x || go r end) l
  | _ => false
  end.
Definition has_vest_list (l : list msg) : bool := existsb has_vest l.

Inductive dkind := KReject | KAuthz | KEthValidateBasic | KEip712Sig | KOther.
Definition kind_of (d : string) : dkind :=
  if d =? d_reject then KReject
  else if d =? d_authz then KAuthz
  else if d =? d_eth_validate_basic then KEthValidateBasic
  else if d =? d_eip712_sig then KEip712Sig
  else KOther.

(* one decorator: [None] = calls next.  [orc d t] stands for every check of [d] that is not
   modelled (signatures, fees, gas, sequence, memo, ...): it can only reject. *)
Definition decorate (orc : string -> tx -> bool) (d : string) (t : tx) : option reason :=
  match kind_of d with
  | KReject => if has_eth (tx_msgs t) then Some REthMsgOutside else None
  | KAuthz => if authz_ok (tx_msgs t) then None else Some RAuthz
  | KEthValidateBasic =>
      if negb (Nat.eqb (List.length (tx_opts t)) 1) then Some REthOptCount
      else if negb (forallb is_eth (tx_msgs t)) then Some REthNonEthMsg
      else if orc d t then None else Some (ROracle d)
  | KEip712Sig =>
      if negb (orc d t) then Some (ROracle d)
      else if Nat.eqb (List.length (tx_opts t)) 1 then None else Some REipOptCount
  | KOther => if orc d t then None else Some (ROracle d)
  end.

Fixpoint run_chain (orc : string -> tx -> bool) (ch : list string) (t : tx) : option reason :=
  match ch with
  | [] => None
  | d :: r => match decorate orc d t with Some x => Some x | None => run_chain orc r t end
  end.

Fixpoint mem (s : string) (l : list string) : bool :=
  match l with [] => false | x :: r => (s =? x) || mem s r end.

(* what the run depends on besides the transaction; recorded in every harness case *)
Record env := mkEnv {
  e_sim : bool;                        (* HandlerOptions.Simulation *)
  e_ext_registered : list string;      (* type URLs registered as TxExtensionOptionI in the app's interface registry *)
  e_vest_registered : bool;            (* are the vesting message types registered (decodable) in this app *)
  e_orc : string -> tx -> bool         (* the unmodelled checks of each decorator *)
}.

(* CheckTx / FinalizeBlock admission of one transaction *)
Definition admission (e : env) (t : tx) : verdict :=
  if negb (forallb (fun o => mem o (e_ext_registered e)) (tx_opts t))
     || (negb (e_vest_registered e) && has_vest_list (tx_msgs t))
  then Reject RUndecodable
  else match tx_msgs t with
  | [] => Reject RNoMsgs
  | _ :: _ =>
      match route_of (e_sim e) (tx_opts t) with
      | None => Reject RUnknownExt
      | Some r =>
          match run_chain (e_orc e) (chain_of r) t with
          | Some x => Reject x
          | None => Accept
          end
      end
  end.

(** Boolean equalities used by the correspondence check *)
Fixpoint slist_eqb (a b : list string) : bool :=
  match a, b with
  | [], [] => true
  | x :: r, y :: s => (x =? y) && slist_eqb r s
  | _, _ => false
  end.
Fixpoint chains_eqb (a b : list (string * list string)) : bool :=
  match a, b with
  | [], [] => true
  | (n, l) :: r, (m, k) :: s => (n =? m) && slist_eqb l k && chains_eqb r s
  | _, _ => false
  end.
Fixpoint pairs_eqb (a b : list (string * string)) : bool :=
  match a, b with
  | [], [] => true
  | (n, l) :: r, (m, k) :: s => (n =? m) && (l =? k) && pairs_eqb r s
  | _, _ => false
  end.
