(** Model of the four conversion paths of x/erc20 (property C04).

    Mirrors /repo/x/erc20/keeper/msg_server.go
      ConvertCoin  -> convertCoinNativeCoin  (module-owned pair: escrow coins, mint tokens)
                   -> convertCoinNativeERC20 (external pair: escrow coins, release tokens, burn coins)
      ConvertERC20 -> convertERC20NativeCoin (module-owned pair: burn tokens, release coins)
                   -> convertERC20NativeToken(external pair: take tokens, mint coins, send coins)
    and /repo/x/erc20/keeper/evm.go BalanceOf / CallEVM / CallEVMWithData /
    monitorApprovalEvent, against an ARBITRARY token contract: the EVM is a
    section variable of type [evm_model] whose four calls may do anything.

    What is modelled exactly: the order of balance queries, bank operations and
    EVM calls of each path, every check and what it returns.  What is abstracted:
    MintingEnabled (params / pair enabled / blocked receiver / send-enabled) is
    the oracle boolean [gate] (property C14 owns it); "the contract account still
    has code" is the oracle boolean [has_code]; sdkmath.Int overflow above 2^256
    is not modelled (amounts, balances and supplies are assumed below 2^256; an
    overflow panics, i.e. is a rejected message, which [deliver] treats like any
    other failure).

    [deliver] is message atomicity: baseapp runs a message on a branch of the
    multistore and writes it only when the handler returns no error (and does
    not panic).  Bank balances AND the EVM state live in that multistore.  This
    is cosmos-sdk behaviour; it is MODELLED here (definition of [deliver]), not
    derived from the module code.  The harness executes every conversion through
    the same branch-and-recover discipline and diffs both ledgers around every
    rejected message. *)
From Coq Require Import ZArith List Bool.
Import ListNotations.
Open Scope Z_scope.

(** * Identities *)
Definition account := Z.    (* the 20 address bytes as a number; one number names the bank account and the EVM account *)
Definition contract := Z.

(** * Bank side: the ledger of the pair's denomination *)
Record bank := mkBank { bal : account -> Z; supply : Z }.

Definition upd (f : account -> Z) (a : account) (v : Z) : account -> Z :=
  fun x => if x =? a then v else f x.

(* SendCoins (debit then credit); fails on insufficient funds *)
Definition bank_send (from to : account) (amt : Z) (b : bank) : option bank :=
  if bal b from <? amt then None
  else let f1 := upd (bal b) from (bal b from - amt) in
       Some (mkBank (upd f1 to (f1 to + amt)) (supply b)).

(* MintCoins into the module account *)
Definition bank_mint (m : account) (amt : Z) (b : bank) : option bank :=
  Some (mkBank (upd (bal b) m (bal b m + amt)) (supply b + amt)).

(* BurnCoins from the module account; fails on insufficient funds *)
Definition bank_burn (m : account) (amt : Z) (b : bank) : option bank :=
  if bal b m <? amt then None
  else Some (mkBank (upd (bal b) m (bal b m - amt)) (supply b - amt)).

(** * What an EVM call hands back to the module *)

(* res.Ret of transfer(address,uint256) after abi unpacking into a bool *)
Inductive retval :=
| RetTrue      (* 32-byte word 1 *)
| RetFalse     (* 32-byte word 0 *)
| RetBad.      (* empty, shorter than a word, or not a boolean word: UnpackIntoInterface fails *)

(* a log entry, as far as monitorApprovalEvent looks at it *)
Inductive log :=
| LogNoTopics   (* Topics is empty: log.Topics[0] panics *)
| LogApproval   (* Topics[0] = keccak("Approval(address,address,uint256)") *)
| LogOther.     (* any other first topic *)

Definition reply (evm : Type) := option (evm * retval * list log).
(* None: ApplyMessage/EstimateGas returned an error, the account lookup failed,
   or the VM reported a failure (res.Failed()) — CallEVMWithData returns an error *)

Record evm_model := mkEvm {
  evm : Type;
  (* BalanceOf(contract, account): a non-committing call; None = error, VM
     failure, empty or unparsable return data (Go: nil) *)
  call_balance_of : evm -> contract -> account -> option Z;
  (* committing calls; the module is the caller of mint, burnCoins and of the
     releasing transfer, the converting user is the caller of the escrowing transfer *)
  call_mint : evm -> contract -> account -> Z -> reply evm;                 (* mint(to, amt) *)
  call_burn : evm -> contract -> account -> Z -> reply evm;                 (* burnCoins(from, amt) *)
  call_transfer : evm -> contract -> account -> account -> Z -> reply evm   (* caller, transfer(to, amt) *)
}.

(* monitorApprovalEvent: scans the logs in order *)
Inductive scan := ScanClean | ScanApproval | ScanPanic.
Fixpoint monitor (ls : list log) : scan :=
  match ls with
  | [] => ScanClean
  | LogNoTopics :: _ => ScanPanic
  | LogApproval :: _ => ScanApproval
  | LogOther :: r => monitor r
  end.

Inductive err :=
| EAmount          (* non-positive amount *)
| EGate            (* MintingEnabled / message validation refused *)
| EBalanceQuery    (* "failed to retrieve balance" *)
| EBank            (* a bank operation failed *)
| EEvm             (* the committing EVM call failed *)
| EUnpack          (* return data does not unpack into a bool *)
| EFalse           (* transfer returned false *)
| ETokenMismatch   (* balance invariance, token side *)
| ECoinMismatch    (* balance invariance, coin side *)
| EApproval        (* unexpected Approval event *)
| EPanic.          (* index out of range on a log without topics *)

Section Paths.
  Variable E : evm_model.      (* arbitrary: no assumption anywhere in this section *)
  Variable M : account.        (* the erc20 module account (types.ModuleAddress) *)

  Definition state := (bank * evm E)%type.

  (* what a path function leaves behind at keeper level: on failure the bank
     operations already performed stay in place ([partial]); only the message
     branch ([deliver]) undoes them *)
  Inductive result :=
  | Ok (s : state)
  | Err (e : err) (partial : bank).

  (** convertCoinNativeCoin: module-owned pair, coins -> tokens *)
  Definition convert_coin_native_coin (c : contract) (sender receiver : account) (amt : Z)
             (s : state) : result :=
    let '(b, e) := s in
    match call_balance_of E e c receiver with
    | None => Err EBalanceQuery b
    | Some t0 =>
      match bank_send sender M amt b with              (* escrow *)
      | None => Err EBank b
      | Some b1 =>
        match call_mint E e c receiver amt with        (* return data and logs are not looked at *)
        | None => Err EEvm b1
        | Some (e1, _, _) =>
          match call_balance_of E e1 c receiver with
          | None => Err EBalanceQuery b1
          | Some t1 =>
            if t1 =? t0 + amt then Ok (b1, e1) else Err ETokenMismatch b1
          end
        end
      end
    end.

  (** convertERC20NativeCoin: module-owned pair, tokens -> coins *)
  Definition convert_erc20_native_coin (c : contract) (sender receiver : account) (amt : Z)
             (s : state) : result :=
    let '(b, e) := s in
    let c0 := bal b receiver in
    match call_balance_of E e c sender with
    | None => Err EBalanceQuery b
    | Some t0 =>
      match call_burn E e c sender amt with            (* return data and logs are not looked at *)
      | None => Err EEvm b
      | Some (e1, _, _) =>
        match bank_send M receiver amt b with          (* unescrow *)
        | None => Err EBank b
        | Some b1 =>
          if negb (bal b1 receiver =? c0 + amt) then Err ECoinMismatch b1
          else
            match call_balance_of E e1 c sender with
            | None => Err EBalanceQuery b1
            | Some t1 =>
              if t1 =? t0 - amt then Ok (b1, e1) else Err ETokenMismatch b1
            end
        end
      end
    end.

  (** convertERC20NativeToken: external pair, tokens -> coins *)
  Definition convert_erc20_native_erc20 (c : contract) (sender receiver : account) (amt : Z)
             (s : state) : result :=
    let '(b, e) := s in
    let c0 := bal b receiver in
    match call_balance_of E e c M with
    | None => Err EBalanceQuery b
    | Some t0 =>
      match call_transfer E e c sender M amt with      (* the user escrows tokens on the module *)
      | None => Err EEvm b
      | Some (e1, r, logs) =>
        match r with
        | RetBad => Err EUnpack b
        | RetFalse => Err EFalse b
        | RetTrue =>
          match call_balance_of E e1 c M with
          | None => Err EBalanceQuery b
          | Some t1 =>
            if negb (t1 =? t0 + amt) then Err ETokenMismatch b
            else
              match bank_mint M amt b with
              | None => Err EBank b
              | Some b1 =>
                match bank_send M receiver amt b1 with
                | None => Err EBank b1
                | Some b2 =>
                  if negb (bal b2 receiver =? c0 + amt) then Err ECoinMismatch b2
                  else
                    match monitor logs with
                    | ScanApproval => Err EApproval b2
                    | ScanPanic => Err EPanic b2
                    | ScanClean => Ok (b2, e1)
                    end
                end
              end
          end
        end
      end
    end.

  (** convertCoinNativeERC20: external pair, coins -> tokens *)
  Definition convert_coin_native_erc20 (c : contract) (sender receiver : account) (amt : Z)
             (s : state) : result :=
    let '(b, e) := s in
    match call_balance_of E e c receiver with
    | None => Err EBalanceQuery b
    | Some t0 =>
      match bank_send sender M amt b with              (* escrow coins *)
      | None => Err EBank b
      | Some b1 =>
        match call_transfer E e c M receiver amt with  (* the module releases tokens *)
        | None => Err EEvm b1
        | Some (e1, r, logs) =>
          match r with
          | RetBad => Err EUnpack b1
          | RetFalse => Err EFalse b1
          | RetTrue =>
            match call_balance_of E e1 c receiver with
            | None => Err EBalanceQuery b1
            | Some t1 =>
              if negb (t1 =? t0 + amt) then Err ETokenMismatch b1
              else
                match bank_burn M amt b1 with
                | None => Err EBank b1
                | Some b2 =>
                  match monitor logs with
                  | ScanApproval => Err EApproval b2
                  | ScanPanic => Err EPanic b2
                  | ScanClean => Ok (b2, e1)
                  end
                end
            end
          end
        end
      end
    end.

  (** * The two messages *)
  Inductive pair_kind := NativeCoin | NativeERC20.   (* OWNER_MODULE | OWNER_EXTERNAL *)
  Inductive direction := CoinToToken | TokenToCoin.  (* MsgConvertCoin | MsgConvertERC20 *)

  Record msg := mkMsg {
    m_dir : direction;
    m_kind : pair_kind;
    m_gate : bool;        (* oracle: validation + MintingEnabled pass *)
    m_has_code : bool;    (* oracle: the contract account exists and has code *)
    m_contract : contract;
    m_sender : account;
    m_receiver : account;
    m_amt : Z
  }.

  Definition path (m : msg) : state -> result :=
    match m_dir m, m_kind m with
    | CoinToToken, NativeCoin => convert_coin_native_coin (m_contract m) (m_sender m) (m_receiver m) (m_amt m)
    | CoinToToken, NativeERC20 => convert_coin_native_erc20 (m_contract m) (m_sender m) (m_receiver m) (m_amt m)
    | TokenToCoin, NativeCoin => convert_erc20_native_coin (m_contract m) (m_sender m) (m_receiver m) (m_amt m)
    | TokenToCoin, NativeERC20 => convert_erc20_native_erc20 (m_contract m) (m_sender m) (m_receiver m) (m_amt m)
    end.

  (* handler outcome: [Removed] is the `return nil, nil` branch that deletes the
     pair of a self-destructed contract and converts nothing *)
  Inductive outcome :=
  | Done (s : state)
  | Removed
  | Failed (e : err) (partial : bank).

  Definition exec (m : msg) (s : state) : outcome :=
    if m_amt m <=? 0 then Failed EAmount (fst s)
    else if negb (m_gate m) then Failed EGate (fst s)
    else if negb (m_has_code m) then Removed
    else match path m s with
         | Ok s' => Done s'
         | Err e p => Failed e p
         end.

  (** The denomination a MsgConvertCoin names.

      [exec] is the handler for a message that names the pair's OWN denomination
      (MsgConvertERC20 names none: the handler uses pair.Denom).  The handler
      finds the pair through GetTokenPairID, which also accepts a contract
      address written as 40 hex digits without 0x - and such a string is a
      syntactically valid bank denomination when its first digit is a-f.  For a
      MsgConvertCoin spelled that way the pair is found BY ADDRESS.  The handler
      then compares the coin's denomination with pair.Denom and refuses the
      message when they differ (guard added by the repair of finding F6; before
      it the path ran on with `sdk.Coins{msg.Coin}`, escrowing the look-alike
      coin and handing out the pair's tokens).  The guard sits directly after
      MintingEnabled and before the self-destruct pruning: nothing has moved and
      the pair is not removed.  [other] is the ledger of the look-alike
      denomination. *)
  Definition exec_named (own_denom : bool) (m : msg) (other : bank) (s : state) : outcome * bank :=
    match m_dir m, own_denom with
    | CoinToToken, false => (Failed EGate (fst s), other)
    | _, _ => (exec m s, other)
    end.

  Inductive class := COk | CRejected | CRemoved.

  (** message atomicity (baseapp; modelled) *)
  Definition deliver (m : msg) (s : state) : state * class :=
    match exec m s with
    | Done s' => (s', COk)
    | Removed => (s, CRemoved)
    | Failed _ _ => (s, CRejected)
    end.
End Paths.

Arguments Ok {E} s.
Arguments Err {E} e partial.
Arguments Done {E} s.
Arguments Removed {E}.
Arguments Failed {E} e partial.

(** * The honest contract: ERC20MinterBurnerDecimals as an abstract ledger

    balances + totalSupply; [mint]/[burnCoins] only for the holder of the
    minter/burner role (the deployer: the module for module-owned pairs);
    [transfer] by the holder; OpenZeppelin's zero-address guards and the pause
    switch.  Every successful transfer returns true and logs one Transfer event
    (a log with topics that is not an Approval). *)
Record hledger := mkH {
  tbal : account -> Z;
  total : Z;
  h_owner : account;     (* holder of MINTER_ROLE / BURNER_ROLE *)
  h_paused : bool
}.

Definition h_balance_of (h : hledger) (_ : contract) (a : account) : option Z := Some (tbal h a).

Definition h_mint_as (caller : account) (h : hledger) (to : account) (amt : Z) : reply hledger :=
  if negb (caller =? h_owner h) || (to =? 0) || h_paused h then None
  else Some (mkH (upd (tbal h) to (tbal h to + amt)) (total h + amt) (h_owner h) (h_paused h), RetBad, [LogOther]).
  (* mint has no return value: the return data is empty *)

Definition h_burn_as (caller : account) (h : hledger) (from : account) (amt : Z) : reply hledger :=
  if negb (caller =? h_owner h) || (from =? 0) || h_paused h || (tbal h from <? amt) then None
  else Some (mkH (upd (tbal h) from (tbal h from - amt)) (total h - amt) (h_owner h) (h_paused h), RetBad, [LogOther]).

Definition h_transfer (h : hledger) (caller to : account) (amt : Z) : reply hledger :=
  if (caller =? 0) || (to =? 0) || h_paused h || (tbal h caller <? amt) then None
  else let f1 := upd (tbal h) caller (tbal h caller - amt) in
       Some (mkH (upd f1 to (f1 to + amt)) (total h) (h_owner h) (h_paused h), RetTrue, [LogOther]).

(* the module [m] is the caller of mint and burnCoins *)
Definition honest (m : account) : evm_model :=
  mkEvm hledger h_balance_of
        (fun h _ to amt => h_mint_as m h to amt)
        (fun h _ from amt => h_burn_as m h from amt)
        (fun h _ caller to amt => h_transfer h caller to amt).

(** * A scripted contract: answers fixed in advance (used by the correspondence
      checker and by the non-vacuity examples).  The state is the number of
      committing calls made so far; a call whose arguments differ from the
      expected ones fails. *)
Record script := mkScript {
  q0_who : account; q0_ans : option Z;                      (* balance query before *)
  call_kind : Z;                                            (* 0 mint, 1 burnCoins, 2 transfer *)
  call_from : account; call_acct : account; call_amt : Z;   (* caller, address argument, amount *)
  call_ans : option (retval * list log);
  q1_who : account; q1_ans : option Z                       (* balance query after *)
}.

Definition scripted_reply (sc : script) (ph : Z) (k : Z) (from acct : account) (amt : Z) : reply Z :=
  if (ph =? 0) && (call_kind sc =? k) && (call_from sc =? from) && (call_acct sc =? acct) && (call_amt sc =? amt) then
    match call_ans sc with
    | Some (r, l) => Some (ph + 1, r, l)
    | None => None
    end
  else None.

Definition scripted (m : account) (sc : script) : evm_model :=
  mkEvm Z
        (fun ph _ a =>
           if ph =? 0 then (if a =? q0_who sc then q0_ans sc else None)
           else (if a =? q1_who sc then q1_ans sc else None))
        (fun ph _ to amt => scripted_reply sc ph 0 m to amt)
        (fun ph _ from amt => scripted_reply sc ph 1 m from amt)
        (fun ph _ caller to amt => scripted_reply sc ph 2 caller to amt).
