(** Proofs about the govshuttle model (property C20). *)
From Coq Require Import ZArith List Bool Lia.
From Canto Require Import Lib.SdkInt Model.Govshuttle.
Import ListNotations.
Open Scope Z_scope.

Definition is_byte (x : Z) : Prop := 0 <= x < 256.

(** * Small facts about the list helpers *)

Lemma bytes_eqb_refl a : bytes_eqb a a = true.
Proof. induction a as [|x r IH]; cbn [bytes_eqb]; [reflexivity|]. rewrite Z.eqb_refl, IH. reflexivity. Qed.

Lemma bytes_eqb_eq a : forall b, bytes_eqb a b = true <-> a = b.
Proof.
  induction a as [|x r IH]; intros [|y s]; cbn [bytes_eqb]; split; intros H; try reflexivity; try discriminate.
  - apply andb_prop in H as [H1 H2]. apply Z.eqb_eq in H1. apply IH in H2. congruence.
  - inversion H; subst. rewrite Z.eqb_refl. cbn [andb]. apply IH. reflexivity.
Qed.

Lemma same_length_iff {A B} (a : list A) : forall b : list B, same_length a b = true <-> length a = length b.
Proof.
  induction a as [|x r IH]; intros [|y s]; cbn [same_length length]; split; intros H; try reflexivity; try discriminate.
  - f_equal. apply IH. exact H.
  - apply IH. congruence.
Qed.

Lemma zlen_nonneg {A} (l : list A) : 0 <= zlen l.
Proof. induction l as [|x r IH]; cbn [zlen]; lia. Qed.

(* induction two elements at a time *)
Lemma pair_ind {A} (P : list A -> Prop) :
  P [] -> (forall x, P [x]) -> (forall x y r, P r -> P (x :: y :: r)) -> forall l, P l.
Proof.
  intros H0 H1 H2.
  assert (G : forall l, P l /\ forall x, P (x :: l)).
  { induction l as [|y r [IHa IHb]]; split; auto. }
  intros l. apply G.
Qed.

(** * Hex *)

Lemma hexval_hexdigit d : 0 <= d < 16 -> hexval (hexdigit d) = Some d.
Proof.
  intros H. unfold hexdigit, hexval.
  destruct (d <? 10) eqn:E.
  - apply Z.ltb_lt in E.
    assert (A : (48 <=? 48 + d) && (48 + d <=? 57) = true)
      by (apply andb_true_intro; split; apply Z.leb_le; lia).
    rewrite A. f_equal. lia.
  - apply Z.ltb_ge in E.
    assert (A : (48 <=? 87 + d) && (87 + d <=? 57) = false)
      by (apply andb_false_intro2; apply Z.leb_gt; lia).
    assert (A2 : (97 <=? 87 + d) && (87 + d <=? 102) = true)
      by (apply andb_true_intro; split; apply Z.leb_le; lia).
    rewrite A, A2. f_equal. lia.
Qed.

(* every accepted character denotes a nibble, and re-encoding the nibble gives the lower-case character *)
Lemma hexval_inv p a : hexval p = Some a -> 0 <= a < 16 /\ hexdigit a = lower_byte p.
Proof.
  unfold hexval, hexdigit, lower_byte. intros H.
  destruct ((48 <=? p) && (p <=? 57)) eqn:E1.
  - apply andb_prop in E1 as [X Y]. apply Z.leb_le in X. apply Z.leb_le in Y.
    inversion H; subst a. split; [lia|].
    assert (L : (p - 48 <? 10) = true) by (apply Z.ltb_lt; lia). rewrite L.
    assert (U : (65 <=? p) && (p <=? 90) = false) by (apply andb_false_intro1; apply Z.leb_gt; lia).
    rewrite U. lia.
  - destruct ((97 <=? p) && (p <=? 102)) eqn:E2.
    + apply andb_prop in E2 as [X Y]. apply Z.leb_le in X. apply Z.leb_le in Y.
      inversion H; subst a. split; [lia|].
      assert (L : (p - 87 <? 10) = false) by (apply Z.ltb_ge; lia). rewrite L.
      assert (U : (65 <=? p) && (p <=? 90) = false) by (apply andb_false_intro2; apply Z.leb_gt; lia).
      rewrite U. lia.
    + destruct ((65 <=? p) && (p <=? 70)) eqn:E3; [|discriminate].
      apply andb_prop in E3 as [X Y]. apply Z.leb_le in X. apply Z.leb_le in Y.
      inversion H; subst a. split; [lia|].
      assert (L : (p - 55 <? 10) = false) by (apply Z.ltb_ge; lia). rewrite L.
      assert (U : (65 <=? p) && (p <=? 90) = true) by (apply andb_true_intro; split; apply Z.leb_le; lia).
      rewrite U. lia.
Qed.

Lemma nibbles x : is_byte x -> 0 <= x / 16 < 16 /\ 0 <= x mod 16 < 16 /\ 16 * (x / 16) + x mod 16 = x.
Proof.
  intros H. unfold is_byte in H.
  pose proof (Z.div_mod x 16 ltac:(lia)) as D.
  pose proof (Z.mod_pos_bound x 16 ltac:(lia)) as M.
  assert (L : 0 <= x / 16) by (apply Z.div_pos; lia).
  assert (U : x / 16 < 16) by (apply Z.div_lt_upper_bound; lia).
  lia.
Qed.

(* hex2bytes (bytes2hex b) = b for every byte string *)
Theorem hex_round_trip b : Forall is_byte b -> hex2bytes (bytes2hex b) = b.
Proof.
  induction 1 as [|x r Hx _ IH]; cbn [bytes2hex hex2bytes]; [reflexivity|].
  destruct (nibbles x Hx) as (A & B & C).
  rewrite (hexval_hexdigit _ A), (hexval_hexdigit _ B), IH, C. reflexivity.
Qed.

(* a string is well-formed hex exactly when Hex2Bytes consumes all of it *)
Theorem wf_hex_iff s : wf_hex s = true <-> 2 * zlen (hex2bytes s) = zlen s.
Proof.
  induction s as [|x|p q r IH] using pair_ind; cbn [wf_hex hex2bytes zlen].
  - split; [lia|reflexivity].
  - split; [discriminate|lia].
  - pose proof (zlen_nonneg r) as NN.
    destruct (hexval p) as [a|]; [destruct (hexval q) as [b|]|]; cbn [zlen].
    + rewrite IH. lia.
    + split; [discriminate|lia].
    + split; [discriminate|lia].
Qed.

(* never more bytes than pairs of characters: anything after the first bad character is lost *)
Lemma hex2bytes_short s : 2 * zlen (hex2bytes s) <= zlen s.
Proof.
  induction s as [|x|p q r IH] using pair_ind; cbn [hex2bytes zlen]; try lia.
  pose proof (zlen_nonneg r) as NN.
  destruct (hexval p) as [a|]; [destruct (hexval q) as [b|]|]; cbn [zlen]; lia.
Qed.

Lemma hex2bytes_bytes s : Forall is_byte (hex2bytes s).
Proof.
  induction s as [|x|p q r IH] using pair_ind; cbn [hex2bytes]; try constructor.
  destruct (hexval p) as [a|] eqn:Ea; [destruct (hexval q) as [b|] eqn:Eb|]; try constructor; [|exact IH].
  destruct (hexval_inv _ _ Ea) as [A _]. destruct (hexval_inv _ _ Eb) as [B _]. unfold is_byte. lia.
Qed.

(* on a well-formed string Hex2Bytes is the exact inverse of Bytes2Hex up to letter case *)
Theorem wf_hex_decodes s : wf_hex s = true -> bytes2hex (hex2bytes s) = map lower_byte s.
Proof.
  induction s as [|x|p q r IH] using pair_ind; cbn [wf_hex hex2bytes bytes2hex map]; intros H.
  - reflexivity.
  - discriminate.
  - destruct (hexval p) as [a|] eqn:Ea; [destruct (hexval q) as [b|] eqn:Eb|]; try discriminate.
    destruct (hexval_inv _ _ Ea) as [A A']. destruct (hexval_inv _ _ Eb) as [B B'].
    cbn [bytes2hex].
    assert (D : (16 * a + b) / 16 = a) by (symmetry; apply (Z.div_unique _ 16 a b); lia).
    assert (M : (16 * a + b) mod 16 = b) by (symmetry; apply (Z.mod_unique _ 16 a b); lia).
    rewrite D, M, A', B', (IH H). reflexivity.
Qed.

(* a 0x / 0X prefix is not hex for Hex2Bytes: the whole call data becomes empty *)
Theorem hex2bytes_0x s : hex2bytes (48 :: 120 :: s) = [] /\ hex2bytes (48 :: 88 :: s) = [].
Proof. split; reflexivity. Qed.

Lemma wf_hex_bytes2hex b : Forall is_byte b -> wf_hex (bytes2hex b) = true.
Proof.
  induction 1 as [|x r Hx _ IH]; cbn [bytes2hex wf_hex]; [reflexivity|].
  destruct (nibbles x Hx) as (A & B & _).
  rewrite (hexval_hexdigit _ A), (hexval_hexdigit _ B). exact IH.
Qed.

(** * Addresses *)

Lemma fold_be_bounds b : Forall is_byte b -> forall acc, 0 <= acc ->
  acc * 256 ^ zlen b <= fold_left (fun a x => a * 256 + x) b acc < (acc + 1) * 256 ^ zlen b.
Proof.
  induction 1 as [|x r Hx _ IH]; intros acc Ha; cbn [fold_left zlen].
  - rewrite Z.pow_0_r. lia.
  - pose proof (zlen_nonneg r) as NN. unfold is_byte in Hx.
    rewrite Z.pow_add_r by lia. rewrite Z.pow_1_r.
    specialize (IH (acc * 256 + x) ltac:(lia)).
    assert (P : 0 < 256 ^ zlen r) by (apply Z.pow_pos_nonneg; lia).
    nia.
Qed.

Lemma be_value_bound b : Forall is_byte b -> 0 <= be_value b < 256 ^ zlen b.
Proof. intros H. pose proof (fold_be_bounds b H 0 ltac:(lia)) as X. unfold be_value. lia. Qed.

Lemma even_length_bytes2hex b : even_length (bytes2hex b) = true.
Proof. induction b as [|x r IH]; cbn [bytes2hex even_length]; auto. Qed.

Lemma hexdigit_not_x d : 0 <= d < 16 -> hexdigit d <> 120 /\ hexdigit d <> 88.
Proof. intros H. unfold hexdigit. destruct (d <? 10) eqn:E; [apply Z.ltb_lt in E|apply Z.ltb_ge in E]; lia. Qed.

Lemma has0x_bytes2hex b : Forall is_byte b -> has0x (bytes2hex b) = false.
Proof.
  intros H. destruct H as [|x r Hx _]; cbn [bytes2hex has0x]; [reflexivity|].
  destruct (nibbles x Hx) as (_ & B & _). destruct (hexdigit_not_x _ B) as [N1 N2].
  apply andb_false_intro2. apply orb_false_intro; apply Z.eqb_neq; assumption.
Qed.

(* a 20-byte address written as 40 hex digits, with or without 0x, is stored as that address *)
Theorem hex_to_address_wf b :
  Forall is_byte b -> zlen b = 20 ->
  hex_to_address (bytes2hex b) = be_value b /\
  hex_to_address (48 :: 120 :: bytes2hex b) = be_value b.
Proof.
  intros Hb Hl.
  assert (R : be_value b mod 2 ^ 160 = be_value b).
  { apply Z.mod_small. pose proof (be_value_bound b Hb) as X. rewrite Hl in X.
    replace (2 ^ 160) with (256 ^ 20) by reflexivity. exact X. }
  split; unfold hex_to_address, from_hex.
  - rewrite (has0x_bytes2hex b Hb), even_length_bytes2hex, (hex_round_trip b Hb). exact R.
  - cbn [has0x]. rewrite !Z.eqb_refl. cbn [andb orb].
    rewrite even_length_bytes2hex, (hex_round_trip b Hb). exact R.
Qed.

(** * The module *)

(* the store at the port address was deployed by the module account *)
Definition wf (c : cfg) (st : gstate) : Prop :=
  forall a, g_port st = Some a -> ps_owner (g_store st) = cfg_mod c.

Definition op_proposal (x : op) : proposal :=
  match x with
  | Lending m => lending_proposal m
  | Treasury m => lending_proposal (treasury_to_lending m)
  end.

Definition write (p : proposal) (f : Z -> proposal) : Z -> proposal :=
  fun i => if i =? p_id p then p else f i.

(* the state a successful append produces *)
Definition stored (c : cfg) (o : oracle) (p : proposal) (st : gstate) : gstate :=
  let p' := set_id p (effective_id o (p_id p)) in
  match g_port st with
  | Some a => mkG (Some a) (mkStore (ps_owner (g_store st)) (write p' (ps_props (g_store st))))
  | None => mkG (Some (o_fresh o)) (mkStore (cfg_mod c) (write p' (write p' (fun _ => empty_prop))))
  end.

Lemma append_spec c o p st : wf c st -> append_proposal c o p st = Some (stored c o p st).
Proof.
  intros W. unfold append_proposal, stored, ps_add, ps_deploy, obind.
  destruct (g_port st) as [a|] eqn:Ep.
  - rewrite (W a Ep), Z.eqb_refl. reflexivity.
  - cbn [ps_owner ps_props]. rewrite Z.eqb_refl. reflexivity.
Qed.

Lemma exec_valid c o x st :
  exec c o x st = if valid_op c x then append_proposal c o (op_proposal x) st else None.
Proof.
  destruct x as [m|m]; cbn [exec valid_op op_proposal];
    unfold exec_lending, valid_lending, exec_treasury, valid_treasury.
  - destruct (bytes_eqb (cfg_gov c) (lm_auth m)); cbn [andb]; [|reflexivity].
    destruct (same_length (lm_calldatas m) (lm_values m)); cbn [andb]; [|reflexivity].
    destruct (same_length (lm_values m) (lm_sigs m)); cbn [andb]; [|reflexivity].
    destruct (lm_has_meta m); reflexivity.
  - destruct (bytes_eqb (cfg_gov c) (tm_auth m)); cbn [andb]; [|reflexivity].
    destruct (supported_denom (tm_denom m)); reflexivity.
Qed.

Lemma expected_is_set_id o x :
  set_id (op_proposal x) (effective_id o (p_id (op_proposal x))) = expected_record o x.
Proof. destruct x as [m|m]; reflexivity. Qed.

Lemma expected_id o x : p_id (expected_record o x) = op_id o x.
Proof. destruct x as [m|m]; reflexivity. Qed.

Lemma exec_spec c o x st st' :
  wf c st -> exec c o x st = Some st' ->
  valid_op c x = true /\ st' = stored c o (op_proposal x) st.
Proof.
  intros W E. rewrite exec_valid in E. destruct (valid_op c x); [|discriminate].
  rewrite (append_spec c o _ st W) in E. inversion E. auto.
Qed.

(* accepted exactly when the authority is governance and the contents pass validation *)
Theorem accepted_iff c o x st :
  wf c st -> (fst (step c o x st) = true <-> valid_op c x = true).
Proof.
  intros W. unfold step. rewrite exec_valid.
  destruct (valid_op c x).
  - rewrite (append_spec c o _ st W). cbn [fst]. tauto.
  - cbn [fst]. split; discriminate.
Qed.

(* Ok -> the store returns, under the effective id, exactly the submitted contents *)
Theorem recorded c o x st st' :
  wf c st -> exec c o x st = Some st' ->
  g_query st' (op_id o x) = expected_record o x.
Proof.
  intros W E. destruct (exec_spec c o x st st' W E) as [_ ->].
  unfold stored. rewrite expected_is_set_id.
  pose proof (expected_id o x) as I.
  destruct (g_port st) as [a|]; unfold g_query, ps_query, write; cbn [g_port g_store ps_props];
    rewrite I, !Z.eqb_refl, I, Z.eqb_refl; reflexivity.
Qed.

(* records under every other id are exactly what they were *)
Theorem others_kept c o x st st' :
  wf c st -> exec c o x st = Some st' ->
  forall j, j <> op_id o x -> g_query st' j = g_query st j.
Proof.
  intros W E j Hj. destruct (exec_spec c o x st st' W E) as [_ ->].
  unfold stored. rewrite expected_is_set_id.
  pose proof (expected_id o x) as I.
  assert (N : (j =? op_id o x) = false) by (apply Z.eqb_neq; exact Hj).
  destruct (g_port st) as [a|] eqn:Ep; unfold g_query, ps_query, write; rewrite ?Ep;
    cbn [g_port g_store ps_props]; rewrite I, N.
  - reflexivity.
  - cbn [p_id empty_prop]. destruct (0 =? j); reflexivity.
Qed.

Lemma wf_init c st : g_port st = None -> wf c st.
Proof. intros H a Ha. congruence. Qed.

Lemma wf_step c o x st : wf c st -> wf c (snd (step c o x st)).
Proof.
  intros W. unfold step. destruct (exec c o x st) as [st'|] eqn:E; cbn [snd]; [|exact W].
  destruct (exec_spec c o x st st' W E) as [_ ->].
  unfold stored. destruct (g_port st) as [a|] eqn:Ep; intros b Hb; cbn [g_store ps_owner].
  - exact (W a Ep).
  - reflexivity.
Qed.

Lemma wf_run c h : forall st, wf c st -> wf c (run c h st).
Proof.
  induction h as [|[o x] r IH]; intros st W; cbn [run]; [exact W|].
  apply IH. apply wf_step. exact W.
Qed.

Lemma rejected_unchanged c o x st : fst (step c o x st) = false -> snd (step c o x st) = st.
Proof. unfold step. destruct (exec c o x st); cbn [fst snd]; [discriminate|reflexivity]. Qed.

(* the store is deployed by the first accepted proposal, at the address the chain derives *)
Theorem port_set_first c o x st st' :
  g_port st = None -> exec c o x st = Some st' -> g_port st' = Some (o_fresh o).
Proof.
  intros Hp E. destruct (exec_spec c o x st st' (wf_init c st Hp) E) as [_ ->].
  unfold stored. rewrite Hp. reflexivity.
Qed.

Lemma port_stable_step c o x st a :
  g_port st = Some a -> g_port (snd (step c o x st)) = Some a.
Proof.
  intros Hp. unfold step. destruct (exec c o x st) as [st'|] eqn:E; cbn [snd]; [|exact Hp].
  rewrite exec_valid in E. destruct (valid_op c x); [|discriminate].
  unfold append_proposal in E. rewrite Hp in E.
  destruct (ps_add _ _ _); cbn [obind] in E; [|discriminate]. inversion E. reflexivity.
Qed.

(* ... and never changes afterwards, whatever is submitted *)
Theorem port_stable_run c h : forall st a, g_port st = Some a -> g_port (run c h st) = Some a.
Proof.
  induction h as [|[o x] r IH]; intros st a Hp; cbn [run]; [exact Hp|].
  apply IH. apply port_stable_step. exact Hp.
Qed.

Lemma run_app c h1 : forall h2 st, run c (h1 ++ h2) st = run c h2 (run c h1 st).
Proof. induction h1 as [|[o x] r IH]; intros h2 st; cbn [run app]; [reflexivity|apply IH]. Qed.

Theorem port_once c h1 h2 st a :
  g_port (run c h1 st) = Some a -> g_port (run c (h1 ++ h2) st) = Some a.
Proof. intros H. rewrite run_app. apply port_stable_run. exact H. Qed.

(* while there is no store, nothing has been accepted and nothing has changed *)
Theorem port_none_run c h : forall st,
  g_port (run c h st) = None ->
  run c h st = st /\ Forall (fun ox => fst (step c (fst ox) (snd ox) st) = false) h.
Proof.
  induction h as [|[o x] r IH]; intros st Hn; cbn [run] in *; [split; [reflexivity|constructor]|].
  destruct (g_port st) as [a|] eqn:Ep.
  - rewrite (port_stable_run c r _ a (port_stable_step c o x st a Ep)) in Hn. discriminate.
  - destruct (fst (step c o x st)) eqn:Es.
    + exfalso. unfold step in *. destruct (exec c o x st) as [st'|] eqn:E; cbn [fst snd] in *; [|discriminate].
      rewrite (port_stable_run c r st' _ (port_set_first c o x st st' Ep E)) in Hn. discriminate.
    + pose proof (rejected_unchanged c o x st Es) as U. rewrite U in *.
      destruct (IH st Hn) as [A B]. split; [exact A|]. constructor; [exact Es|exact B].
Qed.

(* invalid contents or a foreign authority: rejected, state untouched *)
Theorem bad_rejected c o x st : valid_op c x = false -> step c o x st = (false, st).
Proof. intros H. unfold step. rewrite exec_valid, H. reflexivity. Qed.

(* the three ways of being invalid named by the property, and the nil-metadata panic *)
Theorem invalid_cases c :
  (forall m, lm_auth m <> cfg_gov c -> valid_op c (Lending m) = false) /\
  (forall m, length (lm_calldatas m) <> length (lm_values m) -> valid_op c (Lending m) = false) /\
  (forall m, length (lm_values m) <> length (lm_sigs m) -> valid_op c (Lending m) = false) /\
  (forall m, lm_has_meta m = false -> valid_op c (Lending m) = false) /\
  (forall m, tm_auth m <> cfg_gov c -> valid_op c (Treasury m) = false) /\
  (forall m, map lower_byte (tm_denom m) <> str_canto -> map lower_byte (tm_denom m) <> str_note ->
             valid_op c (Treasury m) = false).
Proof.
  cbn [valid_op]. unfold valid_lending, valid_treasury.
  repeat split; intros m H.
  - assert (E : bytes_eqb (cfg_gov c) (lm_auth m) = false).
    { destruct (bytes_eqb _ _) eqn:E; [|reflexivity]. apply bytes_eqb_eq in E. congruence. }
    rewrite E. reflexivity.
  - assert (E : same_length (lm_calldatas m) (lm_values m) = false).
    { destruct (same_length _ _) eqn:E; [|reflexivity]. apply same_length_iff in E. congruence. }
    rewrite E. rewrite andb_false_r. reflexivity.
  - assert (E : same_length (lm_values m) (lm_sigs m) = false).
    { destruct (same_length _ _) eqn:E; [|reflexivity]. apply same_length_iff in E. congruence. }
    rewrite E. rewrite andb_false_r. reflexivity.
  - rewrite H. apply andb_false_r.
  - assert (E : bytes_eqb (cfg_gov c) (tm_auth m) = false).
    { destruct (bytes_eqb _ _) eqn:E; [|reflexivity]. apply bytes_eqb_eq in E. congruence. }
    rewrite E. reflexivity.
  - intros H2. unfold supported_denom.
    assert (E1 : bytes_eqb (map lower_byte (tm_denom m)) str_canto = false).
    { destruct (bytes_eqb (map lower_byte (tm_denom m)) str_canto) eqn:E; [|reflexivity].
      apply bytes_eqb_eq in E. congruence. }
    assert (E2 : bytes_eqb (map lower_byte (tm_denom m)) str_note = false).
    { destruct (bytes_eqb (map lower_byte (tm_denom m)) str_note) eqn:E; [|reflexivity].
      apply bytes_eqb_eq in E. congruence. }
    rewrite E1, E2. apply andb_false_r.
Qed.

(* conversely a proposal that satisfies all of them and names governance is valid *)
Theorem valid_cases c :
  (forall m, lm_auth m = cfg_gov c -> length (lm_calldatas m) = length (lm_values m) ->
             length (lm_values m) = length (lm_sigs m) -> lm_has_meta m = true ->
             valid_op c (Lending m) = true) /\
  (forall m, tm_auth m = cfg_gov c ->
             (map lower_byte (tm_denom m) = str_canto \/ map lower_byte (tm_denom m) = str_note) ->
             valid_op c (Treasury m) = true).
Proof.
  cbn [valid_op]. unfold valid_lending, valid_treasury. split.
  - intros m A L1 L2 M. rewrite A, bytes_eqb_refl, M.
    apply same_length_iff in L1. apply same_length_iff in L2. rewrite L1, L2. reflexivity.
  - intros m A D. rewrite A, bytes_eqb_refl. unfold supported_denom.
    destruct D as [D|D]; rewrite D; cbn; reflexivity.
Qed.

(* a record stays retrievable through every later history that does not reuse its id *)
Theorem record_persists c h : forall st i,
  wf c st ->
  Forall (fun ox => op_id (fst ox) (snd ox) <> i) h ->
  g_query (run c h st) i = g_query st i.
Proof.
  induction h as [|[o x] r IH]; intros st i W F; cbn [run]; [reflexivity|].
  inversion F as [|? ? Hx Fr]; subst. cbn [fst snd] in Hx.
  rewrite (IH (snd (step c o x st)) i (wf_step c o x st W) Fr).
  unfold step. destruct (exec c o x st) as [st'|] eqn:E; cbn [snd]; [|reflexivity].
  apply (others_kept c o x st st' W E). auto.
Qed.

(* well-formed submissions are recorded literally *)
Theorem expected_wellformed o m addrs datas :
  Forall (fun b => Forall is_byte b /\ zlen b = 20) addrs ->
  Forall (Forall is_byte) datas ->
  lm_accounts m = map (fun b => 48 :: 120 :: bytes2hex b) addrs ->
  lm_calldatas m = map bytes2hex datas ->
  expected_record o (Lending m) =
  mkProp (effective_id o (lm_id m)) (lm_title m) (lm_desc m) (map be_value addrs)
         (lm_values m) (lm_sigs m) datas.
Proof.
  intros Ha Hd Ea Ed. cbn [expected_record]. rewrite Ea, Ed, !map_map. f_equal.
  - clear Ea. induction Ha as [|b r [Hb Hl] _ IH]; cbn [map]; [reflexivity|].
    rewrite IH. f_equal. apply (hex_to_address_wf b Hb Hl).
  - clear Ed. induction Hd as [|b r Hb _ IH]; cbn [map]; [reflexivity|].
    rewrite IH. f_equal. apply hex_round_trip. exact Hb.
Qed.

(** * Statements in the shape used by Properties/C20.v *)

Theorem wf_reachable c h st : g_port st = None -> wf c (run c h st).
Proof. intros H. apply wf_run. apply wf_init. exact H. Qed.

Theorem recorded_full c o x st st' :
  wf c st -> exec c o x st = Some st' ->
  g_query st' (op_id o x) = expected_record o x /\
  op_id o x = (match x with
               | Lending m => if lm_id m =? 0 then o_next_id o else lm_id m
               | Treasury m => if tm_id m =? 0 then o_next_id o else tm_id m
               end) /\
  expected_record o x =
    (match x with
     | Lending m => mkProp (op_id o x) (lm_title m) (lm_desc m) (map hex_to_address (lm_accounts m))
                           (lm_values m) (lm_sigs m) (map hex2bytes (lm_calldatas m))
     | Treasury m => mkProp (op_id o x) (tm_title m) (tm_desc m) [hex_to_address (tm_recipient m)]
                            [tm_amount m] [tm_denom m] []
     end).
Proof.
  intros W E. split; [exact (recorded c o x st st' W E)|].
  destruct x as [m|m]; split; reflexivity.
Qed.

Theorem hex_wellformed s :
  (wf_hex s = true <-> 2 * zlen (hex2bytes s) = zlen s) /\
  2 * zlen (hex2bytes s) <= zlen s /\
  (wf_hex s = true -> bytes2hex (hex2bytes s) = map lower_byte s) /\
  hex2bytes (48 :: 120 :: s) = [] /\ hex2bytes (48 :: 88 :: s) = [].
Proof.
  split; [exact (wf_hex_iff s)|]. split; [exact (hex2bytes_short s)|].
  split; [exact (wf_hex_decodes s)|]. exact (hex2bytes_0x s).
Qed.

(** * Non-vacuity *)

Definition ex_cfg := mkCfg [103; 111; 118] 777.
Definition ex_lm := mkLM [103; 111; 118] [84] [100; 195; 169] true
                         [[48; 120; 49; 50]] 0 [5] [[99; 97; 102; 69]] [[115]].
Definition ex_tm := mkTM [103; 111; 118] [84; 50] [] 9 [97; 98] 1234 [67; 97; 110; 116; 111].
Definition ex_init := mkG None (mkStore 0 (fun _ => empty_prop)).

Example ex_wf : wf ex_cfg ex_init.
Proof. apply wf_init. reflexivity. Qed.

Example ex_run :
  let st := run ex_cfg [(mkOracle 4 1000, Lending ex_lm); (mkOracle 5 2000, Treasury ex_tm)] ex_init in
  g_port st = Some 1000 /\
  g_query st 4 = mkProp 4 [84] [100; 195; 169] [18] [5] [[115]] [[202; 254]] /\
  g_query st 9 = mkProp 9 [84; 50] [] [171] [1234] [[67; 97; 110; 116; 111]] [] /\
  g_query st 5 = empty_prop.
Proof. vm_compute. repeat split; reflexivity. Qed.

Example ex_bad :
  valid_op ex_cfg (Lending (mkLM [103; 111; 118] [] [] true [] 1 [1; 2] [[]] [[]])) = false /\
  valid_op ex_cfg (Treasury (mkTM [103; 111; 118] [] [] 1 [] 1 [97; 99; 97; 110; 116; 111])) = false /\
  valid_op ex_cfg (Treasury (mkTM [120] [] [] 1 [] 1 [110; 111; 116; 101])) = false.
Proof. vm_compute. repeat split; reflexivity. Qed.

Example ex_hex :
  hex2bytes [48; 120; 97; 98] = [] /\ hex2bytes [97; 98; 99] = [171] /\
  hex2bytes [97; 66; 122; 122; 48; 48] = [171] /\ wf_hex [97; 66; 48; 57] = true /\
  Forall is_byte [0; 255; 16] /\ hex2bytes (bytes2hex [0; 255; 16]) = [0; 255; 16].
Proof. repeat split; try reflexivity. repeat constructor; unfold is_byte; lia. Qed.
