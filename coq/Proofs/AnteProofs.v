(** Proofs about transaction admission (property C19).
    Part 1 is the design-round proof of the authz limiter (DESIGN.md appendix A.3), verbatim;
    part 2 lifts it to whole transactions, routes and decorator chains. *)
From Coq Require Import List Arith Lia Bool String.
From Canto Require Import Model.Ante.
Import ListNotations.
Open Scope string_scope.
Open Scope list_scope.

(** * Part 1 — the limiter (A.3) *)

Lemma chk_go_eq l : forall k,
  (fix go (l : list msg) (k : nat) : bool :=
     match l with
     | [] => true
     | x :: r => match chk x true k with Some k' => go r k' | None => false end
     end) l k = chk_list l true k.
Proof. induction l as [|x r IH]; intros k; cbn [chk_list]; [reflexivity|]. destruct (chk x true k); [apply IH|reflexivity]. Qed.
Lemma chk_exec l inner n : chk (MExec l) inner n = if (limit <=? S n)%nat then None else if chk_list l true (S n) then Some (S n) else None.
Proof. cbn [chk]. rewrite chk_go_eq. reflexivity. Qed.

Lemma depth_go_eq l : (fix go (l : list msg) : nat := match l with [] => 0 | x :: r => Nat.max (depth x) (go r) end) l = depth_list l.
Proof. induction l as [|x r IH]; cbn [depth_list]; [reflexivity|]. rewrite IH. reflexivity. Qed.
Lemma depth_exec l : depth (MExec l) = S (depth_list l). Proof. cbn [depth]. rewrite depth_go_eq. reflexivity. Qed.

Lemma bad_go_eq l : (fix go (l : list msg) : bool := match l with [] => false | x :: r => bad x true || go r end) l = bad_list l true.
Proof. induction l as [|x r IH]; cbn [bad_list]; [reflexivity|]. rewrite IH. reflexivity. Qed.
Lemma bad_exec l inner : bad (MExec l) inner = bad_list l true. Proof. cbn [bad]. apply bad_go_eq. Qed.

Definition sound_at (m : msg) : Prop := forall inner n k, n < limit -> chk m inner n = Some k ->
  bad m inner = false /\ n + depth m < limit /\ n <= k < limit.

Lemma chk_list_sound l : Forall sound_at l -> forall inner n, n < limit -> chk_list l inner n = true ->
  bad_list l inner = false /\ n + depth_list l < limit.
Proof.
  induction 1 as [|x r Hx Hr IH]; intros inner n Hn Hc; cbn [chk_list bad_list depth_list] in *.
  - split; [reflexivity|lia].
  - destruct (chk x inner n) as [k|] eqn:E; [|discriminate].
    destruct (Hx inner n k Hn E) as (Hb & Hd & Hk).
    destruct (IH inner k ltac:(lia) Hc) as (Hb' & Hd').
    rewrite Hb, Hb'. split; [reflexivity|]. lia.
Qed.

Theorem chk_sound m : sound_at m.
Proof.
  induction m using msg_ind'; unfold sound_at; intros inner n k Hn Hc.
  - cbn in *. destruct inner; [discriminate|]. inversion Hc; subst. repeat split; lia.
  - cbn in *. destruct inner; [discriminate|]. inversion Hc; subst. repeat split; lia.
  - cbn in *. inversion Hc; subst. repeat split; lia.
  - cbn in *. destruct d; [discriminate|]. inversion Hc; subst. repeat split; lia.
  - rewrite chk_exec in Hc. rewrite bad_exec, depth_exec.
    destruct (limit <=? S n)%nat eqn:E; [discriminate|]. apply Nat.leb_gt in E.
    destruct (chk_list l true (S n)) eqn:E2; [|discriminate]. inversion Hc; subst.
    destruct (chk_list_sound l H true (S n) E E2) as (Hb & Hd).
    repeat split; try lia. exact Hb.
Qed.

(* C19, authz clauses: accepted => no disabled message inside any MsgExec at any depth,
   no grant of a disabled type anywhere, nesting depth at most 5 *)
Theorem authz_safe msgs : authz_ok msgs = true -> bad_list msgs false = false /\ depth_list msgs <= 5.
Proof.
  intros H. unfold authz_ok in H.
  assert (Hall : Forall sound_at msgs) by (apply Forall_forall; intros; apply chk_sound).
  destruct (chk_list_sound msgs Hall false 0 ltac:(unfold limit; lia) H) as (Hb & Hd).
  split; [exact Hb|]. unfold limit in Hd. lia.
Qed.

(* over-deep nesting is rejected *)
Theorem too_deep_rejected msgs : 6 <= depth_list msgs -> authz_ok msgs = false.
Proof.
  intros Hd. destruct (authz_ok msgs) eqn:E; [|reflexivity].
  apply authz_safe in E. lia.
Qed.

(* the sibling-counting quirk: depth 2 but rejected *)
Example siblings_rejected : authz_ok [MExec [MExec [MOther]; MExec [MOther]; MExec [MOther]; MExec [MOther]; MExec [MOther]]] = false.
Proof. reflexivity. Qed.
Example nest5_ok : authz_ok [MExec [MExec [MExec [MExec [MExec [MOther]]]]]] = true.
Proof. reflexivity. Qed.
Example nest6_rejected : authz_ok [MExec [MExec [MExec [MExec [MExec [MExec [MOther]]]]]]] = false.
Proof. reflexivity. Qed.

(* more of the quirk, as measured through CheckTx in the implementation round: the counter also
   runs over top-level siblings (six MsgExec side by side: depth 1, rejected; five: accepted), four
   siblings at depth 2 are accepted, and an empty MsgExec still counts *)
Example top6_rejected : authz_ok [MExec [MOther]; MExec [MOther]; MExec [MOther]; MExec [MOther]; MExec [MOther]; MExec [MOther]] = false.
Proof. reflexivity. Qed.
Example top5_ok : authz_ok [MExec [MOther]; MExec [MOther]; MExec [MOther]; MExec [MOther]; MExec [MOther]] = true.
Proof. reflexivity. Qed.
Example siblings4_ok : authz_ok [MExec [MExec [MOther]; MExec [MOther]; MExec [MOther]; MExec [MOther]]] = true.
Proof. reflexivity. Qed.
Example empty_execs_count : authz_ok [MExec []; MExec []; MExec []; MExec []; MExec []; MExec []] = false.
Proof. reflexivity. Qed.
(* the counter is by value: what happens inside one MsgExec is forgotten by its next sibling.
   Eight MsgExec in all, accepted: 1 + (1+3 inside, forgotten) then 1 + 3 again *)
Example by_value_forgets :
  authz_ok [MExec [MExec [MExec [MExec [MOther]]]]; MExec [MExec [MExec [MExec [MOther]]]]] = true.
Proof. reflexivity. Qed.
(* a disabled message at the deepest admissible position, and a disabled grant inside an exec *)
Example deep_eth_rejected : authz_ok [MExec [MExec [MExec [MExec [MExec [MEth]]]]]] = false.
Proof. reflexivity. Qed.
Example grant_in_exec_rejected : authz_ok [MOther; MExec [MOther; MGrant true]] = false.
Proof. reflexivity. Qed.
Example top_level_vest_not_the_limiters_business : authz_ok [MVest; MOther] = true.
Proof. reflexivity. Qed.

(** * Part 2 — transactions, routes, chains *)

Lemma eqb_true_eq (a b : string) : (a =? b) = true -> a = b.
Proof. apply String.eqb_eq. Qed.

Lemma lookup_in k l v : lookup k l = Some v -> In k (map fst l).
Proof.
  induction l as [|[k' v'] r IH]; cbn [lookup map fst]; [discriminate|].
  destruct (k =? k') eqn:E.
  - intros _. left. symmetry. apply eqb_true_eq. exact E.
  - intros H. right. apply IH. exact H.
Qed.

Lemma lookup_not_in k l : ~ In k (map fst l) -> lookup k l = None.
Proof.
  intros H. destruct (lookup k l) as [v|] eqn:E; [|reflexivity].
  exfalso. apply H. eapply lookup_in. exact E.
Qed.

(* the kinds of the decorators the proofs single out *)
Lemma kind_reject : kind_of d_reject = KReject. Proof. reflexivity. Qed.
Lemma kind_authz : kind_of d_authz = KAuthz. Proof. reflexivity. Qed.
Lemma kind_eth_vb : kind_of d_eth_validate_basic = KEthValidateBasic. Proof. reflexivity. Qed.
Lemma kind_eip712 : kind_of d_eip712_sig = KEip712Sig. Proof. reflexivity. Qed.
Lemma kind_eth_sig : kind_of d_eth_sig = KOther. Proof. reflexivity. Qed.
Lemma kind_eth_fee : kind_of d_eth_fee = KOther. Proof. reflexivity. Qed.
Lemma kind_sig : kind_of d_sig = KOther. Proof. reflexivity. Qed.
Lemma kind_deduct_fee : kind_of d_deduct_fee = KOther. Proof. reflexivity. Qed.

Lemma run_chain_none orc ch t :
  run_chain orc ch t = None -> forall d, In d ch -> decorate orc d t = None.
Proof.
  induction ch as [|x r IH]; cbn [run_chain]; intros H d Hin; [contradiction|].
  destruct (decorate orc x t) eqn:E; [discriminate|].
  destruct Hin as [->|Hin]; [exact E|apply IH; assumption].
Qed.

Lemma decorate_reject orc t : decorate orc d_reject t = None -> has_eth (tx_msgs t) = false.
Proof. unfold decorate. rewrite kind_reject. destruct (has_eth (tx_msgs t)); [discriminate|reflexivity]. Qed.
Lemma decorate_authz orc t : decorate orc d_authz t = None -> authz_ok (tx_msgs t) = true.
Proof. unfold decorate. rewrite kind_authz. destruct (authz_ok (tx_msgs t)); [reflexivity|discriminate]. Qed.
Lemma decorate_eth_vb orc t : decorate orc d_eth_validate_basic t = None ->
  List.length (tx_opts t) = 1 /\ forallb is_eth (tx_msgs t) = true /\ orc d_eth_validate_basic t = true.
Proof.
  unfold decorate. rewrite kind_eth_vb.
  destruct (Nat.eqb (List.length (tx_opts t)) 1) eqn:E1; cbn [negb]; [|discriminate].
  destruct (forallb is_eth (tx_msgs t)) eqn:E2; cbn [negb]; [|discriminate].
  destruct (orc d_eth_validate_basic t) eqn:E3; [|discriminate].
  intros _. apply Nat.eqb_eq in E1. auto.
Qed.
Lemma decorate_eip712 orc t : decorate orc d_eip712_sig t = None ->
  List.length (tx_opts t) = 1 /\ orc d_eip712_sig t = true.
Proof.
  unfold decorate. rewrite kind_eip712.
  destruct (orc d_eip712_sig t) eqn:E3; cbn [negb]; [|discriminate].
  destruct (Nat.eqb (List.length (tx_opts t)) 1) eqn:E1; [|discriminate].
  intros _. apply Nat.eqb_eq in E1. auto.
Qed.
Lemma decorate_other orc d t : kind_of d = KOther -> decorate orc d t = None -> orc d t = true.
Proof. unfold decorate. intros ->. destruct (orc d t); [reflexivity|discriminate]. Qed.

(* membership facts on the reference tables, decided by computation *)
Ltac in_list := cbn [In ref_eth_chain ref_cosmos_chain ref_sim_chain ref_eip712_chain ref_disabled];
  repeat (first [left; reflexivity | right]).

Lemma in_eth_vb : In d_eth_validate_basic ref_eth_chain. Proof. in_list. Qed.
Lemma in_eth_sig : In d_eth_sig ref_eth_chain. Proof. in_list. Qed.
Lemma in_eth_fee : In d_eth_fee ref_eth_chain. Proof. in_list. Qed.
Lemma in_cosmos_reject : In d_reject ref_cosmos_chain. Proof. in_list. Qed.
Lemma in_cosmos_authz : In d_authz ref_cosmos_chain. Proof. in_list. Qed.
Lemma in_cosmos_sig : In d_sig ref_cosmos_chain. Proof. in_list. Qed.
Lemma in_cosmos_fee : In d_deduct_fee ref_cosmos_chain. Proof. in_list. Qed.
Lemma in_sim_reject : In d_reject ref_sim_chain. Proof. in_list. Qed.
Lemma in_sim_authz : In d_authz ref_sim_chain. Proof. in_list. Qed.
Lemma in_eip_reject : In d_reject ref_eip712_chain. Proof. in_list. Qed.
Lemma in_eip_authz : In d_authz ref_eip712_chain. Proof. in_list. Qed.
Lemma in_eip_sig : In d_eip712_sig ref_eip712_chain. Proof. in_list. Qed.

(* unfolding [admission = Accept] once and for all *)
Lemma admission_accept e t : admission e t = Accept ->
  forallb (fun o => mem o (e_ext_registered e)) (tx_opts t) = true /\
  tx_msgs t <> [] /\
  exists r, route_of (e_sim e) (tx_opts t) = Some r /\ run_chain (e_orc e) (chain_of r) t = None.
Proof.
  unfold admission.
  destruct (forallb (fun o => mem o (e_ext_registered e)) (tx_opts t)) eqn:Ereg; cbn [negb orb]; [|discriminate].
  destruct (negb (e_vest_registered e) && has_vest_list (tx_msgs t)); [discriminate|].
  destruct (tx_msgs t) as [|m ms] eqn:Em; [discriminate|].
  destruct (route_of (e_sim e) (tx_opts t)) as [r|] eqn:Er; [|discriminate].
  destruct (run_chain (e_orc e) (chain_of r) t) eqn:Ec; [discriminate|].
  intros _. split; [reflexivity|]. split; [discriminate|]. exists r. split; [reflexivity|]. exact Ec.
Qed.

(* which first option leads to which route *)
Lemma route_eth_inv sim opts : route_of sim opts = Some REth -> exists rest, opts = eth_url :: rest.
Proof.
  destruct opts as [|o rest]; cbn [route_of].
  - destruct sim; discriminate.
  - unfold ref_switch. cbn [lookup].
    destruct (o =? eth_url) eqn:E1.
    + intros _. exists rest. f_equal. apply eqb_true_eq. exact E1.
    + destruct (o =? web3_url) eqn:E2; [intros H; vm_compute in H; discriminate|].
      intros H; vm_compute in H; discriminate.
Qed.

Lemma route_first_in_switch sim o rest r : route_of sim (o :: rest) = Some r -> In o (map fst ref_switch).
Proof.
  cbn [route_of]. destruct (lookup o ref_switch) as [h|] eqn:E.
  - intros _. eapply lookup_in. exact E.
  - intros H. vm_compute in H. discriminate.
Qed.

(* on the three Cosmos chains both leading decorators ran *)
Lemma cosmos_routes_gate orc r t : r <> REth -> run_chain orc (chain_of r) t = None ->
  has_eth (tx_msgs t) = false /\ authz_ok (tx_msgs t) = true.
Proof.
  intros Hr H. pose proof (run_chain_none _ _ _ H) as Hall.
  destruct r; cbn [chain_of] in Hall; [congruence| | |].
  - split; [eapply decorate_reject; apply Hall; apply in_eip_reject|eapply decorate_authz; apply Hall; apply in_eip_authz].
  - split; [eapply decorate_reject; apply Hall; apply in_cosmos_reject|eapply decorate_authz; apply Hall; apply in_cosmos_authz].
  - split; [eapply decorate_reject; apply Hall; apply in_sim_reject|eapply decorate_authz; apply Hall; apply in_sim_authz].
Qed.

(* a list of Ethereum messages only has no authz structure *)
Lemma all_eth_flat l : forallb is_eth l = true -> bad_list l false = false /\ depth_list l = 0.
Proof.
  induction l as [|m r IH]; cbn [forallb bad_list depth_list]; [auto|].
  intros H. apply andb_prop in H as [Hm Hr]. destruct (IH Hr) as [Hb Hd].
  destruct m; cbn [is_eth] in Hm; try discriminate.
  cbn [bad depth]. rewrite Hb, Hd. auto.
Qed.
Lemma has_eth_all_eth l : l <> [] -> forallb is_eth l = true -> has_eth l = true.
Proof. destruct l as [|m r]; [congruence|]. cbn [forallb has_eth existsb]. intros _ H. apply andb_prop in H as [-> _]. reflexivity. Qed.

(** ** The theorems of C19 *)

(* 1. A transaction carrying a (top-level) Ethereum message is admitted only through the Ethereum
      path: the Ethereum extension option is the first — indeed the only — option, the route is the
      Ethereum chain, every message is an Ethereum message, and that chain contains the Ethereum
      signature verification and the fee deduction, neither of which rejected. *)
Theorem eth_only_eth_path e t :
  admission e t = Accept -> has_eth (tx_msgs t) = true ->
  tx_opts t = [eth_url] /\
  route_of (e_sim e) (tx_opts t) = Some REth /\
  forallb is_eth (tx_msgs t) = true /\
  In d_eth_sig ref_eth_chain /\ In d_eth_fee ref_eth_chain /\
  e_orc e d_eth_sig t = true /\ e_orc e d_eth_fee t = true.
Proof.
  intros Ha He. destruct (admission_accept e t Ha) as (_ & _ & r & Hr & Hc).
  assert (r = REth) as ->.
  { assert (Hx : forall r', r' <> REth -> r = r' -> False).
    { intros r' Hne ->. destruct (cosmos_routes_gate (e_orc e) r' t Hne Hc) as [X _]. congruence. }
    destruct r; [reflexivity| | |]; exfalso; eapply Hx; try reflexivity; discriminate. }
  pose proof (run_chain_none _ _ _ Hc) as Hall. cbn [chain_of] in Hall.
  destruct (decorate_eth_vb _ _ (Hall _ in_eth_vb)) as (Hlen & Hmsgs & _).
  destruct (route_eth_inv _ _ Hr) as [rest Ho].
  assert (rest = []) as -> by (rewrite Ho in Hlen; cbn [List.length] in Hlen; destruct rest; [reflexivity|discriminate]).
  repeat split; try assumption.
  - apply in_eth_sig.
  - apply in_eth_fee.
  - apply (decorate_other _ _ _ kind_eth_sig (Hall _ in_eth_sig)).
  - apply (decorate_other _ _ _ kind_eth_fee (Hall _ in_eth_fee)).
Qed.

(* 2. A first extension option that the switch does not list is rejected, whatever follows it and
      whatever the messages are. *)
Theorem unknown_ext_rejected e o rest msgs :
  ~ In o (map fst ref_switch) -> exists r, admission e (mkTx (o :: rest) msgs) = Reject r.
Proof.
  intros Hn. destruct (admission e (mkTx (o :: rest) msgs)) as [|r] eqn:E; [|exists r; reflexivity].
  exfalso. destruct (admission_accept _ _ E) as (_ & _ & r & Hr & _). cbn [tx_opts] in Hr.
  apply Hn. eapply route_first_in_switch. exact Hr.
Qed.
(* the dynamic-fee option is registered in the codec but not in the switch *)
Lemma dynfee_not_in_switch : ~ In dynfee_url (map fst ref_switch).
Proof. cbn. intros [H|[H|[]]]; discriminate. Qed.
Theorem dynfee_rejected e rest msgs : exists r, admission e (mkTx (dynfee_url :: rest) msgs) = Reject r.
Proof. apply unknown_ext_rejected. exact dynfee_not_in_switch. Qed.
(* with everything else in order the reason is the switch's default clause *)
Theorem unknown_ext_reason e o rest m ms :
  ~ In o (map fst ref_switch) ->
  forallb (fun o => mem o (e_ext_registered e)) (o :: rest) = true ->
  (negb (e_vest_registered e) && has_vest_list (m :: ms)) = false ->
  admission e (mkTx (o :: rest) (m :: ms)) = Reject RUnknownExt.
Proof.
  intros Hn Hreg Hv. unfold admission. cbn [tx_opts tx_msgs]. rewrite Hreg, Hv. cbn [negb orb].
  cbn [route_of]. rewrite (lookup_not_in _ _ Hn). reflexivity.
Qed.

(* 3. Accepted => no Ethereum or vesting-creation message inside any MsgExec at any depth, no grant
      of a disabled type anywhere, nesting depth at most 5.  On every route (the Ethereum route
      admits Ethereum messages only, so there is no authz structure at all). *)
Theorem admission_authz_safe e t :
  admission e t = Accept -> bad_list (tx_msgs t) false = false /\ depth_list (tx_msgs t) <= 5.
Proof.
  intros Ha. destruct (admission_accept e t Ha) as (_ & _ & r & Hr & Hc).
  destruct r.
  - pose proof (run_chain_none _ _ _ Hc) as Hall. cbn [chain_of] in Hall.
    destruct (decorate_eth_vb _ _ (Hall _ in_eth_vb)) as (_ & Hmsgs & _).
    destruct (all_eth_flat _ Hmsgs) as [Hb Hd]. rewrite Hd. split; [exact Hb|lia].
  - apply authz_safe. apply (cosmos_routes_gate (e_orc e) REip712 t ltac:(discriminate) Hc).
  - apply authz_safe. apply (cosmos_routes_gate (e_orc e) RCosmos t ltac:(discriminate) Hc).
  - apply authz_safe. apply (cosmos_routes_gate (e_orc e) RSim t ltac:(discriminate) Hc).
Qed.

(* 4. Over-deep nesting is rejected on every route. *)
Theorem admission_too_deep_rejected e t :
  6 <= depth_list (tx_msgs t) -> exists r, admission e t = Reject r.
Proof.
  intros Hd. destruct (admission e t) as [|r] eqn:E; [|exists r; reflexivity].
  exfalso. apply admission_authz_safe in E. lia.
Qed.

(* 5. Both Cosmos chains and the simulation chain start with reject-Ethereum, then the limiter. *)
Theorem chains_start_right :
  firstn 2 ref_cosmos_chain = [d_reject; d_authz] /\
  firstn 2 ref_eip712_chain = [d_reject; d_authz] /\
  firstn 2 ref_sim_chain = [d_reject; d_authz].
Proof. repeat split; reflexivity. Qed.

(* 6. Never inside an ordinary or EIP-712 Cosmos transaction. *)
Theorem no_eth_in_cosmos e t r :
  admission e t = Accept -> route_of (e_sim e) (tx_opts t) = Some r -> r <> REth ->
  has_eth (tx_msgs t) = false.
Proof.
  intros Ha Hr Hne. destruct (admission_accept e t Ha) as (_ & _ & r' & Hr' & Hc).
  rewrite Hr in Hr'. inversion Hr'; subst r'.
  apply (cosmos_routes_gate (e_orc e) r t Hne Hc).
Qed.
(* in the words of the first option *)
Corollary no_eth_unless_eth_option e t :
  admission e t = Accept -> (forall rest, tx_opts t <> eth_url :: rest) -> has_eth (tx_msgs t) = false.
Proof.
  intros Ha Hn. destruct (has_eth (tx_msgs t)) eqn:E; [|reflexivity].
  destruct (eth_only_eth_path e t Ha E) as (Ho & _). exfalso. apply (Hn []). exact Ho.
Qed.

(* 7. The EIP-712 route also insists on exactly one option (the check sits inside signature
      verification, after the unmodelled checks: see the label in lib/props.d/C19.py), and both
      Cosmos routes passed signature verification and fee deduction. *)
Theorem eip712_one_option e t :
  admission e t = Accept -> route_of (e_sim e) (tx_opts t) = Some REip712 ->
  tx_opts t = [web3_url] /\ e_orc e d_eip712_sig t = true /\ e_orc e d_deduct_fee t = true.
Proof.
  intros Ha Hr. destruct (admission_accept e t Ha) as (_ & _ & r' & Hr' & Hc).
  rewrite Hr in Hr'. inversion Hr'; subst r'.
  pose proof (run_chain_none _ _ _ Hc) as Hall. cbn [chain_of] in Hall.
  destruct (decorate_eip712 _ _ (Hall _ in_eip_sig)) as (Hlen & Ho).
  assert (Hfee : In d_deduct_fee ref_eip712_chain) by in_list.
  split; [|split; [exact Ho|apply (decorate_other _ _ _ kind_deduct_fee (Hall _ Hfee))]].
  destruct (tx_opts t) as [|o rest] eqn:Eo; [cbn in Hlen; discriminate|].
  destruct rest; [|cbn in Hlen; discriminate].
  f_equal. cbn [route_of] in Hr. unfold ref_switch in Hr. cbn [lookup] in Hr.
  destruct (o =? eth_url) eqn:E1; [vm_compute in Hr; discriminate|].
  destruct (o =? web3_url) eqn:E2; [apply eqb_true_eq; exact E2|vm_compute in Hr; discriminate].
Qed.
Theorem plain_cosmos_checked e t :
  admission e t = Accept -> tx_opts t = [] -> e_sim e = false ->
  e_orc e d_sig t = true /\ e_orc e d_deduct_fee t = true.
Proof.
  intros Ha Ho Hs. destruct (admission_accept e t Ha) as (_ & _ & r & Hr & Hc).
  rewrite Ho, Hs in Hr. cbn [route_of] in Hr. inversion Hr; subst r.
  pose proof (run_chain_none _ _ _ Hc) as Hall. cbn [chain_of] in Hall.
  split; [apply (decorate_other _ _ _ kind_sig (Hall _ in_cosmos_sig))|apply (decorate_other _ _ _ kind_deduct_fee (Hall _ in_cosmos_fee))].
Qed.

(* 8. The list wired in app.go names the Ethereum message and the three vesting-creation messages:
      this is what lets [chk] treat MEth and MVest as disabled. *)
Theorem disabled_covers :
  In m_eth ref_disabled /\ In m_vest ref_disabled /\ In m_vest_perm ref_disabled /\ In m_vest_periodic ref_disabled.
Proof. repeat split; in_list. Qed.

(* 9. The unmodelled checks can only reject: whatever is admitted under some oracle is admitted
      under the oracle that never objects. *)
Definition orc_true : string -> tx -> bool := fun _ _ => true.
Lemma decorate_mono orc d t : decorate orc d t = None -> decorate orc_true d t = None.
Proof.
  unfold decorate, orc_true. destruct (kind_of d).
  - auto.
  - auto.
  - destruct (negb _); [auto|]. destruct (negb _); [auto|]. destruct (orc d t); [auto|discriminate].
  - destruct (orc d t); cbn [negb]; [auto|discriminate].
  - destruct (orc d t); [auto|discriminate].
Qed.
Lemma run_chain_mono orc ch t : run_chain orc ch t = None -> run_chain orc_true ch t = None.
Proof.
  induction ch as [|d r IH]; cbn [run_chain]; [auto|].
  destruct (decorate orc d t) eqn:E; [discriminate|]. rewrite (decorate_mono _ _ _ E). exact IH.
Qed.
Theorem oracle_only_rejects e t :
  admission e t = Accept ->
  admission (mkEnv (e_sim e) (e_ext_registered e) (e_vest_registered e) orc_true) t = Accept.
Proof.
  intros Ha. destruct (admission_accept e t Ha) as (Hreg & Hm & r & Hr & Hc).
  unfold admission in *. cbn [e_sim e_ext_registered e_vest_registered e_orc] in *.
  rewrite Hreg in *. cbn [negb orb] in *.
  destruct (negb (e_vest_registered e) && has_vest_list (tx_msgs t)); [discriminate|].
  destruct (tx_msgs t) as [|m ms] eqn:Em; [congruence|].
  rewrite Hr. rewrite (run_chain_mono _ _ _ Hc). reflexivity.
Qed.

(** ** Non-vacuity: concrete admitted transactions on every route, and the rejections the property names *)

Definition env0 : env := mkEnv false [eth_url; web3_url; dynfee_url] false orc_true.

Example ex_eth_admitted : admission env0 (mkTx [eth_url] [MEth; MEth]) = Accept.
Proof. vm_compute. reflexivity. Qed.
Example ex_cosmos_admitted :
  admission env0 (mkTx [] [MOther; MExec [MOther; MExec [MGrant false]]; MGrant false]) = Accept.
Proof. vm_compute. reflexivity. Qed.
Example ex_eip712_admitted : admission env0 (mkTx [web3_url] [MExec [MExec [MExec [MExec [MExec [MOther]]]]]]) = Accept.
Proof. vm_compute. reflexivity. Qed.
Example ex_eth_in_cosmos : admission env0 (mkTx [] [MOther; MEth]) = Reject REthMsgOutside.
Proof. vm_compute. reflexivity. Qed.
Example ex_eth_in_eip712 : admission env0 (mkTx [web3_url] [MEth]) = Reject REthMsgOutside.
Proof. vm_compute. reflexivity. Qed.
Example ex_dynfee : admission env0 (mkTx [dynfee_url] [MOther]) = Reject RUnknownExt.
Proof. vm_compute. reflexivity. Qed.
Example ex_dynfee_then_eth : admission env0 (mkTx [dynfee_url; eth_url] [MEth]) = Reject RUnknownExt.
Proof. vm_compute. reflexivity. Qed.
Example ex_unregistered : admission env0 (mkTx ["/verif.Unregistered"] [MOther]) = Reject RUndecodable.
Proof. vm_compute. reflexivity. Qed.
Example ex_eth_two_options : admission env0 (mkTx [eth_url; dynfee_url] [MEth]) = Reject REthOptCount.
Proof. vm_compute. reflexivity. Qed.
Example ex_eip712_two_options : admission env0 (mkTx [web3_url; dynfee_url] [MOther]) = Reject REipOptCount.
Proof. vm_compute. reflexivity. Qed.
Example ex_cosmos_msg_on_eth_path : admission env0 (mkTx [eth_url] [MEth; MOther]) = Reject REthNonEthMsg.
Proof. vm_compute. reflexivity. Qed.
Example ex_exec_eth : admission env0 (mkTx [] [MExec [MOther; MExec [MEth]]]) = Reject RAuthz.
Proof. vm_compute. reflexivity. Qed.
Example ex_grant_disabled : admission env0 (mkTx [web3_url] [MOther; MGrant true]) = Reject RAuthz.
Proof. vm_compute. reflexivity. Qed.
Example ex_siblings_tx :
  admission env0 (mkTx [] [MExec [MExec [MOther]; MExec [MOther]; MExec [MOther]; MExec [MOther]; MExec [MOther]]]) = Reject RAuthz.
Proof. vm_compute. reflexivity. Qed.
Example ex_vest_undecodable : admission env0 (mkTx [] [MExec [MVest]]) = Reject RUndecodable.
Proof. vm_compute. reflexivity. Qed.
Example ex_vest_if_registered :
  admission (mkEnv false [eth_url; web3_url; dynfee_url] true orc_true) (mkTx [] [MExec [MVest]]) = Reject RAuthz.
Proof. vm_compute. reflexivity. Qed.
(* an unsigned transaction stops at the first unmodelled check that objects, after the gate *)
Example ex_unsigned :
  admission (mkEnv false [eth_url; web3_url; dynfee_url] false (fun d _ => negb (d =? d_validate_basic)))
        (mkTx [web3_url; dynfee_url] [MOther]) = Reject (ROracle d_validate_basic).
Proof. vm_compute. reflexivity. Qed.
