(** Chain-level supply accounting over the node model (appended to property C06;
    ties C05 -- inflation mints exactly the provision --, C10 -- the CSR hook
    burns fee minus csr fee --, and C02 -- coinswap conserves value apart from
    the burned part of the pool-creation fee -- together at the level of whole
    block histories).

    The contribution functions [minted_of], [csr_burn_of], [swap_burn_of],
    [tx_burn_of] (Model/Chain.v) are explicit formulas of a step's inputs, not
    differences of the supply; the block result carries them as the block's
    mint / burn events ([r_minted], [r_burned]).  Proved here, for ALL block
    lists (induction over [run_blocks]; hence all prefixes) and all histories
    with restarts and reads: the acanto supply after the history is the supply
    before, plus the mint events, minus the burn events -- nothing else moves it. *)
From Coq Require Import ZArith List Bool Lia.
From Canto Require Import Lib.SdkInt Lib.SdkDec Model.Epochs Model.Chain Proofs.ChainProofs.
From Canto Require Model.Inflation Model.Coinswap Model.Csr Model.Authority.
From Canto Require Proofs.InflationProofs Proofs.CsrProofs.
Import ListNotations.
Open Scope Z_scope.

Definition supply (s : cstate) : Z := Inflation.st_supply (c_infl s).
Definition zsum := Inflation.zsum.
Definition minted_total (rs : list block_result) : Z := zsum (map r_minted rs).
Definition burned_total (rs : list block_result) : Z := zsum (map (fun r => zsum (r_burned r)) rs).

(* inversion of the option monad *)
Ltac oinv1 :=
  match goal with
  | H : obind ?o _ = Some _ |- _ =>
      let x := fresh "v" in let E := fresh "E" in
      destruct o as [x|] eqn:E; cbn [obind] in H; [|discriminate H]
  | H : (if ?b then _ else None) = Some _ |- _ =>
      let G := fresh "G" in destruct b eqn:G; [|discriminate H]
  | H : Some _ = Some _ |- _ => inversion H; subst; clear H
  | H : None = Some _ |- _ => discriminate H
  end.
Ltac oinv := repeat oinv1.

(** * x/inflation: the begin-blocker mints exactly [minted_of] *)
Lemma begin_blocker_supply b h s s1 :
  begin_blocker b h s = Some s1 -> supply s1 = supply s + minted_of b h s.
Proof.
  unfold begin_blocker, minted_of, Inflation.block. intros H.
  destruct (begin_block (b_time b) h (c_epochs s)) as [es' hs].
  rewrite InflationProofs.run_hooks_log_fst in H.
  destruct (Inflation.run_hooks_log (c_day s) (b_oracle b) hs (c_infl s)) as [[i l]|] eqn:E;
    cbn [obind] in H; [|discriminate H].
  inversion H; subst s1. unfold supply. cbn [c_infl].
  apply InflationProofs.run_hooks_log_supply in E. exact E.
Qed.

(** * x/coinswap: only the burned part of a creation fee in the standard coin moves the supply *)
Definition sstd (w : Coinswap.state) : Z := Coinswap.st_sup w Coinswap.Std.

Lemma send_sup w a b d amt w' :
  Coinswap.send w a b d amt = Some w' ->
  Coinswap.st_sup w' = Coinswap.st_sup w /\ Coinswap.st_params w' = Coinswap.st_params w /\
  Coinswap.st_pools w' = Coinswap.st_pools w /\ Coinswap.st_next w' = Coinswap.st_next w.
Proof.
  unfold Coinswap.send. destruct (amt =? 0).
  - intros H. inversion H. auto.
  - destruct (Coinswap.st_bal w a d <? amt); [discriminate|]. intros H. inversion H. cbn. auto.
Qed.

Lemma mint_sup w a d amt :
  Coinswap.st_sup (Coinswap.mint w a d amt) Coinswap.Std =
  Coinswap.st_sup w Coinswap.Std + (if Coinswap.denom_eqb Coinswap.Std d then amt else 0).
Proof.
  unfold Coinswap.mint. destruct (amt =? 0) eqn:E.
  - apply Z.eqb_eq in E. subst. destruct (Coinswap.denom_eqb _ _); lia.
  - cbn [Coinswap.set_bank Coinswap.st_sup]. unfold Coinswap.upd_sup.
    destruct (Coinswap.denom_eqb Coinswap.Std d) eqn:D; [|lia].
    destruct d; try discriminate D. lia.
Qed.

Lemma burn_sup w a d amt w' :
  Coinswap.burn w a d amt = Some w' ->
  Coinswap.st_sup w' Coinswap.Std =
  Coinswap.st_sup w Coinswap.Std - (if Coinswap.denom_eqb Coinswap.Std d then amt else 0).
Proof.
  unfold Coinswap.burn. destruct (amt =? 0) eqn:E.
  - apply Z.eqb_eq in E. subst. intros H. inversion H. destruct (Coinswap.denom_eqb _ _); lia.
  - destruct (_ || _); [discriminate|]. intros H. inversion H.
    cbn [Coinswap.set_bank Coinswap.st_sup]. unfold Coinswap.upd_sup.
    destruct (Coinswap.denom_eqb Coinswap.Std d) eqn:D; [|lia].
    destruct d; try discriminate D. lia.
Qed.

(* turn every successful send / burn in the context into its effect on the supply of the standard coin *)
Ltac sup_facts :=
  repeat match goal with
  | H : Coinswap.send _ _ _ _ _ = Some _ |- _ =>
      let S := fresh "S" in
      apply send_sup in H; destruct H as (S & _);
      apply (f_equal (fun f => f Coinswap.Std)) in S; cbv beta in S
  | H : Coinswap.burn _ _ _ _ = Some _ |- _ =>
      apply burn_sup in H; cbn [Coinswap.denom_eqb] in H
  end.

Lemma trade_sell_sup w sender rc din ain dout mo w' r :
  Coinswap.trade_sell w sender rc din ain dout mo = Some (w', r) -> sstd w' = sstd w.
Proof.
  unfold Coinswap.trade_sell. intros H. oinv.
  destruct (Coinswap.quote din ain dout v0) as [qd qa]. oinv.
  sup_facts. unfold sstd. lia.
Qed.

Lemma trade_buy_sup w sender rc din mi dout aout w' r :
  Coinswap.trade_buy w sender rc din mi dout aout = Some (w', r) -> sstd w' = sstd w.
Proof.
  unfold Coinswap.trade_buy. intros H. oinv.
  destruct (Coinswap.quote dout aout din v0) as [qd qa]. oinv.
  sup_facts. unfold sstd. lia.
Qed.

Lemma add_transfer_sup w sender q tok a b m w' r :
  Coinswap.add_transfer w sender q tok a b m = Some (w', r) -> sstd w' = sstd w.
Proof.
  unfold Coinswap.add_transfer. intros H. oinv.
  sup_facts. rewrite mint_sup in *. cbn [Coinswap.denom_eqb] in *. unfold sstd. lia.
Qed.

Definition creation_burn (p : Coinswap.params) : Z :=
  if Coinswap.denom_eqb (Coinswap.p_cfee_denom p) Coinswap.Std
  then match Coinswap.tax_part (Coinswap.p_cfee_amt p) (Coinswap.p_tax p) with
       | Some tax => Coinswap.p_cfee_amt p - tax
       | None => 0
       end
  else 0.

Lemma burn_params w a d amt w' : Coinswap.burn w a d amt = Some w' -> Coinswap.st_params w' = Coinswap.st_params w.
Proof.
  unfold Coinswap.burn. destruct (_ =? 0); [intros X; inversion X; reflexivity|].
  destruct (_ || _); [discriminate|]. intros X. inversion X. reflexivity.
Qed.

Lemma deduct_creation_fee_sup w c w' :
  Coinswap.deduct_creation_fee w c = Some w' ->
  sstd w' = sstd w - creation_burn (Coinswap.st_params w) /\
  Coinswap.st_params w' = Coinswap.st_params w.
Proof.
  unfold Coinswap.deduct_creation_fee, creation_burn. intros H. oinv.
  split.
  - sup_facts. unfold sstd.
    destruct (Coinswap.p_cfee_denom (Coinswap.st_params w)); cbn [Coinswap.denom_eqb] in *; lia.
  - apply burn_params in H. rewrite H.
    repeat match goal with
    | X : Coinswap.send _ _ _ _ _ = Some _ |- _ => apply send_sup in X; destruct X as (_ & ? & _)
    end. congruence.
Qed.

Lemma add_liquidity_sup w sender n mt es ml w' r :
  Coinswap.add_liquidity w sender n mt es ml = Some (w', r) ->
  sstd w' = sstd w - match Coinswap.lookup_pool n (Coinswap.st_pools w) with
                     | Some _ => 0
                     | None => creation_burn (Coinswap.st_params w)
                     end.
Proof.
  unfold Coinswap.add_liquidity. intros H. oinv.
  destruct (Coinswap.lookup_pool n (Coinswap.st_pools w)) as [q|].
  - destruct (Coinswap.st_sup w (Coinswap.Lpt q) =? 0).
    + oinv. apply add_transfer_sup in H. lia.
    + oinv. apply add_transfer_sup in H. lia.
  - oinv. apply deduct_creation_fee_sup in E as (S1 & _).
    apply add_transfer_sup in H. unfold sstd in *. cbn [Coinswap.st_sup] in H. lia.
Qed.

Lemma remove_liquidity_sup w sender q wd ms mt w' r :
  Coinswap.remove_liquidity w sender q wd ms mt = Some (w', r) -> sstd w' = sstd w.
Proof.
  unfold Coinswap.remove_liquidity. intros H. oinv.
  sup_facts. unfold sstd. lia.
Qed.

Lemma swap_burn_of_creation w n :
  forall s' m e l d,
  swap_burn_of w (Coinswap.AddLiq s' (Coinswap.Tok n) m e l d) =
  match Coinswap.lookup_pool n (Coinswap.st_pools w) with
  | Some _ => 0
  | None => creation_burn (Coinswap.st_params w)
  end.
Proof. intros. unfold swap_burn_of, creation_burn. destruct (Coinswap.lookup_pool _ _); reflexivity. Qed.

Lemma exec_sup now w o w' r :
  Coinswap.exec now w o = Some (w', r) -> sstd w' = sstd w - swap_burn_of w o.
Proof.
  destruct o as [sender rc din ain dout mo dl|sender rc din mi dout aout dl|sender tok mt es ml dl
                |sender lpt wd ms mt dl|from to d amt|who din mi th|p|]; cbn [Coinswap.exec]; intros H.
  - oinv. destruct v as [w1 r1]. apply trade_sell_sup in E. cbn [fst swap_burn_of]. lia.
  - oinv. destruct v as [w1 r1]. apply trade_buy_sup in E. cbn [fst swap_burn_of]. lia.
  - oinv. destruct tok as [|n|q]; [discriminate H| |discriminate H].
    oinv. destruct v as [w1 r1]. apply add_liquidity_sup in E. rewrite swap_burn_of_creation. cbn [fst]. exact E.
  - oinv. destruct lpt as [|n|q]; [discriminate H|discriminate H|].
    oinv. destruct v as [w1 r1]. apply remove_liquidity_sup in E. cbn [fst swap_burn_of]. lia.
  - oinv. apply send_sup in E as (S1 & _). unfold sstd. rewrite S1. cbn [swap_burn_of]. lia.
  - oinv. destruct v as [w1 r1]. apply trade_buy_sup in E. cbn [fst swap_burn_of]. lia.
  - oinv. unfold sstd. cbn [Coinswap.st_sup swap_burn_of]. lia.
  - discriminate H.
Qed.

(** * x/csr: a successful hook burns exactly [csr_burn_of] and leaves the module account as it was *)
Lemma distribute_money m n a m' :
  Csr.distribute m n a = Some m' ->
  Csr.supply m' = Csr.supply m /\ Csr.module_acct m' = Csr.module_acct m - a.
Proof. unfold Csr.distribute. intros H. oinv. cbn. auto. Qed.

Lemma int_sub_some a b r : SdkInt.sub a b = Some r -> r = a - b.
Proof. unfold SdkInt.sub, SdkInt.chk. destruct (SdkInt.overflows _); [discriminate|]. intros H. inversion H. reflexivity. Qed.

Lemma post_tx_money t r r' :
  Csr.post_tx t r = Some r' ->
  Csr.supply (Csr.mon r') = Csr.supply (Csr.mon r) - csr_burn_of t r /\
  Csr.cfg r' = Csr.cfg r /\
  (0 <= Csr.share (Csr.cfg r) -> Csr.module_acct (Csr.mon r') = Csr.module_acct (Csr.mon r)).
Proof.
  unfold Csr.post_tx, csr_burn_of. intros H.
  destruct (negb (Csr.enable (Csr.cfg r))).
  { inversion H. split; [lia|auto]. }
  destruct (Csr.turnstile (Csr.cfg r)) as [ts|]; [|discriminate H].
  destruct (Csr.tx_gas_used t =? 0).
  { inversion H. cbn. split; [lia|auto]. }
  destruct (Csr.fee_of t) as [fee|] eqn:Ef; cbn [obind] in H; [|discriminate H].
  pose proof (CsrProofs.fee_of_nonneg _ _ Ef) as Hfee.
  destruct (Csr.send_fee (Csr.mon r) fee) as [m1|] eqn:E1; cbn [obind] in H; [|discriminate H].
  destruct (CsrProofs.send_fee_eff _ _ _ E1) as (_ & A2 & A3 & _).
  destruct (match Csr.tx_to t with Some c => Csr.byc _ c | None => None end) as [n|].
  - destruct (Csr.csrs _ n) as [rec|]; [|discriminate H].
    destruct (Csr.csr_fee_of fee (Csr.share (Csr.cfg r))) as [cf|] eqn:Ec; cbn [obind] in H; [|discriminate H].
    destruct (SdkInt.sub fee cf) as [rem|] eqn:Es; cbn [obind] in H; [|discriminate H].
    apply int_sub_some in Es. subst rem.
    destruct (0 <=? fee - cf); [|discriminate H].
    destruct (if 0 <? cf then Csr.distribute m1 n cf else Some m1) as [m2|] eqn:Ed; cbn [obind] in H; [|discriminate H].
    destruct (Csr.burn m2 (fee - cf)) as [m3|] eqn:Eb; cbn [obind] in H; [|discriminate H].
    destruct (SdkInt.add _ cf); cbn [obind] in H; [|discriminate H].
    inversion H; subst r'. cbn [Csr.mon Csr.cfg].
    destruct (CsrProofs.burn_eff _ _ _ Eb) as (_ & B2 & B3 & _).
    split; [|split; [reflexivity|]].
    + destruct (0 <? cf).
      * apply distribute_money in Ed as (D1 & _). lia.
      * inversion Ed; subst m2. lia.
    + intros Hsh. pose proof (CsrProofs.csr_fee_nonneg _ _ _ Hfee Hsh Ec) as Hcf.
      destruct (0 <? cf) eqn:Ez.
      * apply distribute_money in Ed as (_ & D2). lia.
      * apply Z.ltb_ge in Ez. inversion Ed; subst m2. lia.
  - destruct (Csr.burn m1 fee) as [m2|] eqn:Eb; cbn [obind] in H; [|discriminate H].
    inversion H; subst r'. cbn [Csr.mon Csr.cfg].
    destruct (CsrProofs.burn_eff _ _ _ Eb) as (_ & B2 & B3 & _).
    split; [lia|]. split; [reflexivity|]. intros _. lia.
Qed.

(** * One transaction *)
Lemma apply_update_supply u s s' : apply_update u s = Some s' -> supply s' = supply s.
Proof.
  destruct u as [p|x]; cbn [apply_update]; intros H; oinv; reflexivity.
Qed.

Lemma ante_supply t s sa : ante t s = Some sa -> supply sa = supply s.
Proof.
  destruct t as [o|sender limit aok cok eok e|auth u|acc]; cbn [ante]; intros H; oinv; reflexivity.
Qed.

Lemma csr_with_fee_eq e r0 fee :
  Csr.fee_of e = Some fee ->
  csr_with_fee e r0 =
  Csr.mkState (Csr.reg r0)
    (Csr.mkMoney (Csr.collector (Csr.mon r0) + fee) (Csr.module_acct (Csr.mon r0)) (Csr.supply (Csr.mon r0))
                 (Csr.ts_acct (Csr.mon r0)) (Csr.ts_bal (Csr.mon r0)))
    (Csr.cfg r0).
Proof. intros H. unfold csr_with_fee. rewrite H. reflexivity. Qed.

Lemma swap_step_supply now s o r :
  Coinswap.exec now (c_swap s) o = Some r ->
  supply (with_csr (with_infl (with_swap s (fst r))
            (infl_add_supply (Coinswap.st_sup (fst r) Coinswap.Std - Coinswap.st_sup (c_swap s) Coinswap.Std) (c_infl s)))
            (csr_add_supply (Coinswap.st_sup (fst r) Coinswap.Std - Coinswap.st_sup (c_swap s) Coinswap.Std) (c_csr s)))
  = supply s - swap_burn_of (c_swap s) o.
Proof.
  destruct r as [w r]. intros Ex. apply exec_sup in Ex. unfold sstd in Ex. unfold supply. cbn. lia.
Qed.

Lemma exec_msgs_supply now t s s' :
  exec_msgs now t s = Some s' -> supply s' = supply s - tx_burn_of t s.
Proof.
  destruct t as [o|sender limit aok cok eok e|auth u|acc]; cbn [exec_msgs tx_burn_of]; intros H.
  - destruct o; try discriminate H;
      (destruct (Coinswap.exec now (c_swap s) _) as [r|] eqn:Ex; cbn [obind] in H; [|discriminate H];
       injection H as <-; apply (swap_step_supply now); exact Ex).
  - oinv. rewrite <- (csr_with_fee_eq e (c_csr s) v E).
    set (r1 := csr_with_fee e (c_csr s)).
    assert (S1 : Csr.supply (Csr.mon r1) = Csr.supply (Csr.mon (c_csr s))).
    { unfold r1. rewrite (csr_with_fee_eq _ _ _ E). reflexivity. }
    unfold supply. cbn [with_csr with_infl with_swap c_infl infl_add_supply Inflation.with_ledger Inflation.st_supply].
    destruct eok.
    + unfold Csr.deliver. destruct (Csr.post_tx e r1) as [r2|] eqn:Ep.
      * apply post_tx_money in Ep as (P1 & _). lia.
      * lia.
    + lia.
  - oinv. apply apply_update_supply in H. lia.
  - oinv. lia.
Qed.

Lemma deliver_tx_supply now s t :
  supply (fst (deliver_tx now s t)) =
  supply s - (if snd (deliver_tx now s t)
              then match ante t s with Some sa => tx_burn_of t sa | None => 0 end else 0).
Proof.
  unfold deliver_tx. destruct (ante t s) as [sa|] eqn:Ea; cbn [fst snd]; [|lia].
  apply ante_supply in Ea.
  destruct (exec_msgs now t sa) as [s2|] eqn:Ex; cbn [fst snd]; [|lia].
  apply exec_msgs_supply in Ex. lia.
Qed.

Lemma deliver_txs_supply now ts : forall s,
  supply (fst (deliver_txs now ts s)) = supply s - zsum (burns_of now ts s).
Proof.
  induction ts as [|t r IH]; intros s; cbn [deliver_txs burns_of].
  - cbn. lia.
  - pose proof (deliver_tx_supply now s t) as D.
    destruct (deliver_tx now s t) as [s1 ok]. cbn [fst snd] in D.
    specialize (IH s1). destruct (deliver_txs now r s1) as [s2 cs]. cbn [fst] in *.
    unfold zsum in *. cbn [Inflation.zsum]. lia.
Qed.

Lemma end_blocker_supply us : forall s, supply (end_blocker us s) = supply s.
Proof.
  induction us as [|u r IH]; intros s; cbn [end_blocker]; [reflexivity|].
  rewrite IH. destruct (apply_update u s) as [s'|] eqn:E; [apply apply_update_supply in E; exact E|reflexivity].
Qed.

(** * One block, then every block list *)
Lemma run_block_supply b n :
  supply (committed (fst (run_block b n))) =
  supply (committed n) + r_minted (snd (run_block b n)) - zsum (r_burned (snd (run_block b n))).
Proof.
  unfold run_block.
  destruct (begin_blocker b (height n + 1) (committed n)) as [s1|] eqn:Hb.
  - pose proof (deliver_txs_supply (b_time b) (b_txs b) s1) as D.
    destruct (deliver_txs (b_time b) (b_txs b) s1) as [s2 codes]. cbn [fst snd committed r_minted r_burned] in *.
    rewrite end_blocker_supply, D. apply begin_blocker_supply in Hb. lia.
  - cbn [fst snd r_minted r_burned]. cbn. lia.
Qed.

Theorem supply_accounting : forall bs n,
  supply (committed (fst (run_blocks bs n))) =
  supply (committed n) + minted_total (snd (run_blocks bs n)) - burned_total (snd (run_blocks bs n)).
Proof.
  induction bs as [|b r IH]; intros n; cbn [run_blocks].
  - cbn. lia.
  - pose proof (run_block_supply b n) as B.
    destruct (run_block b n) as [n1 res]. cbn [fst snd] in B.
    specialize (IH n1). destruct (run_blocks r n1) as [n2 rs]. cbn [fst snd] in *.
    unfold minted_total, burned_total, zsum in *. cbn [map Inflation.zsum]. lia.
Qed.

(* at every height: for every prefix of the block list *)
Corollary supply_accounting_every_height : forall bs n (k : nat),
  supply (committed (fst (run_blocks (firstn k bs) n))) =
  supply (committed n) + minted_total (firstn k (snd (run_blocks bs n))) - burned_total (firstn k (snd (run_blocks bs n))).
Proof.
  intros bs n k. rewrite <- results_prefix. apply supply_accounting.
Qed.

(* restarts, queries, mempool checks and simulations contribute nothing: the same equation over
   the block results of any history *)
Corollary supply_accounting_history : forall h n,
  supply (committed (fst (run_ops h n))) =
  supply (committed n) + minted_total (results_of (snd (run_ops h n))) - burned_total (results_of (snd (run_ops h n))).
Proof.
  intros h n. destruct (run_ops_as_blocks h n) as [R [Ec _]]. rewrite R, Ec. apply supply_accounting.
Qed.

(** * What contributes nothing *)
Lemma burns_of_rejected now t r s :
  snd (deliver_tx now s t) = false -> hd 0 (burns_of now (t :: r) s) = 0.
Proof.
  cbn [burns_of]. destruct (deliver_tx now s t) as [s1 ok]. cbn [snd]. intros ->. reflexivity.
Qed.

Lemma zero_contributions :
  (forall s a u, tx_burn_of (TxParams a u) s = 0) /\
  (forall s acc, tx_burn_of (TxOther acc) s = 0) /\
  (forall s sender limit aok cok e, tx_burn_of (TxEvm sender limit aok cok false e) s = 0) /\
  (forall s o, match o with Coinswap.AddLiq _ _ _ _ _ _ => False | _ => True end -> tx_burn_of (TxSwap o) s = 0) /\
  (forall s sender n q mt es ml dl, Coinswap.lookup_pool n (Coinswap.st_pools (c_swap s)) = Some q ->
     tx_burn_of (TxSwap (Coinswap.AddLiq sender (Coinswap.Tok n) mt es ml dl)) s = 0) /\
  (forall s sender n mt es ml dl,
     Coinswap.denom_eqb (Coinswap.p_cfee_denom (Coinswap.st_params (c_swap s))) Coinswap.Std = false ->
     tx_burn_of (TxSwap (Coinswap.AddLiq sender (Coinswap.Tok n) mt es ml dl)) s = 0) /\
  (forall us s, supply (end_blocker us s) = supply s).
Proof.
  repeat split; try reflexivity.
  - intros s o Ho. destruct o; try reflexivity. contradiction.
  - intros s sender n q mt es ml dl Hq. cbn [tx_burn_of swap_burn_of]. rewrite Hq. reflexivity.
  - intros s sender n mt es ml dl Hd. cbn [tx_burn_of swap_burn_of]. rewrite Hd.
    destruct (Coinswap.lookup_pool _ _); reflexivity.
  - intros us s. apply end_blocker_supply.
Qed.

(** * Module accounts *)

(** ** the inflation module account is empty after every block (it is emptied by every mint and
       touched by nothing else) *)
Definition infl_module (s : cstate) : Z := Inflation.st_module (c_infl s).

Lemma after_epoch_end_module day o id n i i' :
  Inflation.after_epoch_end day o id n i = Some i' -> Inflation.st_module i = 0 -> Inflation.st_module i' = 0.
Proof.
  unfold Inflation.after_epoch_end, Inflation.mint_and_allocate. intros H H0.
  destruct (negb (Inflation.p_enable (Inflation.st_params i))).
  - destruct (negb (id =? day)); inversion H; subst; [exact H0|cbn; exact H0].
  - destruct (negb (id =? Inflation.st_ident i)); [inversion H; subst; exact H0|].
    oinv. destruct (Inflation.period_passed n _); oinv; reflexivity.
Qed.

Lemma run_hooks_module day o hs : forall i i',
  Inflation.run_hooks day o hs i = Some i' -> Inflation.st_module i = 0 -> Inflation.st_module i' = 0.
Proof.
  induction hs as [|k r IH]; intros i i' H H0; cbn [Inflation.run_hooks] in H.
  - inversion H; subst. exact H0.
  - destruct k as [id n|id n].
    + oinv. eapply IH; [exact H|]. eapply after_epoch_end_module; eassumption.
    + eapply IH; eassumption.
Qed.

Lemma begin_blocker_module b h s s1 :
  begin_blocker b h s = Some s1 -> infl_module s = 0 -> infl_module s1 = 0.
Proof.
  unfold begin_blocker, Inflation.block, infl_module. intros H H0.
  destruct (begin_block (b_time b) h (c_epochs s)) as [es' hs].
  destruct (Inflation.run_hooks (c_day s) (b_oracle b) hs (c_infl s)) as [i|] eqn:E; cbn [obind] in H; [|discriminate H].
  inversion H; subst s1. cbn [c_infl]. eapply run_hooks_module; eassumption.
Qed.

Lemma apply_update_module u s s' : apply_update u s = Some s' -> infl_module s' = infl_module s.
Proof. destruct u as [p|x]; cbn [apply_update]; intros H; oinv; reflexivity. Qed.

Lemma deliver_tx_module now s t : infl_module (fst (deliver_tx now s t)) = infl_module s.
Proof.
  unfold deliver_tx.
  assert (A : forall sa, ante t s = Some sa -> infl_module sa = infl_module s).
  { destruct t; cbn [ante]; intros sa H; oinv; reflexivity. }
  destruct (ante t s) as [sa|]; cbn [fst]; [|reflexivity].
  rewrite <- (A sa eq_refl).
  destruct (exec_msgs now t sa) as [s2|] eqn:Ex; cbn [fst]; [|reflexivity].
  destruct t as [o|sender limit aok cok eok e|auth u|acc]; cbn [exec_msgs] in Ex.
  - destruct o; try discriminate Ex; oinv; reflexivity.
  - oinv. reflexivity.
  - oinv. eapply apply_update_module; eassumption.
  - oinv. reflexivity.
Qed.

Lemma deliver_txs_module now ts : forall s, infl_module (fst (deliver_txs now ts s)) = infl_module s.
Proof.
  induction ts as [|t r IH]; intros s; cbn [deliver_txs]; [reflexivity|].
  pose proof (deliver_tx_module now s t) as D. destruct (deliver_tx now s t) as [s1 ok]. cbn [fst] in D.
  specialize (IH s1). destruct (deliver_txs now r s1) as [s2 cs]. cbn [fst] in *. congruence.
Qed.

Lemma end_blocker_module us : forall s, infl_module (end_blocker us s) = infl_module s.
Proof.
  induction us as [|u r IH]; intros s; cbn [end_blocker]; [reflexivity|].
  rewrite IH. destruct (apply_update u s) as [s'|] eqn:E; [eapply apply_update_module; exact E|reflexivity].
Qed.

Theorem inflation_module_empty : forall bs n,
  infl_module (committed n) = 0 -> infl_module (committed (fst (run_blocks bs n))) = 0.
Proof.
  induction bs as [|b r IH]; intros n H0; cbn [run_blocks]; [exact H0|].
  assert (B : infl_module (committed (fst (run_block b n))) = 0).
  { unfold run_block. destruct (begin_blocker b (height n + 1) (committed n)) as [s1|] eqn:Hb; [|exact H0].
    pose proof (deliver_txs_module (b_time b) (b_txs b) s1) as D.
    destruct (deliver_txs (b_time b) (b_txs b) s1) as [s2 codes]. cbn [fst committed] in *.
    rewrite end_blocker_module, D. eapply begin_blocker_module; eassumption. }
  destruct (run_block b n) as [n1 res]. cbn [fst] in B.
  specialize (IH n1 B). destruct (run_blocks r n1) as [n2 rs]. exact IH.
Qed.

(** ** the csr module account is left unchanged by every block, as long as the csr share is not
       negative (ValidateShares; governance cannot make it negative) *)
Definition csr_module (s : cstate) : Z := Csr.module_acct (Csr.mon (c_csr s)).
Definition shares_ok (s : cstate) : Prop :=
  0 <= Csr.share (Csr.cfg (c_csr s)) /\ 0 <= Authority.csr_shares (Authority.c_csr (c_auth s)).

Lemma authority_exec_shares gov (x : Authority.op unit) (a a' : Authority.chain unit) :
  Authority.exec gov x a = Some a' ->
  0 <= Authority.csr_shares (Authority.c_csr a) -> 0 <= Authority.csr_shares (Authority.c_csr a').
Proof.
  destruct x; cbn [Authority.exec]; intros H H0; oinv; cbn [Authority.c_csr]; try exact H0.
  unfold Authority.update_params in E. oinv. unfold Authority.csr_set_param_set in E. oinv.
  cbn [Authority.csr_shares]. unfold Authority.csr_v_shares in G2.
  apply andb_prop in G2 as [G2 _]. apply negb_true_iff in G2. apply Z.ltb_ge in G2. exact G2.
Qed.

Lemma apply_update_csr u s s' :
  apply_update u s = Some s' -> shares_ok s -> shares_ok s' /\ csr_module s' = csr_module s.
Proof.
  destruct u as [p|x]; cbn [apply_update]; intros H [H1 H2]; oinv.
  - split; [split; assumption|reflexivity].
  - pose proof (authority_exec_shares _ _ _ _ E H2) as H3.
    split; [split; cbn; exact H3|reflexivity].
Qed.

Lemma deliver_tx_csr now s t :
  shares_ok s -> shares_ok (fst (deliver_tx now s t)) /\ csr_module (fst (deliver_tx now s t)) = csr_module s.
Proof.
  intros Hs. unfold deliver_tx.
  assert (A : forall sa, ante t s = Some sa -> c_csr sa = c_csr s /\ c_auth sa = c_auth s).
  { destruct t; cbn [ante]; intros sa H; oinv; split; reflexivity. }
  destruct (ante t s) as [sa|]; cbn [fst]; [|split; [exact Hs|reflexivity]].
  destruct (A sa eq_refl) as [A1 A2].
  assert (Hsa : shares_ok sa) by (unfold shares_ok; rewrite A1, A2; exact Hs).
  assert (Hm : csr_module sa = csr_module s) by (unfold csr_module; rewrite A1; reflexivity).
  destruct (exec_msgs now t sa) as [s2|] eqn:Ex; cbn [fst]; [|split; assumption].
  rewrite <- Hm. clear A A1 A2 Hm Hs.
  destruct t as [o|sender limit aok cok eok e|auth u|acc]; cbn [exec_msgs] in Ex.
  - destruct o; try discriminate Ex; oinv; (split; [exact Hsa|reflexivity]).
  - oinv. destruct Hsa as [H1 H2].
    set (r1 := Csr.mkState _ _ _) in *.
    assert (G : shares_ok (with_csr (with_infl (with_swap sa (swap_add_supply
                 (Csr.supply (Csr.mon (if eok then Csr.deliver e r1 else r1)) - Csr.supply (Csr.mon (c_csr sa))) v2))
                 (infl_add_supply (Csr.supply (Csr.mon (if eok then Csr.deliver e r1 else r1)) - Csr.supply (Csr.mon (c_csr sa))) (c_infl sa)))
                 (if eok then Csr.deliver e r1 else r1)) /\
               Csr.module_acct (Csr.mon (if eok then Csr.deliver e r1 else r1)) = Csr.module_acct (Csr.mon (c_csr sa))).
    { destruct eok; [|split; [split; [exact H1|exact H2]|reflexivity]].
      unfold Csr.deliver. destruct (Csr.post_tx e r1) as [r2|] eqn:Ep; [|split; [split; [exact H1|exact H2]|reflexivity]].
      apply post_tx_money in Ep as (_ & Pc & Pm).
      split; [split; [cbn [with_csr c_csr]; rewrite Pc; exact H1|exact H2]|].
      rewrite (Pm H1). reflexivity. }
    exact G.
  - oinv. eapply apply_update_csr; eassumption.
  - oinv. split; [exact Hsa|reflexivity].
Qed.

Lemma deliver_txs_csr now ts : forall s,
  shares_ok s -> shares_ok (fst (deliver_txs now ts s)) /\ csr_module (fst (deliver_txs now ts s)) = csr_module s.
Proof.
  induction ts as [|t r IH]; intros s Hs; cbn [deliver_txs]; [split; [exact Hs|reflexivity]|].
  destruct (deliver_tx_csr now s t Hs) as [D1 D2]. destruct (deliver_tx now s t) as [s1 ok]. cbn [fst] in D1, D2.
  destruct (IH s1 D1) as [I1 I2]. destruct (deliver_txs now r s1) as [s2 cs]. cbn [fst] in *.
  split; [exact I1|congruence].
Qed.

Lemma end_blocker_csr us : forall s,
  shares_ok s -> shares_ok (end_blocker us s) /\ csr_module (end_blocker us s) = csr_module s.
Proof.
  induction us as [|u r IH]; intros s Hs; cbn [end_blocker]; [split; [exact Hs|reflexivity]|].
  destruct (apply_update u s) as [s'|] eqn:E.
  - destruct (apply_update_csr _ _ _ E Hs) as [A1 A2]. destruct (IH s' A1) as [I1 I2]. split; [exact I1|congruence].
  - apply IH. exact Hs.
Qed.

Lemma csr_begin_block_frame d fresh r :
  Csr.share (Csr.cfg (csr_begin_block fresh (csr_add_supply d r))) = Csr.share (Csr.cfg r) /\
  Csr.module_acct (Csr.mon (csr_begin_block fresh (csr_add_supply d r))) = Csr.module_acct (Csr.mon r).
Proof.
  unfold csr_begin_block, csr_add_supply. cbn.
  destruct (Csr.turnstile (Csr.cfg r)); [cbn; auto|].
  destruct (Csr.enable (Csr.cfg r)); cbn; auto.
Qed.

Lemma begin_blocker_csr b h s s1 :
  begin_blocker b h s = Some s1 -> shares_ok s -> shares_ok s1 /\ csr_module s1 = csr_module s.
Proof.
  unfold begin_blocker. intros H [H1 H2]. oinv. destruct v as [es i]. inversion H; subst s1.
  unfold shares_ok, csr_module. cbn [c_csr c_auth].
  destruct (csr_begin_block_frame (Inflation.st_supply i - Inflation.st_supply (c_infl s)) (b_fresh b) (c_csr s)) as [Q1 Q2].
  rewrite Q1, Q2. split; [split; assumption|reflexivity].
Qed.

Theorem csr_module_unchanged : forall bs n,
  shares_ok (committed n) ->
  shares_ok (committed (fst (run_blocks bs n))) /\
  csr_module (committed (fst (run_blocks bs n))) = csr_module (committed n).
Proof.
  induction bs as [|b r IH]; intros n Hs; cbn [run_blocks]; [split; [exact Hs|reflexivity]|].
  assert (B : shares_ok (committed (fst (run_block b n))) /\
              csr_module (committed (fst (run_block b n))) = csr_module (committed n)).
  { unfold run_block. destruct (begin_blocker b (height n + 1) (committed n)) as [s1|] eqn:Hb;
      [|split; [exact Hs|reflexivity]].
    destruct (begin_blocker_csr _ _ _ _ Hb Hs) as [B1 B2].
    destruct (deliver_txs_csr (b_time b) (b_txs b) s1 B1) as [D1 D2].
    destruct (deliver_txs (b_time b) (b_txs b) s1) as [s2 codes]. cbn [fst committed] in *.
    destruct (end_blocker_csr (b_gov b) s2 D1) as [E1 E2]. split; [exact E1|congruence]. }
  destruct (run_block b n) as [n1 res]. cbn [fst] in B. destruct B as [B1 B2].
  destruct (IH n1 B1) as [I1 I2]. destruct (run_blocks r n1) as [n2 rs]. cbn [fst] in *.
  split; [exact I1|congruence].
Qed.

(** ** the coinswap module account (standard coin) is left unchanged by every block: it only ever
       holds a creation fee between its arrival and its split into tax and burn, and pool tokens
       between mint and hand-over.  (A bank transfer straight to the module account would of course
       change it; the real bank refuses it -- blocked address --, the keeper-level [Donate] of the
       model does not, hence the side condition.) *)
Definition mcb (w : Coinswap.state) : Z := Coinswap.st_bal w Coinswap.M_coinswap Coinswap.Std.
Definition hits (x : Coinswap.acct) (d : Coinswap.denom) : bool :=
  Coinswap.acct_eqb Coinswap.M_coinswap x && Coinswap.denom_eqb Coinswap.Std d.
Definition swap_module (s : cstate) : Z := mcb (c_swap s).

Lemma acct_eqb_module_true x : Coinswap.acct_eqb Coinswap.M_coinswap x = true -> x = Coinswap.M_coinswap.
Proof.
  destruct x as [n|n|n]; unfold Coinswap.M_coinswap; cbn [Coinswap.acct_eqb]; intros H; try discriminate H.
  apply Z.eqb_eq in H. subst n. reflexivity.
Qed.

Lemma hits_true x d : hits x d = true -> x = Coinswap.M_coinswap /\ d = Coinswap.Std.
Proof.
  unfold hits. intros H. apply andb_prop in H as [A D].
  apply acct_eqb_module_true in A.
  destruct d; cbn [Coinswap.denom_eqb] in D; try discriminate D. split; [exact A|reflexivity].
Qed.

Lemma send_mcb w a b d amt w' :
  Coinswap.send w a b d amt = Some w' ->
  mcb w' = mcb w - (if hits a d then amt else 0) + (if hits b d then amt else 0).
Proof.
  unfold Coinswap.send. destruct (amt =? 0) eqn:Z0.
  - apply Z.eqb_eq in Z0. subst amt. intros H. inversion H; subst w'.
    destruct (hits a d), (hits b d); lia.
  - destruct (Coinswap.st_bal w a d <? amt); [discriminate|]. intros H. inversion H; subst w'.
    unfold mcb. cbn [Coinswap.set_bank Coinswap.st_bal]. unfold Coinswap.upd_bal.
    fold (hits b d). fold (hits a d).
    destruct (hits b d) eqn:Hb.
    + apply hits_true in Hb as [-> ->]. cbn [Coinswap.denom_eqb]. rewrite andb_true_r.
      change (Coinswap.acct_eqb Coinswap.M_coinswap a) with (Coinswap.acct_eqb Coinswap.M_coinswap a).
      unfold hits. cbn [Coinswap.denom_eqb]. rewrite andb_true_r.
      destruct (Coinswap.acct_eqb Coinswap.M_coinswap a) eqn:Ea; [|lia].
      apply acct_eqb_module_true in Ea. subst a. lia.
    + destruct (hits a d) eqn:Ha; [|lia]. apply hits_true in Ha as [-> ->]. lia.
Qed.

Lemma mint_mcb w a d amt :
  mcb (Coinswap.mint w a d amt) = mcb w + (if hits a d then amt else 0).
Proof.
  unfold Coinswap.mint. destruct (amt =? 0) eqn:Z0.
  - apply Z.eqb_eq in Z0. subst. destruct (hits a d); lia.
  - unfold mcb. cbn [Coinswap.set_bank Coinswap.st_bal]. unfold Coinswap.upd_bal. fold (hits a d).
    destruct (hits a d) eqn:Ha; [|lia]. apply hits_true in Ha as [-> ->]. lia.
Qed.

Lemma burn_mcb w a d amt w' :
  Coinswap.burn w a d amt = Some w' -> mcb w' = mcb w - (if hits a d then amt else 0).
Proof.
  unfold Coinswap.burn. destruct (amt =? 0) eqn:Z0.
  - apply Z.eqb_eq in Z0. subst. intros H. inversion H. destruct (hits a d); lia.
  - destruct (_ || _); [discriminate|]. intros H. inversion H.
    unfold mcb. cbn [Coinswap.set_bank Coinswap.st_bal]. unfold Coinswap.upd_bal. fold (hits a d).
    destruct (hits a d) eqn:Ha; [|lia]. apply hits_true in Ha as [-> ->]. lia.
Qed.

Lemma hits_user n d : hits (Coinswap.User n) d = false.        Proof. reflexivity. Qed.
Lemma hits_escrow q d : hits (Coinswap.Escrow q) d = false.    Proof. reflexivity. Qed.
Lemma hits_collector d : hits Coinswap.M_feecollector d = false. Proof. reflexivity. Qed.
Lemma hits_lpt x q : hits x (Coinswap.Lpt q) = false.
Proof. unfold hits. cbn [Coinswap.denom_eqb]. apply andb_false_r. Qed.
Lemma hits_tok x n : hits x (Coinswap.Tok n) = false.
Proof. unfold hits. cbn [Coinswap.denom_eqb]. apply andb_false_r. Qed.
Lemma hits_not_module x d : Coinswap.is_module x = false -> hits x d = false.
Proof. destruct x; cbn; [reflexivity|reflexivity|discriminate]. Qed.

(* every successful send / mint / burn in the context, as its effect on the module account *)
Ltac mcb_facts :=
  repeat match goal with
  | H : Coinswap.send _ _ _ _ _ = Some _ |- _ => apply send_mcb in H
  | H : Coinswap.burn _ _ _ _ = Some _ |- _ => apply burn_mcb in H
  end;
  rewrite ?mint_mcb in *;
  rewrite ?hits_user, ?hits_escrow, ?hits_collector, ?hits_lpt, ?hits_tok in *.

Lemma trade_sell_mcb w n rc din ain dout mo w' r :
  Coinswap.trade_sell w (Coinswap.User n) rc din ain dout mo = Some (w', r) ->
  hits rc dout = false -> mcb w' = mcb w.
Proof.
  unfold Coinswap.trade_sell. intros H Hr. oinv.
  destruct (Coinswap.quote din ain dout v0) as [qd qa]. oinv.
  mcb_facts. rewrite Hr in *. lia.
Qed.

Lemma trade_buy_mcb w n rc din mi dout aout w' r :
  Coinswap.trade_buy w (Coinswap.User n) rc din mi dout aout = Some (w', r) ->
  hits rc dout = false -> mcb w' = mcb w.
Proof.
  unfold Coinswap.trade_buy. intros H Hr. oinv.
  destruct (Coinswap.quote dout aout din v0) as [qd qa]. oinv.
  mcb_facts. rewrite Hr in *. lia.
Qed.

Lemma deduct_creation_fee_mcb w n w' :
  Coinswap.deduct_creation_fee w (Coinswap.User n) = Some w' -> mcb w' = mcb w.
Proof.
  unfold Coinswap.deduct_creation_fee. intros H. oinv. mcb_facts.
  destruct (hits Coinswap.M_coinswap (Coinswap.p_cfee_denom (Coinswap.st_params w))); lia.
Qed.

Lemma add_transfer_mcb w n q tok a b m w' r :
  Coinswap.add_transfer w (Coinswap.User n) q tok a b m = Some (w', r) -> mcb w' = mcb w.
Proof.
  unfold Coinswap.add_transfer. intros H. oinv. mcb_facts. lia.
Qed.

Lemma add_liquidity_mcb w n tokn mt es ml w' r :
  Coinswap.add_liquidity w (Coinswap.User n) tokn mt es ml = Some (w', r) -> mcb w' = mcb w.
Proof.
  unfold Coinswap.add_liquidity. intros H. oinv.
  destruct (Coinswap.lookup_pool tokn (Coinswap.st_pools w)) as [q|].
  - destruct (Coinswap.st_sup w (Coinswap.Lpt q) =? 0); oinv; apply add_transfer_mcb in H; exact H.
  - oinv. apply deduct_creation_fee_mcb in E. apply add_transfer_mcb in H.
    unfold mcb in *. cbn [Coinswap.st_bal] in H. lia.
Qed.

Lemma remove_liquidity_mcb w n q wd ms mt w' r :
  Coinswap.remove_liquidity w (Coinswap.User n) q wd ms mt = Some (w', r) -> mcb w' = mcb w.
Proof.
  unfold Coinswap.remove_liquidity. intros H. oinv. mcb_facts. lia.
Qed.

(* the only way round: a transfer whose recipient is the module account itself *)
Definition no_module_donation (o : Coinswap.op) : Prop :=
  match o with Coinswap.Donate _ to d _ => hits to d = false | _ => True end.

Lemma exec_mcb now w o w' r :
  Coinswap.exec now w o = Some (w', r) -> no_module_donation o -> mcb w' = mcb w.
Proof.
  destruct o as [sender rc din ain dout mo dl|sender rc din mi dout aout dl|sender tok mt es ml dl
                |sender lpt wd ms mt dl|from to d amt|who din mi th|p|]; cbn [Coinswap.exec no_module_donation]; intros H Hd.
  - oinv. destruct v as [w1 r1]. apply negb_true_iff in G6.
    eapply trade_sell_mcb; [exact E|apply hits_not_module; exact G6].
  - oinv. destruct v as [w1 r1]. apply negb_true_iff in G6.
    eapply trade_buy_mcb; [exact E|apply hits_not_module; exact G6].
  - oinv. destruct tok as [|n|q]; [discriminate H| |discriminate H].
    oinv. destruct v as [w1 r1]. eapply add_liquidity_mcb. exact E.
  - oinv. destruct lpt as [|n|q]; [discriminate H|discriminate H|].
    oinv. destruct v as [w1 r1]. eapply remove_liquidity_mcb. exact E.
  - oinv. mcb_facts. rewrite Hd in *. lia.
  - oinv. destruct v as [w1 r1]. eapply trade_buy_mcb; [exact E|reflexivity].
  - oinv. reflexivity.
  - discriminate H.
Qed.

Definition tx_ok (t : tx) : Prop := match t with TxSwap o => no_module_donation o | _ => True end.
Definition blk_ok (b : blk) : Prop := Forall tx_ok (b_txs b).

Lemma apply_update_swap_module u s s' : apply_update u s = Some s' -> swap_module s' = swap_module s.
Proof.
  destruct u as [p|x]; cbn [apply_update]; intros H; oinv; [|reflexivity].
  destruct v as [w r]. cbn [Coinswap.exec] in E. oinv. reflexivity.
Qed.

Lemma deliver_tx_swap_module now s t :
  tx_ok t -> swap_module (fst (deliver_tx now s t)) = swap_module s.
Proof.
  intros Hok. unfold deliver_tx.
  destruct (ante t s) as [sa|] eqn:Ea; cbn [fst]; [|reflexivity].
  destruct (exec_msgs now t sa) as [s2|] eqn:Ex; cbn [fst].
  - destruct t as [o|sender limit aok cok eok e|auth u|acc]; cbn [ante exec_msgs tx_ok] in *.
    + inversion Ea; subst sa.
      destruct o; try discriminate Ex;
        (destruct (Coinswap.exec now (c_swap s) _) as [[ww rr]|] eqn:E; cbn [obind] in Ex; [|discriminate Ex];
         injection Ex as <-; unfold swap_module; cbn [with_csr with_infl with_swap c_swap fst];
         eapply exec_mcb; [exact E|exact Hok]).
    + oinv. unfold swap_module, swap_add_supply. cbn [with_csr with_infl with_swap c_swap Coinswap.set_bank Coinswap.st_bal].
      mcb_facts. unfold mcb in *. cbn [Coinswap.set_bank Coinswap.st_bal with_swap c_swap] in *. lia.
    + inversion Ea; subst sa. oinv. eapply apply_update_swap_module. exact Ex.
    + inversion Ea; subst sa. oinv. reflexivity.
  - (* the message failed: only the ante handler's effect stays -- the gas money goes to the fee collector *)
    destruct t as [o|sender limit aok cok eok e|auth u|acc]; cbn [ante] in Ea; try (inversion Ea; reflexivity).
    oinv. unfold swap_module. cbn [with_swap c_swap]. mcb_facts. lia.
Qed.

Lemma deliver_txs_swap_module now ts : forall s,
  Forall tx_ok ts -> swap_module (fst (deliver_txs now ts s)) = swap_module s.
Proof.
  induction ts as [|t r IH]; intros s Hok; cbn [deliver_txs]; [reflexivity|].
  inversion Hok as [|? ? H1 H2]; subst.
  pose proof (deliver_tx_swap_module now s t H1) as D. destruct (deliver_tx now s t) as [s1 ok]. cbn [fst] in D.
  specialize (IH s1 H2). destruct (deliver_txs now r s1) as [s2 cs]. cbn [fst] in *. congruence.
Qed.

Lemma end_blocker_swap_module us : forall s, swap_module (end_blocker us s) = swap_module s.
Proof.
  induction us as [|u r IH]; intros s; cbn [end_blocker]; [reflexivity|].
  rewrite IH. destruct (apply_update u s) as [s'|] eqn:E; [eapply apply_update_swap_module; exact E|reflexivity].
Qed.

Lemma begin_blocker_swap_module b h s s1 : begin_blocker b h s = Some s1 -> swap_module s1 = swap_module s.
Proof.
  unfold begin_blocker. intros H. oinv. destruct v as [es i]. inversion H; subst s1. reflexivity.
Qed.

Theorem coinswap_module_unchanged : forall bs n,
  Forall blk_ok bs ->
  swap_module (committed (fst (run_blocks bs n))) = swap_module (committed n).
Proof.
  induction bs as [|b r IH]; intros n Hok; cbn [run_blocks]; [reflexivity|].
  inversion Hok as [|? ? H1 H2]; subst.
  assert (B : swap_module (committed (fst (run_block b n))) = swap_module (committed n)).
  { unfold run_block. destruct (begin_blocker b (height n + 1) (committed n)) as [s1|] eqn:Hb; [|reflexivity].
    pose proof (deliver_txs_swap_module (b_time b) (b_txs b) s1 H1) as D.
    destruct (deliver_txs (b_time b) (b_txs b) s1) as [s2 codes]. cbn [fst committed] in *.
    rewrite end_blocker_swap_module, D. eapply begin_blocker_swap_module. exact Hb. }
  destruct (run_block b n) as [n1 res]. cbn [fst] in B.
  specialize (IH n1 H2). destruct (run_blocks r n1) as [n2 rs]. cbn [fst] in *. congruence.
Qed.

(** * Non-vacuity: a history with a mint, a CSR burn and a creation-fee burn *)
Module ExS.
  Definition S18 : Z := SdkDec.one.
  (* creation fee 1000 acanto with a 25% tax: 750 burned *)
  Definition cparams : Coinswap.params :=
    Coinswap.mkParams 0 Coinswap.Std 1000 (S18 / 4) (10 ^ 22) [(Coinswap.Tok 0, 10 ^ 20); (Coinswap.Tok 1, 10 ^ 20)].
  Definition swap0 : Coinswap.state := Coinswap.mkState cparams 2 [(0, 1)] Ex.bal0 Ex.sup0.
  Definition bal1 (a : Coinswap.acct) (d : Coinswap.denom) : Z :=
    match a, d with
    | Coinswap.User 0, Coinswap.Tok 1 => 10 ^ 12
    | _, _ => Ex.bal0 a d
    end.
  Definition swap1 : Coinswap.state := Coinswap.mkState cparams 2 [(0, 1)] bal1 Ex.sup0.
  Definition g : cstate := mkC [Ex.ep_day; Ex.ep_week] Ex.infl0 swap1 Ex.csr0 Ex.auth0 0 Ex.t0 0 [103].
  (* creates the pool of token 1: pays the creation fee *)
  Definition create : tx := TxSwap (Coinswap.AddLiq 0 (Coinswap.Tok 1) 5000 7000 0 (1700000000 + 200000)).
  (* an Ethereum transaction to an unregistered target: 21000 gas at price 10, all burned *)
  Definition evm : tx := TxEvm 0 30000 true true true (Csr.mkTx (fun _ => false) [] 21000 10 (Some 4242)).
  Definition b1 : blk := mkBlk (Ex.t0 + Ex.day_ns + 5) Ex.orc 0 [create; evm; Ex.late] [].
  Definition res := Eval vm_compute in snd (run_blocks [b1] (genesis_node g)).
End ExS.

Example ex_supply_events :
  map r_codes ExS.res = [[true; true; false]] /\
  map r_minted ExS.res = [543478266666666666666666] /\
  map r_burned ExS.res = [[750; 210000; 0]] /\
  supply (committed (fst (run_blocks [ExS.b1] (genesis_node ExS.g)))) =
    10 ^ 27 + 543478266666666666666666 - (750 + 210000).
Proof. vm_compute. repeat split. Qed.
