(** Coinswap proofs, part 2: what each keeper function does to the ledger
    (exact balance / supply equations and the facts its guards establish). *)
From Coq Require Import ZArith List Bool Lia.
From Canto Require Import Lib.SdkInt Lib.SdkDec Lib.SdkDecProofs Model.Coinswap Proofs.CoinswapBase.
Import ListNotations.
Open Scope Z_scope.

Definition nonneg (s : state) : Prop := forall a d, 0 <= st_bal s a d.

Lemma params_valid_fee p : params_valid p = true -> 0 <= p_fee p < S18.
Proof. unfold params_valid. intros H. bool_hyps. unfold S18. lia. Qed.
Lemma params_valid_tax p : params_valid p = true -> 0 <= p_tax p < S18 /\ 0 <= p_cfee_amt p /\ 0 < p_cap p.
Proof. unfold params_valid. intros H. bool_hyps. unfold S18. lia. Qed.

(* pool_of: one side is the standard coin and the other a token with a pool *)
Lemma pool_of_inv s d1 d2 q :
  pool_of s d1 d2 = Some q ->
  exists n, lookup_pool n (st_pools s) = Some q /\
            ((d1 = Std /\ d2 = Tok n) \/ (d1 = Tok n /\ d2 = Std)).
Proof.
  unfold pool_of. destruct (denom_eqb d1 d2); [discriminate|].
  destruct d1 as [|n|k], d2 as [|m|k']; try discriminate; intros H; eauto.
Qed.

Lemma delta_0 c : delta c 0 = 0. Proof. destruct c; reflexivity. Qed.

Ltac splits := repeat match goal with |- _ /\ _ => split end.

(** * swaps *)
Definition sell_out (s : state) (q : Z) (din dout : denom) (ain : Z) : Z :=
  let X := st_bal s (Escrow q) din in let Y := st_bal s (Escrow q) dout in
  let g := S18 - p_fee (st_params s) in
  (ain * g * Y) / (X * S18 + ain * g).
Definition buy_in (s : state) (q : Z) (din dout : denom) (aout : Z) : Z :=
  let X := st_bal s (Escrow q) din in let Y := st_bal s (Escrow q) dout in
  let g := S18 - p_fee (st_params s) in
  (X * aout * S18) / ((Y - aout) * g) + 1.

Lemma trade_sell_effect s sender rec din ain dout min_out s' r :
  trade_sell s sender rec din ain dout min_out = Some (s', r) ->
  0 < ain -> params_valid (st_params s) = true ->
  exists q, pool_of s din dout = Some q /\
    0 < st_bal s (Escrow q) din /\ 0 < st_bal s (Escrow q) dout /\
    r = sell_out s q din dout ain /\ min_out <= r /\ 0 <= r /\
    (exists mx, wl_lookup (fst (quote din ain dout r)) (p_wl (st_params s)) = Some mx /\
                snd (quote din ain dout r) <= mx) /\
    ain <= st_bal s sender din /\
    same_meta s s' /\ (forall e, st_sup s' e = st_sup s e) /\
    forall x e, st_bal s' x e = st_bal s x e
                  + delta (at_ x (Escrow q) e din) ain - delta (at_ x sender e din) ain
                  + delta (at_ x rec e dout) r - delta (at_ x (Escrow q) e dout) r.
Proof.
  intros H Hain HP. unfold trade_sell in H. inv.
  bool_hyps.
  exists v. split; [reflexivity|].
  pose proof (params_valid_fee _ HP) as Hfee.
  pose proof (input_price_spec _ _ _ _ _ Hfee Hain G G0 E0) as Hr.
  destruct (send_spec _ _ _ _ _ _ E2 ltac:(lia)) as (M1 & S1 & _ & B1 & F1).
  destruct (send_spec _ _ _ _ _ _ E3 ltac:(lia)) as (M2 & S2 & _ & B2 & F2).
  splits; try assumption; try lia.
  - rewrite Q. cbn [fst snd]. exists v1. split; [exact E1|lia].
  - apply (same_meta_trans _ _ _ M1 M2).
  - intros e. rewrite S2, S1. reflexivity.
  - intros x e. rewrite F2, F1. lia.
Qed.

Lemma trade_buy_effect s sender rec din max_in dout aout s' r :
  trade_buy s sender rec din max_in dout aout = Some (s', r) ->
  0 < aout -> params_valid (st_params s) = true ->
  exists q, pool_of s dout din = Some q /\
    0 < st_bal s (Escrow q) din /\ aout < st_bal s (Escrow q) dout /\
    r = buy_in s q din dout aout /\ r <= max_in /\ 0 < r /\
    (exists mx, wl_lookup (fst (quote dout aout din r)) (p_wl (st_params s)) = Some mx /\
                snd (quote dout aout din r) <= mx) /\
    r <= st_bal s sender din /\
    same_meta s s' /\ (forall e, st_sup s' e = st_sup s e) /\
    forall x e, st_bal s' x e = st_bal s x e
                  + delta (at_ x (Escrow q) e din) r - delta (at_ x sender e din) r
                  + delta (at_ x rec e dout) aout - delta (at_ x (Escrow q) e dout) aout.
Proof.
  intros H Haout HP. unfold trade_buy in H. inv.
  bool_hyps.
  exists v. split; [reflexivity|].
  pose proof (params_valid_fee _ HP) as Hfee.
  pose proof (output_price_spec _ _ _ _ _ Hfee (conj Haout G1) G E0) as Hr.
  assert (Hpos : 0 < r).
  { rewrite Hr. pose proof (buy_product (st_bal s (Escrow v) din) (st_bal s (Escrow v) dout) aout
       (S18 - p_fee (st_params s)) S18 G ltac:(lia) (conj Haout G1) ltac:(lia) ltac:(lia)) as [P _]. exact P. }
  destruct (send_spec _ _ _ _ _ _ E2 ltac:(lia)) as (M1 & S1 & _ & B1 & F1).
  destruct (send_spec _ _ _ _ _ _ E3 ltac:(lia)) as (M2 & S2 & _ & B2 & F2).
  splits; try assumption; try lia.
  - rewrite Q. cbn [fst snd]. exists v1. split; [exact E1|lia].
  - apply (same_meta_trans _ _ _ M1 M2).
  - intros e. rewrite S2, S1. reflexivity.
  - intros x e. rewrite F2, F1. lia.
Qed.

(** * pool list facts *)
Definition pools_ok (l : list (Z * Z)) (next : Z) : Prop :=
  NoDup (map fst l) /\ NoDup (map snd l) /\ forall n q, In (n, q) l -> q < next.

Lemma lookup_pool_in l n q : lookup_pool n l = Some q -> In (n, q) l.
Proof.
  induction l as [|[k q'] r IH]; cbn [lookup_pool]; [discriminate|].
  destruct (Z.eqb_spec k n); intros H; [inversion H; subst; left; reflexivity|right; auto].
Qed.
Lemma in_lookup_pool l n q : NoDup (map fst l) -> In (n, q) l -> lookup_pool n l = Some q.
Proof.
  induction l as [|[k q'] r IH]; cbn [lookup_pool map fst]; intros ND HIn; [contradiction|].
  inversion ND as [|? ? Hnot ND']; subst.
  destruct HIn as [E|HIn].
  - inversion E; subst. rewrite Z.eqb_refl. reflexivity.
  - destruct (Z.eqb_spec k n); [|auto]. subst. exfalso. apply Hnot.
    change n with (fst (n, q)). apply in_map. exact HIn.
Qed.
Lemma lookup_seq_in l n q : lookup_seq q l = Some n -> In (n, q) l.
Proof.
  induction l as [|[k q'] r IH]; cbn [lookup_seq]; [discriminate|].
  destruct (Z.eqb_spec q' q); intros H; [inversion H; subst; left; reflexivity|right; auto].
Qed.
Lemma in_lookup_seq l n q : NoDup (map snd l) -> In (n, q) l -> lookup_seq q l = Some n.
Proof.
  induction l as [|[k q'] r IH]; cbn [lookup_seq map snd]; intros ND HIn; [contradiction|].
  inversion ND as [|? ? Hnot ND']; subst.
  destruct HIn as [E|HIn].
  - inversion E; subst. rewrite Z.eqb_refl. reflexivity.
  - destruct (Z.eqb_spec q' q); [|auto]. subst. exfalso. apply Hnot.
    change q with (snd (n, q)). apply in_map. exact HIn.
Qed.
Lemma pools_ok_inj l next n m q :
  pools_ok l next -> lookup_pool n l = Some q -> lookup_pool m l = Some q -> n = m.
Proof.
  intros (_ & ND & _) H1 H2. apply lookup_pool_in in H1, H2.
  apply (in_lookup_seq _ _ _ ND) in H1. apply (in_lookup_seq _ _ _ ND) in H2. congruence.
Qed.

(** well-formed states: valid parameters, no negative balance, a consistent pool list *)
Record WF (s : state) : Prop := {
  wf_params : params_valid (st_params s) = true;
  wf_nonneg : nonneg s;
  wf_pools : pools_ok (st_pools s) (st_next s);
  wf_sup : forall d, 0 <= st_sup s d          (* a supply is a sum of balances *)
}.

(** * creation fee *)
Lemma tax_part_spec A t tax :
  0 <= A -> 0 <= t < S18 -> tax_part A t = Some tax -> tax = (A * t) / S18 /\ 0 <= tax <= A.
Proof.
  intros HA Ht H. unfold tax_part in H. inv.
  unfold SdkDec.mul in E. apply dec_chk_some in E. subst v.
  unfold SdkDec.truncate_int in H.
  match type of H with (if ?c then _ else _) = _ => destruct c end; [discriminate|].
  assert (R : tax = Z.quot (SdkDec.rmul (SdkDec.of_int A) t) SdkDec.S) by congruence. clear H.
  unfold SdkDec.rmul, SdkDec.of_int in R.
  replace (A * SdkDec.S * t) with ((A * t) * SdkDec.S) in R by ring.
  rewrite chop_round_exact in R by nia.
  pose proof S_pos as HS. fold S18 in *. unfold S18, SdkDec.one in *.
  rewrite Z.quot_div_nonneg in R by nia. subst tax.
  split; [reflexivity|]. split; [apply Z.div_pos; nia|].
  apply Z.div_le_upper_bound; nia.
Qed.

Lemma deduct_creation_fee_effect s creator s' :
  deduct_creation_fee s creator = Some s' -> params_valid (st_params s) = true ->
  let p := st_params s in let cd := p_cfee_denom p in let A := p_cfee_amt p in
  exists tax, tax_part A (p_tax p) = Some tax /\ 0 <= tax <= A /\
    same_meta s s' /\
    (A = 0 \/ A <= st_bal s creator cd) /\
    (forall e, st_sup s' e = st_sup s e - delta (denom_eqb e cd) (A - tax)) /\
    forall x e, st_bal s' x e = st_bal s x e - delta (at_ x creator e cd) A + delta (at_ x M_feecollector e cd) tax.
Proof.
  intros H HP p cd A. unfold deduct_creation_fee in H. fold p in H. fold cd in H. fold A in H. inv.
  destruct (params_valid_tax _ HP) as (Ht & HA & _). fold p in Ht. fold A in HA.
  destruct (tax_part_spec _ _ _ HA Ht E) as (Htax & Hrange).
  exists v. split; [reflexivity|]. split; [exact Hrange|].
  destruct (send_spec _ _ _ _ _ _ E0 HA) as (M1 & S1 & _ & B1 & F1).
  destruct (send_spec _ _ _ _ _ _ E1 ltac:(lia)) as (M2 & S2 & _ & B2 & F2).
  destruct (burn_spec _ _ _ _ _ H ltac:(lia)) as (M3 & S3 & B3 & F3).
  splits.
  - apply (same_meta_trans _ _ _ (same_meta_trans _ _ _ M1 M2) M3).
  - exact B1.
  - intros e. rewrite S3, S2, S1. reflexivity.
  - intros x e. rewrite F3, F2, F1.
    unfold delta. destruct (at_ x M_coinswap e cd); destruct (at_ x creator e cd); destruct (at_ x M_feecollector e cd); lia.
Qed.

(** * liquidity *)
Definition add_bal_eq (s s' : state) (sender : acct) (q tokn std tk m : Z) (cd : denom) (A tax : Z) : Prop :=
  forall x e, st_bal s' x e = st_bal s x e
     + delta (at_ x (Escrow q) e Std) std - delta (at_ x sender e Std) std
     + delta (at_ x (Escrow q) e (Tok tokn)) tk - delta (at_ x sender e (Tok tokn)) tk
     + delta (at_ x sender e (Lpt q)) m
     - delta (at_ x sender e cd) A + delta (at_ x M_feecollector e cd) tax.
Definition add_sup_eq (s s' : state) (q m : Z) (cd : denom) (burned : Z) : Prop :=
  forall e, st_sup s' e = st_sup s e + delta (denom_eqb e (Lpt q)) m - delta (denom_eqb e cd) burned.

Lemma add_transfer_effect s sender q tokn std tk m s' r cd :
  add_transfer s sender q (Tok tokn) std tk m = Some (s', r) ->
  0 <= std -> 0 <= tk -> 0 <= m ->
  r = m /\ same_meta s s' /\
  (std = 0 \/ std <= st_bal s sender Std) /\
  add_bal_eq s s' sender q tokn std tk m cd 0 0 /\ add_sup_eq s s' q m cd 0.
Proof.
  intros H H1 H2 H3. unfold add_transfer in H. inv.
  destruct (send_spec _ _ _ _ _ _ E H1) as (M1 & S1 & _ & B1 & F1).
  destruct (send_spec _ _ _ _ _ _ E0 H2) as (M2 & S2 & _ & B2 & F2).
  destruct (mint_spec v0 M_coinswap (Lpt q) r H3) as (M3 & S3 & F3).
  destruct (send_spec _ _ _ _ _ _ E1 H3) as (M4 & S4 & _ & B4 & F4).
  splits.
  - reflexivity.
  - apply (same_meta_trans _ _ _ (same_meta_trans _ _ _ (same_meta_trans _ _ _ M1 M2) M3) M4).
  - exact B1.
  - intros x e. rewrite F4, F3, F2, F1. unfold delta.
    destruct (at_ x M_coinswap e (Lpt q)); destruct (at_ x sender e cd); destruct (at_ x M_feecollector e cd); lia.
  - intros e. rewrite S4, S3, S2, S1. unfold delta. destruct (denom_eqb e cd); lia.
Qed.

(* the three ways an addition can succeed *)
Inductive add_case (s s' : state) (sender : acct) (tokn max_tok exact_std min_liq m : Z) : Prop :=
| AddCreated (tax : Z) :
    lookup_pool tokn (st_pools s) = None ->
    st_pools s' = (tokn, st_next s) :: st_pools s -> st_next s' = st_next s + 1 ->
    m = exact_std -> exact_std <= p_cap (st_params s) -> min_liq <= m ->
    tax_part (p_cfee_amt (st_params s)) (p_tax (st_params s)) = Some tax ->
    0 <= tax <= p_cfee_amt (st_params s) ->
    add_bal_eq s s' sender (st_next s) tokn exact_std max_tok m (p_cfee_denom (st_params s)) (p_cfee_amt (st_params s)) tax ->
    add_sup_eq s s' (st_next s) m (p_cfee_denom (st_params s)) (p_cfee_amt (st_params s) - tax) ->
    add_case s s' sender tokn max_tok exact_std min_liq m
| AddEmpty (q : Z) :
    lookup_pool tokn (st_pools s) = Some q -> st_sup s (Lpt q) = 0 ->
    st_pools s' = st_pools s -> st_next s' = st_next s ->
    m = exact_std -> exact_std <= p_cap (st_params s) -> min_liq <= m ->
    add_bal_eq s s' sender q tokn exact_std max_tok m Std 0 0 ->
    add_sup_eq s s' q m Std 0 ->
    add_case s s' sender tokn max_tok exact_std min_liq m
| AddProRata (q : Z) :
    lookup_pool tokn (st_pools s) = Some q -> st_sup s (Lpt q) <> 0 ->
    st_pools s' = st_pools s -> st_next s' = st_next s ->
    let X := st_bal s (Escrow q) Std in let Y := st_bal s (Escrow q) (Tok tokn) in let L := st_sup s (Lpt q) in
    let std_in := Z.min exact_std (p_cap (st_params s) - X) in
    let dep := Z.quot (Y * std_in) X + 1 in
    X <> 0 -> X < p_cap (st_params s) ->
    m = Z.quot (L * std_in) X -> min_liq <= m -> 0 <= m -> dep <= max_tok -> 0 <= dep -> 0 <= std_in ->
    add_bal_eq s s' sender q tokn std_in dep m Std 0 0 ->
    add_sup_eq s s' q m Std 0 ->
    add_case s s' sender tokn max_tok exact_std min_liq m.

Lemma add_liquidity_effect s sender tokn max_tok exact_std min_liq s' m :
  add_liquidity s sender tokn max_tok exact_std min_liq = Some (s', m) ->
  params_valid (st_params s) = true -> 0 < max_tok -> 0 < exact_std ->
  0 < wl_amount (Tok tokn) (p_wl (st_params s)) /\ st_params s' = st_params s /\
  add_case s s' sender tokn max_tok exact_std min_liq m.
Proof.
  intros H HP Hmt Hes. unfold add_liquidity in H. inv. bool_hyps.
  split; [assumption|].
  destruct (lookup_pool tokn (st_pools s)) as [q|] eqn:LP.
  - destruct (st_sup s (Lpt q) =? 0) eqn:L0.
    + apply Z.eqb_eq in L0. inv. unfold initial_add_checks in G0. bool_hyps.
      destruct (add_transfer_effect _ _ _ _ _ _ _ _ _ Std H ltac:(lia) ltac:(lia) ltac:(lia)) as (-> & M & _ & B & S).
      destruct M as [M1 M2 M3]. split; [exact M1|].
      eapply AddEmpty; eauto; lia.
    + apply Z.eqb_neq in L0. inv. bool_hyps.
      unfold SdkInt.sub in E. apply int_chk_some in E as [-> _].
      unfold SdkInt.mul in E0, E2. apply int_chk_some in E0 as [-> _]. apply int_chk_some in E2 as [-> _].
      unfold SdkInt.quo in E1, E3.
      destruct (st_bal s (Escrow q) Std =? 0) eqn:X0; [discriminate|]. apply Z.eqb_neq in X0.
      assert (R1 : v1 = Z.quot (st_sup s (Lpt q) * Z.min exact_std (p_cap (st_params s) - st_bal s (Escrow q) Std)) (st_bal s (Escrow q) Std)) by congruence.
      assert (R3 : v3 = Z.quot (st_bal s (Escrow q) (Tok tokn) * Z.min exact_std (p_cap (st_params s) - st_bal s (Escrow q) Std)) (st_bal s (Escrow q) Std)) by congruence.
      clear E1 E3.
      unfold SdkInt.add in E4. apply int_chk_some in E4 as [-> _].
      destruct (add_transfer_effect _ _ _ _ _ _ _ _ _ Std H ltac:(lia) ltac:(lia) ltac:(lia)) as (-> & M & _ & B & S).
      destruct M as [M1 M2 M3]. split; [exact M1|].
      subst v1 v3.
      eapply AddProRata; eauto; lia.
  - inv. unfold initial_add_checks in G0. bool_hyps.
    destruct (deduct_creation_fee_effect _ _ _ E HP) as (tax & TP & TR & [F1 F2 F3] & _ & FS & FB).
    cbv zeta in TP, TR, FS, FB.
    match type of H with add_transfer ?st _ _ _ _ _ _ = _ => set (s2 := st) in * end.
    destruct (add_transfer_effect _ _ _ _ _ _ _ _ _ (p_cfee_denom (st_params s)) H ltac:(lia) ltac:(lia) ltac:(lia)) as (-> & M & _ & B & S).
    destruct M as [M1 M2 M3]. subst s2. cbn [st_params st_next st_pools st_bal st_sup] in *.
    split; [congruence|].
    eapply AddCreated with (tax := tax); eauto; try lia; try congruence.
    + intros x e. rewrite B. cbn [st_bal]. rewrite FB. rewrite !delta_0. lia.
    + intros e. rewrite S. cbn [st_sup]. rewrite FS. rewrite !delta_0. lia.
Qed.

Lemma remove_liquidity_effect s sender q w min_std min_tok s' ps pt :
  remove_liquidity s sender q w min_std min_tok = Some (s', (ps, pt)) -> 0 < w ->
  exists tokn, lookup_seq q (st_pools s) = Some tokn /\
    let X := st_bal s (Escrow q) Std in let Y := st_bal s (Escrow q) (Tok tokn) in let L := st_sup s (Lpt q) in
    w <= L /\ ps = Z.quot (w * X) L /\ pt = Z.quot (w * Y) L /\ 0 <= ps /\ 0 <= pt /\
    min_std <= ps /\ min_tok <= pt /\ w <= st_bal s sender (Lpt q) /\
    same_meta s s' /\
    (forall e, st_sup s' e = st_sup s e - delta (denom_eqb e (Lpt q)) w) /\
    forall x e, st_bal s' x e = st_bal s x e
       - delta (at_ x sender e (Lpt q)) w
       + delta (at_ x sender e Std) ps - delta (at_ x (Escrow q) e Std) ps
       + delta (at_ x sender e (Tok tokn)) pt - delta (at_ x (Escrow q) e (Tok tokn)) pt.
Proof.
  intros H Hw. unfold remove_liquidity in H. inv. bool_hyps.
  exists v. split; [reflexivity|]. cbv zeta.
  unfold SdkInt.mul in E0, E2. apply int_chk_some in E0 as [-> _]. apply int_chk_some in E2 as [-> _].
  unfold SdkInt.quo in E1, E3.
  destruct (st_sup s (Lpt q) =? 0) eqn:L0; [discriminate|].
  assert (R1 : ps = Z.quot (w * st_bal s (Escrow q) Std) (st_sup s (Lpt q))) by congruence.
  assert (R3 : pt = Z.quot (w * st_bal s (Escrow q) (Tok v)) (st_sup s (Lpt q))) by congruence.
  clear E1 E3.
  destruct (send_spec _ _ _ _ _ _ E4 ltac:(lia)) as (M1 & S1 & _ & B1 & F1).
  destruct (burn_spec _ _ _ _ _ E5 ltac:(lia)) as (M2 & S2 & B2 & F2).
  destruct (send_spec _ _ _ _ _ _ E6 ltac:(lia)) as (M3 & S3 & _ & B3 & F3).
  destruct (send_spec _ _ _ _ _ _ E7 ltac:(lia)) as (M4 & S4 & _ & B4 & F4).
  splits; try assumption; try lia.
  - apply (same_meta_trans _ _ _ (same_meta_trans _ _ _ (same_meta_trans _ _ _ M1 M2) M3) M4).
  - intros e. rewrite S4, S3, S2, S1. reflexivity.
  - intros x e. rewrite F4, F3, F2, F1. unfold delta. destruct (at_ x M_coinswap e (Lpt q)); lia.
Qed.
