(** Accounts whose address is longer than 20 bytes (property C14).

    MsgConvertCoin.Sender and MsgConvertERC20.Receiver are bech32 strings of any length
    (the handlers only call AccAddressFromBech32): module-derived, interchain and group-policy
    accounts have 32-byte addresses.  In Model/Erc20.v an account is a number; the harness
    writes the number read from ALL the bytes of the address, so two accounts are equal in the
    model iff they are the same bank account.  [evm_form] is common.BytesToAddress (the last 20
    bytes): a 32-byte account can have the EVM form of another party without being that party.

    The theorems below say that the "third party" clause of the gate is about ACCOUNTS: an
    alias (same EVM form, different account) is a third party, and is rejected while bank sends
    of the coin are disabled — whereas a conversion to oneself passes that gate.  The harness
    (harness/c14.go) generates such aliases on the Cosmos side of both messages. *)
From Coq Require Import ZArith NArith List Bool Lia.
From Canto Require Import Model.Erc20 Proofs.Erc20Proofs.
Import ListNotations.
Open Scope Z_scope.

(* common.BytesToAddress: the last 20 bytes of the address *)
Definition evm_form (a : addr) : addr := (a mod 2 ^ 160)%N.

(* receiver_gate for aliases: sharing the EVM form does not make two accounts one *)
Theorem alias_is_third_party s p o sender receiver :
  is_convert_msg o = Some (sender, receiver) ->
  evm_form sender = evm_form receiver -> sender <> receiver ->
  p_sendok (pairs s p) = false ->
  exec s (OnPair p o) = None /\ deliver s (OnPair p o) = s.
Proof.
  intros C _ D S. apply (receiver_gate s p o sender receiver C). right. split; [exact D|exact S].
Qed.

(* and nothing else is a third party: with the other gates open, a conversion whose two
   parties are the same account is not stopped by the send-enabled switch *)
Theorem self_passes_send_gate m bl ps a :
  m = true -> p_enabled ps = true -> bl a = false ->
  minting_enabled m bl ps a a = true.
Proof.
  intros M E B. unfold minting_enabled. rewrite M, E, B, N.eqb_refl. reflexivity.
Qed.

(* the gate decides on account equality, for every pair of accounts *)
Theorem send_gate_is_on_accounts m bl ps sender receiver :
  m = true -> p_enabled ps = true -> bl receiver = false -> p_sendok ps = false ->
  minting_enabled m bl ps sender receiver = N.eqb sender receiver.
Proof.
  intros M E B S. unfold minting_enabled. rewrite M, E, B, S.
  destruct (N.eqb sender receiver); reflexivity.
Qed.

(** non-vacuity: holder 2 and a 32-byte account with the same last 20 bytes *)
Definition ALIAS2 : addr := (2 ^ 255 + 2)%N.
Definition ex_nosend : state :=
  mkState true true ex_blocked
          (fun p => if p =? 0 then set_flags ex_native true false else pairs ex_state p).

Example ex_alias_shares_evm_form : evm_form ALIAS2 = evm_form 2%N /\ ALIAS2 <> 2%N.
Proof. split; [vm_compute; reflexivity|]. intro H. vm_compute in H. discriminate H. Qed.

(* sends enabled: the alias receives the coins, as any third party would *)
Example ex_alias_open :
  p_cbal (pairs (deliver ex_state (OnPair 0 (ConvertERC20 2%N ALIAS2 5))) 0) ALIAS2 = 5 /\
  p_tbal (pairs (deliver ex_state (OnPair 0 (ConvertERC20 2%N ALIAS2 5))) 0) 2%N = 25.
Proof. split; vm_compute; reflexivity. Qed.

(* sends disabled: both directions with the alias are rejected, the self conversion is not *)
Example ex_alias_closed :
  exec ex_nosend (OnPair 0 (ConvertERC20 2%N ALIAS2 5)) = None /\
  exec ex_nosend (OnPair 0 (ConvertCoin ALIAS2 2%N 5)) = None /\
  exec ex_nosend (OnPair 0 (ConvertERC20 2%N 2%N 5)) <> None.
Proof.
  split; [vm_compute; reflexivity|]. split; [vm_compute; reflexivity|].
  intro H. vm_compute in H. discriminate H.
Qed.
