(** Coinswap proofs, part 3: the share-value invariant (C01). *)
From Coq Require Import ZArith List Bool Lia.
From Canto Require Import Lib.SdkInt Lib.SdkDec Lib.SdkDecProofs Model.Coinswap
     Proofs.CoinswapBase Proofs.CoinswapEffects.
Import ListNotations.
Open Scope Z_scope.

(** the three quantities of a pool (token [n], sequence [q]) *)
Definition RX (s : state) (q : Z) : Z := st_bal s (Escrow q) Std.
Definition RY (s : state) (q n : Z) : Z := st_bal s (Escrow q) (Tok n).
Definition RL (s : state) (q : Z) : Z := st_sup s (Lpt q).

(* value per share, cross-multiplied:  X Y / L^2  <=  X' Y' / L'^2 *)
Definition value_le (s s' : state) (n q : Z) : Prop :=
  RX s q * RY s q n * (RL s' q * RL s' q) <= RX s' q * RY s' q n * (RL s q * RL s q).

Lemma prod_mono a b a' b' : 0 <= a <= a' -> 0 <= b <= b' -> a * b <= a' * b'.
Proof. intros. nia. Qed.

Lemma value_same_L s s' n q :
  RL s' q = RL s q -> RX s q * RY s q n <= RX s' q * RY s' q n -> value_le s s' n q.
Proof. intros HL H. unfold value_le. rewrite HL. apply Z.mul_le_mono_nonneg_r; [nia|exact H]. Qed.

Lemma lookup_pool_det l n q q' : lookup_pool n l = Some q -> lookup_pool n l = Some q' -> q = q'.
Proof. congruence. Qed.

(** * how a swap-shaped balance change looks from one pool *)
Lemma swap_view s s' u rec din dout q0 a b n q :
  (forall x e, st_bal s' x e = st_bal s x e
       + delta (at_ x (Escrow q0) e din) a - delta (at_ x (User u) e din) a
       + delta (at_ x rec e dout) b - delta (at_ x (Escrow q0) e dout) b) ->
  0 <= a -> 0 <= b ->
  pool_of s din dout = Some q0 ->
  pools_ok (st_pools s) (st_next s) ->
  lookup_pool n (st_pools s) = Some q ->
  (q <> q0 /\ RX s q <= RX s' q /\ RY s q n <= RY s' q n) \/
  (q = q0 /\ din = Std /\ dout = Tok n /\ RX s' q = RX s q + a /\ RY s q n - b <= RY s' q n) \/
  (q = q0 /\ din = Tok n /\ dout = Std /\ RY s' q n = RY s q n + a /\ RX s q - b <= RX s' q).
Proof.
  intros HB Ha Hb HP HOK HL.
  destruct (pool_of_inv _ _ _ _ HP) as (n0 & HL0 & Hd).
  destruct (Z.eq_dec q q0) as [->|Hq].
  - assert (n = n0) by (eapply pools_ok_inj; eauto). subst n0. right.
    destruct Hd as [[-> ->]|[-> ->]]; [left|right];
      (split; [reflexivity|]); (split; [reflexivity|]); (split; [reflexivity|]);
      unfold RX, RY; rewrite !HB; unfold at_, delta; destruct rec as [ru|rq|rm];
      cbn [acct_eqb denom_eqb andb]; rewrite ?Z.eqb_refl; cbn [andb];
      repeat match goal with |- context [Z.eqb ?x ?y] => destruct (Z.eqb_spec x y) end;
      cbn [andb]; split; lia.
  - left. split; [exact Hq|].
    unfold RX, RY; rewrite !HB; unfold at_, delta; destruct rec as [ru|rq|rm];
      cbn [acct_eqb andb]; destruct (Z.eqb_spec q q0); try contradiction; cbn [andb];
      destruct Hd as [[-> ->]|[-> ->]]; cbn [denom_eqb];
      repeat match goal with |- context [Z.eqb ?x ?y] => destruct (Z.eqb_spec x y) end;
      cbn [andb]; split; lia.
Qed.

(** * the step theorem *)
Section Step.
Variable now : Z.

Lemma value_exec_swap s s' u rec din dout q0 a b n q :
  (forall x e, st_bal s' x e = st_bal s x e
       + delta (at_ x (Escrow q0) e din) a - delta (at_ x (User u) e din) a
       + delta (at_ x rec e dout) b - delta (at_ x (Escrow q0) e dout) b) ->
  (forall e, st_sup s' e = st_sup s e) ->
  0 <= a -> 0 <= b ->
  pool_of s din dout = Some q0 ->
  (* the constant-product step on the traded pool *)
  st_bal s (Escrow q0) din * st_bal s (Escrow q0) dout
     <= (st_bal s (Escrow q0) din + a) * (st_bal s (Escrow q0) dout - b) ->
  0 <= st_bal s (Escrow q0) dout - b ->
  WF s -> lookup_pool n (st_pools s) = Some q ->
  value_le s s' n q.
Proof.
  intros HB HS Ha Hb HP Hcore Hrem [_ HN HOK _] HL.
  apply value_same_L; [unfold RL; apply HS|].
  pose proof (HN (Escrow q) Std) as NX. pose proof (HN (Escrow q) (Tok n)) as NY.
  destruct (swap_view _ _ _ _ _ _ _ _ _ _ _ HB Ha Hb HP HOK HL)
    as [(Hq & H1 & H2)|[(-> & -> & -> & H1 & H2)|(-> & -> & -> & H1 & H2)]].
  - apply prod_mono; unfold RX, RY in *; lia.
  - unfold RX, RY in *. rewrite H1.
    transitivity ((st_bal s (Escrow q0) Std + a) * (st_bal s (Escrow q0) (Tok n) - b)); [exact Hcore|].
    apply Z.mul_le_mono_nonneg_l; lia.
  - unfold RX, RY in *. rewrite H1.
    rewrite (Z.mul_comm (st_bal s (Escrow q0) Std)), (Z.mul_comm (st_bal s' (Escrow q0) Std)).
    transitivity ((st_bal s (Escrow q0) (Tok n) + a) * (st_bal s (Escrow q0) Std - b)); [exact Hcore|].
    apply Z.mul_le_mono_nonneg_l; lia.
Qed.

Lemma value_sell s u rec din ain dout min_out s' r n q :
  trade_sell s (User u) rec din ain dout min_out = Some (s', r) -> 0 < ain ->
  WF s -> lookup_pool n (st_pools s) = Some q -> value_le s s' n q.
Proof.
  intros H Hain W HL.
  destruct (trade_sell_effect _ _ _ _ _ _ _ _ _ H Hain (wf_params _ W))
    as (q0 & HP & HX & HY & Hr & _ & Hr0 & _ & _ & _ & HS & HB).
  pose proof (params_valid_fee _ (wf_params _ W)) as Hfee.
  pose proof (sell_product (st_bal s (Escrow q0) din) (st_bal s (Escrow q0) dout) ain
                (S18 - p_fee (st_params s)) S18 HX HY Hain ltac:(lia) ltac:(lia)) as [P1 P2].
  cbv zeta in P1, P2. unfold sell_out in Hr. cbv zeta in Hr. rewrite <- Hr in P1, P2.
  eapply value_exec_swap; eauto; lia.
Qed.

Lemma value_buy s u rec din max_in dout aout s' r n q :
  trade_buy s (User u) rec din max_in dout aout = Some (s', r) -> 0 < aout ->
  WF s -> lookup_pool n (st_pools s) = Some q -> value_le s s' n q.
Proof.
  intros H Haout W HL.
  destruct (trade_buy_effect _ _ _ _ _ _ _ _ _ H Haout (wf_params _ W))
    as (q0 & HP & HX & HY & Hr & _ & Hr0 & _ & _ & _ & HS & HB).
  pose proof (params_valid_fee _ (wf_params _ W)) as Hfee.
  assert (HYpos : 0 < st_bal s (Escrow q0) dout) by lia.
  pose proof (buy_product (st_bal s (Escrow q0) din) (st_bal s (Escrow q0) dout) aout
                (S18 - p_fee (st_params s)) S18 HX HYpos (conj Haout HY) ltac:(lia) ltac:(lia)) as [P1 P2].
  cbv zeta in P1, P2. unfold buy_in in Hr. cbv zeta in Hr. rewrite <- Hr in P1, P2.
  assert (HP' : pool_of s din dout = Some q0).
  { unfold pool_of in *. rewrite denom_eqb_sym. destruct (denom_eqb dout din); [discriminate|].
    destruct din, dout; try discriminate; exact HP. }
  eapply value_exec_swap; eauto; lia.
Qed.

(* an addition / removal / fee burn seen from one pool *)
Ltac deltas :=
  unfold at_, delta, M_feecollector, M_coinswap; cbn [acct_eqb denom_eqb andb];
  repeat match goal with |- context [Z.eqb ?x ?y] => destruct (Z.eqb_spec x y); try lia end;
  cbn [andb]; try lia.

Lemma add_other_pool s s' u q0 tokn std tk m cd A tax n q :
  add_bal_eq s s' (User u) q0 tokn std tk m cd A tax -> q <> q0 ->
  RX s' q = RX s q /\ RY s' q n = RY s q n.
Proof.
  intros HB Hq. unfold RX, RY. rewrite !HB. destruct cd as [|k|k]; split; deltas.
Qed.
Lemma add_same_pool s s' u q0 tokn std tk m cd :
  add_bal_eq s s' (User u) q0 tokn std tk m cd 0 0 ->
  RX s' q0 = RX s q0 + std /\ RY s' q0 tokn = RY s q0 tokn + tk.
Proof.
  intros HB. unfold RX, RY. rewrite !HB. rewrite !delta_0. split; deltas.
Qed.
Lemma add_sup_view s s' q0 m cd burned q :
  add_sup_eq s s' q0 m cd burned ->
  RL s' q = RL s q + delta (q =? q0) m - delta (denom_eqb (Lpt q) cd) burned.
Proof. intros HS. unfold RL. rewrite HS. reflexivity. Qed.

Lemma value_shrink s s' n q :
  RX s' q = RX s q -> RY s' q n = RY s q n -> 0 < RL s' q <= RL s q ->
  0 <= RX s q -> 0 <= RY s q n -> value_le s s' n q.
Proof.
  intros HX HY HL NX NY. unfold value_le. rewrite HX, HY.
  apply Z.mul_le_mono_nonneg_l; [nia|]. apply Z.mul_le_mono_nonneg; lia.
Qed.

Lemma value_add s s' u tokn max_tok exact_std min_liq m n q :
  add_case s s' (User u) tokn max_tok exact_std min_liq m ->
  0 < max_tok -> 0 < exact_std ->
  WF s -> lookup_pool n (st_pools s) = Some q ->
  0 < RL s q -> 0 < RL s' q -> value_le s s' n q.
Proof.
  intros HC Hmt Hes [HPV HN HOK HSUP] HL HL0 HL1.
  pose proof (HN (Escrow q) Std) as NX. pose proof (HN (Escrow q) (Tok n)) as NY.
  fold (RX s q) in NX. fold (RY s q n) in NY.
  assert (Hlt : q < st_next s).
  { destruct HOK as (_ & _ & Hb). apply Hb with (n := n). apply lookup_pool_in. exact HL. }
  destruct HC as [tax LP P1 P2 -> Hcap Hmin TP TR HB HS
                 |q0 LP L0 P1 P2 -> Hcap Hmin HB HS
                 |q0 LP L0 P1 P2 X Y L std_in dep X0 Xcap -> Hmin Hm0 Hdep Hdep0 Hstd0 HB HS].
  - (* a new pool is created: this pool keeps its reserves; its supply can only shrink (fee paid in its lpt) *)
    destruct (add_other_pool _ _ _ _ _ _ _ _ _ _ _ n q HB ltac:(lia)) as [EX EY].
    pose proof (add_sup_view _ _ _ _ _ _ q HS) as EL.
    destruct (Z.eqb_spec q (st_next s)); [lia|]. unfold delta at 1 in EL.
    apply value_shrink; try assumption.
    unfold delta in EL. destruct (denom_eqb (Lpt q) (p_cfee_denom (st_params s))); lia.
  - (* first liquidity of an existing empty pool: only that pool, whose supply was 0 *)
    destruct (Z.eq_dec q q0) as [->|Hq]; [unfold RL in HL0; lia|].
    destruct (add_other_pool _ _ _ _ _ _ _ _ _ _ _ n q HB Hq) as [EX EY].
    pose proof (add_sup_view _ _ _ _ _ _ q HS) as EL.
    destruct (Z.eqb_spec q q0); [contradiction|]. unfold delta in EL. cbn [denom_eqb] in EL.
    apply value_shrink; try assumption. lia.
  - destruct (Z.eq_dec q q0) as [->|Hq].
    + assert (n = tokn) by (eapply pools_ok_inj; eauto). subst n.
      destruct (add_same_pool _ _ _ _ _ _ _ _ _ HB) as [EX EY].
      pose proof (add_sup_view _ _ _ _ _ _ q0 HS) as EL.
      rewrite Z.eqb_refl in EL. unfold delta in EL. cbn [denom_eqb] in EL.
      unfold value_le. rewrite EX, EY, EL. unfold RX, RY, RL in *. fold X Y L in NX, NY, HL0 |- *.
      assert (HXpos : 0 < X) by lia.
      pose proof (add_ratio X Y L std_in HXpos NY HL0 Hstd0) as R. cbv zeta in R.
      unfold dep. rewrite !Z.quot_div_nonneg by nia.
      replace (L + L * std_in / X - 0) with (L + L * std_in / X) by lia. exact R.
    + destruct (add_other_pool _ _ _ _ _ _ _ _ _ _ _ n q HB Hq) as [EX EY].
      pose proof (add_sup_view _ _ _ _ _ _ q HS) as EL.
      destruct (Z.eqb_spec q q0); [contradiction|]. unfold delta in EL. cbn [denom_eqb] in EL.
      apply value_shrink; try assumption. lia.
Qed.

Lemma value_remove s u q0 w min_std min_tok s' ps pt n q :
  remove_liquidity s (User u) q0 w min_std min_tok = Some (s', (ps, pt)) -> 0 < w ->
  WF s -> lookup_pool n (st_pools s) = Some q ->
  0 < RL s q -> value_le s s' n q.
Proof.
  intros H Hw [HPV HN HOK HSUP] HL HL0.
  pose proof (HN (Escrow q) Std) as NX. pose proof (HN (Escrow q) (Tok n)) as NY.
  destruct (remove_liquidity_effect _ _ _ _ _ _ _ _ _ H Hw)
    as (tokn & LS & HwL & Hps & Hpt & _ & _ & _ & _ & _ & _ & HS & HB).
  cbv zeta in *.
  destruct (Z.eq_dec q q0) as [->|Hq].
  - assert (n = tokn).
    { destruct HOK as (_ & ND & _). apply lookup_pool_in in HL. apply (in_lookup_seq _ _ _ ND) in HL. congruence. }
    subst n.
    unfold value_le, RX, RY, RL in *. rewrite !HB, !HS. unfold at_, delta. cbn [acct_eqb denom_eqb andb].
    rewrite !Z.eqb_refl. cbn [andb].
    set (X := st_bal s (Escrow q0) Std) in *. set (Y := st_bal s (Escrow q0) (Tok tokn)) in *.
    set (L := st_sup s (Lpt q0)) in *.
    pose proof (remove_ratio X Y L w NX NY HL0 ltac:(lia)) as (R1 & R2 & _ & _ & R). cbv zeta in *.
    rewrite Z.quot_div_nonneg in Hps, Hpt by nia. subst ps pt.
    replace (X - 0 + 0 - w * X / L + 0 - 0) with (X - w * X / L) by lia.
    replace (Y - 0 + 0 - 0 + 0 - w * Y / L) with (Y - w * Y / L) by lia.
    exact R.
  - unfold value_le, RX, RY, RL in *. rewrite !HB, !HS. unfold at_, delta. cbn [acct_eqb denom_eqb andb].
    destruct (Z.eqb_spec q q0); [contradiction|]. cbn [andb]. rewrite !Z.add_0_r, !Z.sub_0_r. lia.
Qed.

Lemma value_refl s n q : value_le s s n q.
Proof. unfold value_le. lia. Qed.

(** C01, one step: for every message, every pool with outstanding tokens before
    and after keeps or increases its value per share. *)
Theorem value_step s o n q :
  WF s -> lookup_pool n (st_pools s) = Some q ->
  let s' := fst (deliver now s o) in
  0 < RL s q -> 0 < RL s' q -> value_le s s' n q.
Proof.
  intros W HL s' L0 L1. subst s'. unfold deliver in *.
  destruct (exec now s o) as [[s1 r]|] eqn:E; cbn [fst] in *; [|apply value_refl].
  destruct o; cbn [exec] in E; inv; bool_hyps.
  - destruct v as [s2 b]. cbn [fst] in *. eapply value_sell; eauto.
  - destruct v as [s2 b]. cbn [fst] in *. eapply value_buy; eauto.
  - destruct tok as [|tn|]; try discriminate. inv. destruct v as [s2 m]. cbn [fst snd] in *.
    match goal with HA : add_liquidity _ _ _ _ _ _ = Some _ |- _ =>
      destruct (add_liquidity_effect _ _ _ _ _ _ _ _ HA (wf_params _ W) ltac:(lia) ltac:(lia)) as (_ & _ & HC) end.
    eapply value_add; eauto.
  - destruct lpt as [| |sq]; try discriminate. inv. destruct v as [s2 [ps pt]]. cbn [fst snd] in *.
    eapply value_remove; eauto.
  - (* donation: a plain transfer by a user *)
    match goal with HA : send _ _ _ _ _ = Some _ |- _ =>
      destruct (send_spec _ _ _ _ _ _ HA ltac:(lia)) as (_ & HS & _ & _ & HB) end.
    destruct W as [_ HN _ _].
    pose proof (HN (Escrow q) Std). pose proof (HN (Escrow q) (Tok n)).
    apply value_same_L; [unfold RL; apply HS|].
    unfold RX, RY. rewrite !HB. unfold at_, delta. cbn [acct_eqb andb].
    apply prod_mono; split; try lia;
      match goal with |- context [if ?c then _ else _] => destruct c end; lia.
  - destruct v as [s2 b]. cbn [fst] in *. eapply value_buy; eauto.
  - (* parameter change: the bank is untouched *)
    unfold value_le, RX, RY, RL. cbn [st_bal st_sup]. lia.
Qed.

End Step.
