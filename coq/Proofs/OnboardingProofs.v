(** Proofs about the onboarding callback (property C11).

    Conventions: [s0] is the state before the transfer module's credit, [s1] the
    credited state the callback starts from, [s2] the state it leaves.  All
    statements are for an ARBITRARY EVM [E] (Model/Convert.v: a state type and
    four unconstrained call functions), every coinswap state with valid
    parameters, every configuration, packet, pair registration and amount. *)
From Coq Require Import ZArith List Bool Lia.
From Canto Require Import Lib.SdkInt Lib.SdkDec Model.Coinswap Model.Onboarding
     Proofs.CoinswapBase Proofs.CoinswapEffects.
From Canto Require Model.Convert Proofs.ConvertProofs.
Import ListNotations.
Open Scope Z_scope.

(** * Account numbering *)
Lemma dec_enc a : dec (enc a) = a.
Proof.
  unfold dec, enc. destruct a as [n|q|m].
  - replace (3 * n + 3) with ((n + 1) * 3) by lia. rewrite Z.mod_mul, Z.div_mul by lia.
    cbn [Z.eqb]. f_equal. lia.
  - replace (3 * q + 1) with (1 + q * 3) by lia. rewrite Z.mod_add, Z.div_add by lia.
    cbn. f_equal.
  - replace (3 * m + 2) with (2 + m * 3) by lia. rewrite Z.mod_add, Z.div_add by lia.
    cbn. f_equal.
Qed.

Lemma enc_inj a b : enc a = enc b -> a = b.
Proof. intros H. rewrite <- (dec_enc a), <- (dec_enc b), H. reflexivity. Qed.

Lemma enc_user_not_module n : enc (User n) <> MZ.
Proof. unfold MZ, M_erc20, enc. lia. Qed.

(** * The ledger view handed to the conversion *)
Lemma view_bal s d a : Convert.bal (view s d) (enc a) = st_bal s a d.
Proof. unfold view. cbn [Convert.bal]. rewrite dec_enc. reflexivity. Qed.

Lemma put_bal s d b x e :
  st_bal (put s d b) x e = if denom_eqb e d then Convert.bal b (enc x) else st_bal s x e.
Proof. reflexivity. Qed.
Lemma put_sup s d b e :
  st_sup (put s d b) e = if denom_eqb e d then Convert.supply b else st_sup s e.
Proof. reflexivity. Qed.
Lemma put_meta s d b : same_meta s (put s d b).
Proof. split; reflexivity. Qed.

(** * The keeper-level buy *)

(* on success it is exactly Coinswap.trade_buy (so every C01/C02/C08/C09 fact about trade_buy applies) *)
Lemma buy_keeper_ok s who din max_in aout s' sold :
  buy_keeper s who din max_in aout = BuyOk s' sold <->
  trade_buy s who who din max_in Std aout = Some (s', sold).
Proof.
  unfold buy_keeper, trade_buy.
  destruct (pool_of s Std din) as [seq|]; cbn [obind]; [|split; discriminate].
  destruct (0 <? st_bal s (Escrow seq) din); cbn [negb obind]; [|split; discriminate].
  destruct (0 <? st_bal s (Escrow seq) Std); cbn [negb obind]; [|split; discriminate].
  destruct (aout <? st_bal s (Escrow seq) Std); cbn [negb obind]; [|split; discriminate].
  destruct (output_price aout _ _ _) as [sd|]; cbn [obind]; [|split; discriminate].
  destruct (max_in <? sd); cbn [negb obind]; [split; discriminate|].
  destruct (sd <? 0); cbn [negb obind]; [split; discriminate|].
  destruct (quote Std aout din sd) as [qd qa].
  destruct (wl_lookup qd _) as [mx|]; cbn [obind]; [|split; discriminate].
  destruct (mx <? qa); cbn [negb obind]; [split; discriminate|].
  destruct (send s who (Escrow seq) din sd) as [s1|]; cbn [obind]; [|split; discriminate].
  destruct (send s1 (Escrow seq) who Std aout) as [s2|]; cbn [obind]; [|split; discriminate].
  split; intros H; inversion H; reflexivity.
Qed.

(* no partial swap: whatever error the keeper returns, the caller's context is
   untouched.  The only transfer that could fail after another one succeeded is
   the pool paying out, and the check [aout < output reserve] together with
   "the first transfer is not in the standard coin" excludes that. *)
Lemma buy_keeper_err_clean s n din max_in aout p :
  buy_keeper s (User n) din max_in aout = BuyErr p -> 0 <= aout -> p = s.
Proof.
  unfold buy_keeper. intros H Ha.
  destruct (pool_of s Std din) as [seq|] eqn:P; [|inversion H; reflexivity].
  destruct (0 <? st_bal s (Escrow seq) din); cbn [negb] in H; [|inversion H; reflexivity].
  destruct (0 <? st_bal s (Escrow seq) Std); cbn [negb] in H; [|inversion H; reflexivity].
  destruct (aout <? st_bal s (Escrow seq) Std) eqn:Lt; cbn [negb] in H; [|inversion H; reflexivity].
  destruct (output_price aout _ _ _) as [sd|]; [|discriminate].
  destruct (max_in <? sd); [inversion H; reflexivity|].
  destruct (sd <? 0) eqn:Neg; [discriminate|].
  destruct (quote Std aout din sd) as [qd qa].
  destruct (wl_lookup qd _) as [mx|]; [|inversion H; reflexivity].
  destruct (mx <? qa); [inversion H; reflexivity|].
  destruct (send s (User n) (Escrow seq) din sd) as [s1|] eqn:S1; [|inversion H; reflexivity].
  destruct (send s1 (Escrow seq) (User n) Std aout) as [s2|] eqn:S2; [discriminate|].
  exfalso. apply Z.ltb_lt in Lt. apply Z.ltb_ge in Neg.
  destruct (send_spec _ _ _ _ _ _ S1 Neg) as (_ & _ & _ & _ & F1).
  (* the transferred denomination is not the standard coin *)
  assert (Hd : din <> Std).
  { intros ->. unfold pool_of in P. cbn in P. discriminate. }
  unfold send in S2. destruct (aout =? 0); [discriminate|].
  destruct (st_bal s1 (Escrow seq) Std <? aout) eqn:L2; [|discriminate].
  apply Z.ltb_lt in L2. rewrite F1 in L2. unfold delta, at_ in L2.
  destruct (denom_eqb_spec Std din) as [Eq|_]; [congruence|].
  rewrite !andb_false_r in L2. lia.
Qed.

(** * The swap step *)

Record swap_facts (thr : Z) (r : acct) (d : denom) (amt : Z) (s s' : state) (sw : Z) : Prop := {
  sf_below : st_bal s r Std < thr;
  sf_buy : trade_buy s r r d amt Std thr = Some (s', sw)
}.

Lemma swap_phase_cases thr n d amt s s' sw :
  swap_phase thr (User n) d amt s = Some (s', sw) -> 0 <= st_bal s (User n) Std ->
  (sw = 0 /\ s' = s) \/ swap_facts thr (User n) d amt s s' sw.
Proof.
  unfold swap_phase. intros H Hnn.
  destruct (st_bal s (User n) Std <? thr) eqn:Lt; [|inversion H; auto].
  apply Z.ltb_lt in Lt.
  destruct (buy_keeper s (User n) d amt thr) as [s2 sold|p|] eqn:B; [| |discriminate].
  - inversion H; subst. right. split; [exact Lt|]. apply buy_keeper_ok. exact B.
  - inversion H; subst. left. split; [reflexivity|].
    apply (buy_keeper_err_clean _ _ _ _ _ _ B). lia.
Qed.

Lemma swap_phase_not_below thr r d amt s :
  thr <= st_bal s r Std -> swap_phase thr r d amt s = Some (s, 0).
Proof.
  intros H. unfold swap_phase. destruct (Z.ltb_spec (st_bal s r Std) thr); [lia|reflexivity].
Qed.

(** * The conversion step, for every EVM *)

Definition escrowed (k : Convert.pair_kind) (a : Z) : Z :=
  match k with Convert.NativeCoin => a | Convert.NativeERC20 => 0 end.
Definition burnt (k : Convert.pair_kind) (a : Z) : Z :=
  match k with Convert.NativeCoin => 0 | Convert.NativeERC20 => a end.

Lemma at_true x a e d : at_ x a e d = true -> x = a /\ e = d.
Proof.
  unfold at_. intros H. apply andb_prop in H as [H1 H2].
  destruct (acct_eqb_spec x a), (denom_eqb_spec e d); try discriminate. auto.
Qed.
Lemma at_refl a d : at_ a a d d = true.
Proof. unfold at_. rewrite acct_eqb_refl, denom_eqb_refl. reflexivity. Qed.
Lemma at_false_acct x a e d : x <> a -> at_ x a e d = false.
Proof. intros H. unfold at_. destruct (acct_eqb_spec x a); [contradiction|reflexivity]. Qed.
Lemma at_false_denom x a e d : e <> d -> at_ x a e d = false.
Proof. intros H. unfold at_. destruct (denom_eqb_spec e d); [contradiction|apply andb_false_r]. Qed.

Section Effects.
  Variable E : Convert.evm_model.

  (* what a completed conversion of [a] did *)
  Record conv_done (pi : pair_info) (r : acct) (d : denom) (a : Z) (s s' : ostate E) : Prop := {
    cd_pos : 0 < a;
    cd_has : a <= st_bal (o_cs s) r d;
    cd_pair : exists k c,
      pi = PairOn k c true true /\
      (forall e, st_sup (o_cs s') e = st_sup (o_cs s) e - delta (denom_eqb e d) (burnt k a)) /\
      (forall x e, st_bal (o_cs s') x e =
                   st_bal (o_cs s) x e - delta (at_ x r e d) a + delta (at_ x M_erc20 e d) (escrowed k a)) /\
      (* the ERC-20 side, as answered by the contract before and after *)
      exists t0 t1,
        Convert.call_balance_of E (o_evm s) c (enc r) = Some t0 /\
        Convert.call_balance_of E (o_evm s') c (enc r) = Some t1 /\ t1 = t0 + a;
    cd_meta : same_meta (o_cs s) (o_cs s')
  }.

  Lemma convert_phase_cases pi n d a s s' cv conv :
    convert_phase E pi (User n) d a s = Some (s', cv, conv) ->
    (conv = 0 /\ s' = s /\ cv <> ConvDone) \/
    (cv = ConvDone /\ conv = a /\ conv_done pi (User n) d a s s').
  Proof.
    unfold convert_phase. intros H.
    destruct pi as [| |k c g hc]; try (injection H as Hs Hc Ha; subst s' cv conv; left; repeat split; discriminate).
    destruct (a <? 0); [discriminate|].
    destruct (Convert.exec E MZ (convert_msg k c g hc (User n) a) (view (o_cs s) d, o_evm s)) as [[b' e']| |er p] eqn:X.
    - injection H as Hs Hc Ha. subst s' cv conv. right. split; [reflexivity|]. split; [reflexivity|].
      apply ConvertProofs.convert_ok_exact in X.
      destruct X as (Hpos & Hg & Hc & Hb & t0 & t1 & rv & logs & Q0 & _ & Q1 & Ht & _).
      cbn [convert_msg Convert.m_amt Convert.m_gate Convert.m_has_code] in Hpos, Hg, Hc. subst g hc.
      unfold ConvertProofs.checked, ConvertProofs.token_delta in Q0, Q1, Ht.
      cbn [convert_msg Convert.m_dir Convert.m_kind Convert.m_receiver Convert.m_contract Convert.m_amt] in Q0, Q1, Ht.
      assert (Ht' : t1 = t0 + a) by (destruct k; exact Ht). clear Ht.
      unfold ConvertProofs.bank_exact in Hb.
      cbn [convert_msg Convert.m_dir Convert.m_kind Convert.m_sender Convert.m_amt] in Hb.
      pose proof (enc_user_not_module n) as NM.
      destruct k.
      + (* module-owned pair: the coins are escrowed on the module account *)
        destruct Hb as (Hle & Hsup & Hne & _ & Hfr). specialize (Hne NM). destruct Hne as [Hr Hm].
        rewrite view_bal in Hle, Hr. unfold MZ in Hm. rewrite view_bal in Hm.
        constructor; cbn [o_cs o_evm]; [exact Hpos|exact Hle| |apply put_meta].
        exists Convert.NativeCoin, c. split; [reflexivity|]. split; [|split].
        * intros e. rewrite put_sup. cbn [burnt]. replace (delta _ 0) with 0 by (unfold delta; destruct (denom_eqb e d); reflexivity).
          destruct (denom_eqb_spec e d) as [->|]; [rewrite Hsup; cbn [view Convert.supply]|]; lia.
        * intros x e. rewrite put_bal. cbn [escrowed].
          destruct (denom_eqb_spec e d) as [->|Ne].
          -- destruct (acct_eqb_spec x (User n)) as [->|Nr].
             ++ rewrite at_refl, (at_false_acct (User n) M_erc20) by discriminate. rewrite Hr. unfold delta. lia.
             ++ destruct (acct_eqb_spec x M_erc20) as [->|Nm].
                ** rewrite at_refl, (at_false_acct M_erc20 (User n)) by discriminate. rewrite Hm. unfold delta. lia.
                ** rewrite (at_false_acct x (User n)), (at_false_acct x M_erc20) by assumption.
                   rewrite Hfr; [rewrite view_bal; unfold delta; lia| |].
                   --- intros Eq. apply enc_inj in Eq. contradiction.
                   --- intros Eq. apply enc_inj in Eq. contradiction.
          -- rewrite !at_false_denom by assumption. unfold delta. lia.
        * exists t0, t1. auto.
      + (* external pair: the coins are burnt *)
        destruct Hb as (Hle & Hsup & Hall). rewrite view_bal in Hle.
        constructor; cbn [o_cs o_evm]; [exact Hpos|exact Hle| |apply put_meta].
        exists Convert.NativeERC20, c. split; [reflexivity|]. split; [|split].
        * intros e. rewrite put_sup. cbn [burnt].
          destruct (denom_eqb_spec e d) as [->|]; [rewrite Hsup; cbn [view Convert.supply]|]; unfold delta; lia.
        * intros x e. rewrite put_bal. cbn [escrowed].
          replace (delta (at_ x M_erc20 e d) 0) with 0 by (unfold delta; destruct (at_ _ _ _ _); reflexivity).
          destruct (denom_eqb_spec e d) as [->|Ne].
          -- rewrite Hall. destruct (acct_eqb_spec x (User n)) as [->|Nr].
             ++ rewrite Z.eqb_refl, at_refl, view_bal. unfold delta. lia.
             ++ rewrite (at_false_acct x (User n)) by assumption.
                destruct (Z.eqb_spec (enc x) (enc (User n))) as [Eq|_]; [apply enc_inj in Eq; contradiction|].
                rewrite view_bal. unfold delta. lia.
          -- rewrite at_false_denom by assumption. unfold delta. lia.
        * exists t0, t1. auto.
    - injection H as Hs Hc Ha. subst s' cv conv. left. repeat split; discriminate.
    - destruct er; try discriminate; injection H as Hs Hc Ha; subst s' cv conv; left; repeat split; discriminate.
  Qed.
End Effects.

(** * The callback as a whole *)
Section Callback.
  Variable E : Convert.evm_model.

  (* either a guard stopped it (nothing done) or it went through both steps *)
  Lemma on_recv_inv c p s1 s2 rep n :
    on_recv E c p s1 = Some (s2, rep) ->
    pk_recipient p = Some (User n) ->
    (s2 = s1 /\ rep = idle (r_ack rep) /\
     (c_enabled c = false \/ whitelisted c (pk_channel p) = false \/ pk_sender_ok p = false)) \/
    (c_enabled c = true /\ whitelisted c (pk_channel p) = true /\ pk_sender_ok p = true /\
     r_acted rep = true /\ r_ack rep = AckOriginal /\
     exists cs1,
       swap_phase (c_threshold c) (User n) (pk_denom p) (pk_amount p) (o_cs s1) = Some (cs1, r_swapped rep) /\
       convert_phase E (pk_pair p) (User n) (pk_denom p) (pk_amount p - r_swapped rep) (mkO cs1 (o_evm s1))
         = Some (s2, r_conv rep, r_converted rep)).
  Proof.
    unfold on_recv. intros H R. rewrite R in H. cbn [is_module] in H.
    destruct (c_enabled c); cbn [negb] in H; [|injection H as <- <-; left; auto].
    destruct (whitelisted c (pk_channel p)); cbn [negb] in H; [|injection H as <- <-; left; auto].
    destruct (pk_sender_ok p); cbn [negb] in H; [|injection H as <- <-; left; auto].
    destruct (swap_phase _ _ _ _ _) as [[cs1 sw]|] eqn:S; [|discriminate].
    destruct (convert_phase _ _ _ _ _ _) as [[[s2' cv] conv]|] eqn:C; [|discriminate].
    injection H as <- <-. cbn [r_acted r_ack r_swapped r_conv r_converted].
    right. repeat split. exists cs1. split; first [assumption|reflexivity].
  Qed.

  (** every balance and every supply after the callback, in terms of the state
      it started from: [sw] went recipient -> pool, [g] (0 or exactly the
      threshold) pool -> recipient, [cv] recipient -> erc20 escrow (module-owned
      pair) or burnt (external pair).  Nothing else moves. *)
  Record effect (c : config) (p : packet) (n : Z) (s1 s2 : ostate E) (rep : receipt) (q g : Z) (k : Convert.pair_kind) : Prop := {
    ef_sw : (r_swapped rep = 0 /\ g = 0) \/
            (0 < r_swapped rep /\ r_swapped rep <= pk_amount p /\ g = c_threshold c /\
             st_bal (o_cs s1) (User n) Std < c_threshold c /\
             pool_of (o_cs s1) Std (pk_denom p) = Some q /\
             c_threshold c < st_bal (o_cs s1) (Escrow q) Std /\ 0 < st_bal (o_cs s1) (Escrow q) (pk_denom p));
    ef_cv : (r_converted rep = 0 /\ r_conv rep <> ConvDone) \/
            (r_converted rep = pk_amount p - r_swapped rep /\ 0 < r_converted rep /\ r_conv rep = ConvDone /\
             exists ct, pk_pair p = PairOn k ct true true /\
             (* the ERC-20 side, as answered by the contract before and after *)
             exists t0 t1,
               Convert.call_balance_of E (o_evm s1) ct (enc (User n)) = Some t0 /\
               Convert.call_balance_of E (o_evm s2) ct (enc (User n)) = Some t1 /\ t1 = t0 + r_converted rep);
    ef_meta : same_meta (o_cs s1) (o_cs s2);
    ef_sup : forall e, st_sup (o_cs s2) e = st_sup (o_cs s1) e - delta (denom_eqb e (pk_denom p)) (burnt k (r_converted rep));
    ef_bal : forall x e,
      st_bal (o_cs s2) x e = st_bal (o_cs s1) x e
        + delta (at_ x (Escrow q) e (pk_denom p)) (r_swapped rep) - delta (at_ x (User n) e (pk_denom p)) (r_swapped rep)
        + delta (at_ x (User n) e Std) g - delta (at_ x (Escrow q) e Std) g
        - delta (at_ x (User n) e (pk_denom p)) (r_converted rep)
        + delta (at_ x M_erc20 e (pk_denom p)) (escrowed k (r_converted rep))
  }.

  Theorem on_recv_effect c p s1 s2 rep n tk :
    on_recv E c p s1 = Some (s2, rep) ->
    pk_recipient p = Some (User n) -> pk_denom p = Tok tk ->
    params_valid (st_params (o_cs s1)) = true ->
    0 <= st_bal (o_cs s1) (User n) Std ->
    exists q g k, effect c p n s1 s2 rep q g k.
  Proof.
    intros H R D PV NN.
    destruct (on_recv_inv _ _ _ _ _ _ H R) as [(-> & Hrep & _)|(_ & _ & _ & _ & _ & cs1 & S & C)].
    - (* stopped by a guard *)
      exists 0, 0, Convert.NativeCoin. rewrite Hrep. cbn [idle r_swapped r_converted r_conv].
      constructor; cbn [escrowed burnt r_swapped r_converted r_conv].
      + left. split; reflexivity.
      + left. split; [reflexivity|discriminate].
      + apply same_meta_refl.
      + intros e. rewrite delta_0. lia.
      + intros x e. rewrite !delta_0. lia.
    - (* both steps *)
      destruct (swap_phase_cases _ _ _ _ _ _ _ S NN) as [(Hsw & ->)|[Hlt Hbuy]].
      + (* no swap *)
        rewrite Hsw in *.
        destruct (convert_phase_cases E _ _ _ _ _ _ _ _ C) as [(Hcv & -> & Hnd)|(Hd & Hcv & CD)].
        * exists 0, 0, Convert.NativeCoin. cbn [o_cs o_evm].
          constructor; rewrite ?Hcv, ?Hsw; cbn [escrowed burnt o_cs o_evm].
          -- left. split; reflexivity.
          -- left. split; [reflexivity|exact Hnd].
          -- apply same_meta_refl.
          -- intros e. rewrite delta_0. lia.
          -- intros x e. rewrite !delta_0. lia.
        * destruct CD as [Hpos Hhas (k & ct & Hp & Hsup & Hbal & t0 & t1 & Q0 & Q1 & Ht) Hm]. cbn [o_cs o_evm] in *.
          exists 0, 0, k.
          constructor; rewrite ?Hcv, ?Hsw.
          -- left. split; reflexivity.
          -- right. split; [reflexivity|]. split; [exact Hpos|]. split; [exact Hd|].
             exists ct. split; [exact Hp|]. exists t0, t1. auto.
          -- exact Hm.
          -- exact Hsup.
          -- intros x e. rewrite Hbal, !delta_0. lia.
      + (* swapped *)
        assert (Hthr : 0 < c_threshold c) by lia.
        destruct (trade_buy_effect _ _ _ _ _ _ _ _ _ Hbuy Hthr PV)
          as (q & Hpool & Hin & Hout & _ & Hle & Hpos & _ & Hhas & Hmeta & Hsup1 & Hbal1).
        destruct (convert_phase_cases E _ _ _ _ _ _ _ _ C) as [(Hcv & -> & Hnd)|(Hd & Hcv & CD)].
        * exists q, (c_threshold c), Convert.NativeCoin. cbn [o_cs o_evm].
          constructor; rewrite ?Hcv; cbn [escrowed burnt o_cs o_evm].
          -- right. repeat split; assumption.
          -- left. split; [reflexivity|exact Hnd].
          -- exact Hmeta.
          -- intros e. rewrite Hsup1, delta_0. lia.
          -- intros x e. rewrite Hbal1, !delta_0. lia.
        * destruct CD as [Hcpos Hchas (k & ct & Hp & Hsup & Hbal & t0 & t1 & Q0 & Q1 & Ht) Hm]. cbn [o_cs o_evm] in *.
          exists q, (c_threshold c), k.
          constructor; rewrite ?Hcv.
          -- right. repeat split; assumption.
          -- right. split; [reflexivity|]. split; [exact Hcpos|]. split; [exact Hd|].
             exists ct. split; [exact Hp|]. exists t0, t1. auto.
          -- apply (same_meta_trans _ _ _ Hmeta Hm).
          -- intros e. rewrite Hsup, Hsup1. lia.
          -- intros x e. rewrite Hbal, Hbal1. lia.
  Qed.
End Callback.

(** * The property, measured on balances *)

(* voucher reserve gained by the pool of denomination [d] *)
Definition pool_gain (s s' : state) (d : denom) : Z :=
  match pool_of s Std d with
  | Some q => st_bal s' (Escrow q) d - st_bal s (Escrow q) d
  | None => 0
  end.
(* coins that left circulation towards the ERC-20 side: escrowed on the erc20 module account or burnt *)
Definition conv_meas (s s' : state) (d : denom) : Z :=
  (st_bal s' M_erc20 d - st_bal s M_erc20 d) + (st_sup s d - st_sup s' d).

Lemma delta_false v : delta false v = 0. Proof. reflexivity. Qed.
Lemma delta_true v : delta true v = v. Proof. reflexivity. Qed.

Ltac at_simpl :=
  unfold M_erc20, at_; cbn [acct_eqb denom_eqb andb]; rewrite ?Z.eqb_refl, ?andb_false_r; cbn [andb];
  rewrite ?delta_false, ?delta_true.


Section Property.
  Variable E : Convert.evm_model.

  Lemma recv_some c p s0 s2 rep :
    recv E c p s0 = (s2, Some rep) -> on_recv E c p (credit E p s0) = Some (s2, rep).
  Proof.
    unfold recv. destruct (on_recv E c p (credit E p s0)) as [[s' r']|]; intros H; inversion H; reflexivity.
  Qed.

  (* the credited state *)
  Lemma credit_spec p s0 n :
    pk_recipient p = Some (User n) -> 0 <= pk_amount p ->
    same_meta (o_cs s0) (o_cs (credit E p s0)) /\ o_evm (credit E p s0) = o_evm s0 /\
    (forall e, st_sup (o_cs (credit E p s0)) e = st_sup (o_cs s0) e + delta (denom_eqb e (pk_denom p)) (pk_amount p)) /\
    (forall x e, st_bal (o_cs (credit E p s0)) x e = st_bal (o_cs s0) x e + delta (at_ x (User n) e (pk_denom p)) (pk_amount p)).
  Proof.
    intros R Ha. unfold credit. rewrite R. cbn [o_cs o_evm].
    destruct (mint_spec (o_cs s0) (User n) (pk_denom p) (pk_amount p) Ha) as (M & S & B).
    repeat split; try apply M; assumption.
  Qed.

  (* the hypotheses shared by the statements below *)
  Record pre (p : packet) (n tk : Z) (s0 : ostate E) : Prop := {
    pre_rcpt : pk_recipient p = Some (User n);         (* a parsable, non-module recipient *)
    pre_denom : pk_denom p = Tok tk;                   (* the transferred coin is not the standard coin *)
    pre_amt : 0 < pk_amount p;                         (* ICS-20 rejects non-positive amounts *)
    pre_params : params_valid (st_params (o_cs s0)) = true;
    pre_std : 0 <= st_bal (o_cs s0) (User n) Std
  }.

  Lemma pre_credit p n tk s0 :
    pre p n tk s0 ->
    params_valid (st_params (o_cs (credit E p s0))) = true /\
    0 <= st_bal (o_cs (credit E p s0)) (User n) Std /\
    st_bal (o_cs (credit E p s0)) (User n) Std = st_bal (o_cs s0) (User n) Std.
  Proof.
    intros [R D A PV NN].
    destruct (credit_spec p s0 n R ltac:(lia)) as ([MP _ _] & _ & _ & B).
    rewrite MP. split; [exact PV|].
    assert (Eq : st_bal (o_cs (credit E p s0)) (User n) Std = st_bal (o_cs s0) (User n) Std).
    { rewrite B, D. at_simpl. lia. }
    rewrite Eq. auto.
  Qed.

  (** accounting: swapped + converted + left = transferred amount, each >= 0,
      every term read off balances / supply; the receipt's numbers are those. *)
  Theorem accounting c p n tk s0 s2 rep :
    pre p n tk s0 -> recv E c p s0 = (s2, Some rep) ->
    let s1 := credit E p s0 in
    let d := pk_denom p in
    let sw := pool_gain (o_cs s1) (o_cs s2) d in
    let cv := conv_meas (o_cs s1) (o_cs s2) d in
    let lf := st_bal (o_cs s2) (User n) d - st_bal (o_cs s0) (User n) d in
    sw + cv + lf = pk_amount p /\ 0 <= sw /\ 0 <= cv /\ 0 <= lf /\
    sw = r_swapped rep /\ cv = r_converted rep /\
    (* ERC-20 side: when something was converted, the balance the contract
       answers for the recipient grew by exactly that much *)
    (0 < cv -> exists k ct t0 t1, pk_pair p = PairOn k ct true true /\
        Convert.call_balance_of E (o_evm s0) ct (enc (User n)) = Some t0 /\
        Convert.call_balance_of E (o_evm s2) ct (enc (User n)) = Some t1 /\ t1 = t0 + cv).
  Proof.
    intros P H. pose proof P as [R D A PV NN].
    apply recv_some in H.
    destruct (pre_credit _ _ _ _ P) as (PV1 & NN1 & _).
    destruct (on_recv_effect E _ _ _ _ _ _ _ H R D PV1 NN1) as (q & g & k & [Hsw Hcv Hm Hsup Hbal]).
    destruct (credit_spec p s0 n R ltac:(lia)) as (_ & He & _ & B0).
    cbv zeta. unfold pool_gain, conv_meas.
    assert (Hr : st_bal (o_cs s2) (User n) (pk_denom p) - st_bal (o_cs s0) (User n) (pk_denom p)
                 = pk_amount p - r_swapped rep - r_converted rep).
    { rewrite Hbal, B0, D. at_simpl. lia. }
    assert (Hmod : st_bal (o_cs s2) M_erc20 (pk_denom p) - st_bal (o_cs (credit E p s0)) M_erc20 (pk_denom p)
                   = escrowed k (r_converted rep)).
    { rewrite Hbal, D. at_simpl. lia. }
    assert (Hs : st_sup (o_cs (credit E p s0)) (pk_denom p) - st_sup (o_cs s2) (pk_denom p) = burnt k (r_converted rep)).
    { rewrite Hsup, denom_eqb_refl. unfold delta. lia. }
    assert (Hkc : escrowed k (r_converted rep) + burnt k (r_converted rep) = r_converted rep) by (destruct k; cbn; lia).
    assert (Hpool : match pool_of (o_cs (credit E p s0)) Std (pk_denom p) with
                    | Some q0 => st_bal (o_cs s2) (Escrow q0) (pk_denom p) - st_bal (o_cs (credit E p s0)) (Escrow q0) (pk_denom p)
                    | None => 0 end = r_swapped rep).
    { destruct Hsw as [(Z0 & _)|(Hpos & _ & _ & _ & Hp & _)].
      - destruct (pool_of _ Std _) as [q0|]; [|lia]. rewrite Hbal, D, Z0. at_simpl. rewrite ?delta_0.
        unfold delta. destruct (q0 =? q); lia.
      - rewrite Hp. rewrite Hbal, D. at_simpl. lia. }
    rewrite Hpool, Hmod, Hs, Hkc, Hr.
    assert (Hnn : 0 <= r_swapped rep /\ 0 <= r_converted rep /\ r_swapped rep + r_converted rep <= pk_amount p).
    { destruct Hsw as [(Z0 & _)|(Hpos & Hle & _)]; destruct Hcv as [(C0 & _)|(Ceq & Cpos & _)]; lia. }
    repeat split; try lia.
    intros Hpos. destruct Hcv as [(C0 & _)|(_ & _ & _ & ct & Hp & t0 & t1 & Q0 & Q1 & Ht)]; [lia|].
    exists k, ct, t0, t1. rewrite <- He. auto.
  Qed.

  (** guards: onboarding disabled / destination channel not whitelisted /
      module-account recipient -> nothing is done and the acknowledgement is the original *)
  Theorem guards c p s :
    c_enabled c = false \/ whitelisted c (pk_channel p) = false \/
    (pk_sender_ok p = true /\ exists m, pk_recipient p = Some (Module m)) ->
    on_recv E c p s = Some (s, idle AckOriginal).
  Proof.
    unfold on_recv. intros [H|[H|(H & m & R)]].
    - rewrite H. reflexivity.
    - destruct (c_enabled c); [|reflexivity]. rewrite H. reflexivity.
    - destruct (c_enabled c); [|reflexivity]. destruct (whitelisted c (pk_channel p)); [|reflexivity].
      rewrite H, R. reflexivity.
  Qed.

  (** acknowledgement: parsable addresses -> whatever happens (including failed
      swap, failed conversion, module recipient) the original acknowledgement
      is returned *)
  Theorem ack_unchanged c p s s' rep r :
    pk_sender_ok p = true -> pk_recipient p = Some r ->
    on_recv E c p s = Some (s', rep) -> r_ack rep = AckOriginal.
  Proof.
    unfold on_recv. intros So R H. rewrite So, R in H. cbn [negb] in H.
    destruct (c_enabled c); cbn [negb] in H; [|injection H as <- <-; reflexivity].
    destruct (whitelisted c (pk_channel p)); cbn [negb] in H; [|injection H as <- <-; reflexivity].
    destruct (is_module r); [injection H as <- <-; reflexivity|].
    destruct (swap_phase _ _ _ _ _) as [[cs1 sw]|]; [|discriminate].
    destruct (convert_phase _ _ _ _ _ _) as [[[s2 cv] conv]|]; [|discriminate].
    injection H as <- <-. reflexivity.
  Qed.

  (* the acknowledgement is replaced only for unparsable addresses (on an
     enabled, whitelisted channel), and then nothing else is done *)
  Theorem ack_error_only_unparsable c p s s' rep :
    on_recv E c p s = Some (s', rep) -> r_ack rep = AckError ->
    s' = s /\ (pk_sender_ok p = false \/ pk_recipient p = None).
  Proof.
    unfold on_recv. intros H A.
    destruct (c_enabled c); cbn [negb] in H; [|injection H as <- <-; discriminate].
    destruct (whitelisted c (pk_channel p)); cbn [negb] in H; [|injection H as <- <-; discriminate].
    destruct (pk_sender_ok p); cbn [negb] in H; [|injection H as <- <-; auto].
    destruct (pk_recipient p) as [r|]; [|injection H as <- <-; auto].
    destruct (is_module r); [injection H as <- <-; discriminate|].
    destruct (swap_phase _ _ _ _ _) as [[cs1 sw]|]; [|discriminate].
    destruct (convert_phase _ _ _ _ _ _) as [[[s2 cv] conv]|]; [|discriminate].
    injection H as <- <-. discriminate.
  Qed.

  (** prior balances: what the recipient held before the transfer is not
      reduced — the transferred denomination, the standard coin (which never
      decreases) and every other denomination (unchanged) *)
  Theorem prior_untouched c p n tk s0 s2 rep :
    pre p n tk s0 -> recv E c p s0 = (s2, Some rep) ->
    st_bal (o_cs s0) (User n) (pk_denom p) <= st_bal (o_cs s2) (User n) (pk_denom p) /\
    st_bal (o_cs s0) (User n) Std <= st_bal (o_cs s2) (User n) Std /\
    (forall e, e <> pk_denom p -> e <> Std -> st_bal (o_cs s2) (User n) e = st_bal (o_cs s0) (User n) e).
  Proof.
    intros P H. pose proof P as [R D A PV NN].
    destruct (accounting _ _ _ _ _ _ _ P H) as (_ & _ & _ & Hlf & _).
    apply recv_some in H.
    destruct (pre_credit _ _ _ _ P) as (PV1 & NN1 & _).
    destruct (on_recv_effect E _ _ _ _ _ _ _ H R D PV1 NN1) as (q & g & k & [Hsw Hcv Hm Hsup Hbal]).
    destruct (credit_spec p s0 n R ltac:(lia)) as (_ & _ & _ & B0).
    split; [lia|]. split.
    - rewrite Hbal, B0, D. at_simpl. rewrite ?delta_0.
      destruct Hsw as [(_ & ->)|(_ & _ & -> & Hlt & _)]; lia.
    - intros e Ne Ns. rewrite Hbal, B0.
      rewrite !(at_false_denom _ _ e (pk_denom p)) by assumption.
      rewrite !(at_false_denom _ _ e Std) by assumption. unfold delta. lia.
  Qed.

  (** a swap happens only below the threshold and then credits exactly the
      threshold, paid by the pool, against at most the transferred amount *)
  Theorem swap_iff c p n tk s0 s2 rep :
    pre p n tk s0 -> recv E c p s0 = (s2, Some rep) ->
    let d := pk_denom p in
    let thr := c_threshold c in
    (0 < r_swapped rep ->
       st_bal (o_cs s0) (User n) Std < thr /\
       st_bal (o_cs s2) (User n) Std = st_bal (o_cs s0) (User n) Std + thr /\
       r_swapped rep <= pk_amount p /\
       exists q, pool_of (o_cs s0) Std d = Some q /\
         st_bal (o_cs s2) (Escrow q) Std = st_bal (o_cs s0) (Escrow q) Std - thr /\
         st_bal (o_cs s2) (Escrow q) d = st_bal (o_cs s0) (Escrow q) d + r_swapped rep) /\
    (r_swapped rep = 0 -> forall x, st_bal (o_cs s2) x Std = st_bal (o_cs s0) x Std) /\
    (thr <= st_bal (o_cs s0) (User n) Std -> r_swapped rep = 0) /\
    0 <= r_swapped rep.
  Proof.
    intros P H. pose proof P as [R D A PV NN].
    apply recv_some in H.
    destruct (pre_credit _ _ _ _ P) as (PV1 & NN1 & Eq1).
    destruct (on_recv_effect E _ _ _ _ _ _ _ H R D PV1 NN1) as (q & g & k & [Hsw Hcv Hm Hsup Hbal]).
    destruct (credit_spec p s0 n R ltac:(lia)) as ([_ _ MPools] & _ & _ & B0).
    assert (Hpool : forall dd, pool_of (o_cs (credit E p s0)) Std dd = pool_of (o_cs s0) Std dd).
    { intros dd. unfold pool_of. rewrite MPools. reflexivity. }
    cbv zeta. split; [|split; [|split]].
    - intros Hpos. destruct Hsw as [(Z0 & _)|(_ & Hle & -> & Hlt & Hp & Ho & Hi)]; [lia|].
      rewrite Eq1 in Hlt. split; [exact Hlt|]. split.
      + rewrite Hbal, B0, D. at_simpl. lia.
      + split; [exact Hle|]. exists q. rewrite <- Hpool. split; [exact Hp|]. split.
        * rewrite Hbal, B0, D. at_simpl. lia.
        * rewrite Hbal, B0, D. at_simpl. lia.
    - intros Z0 x. destruct Hsw as [(_ & ->)|(Hpos & _)]; [|lia].
      rewrite Hbal, B0, D, Z0.
      rewrite !(at_false_denom _ _ Std (Tok tk)) by discriminate. rewrite !delta_0. unfold delta. lia.
    - intros Hge. destruct Hsw as [(Z0 & _)|(_ & _ & _ & Hlt & _)]; [exact Z0|]. rewrite Eq1 in Hlt. lia.
    - destruct Hsw as [(Z0 & _)|(Hpos & _)]; lia.
  Qed.

  (** no partial effect of a failed swap: whenever the swap step reports
      nothing swapped, the state it leaves is the state it found *)
  Theorem failed_swap_leaves_state thr n d amt s s' :
    params_valid (st_params s) = true -> 0 <= st_bal s (User n) Std ->
    swap_phase thr (User n) d amt s = Some (s', 0) -> s' = s.
  Proof.
    intros PV NN H.
    destruct (swap_phase_cases _ _ _ _ _ _ _ H NN) as [(_ & ->)|[Hlt Hbuy]]; [reflexivity|].
    assert (Hthr : 0 < thr) by lia.
    destruct (trade_buy_effect _ _ _ _ _ _ _ _ _ Hbuy Hthr PV) as (q & _ & _ & _ & _ & _ & Hpos & _). lia.
  Qed.

  (** no partial effect of a failed conversion: if nothing was converted, the
      state after the callback is exactly the state after the swap step — bank
      AND EVM state — whatever the EVM did *)
  Theorem failed_conversion_leaves_post_swap_state c p n s1 s2 rep :
    on_recv E c p s1 = Some (s2, rep) -> pk_recipient p = Some (User n) ->
    r_conv rep <> ConvDone ->
    r_converted rep = 0 /\
    ((s2 = s1 /\ r_acted rep = false) \/
     exists cs1, swap_phase (c_threshold c) (User n) (pk_denom p) (pk_amount p) (o_cs s1) = Some (cs1, r_swapped rep) /\
                 s2 = mkO cs1 (o_evm s1)).
  Proof.
    intros H R Hn.
    destruct (on_recv_inv E _ _ _ _ _ _ H R) as [(-> & Hrep & _)|(_ & _ & _ & _ & _ & cs1 & S & C)].
    - rewrite Hrep. cbn. auto.
    - destruct (convert_phase_cases E _ _ _ _ _ _ _ _ C) as [(Hcv & -> & _)|(Hd & _)]; [|contradiction].
      split; [exact Hcv|]. right. exists cs1. auto.
  Qed.
End Property.

(** * Fault sequences: a failure at each EVM call of the conversion *)
Theorem failing_call_never_converts E k pi n d a cs e0 s' cv conv :
  1 <= k <= 3 ->
  convert_phase (fail_at E k) pi (User n) d a (@mkO (fail_at E k) cs (e0, 0)) = Some (s', cv, conv) ->
  cv <> ConvDone /\ conv = 0 /\ s' = @mkO (fail_at E k) cs (e0, 0).
Proof.
  intros Hk H. unfold convert_phase in H.
  destruct pi as [| |kd c g hc].
  - injection H as <- <- <-. repeat split. discriminate.
  - injection H as <- <- <-. repeat split. discriminate.
  - destruct (a <? 0); [discriminate|]. cbn [o_cs o_evm] in H.
    match type of H with match ?t with _ => _ end = _ => destruct t as [[b' e']| |er pp] eqn:X end.
    + exfalso. apply ConvertProofs.convert_ok_exact in X.
      destruct X as (_ & _ & _ & _ & t0 & t1 & rv & logs & Q0 & CL & Q1 & _).
      unfold ConvertProofs.checked in Q0, Q1. unfold ConvertProofs.the_call in CL.
      cbn [convert_msg Convert.m_dir Convert.m_kind Convert.m_receiver Convert.m_contract Convert.m_amt] in Q0, Q1, CL.
      assert (K : k = 1 \/ k = 2 \/ k = 3) by lia. destruct K as [->|[->| ->]].
      * cbn in Q0. discriminate.
      * destruct kd; cbn in CL; discriminate.
      * destruct kd; cbn in CL.
        -- destruct (Convert.call_mint E e0 c _ a) as [[[e1 v] l]|]; [|discriminate].
           injection CL as <- _ _. cbn in Q1. discriminate.
        -- destruct (Convert.call_transfer E e0 c _ _ a) as [[[e1 v] l]|]; [|discriminate].
           injection CL as <- _ _. cbn in Q1. discriminate.
    + injection H as <- <- <-. repeat split. discriminate.
    + destruct er; try discriminate; injection H as <- <- <-; repeat split; discriminate.
Qed.

(** * Histories: sequences of packets to the same recipient *)
Section History.
  Variable E : Convert.evm_model.
  Variable n : Z.                       (* the recipient, a user account *)

  (* one delivered packet, as the recipient's balances see it *)
  Lemma recv_step c p tk s0 s2 rep :
    pre E p n tk s0 -> recv E c p s0 = (s2, Some rep) ->
    params_valid (st_params (o_cs s2)) = true /\
    st_bal (o_cs s2) (User n) Std
      = st_bal (o_cs s0) (User n) Std + (if 0 <? r_swapped rep then c_threshold c else 0) /\
    (forall e, e <> Std ->
       st_bal (o_cs s2) (User n) e
         = st_bal (o_cs s0) (User n) e
           + (if denom_eqb (pk_denom p) e then pk_amount p - r_swapped rep - r_converted rep else 0)) /\
    0 <= r_swapped rep /\ 0 <= r_converted rep /\ r_swapped rep + r_converted rep <= pk_amount p /\
    (0 < r_swapped rep -> st_bal (o_cs s0) (User n) Std < c_threshold c).
  Proof.
    intros P H. pose proof P as [R D A PV NN].
    destruct (accounting E _ _ _ _ _ _ _ P H) as (Hsum & Hsw & Hcv & Hlf & Esw & Ecv & _).
    destruct (prior_untouched E _ _ _ _ _ _ _ P H) as (_ & _ & Hoth).
    destruct (swap_iff E _ _ _ _ _ _ _ P H) as (Hpos & Hzero & _ & _).
    cbv zeta in Hsum, Hsw, Hcv, Hlf, Esw, Ecv, Hpos.
    split.
    { pose proof (recv_some E _ _ _ _ _ H) as H'.
      destruct (pre_credit E _ _ _ _ P) as (PV1 & NN1 & _).
      destruct (on_recv_effect E _ _ _ _ _ _ _ H' R D PV1 NN1) as (q & g & k & [_ _ [MP _ _] _ _]).
      rewrite MP. exact PV1. }
    split.
    { destruct (Z.ltb_spec 0 (r_swapped rep)) as [L|L].
      - destruct (Hpos L) as (_ & Eq & _). exact Eq.
      - rewrite (Hzero ltac:(lia)). lia. }
    split.
    { intros e Ne. destruct (denom_eqb_spec (pk_denom p) e) as [<-|Nd].
      - lia.
      - rewrite Hoth by congruence. lia. }
    repeat split; try lia.
  Qed.

  Definition to_rcpt (h : list (config * packet)) : Prop :=
    Forall (fun cp => pk_recipient (snd cp) = Some (User n) /\
                      (exists tk, pk_denom (snd cp) = Tok tk) /\ 0 < pk_amount (snd cp)) h.

  (* sums over the delivered packets of a history (a packet whose delivery panicked has no receipt) *)
  Fixpoint total (f : config -> packet -> receipt -> Z) (h : list (config * packet)) (rs : list (option receipt)) : Z :=
    match h, rs with
    | (c, p) :: h', Some rep :: rs' => f c p rep + total f h' rs'
    | _ :: h', None :: rs' => total f h' rs'
    | _, _ => 0
    end.

  Definition left_of (e : denom) (c : config) (p : packet) (rep : receipt) : Z :=
    if denom_eqb (pk_denom p) e then pk_amount p - r_swapped rep - r_converted rep else 0.
  Definition std_of (c : config) (p : packet) (rep : receipt) : Z :=
    if 0 <? r_swapped rep then c_threshold c else 0.

  Fixpoint receipts_ok (h : list (config * packet)) (rs : list (option receipt)) : Prop :=
    match h, rs with
    | (c, p) :: h', Some rep :: rs' =>
        0 <= r_swapped rep /\ 0 <= r_converted rep /\ r_swapped rep + r_converted rep <= pk_amount p /\
        receipts_ok h' rs'
    | _ :: h', None :: rs' => receipts_ok h' rs'
    | [], [] => True
    | _, _ => False
    end.

  (** every history of packets to one recipient: each balance of the recipient
      is its initial balance plus what the delivered packets left there; the
      standard coin grows by exactly one threshold per swap; no balance ever
      ends below where it started *)
  Theorem history h : forall (s s' : ostate E) rs,
    to_rcpt h ->
    params_valid (st_params (o_cs s)) = true -> 0 <= st_bal (o_cs s) (User n) Std ->
    run E h s = (s', rs) ->
    receipts_ok h rs /\
    st_bal (o_cs s') (User n) Std = st_bal (o_cs s) (User n) Std + total std_of h rs /\
    (forall e, e <> Std -> st_bal (o_cs s') (User n) e = st_bal (o_cs s) (User n) e + total (left_of e) h rs) /\
    0 <= total std_of h rs /\ (forall e, 0 <= total (left_of e) h rs).
  Proof.
    induction h as [|[c p] h IH]; intros s s' rs T PV NN H.
    - cbn [run] in H. injection H as <- <-. cbn [total receipts_ok].
      repeat split; intros; lia.
    - cbn [run] in H. inversion T as [|x l (R & (tk & D) & A) T']. subst x l. cbn [snd] in R, D, A.
      destruct (recv E c p s) as [s1 orep] eqn:RV.
      destruct (run E h s1) as [s2 rps] eqn:RN. injection H as <- <-.
      destruct orep as [rep|].
      + assert (P : pre E p n tk s) by (constructor; assumption).
        destruct (recv_step _ _ _ _ _ _ P RV) as (PV1 & Hstd & Hoth & Hsw & Hcv & Hle & Hlt).
        assert (NN1 : 0 <= st_bal (o_cs s1) (User n) Std).
        { rewrite Hstd. destruct (0 <? r_swapped rep) eqn:L; [apply Z.ltb_lt in L; specialize (Hlt L)|]; lia. }
        destruct (IH _ _ _ T' PV1 NN1 RN) as (IH1 & IH2 & IH3 & IH4 & IH5).
        cbn [total receipts_ok].
        assert (S0 : 0 <= std_of c p rep).
        { unfold std_of. destruct (0 <? r_swapped rep) eqn:L; [apply Z.ltb_lt in L; specialize (Hlt L)|]; lia. }
        assert (L0 : forall e, 0 <= left_of e c p rep).
        { intros e. unfold left_of. destruct (denom_eqb (pk_denom p) e); lia. }
        repeat split; try assumption.
        * rewrite IH2, Hstd. unfold std_of. lia.
        * intros e Ne. rewrite (IH3 e Ne), (Hoth e Ne). unfold left_of. lia.
        * lia.
        * intros e. specialize (IH5 e). specialize (L0 e). lia.
      + (* the delivering transaction panicked: rolled back *)
        assert (s1 = s).
        { unfold recv in RV. destruct (on_recv E c p (credit E p s)) as [[a b]|]; inversion RV; reflexivity. }
        subst s1. destruct (IH _ _ _ T' PV NN RN) as (IH1 & IH2 & IH3 & IH4 & IH5).
        cbn [total receipts_ok]. repeat split; assumption.
  Qed.

  (* in the words of the property: over any history no balance of the recipient is reduced *)
  Corollary history_never_reduces h (s s' : ostate E) rs :
    to_rcpt h -> params_valid (st_params (o_cs s)) = true -> 0 <= st_bal (o_cs s) (User n) Std ->
    run E h s = (s', rs) ->
    forall e, st_bal (o_cs s) (User n) e <= st_bal (o_cs s') (User n) e.
  Proof.
    intros T PV NN H e. destruct (history h _ _ _ T PV NN H) as (_ & Hs & Ho & S0 & L0).
    destruct (denom_eqb_spec e Std) as [->|Ne].
    - lia.
    - rewrite (Ho e Ne). specialize (L0 e). lia.
  Qed.
End History.

(** * Non-vacuity: concrete states satisfying the hypotheses, with every branch taken *)
Definition ex_bal : acct -> denom -> Z := fun a d =>
  match a, d with
  | User 0, Tok 0 => 50            (* prior vouchers of the recipient *)
  | User 0, Tok 5 => 7             (* an unrelated denomination *)
  | Escrow 1, Std => 10000         (* the pool *)
  | Escrow 1, Tok 0 => 10000
  | _, _ => 0
  end.
Definition ex_cs : state :=
  mkState (mkParams 3000000000000000 Std 0 0 1000000 [(Tok 0, 1000000000)]) 2 [(0, 1)] ex_bal
          (fun d => match d with Tok 0 => 10050 | Std => 10000 | _ => 0 end).
Definition ex_h0 : Convert.hledger := Convert.mkH (fun _ => 0) 0 MZ false.
Definition ex_s0 : ostate (Convert.honest MZ) := @mkO (Convert.honest MZ) ex_cs ex_h0.
Definition ex_cfg : config := mkCfg true [0] 100.
Definition ex_pkt (amt : Z) : packet :=
  mkPacket 0 true (Some (User 0)) (Tok 0) amt (PairOn Convert.NativeCoin 7 true true).

Definition ex_view {E} (r : ostate E * option receipt) :=
  (option_map r_swapped (snd r), option_map r_converted (snd r), option_map r_conv (snd r),
   st_bal (o_cs (fst r)) (User 0) Std, st_bal (o_cs (fst r)) (User 0) (Tok 0), st_bal (o_cs (fst r)) (User 0) (Tok 5),
   st_bal (o_cs (fst r)) (Escrow 1) Std, st_bal (o_cs (fst r)) (Escrow 1) (Tok 0), st_bal (o_cs (fst r)) M_erc20 (Tok 0)).

Example ex_pre : pre (Convert.honest MZ) (ex_pkt 1000) 0 0 ex_s0.
Proof. constructor; vm_compute; try reflexivity; discriminate. Qed.

(* swap of exactly the threshold for 102 of 1000, the remaining 898 converted, the prior 50 untouched *)
Example ex_swap_and_convert :
  ex_view (recv (Convert.honest MZ) ex_cfg (ex_pkt 1000) ex_s0)
  = (Some 102, Some 898, Some ConvDone, 100, 50, 7, 9900, 10102, 898) /\
  Convert.tbal (o_evm (fst (recv (Convert.honest MZ) ex_cfg (ex_pkt 1000) ex_s0))) (enc (User 0)) = 898.
Proof. vm_compute. split; reflexivity. Qed.

(* the transferred amount does not pay for the threshold: the swap is refused without trace, everything is converted *)
Example ex_swap_refused :
  ex_view (recv (Convert.honest MZ) ex_cfg (ex_pkt 101) ex_s0)
  = (Some 0, Some 101, Some ConvDone, 0, 50, 7, 10000, 10000, 101).
Proof. vm_compute. reflexivity. Qed.

(* the second EVM call of the conversion fails: the swap stays, the rest is left as voucher *)
Example ex_conversion_fails :
  ex_view (recv (fail_at (Convert.honest MZ) 2) ex_cfg (ex_pkt 1000) (@mkO (fail_at (Convert.honest MZ) 2) ex_cs (ex_h0, 0)))
  = (Some 102, Some 0, Some ConvFailed, 100, 948, 7, 9900, 10102, 0).
Proof. vm_compute. reflexivity. Qed.

(* standard balance at the threshold: no swap *)
Example ex_at_threshold :
  ex_view (recv (Convert.honest MZ) (mkCfg true [0] 0) (ex_pkt 1000) ex_s0)
  = (Some 0, Some 1000, Some ConvDone, 0, 50, 7, 10000, 10000, 1000).
Proof. vm_compute. reflexivity. Qed.

(* guards *)
Example ex_guards :
  ex_view (recv (Convert.honest MZ) (mkCfg false [0] 100) (ex_pkt 1000) ex_s0)
  = (Some 0, Some 0, Some ConvNotTried, 0, 1050, 7, 10000, 10000, 0) /\
  ex_view (recv (Convert.honest MZ) (mkCfg true [1; 5] 100) (ex_pkt 1000) ex_s0)
  = (Some 0, Some 0, Some ConvNotTried, 0, 1050, 7, 10000, 10000, 0) /\
  option_map r_ack (snd (recv (Convert.honest MZ) ex_cfg
      (mkPacket 0 true (Some (Module 2)) (Tok 0) 1000 (PairOn Convert.NativeCoin 7 true true)) ex_s0)) = Some AckOriginal /\
  option_map r_ack (snd (recv (Convert.honest MZ) ex_cfg
      (mkPacket 0 false (Some (User 0)) (Tok 0) 1000 (PairOn Convert.NativeCoin 7 true true)) ex_s0)) = Some AckError.
Proof. vm_compute. repeat split; reflexivity. Qed.

(* a panic (overflow inside GetOutputPrice with reserves of 2^200): the delivery is rolled back, no receipt *)
Definition ex_huge : state :=
  mkState (st_params ex_cs) 2 [(0, 1)]
          (fun a d => match a, d with Escrow 1, _ => 2 ^ 200 | _, _ => 0 end) (fun _ => 2 ^ 201).
Example ex_panic_rolls_back :
  snd (recv (Convert.honest MZ) (mkCfg true [0] (2 ^ 100)) (ex_pkt 1000) (@mkO (Convert.honest MZ) ex_huge ex_h0)) = None /\
  st_bal (o_cs (fst (recv (Convert.honest MZ) (mkCfg true [0] (2 ^ 100)) (ex_pkt 1000) (@mkO (Convert.honest MZ) ex_huge ex_h0))))
         (User 0) (Tok 0) = 0.
Proof. vm_compute. split; reflexivity. Qed.

(* a history: two packets; after the first the recipient holds the threshold, so the second is converted whole *)
Example ex_history :
  let h := [(ex_cfg, ex_pkt 1000); (ex_cfg, ex_pkt 500)] in
  to_rcpt 0 h /\
  let r := run (Convert.honest MZ) h ex_s0 in
  (map (option_map r_swapped) (snd r), map (option_map r_converted) (snd r),
   st_bal (o_cs (fst r)) (User 0) Std, st_bal (o_cs (fst r)) (User 0) (Tok 0),
   Convert.tbal (o_evm (fst r)) (enc (User 0)), total (left_of (Tok 0)) h (snd r), total std_of h (snd r))
  = ([Some 102; Some 0], [Some 898; Some 500], 100, 50, 1398, 0, 100).
Proof.
  split.
  - repeat constructor; try (exists 0; reflexivity); reflexivity.
  - vm_compute. reflexivity.
Qed.

(* a failed keeper-level buy: error, nothing touched *)
Example ex_buy_err :
  buy_keeper ex_cs (User 0) (Tok 0) 50 100 = BuyErr ex_cs /\ buy_keeper ex_cs (User 0) (Tok 3) 5000 100 = BuyErr ex_cs.
Proof. split; reflexivity. Qed.
