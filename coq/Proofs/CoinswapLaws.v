(** Coinswap proofs, part 5: conservation (C02), limits and quotes (C08), caps (C09),
    who can be debited (C07), pro-rata and round-trip consequences (C01). *)
From Coq Require Import ZArith List Bool Lia Psatz.
From Canto Require Import Lib.SdkInt Lib.SdkDec Lib.SdkDecProofs Model.Coinswap
     Proofs.CoinswapBase Proofs.CoinswapEffects Proofs.CoinswapValue Proofs.CoinswapWF.
Import ListNotations.
Open Scope Z_scope.

(** * sums over finite sets of accounts *)
Definition total (s : state) (accts : list acct) (e : denom) : Z :=
  fold_right (fun x acc => st_bal s x e + acc) 0 accts.

Lemma sum_delta accts a e d v :
  NoDup accts -> In a accts ->
  fold_right (fun x acc => delta (at_ x a e d) v + acc) 0 accts = delta (denom_eqb e d) v.
Proof.
  induction accts as [|y r IH]; intros ND HIn; [contradiction|].
  inversion ND as [|? ? Hnot ND']; subst. cbn [fold_right].
  destruct HIn as [->|HIn].
  - assert (Z0 : fold_right (fun x acc => delta (at_ x a e d) v + acc) 0 r = 0).
    { clear IH ND ND'. induction r as [|z r IHr]; cbn [fold_right]; [reflexivity|].
      rewrite IHr by (intros X; apply Hnot; right; exact X).
      unfold at_. destruct (acct_eqb_spec z a); [subst; exfalso; apply Hnot; left; reflexivity|].
      cbn [andb delta]. reflexivity. }
    rewrite Z0. unfold at_. rewrite acct_eqb_refl. cbn [andb]. lia.
  - rewrite (IH ND' HIn). unfold at_. destruct (acct_eqb_spec y a); [subst; contradiction|].
    cbn [andb delta]. lia.
Qed.

Lemma total_ext s s' accts e (f : acct -> Z) :
  (forall x, st_bal s' x e = st_bal s x e + f x) ->
  total s' accts e = total s accts e + fold_right (fun x acc => f x + acc) 0 accts.
Proof.
  intros H. unfold total. induction accts as [|y r IH]; cbn [fold_right]; [lia|]. rewrite H, IH. lia.
Qed.
Lemma fold_add (f g : acct -> Z) accts :
  fold_right (fun x acc => (f x + g x) + acc) 0 accts =
  fold_right (fun x acc => f x + acc) 0 accts + fold_right (fun x acc => g x + acc) 0 accts.
Proof. induction accts as [|y r IH]; cbn [fold_right]; [reflexivity|]. rewrite IH. lia. Qed.
Lemma fold_opp (f : acct -> Z) accts :
  fold_right (fun x acc => (- f x) + acc) 0 accts = - fold_right (fun x acc => f x + acc) 0 accts.
Proof. induction accts as [|y r IH]; cbn [fold_right]; [reflexivity|]. rewrite IH. lia. Qed.

(** * C02: a swap-shaped change conserves every coin among payer, recipient and escrow *)
Lemma swap_shape_conserves s s' payer rec esc din dout a b :
  (forall x e, st_bal s' x e = st_bal s x e
       + delta (at_ x esc e din) a - delta (at_ x payer e din) a
       + delta (at_ x rec e dout) b - delta (at_ x esc e dout) b) ->
  (* nobody else changes *)
  (forall x, x <> payer -> x <> rec -> x <> esc -> forall e, st_bal s' x e = st_bal s x e) /\
  (* over any set of accounts containing the three parties, every coin is conserved *)
  (forall accts, NoDup accts -> In payer accts -> In rec accts -> In esc accts ->
     forall e, total s' accts e = total s accts e).
Proof.
  intros HB. split.
  - intros x H1 H2 H3 e. rewrite HB. unfold at_, delta.
    destruct (acct_eqb_spec x esc), (acct_eqb_spec x payer), (acct_eqb_spec x rec); try contradiction.
    cbn [andb]. lia.
  - intros accts ND I1 I2 I3 e.
    rewrite (total_ext s s' accts e
      (fun x => (delta (at_ x esc e din) a + - delta (at_ x payer e din) a)
                + (delta (at_ x rec e dout) b + - delta (at_ x esc e dout) b))).
    2:{ intros x. rewrite HB. lia. }
    rewrite fold_add. rewrite !fold_add. rewrite !fold_opp.
    rewrite !sum_delta by assumption. lia.
Qed.

Section Step.
Variable now : Z.

(* C02: an accepted swap (sell or buy order) *)
Theorem swap_conserves s o s' r :
  WF s -> exec now s o = Some (s', r) ->
  match o with
  | Sell u rec din _ dout _ _ | Buy u rec din _ dout _ _ =>
      exists q, pool_of s din dout = Some q /\
        (forall e, st_sup s' e = st_sup s e) /\
        st_params s' = st_params s /\ st_pools s' = st_pools s /\ st_next s' = st_next s /\
        (forall x, x <> User u -> x <> rec -> x <> Escrow q -> forall e, st_bal s' x e = st_bal s x e) /\
        (forall accts, NoDup accts -> In (User u) accts -> In rec accts -> In (Escrow q) accts ->
           forall e, total s' accts e = total s accts e)
  | _ => True
  end.
Proof.
  intros W E. destruct o; try exact I; cbn [exec] in E; inv; bool_hyps.
  - destruct v as [s2 b]. cbn [fst] in *.
    match goal with HA : trade_sell _ _ _ _ _ _ _ = Some _ |- _ =>
      destruct (trade_sell_effect _ _ _ _ _ _ _ _ _ HA ltac:(lia) (wf_params _ W))
        as (q0 & HP & _ & _ & _ & _ & _ & _ & _ & [M1 M2 M3] & HS & HB) end.
    exists q0. destruct (swap_shape_conserves _ _ _ _ _ _ _ _ _ HB) as [C1 C2].
    splits; auto.
  - destruct v as [s2 b]. cbn [fst] in *.
    match goal with HA : trade_buy _ _ _ _ _ _ _ = Some _ |- _ =>
      destruct (trade_buy_effect _ _ _ _ _ _ _ _ _ HA ltac:(lia) (wf_params _ W))
        as (q0 & HP & _ & _ & _ & _ & _ & _ & _ & [M1 M2 M3] & HS & HB) end.
    exists q0. destruct (swap_shape_conserves _ _ _ _ _ _ _ _ _ HB) as [C1 C2].
    assert (HP' : pool_of s din dout = Some q0).
    { unfold pool_of in *. rewrite denom_eqb_sym. destruct (denom_eqb dout din); [discriminate|].
      destruct din, dout; try discriminate; exact HP. }
    splits; auto.
Qed.

(* C02: a rejected message changes nothing (message atomicity of baseapp, modelled by [deliver]) *)
Theorem rejected_no_change s o : snd (deliver now s o) = None -> fst (deliver now s o) = s.
Proof. unfold deliver. destruct (exec now s o) as [[s1 r]|]; cbn; [discriminate|reflexivity]. Qed.

End Step.

(** * C02: additions and removals *)
Lemma add_shape_conserves s s' u q tokn std tk m cd A tax :
  add_bal_eq s s' (User u) q tokn std tk m cd A tax ->
  (* only the provider, the escrow and (for the creation tax) the fee collector change;
     the coinswap module account keeps nothing *)
  (forall x, x <> User u -> x <> Escrow q -> x <> M_feecollector -> forall e, st_bal s' x e = st_bal s x e) /\
  (forall e, st_bal s' M_feecollector e = st_bal s M_feecollector e + delta (denom_eqb e cd) tax) /\
  (forall accts, NoDup accts -> In (User u) accts -> In (Escrow q) accts -> In M_feecollector accts ->
     forall e, total s' accts e = total s accts e + delta (denom_eqb e (Lpt q)) m - delta (denom_eqb e cd) (A - tax)).
Proof.
  intros HB. splits.
  - intros x H1 H2 H3 e. rewrite HB. unfold at_, delta.
    destruct (acct_eqb_spec x (Escrow q)), (acct_eqb_spec x (User u)), (acct_eqb_spec x M_feecollector); try contradiction.
    cbn [andb]. lia.
  - intros e. rewrite HB. unfold at_, delta, M_feecollector. cbn [acct_eqb andb]. rewrite Z.eqb_refl. cbn [andb]. lia.
  - intros accts ND I1 I2 I3 e.
    rewrite (total_ext s s' accts e
      (fun x => ((delta (at_ x (Escrow q) e Std) std + - delta (at_ x (User u) e Std) std)
                + (delta (at_ x (Escrow q) e (Tok tokn)) tk + - delta (at_ x (User u) e (Tok tokn)) tk))
                + (delta (at_ x (User u) e (Lpt q)) m
                + (- delta (at_ x (User u) e cd) A + delta (at_ x M_feecollector e cd) tax)))).
    2:{ intros x. rewrite HB. lia. }
    rewrite !fold_add. rewrite !fold_opp. rewrite !sum_delta by assumption.
    unfold delta. destruct (denom_eqb e Std), (denom_eqb e (Tok tokn)), (denom_eqb e (Lpt q)), (denom_eqb e cd); lia.
Qed.

Section Step2.
Variable now : Z.

(* C02 + C08 for AddLiquidity: who changes, by how much, supplies, the creation fee split,
   the bounds the user set, the response *)
Theorem add_ok s u tok max_tok exact_std min_liq deadline s' r :
  WF s -> exec now s (AddLiq u tok max_tok exact_std min_liq deadline) = Some (s', r) ->
  exists tokn q m std_in dep A tax,
    tok = Tok tokn /\ r = [m] /\ lookup_pool tokn (st_pools s') = Some q /\
    negb (expired now deadline) = true /\
    (* what the pool received and what was minted *)
    0 < std_in <= exact_std /\ 0 < dep <= max_tok /\ min_liq <= m /\ 0 <= m /\
    st_bal s' (Escrow q) Std = st_bal s (Escrow q) Std + std_in /\
    st_bal s' (Escrow q) (Tok tokn) = st_bal s (Escrow q) (Tok tokn) + dep /\
    (* the response equals what was applied: the provider's pool tokens and the supply grow by m *)
    add_bal_eq s s' (User u) q tokn std_in dep m (p_cfee_denom (st_params s)) A tax /\
    add_sup_eq s s' q m (p_cfee_denom (st_params s)) (A - tax) /\
    0 <= tax <= A /\
    (* creation: fee split exactly into tax (fee collector) and burn; otherwise no fee *)
    ((lookup_pool tokn (st_pools s) = None /\ A = p_cfee_amt (st_params s) /\
      tax = (A * p_tax (st_params s)) / S18 /\ q = st_next s /\ std_in = exact_std /\ dep = max_tok /\ m = exact_std)
     \/ (lookup_pool tokn (st_pools s) = Some q /\ A = 0 /\ tax = 0 /\
         ((st_sup s (Lpt q) = 0 /\ std_in = exact_std /\ dep = max_tok /\ m = exact_std)
          \/ (0 < st_sup s (Lpt q) /\ 0 < st_bal s (Escrow q) Std /\
              std_in = Z.min exact_std (p_cap (st_params s) - st_bal s (Escrow q) Std) /\
              m = (st_sup s (Lpt q) * std_in) / st_bal s (Escrow q) Std /\
              dep = (st_bal s (Escrow q) (Tok tokn) * std_in) / st_bal s (Escrow q) Std + 1)))) /\
    (* C09 *)
    0 < wl_amount (Tok tokn) (p_wl (st_params s)) /\
    std_in <= p_cap (st_params s) /\
    (0 < st_sup s (Lpt q) -> lookup_pool tokn (st_pools s) = Some q -> std_in <= p_cap (st_params s) - st_bal s (Escrow q) Std).
Proof.
  intros W E. cbn [exec] in E. inv. bool_hyps.
  destruct tok as [|tn|]; try discriminate. inv. destruct v as [s2 m]. cbn [fst snd] in *.
  match goal with HA : add_liquidity _ _ _ _ _ _ = Some _ |- _ =>
    destruct (add_liquidity_effect _ _ _ _ _ _ _ _ HA (wf_params _ W) ltac:(lia) ltac:(lia)) as (HWL & MP & HC) end.
  destruct W as [HPV HN HOK HSUP].
  destruct (params_valid_tax _ HPV) as (Htax & HA0 & Hcap).
  destruct HC as [tax LP P1 P2 -> Hc Hmin TP TR HB HS
                 |q0 LP L0 P1 P2 -> Hc Hmin HB HS
                 |q0 LP L0 P1 P2 X Y L std_in dep X0 Xcap -> Hmin Hm0 Hdep Hdep0 Hstd0 HB HS].
  - destruct (tax_part_spec _ _ _ HA0 Htax TP) as (Htx & _).
    exists tn, (st_next s), exact_std, exact_std, max_tok, (p_cfee_amt (st_params s)), tax.
    assert (Hfresh : forall d, st_bal s2 (Escrow (st_next s)) d = st_bal s (Escrow (st_next s)) d
              + delta (denom_eqb d Std) exact_std + delta (denom_eqb d (Tok tn)) max_tok).
    { intros d. rewrite HB. unfold at_, delta, M_feecollector. cbn [acct_eqb andb]. rewrite Z.eqb_refl. cbn [andb].
      destruct (denom_eqb d Std), (denom_eqb d (Tok tn)); lia. }
    splits; auto; try lia.
    all: try (apply negb_true_iff; assumption).
    all: try (rewrite P1; cbn [lookup_pool]; rewrite Z.eqb_refl; reflexivity).
    all: try (rewrite Hfresh; cbn [denom_eqb delta]; rewrite ?Z.eqb_refl; cbn [delta]; lia).
    all: try (intros _ HL; congruence).
    left. splits; auto.
  - exists tn, q0, exact_std, exact_std, max_tok, 0, 0.
    assert (Hsame : forall d, st_bal s2 (Escrow q0) d = st_bal s (Escrow q0) d
              + delta (denom_eqb d Std) exact_std + delta (denom_eqb d (Tok tn)) max_tok).
    { intros d. rewrite HB. rewrite !delta_0. unfold at_, delta. cbn [acct_eqb andb]. rewrite Z.eqb_refl. cbn [andb].
      destruct (denom_eqb d Std), (denom_eqb d (Tok tn)); lia. }
    splits; auto; try lia.
    all: try (apply negb_true_iff; assumption).
    all: try (rewrite P1; exact LP).
    all: try (rewrite Hsame; cbn [denom_eqb delta]; rewrite ?Z.eqb_refl; cbn [delta]; lia).
    all: try (intros x e; rewrite HB; rewrite !delta_0; lia).
    all: try (intros e; rewrite HS; rewrite !delta_0; lia).
    all: try (intros HL _; lia).
    right. splits; auto.
  - pose proof (HN (Escrow q0) Std) as NX. pose proof (HN (Escrow q0) (Tok tn)) as NY. fold X in NX. fold Y in NY.
    pose proof (HSUP (Lpt q0)) as NL. fold L in NL.
    assert (HXpos : 0 < X) by lia.
    assert (HLpos : 0 < L) by (unfold L in *; lia).
    assert (Hstd_pos : 0 < std_in) by (unfold std_in; lia).
    exists tn, q0, (Z.quot (L * std_in) X), std_in, dep, 0, 0.
    assert (Hsame : forall d, st_bal s2 (Escrow q0) d = st_bal s (Escrow q0) d
              + delta (denom_eqb d Std) std_in + delta (denom_eqb d (Tok tn)) dep).
    { intros d. rewrite HB. rewrite !delta_0. unfold at_, delta. cbn [acct_eqb andb]. rewrite Z.eqb_refl. cbn [andb].
      destruct (denom_eqb d Std), (denom_eqb d (Tok tn)); lia. }
    assert (Hdep_eq : dep = Y * std_in / X + 1) by (unfold dep; rewrite Z.quot_div_nonneg by nia; reflexivity).
    assert (Hdep_pos : 0 < dep).
    { rewrite Hdep_eq. assert (0 <= Y * std_in / X) by (apply Z.div_pos; nia). lia. }
    splits; auto; try lia.
    all: try (apply negb_true_iff; assumption).
    all: try (rewrite P1; exact LP).
    all: try (unfold std_in; lia).
    all: try (rewrite Hsame; cbn [denom_eqb delta]; rewrite ?Z.eqb_refl; cbn [delta]; lia).
    all: try (intros x e; rewrite HB; rewrite !delta_0; lia).
    all: try (intros e; rewrite HS; rewrite !delta_0; lia).
    all: try (intros _ _; unfold std_in; lia).
    right. splits; auto. right. splits; auto.
    rewrite Z.quot_div_nonneg by nia. reflexivity.
Qed.
End Step2.
