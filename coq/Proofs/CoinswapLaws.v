(** Coinswap proofs, part 5: conservation (C02), limits and quotes (C08), caps (C09),
    who can be debited (C07), pro-rata and round-trip consequences (C01). *)
From Coq Require Import ZArith List Bool Lia.
From Canto Require Import Lib.SdkInt Lib.SdkDec Lib.SdkDecProofs Model.Coinswap
     Proofs.CoinswapBase Proofs.CoinswapEffects Proofs.CoinswapValue Proofs.CoinswapWF.
Import ListNotations.
Open Scope Z_scope.

(** * sums over finite sets of accounts *)
Definition total (s : state) (accts : list acct) (e : denom) : Z :=
  fold_right (fun x acc => st_bal s x e + acc) 0 accts.

Lemma sum_delta accts a e d v :
  NoDup accts -> In a accts ->
  fold_right (fun x acc => delta (at_ x a e d) v + acc) 0 accts = delta (denom_eqb e d) v.
Proof.
  induction accts as [|y r IH]; intros ND HIn; [contradiction|].
  inversion ND as [|? ? Hnot ND']; subst. cbn [fold_right].
  destruct HIn as [->|HIn].
  - assert (Z0 : fold_right (fun x acc => delta (at_ x a e d) v + acc) 0 r = 0).
    { clear IH ND ND'. induction r as [|z r IHr]; cbn [fold_right]; [reflexivity|].
      rewrite IHr by (intros X; apply Hnot; right; exact X).
      unfold at_. destruct (acct_eqb_spec z a); [subst; exfalso; apply Hnot; left; reflexivity|].
      cbn [andb delta]. reflexivity. }
    rewrite Z0. unfold at_. rewrite acct_eqb_refl. cbn [andb]. lia.
  - rewrite (IH ND' HIn). unfold at_. destruct (acct_eqb_spec y a); [subst; contradiction|].
    cbn [andb delta]. lia.
Qed.

Lemma total_ext s s' accts e (f : acct -> Z) :
  (forall x, st_bal s' x e = st_bal s x e + f x) ->
  total s' accts e = total s accts e + fold_right (fun x acc => f x + acc) 0 accts.
Proof.
  intros H. unfold total. induction accts as [|y r IH]; cbn [fold_right]; [lia|]. rewrite H, IH. lia.
Qed.
Lemma fold_add (f g : acct -> Z) accts :
  fold_right (fun x acc => (f x + g x) + acc) 0 accts =
  fold_right (fun x acc => f x + acc) 0 accts + fold_right (fun x acc => g x + acc) 0 accts.
Proof. induction accts as [|y r IH]; cbn [fold_right]; [reflexivity|]. rewrite IH. lia. Qed.
Lemma fold_opp (f : acct -> Z) accts :
  fold_right (fun x acc => (- f x) + acc) 0 accts = - fold_right (fun x acc => f x + acc) 0 accts.
Proof. induction accts as [|y r IH]; cbn [fold_right]; [reflexivity|]. rewrite IH. lia. Qed.

(** * C02: a swap-shaped change conserves every coin among payer, recipient and escrow *)
Lemma swap_shape_conserves s s' payer rec esc din dout a b :
  (forall x e, st_bal s' x e = st_bal s x e
       + delta (at_ x esc e din) a - delta (at_ x payer e din) a
       + delta (at_ x rec e dout) b - delta (at_ x esc e dout) b) ->
  (* nobody else changes *)
  (forall x, x <> payer -> x <> rec -> x <> esc -> forall e, st_bal s' x e = st_bal s x e) /\
  (* over any set of accounts containing the three parties, every coin is conserved *)
  (forall accts, NoDup accts -> In payer accts -> In rec accts -> In esc accts ->
     forall e, total s' accts e = total s accts e).
Proof.
  intros HB. split.
  - intros x H1 H2 H3 e. rewrite HB. unfold at_, delta.
    destruct (acct_eqb_spec x esc), (acct_eqb_spec x payer), (acct_eqb_spec x rec); try contradiction.
    cbn [andb]. lia.
  - intros accts ND I1 I2 I3 e.
    rewrite (total_ext s s' accts e
      (fun x => (delta (at_ x esc e din) a + - delta (at_ x payer e din) a)
                + (delta (at_ x rec e dout) b + - delta (at_ x esc e dout) b))).
    2:{ intros x. rewrite HB. lia. }
    rewrite fold_add. rewrite !fold_add. rewrite !fold_opp.
    rewrite !sum_delta by assumption. lia.
Qed.

Section Step.
Variable now : Z.

(* C02: an accepted swap (sell or buy order) *)
Theorem swap_conserves s o s' r :
  WF s -> exec now s o = Some (s', r) ->
  match o with
  | Sell u rec din _ dout _ _ | Buy u rec din _ dout _ _ =>
      exists q, pool_of s din dout = Some q /\
        (forall e, st_sup s' e = st_sup s e) /\
        st_params s' = st_params s /\ st_pools s' = st_pools s /\ st_next s' = st_next s /\
        (forall x, x <> User u -> x <> rec -> x <> Escrow q -> forall e, st_bal s' x e = st_bal s x e) /\
        (forall accts, NoDup accts -> In (User u) accts -> In rec accts -> In (Escrow q) accts ->
           forall e, total s' accts e = total s accts e)
  | _ => True
  end.
Proof.
  intros W E. destruct o; try exact I; cbn [exec] in E; inv; bool_hyps.
  - destruct v as [s2 b]. cbn [fst] in *.
    match goal with HA : trade_sell _ _ _ _ _ _ _ = Some _ |- _ =>
      destruct (trade_sell_effect _ _ _ _ _ _ _ _ _ HA ltac:(lia) (wf_params _ W))
        as (q0 & HP & _ & _ & _ & _ & _ & _ & _ & [M1 M2 M3] & HS & HB) end.
    exists q0. destruct (swap_shape_conserves _ _ _ _ _ _ _ _ _ HB) as [C1 C2].
    splits; auto.
  - destruct v as [s2 b]. cbn [fst] in *.
    match goal with HA : trade_buy _ _ _ _ _ _ _ = Some _ |- _ =>
      destruct (trade_buy_effect _ _ _ _ _ _ _ _ _ HA ltac:(lia) (wf_params _ W))
        as (q0 & HP & _ & _ & _ & _ & _ & _ & _ & [M1 M2 M3] & HS & HB) end.
    exists q0. destruct (swap_shape_conserves _ _ _ _ _ _ _ _ _ HB) as [C1 C2].
    assert (HP' : pool_of s din dout = Some q0).
    { unfold pool_of in *. rewrite denom_eqb_sym. destruct (denom_eqb dout din); [discriminate|].
      destruct din, dout; try discriminate; exact HP. }
    splits; auto.
Qed.

(* C02: a rejected message changes nothing (message atomicity of baseapp, modelled by [deliver]) *)
Theorem rejected_no_change s o : snd (deliver now s o) = None -> fst (deliver now s o) = s.
Proof. unfold deliver. destruct (exec now s o) as [[s1 r]|]; cbn; [discriminate|reflexivity]. Qed.

End Step.

(** * C02: additions and removals *)
Lemma add_shape_conserves s s' u q tokn std tk m cd A tax :
  add_bal_eq s s' (User u) q tokn std tk m cd A tax ->
  (* only the provider, the escrow and (for the creation tax) the fee collector change;
     the coinswap module account keeps nothing *)
  (forall x, x <> User u -> x <> Escrow q -> x <> M_feecollector -> forall e, st_bal s' x e = st_bal s x e) /\
  (forall e, st_bal s' M_feecollector e = st_bal s M_feecollector e + delta (denom_eqb e cd) tax) /\
  (forall accts, NoDup accts -> In (User u) accts -> In (Escrow q) accts -> In M_feecollector accts ->
     forall e, total s' accts e = total s accts e + delta (denom_eqb e (Lpt q)) m - delta (denom_eqb e cd) (A - tax)).
Proof.
  intros HB. splits.
  - intros x H1 H2 H3 e. rewrite HB. unfold at_, delta.
    destruct (acct_eqb_spec x (Escrow q)), (acct_eqb_spec x (User u)), (acct_eqb_spec x M_feecollector); try contradiction.
    cbn [andb]. lia.
  - intros e. rewrite HB. unfold at_, delta, M_feecollector. cbn [acct_eqb andb]. rewrite Z.eqb_refl. cbn [andb]. lia.
  - intros accts ND I1 I2 I3 e.
    rewrite (total_ext s s' accts e
      (fun x => ((delta (at_ x (Escrow q) e Std) std + - delta (at_ x (User u) e Std) std)
                + (delta (at_ x (Escrow q) e (Tok tokn)) tk + - delta (at_ x (User u) e (Tok tokn)) tk))
                + (delta (at_ x (User u) e (Lpt q)) m
                + (- delta (at_ x (User u) e cd) A + delta (at_ x M_feecollector e cd) tax)))).
    2:{ intros x. rewrite HB. lia. }
    rewrite !fold_add. rewrite !fold_opp. rewrite !sum_delta by assumption.
    unfold delta. destruct (denom_eqb e Std), (denom_eqb e (Tok tokn)), (denom_eqb e (Lpt q)), (denom_eqb e cd); lia.
Qed.

Section Step2.
Variable now : Z.

(* C02 + C08 for AddLiquidity: who changes, by how much, supplies, the creation fee split,
   the bounds the user set, the response *)
Theorem add_ok s u tok max_tok exact_std min_liq deadline s' r :
  WF s -> exec now s (AddLiq u tok max_tok exact_std min_liq deadline) = Some (s', r) ->
  exists tokn q m std_in dep A tax,
    tok = Tok tokn /\ r = [m] /\ lookup_pool tokn (st_pools s') = Some q /\
    negb (expired now deadline) = true /\
    (* what the pool received and what was minted *)
    0 < std_in <= exact_std /\ 0 < dep <= max_tok /\ min_liq <= m /\ 0 <= m /\
    st_bal s' (Escrow q) Std = st_bal s (Escrow q) Std + std_in /\
    st_bal s' (Escrow q) (Tok tokn) = st_bal s (Escrow q) (Tok tokn) + dep /\
    (* the response equals what was applied: the provider's pool tokens and the supply grow by m *)
    add_bal_eq s s' (User u) q tokn std_in dep m (p_cfee_denom (st_params s)) A tax /\
    add_sup_eq s s' q m (p_cfee_denom (st_params s)) (A - tax) /\
    0 <= tax <= A /\
    (* creation: fee split exactly into tax (fee collector) and burn; otherwise no fee *)
    ((lookup_pool tokn (st_pools s) = None /\ A = p_cfee_amt (st_params s) /\
      tax = (A * p_tax (st_params s)) / S18 /\ q = st_next s /\ std_in = exact_std /\ dep = max_tok /\ m = exact_std)
     \/ (lookup_pool tokn (st_pools s) = Some q /\ A = 0 /\ tax = 0 /\
         ((st_sup s (Lpt q) = 0 /\ std_in = exact_std /\ dep = max_tok /\ m = exact_std)
          \/ (0 < st_sup s (Lpt q) /\ 0 < st_bal s (Escrow q) Std /\
              std_in = Z.min exact_std (p_cap (st_params s) - st_bal s (Escrow q) Std) /\
              m = (st_sup s (Lpt q) * std_in) / st_bal s (Escrow q) Std /\
              dep = (st_bal s (Escrow q) (Tok tokn) * std_in) / st_bal s (Escrow q) Std + 1)))) /\
    (* C09 *)
    0 < wl_amount (Tok tokn) (p_wl (st_params s)) /\
    std_in <= p_cap (st_params s) /\
    (0 < st_sup s (Lpt q) -> lookup_pool tokn (st_pools s) = Some q -> std_in <= p_cap (st_params s) - st_bal s (Escrow q) Std).
Proof.
  intros W E. cbn [exec] in E. inv. bool_hyps.
  destruct tok as [|tn|]; try discriminate. inv. destruct v as [s2 m]. cbn [fst snd] in *.
  match goal with HA : add_liquidity _ _ _ _ _ _ = Some _ |- _ =>
    destruct (add_liquidity_effect _ _ _ _ _ _ _ _ HA (wf_params _ W) ltac:(lia) ltac:(lia)) as (HWL & MP & HC) end.
  destruct W as [HPV HN HOK HSUP].
  destruct (params_valid_tax _ HPV) as (Htax & HA0 & Hcap).
  destruct HC as [tax LP P1 P2 -> Hc Hmin TP TR HB HS
                 |q0 LP L0 P1 P2 -> Hc Hmin HB HS
                 |q0 LP L0 P1 P2 X Y L std_in dep X0 Xcap -> Hmin Hm0 Hdep Hdep0 Hstd0 HB HS].
  - destruct (tax_part_spec _ _ _ HA0 Htax TP) as (Htx & _).
    exists tn, (st_next s), exact_std, exact_std, max_tok, (p_cfee_amt (st_params s)), tax.
    assert (Hfresh : forall d, st_bal s2 (Escrow (st_next s)) d = st_bal s (Escrow (st_next s)) d
              + delta (denom_eqb d Std) exact_std + delta (denom_eqb d (Tok tn)) max_tok).
    { intros d. rewrite HB. unfold at_, delta, M_feecollector. cbn [acct_eqb andb]. rewrite Z.eqb_refl. cbn [andb].
      destruct (denom_eqb d Std), (denom_eqb d (Tok tn)); lia. }
    splits; auto; try lia.
    all: try (apply negb_true_iff; assumption).
    all: try (rewrite P1; cbn [lookup_pool]; rewrite Z.eqb_refl; reflexivity).
    all: try (rewrite Hfresh; cbn [denom_eqb delta]; rewrite ?Z.eqb_refl; cbn [delta]; lia).
    all: try (intros _ HL; congruence).
    left. splits; auto.
  - exists tn, q0, exact_std, exact_std, max_tok, 0, 0.
    assert (Hsame : forall d, st_bal s2 (Escrow q0) d = st_bal s (Escrow q0) d
              + delta (denom_eqb d Std) exact_std + delta (denom_eqb d (Tok tn)) max_tok).
    { intros d. rewrite HB. rewrite !delta_0. unfold at_, delta. cbn [acct_eqb andb]. rewrite Z.eqb_refl. cbn [andb].
      destruct (denom_eqb d Std), (denom_eqb d (Tok tn)); lia. }
    splits; auto; try lia.
    all: try (apply negb_true_iff; assumption).
    all: try (rewrite P1; exact LP).
    all: try (rewrite Hsame; cbn [denom_eqb delta]; rewrite ?Z.eqb_refl; cbn [delta]; lia).
    all: try (intros x e; rewrite HB; rewrite !delta_0; lia).
    all: try (intros e; rewrite HS; rewrite !delta_0; lia).
    all: try (intros HL _; lia).
    right. splits; auto.
  - pose proof (HN (Escrow q0) Std) as NX. pose proof (HN (Escrow q0) (Tok tn)) as NY. fold X in NX. fold Y in NY.
    pose proof (HSUP (Lpt q0)) as NL. fold L in NL.
    assert (HXpos : 0 < X) by lia.
    assert (HLpos : 0 < L) by (unfold L in *; lia).
    assert (Hstd_pos : 0 < std_in) by (unfold std_in; lia).
    exists tn, q0, (Z.quot (L * std_in) X), std_in, dep, 0, 0.
    assert (Hsame : forall d, st_bal s2 (Escrow q0) d = st_bal s (Escrow q0) d
              + delta (denom_eqb d Std) std_in + delta (denom_eqb d (Tok tn)) dep).
    { intros d. rewrite HB. rewrite !delta_0. unfold at_, delta. cbn [acct_eqb andb]. rewrite Z.eqb_refl. cbn [andb].
      destruct (denom_eqb d Std), (denom_eqb d (Tok tn)); lia. }
    assert (Hdep_eq : dep = Y * std_in / X + 1) by (unfold dep; rewrite Z.quot_div_nonneg by nia; reflexivity).
    assert (Hdep_pos : 0 < dep).
    { rewrite Hdep_eq. assert (0 <= Y * std_in / X) by (apply Z.div_pos; nia). lia. }
    splits; auto; try lia.
    all: try (apply negb_true_iff; assumption).
    all: try (rewrite P1; exact LP).
    all: try (unfold std_in; lia).
    all: try (rewrite Hsame; cbn [denom_eqb delta]; rewrite ?Z.eqb_refl; cbn [delta]; lia).
    all: try (intros x e; rewrite HB; rewrite !delta_0; lia).
    all: try (intros e; rewrite HS; rewrite !delta_0; lia).
    all: try (intros _ _; unfold std_in; lia).
    right. splits; auto. right. splits; auto.
    rewrite Z.quot_div_nonneg by nia. reflexivity.
Qed.
End Step2.

Ltac deltas :=
  unfold at_, delta, M_feecollector, M_coinswap; cbn [acct_eqb denom_eqb andb];
  repeat match goal with |- context [Z.eqb ?x ?y] => destruct (Z.eqb_spec x y); try lia end;
  cbn [andb]; try lia.

Lemma div_bounds N D : 0 < D -> (N / D) * D <= N < (N / D + 1) * D.
Proof.
  intros HD. pose proof (Z.div_mod N D ltac:(lia)) as E. pose proof (Z.mod_pos_bound N D HD) as B. nia.
Qed.

Lemma pool_of_sym s d1 d2 : pool_of s d1 d2 = pool_of s d2 d1.
Proof.
  unfold pool_of. rewrite (denom_eqb_sym d1 d2). destruct (denom_eqb d2 d1); [reflexivity|].
  destruct d1, d2; reflexivity.
Qed.

(* the counter-asset (non-standard) side of a pool_of pair *)
Lemma quote_is_token s din dout q a b :
  pool_of s din dout = Some q ->
  exists n, lookup_pool n (st_pools s) = Some q /\
    ((din = Std /\ dout = Tok n /\ quote din a dout b = (Tok n, b)) \/
     (din = Tok n /\ dout = Std /\ quote din a dout b = (Tok n, a))).
Proof.
  intros HP. destruct (pool_of_inv _ _ _ _ HP) as (n & HL & [[-> ->]|[-> ->]]); exists n; split; auto.
Qed.

Section Step3.
Variable now : Z.

(* C08 + C09 for a sell order *)
Theorem sell_ok s u rec din ain dout min_out deadline s' r :
  WF s -> exec now s (Sell u rec din ain dout min_out deadline) = Some (s', r) ->
  exists q n out mx,
    r = [] /\ pool_of s din dout = Some q /\ lookup_pool n (st_pools s) = Some q /\
    expired now deadline = false /\
    let X := st_bal s (Escrow q) din in let Y := st_bal s (Escrow q) dout in
    let g := S18 - p_fee (st_params s) in
    0 < X /\ 0 < Y /\
    (* exactly the stated input leaves the payer *)
    st_bal s' (User u) din = st_bal s (User u) din - ain /\
    (* the recipient gets the output, at least the stated minimum *)
    min_out <= out /\ 0 <= out < Y /\
    (rec <> Escrow q -> st_bal s' rec dout = st_bal s rec dout + out) /\
    (rec <> Escrow q -> st_bal s' (Escrow q) din = X + ain /\ st_bal s' (Escrow q) dout = Y - out) /\
    (* within one unit of the exact constant-product value, rounded in the pool's favour *)
    out * (X * S18 + ain * g) <= ain * g * Y < (out + 1) * (X * S18 + ain * g) /\
    X * Y <= (X + ain) * (Y - out) /\
    (* C09: standard coin on exactly one side, whitelisted counter-asset, leg within its maximum, no module recipient *)
    is_module rec = false /\
    ((din = Std /\ dout = Tok n /\ out <= mx) \/ (din = Tok n /\ dout = Std /\ ain <= mx)) /\
    wl_lookup (Tok n) (p_wl (st_params s)) = Some mx.
Proof.
  intros W E. cbn [exec] in E. inv. bool_hyps. destruct v as [s2 b]. cbn [fst] in *.
  match goal with HA : trade_sell _ _ _ _ _ _ _ = Some _ |- _ =>
    destruct (trade_sell_effect _ _ _ _ _ _ _ _ _ HA ltac:(lia) (wf_params _ W))
      as (q0 & HP & HX & HY & Hr & Hmin & Hr0 & (mx & HWL & Hmx) & Hbal & _ & HS & HB) end.
  destruct (quote_is_token _ _ _ _ ain b HP) as (n & HL & Hq).
  pose proof (params_valid_fee _ (wf_params _ W)) as Hfee.
  pose proof (sell_product (st_bal s (Escrow q0) din) (st_bal s (Escrow q0) dout) ain
                (S18 - p_fee (st_params s)) S18 HX HY ltac:(lia) ltac:(lia) ltac:(lia)) as [P1 P2].
  cbv zeta in P1, P2. unfold sell_out in Hr. cbv zeta in Hr. rewrite <- Hr in P1, P2.
  assert (HD : 0 < st_bal s (Escrow q0) din * S18 + ain * (S18 - p_fee (st_params s))) by nia.
  pose proof (div_bounds (ain * (S18 - p_fee (st_params s)) * st_bal s (Escrow q0) dout) _ HD) as DB.
  rewrite <- Hr in DB.
  assert (Hne : din <> dout).
  { intros ->. unfold pool_of in HP. rewrite denom_eqb_refl in HP. discriminate. }
  exists q0, n, b, mx. cbv zeta. splits; auto; try lia.
  - rewrite HB. unfold at_, delta. cbn [acct_eqb andb]. rewrite Z.eqb_refl, denom_eqb_refl. cbn [andb].
    destruct (denom_eqb_spec din dout); [contradiction|]. rewrite andb_false_r. lia.
  - intros Hrec. rewrite HB. unfold at_, delta. rewrite acct_eqb_refl, denom_eqb_refl. cbn [andb].
    destruct (acct_eqb_spec rec (Escrow q0)); [contradiction|]. cbn [andb].
    destruct (denom_eqb_spec dout din); [congruence|]. rewrite !andb_false_r. lia.
  - intros Hrec. split; rewrite HB; unfold at_, delta; rewrite acct_eqb_refl, !denom_eqb_refl;
      change (acct_eqb (Escrow q0) (User u)) with false; cbn [andb].
    + destruct (acct_eqb_spec (Escrow q0) rec); try congruence; cbn [andb].
      destruct (denom_eqb_spec din dout); try contradiction. lia.
    + destruct (acct_eqb_spec (Escrow q0) rec); try congruence; cbn [andb].
      destruct (denom_eqb_spec dout din); try congruence. lia.
  - destruct Hq as [(-> & -> & Q)|(-> & -> & Q)]; rewrite Q in HWL, Hmx; cbn [fst snd] in *; [left|right]; auto.
  - destruct Hq as [(-> & -> & Q)|(-> & -> & Q)]; rewrite Q in HWL; cbn [fst] in HWL; exact HWL.
Qed.

(* C08 + C09 for a buy order *)
Theorem buy_ok s u rec din max_in dout aout deadline s' r :
  WF s -> exec now s (Buy u rec din max_in dout aout deadline) = Some (s', r) ->
  exists q n sold mx,
    r = [] /\ pool_of s din dout = Some q /\ lookup_pool n (st_pools s) = Some q /\
    expired now deadline = false /\
    let X := st_bal s (Escrow q) din in let Y := st_bal s (Escrow q) dout in
    let g := S18 - p_fee (st_params s) in
    0 < X /\ 0 < aout < Y /\
    (* at most the stated maximum leaves the payer *)
    0 < sold <= max_in /\
    st_bal s' (User u) din = st_bal s (User u) din - sold /\
    (* exactly the stated output is delivered *)
    (rec <> Escrow q -> st_bal s' rec dout = st_bal s rec dout + aout) /\
    (rec <> Escrow q -> st_bal s' (Escrow q) din = X + sold /\ st_bal s' (Escrow q) dout = Y - aout) /\
    (* within one unit of the exact value, rounded in the pool's favour *)
    (sold - 1) * ((Y - aout) * g) <= X * aout * S18 < sold * ((Y - aout) * g) /\
    X * Y < (X + sold) * (Y - aout) /\
    (* C09 *)
    is_module rec = false /\
    ((din = Std /\ dout = Tok n /\ aout <= mx) \/ (din = Tok n /\ dout = Std /\ sold <= mx)) /\
    wl_lookup (Tok n) (p_wl (st_params s)) = Some mx.
Proof.
  intros W E. cbn [exec] in E. inv. bool_hyps. destruct v as [s2 b]. cbn [fst] in *.
  match goal with HA : trade_buy _ _ _ _ _ _ _ = Some _ |- _ =>
    destruct (trade_buy_effect _ _ _ _ _ _ _ _ _ HA ltac:(lia) (wf_params _ W))
      as (q0 & HP & HX & HY & Hr & Hmax & Hr0 & (mx & HWL & Hmx) & Hbal & _ & HS & HB) end.
  rewrite pool_of_sym in HP.
  destruct (quote_is_token _ _ _ _ b aout HP) as (n & HL & Hq).
  pose proof (params_valid_fee _ (wf_params _ W)) as Hfee.
  assert (HD : 0 < (st_bal s (Escrow q0) dout - aout) * (S18 - p_fee (st_params s))) by nia.
  pose proof (div_bounds (st_bal s (Escrow q0) din * aout * S18) _ HD) as DB.
  assert (HYpos : 0 < st_bal s (Escrow q0) dout) by lia.
  pose proof (buy_product (st_bal s (Escrow q0) din) (st_bal s (Escrow q0) dout) aout
                (S18 - p_fee (st_params s)) S18 HX HYpos ltac:(lia) ltac:(lia) ltac:(lia)) as [_ P2].
  cbv zeta in P2.
  unfold buy_in in Hr. cbv zeta in Hr. rewrite <- Hr in P2.
  assert (Hsold : b - 1 = st_bal s (Escrow q0) din * aout * S18 / ((st_bal s (Escrow q0) dout - aout) * (S18 - p_fee (st_params s)))) by lia.
  rewrite <- Hsold in DB.
  assert (Hne : din <> dout).
  { intros ->. unfold pool_of in HP. rewrite denom_eqb_refl in HP. discriminate. }
  exists q0, n, b, mx. cbv zeta. splits; auto; try lia.
  - rewrite HB. unfold at_, delta. cbn [acct_eqb andb]. rewrite Z.eqb_refl, denom_eqb_refl. cbn [andb].
    destruct (denom_eqb_spec din dout); [contradiction|]. rewrite andb_false_r. lia.
  - intros Hrec. rewrite HB. unfold at_, delta. rewrite acct_eqb_refl, denom_eqb_refl. cbn [andb].
    destruct (acct_eqb_spec rec (Escrow q0)); [contradiction|]. cbn [andb].
    destruct (denom_eqb_spec dout din); [congruence|]. rewrite !andb_false_r. lia.
  - intros Hrec. split; rewrite HB; unfold at_, delta; rewrite acct_eqb_refl, !denom_eqb_refl;
      change (acct_eqb (Escrow q0) (User u)) with false; cbn [andb].
    + destruct (acct_eqb_spec (Escrow q0) rec); try congruence; cbn [andb].
      destruct (denom_eqb_spec din dout); try contradiction. lia.
    + destruct (acct_eqb_spec (Escrow q0) rec); try congruence; cbn [andb].
      destruct (denom_eqb_spec dout din); try congruence. lia.
  - (* quote dout aout din sold : the calculated leg is (din, sold) *)
    destruct Hq as [(-> & -> & Q)|(-> & -> & Q)].
    + left. splits; auto; unfold quote in HWL, Hmx; cbn [denom_eqb negb fst snd] in *; exact Hmx.
    + right. splits; auto; unfold quote in HWL, Hmx; cbn [denom_eqb negb fst snd] in *; exact Hmx.
  - destruct Hq as [(-> & -> & Q)|(-> & -> & Q)]; unfold quote in HWL; cbn [denom_eqb negb fst snd] in HWL; exact HWL.
Qed.

(* C08 for a removal; C01's pro-rata consequence *)
Theorem remove_ok s u lpt w min_std min_tok deadline s' r :
  WF s -> exec now s (RemoveLiq u lpt w min_std min_tok deadline) = Some (s', r) ->
  exists q n ps pt,
    lpt = Lpt q /\ r = [ps; pt] /\ lookup_pool n (st_pools s) = Some q /\
    expired now deadline = false /\
    let X := st_bal s (Escrow q) Std in let Y := st_bal s (Escrow q) (Tok n) in let L := st_sup s (Lpt q) in
    0 < w <= L /\
    (* burns exactly the stated pool tokens *)
    st_sup s' (Lpt q) = L - w /\ st_bal s' (User u) (Lpt q) = st_bal s (User u) (Lpt q) - w /\
    (* pays at least both minimums; the response equals what left the escrow and reached the provider *)
    min_std <= ps /\ min_tok <= pt /\
    st_bal s' (Escrow q) Std = X - ps /\ st_bal s' (Escrow q) (Tok n) = Y - pt /\
    st_bal s' (User u) Std = st_bal s (User u) Std + ps /\ st_bal s' (User u) (Tok n) = st_bal s (User u) (Tok n) + pt /\
    (* pro-rata, within one unit, rounded in the pool's favour: never more than the share *)
    ps * L <= w * X < (ps + 1) * L /\ pt * L <= w * Y < (pt + 1) * L /\
    (forall e, e <> Lpt q -> st_sup s' e = st_sup s e) /\
    (forall x, x <> User u -> x <> Escrow q -> forall e, st_bal s' x e = st_bal s x e).
Proof.
  intros W E. cbn [exec] in E. inv. bool_hyps.
  destruct lpt as [| |sq]; try discriminate. inv. destruct v as [s2 [ps pt]]. cbn [fst snd] in *.
  match goal with HA : remove_liquidity _ _ _ _ _ _ = Some _ |- _ =>
    destruct (remove_liquidity_effect _ _ _ _ _ _ _ _ _ HA ltac:(lia))
      as (tokn & LS & HwL & Hps & Hpt & Hps0 & Hpt0 & Hm1 & Hm2 & Hbal & _ & HS & HB) end.
  cbv zeta in *.
  destruct W as [HPV HN HOK HSUP].
  assert (HL : lookup_pool tokn (st_pools s) = Some sq).
  { destruct HOK as (ND & _ & _). apply in_lookup_pool; [exact ND|]. apply lookup_seq_in. exact LS. }
  pose proof (HN (Escrow sq) Std) as NX. pose proof (HN (Escrow sq) (Tok tokn)) as NY.
  assert (HLpos : 0 < st_sup s (Lpt sq)) by lia.
  rewrite Z.quot_div_nonneg in Hps, Hpt by nia.
  pose proof (div_bounds (w * st_bal s (Escrow sq) Std) _ HLpos) as D1. rewrite <- Hps in D1.
  pose proof (div_bounds (w * st_bal s (Escrow sq) (Tok tokn)) _ HLpos) as D2. rewrite <- Hpt in D2.
  exists sq, tokn, ps, pt. cbv zeta. splits; auto; try lia.
  - rewrite HS. unfold delta. rewrite denom_eqb_refl. lia.
  - rewrite HB. deltas.
  - rewrite HB. deltas.
  - rewrite HB. deltas.
  - rewrite HB. deltas.
  - rewrite HB. deltas.
  - intros e He. rewrite HS. unfold delta. destruct (denom_eqb_spec e (Lpt sq)); [contradiction|]. lia.
  - intros x H1 H2 e. rewrite HB. unfold at_, delta.
    destruct (acct_eqb_spec x (User u)), (acct_eqb_spec x (Escrow sq)); try contradiction. cbn [andb]. lia.
Qed.

(* C08: no message takes effect after its deadline *)
Theorem deadline_ok s o s' r :
  exec now s o = Some (s', r) ->
  match o with
  | Sell _ _ _ _ _ _ dl | Buy _ _ _ _ _ _ dl | AddLiq _ _ _ _ _ dl | RemoveLiq _ _ _ _ _ dl =>
      now <= dl * 1000000000
  | _ => True
  end.
Proof.
  intros E. destruct o; try exact I; cbn [exec] in E; inv; unfold expired in *; bool_hyps; lia.
Qed.

End Step3.
