(** Proofs about x/inflation (properties C13 and C05). *)
From Coq Require Import ZArith List Bool Lia.
From Canto Require Import Lib.SdkInt Lib.SdkDec Lib.SdkDecProofs Model.Epochs Proofs.EpochsProofs Model.Inflation.
Import ListNotations.
Open Scope Z_scope.
Import SdkDec.

(** * Part A.  CalculateEpochMintProvision *)

(** ** The checked operations, when they succeed, are the plain ones *)

Lemma chk_some x y : chk x = Some y -> y = x /\ Z.abs x < bound.
Proof.
  unfold chk, overflows. destruct (bound <=? Z.abs x) eqn:E; [discriminate|].
  apply Z.leb_gt in E. intros H. inversion H. subst. split; [reflexivity|exact E].
Qed.
Lemma chk_ok x : Z.abs x < bound -> chk x = Some x.
Proof.
  intros H. unfold chk, overflows. destruct (bound <=? Z.abs x) eqn:E; [apply Z.leb_le in E; lia|reflexivity].
Qed.
Lemma mul_some a b y : mul a b = Some y -> y = rmul a b.
Proof. unfold mul. intros H. apply chk_some in H. tauto. Qed.
Lemma add_some a b y : add a b = Some y -> y = a + b.
Proof. unfold add. intros H. apply chk_some in H. tauto. Qed.
Lemma sub_some a b y : sub a b = Some y -> y = a - b.
Proof. unfold sub. intros H. apply chk_some in H. tauto. Qed.

(* LegacyDec.Quo without the overflow check *)
Definition rquo (a b : Z) : Z := chop_round (Z.quot (a * S * S) b).
Lemma quo_some a b y : quo a b = Some y -> b <> 0 /\ y = rquo a b.
Proof.
  unfold quo, rquo. destruct (b =? 0) eqn:E; [discriminate|]. apply Z.eqb_neq in E.
  intros H. apply chk_some in H. tauto.
Qed.

Lemma powF_chk_some p : forall d t y, powF_chk d t p = Some y -> y = powF d t p.
Proof.
  induction p as [q IH|q IH|]; intros d t y H; cbn [powF powF_chk] in *.
  - destruct (mul t d) as [t'|] eqn:E1; [|discriminate].
    destruct (mul d d) as [d2|] eqn:E2; [|discriminate].
    apply mul_some in E1. apply mul_some in E2. subst. apply IH. exact H.
  - destruct (mul d d) as [d2|] eqn:E2; [|discriminate].
    apply mul_some in E2. subst. apply IH. exact H.
  - apply mul_some. exact H.
Qed.
Lemma power_chk_some d n y : power_chk d n = Some y -> y = power d n.
Proof.
  destruct n as [|p]; cbn [power power_chk]; intros H; [inversion H; reflexivity|].
  apply powF_chk_some. exact H.
Qed.

(** ** The calculation without overflow checks *)

Definition pure_incentive (e : exp_calc) (bonded : Z) : Z :=
  let b := if ec_target e <=? bonded then ec_target e else bonded in
  S + ec_maxvar e - rmul b (rquo (ec_maxvar e) (ec_target e)).

Definition pure_decay (e : exp_calc) (x : N) : Z :=
  rmul (ec_a e) (power (S - ec_r e) x) + ec_c e.

Definition pure_calc (e : exp_calc) (x : N) (epp bonded : Z) : Z :=
  rmul (rquo (rmul (pure_decay e x) (pure_incentive e bonded)) (of_int epp)) (of_int power_reduction).

(* provision_formula: whenever the real computation completes, its result is
   this fixed-point evaluation of (a (1-r)^x + c) (1 + maxVar - min(b,target) maxVar/target) / epp * 10^18 *)
Lemma calc_some_pure e x epp bonded v :
  calc_provision e x epp bonded = Some v -> v = pure_calc e x epp bonded /\ epp <> 0 /\ ec_target e <> 0.
Proof.
  unfold calc_provision, obind, one.
  destruct (sub S (ec_r e)) as [decay|] eqn:E1; [|discriminate].
  destruct (power_chk decay x) as [pw|] eqn:E2; [|discriminate].
  destruct (mul (ec_a e) pw) as [t1|] eqn:E3; [|discriminate].
  destruct (add t1 (ec_c e)) as [ed|] eqn:E4; [|discriminate].
  destruct (quo (ec_maxvar e) (ec_target e)) as [q|] eqn:E5; [|discriminate].
  destruct (mul _ q) as [sb|] eqn:E6; [|discriminate].
  destruct (add S (ec_maxvar e)) as [t2|] eqn:E7; [|discriminate].
  destruct (sub t2 sb) as [inc|] eqn:E8; [|discriminate].
  destruct (mul ed inc) as [pp|] eqn:E9; [|discriminate].
  destruct (quo pp (of_int epp)) as [ep|] eqn:E10; [|discriminate].
  intros E11.
  apply sub_some in E1. apply power_chk_some in E2. apply mul_some in E3. apply add_some in E4.
  apply quo_some in E5 as [Ht E5]. apply mul_some in E6. apply add_some in E7. apply sub_some in E8.
  apply mul_some in E9. apply quo_some in E10 as [Hepp E10]. apply mul_some in E11.
  subst. unfold pure_calc, pure_decay, pure_incentive.
  split; [reflexivity|]. split; [|exact Ht].
  intros ->. apply Hepp. reflexivity.
Qed.

Lemma incentive_some_pure e bonded v :
  calc_incentive e bonded = Some v -> v = pure_incentive e bonded.
Proof.
  unfold calc_incentive, obind, one.
  destruct (quo (ec_maxvar e) (ec_target e)) as [q|] eqn:E5; [|discriminate].
  destruct (mul _ q) as [sb|] eqn:E6; [|discriminate].
  destruct (add S (ec_maxvar e)) as [t2|] eqn:E7; [|discriminate].
  intros E8.
  apply quo_some in E5 as [Ht E5]. apply mul_some in E6. apply add_some in E7. apply sub_some in E8.
  subst. reflexivity.
Qed.

(** ** Validation predicates as propositions *)

Record ValidExp (e : exp_calc) : Prop := {
  va : 0 <= ec_a e;
  vr : 0 <= ec_r e <= S;
  vc : 0 <= ec_c e;
  vt : 0 < ec_target e <= S;
  vm : 0 <= ec_maxvar e
}.

Lemma valid_exp_spec e : valid_exp e = true <-> ValidExp e.
Proof.
  unfold valid_exp, one. split.
  - intros H. repeat (apply andb_prop in H as [H ?]).
    repeat match goal with
    | X : negb (_ <? _) = true |- _ => apply negb_true_iff in X; apply Z.ltb_ge in X
    | X : (_ <? _) = true |- _ => apply Z.ltb_lt in X end.
    constructor; lia.
  - intros [A R C T M].
    repeat (apply andb_true_intro; split);
      try (apply negb_true_iff; apply Z.ltb_ge; lia); apply Z.ltb_lt; lia.
Qed.

Lemma valid_dist_spec d :
  valid_dist d = true -> 0 <= d_staking d <= S /\ 0 <= d_community d /\ d_staking d + d_community d = S.
Proof.
  unfold valid_dist, one. intros H. repeat (apply andb_prop in H as [H ?]).
  apply negb_true_iff in H, H1. apply Z.ltb_ge in H, H1.
  destruct (add (d_staking d) (d_community d)) as [t|] eqn:E; [|discriminate].
  apply add_some in E. apply Z.eqb_eq in H0. lia.
Qed.

(** ** Rounding facts beyond Lib/SdkDecProofs *)

Lemma chop_round_exact_all k : chop_round (k * S) = k.
Proof.
  destruct (Z_lt_le_dec k 0) as [Hn|Hp]; [|apply chop_round_exact; exact Hp].
  pose proof S_pos as HS. unfold chop_round.
  destruct (k * S <? 0) eqn:E; [|apply Z.ltb_ge in E; nia].
  replace (- (k * S)) with ((- k) * S) by ring.
  rewrite <- chop_round_nonneg_eq by nia. rewrite chop_round_exact by lia. lia.
Qed.

Lemma rquo_nonneg a b : 0 <= a -> 0 < b -> 0 <= rquo a b.
Proof.
  intros Ha Hb. unfold rquo. pose proof S_pos. apply chop_round_nonneg. apply Z.quot_pos; nia.
Qed.
Lemma rquo_mono a a' b : 0 <= a <= a' -> 0 < b -> rquo a b <= rquo a' b.
Proof.
  intros Ha Hb. unfold rquo. pose proof S_pos.
  apply chop_round_mono; [apply Z.quot_pos; nia|]. apply Z.quot_le_mono; nia.
Qed.
(* dividing by an integer n >= 1 (as a LegacyDec) does not increase *)
Lemma rquo_int_le a n : 0 <= a -> 0 < n -> rquo a (of_int n) <= a.
Proof.
  intros Ha Hn. unfold rquo, of_int. pose proof S_pos as HS.
  rewrite <- (chop_round_exact a) at 2 by exact Ha.
  apply chop_round_mono; [apply Z.quot_pos; nia|].
  rewrite Z.quot_div_nonneg by nia.
  apply Z.div_le_upper_bound; nia.
Qed.
Lemma rmul_reduction a : rmul a (of_int power_reduction) = a * power_reduction.
Proof.
  unfold rmul, of_int. replace (a * (power_reduction * S)) with ((a * power_reduction) * S) by ring.
  apply chop_round_exact_all.
Qed.

(** ** The bonding incentive: port of the design-round spike (DESIGN.md A.4) *)

Lemma sub_bounds b target maxVar :
  0 <= b <= target -> 0 < target <= S -> 0 <= maxVar ->
  0 <= rmul b (rquo maxVar target) <= maxVar + 1.
Proof.
  intros Hb Ht Hm. pose proof S_pos as HS.
  unfold rquo. rewrite Z.quot_div_nonneg by nia.
  set (q0 := (maxVar * S * S) / target).
  assert (Hq0 : 0 <= q0) by (unfold q0; apply Z.div_pos; nia).
  assert (Hq0u : q0 * target <= maxVar * S * S) by (unfold q0; rewrite Z.mul_comm; apply Z.mul_div_le; lia).
  set (q := chop_round q0).
  destruct (chop_round_bounds q0 Hq0) as [Hq1 Hq2]. fold q in Hq1, Hq2.
  assert (Hq : 0 <= q) by nia.
  assert (Hbq : 0 <= b * q) by nia.
  destruct (chop_round_bounds (b*q) Hbq) as [Hs1 Hs2].
  unfold rmul.
  set (s := chop_round (b*q)) in *.
  split; [nia|].
  assert (A : 2 * S * q * target <= 2 * maxVar * S * S + S * target) by nia.
  assert (B : 2 * S * (b * q) <= 2 * maxVar * S * S + S * target).
  { transitivity (2 * S * q * target); [|exact A]. nia. }
  assert (C : 2 * (b * q) <= 2 * maxVar * S + target) by nia.
  assert (D : 2 * S * s <= 2 * maxVar * S + target + S) by lia.
  nia.
Qed.

(* The spike's upper bound has one ulp of slack that the code never uses: the
   subtracted term never exceeds maxVariance, so the incentive is at least 1. *)
Lemma sub_bounds_tight b target maxVar :
  0 <= b <= target -> 0 < target <= S -> 0 <= maxVar ->
  rmul b (rquo maxVar target) <= maxVar.
Proof.
  intros Hb Ht Hm. pose proof S_pos as HS.
  destruct (Z.eq_dec b S) as [->|Hne].
  - assert (target = S) by lia. subst target.
    unfold rquo. rewrite Z.quot_div_nonneg by nia.
    replace (maxVar * S * S / S) with (maxVar * S) by (symmetry; apply Z.div_mul; lia).
    rewrite chop_round_exact by lia. rewrite rmul_one_l by lia. lia.
  - unfold rquo. rewrite Z.quot_div_nonneg by nia.
    set (q0 := (maxVar * S * S) / target).
    assert (Hq0 : 0 <= q0) by (unfold q0; apply Z.div_pos; nia).
    assert (Hq0u : q0 * target <= maxVar * S * S) by (unfold q0; rewrite Z.mul_comm; apply Z.mul_div_le; lia).
    set (q := chop_round q0).
    destruct (chop_round_bounds q0 Hq0) as [Hq1 Hq2]. fold q in Hq1, Hq2.
    assert (Hq : 0 <= q) by nia.
    assert (Hbq : 0 <= b * q) by nia.
    destruct (chop_round_bounds (b*q) Hbq) as [Hs1 Hs2].
    unfold rmul. set (s := chop_round (b*q)) in *.
    assert (A : 2 * S * q * target <= 2 * maxVar * S * S + S * target) by nia.
    assert (B : 2 * S * (b * q) <= 2 * maxVar * S * S + S * target).
    { transitivity (2 * S * q * target); [|exact A]. nia. }
    assert (C : 2 * (b * q) <= 2 * maxVar * S + target) by nia.
    assert (D : 2 * S * s <= 2 * maxVar * S + target + S) by lia.
    assert (E : b < S) by lia.
    (* target + S < 2 S unless target = S; when target = S, q is exact *)
    destruct (Z.eq_dec target S) as [->|Hts].
    + assert (q0 = maxVar * S) by (unfold q0; apply Z.div_mul; lia).
      assert (q = maxVar) by (unfold q; rewrite H; apply chop_round_exact; lia).
      subst q. rewrite H0 in *. nia.
    + nia.
Qed.

Lemma min_target_bounds e bonded :
  ValidExp e -> 0 <= bonded ->
  0 <= (if ec_target e <=? bonded then ec_target e else bonded) <= ec_target e.
Proof.
  intros V Hb. destruct V. destruct (ec_target e <=? bonded) eqn:E;
    [apply Z.leb_le in E|apply Z.leb_gt in E]; lia.
Qed.

Lemma pure_incentive_bounds e bonded :
  ValidExp e -> 0 <= bonded ->
  S <= pure_incentive e bonded <= S + ec_maxvar e.
Proof.
  intros V Hb. pose proof (min_target_bounds e bonded V Hb) as Hmin. destruct V.
  unfold pure_incentive.
  pose proof (sub_bounds _ (ec_target e) (ec_maxvar e) Hmin vt0 vm0).
  pose proof (sub_bounds_tight _ (ec_target e) (ec_maxvar e) Hmin vt0 vm0). cbv zeta. lia.
Qed.

(* at or above the bonding target the bonus is spent: the incentive is 1 up to one ulp *)
Lemma pure_incentive_at_target e bonded :
  ValidExp e -> ec_target e <= bonded ->
  S <= pure_incentive e bonded <= S + 1.
Proof.
  intros V Hb. pose proof (pure_incentive_bounds e bonded V ltac:(destruct V; lia)) as [L _].
  split; [exact L|]. destruct V. unfold pure_incentive.
  replace (ec_target e <=? bonded) with true by (symmetry; apply Z.leb_le; exact Hb). cbv zeta.
  (* target * round(maxVar*S^2/target) / S >= maxVar - 1 *)
  pose proof S_pos as HS. unfold rquo. rewrite Z.quot_div_nonneg by nia.
  set (q0 := (ec_maxvar e * S * S) / ec_target e).
  assert (Hq0 : 0 <= q0) by (unfold q0; apply Z.div_pos; nia).
  assert (Hq0l : ec_maxvar e * S * S < (q0 + 1) * ec_target e).
  { unfold q0. pose proof (Z.mul_succ_div_gt (ec_maxvar e * S * S) (ec_target e) ltac:(lia)). nia. }
  set (q := chop_round q0).
  destruct (chop_round_bounds q0 Hq0) as [Hq1 Hq2]. fold q in Hq1, Hq2.
  assert (Hq : 0 <= q) by nia.
  destruct (chop_round_bounds (ec_target e * q) ltac:(nia)) as [Hs1 Hs2].
  unfold rmul. set (s := chop_round (ec_target e * q)) in *.
  (* 2 S s >= 2 t q - S ;  2 S q >= 2 q0 - S ; (q0+1) t > mv S S *)
  assert (A : 2 * S * (ec_target e * q) >= ec_target e * (2 * q0 - S)) by nia.
  assert (B : 2 * ec_target e * q0 > 2 * ec_maxvar e * S * S - 2 * ec_target e) by nia.
  assert (C : 2 * S * (ec_target e * q) > 2 * ec_maxvar e * S * S - 2 * ec_target e - S * ec_target e) by nia.
  assert (D : 2 * S * (2 * S * s) > 2 * (2 * ec_maxvar e * S * S - 2 * ec_target e - S * ec_target e) - 2 * S * S) by nia.
  nia.
Qed.

(** ** Sign, bounds and monotonicity of the provision *)

Lemma decay_base_bounds e : ValidExp e -> 0 <= S - ec_r e <= S.
Proof. intros V. destruct V. lia. Qed.

Lemma pure_decay_bounds e x : ValidExp e -> ec_c e <= pure_decay e x <= ec_a e + ec_c e.
Proof.
  intros V. pose proof (power_bounds _ x (decay_base_bounds e V)) as Hp. destruct V.
  unfold pure_decay.
  pose proof (rmul_nonneg (ec_a e) (power (S - ec_r e) x) va0 ltac:(lia)).
  pose proof (rmul_le_l (ec_a e) (power (S - ec_r e) x) va0 Hp). lia.
Qed.

Lemma pure_decay_nonincreasing e x : ValidExp e -> pure_decay e (N.succ x) <= pure_decay e x.
Proof.
  intros V. pose proof (decay_base_bounds e V) as Hd.
  pose proof (power_nonincreasing _ x Hd). pose proof (power_bounds _ (N.succ x) Hd).
  destruct V. unfold pure_decay.
  pose proof (rmul_mono (ec_a e) (power (S - ec_r e) (N.succ x)) (ec_a e) (power (S - ec_r e) x) ltac:(lia) ltac:(lia)).
  lia.
Qed.

Lemma of_int_pos n : 0 < n -> 0 < of_int n.
Proof. unfold of_int. pose proof S_pos. nia. Qed.

Lemma power_reduction_pos : 0 < power_reduction.
Proof. unfold power_reduction. lia. Qed.

Theorem pure_calc_nonneg e x epp bonded :
  ValidExp e -> 0 < epp -> 0 <= bonded -> 0 <= pure_calc e x epp bonded.
Proof.
  intros V He Hb. pose proof (pure_decay_bounds e x V) as Hd.
  pose proof (pure_incentive_bounds e bonded V Hb) as Hi.
  pose proof S_pos. pose proof power_reduction_pos.
  unfold pure_calc. rewrite rmul_reduction.
  assert (0 <= rmul (pure_decay e x) (pure_incentive e bonded)) by (apply rmul_nonneg; destruct V; lia).
  pose proof (rquo_nonneg _ (of_int epp) H1 (of_int_pos _ He)). nia.
Qed.

Theorem pure_calc_nonincreasing e x epp bonded :
  ValidExp e -> 0 < epp -> 0 <= bonded ->
  pure_calc e (N.succ x) epp bonded <= pure_calc e x epp bonded.
Proof.
  intros V He Hb.
  pose proof (pure_decay_bounds e (N.succ x) V) as Hd.
  pose proof (pure_decay_nonincreasing e x V) as Hm.
  pose proof (pure_incentive_bounds e bonded V Hb) as Hi.
  pose proof S_pos. pose proof power_reduction_pos.
  unfold pure_calc. rewrite !rmul_reduction.
  assert (A : 0 <= rmul (pure_decay e (N.succ x)) (pure_incentive e bonded) <=
              rmul (pure_decay e x) (pure_incentive e bonded)).
  { split; [apply rmul_nonneg; destruct V; lia|apply rmul_mono; destruct V; lia]. }
  pose proof (rquo_mono _ _ (of_int epp) A (of_int_pos _ He)). nia.
Qed.

(* any two periods, not only consecutive ones *)
Theorem pure_calc_antitone e epp bonded :
  ValidExp e -> 0 < epp -> 0 <= bonded ->
  forall x y : N, (x <= y)%N -> pure_calc e y epp bonded <= pure_calc e x epp bonded.
Proof.
  intros V He Hb x y Hxy.
  replace y with (x + (y - x))%N by lia. generalize (y - x)%N as k. clear Hxy y.
  intros k. induction k as [|k IH] using N.peano_ind.
  - rewrite N.add_0_r. lia.
  - rewrite N.add_succ_r. pose proof (pure_calc_nonincreasing e (x + k) epp bonded V He Hb). lia.
Qed.

(* upper bound: the decay formula's ceiling times the largest incentive, per epoch *)
Lemma pure_calc_upper e x epp bonded :
  ValidExp e -> 0 < epp -> 0 <= bonded ->
  S * pure_calc e x epp bonded <= ((ec_a e + ec_c e) * (S + ec_maxvar e) + S) * power_reduction.
Proof.
  intros V He Hb.
  pose proof (pure_decay_bounds e x V) as Hd.
  pose proof (pure_incentive_bounds e bonded V Hb) as Hi.
  pose proof S_pos as HS. pose proof power_reduction_pos as HP.
  unfold pure_calc. rewrite rmul_reduction.
  set (pp := rmul (pure_decay e x) (pure_incentive e bonded)).
  assert (Hpp0 : 0 <= pp) by (apply rmul_nonneg; destruct V; lia).
  assert (Hpp : 2 * S * pp <= 2 * (pure_decay e x * pure_incentive e bonded) + S).
  { unfold pp, rmul. apply chop_round_bounds. destruct V; nia. }
  pose proof (rquo_int_le pp epp Hpp0 He) as Hq.
  pose proof (rquo_nonneg pp (of_int epp) Hpp0 (of_int_pos _ He)) as Hq0.
  assert (pure_decay e x * pure_incentive e bonded <= (ec_a e + ec_c e) * (S + ec_maxvar e)) by (destruct V; nia).
  nia.
Qed.

(** ** No panic under an explicit overflow guard *)

(* the two products that must fit the 315-bit LegacyDec *)
Definition calc_guard (e : exp_calc) : Prop :=
  (ec_a e + ec_c e + 1) * (S + ec_maxvar e + 1) < bound /\ ec_maxvar e * S + S < bound.

Lemma bound_big : 4 * S * S < bound.
Proof. unfold bound. rewrite S_val. lia. Qed.

Theorem calc_no_panic e x epp bonded :
  ValidExp e -> calc_guard e -> 0 < epp -> 0 <= bonded ->
  calc_provision e x epp bonded = Some (pure_calc e x epp bonded).
Proof.
  intros V [G1 G2] He Hb.
  pose proof S_pos as HS. pose proof bound_big as HB.
  pose proof (decay_base_bounds e V) as Hdb.
  pose proof (power_bounds _ x Hdb) as Hpw.
  pose proof (pure_decay_bounds e x V) as Hd.
  pose proof (pure_incentive_bounds e bonded V Hb) as Hi.
  pose proof (min_target_bounds e bonded V Hb) as Hmin.
  assert (Va := va e V). assert (Vc := vc e V). assert (Vt := vt e V). assert (Vm := vm e V).
  assert (GA : ec_a e + ec_c e + 1 <= (ec_a e + ec_c e + 1) * (S + ec_maxvar e + 1)) by nia.
  assert (GM : S + ec_maxvar e + 1 <= (ec_a e + ec_c e + 1) * (S + ec_maxvar e + 1)) by nia.
  assert (GP : (ec_a e + ec_c e) * (S + ec_maxvar e) + S < (ec_a e + ec_c e + 1) * (S + ec_maxvar e + 1)) by nia.
  unfold calc_provision, obind, one.
  (* decay *)
  unfold sub at 1. rewrite chk_ok by lia.
  rewrite (power_chk_small _ x Hdb).
  (* a * pw *)
  assert (H1 : 0 <= rmul (ec_a e) (power (S - ec_r e) x) <= ec_a e).
  { split; [apply rmul_nonneg; lia|apply rmul_le_l; lia]. }
  unfold mul at 1. rewrite chk_ok by lia.
  unfold add at 1. rewrite chk_ok by lia.
  (* maxvar / target *)
  assert (Hq : 0 <= rquo (ec_maxvar e) (ec_target e) <= ec_maxvar e * S).
  { split; [apply rquo_nonneg; lia|].
    unfold rquo. transitivity (chop_round ((ec_maxvar e * S) * S)); [|rewrite chop_round_exact by nia; lia].
    apply chop_round_mono; [apply Z.quot_pos; nia|].
    rewrite Z.quot_div_nonneg by nia. apply Z.div_le_upper_bound; nia. }
  unfold quo at 1. replace (ec_target e =? 0) with false by (symmetry; apply Z.eqb_neq; lia).
  fold (rquo (ec_maxvar e) (ec_target e)). rewrite chk_ok by lia.
  (* b * q *)
  pose proof (sub_bounds _ (ec_target e) (ec_maxvar e) Hmin Vt Vm) as Hsb.
  unfold mul at 1. rewrite chk_ok by lia.
  unfold add at 1. rewrite chk_ok by lia.
  unfold sub at 1. rewrite chk_ok by lia.
  fold (pure_incentive e bonded). fold (pure_decay e x).
  (* exponentialDecay * bondingIncentive *)
  set (pp := rmul (pure_decay e x) (pure_incentive e bonded)).
  assert (Hpp0 : 0 <= pp) by (apply rmul_nonneg; lia).
  assert (Hpp : 2 * S * pp <= 2 * (pure_decay e x * pure_incentive e bonded) + S).
  { unfold pp, rmul. apply chop_round_bounds. nia. }
  assert (Hprod : pure_decay e x * pure_incentive e bonded <= (ec_a e + ec_c e) * (S + ec_maxvar e)) by nia.
  assert (Hppb : pp * S <= (ec_a e + ec_c e) * (S + ec_maxvar e) + S) by nia.
  unfold mul at 1. fold pp. rewrite chk_ok by nia.
  (* / epochsPerPeriod *)
  pose proof (rquo_int_le pp epp Hpp0 He) as Hep.
  pose proof (rquo_nonneg pp (of_int epp) Hpp0 (of_int_pos _ He)) as Hep0.
  unfold quo at 1. replace (of_int epp =? 0) with false by (symmetry; apply Z.eqb_neq; pose proof (of_int_pos _ He); lia).
  fold (rquo pp (of_int epp)). rewrite chk_ok by nia.
  (* * 10^18 *)
  unfold mul. fold (pure_calc e x epp bonded).
  rewrite chk_ok; [reflexivity|].
  unfold pure_calc. fold (pure_decay e x). fold pp. rewrite rmul_reduction.
  assert (power_reduction = S) by reflexivity. nia.
Qed.

(** ** No panic when the worst case can be evaluated

    The parameter validator of x/inflation (after the repair of the C18 finding) evaluates the
    provision once, for period 0, one epoch per period and bonded ratio 0, and rejects the
    parameters if that evaluation panics.  That single evaluation dominates all others: the decay
    term is largest at period 0, the incentive is largest at bonded ratio 0, dividing by one
    epoch per period is the largest quotient, and every operation of the formula is monotone on
    non-negative values.  So validated parameters need no overflow guard. *)
Lemma rquo_int_one a : 0 <= a -> rquo a (of_int 1) = a.
Proof.
  intros Ha. pose proof S_pos as HS. unfold rquo, of_int.
  replace (a * S * S) with ((a * S) * (1 * S)) by ring.
  rewrite Z.quot_mul by lia. apply chop_round_exact. exact Ha.
Qed.

Theorem calc_worst_case e v0 :
  ValidExp e -> calc_provision e 0%N 1 0 = Some v0 ->
  forall x epp bonded, 0 < epp -> 0 <= bonded ->
  calc_provision e x epp bonded = Some (pure_calc e x epp bonded).
Proof.
  intros V H0 x epp bonded He Hb.
  pose proof S_pos as HS.
  assert (Va := va e V). assert (Vc := vc e V). assert (Vt := vt e V). assert (Vm := vm e V).
  (* what the worst-case evaluation tells *)
  assert (W : Z.abs (ec_a e + ec_c e) < bound /\ Z.abs (rquo (ec_maxvar e) (ec_target e)) < bound /\
              Z.abs (S + ec_maxvar e) < bound /\
              Z.abs (rmul (ec_a e + ec_c e) (S + ec_maxvar e)) < bound /\
              Z.abs (rmul (ec_a e + ec_c e) (S + ec_maxvar e) * power_reduction) < bound).
  { revert H0. unfold calc_provision, obind, one. cbn [power_chk].
    destruct (sub S (ec_r e)) as [decay|] eqn:E1; [|discriminate].
    unfold one.
    destruct (mul (ec_a e) S) as [t1|] eqn:E3; [|discriminate].
    destruct (add t1 (ec_c e)) as [ed|] eqn:E4; [|discriminate].
    destruct (quo (ec_maxvar e) (ec_target e)) as [q|] eqn:E5; [|discriminate].
    replace (ec_target e <=? 0) with false by (symmetry; apply Z.leb_gt; lia).
    destruct (mul 0 q) as [sb|] eqn:E6; [|discriminate].
    destruct (add S (ec_maxvar e)) as [t2|] eqn:E7; [|discriminate].
    destruct (sub t2 sb) as [inc|] eqn:E8; [|discriminate].
    destruct (mul ed inc) as [pp|] eqn:E9; [|discriminate].
    destruct (quo pp (of_int 1)) as [ep|] eqn:E10; [|discriminate].
    intros E11.
    unfold mul in E3. apply chk_some in E3 as [-> _]. rewrite rmul_one_r in E4 by lia.
    unfold add in E4. apply chk_some in E4 as [-> B4].
    unfold quo in E5. destruct (ec_target e =? 0); [discriminate|]. fold (rquo (ec_maxvar e) (ec_target e)) in E5.
    apply chk_some in E5 as [-> B5].
    unfold mul in E6. apply chk_some in E6 as [-> _].
    assert (Z0 : rmul 0 (rquo (ec_maxvar e) (ec_target e)) = 0).
    { unfold rmul. rewrite Z.mul_0_l. apply (chop_round_exact 0). lia. }
    rewrite Z0 in E8.
    unfold add in E7. apply chk_some in E7 as [-> B7].
    unfold sub in E8. apply chk_some in E8 as [-> _]. rewrite Z.sub_0_r in E9.
    unfold mul in E9. apply chk_some in E9 as [-> B9].
    assert (P0 : 0 <= rmul (ec_a e + ec_c e) (S + ec_maxvar e)) by (apply rmul_nonneg; lia).
    unfold quo in E10. destruct (of_int 1 =? 0); [discriminate|].
    fold (rquo (rmul (ec_a e + ec_c e) (S + ec_maxvar e)) (of_int 1)) in E10.
    rewrite rquo_int_one in E10 by exact P0. apply chk_some in E10 as [-> _].
    unfold mul in E11. rewrite rmul_reduction in E11. apply chk_some in E11 as [_ B11].
    repeat split; assumption. }
  destruct W as (W1 & W2 & W3 & W4 & W5).
  set (pp0 := rmul (ec_a e + ec_c e) (S + ec_maxvar e)) in *.
  assert (P0 : 0 <= pp0) by (apply rmul_nonneg; lia).
  pose proof power_reduction_pos as HPR.
  (* the general evaluation, operation by operation *)
  pose proof (decay_base_bounds e V) as Hdb.
  pose proof (power_bounds _ x Hdb) as Hpw.
  pose proof (pure_decay_bounds e x V) as Hd.
  pose proof (pure_incentive_bounds e bonded V Hb) as Hi.
  pose proof (min_target_bounds e bonded V Hb) as Hmin.
  pose proof bound_big as HB.
  unfold calc_provision, obind, one.
  unfold sub at 1. rewrite chk_ok by lia.
  rewrite (power_chk_small _ x Hdb).
  assert (H1 : 0 <= rmul (ec_a e) (power (S - ec_r e) x) <= ec_a e).
  { split; [apply rmul_nonneg; lia|apply rmul_le_l; lia]. }
  unfold mul at 1. rewrite chk_ok by lia.
  unfold add at 1. rewrite chk_ok by lia.
  assert (Hq0 : 0 <= rquo (ec_maxvar e) (ec_target e)) by (apply rquo_nonneg; lia).
  unfold quo at 1. replace (ec_target e =? 0) with false by (symmetry; apply Z.eqb_neq; lia).
  fold (rquo (ec_maxvar e) (ec_target e)). rewrite chk_ok by exact W2.
  pose proof (sub_bounds _ (ec_target e) (ec_maxvar e) Hmin Vt Vm) as Hsb.
  unfold mul at 1. rewrite chk_ok by lia.
  unfold add at 1. rewrite chk_ok by exact W3.
  unfold sub at 1. rewrite chk_ok by lia.
  fold (pure_incentive e bonded). fold (pure_decay e x).
  set (pp := rmul (pure_decay e x) (pure_incentive e bonded)).
  assert (Hpp : 0 <= pp <= pp0).
  { split; [apply rmul_nonneg; lia|]. unfold pp, pp0. apply rmul_mono; lia. }
  unfold mul at 1. fold pp. rewrite chk_ok by lia.
  pose proof (rquo_int_le pp epp ltac:(lia) He) as Hep.
  pose proof (rquo_nonneg pp (of_int epp) ltac:(lia) (of_int_pos _ He)) as Hep0.
  unfold quo at 1. replace (of_int epp =? 0) with false by (symmetry; apply Z.eqb_neq; pose proof (of_int_pos _ He); lia).
  fold (rquo pp (of_int epp)). rewrite chk_ok by lia.
  unfold mul. fold (pure_calc e x epp bonded).
  rewrite chk_ok; [reflexivity|].
  unfold pure_calc. fold (pure_decay e x). fold pp. rewrite rmul_reduction. nia.
Qed.

(** * Part B.  The end-of-epoch hook *)

Lemma truncate_int_some a q : truncate_int a = Some q -> q = Z.quot a S.
Proof.
  unfold truncate_int. destruct (2 ^ 256 <=? Z.abs (Z.quot a S)); [discriminate|].
  intros H. inversion H. reflexivity.
Qed.

(* GetProportions: amount.ToLegacyDec().Mul(share) is exact before the chop
   (one factor is an integer), so the truncation is that of the exact product *)
Lemma get_proportion_some m sh r :
  get_proportion m sh = Some r -> r = Z.quot (m * sh) S /\ 0 <= r.
Proof.
  unfold get_proportion, obind.
  destruct (mul (of_int m) sh) as [z|] eqn:E1; [|discriminate].
  destruct (truncate_int z) as [z0|] eqn:E2; [|discriminate].
  destruct (0 <=? z0) eqn:E3; [|discriminate]. intros H. inversion H. subst r.
  apply mul_some in E1. apply truncate_int_some in E2. apply Z.leb_le in E3.
  subst.
  assert (R : rmul (of_int m) sh = m * sh).
  { unfold rmul, of_int. replace (m * S * sh) with ((m * sh) * S) by ring. apply chop_round_exact_all. }
  rewrite R in *. split; [reflexivity|exact E3].
Qed.

Lemma get_proportion_floor m sh :
  0 <= m -> m * S < bound -> 0 <= sh <= S ->
  get_proportion m sh = Some ((m * sh) / S) /\ 0 <= (m * sh) / S <= m.
Proof.
  intros Hm Hb Hs. pose proof S_pos as HS.
  assert (Hq : 0 <= (m * sh) / S <= m).
  { split; [apply Z.div_pos; nia|]. apply Z.div_le_upper_bound; nia. }
  split; [|exact Hq].
  unfold get_proportion, obind, mul, rmul, of_int.
  replace (m * S * sh) with ((m * sh) * S) by ring. rewrite chop_round_exact_all.
  rewrite chk_ok by nia.
  unfold truncate_int. rewrite Z.quot_div_nonneg by nia.
  assert (B : bound < 2 ^ 256 * S) by (unfold bound; rewrite S_val; lia).
  destruct (2 ^ 256 <=? Z.abs (m * sh / S)) eqn:E; [apply Z.leb_le in E; nia|].
  destruct (0 <=? m * sh / S) eqn:E2; [reflexivity|apply Z.leb_gt in E2; lia].
Qed.

(* the ledger after MintAndAllocateInflation of [minted] with staking share [stk] *)
Definition allocated (s : state) (minted stk : Z) : state :=
  with_ledger s (st_fee s + stk) 0
              (st_distr s + ((minted - stk) + st_module s))
              (st_pool s + of_int ((minted - stk) + st_module s))
              (st_supply s + minted).

(* projections of the state constructors, without touching the arithmetic *)
Ltac proj :=
  cbn [allocated with_ledger with_schedule with_skipped with_params set_params
       st_params st_period st_skipped st_epp st_ident st_provision
       st_fee st_module st_distr st_pool st_supply andb negb zsum zlen app] in *.

Lemma mint_and_allocate_some minted s s1 :
  mint_and_allocate minted s = Some s1 ->
  exists stk, get_proportion minted (d_staking (p_dist (st_params s))) = Some stk /\
              stk <= st_module s + minted /\ s1 = allocated s minted stk.
Proof.
  unfold mint_and_allocate, obind.
  destruct (get_proportion minted _) as [stk|] eqn:E1; [|discriminate].
  destruct (stk <=? st_module s + minted) eqn:E2; [|discriminate].
  apply Z.leb_le in E2. intros H. inversion H. exists stk. split; [reflexivity|]. split; [exact E2|].
  unfold allocated. f_equal; try ring. unfold of_int. ring.
Qed.

(** The four ways a completed call can go *)
Inductive hook_result (day : Z) (o : oracle) (id n : Z) (s s' : state) : Prop :=
| HR_disabled_other :
    p_enable (st_params s) = false -> id <> day -> s' = s -> hook_result day o id n s s'
| HR_disabled_day :
    p_enable (st_params s) = false -> id = day -> s' = with_skipped s (st_skipped s + 1) ->
    hook_result day o id n s s'
| HR_enabled_other :
    p_enable (st_params s) = true -> id <> st_ident s -> s' = s -> hook_result day o id n s s'
| HR_mint minted stk :
    p_enable (st_params s) = true -> id = st_ident s ->
    minted = Z.quot (st_provision s) S -> 0 <= minted ->
    get_proportion minted (d_staking (p_dist (st_params s))) = Some stk ->
    stk <= st_module s + minted ->
    (period_passed n s = false /\ s' = allocated s minted stk \/
     period_passed n s = true /\
     exists prov,
       calc_provision (p_exp (st_params s)) (Z.to_N (st_period s + 1)) (st_epp s)
                      (bonded_ratio o (allocated s minted stk)) = Some prov /\
       s' = with_schedule (allocated s minted stk) (st_period s + 1) prov) ->
    hook_result day o id n s s'.

Lemma hook_cases day o id n s s' :
  after_epoch_end day o id n s = Some s' -> hook_result day o id n s s'.
Proof.
  unfold after_epoch_end, obind.
  destruct (p_enable (st_params s)) eqn:En; cbn [negb].
  - destruct (id =? st_ident s) eqn:Ei; cbn [negb];
      [apply Z.eqb_eq in Ei|apply Z.eqb_neq in Ei; intros H; injection H as <-; apply HR_enabled_other; auto].
    destruct (truncate_int (st_provision s)) as [minted|] eqn:E1; [|discriminate].
    destruct (0 <=? minted) eqn:E2; [|discriminate].
    destruct (mint_and_allocate minted s) as [s1|] eqn:E3; [|discriminate].
    apply truncate_int_some in E1. apply Z.leb_le in E2.
    apply mint_and_allocate_some in E3 as (stk & P & Q & ->).
    change (period_passed n (allocated s minted stk)) with (period_passed n s).
    cbn [allocated with_ledger st_params st_period st_epp].
    destruct (period_passed n s) eqn:Ep.
    + destruct (calc_provision _ _ _ _) as [prov|] eqn:Ec; [|discriminate].
      intros H. injection H as <-. apply (HR_mint day o id n s _ minted stk En Ei E1 E2 P Q).
      right. split; [exact Ep|]. exists prov. split; [exact Ec|reflexivity].
    + intros H. injection H as <-. apply (HR_mint day o id n s _ minted stk En Ei E1 E2 P Q).
      left. split; [exact Ep|reflexivity].
  - destruct (id =? day) eqn:Ei; cbn [negb]; intros H; injection H as <-.
    + apply Z.eqb_eq in Ei. apply HR_disabled_day; auto.
    + apply Z.eqb_neq in Ei. apply HR_disabled_other; auto.
Qed.

(* nothing but the hook's own fields move *)
Lemma hook_static day o id n s s' :
  after_epoch_end day o id n s = Some s' ->
  st_params s' = st_params s /\ st_epp s' = st_epp s /\ st_ident s' = st_ident s.
Proof.
  intros H. destruct (hook_cases _ _ _ _ _ _ H) as [? ? ->|? ? ->|? ? ->|minted stk ? ? ? ? ? ? [[? ->]|[? (prov & ? & ->)]]];
    proj; auto.
Qed.

(** ** C05: one call *)

Theorem hook_mint_exact day o id n s s' :
  p_enable (st_params s) = true -> id = st_ident s ->
  after_epoch_end day o id n s = Some s' ->
  let minted := Z.quot (st_provision s) S in
  exists stk,
    get_proportion minted (d_staking (p_dist (st_params s))) = Some stk /\
    stk = Z.quot (minted * d_staking (p_dist (st_params s))) S /\
    0 <= minted /\ 0 <= stk <= st_module s + minted /\
    st_supply s' = st_supply s + minted /\
    st_fee s' = st_fee s + stk /\
    st_distr s' = st_distr s + ((minted - stk) + st_module s) /\
    st_pool s' = st_pool s + of_int ((minted - stk) + st_module s) /\
    st_module s' = 0 /\
    st_skipped s' = st_skipped s.
Proof.
  intros En Ei H minted.
  destruct (hook_cases _ _ _ _ _ _ H) as [X|X|X Y|m stk _ _ Hm Hm0 Hp Hle Hs]; try congruence.
  subst m. fold minted in Hp, Hle, Hm0, Hs. exists stk.
  destruct (get_proportion_some _ _ _ Hp) as [Hq Hq0].
  split; [exact Hp|]. split; [exact Hq|]. split; [exact Hm0|]. split; [lia|].
  destruct Hs as [[_ ->]|[_ (prov & _ & ->)]]; proj; repeat split; reflexivity.
Qed.

(* with a validated split the staking share is the floor of minted * share, at most minted *)
Lemma staking_share_floor minted sh :
  0 <= minted -> 0 <= sh <= S ->
  Z.quot (minted * sh) S = (minted * sh) / S /\ 0 <= (minted * sh) / S <= minted.
Proof.
  intros Hm Hs. pose proof S_pos. rewrite Z.quot_div_nonneg by nia.
  split; [reflexivity|]. split; [apply Z.div_pos; nia|apply Z.div_le_upper_bound; nia].
Qed.

Theorem hook_no_mint day o id n s s' :
  after_epoch_end day o id n s = Some s' ->
  (p_enable (st_params s) = false -> id = day -> s' = with_skipped s (st_skipped s + 1)) /\
  (p_enable (st_params s) = false -> id <> day -> s' = s) /\
  (p_enable (st_params s) = true -> id <> st_ident s -> s' = s).
Proof.
  intros H. destruct (hook_cases _ _ _ _ _ _ H) as [X Y ->|X Y ->|X Y ->|m stk X Y _ _ _ _ _];
    repeat split; intros; congruence.
Qed.

(* a call that is not due never panics *)
Lemma hook_not_due day o id n s :
  mint_due id s = false -> exists s', after_epoch_end day o id n s = Some s'.
Proof.
  unfold mint_due, after_epoch_end. destruct (p_enable (st_params s)); cbn [negb andb].
  - intros ->. cbn [negb]. eauto.
  - intros _. destruct (id =? day); cbn [negb]; eauto.
Qed.

Lemma zsum_app a b : zsum (a ++ b) = zsum a + zsum b.
Proof. induction a as [|x r IH]; cbn [zsum app]; lia. Qed.
Lemma zlen_app a b : zlen (a ++ b) = zlen a + zlen b.
Proof. induction a as [|x r IH]; cbn [zlen app]; lia. Qed.
Lemma zlen_nonneg a : 0 <= zlen a.
Proof. induction a as [|x r IH]; cbn [zlen]; lia. Qed.

Lemma hook_supply day o id n s s' :
  after_epoch_end day o id n s = Some s' -> st_supply s' = st_supply s + zsum (due_amount id s).
Proof.
  intros H. unfold due_amount, mint_due.
  destruct (hook_cases _ _ _ _ _ _ H) as [X Y ->|X Y ->|X Y ->|m stk X Y Hm _ _ _ Hs].
  - rewrite X. proj. lia.
  - rewrite X. proj. lia.
  - rewrite X. replace (id =? st_ident s) with false by (symmetry; apply Z.eqb_neq; exact Y). proj. lia.
  - rewrite X, Y, Z.eqb_refl. cbn [andb zsum]. subst m.
    destruct Hs as [[_ ->]|[_ (prov & _ & ->)]]; proj; lia.
Qed.

(** ** C13: one call *)

Definition mints_in_period (n : Z) (s : state) : Z := n - 1 - st_skipped s - st_epp s * st_period s.
(* n = number of the epoch now current for the counted identifier *)
Definition sched_inv (n : Z) (s : state) : Prop := 0 <= mints_in_period n s < st_epp s.

Lemma sched_inv_div n s :
  0 < st_epp s -> (sched_inv n s <-> st_period s = (n - 1 - st_skipped s) / st_epp s).
Proof.
  intros He. unfold sched_inv, mints_in_period. split.
  - intros H. apply Z.div_unique_pos with (r := n - 1 - st_skipped s - st_epp s * st_period s); lia.
  - intros ->. pose proof (Z.div_mod (n - 1 - st_skipped s) (st_epp s) ltac:(lia)).
    pose proof (Z.mod_pos_bound (n - 1 - st_skipped s) (st_epp s) He). lia.
Qed.

Lemma period_passed_iff n s :
  period_passed (n + 1) s = true <-> st_epp s <= mints_in_period n s + 1.
Proof. unfold period_passed, mints_in_period. rewrite Z.ltb_lt. lia. Qed.

(* The call that ends epoch n of the "day" identifier arrives with number n+1. *)
Theorem hook_day_step day o n s s' :
  st_ident s = day -> sched_inv n s ->
  after_epoch_end day o day (n + 1) s = Some s' ->
  sched_inv (n + 1) s' /\
  zlen (due_amount day s) + (st_skipped s' - st_skipped s) = 1 /\
  (st_period s' = st_period s + 1 <-> mint_due day s = true /\ mints_in_period n s = st_epp s - 1) /\
  (st_period s' = st_period s \/ st_period s' = st_period s + 1).
Proof.
  intros Hid HI H. unfold sched_inv, mints_in_period in *. unfold due_amount, mint_due.
  pose proof (period_passed_iff n s) as PP. unfold mints_in_period in PP.
  destruct (hook_cases _ _ _ _ _ _ H) as [X Y ->|X Y ->|X Y ->|m stk X Y Hm _ _ _ Hs].
  - congruence.
  - rewrite X. proj. repeat split; try lia; intros [? ?]; discriminate.
  - congruence.
  - rewrite X, Hid, Z.eqb_refl. cbn [andb zlen].
    destruct Hs as [[Hp ->]|[Hp (prov & _ & ->)]]; proj.
    + assert (~ st_epp s <= n - 1 - st_skipped s - st_epp s * st_period s + 1) by (rewrite <- PP; congruence).
      repeat split; try lia.
    + apply PP in Hp. repeat split; try lia.
Qed.

(* calls for other identifiers never touch the schedule *)
Lemma hook_foreign day o id n s :
  st_ident s = day -> id <> day ->
  after_epoch_end day o id n s = Some s /\ due_amount id s = [].
Proof.
  intros Hid Hne. unfold after_epoch_end, due_amount, mint_due. rewrite Hid.
  replace (id =? day) with false by (symmetry; apply Z.eqb_neq; exact Hne).
  destruct (p_enable (st_params s)); proj; auto.
Qed.

Theorem hook_provision_stable day o id n s s' :
  after_epoch_end day o id n s = Some s' ->
  st_period s <= st_period s' <= st_period s + 1 /\
  (st_period s' = st_period s -> st_provision s' = st_provision s) /\
  (st_period s' <> st_period s ->
     mint_due id s = true /\ period_passed n s = true /\
     exists br, calc_provision (p_exp (st_params s)) (Z.to_N (st_period s')) (st_epp s) br = Some (st_provision s')).
Proof.
  intros H.
  destruct (hook_cases _ _ _ _ _ _ H) as [X Y ->|X Y ->|X Y ->|m stk X Y Hm _ _ _ Hs];
    try (proj; split; [lia|]; split; [reflexivity|intros C; exfalso; apply C; reflexivity]).
  destruct Hs as [[Hp ->]|[Hp (prov & Hc & ->)]]; proj.
  - split; [lia|]. split; [reflexivity|intros C; exfalso; apply C; reflexivity].
  - split; [lia|]. split; [lia|]. intros _. unfold mint_due. rewrite X, Y, Z.eqb_refl.
    split; [reflexivity|]. split; [exact Hp|]. eexists. exact Hc.
Qed.

Lemma bonded_ratio_nonneg o s : 0 <= o_bonded o -> 0 <= bonded_ratio o s.
Proof.
  intros Hb. unfold bonded_ratio, of_int. pose proof S_pos.
  destruct (o_stake_supply o) as [x|].
  - destruct (x <=? 0) eqn:E; [lia|apply Z.leb_gt in E]. apply Z.quot_pos; nia.
  - destruct (st_supply s <=? 0) eqn:E; [lia|apply Z.leb_gt in E]. apply Z.quot_pos; nia.
Qed.

(* the stored provision stays non-negative: sdk.NewCoin in the hook cannot panic *)
Theorem hook_provision_nonneg day o id n s s' :
  ValidExp (p_exp (st_params s)) -> 0 < st_epp s -> 0 <= o_bonded o -> 0 <= st_provision s ->
  after_epoch_end day o id n s = Some s' -> 0 <= st_provision s'.
Proof.
  intros V He Hb Hp H.
  destruct (hook_cases _ _ _ _ _ _ H) as [X Y ->|X Y ->|X Y ->|m stk X Y Hm _ _ _ Hs]; try exact Hp.
  destruct Hs as [[_ ->]|[_ (prov & Hc & ->)]]; proj; [exact Hp|].
  apply calc_some_pure in Hc as [-> _].
  apply pure_calc_nonneg; auto. apply bonded_ratio_nonneg. exact Hb.
Qed.

(* ... and under the overflow guard the hook completes *)
Theorem hook_completes day o id n s :
  ValidExp (p_exp (st_params s)) -> calc_guard (p_exp (st_params s)) ->
  valid_dist (p_dist (st_params s)) = true -> 0 < st_epp s -> 0 <= o_bonded o ->
  0 <= st_provision s < bound -> 0 <= st_module s ->
  exists s', after_epoch_end day o id n s = Some s'.
Proof.
  intros V G D He Hb Hp Hm.
  destruct (mint_due id s) eqn:Due; [|apply hook_not_due; exact Due].
  unfold mint_due in Due. apply andb_prop in Due as [En Ei].
  pose proof S_pos as HS.
  unfold after_epoch_end. rewrite En, Ei. cbn [negb]. unfold obind.
  assert (Hq : 0 <= Z.quot (st_provision s) S) by (apply Z.quot_pos; lia).
  assert (Hqs : Z.quot (st_provision s) S * S <= st_provision s).
  { rewrite Z.quot_div_nonneg by lia. rewrite Z.mul_comm. apply Z.mul_div_le. lia. }
  assert (B : bound < 2 ^ 256 * S) by (unfold bound; rewrite S_val; lia).
  unfold truncate_int at 1.
  destruct (2 ^ 256 <=? Z.abs (Z.quot (st_provision s) S)) eqn:E; [apply Z.leb_le in E; nia|].
  replace (0 <=? Z.quot (st_provision s) S) with true by (symmetry; apply Z.leb_le; exact Hq).
  destruct (valid_dist_spec _ D) as (Ds & _ & _).
  destruct (get_proportion_floor (Z.quot (st_provision s) S) (d_staking (p_dist (st_params s))) Hq ltac:(lia) Ds) as [Gp Gb].
  unfold mint_and_allocate, obind. rewrite Gp.
  match goal with |- context [?a <=? ?b] => replace (a <=? b) with true by (symmetry; apply Z.leb_le; lia) end.
  match goal with |- context [period_passed n ?s1] => destruct (period_passed n s1); [|eauto] end.
  cbn [with_ledger st_params st_period st_epp].
  rewrite calc_no_panic; eauto.
  apply bonded_ratio_nonneg. exact Hb.
Qed.

(** * Part C.  Histories through the epoch clock *)

Lemma run_hooks_log_fst day o hs : forall s,
  run_hooks day o hs s = match run_hooks_log day o hs s with Some (s', _) => Some s' | None => None end.
Proof.
  induction hs as [|k r IH]; intros s; cbn [run_hooks run_hooks_log]; [reflexivity|].
  destruct k as [id n|id n]; [|apply IH].
  unfold obind. destruct (after_epoch_end day o id n s) as [s1|]; [|reflexivity].
  rewrite IH. destruct (run_hooks_log day o r s1) as [[s2 l]|]; reflexivity.
Qed.

Lemma run_hooks_log_static day o hs : forall s s' l,
  run_hooks_log day o hs s = Some (s', l) ->
  st_params s' = st_params s /\ st_epp s' = st_epp s /\ st_ident s' = st_ident s.
Proof.
  induction hs as [|k r IH]; intros s s' l H; cbn [run_hooks_log] in H.
  - injection H as <- _. auto.
  - destruct k as [id n|id n]; [|eapply IH; eauto].
    destruct (after_epoch_end day o id n s) as [s1|] eqn:E1; [|discriminate].
    destruct (run_hooks_log day o r s1) as [[s2 l2]|] eqn:E2; [|discriminate].
    injection H as <- _. apply hook_static in E1. apply IH in E2. intuition congruence.
Qed.

(** ** Supply over any history (C05) *)

Lemma run_hooks_log_supply day o hs : forall s s' l,
  run_hooks_log day o hs s = Some (s', l) -> st_supply s' = st_supply s + zsum l.
Proof.
  induction hs as [|k r IH]; intros s s' l H; cbn [run_hooks_log] in H.
  - injection H as <- <-. cbn [zsum]. lia.
  - destruct k as [id n|id n]; [|eapply IH; eauto].
    destruct (after_epoch_end day o id n s) as [s1|] eqn:E1; [|discriminate].
    destruct (run_hooks_log day o r s1) as [[s2 l2]|] eqn:E2; [|discriminate].
    injection H as <- <-. apply hook_supply in E1. apply IH in E2. rewrite zsum_app. lia.
Qed.

Theorem history_supply day ops : forall es s es' s' log,
  run_ops day ops es s = Some (es', s', log) -> st_supply s' = st_supply s + zsum log.
Proof.
  induction ops as [|k r IH]; intros es s es' s' log H; cbn [run_ops] in H.
  - injection H as _ <- <-. cbn [zsum]. lia.
  - destruct k as [t h o|e d en].
    + destruct (begin_block t h es) as [es1 hs].
      destruct (run_hooks_log day o hs s) as [[s1 l1]|] eqn:E1; [|discriminate].
      destruct (run_ops day r es1 s1) as [[[es2 s2] l2]|] eqn:E2; [|discriminate].
      injection H as _ <- <-. apply run_hooks_log_supply in E1. apply IH in E2. rewrite zsum_app. lia.
    + apply IH in H. exact H.
Qed.

(** ** The clock of one identifier, as the hook sees it *)

(* number of the current epoch; a clock that has not started yet will start at 1 *)
Definition cur_eff (e : epoch) : Z := if e_started e then e_cur e else 1.

Lemma tick_cases t h e :
  (e_started e = false /\ tick t h e = (started_rec h e, [BeforeStart (e_id e) 1])) \/
  (e_started e = true /\
   tick t h e = (ticked_rec h e, [AfterEnd (e_id e) (e_cur e + 1); BeforeStart (e_id e) (e_cur e + 1)])) \/
  tick t h e = (e, []).
Proof.
  unfold tick, started_rec, ticked_rec. destruct (e_started e) eqn:Es; cbn [negb andb].
  - match goal with |- context [if ?c then _ else _] => destruct c end; auto.
  - destruct (negb (t <? e_start e)) eqn:E; cbn [negb andb]; auto.
    rewrite Bool.andb_false_r. auto.
Qed.

(* calls for other identifiers are invisible when the configured identifier is "day" *)
Lemma run_hooks_log_for_id day o hs : forall s,
  st_ident s = day -> run_hooks_log day o hs s = run_hooks_log day o (for_id day hs) s.
Proof.
  induction hs as [|k r IH]; intros s Hid; [reflexivity|].
  unfold for_id in *. cbn [filter].
  destruct k as [id n|id n]; cbn [hook_id].
  - destruct (Z.eqb_spec id day) as [->|Hne].
    + cbn [run_hooks_log]. destruct (after_epoch_end day o day n s) as [s1|] eqn:E1; [|reflexivity].
      apply hook_static in E1 as (_ & _ & E1). rewrite IH by congruence. reflexivity.
    + cbn [run_hooks_log]. destruct (hook_foreign day o id n s Hid Hne) as [-> ->].
      rewrite IH by exact Hid.
      destruct (run_hooks_log day o (filter (fun k => hook_id k =? day) r) s) as [[s2 l]|]; reflexivity.
  - destruct (id =? day); cbn [run_hooks_log]; apply IH; exact Hid.
Qed.

Lemma block_hooks_day day o t h es e s :
  st_ident s = day -> NoDup (map e_id es) -> In e es -> e_id e = day ->
  run_hooks_log day o (snd (begin_block t h es)) s = run_hooks_log day o (snd (tick t h e)) s.
Proof.
  intros Hid ND HIn He. rewrite run_hooks_log_for_id by exact Hid.
  rewrite <- He at 2. rewrite (block_hooks_per_id t h es e ND HIn). reflexivity.
Qed.

Lemma begin_block_ids t h es : map e_id (fst (begin_block t h es)) = map e_id es.
Proof.
  rewrite block_records, map_map. apply map_ext. intros e. apply tick_id.
Qed.

(* one block, seen from the "day" record [e]: at most one end-of-epoch call, numbered cur_eff e + 1 *)
Lemma block_day_step day o t h es e s s1 l1 :
  st_ident s = day -> NoDup (map e_id es) -> In e es -> e_id e = day ->
  run_hooks_log day o (snd (begin_block t h es)) s = Some (s1, l1) ->
  let e1 := fst (tick t h e) in
  In e1 (fst (begin_block t h es)) /\ e_id e1 = day /\
  ((cur_eff e1 = cur_eff e /\ s1 = s /\ l1 = []) \/
   (cur_eff e1 = cur_eff e + 1 /\ l1 = due_amount day s /\
    after_epoch_end day o day (cur_eff e + 1) s = Some s1)).
Proof.
  intros Hid ND HIn He H e1.
  split; [rewrite block_records; apply (in_map (fun x => fst (tick t h x))); exact HIn|].
  split; [unfold e1; rewrite tick_id; exact He|].
  rewrite (block_hooks_day day o t h es e s Hid ND HIn He) in H. unfold e1.
  clear e1.
  destruct (tick_cases t h e) as [[Es Ht]|[[Es Ht]|Ht]]; rewrite Ht in *; cbn [fst snd] in *.
  - cbn [run_hooks_log] in H. injection H as <- <-. left.
    unfold cur_eff, started_rec. cbn [e_started e_cur]. rewrite Es. auto.
  - rewrite He in H. cbn [run_hooks_log] in H.
    destruct (after_epoch_end day o day (e_cur e + 1) s) as [s'|] eqn:E1; [|discriminate].
    injection H as <- <-. right.
    unfold cur_eff, ticked_rec. cbn [e_started e_cur]. rewrite Es. rewrite app_nil_r. auto.
  - cbn [run_hooks_log] in H. injection H as <- <-. left. auto.
Qed.

(** ** Period count, skipped count and stored provision over any history (C13, C05) *)

Theorem history_schedule day ops : forall es s e es' s' log,
  st_ident s = day -> NoDup (map e_id es) -> In e es -> e_id e = day ->
  run_ops day ops es s = Some (es', s', log) ->
  exists e',
    In e' es' /\ e_id e' = day /\ NoDup (map e_id es') /\
    st_ident s' = day /\ st_epp s' = st_epp s /\
    (* every elapsed "day" epoch either minted or was counted as skipped *)
    zlen log + (st_skipped s' - st_skipped s) = cur_eff e' - cur_eff e /\
    (* period = floor (minting epochs / epochs_per_period), kept by every step *)
    (sched_inv (cur_eff e) s -> sched_inv (cur_eff e') s').
Proof.
  induction ops as [|k r IH]; intros es s e es' s' log Hid ND HIn He H; cbn [run_ops] in H.
  - injection H as <- <- <-. exists e. cbn [zlen].
    refine (conj _ (conj _ (conj _ (conj _ (conj _ (conj _ _)))))); auto; lia.
  - destruct k as [t h o|ec d en].
    + destruct (begin_block t h es) as [es1 hs] eqn:EB.
      destruct (run_hooks_log day o hs s) as [[s1 l1]|] eqn:E1; [|discriminate].
      destruct (run_ops day r es1 s1) as [[[es2 s2] l2]|] eqn:E2; [|discriminate].
      injection H as <- <- <-.
      assert (Hhs : hs = snd (begin_block t h es)) by (rewrite EB; reflexivity).
      assert (Hes : es1 = fst (begin_block t h es)) by (rewrite EB; reflexivity).
      rewrite Hhs in E1.
      pose proof (run_hooks_log_static _ _ _ _ _ _ E1) as (_ & Sepp & Sid).
      destruct (block_day_step day o t h es e s s1 l1 Hid ND HIn He E1) as (In1 & Id1 & Step).
      rewrite <- Hes in In1.
      assert (ND1 : NoDup (map e_id es1)) by (rewrite Hes, begin_block_ids; exact ND).
      destruct (IH es1 s1 (fst (tick t h e)) es2 s2 l2 ltac:(congruence) ND1 In1 Id1 E2)
        as (e' & A & B & C & D & E & F & G).
      exists e'. rewrite zlen_app.
      destruct Step as [(Hc & -> & ->)|(Hc & -> & Hk)].
      * refine (conj _ (conj _ (conj _ (conj _ (conj _ (conj _ _)))))); auto; try congruence.
        -- cbn [zlen]. lia.
        -- intros I. apply G. rewrite Hc. exact I.
      * refine (conj _ (conj _ (conj _ (conj _ (conj _ (conj _ _)))))); auto; try congruence.
        -- destruct (hook_cases _ _ _ _ _ _ Hk) as [X Y ->|X Y ->|X Y ->|m stk X Y Hm _ _ _ Hs];
             try congruence; unfold due_amount, mint_due in *; rewrite X in *; proj.
           ++ lia.
           ++ rewrite Hid, Z.eqb_refl in *. proj.
              destruct Hs as [[_ ->]|[_ (prov & _ & ->)]]; proj; lia.
        -- intros I. apply G. rewrite Hc.
           apply (hook_day_step day o (cur_eff e) s s1 Hid I Hk).
    + apply (IH es (set_params ec d en s) e es' s' log Hid ND HIn He) in H.
      destruct H as (e' & A & B & C & D & E & F & G). exists e'.
      refine (conj _ (conj _ (conj _ (conj _ (conj _ (conj _ _)))))); auto.
Qed.

(* the total of minting epochs: current number - 1 - skipped *)
Corollary history_period_closed_form day ops es s e es' s' log :
  st_ident s = day -> NoDup (map e_id es) -> In e es -> e_id e = day -> 0 < st_epp s ->
  st_period s = (cur_eff e - 1 - st_skipped s) / st_epp s ->
  run_ops day ops es s = Some (es', s', log) ->
  st_period s' = (cur_eff e - 1 - st_skipped s + zlen log) / st_epp s.
Proof.
  intros Hid ND HIn He Hepp Hp H.
  destruct (history_schedule day ops es s e es' s' log Hid ND HIn He H) as (e' & _ & _ & _ & _ & E & F & G).
  apply (sched_inv_div (cur_eff e) s Hepp) in Hp. apply G in Hp.
  apply sched_inv_div in Hp; [|lia]. rewrite Hp, E. f_equal. lia.
Qed.

Lemma run_hooks_log_stable day o hs : forall s s' l,
  run_hooks_log day o hs s = Some (s', l) ->
  st_period s <= st_period s' /\ (st_period s' = st_period s -> st_provision s' = st_provision s).
Proof.
  induction hs as [|k r IH]; intros s s' l H; cbn [run_hooks_log] in H.
  - injection H as <- _. split; [lia|reflexivity].
  - destruct k as [id n|id n]; [|eapply IH; eauto].
    destruct (after_epoch_end day o id n s) as [s1|] eqn:E1; [|discriminate].
    destruct (run_hooks_log day o r s1) as [[s2 l2]|] eqn:E2; [|discriminate].
    injection H as <- _. apply hook_provision_stable in E1 as (A & B & _). apply IH in E2 as (C & D).
    split; [lia|]. intros Eq. rewrite D by lia. apply B. lia.
Qed.

(* the stored provision moves only together with the period; the period never decreases *)
Theorem history_provision_stable day ops : forall es s es' s' log,
  run_ops day ops es s = Some (es', s', log) ->
  st_period s <= st_period s' /\ (st_period s' = st_period s -> st_provision s' = st_provision s).
Proof.
  induction ops as [|k r IH]; intros es s es' s' log H; cbn [run_ops] in H.
  - injection H as _ <- _. split; [lia|reflexivity].
  - destruct k as [t h o|e d en].
    + destruct (begin_block t h es) as [es1 hs].
      destruct (run_hooks_log day o hs s) as [[s1 l1]|] eqn:E1; [|discriminate].
      destruct (run_ops day r es1 s1) as [[[es2 s2] l2]|] eqn:E2; [|discriminate].
      injection H as _ <- _. apply run_hooks_log_stable in E1 as (A & B). apply IH in E2 as (C & D).
      split; [lia|]. intros Eq. rewrite D by lia. apply B. lia.
    + apply IH in H. exact H.
Qed.

(** * Part D.  Statements in the words of the properties *)

(** ** C13 *)

(* never negative, for everything validation accepts, every period, every bonded ratio >= 0 *)
Theorem provision_nonneg e x epp bonded v :
  valid_exp e = true -> valid_epp epp = true -> 0 <= bonded ->
  calc_provision e x epp bonded = Some v -> 0 <= v.
Proof.
  intros V He Hb H. apply valid_exp_spec in V. apply Z.ltb_lt in He.
  apply calc_some_pure in H as [-> _]. apply pure_calc_nonneg; assumption.
Qed.

(* ... and the computation completes under the two-product overflow guard *)
Theorem provision_no_panic e x epp bonded :
  valid_exp e = true -> valid_epp epp = true -> 0 <= bonded -> calc_guard e ->
  exists v, calc_provision e x epp bonded = Some v /\ 0 <= v /\
            S * v <= ((ec_a e + ec_c e) * (S + ec_maxvar e) + S) * power_reduction.
Proof.
  intros V He Hb G. apply valid_exp_spec in V. apply Z.ltb_lt in He.
  exists (pure_calc e x epp bonded). split; [apply calc_no_panic; assumption|].
  split; [apply pure_calc_nonneg; assumption|apply pure_calc_upper; assumption].
Qed.

(* ... and without any guard for parameters the validator accepts: since the repair of the C18 finding
   validateExponentialCalculation evaluates the provision for period 0, one epoch per period and bonded
   ratio 0 and rejects the parameters when that panics; that evaluation dominates all others *)
Theorem provision_no_panic_validated e x epp bonded :
  valid_exp e = true -> (exists v0, calc_provision e 0%N 1 0 = Some v0) ->
  valid_epp epp = true -> 0 <= bonded ->
  exists v, calc_provision e x epp bonded = Some v /\ 0 <= v.
Proof.
  intros V (v0 & E0) He Hb. apply valid_exp_spec in V. apply Z.ltb_lt in He.
  exists (pure_calc e x epp bonded). split; [eapply calc_worst_case; eauto|apply pure_calc_nonneg; assumption].
Qed.

(* the bonding incentive used inside the provision lies in [1, 1 + maxVariance] (the
   design-round spike allowed one ulp below 1; the code never goes there);
   at or above the bonding target it is 1 up to one ulp *)
Theorem incentive_bounds e bonded v :
  valid_exp e = true -> 0 <= bonded ->
  calc_incentive e bonded = Some v ->
  S <= v <= S + ec_maxvar e /\ (ec_target e <= bonded -> v <= S + 1).
Proof.
  intros V Hb H. apply valid_exp_spec in V. apply incentive_some_pure in H. subst v.
  split; [apply pure_incentive_bounds; assumption|].
  intros Ht. apply pure_incentive_at_target; assumption.
Qed.

(* the provision is that incentive applied to the decay term (same operations, same order) *)
Theorem provision_uses_incentive e x epp bonded v :
  calc_provision e x epp bonded = Some v ->
  exists inc, calc_incentive e bonded = Some inc /\
    v = rmul (rquo (rmul (pure_decay e x) inc) (of_int epp)) (of_int power_reduction).
Proof.
  unfold calc_provision, calc_incentive, obind, one.
  destruct (sub S (ec_r e)) as [decay|] eqn:E1; [|discriminate].
  destruct (power_chk decay x) as [pw|] eqn:E2; [|discriminate].
  destruct (mul (ec_a e) pw) as [t1|] eqn:E3; [|discriminate].
  destruct (add t1 (ec_c e)) as [ed|] eqn:E4; [|discriminate].
  destruct (quo (ec_maxvar e) (ec_target e)) as [q|] eqn:E5; [|discriminate].
  destruct (mul _ q) as [sb|] eqn:E6; [|discriminate].
  destruct (add S (ec_maxvar e)) as [t2|] eqn:E7; [|discriminate].
  destruct (sub t2 sb) as [inc|] eqn:E8; [|discriminate].
  destruct (mul ed inc) as [pp|] eqn:E9; [|discriminate].
  destruct (quo pp (of_int epp)) as [ep|] eqn:E10; [|discriminate].
  intros E11. exists inc. split; [reflexivity|].
  apply sub_some in E1. apply power_chk_some in E2. apply mul_some in E3. apply add_some in E4.
  apply mul_some in E9. apply quo_some in E10 as [_ E10]. apply mul_some in E11.
  subst. reflexivity.
Qed.

(* the result is always a whole number of base coins (the last step multiplies by 10^18), so
   "the integer part of the provision" is all of it for every provision the module computes *)
Theorem provision_integral e x epp bonded v :
  calc_provision e x epp bonded = Some v -> exists k, v = k * S /\ Z.quot v S = k.
Proof.
  intros H. apply calc_some_pure in H as [-> _]. unfold pure_calc. rewrite rmul_reduction.
  eexists. split; [reflexivity|]. change power_reduction with S. apply Z.quot_mul. pose proof S_pos. lia.
Qed.

(* fixed parameters and bonded ratio: the provision never increases with the period *)
Theorem provision_nonincreasing e epp bonded :
  valid_exp e = true -> valid_epp epp = true -> 0 <= bonded ->
  forall (x y : N) vx vy, (x <= y)%N ->
  calc_provision e x epp bonded = Some vx -> calc_provision e y epp bonded = Some vy -> vy <= vx.
Proof.
  intros V He Hb x y vx vy Hxy Hx Hy. apply valid_exp_spec in V. apply Z.ltb_lt in He.
  apply calc_some_pure in Hx as [-> _]. apply calc_some_pure in Hy as [-> _].
  apply pure_calc_antitone; assumption.
Qed.

(** ** Non-vacuity: the chain's default parameters, and a two-epoch period through the clock *)

Definition ex_exp : exp_calc :=
  mkExp (16304348 * S) (35 * 10 ^ 16) 0 (80 * 10 ^ 16) 0.
Definition ex_exp_var : exp_calc :=   (* with a long-term floor and a 40% variance *)
  mkExp (16304348 * S) (35 * 10 ^ 16) (1000 * S) (66 * 10 ^ 16) (40 * 10 ^ 16).

Example ex_valid : valid_exp ex_exp = true /\ valid_exp ex_exp_var = true /\ valid_epp 30 = true.
Proof. vm_compute. auto. Qed.
Example ex_guard : calc_guard ex_exp /\ calc_guard ex_exp_var.
Proof. unfold calc_guard. vm_compute. auto. Qed.
Example ex_calc :
  calc_provision ex_exp 0 30 S = Some (543478266666666666666667 * S) /\
  calc_provision ex_exp 1 30 S = Some (353260873333333333333333 * S) /\
  calc_provision ex_exp_var 3 365 (33 * 10 ^ 16) = Some (14724103790136986301370 * S).
Proof. vm_compute. auto. Qed.
Example ex_incentive :
  calc_incentive ex_exp_var 0 = Some (140 * 10 ^ 16) /\
  calc_incentive ex_exp_var (33 * 10 ^ 16) = Some (120 * 10 ^ 16) /\
  calc_incentive ex_exp_var S = Some S.   (* the lower bound is met *)
Proof. vm_compute. auto. Qed.

Definition ex_state (en : bool) : state :=
  mkState (mkParams 0 ex_exp_var (mkDistr (53 * 10 ^ 16) (47 * 10 ^ 16)) en)
          0 0 2 0 (22684931506849315068493150 * S + 7 * 10 ^ 17) 5 11 13 (17 * S) 1000.
Definition ex_oracle : oracle := mkOracle 300 None.
Definition ex_day : epoch := mkEpoch 0 100 10 0 0 false 0.
Definition ex_week : epoch := mkEpoch 1 100 70 0 0 false 0.

(* first call arrives with number 2; with epochs_per_period = 2 the period
   advances in the call numbered 3 (the second mint), not before, and the
   inflation module account is emptied (its 11 prior coins included) *)
Example ex_hook :
  exists s2 s3,
    after_epoch_end 0 ex_oracle 0 2 (ex_state true) = Some s2 /\
    after_epoch_end 0 ex_oracle 0 3 s2 = Some s3 /\
    st_period s2 = 0 /\ st_period s3 = 1 /\ st_provision s2 = st_provision (ex_state true) /\
    st_provision s3 < st_provision s2 /\
    st_supply s2 = 1000 + 22684931506849315068493150 /\
    st_fee s2 = 5 + 12023013698630136986301369 /\
    st_distr s2 = 13 + (22684931506849315068493150 - 12023013698630136986301369) + 11 /\
    st_module s2 = 0 /\ st_module s3 = 0.
Proof.
  destruct (after_epoch_end 0 ex_oracle 0 2 (ex_state true)) as [s2|] eqn:E2; [|vm_compute in E2; discriminate].
  destruct (after_epoch_end 0 ex_oracle 0 3 s2) as [s3|] eqn:E3;
    [|vm_compute in E2; injection E2 as <-; vm_compute in E3; discriminate].
  exists s2, s3. vm_compute in E2. injection E2 as <-. vm_compute in E3. injection E3 as <-.
  vm_compute. repeat split; reflexivity.
Qed.

(* a history through the clock: the day epoch starts, two epochs end while
   enabled, one while disabled (counted as skipped), one more enabled; a week
   epoch ticks along without effect *)
Definition ex_ops : list op :=
  [OBlock 100 1 ex_oracle; OBlock 111 2 ex_oracle; OBlock 125 3 ex_oracle;
   OParams ex_exp_var (mkDistr (53 * 10 ^ 16) (47 * 10 ^ 16)) false;
   OBlock 171 4 ex_oracle;
   OParams ex_exp (mkDistr S 0) true;
   OBlock 172 5 ex_oracle; OBlock 172 6 ex_oracle].

Example ex_history :
  exists es' s' log,
    run_ops 0 ex_ops [ex_day; ex_week] (ex_state true) = Some (es', s', log) /\
    zlen log = 4 /\ st_skipped s' = 1 /\ st_period s' = 2 /\
    map cur_eff es' = [6; 2] /\
    st_supply s' = 1000 + zsum log /\
    sched_inv 1 (ex_state true) /\ NoDup (map e_id [ex_day; ex_week]).
Proof.
  destruct (run_ops 0 ex_ops [ex_day; ex_week] (ex_state true)) as [[[es' s'] log]|] eqn:E;
    [|vm_compute in E; discriminate].
  exists es', s', log. vm_compute in E. injection E as <- <- <-.
  split; [reflexivity|]. vm_compute.
  repeat split; try reflexivity; try discriminate.
  repeat constructor; cbn; intuition discriminate.
Qed.

(* The disabled branch compares with the literal "day", not with the configured identifier.
   With the configured identifier "week" (rank 1 here) a disabled DAY epoch is counted as
   skipped although the schedule counts WEEK epochs, and a disabled week epoch is not counted:
   the count relations above are therefore stated for configured identifier = "day" only. *)
Definition ex_state_week : state :=
  mkState (mkParams 0 ex_exp (mkDistr S 0) false) 0 0 2 1 (543478266666666666666667 * S) 0 0 0 0 0.
Example ex_other_identifier :
  after_epoch_end 0 ex_oracle 0 5 ex_state_week = Some (with_skipped ex_state_week 1) /\
  after_epoch_end 0 ex_oracle 1 5 ex_state_week = Some ex_state_week.
Proof. split; reflexivity. Qed.
