(** Proofs for property C07: only a message's required signers can be debited by it.

    "Who is debited" is derived from the exact balance equations of the
    coinswap keeper functions (Proofs/CoinswapEffects.v) and from the exactness
    theorem of the conversion paths (Proofs/ConvertProofs.v, [convert_ok_exact])
    instantiated with the honest token contract. *)
From Coq Require Import ZArith List Bool Lia.
From Canto Require Import Lib.SdkInt Lib.SdkDec Model.Coinswap Model.Signers
     Proofs.CoinswapBase Proofs.CoinswapEffects Proofs.CoinswapWF Proofs.CoinswapLaws.
From Canto Require Model.Convert Proofs.ConvertProofs.
Import ListNotations.
Open Scope Z_scope.

(** * Part 1: the derived signer set is exactly the paying account named in the message *)

Theorem signers_exact m : payer_wf m = true -> signers m = Some [payer_of m].
Proof.
  destruct m; cbn [payer_wf signers payer_text payer_of]; intros H;
    unfold dec_bech, hex_lenient, is_hex; cbn [tx_pres tx_addr];
    rewrite H; reflexivity.
Qed.

(* per message type, in the words of the property *)
Corollary signers_exact_swap p pp r b din ain dout aout dl :
  bech_ok pp = true -> signers (MSwapOrder p pp r b din ain dout aout dl) = Some [User p].
Proof. intros H. apply (signers_exact (MSwapOrder p pp r b din ain dout aout dl) H). Qed.
Corollary signers_exact_add p pp tok a b c dl :
  bech_ok pp = true -> signers (MAddLiquidity p pp tok a b c dl) = Some [User p].
Proof. intros H. apply (signers_exact (MAddLiquidity p pp tok a b c dl) H). Qed.
Corollary signers_exact_remove p pp lpt a b c dl :
  bech_ok pp = true -> signers (MRemoveLiquidity p pp lpt a b c dl) = Some [User p].
Proof. intros H. apply (signers_exact (MRemoveLiquidity p pp lpt a b c dl) H). Qed.
Corollary signers_exact_convert_coin p pp r c amt g hc :
  bech_ok pp = true -> signers (MConvertCoin p pp r c amt g hc) = Some [User p].
Proof. intros H. apply (signers_exact (MConvertCoin p pp r c amt g hc) H). Qed.
Corollary signers_exact_convert_erc20 p pp junk r c cp amt g hc :
  hex_ok pp = true -> signers (MConvertERC20 p pp junk r c cp amt g hc) = Some [User p].
Proof. intros H. apply (signers_exact (MConvertERC20 p pp junk r c cp amt g hc) H). Qed.

(* the recipient, the amounts and the recipient's presentation play no part *)
Lemma signers_ignore_recipient p pp r r' b b' din din' ain ain' dout dout' aout aout' dl dl' :
  signers (MSwapOrder p pp r b din ain dout aout dl) = signers (MSwapOrder p pp r' b' din' ain' dout' aout' dl').
Proof. reflexivity. Qed.

(* a derived signer list never has more than one entry *)
Lemma signers_single m l : signers m = Some l -> exists a, l = [a].
Proof.
  destruct m; cbn [signers]; unfold dec_bech; cbn [payer_text tx_pres tx_addr];
    destruct (bech_ok ppres); cbn [obind]; intros H; inversion H; eauto.
Qed.

(* where the paying field is malformed the message is never executed: the
   derivation fails (bech32 fields) or yields an address the handler never uses
   because it rejects the message (hex sender of MsgConvertERC20) *)
Theorem malformed_payer_rejected now s m : payer_wf m = false -> deliver now s m = (s, CRejected).
Proof.
  destruct m; cbn [payer_wf]; intros H; unfold deliver; cbn [is_conversion to_op to_conv].
  - rewrite H. reflexivity.
  - rewrite H. reflexivity.
  - rewrite H. reflexivity.
  - unfold dec_bech. cbn [tx_pres]. rewrite H. reflexivity.
  - destruct (hex_ok cpres); [|reflexivity]. destruct (dec_bech rcpt); cbn [obind]; [|reflexivity].
    unfold is_hex. cbn [tx_pres]. rewrite H. reflexivity.
Qed.
Theorem malformed_bech_payer_no_signer m :
  payer_wf m = false -> (forall p pp j r c cp a g h, m <> MConvertERC20 p pp j r c cp a g h) -> signers m = None.
Proof.
  destruct m; cbn [payer_wf signers payer_text]; intros H N; unfold dec_bech; cbn [tx_pres];
    try (rewrite H; reflexivity).
  exfalso. eapply N. reflexivity.
Qed.

(** * Part 2: who can be debited *)

(* some coin balance (any denomination of the coinswap world, any pair's
   denomination) or token balance (any pair's contract) of [a] is lower in [s'] *)
Definition debited (s s' : state) (a : acct) : Prop :=
  (exists d, coin_bal s' a d < coin_bal s a d) \/
  (exists c, pair_bal s' c a < pair_bal s c a) \/
  (exists c, token_bal s' c a < token_bal s c a).

Lemma enc_inj a b : enc a = enc b -> a = b.
Proof. destruct a, b; cbn [enc]; intros H; try lia; f_equal; lia. Qed.

(** ** the three coinswap messages *)
Lemma cs_debited now cs o cs' r x e :
  params_valid (st_params cs) = true -> Coinswap.exec now cs o = Some (cs', r) ->
  st_bal cs' x e < st_bal cs x e ->
  match o with
  | Sell u _ din _ dout _ _ | Buy u _ din _ dout _ _ =>
      x = User u \/ exists q, pool_of cs din dout = Some q /\ x = Escrow q
  | AddLiq u _ _ _ _ _ => x = User u
  | RemoveLiq u lpt _ _ _ _ => x = User u \/ exists q, lpt = Lpt q /\ x = Escrow q
  | _ => True
  end.
Proof.
  intros HP E Hlt. destruct o; try exact I.
  - cbn [Coinswap.exec] in E. inv. bool_hyps. destruct v as [s2 b]. cbn [fst] in *.
    match goal with HA : trade_sell _ _ _ _ _ _ _ = Some _ |- _ =>
      destruct (trade_sell_effect _ _ _ _ _ _ _ _ _ HA ltac:(lia) HP)
        as (q0 & HQ & _ & _ & _ & _ & Hr0 & _ & _ & _ & _ & HB) end.
    rewrite HB in Hlt. unfold delta in Hlt.
    destruct (at_ x (User sender) e din) eqn:A1; [apply at_true in A1 as [-> _]; left; reflexivity|].
    destruct (at_ x (Escrow q0) e dout) eqn:A2; [apply at_true in A2 as [-> _]; right; eauto|].
    destruct (at_ x (Escrow q0) e din), (at_ x recipient e dout); lia.
  - cbn [Coinswap.exec] in E. inv. bool_hyps. destruct v as [s2 b]. cbn [fst] in *.
    match goal with HA : trade_buy _ _ _ _ _ _ _ = Some _ |- _ =>
      destruct (trade_buy_effect _ _ _ _ _ _ _ _ _ HA ltac:(lia) HP)
        as (q0 & HQ & _ & _ & _ & _ & Hr0 & _ & _ & _ & _ & HB) end.
    rewrite pool_of_sym in HQ.
    rewrite HB in Hlt. unfold delta in Hlt.
    destruct (at_ x (User sender) e din) eqn:A1; [apply at_true in A1 as [-> _]; left; reflexivity|].
    destruct (at_ x (Escrow q0) e dout) eqn:A2; [apply at_true in A2 as [-> _]; right; eauto|].
    destruct (at_ x (Escrow q0) e din), (at_ x recipient e dout); lia.
  - cbn [Coinswap.exec] in E. inv. bool_hyps. destruct tok as [|n|k]; try discriminate. inv.
    destruct v as [s2 mt]. cbn [fst snd] in *.
    match goal with HA : add_liquidity _ _ _ _ _ _ = Some _ |- _ =>
      destruct (add_liquidity_effect _ _ _ _ _ _ _ _ HA HP ltac:(lia) ltac:(lia)) as (_ & _ & HC) end.
    destruct (params_valid_tax _ HP) as (_ & HA0 & _).
    assert (Hsplit : forall q std tk m A tax, 0 <= std -> 0 <= tk -> 0 <= m -> 0 <= tax -> 0 <= A ->
              forall cd, add_bal_eq cs s2 (User sender) q n std tk m cd A tax -> x = User sender).
    { intros q std tk m A tax H1 H2 H3 H4 H5 cd HB. rewrite HB in Hlt. unfold delta in Hlt.
      destruct (at_ x (User sender) e Std) eqn:A1; [apply at_true in A1 as [-> _]; reflexivity|].
      destruct (at_ x (User sender) e (Tok n)) eqn:A2; [apply at_true in A2 as [-> _]; reflexivity|].
      destruct (at_ x (User sender) e cd) eqn:A3; [apply at_true in A3 as [-> _]; reflexivity|].
      destruct (at_ x (Escrow q) e Std), (at_ x (Escrow q) e (Tok n)), (at_ x (User sender) e (Lpt q)),
               (at_ x M_feecollector e cd); lia. }
    destruct HC;
      match goal with HB : add_bal_eq _ _ _ _ _ _ _ _ _ _ _ |- _ =>
        refine (Hsplit _ _ _ _ _ _ _ _ _ _ _ _ HB); lia end.
  - cbn [Coinswap.exec] in E. inv. bool_hyps. destruct lpt as [|n|q]; try discriminate. inv.
    destruct v as [s2 [ps pt]]. cbn [fst snd] in *.
    match goal with HA : remove_liquidity _ _ _ _ _ _ = Some _ |- _ =>
      destruct (remove_liquidity_effect _ _ _ _ _ _ _ _ _ HA ltac:(lia))
        as (tokn & _ & _ & _ & _ & Hps & Hpt & _ & _ & _ & _ & _ & HB) end.
    rewrite HB in Hlt. unfold delta in Hlt.
    destruct (at_ x (User sender) e (Lpt q)) eqn:A1; [apply at_true in A1 as [-> _]; left; reflexivity|].
    destruct (at_ x (Escrow q) e Std) eqn:A2; [apply at_true in A2 as [-> _]; right; eauto|].
    destruct (at_ x (Escrow q) e (Tok tokn)) eqn:A3; [apply at_true in A3 as [-> _]; right; eauto|].
    destruct (at_ x (User sender) e Std), (at_ x (User sender) e (Tok tokn)); lia.
Qed.

(** ** the two conversions (honest token contract) *)
Lemma conv_debited cm b h b' h' cl z :
  Convert.deliver (Convert.honest MZ) MZ cm (b, h) = ((b', h'), cl) ->
  Convert.bal b' z < Convert.bal b z \/ Convert.tbal h' z < Convert.tbal h z ->
  z = MZ \/ z = Convert.m_sender cm.
Proof.
  unfold Convert.deliver.
  destruct (Convert.exec (Convert.honest MZ) MZ cm (b, h)) as [[b1 h1]| |x p] eqn:E; intros H Hlt;
    injection H as <- <- <-; try lia.
  apply ConvertProofs.convert_ok_exact in E.
  destruct E as (Hamt & _ & _ & HB & t0 & t1 & r & logs & _ & HC & _ & _ & _).
  unfold ConvertProofs.bank_exact in HB. unfold ConvertProofs.the_call in HC.
  cbn [Convert.honest Convert.call_mint Convert.call_burn Convert.call_transfer] in HC.
  destruct (Z.eq_dec z MZ) as [|NM]; [left; assumption|].
  destruct (Z.eq_dec z (Convert.m_sender cm)) as [|NS]; [right; assumption|]. exfalso.
  destruct (Convert.m_dir cm), (Convert.m_kind cm).
  - (* coins escrowed, tokens minted *)
    destruct HB as (_ & _ & _ & _ & Hfr). rewrite (Hfr z NS NM) in Hlt.
    unfold Convert.h_mint_as in HC.
    destruct (negb (MZ =? Convert.h_owner h) || (Convert.m_receiver cm =? 0) || Convert.h_paused h); [discriminate|].
    injection HC as <- _ _. cbn [Convert.tbal] in Hlt. unfold Convert.upd in Hlt.
    destruct (z =? Convert.m_receiver cm) eqn:ZR; [apply Z.eqb_eq in ZR; subst z|]; lia.
  - (* coins burnt, tokens released by the module *)
    destruct HB as (_ & _ & Hall). rewrite Hall in Hlt.
    destruct (Z.eqb_spec z (Convert.m_sender cm)) as [|_]; [contradiction|].
    unfold Convert.h_transfer in HC.
    destruct ((MZ =? 0) || (Convert.m_receiver cm =? 0) || Convert.h_paused h || (Convert.tbal h MZ <? Convert.m_amt cm)); [discriminate|].
    injection HC as <- _ _. cbn [Convert.tbal] in Hlt. unfold Convert.upd in Hlt.
    destruct (Z.eqb_spec z MZ) as [|_]; [contradiction|].
    destruct (z =? Convert.m_receiver cm) eqn:ZR; [apply Z.eqb_eq in ZR; subst z|]; try lia.
    destruct (Z.eqb_spec (Convert.m_receiver cm) MZ); [contradiction|]. lia.
  - (* tokens burnt, coins released by the module *)
    destruct HB as ((_ & _ & Hne & _ & Hfr) & NRM).
    unfold Convert.h_burn_as in HC.
    destruct (negb (MZ =? Convert.h_owner h) || (Convert.m_sender cm =? 0) || Convert.h_paused h || (Convert.tbal h (Convert.m_sender cm) <? Convert.m_amt cm)); [discriminate|].
    injection HC as <- _ _. cbn [Convert.tbal] in Hlt. unfold Convert.upd in Hlt.
    destruct (Z.eqb_spec z (Convert.m_sender cm)) as [|_]; [contradiction|].
    destruct (Z.eq_dec z (Convert.m_receiver cm)) as [->|NR].
    + destruct (Hne (not_eq_sym NRM)) as [_ X]. lia.
    + rewrite (Hfr z NM NR) in Hlt. lia.
  - (* tokens taken by the module, coins minted *)
    destruct HB as (_ & Hall). rewrite Hall in Hlt.
    unfold Convert.h_transfer in HC.
    destruct ((Convert.m_sender cm =? 0) || (MZ =? 0) || Convert.h_paused h || (Convert.tbal h (Convert.m_sender cm) <? Convert.m_amt cm)); [discriminate|].
    injection HC as <- _ _. cbn [Convert.tbal] in Hlt. unfold Convert.upd in Hlt.
    destruct (Z.eqb_spec z MZ) as [|_]; [contradiction|].
    destruct (Z.eqb_spec z (Convert.m_sender cm)) as [|_]; [contradiction|].
    destruct (z =? Convert.m_receiver cm); lia.
Qed.

(** ** the theorem *)
Lemma in_signers_intro m a l : signers m = Some l -> In a l -> in_signers m a = true.
Proof.
  intros H HI. unfold in_signers. rewrite H. apply existsb_exists. exists a. split; [exact HI|apply acct_eqb_refl].
Qed.
Lemma in_signers_elim m a : in_signers m a = true -> exists l, signers m = Some l /\ In a l.
Proof.
  unfold in_signers. destruct (signers m) as [l|]; [|discriminate]. intros H.
  apply existsb_exists in H as (b & HI & E). destruct (acct_eqb_spec a b); [subst; eauto|discriminate].
Qed.

Theorem only_signers_debited now s m a :
  params_valid (st_params (s_cs s)) = true ->
  debited s (fst (deliver now s m)) a ->
  is_counterparty s m a = true \/ in_signers m a = true.
Proof.
  intros HP HD. unfold deliver in HD.
  destruct (is_conversion m) eqn:IC.
  - (* conversions *)
    destruct (to_conv s m) as [[c cm]|] eqn:TC; cbn [fst] in HD.
    2:{ destruct HD as [[d H]|[[c H]|[c H]]]; lia. }
    destruct (s_pair s c) as [b h] eqn:SP.
    destruct (Convert.deliver (Convert.honest MZ) MZ cm (b, h)) as [[b' h'] cl] eqn:DV. cbn [fst] in HD.
    assert (Hz : enc a = MZ \/ enc a = Convert.m_sender cm).
    { apply (conv_debited _ _ _ _ _ _ _ DV).
      destruct HD as [[d H]|[[c0 H]|[c0 H]]].
      - unfold coin_bal, set_pair in H. cbn [s_cs] in H. lia.
      - unfold pair_bal, set_pair in H. cbn [s_pair] in H. destruct (c0 =? c) eqn:C0.
        + apply Z.eqb_eq in C0. subst c0. rewrite SP in H. cbn [fst] in H. left. exact H.
        + lia.
      - unfold token_bal, set_pair in H. cbn [s_pair] in H. destruct (c0 =? c) eqn:C0.
        + apply Z.eqb_eq in C0. subst c0. rewrite SP in H. cbn [snd] in H. right. exact H.
        + lia. }
    destruct Hz as [Hz|Hz].
    + left. apply enc_inj in Hz. subst a. destruct m; try discriminate; reflexivity.
    + right. destruct m; try discriminate; cbn [to_conv] in TC.
      * unfold dec_bech in TC. cbn [tx_pres tx_addr] in TC.
        destruct (bech_ok ppres) eqn:BP; cbn [obind] in TC; [|discriminate].
        destruct (dec_hex rcpt); cbn [obind] in TC; [|discriminate].
        injection TC as _ <-. change (enc a = enc (User payer)) in Hz. apply enc_inj in Hz. subst a.
        eapply in_signers_intro; [apply signers_exact; exact BP|left; reflexivity].
      * destruct (hex_ok cpres); [|discriminate]. destruct (dec_bech rcpt); cbn [obind] in TC; [|discriminate].
        destruct (is_hex (mkText ppres (User payer))); [|discriminate].
        injection TC as _ <-. change (enc a = enc (hex_lenient (mkText ppres (User payer)) junk)) in Hz.
        apply enc_inj in Hz. subst a.
        eapply in_signers_intro; [reflexivity|left; reflexivity].
  - (* coinswap messages *)
    destruct (to_op m) as [o|] eqn:TO; cbn [fst] in HD.
    2:{ destruct HD as [[d H]|[[c H]|[c H]]]; lia. }
    unfold Coinswap.deliver in HD.
    destruct (Coinswap.exec now (s_cs s) o) as [[cs' r]|] eqn:EX; cbn [fst] in HD.
    2:{ destruct HD as [[d H]|[[c H]|[c H]]]; lia. }
    destruct HD as [[d H]|[[c H]|[c H]]];
      [|unfold pair_bal, set_cs in H; cbn [s_pair] in H; lia|unfold token_bal, set_cs in H; cbn [s_pair] in H; lia].
    unfold coin_bal, set_cs in H. cbn [s_cs] in H.
    pose proof (cs_debited _ _ _ _ _ _ _ HP EX H) as HC.
    destruct m; try discriminate; cbn [to_op] in TO.
    + destruct (bech_ok ppres) eqn:BP; [|discriminate]. destruct (dec_bech rcpt); cbn [obind] in TO; [|discriminate].
      assert (HC' : a = User payer \/ exists q, pool_of (s_cs s) din dout = Some q /\ a = Escrow q).
      { destruct is_buy; injection TO as <-; exact HC. }
      destruct HC' as [->|(q & HQ & ->)].
      * right. eapply in_signers_intro; [apply signers_exact; exact BP|left; reflexivity].
      * left. cbn [is_counterparty]. rewrite HQ. apply acct_eqb_refl.
    + destruct (bech_ok ppres) eqn:BP; [|discriminate]. injection TO as <-. subst a.
      right. eapply in_signers_intro; [apply signers_exact; exact BP|left; reflexivity].
    + destruct (bech_ok ppres) eqn:BP; [|discriminate]. injection TO as <-.
      destruct HC as [->|(q & -> & ->)].
      * right. eapply in_signers_intro; [apply signers_exact; exact BP|left; reflexivity].
      * left. cbn [is_counterparty]. apply acct_eqb_refl.
Qed.

(* the same, spelled with the signer list *)
Corollary only_signers_debited_list now s m a s' cl :
  params_valid (st_params (s_cs s)) = true ->
  deliver now s m = (s', cl) -> debited s s' a ->
  is_counterparty s m a = true \/ exists l, signers m = Some l /\ In a l.
Proof.
  intros HP HD Hdeb. replace s' with (fst (deliver now s m)) in Hdeb by (rewrite HD; reflexivity).
  destruct (only_signers_debited _ _ _ _ HP Hdeb) as [H|H]; [left; exact H|right; apply in_signers_elim; exact H].
Qed.

(* for a well-formed message: the pool reserve / module account, or the paying account named in the message *)
Corollary only_named_payer_debited now s m a :
  params_valid (st_params (s_cs s)) = true -> payer_wf m = true ->
  debited s (fst (deliver now s m)) a ->
  is_counterparty s m a = true \/ a = payer_of m.
Proof.
  intros HP W HD. destruct (only_signers_debited _ _ _ _ HP HD) as [H|H]; [left; exact H|right].
  apply in_signers_elim in H as (l & HS & HI). rewrite (signers_exact _ W) in HS. injection HS as <-.
  destruct HI as [<-|[]]. reflexivity.
Qed.

(* a message that is not executed debits nobody *)
Lemma not_ok_no_debit now s m a : snd (deliver now s m) <> COk -> ~ debited s (fst (deliver now s m)) a.
Proof.
  unfold deliver. destruct (is_conversion m).
  - destruct (to_conv s m) as [[c cm]|]; cbn [fst snd].
    2:{ intros _ [[d H]|[[c H]|[c H]]]; lia. }
    destruct (s_pair s c) as [b h] eqn:SP. unfold Convert.deliver.
    destruct (Convert.exec (Convert.honest MZ) MZ cm (b, h)) as [[b1 h1]| |x p]; cbn [fst snd class_of]; intros H.
    + contradiction.
    + intros [[d HD]|[[c0 HD]|[c0 HD]]].
      * unfold coin_bal, set_pair in HD. cbn [s_cs] in HD. lia.
      * unfold pair_bal, set_pair in HD. cbn [s_pair] in HD. destruct (c0 =? c) eqn:C0; [|lia].
        apply Z.eqb_eq in C0. subst c0. rewrite SP in HD. cbn [fst] in HD. lia.
      * unfold token_bal, set_pair in HD. cbn [s_pair] in HD. destruct (c0 =? c) eqn:C0; [|lia].
        apply Z.eqb_eq in C0. subst c0. rewrite SP in HD. cbn [snd] in HD. lia.
    + intros [[d HD]|[[c0 HD]|[c0 HD]]].
      * unfold coin_bal, set_pair in HD. cbn [s_cs] in HD. lia.
      * unfold pair_bal, set_pair in HD. cbn [s_pair] in HD. destruct (c0 =? c) eqn:C0; [|lia].
        apply Z.eqb_eq in C0. subst c0. rewrite SP in HD. cbn [fst] in HD. lia.
      * unfold token_bal, set_pair in HD. cbn [s_pair] in HD. destruct (c0 =? c) eqn:C0; [|lia].
        apply Z.eqb_eq in C0. subst c0. rewrite SP in HD. cbn [snd] in HD. lia.
  - destruct (to_op m) as [o|]; cbn [fst snd].
    2:{ intros _ [[d H]|[[c H]|[c H]]]; lia. }
    destruct (Coinswap.deliver now (s_cs s) o) as [cs [r|]]; cbn [fst snd]; intros H; [contradiction|].
    intros [[d HD]|[[c HD]|[c HD]]]; lia.
Qed.

(** * Part 3: histories *)

(* user messages never change the coinswap parameters *)
Lemma deliver_params now s m :
  params_valid (st_params (s_cs s)) = true ->
  st_params (s_cs (fst (deliver now s m))) = st_params (s_cs s).
Proof.
  intros HP. unfold deliver. destruct (is_conversion m).
  - destruct (to_conv s m) as [[c cm]|]; [|reflexivity].
    destruct (Convert.deliver (Convert.honest MZ) MZ cm (s_pair s c)) as [ps cl]. reflexivity.
  - destruct (to_op m) as [o|] eqn:TO; [|reflexivity].
    unfold Coinswap.deliver. destruct (Coinswap.exec now (s_cs s) o) as [[cs' r]|] eqn:EX; [|reflexivity].
    cbn [fst set_cs s_cs].
    destruct m; try discriminate; cbn [to_op] in TO.
    + destruct (bech_ok ppres); [|discriminate]. destruct (dec_bech rcpt); cbn [obind] in TO; [|discriminate].
      destruct is_buy; injection TO as <-; cbn [Coinswap.exec] in EX; inv; bool_hyps; destruct v as [s2 b]; cbn [fst] in *.
      * match goal with HA : trade_buy _ _ _ _ _ _ _ = Some _ |- _ =>
          destruct (trade_buy_effect _ _ _ _ _ _ _ _ _ HA ltac:(lia) HP) as (q0 & _ & _ & _ & _ & _ & _ & _ & _ & [M1 _ _] & _) end.
        exact M1.
      * match goal with HA : trade_sell _ _ _ _ _ _ _ = Some _ |- _ =>
          destruct (trade_sell_effect _ _ _ _ _ _ _ _ _ HA ltac:(lia) HP) as (q0 & _ & _ & _ & _ & _ & _ & _ & _ & [M1 _ _] & _) end.
        exact M1.
    + destruct (bech_ok ppres); [|discriminate]. injection TO as <-. cbn [Coinswap.exec] in EX. inv. bool_hyps.
      destruct tok as [|n|k]; try discriminate. inv. destruct v as [s2 mt]. cbn [fst] in *.
      match goal with HA : add_liquidity _ _ _ _ _ _ = Some _ |- _ =>
        destruct (add_liquidity_effect _ _ _ _ _ _ _ _ HA HP ltac:(lia) ltac:(lia)) as (_ & M1 & _) end.
      exact M1.
    + destruct (bech_ok ppres); [|discriminate]. injection TO as <-. cbn [Coinswap.exec] in EX. inv. bool_hyps.
      destruct lpt as [|n|q]; try discriminate. inv. destruct v as [s2 [ps pt]]. cbn [fst] in *.
      match goal with HA : remove_liquidity _ _ _ _ _ _ = Some _ |- _ =>
        destruct (remove_liquidity_effect _ _ _ _ _ _ _ _ _ HA ltac:(lia)) as (tokn & _ & _ & _ & _ & _ & _ & _ & _ & _ & [M1 _ _] & _) end.
      exact M1.
Qed.

(* the steps of a history: (state before, message, state after) *)
Fixpoint trace (h : list (Z * msg)) (s : state) : list (state * msg * state) :=
  match h with
  | [] => []
  | (now, m) :: r => let s' := fst (deliver now s m) in (s, m, s') :: trace r s'
  end.

Definition step_ok (t : state * msg * state) : Prop :=
  let '(pre, m, post) := t in
  forall a, debited pre post a -> is_counterparty pre m a = true \/ in_signers m a = true.

Theorem history_only_signers_debited h : forall s,
  params_valid (st_params (s_cs s)) = true -> Forall step_ok (trace h s).
Proof.
  induction h as [|[now m] r IH]; intros s HP; cbn [trace]; constructor.
  - intros a HD. exact (only_signers_debited _ _ _ _ HP HD).
  - apply IH. rewrite deliver_params; assumption.
Qed.

(* [trace] really is the history executed by [run] *)
Fixpoint final (l : list (state * msg * state)) (s : state) : state :=
  match l with [] => s | (_, _, post) :: r => final r post end.
Lemma trace_run h : forall s, final (trace h s) s = run h s.
Proof. induction h as [|[now m] r IH]; intros s; cbn [trace run final]; [reflexivity|apply IH]. Qed.

(** * Examples (non-vacuity and sharpness) *)

(* pair 1: module-owned; pair 2: external *)
Definition ex_bank1 : Convert.bank :=
  Convert.mkBank (fun z => if z =? enc (User 5) then 100 else if z =? MZ then 5 else 0) 105.
Definition ex_tok1 : Convert.hledger :=
  Convert.mkH (fun z => if z =? enc (User 6) then 7 else 0) 7 MZ false.
Definition ex_bank2 : Convert.bank :=
  Convert.mkBank (fun z => if z =? enc (User 5) then 40 else 0) 40.
Definition ex_tok2 : Convert.hledger :=
  Convert.mkH (fun z => if z =? enc (User 6) then 50 else if z =? MZ then 54 else 0) 104 (enc (User 1234)) false.
Definition ex_s : state :=
  mkS ex_state (fun c => if c =? 1 then Convert.NativeCoin else Convert.NativeERC20)
      (fun c => if c =? 1 then (ex_bank1, ex_tok1) else (ex_bank2, ex_tok2)).

Lemma ex_s_params : params_valid (st_params (s_cs ex_s)) = true.
Proof. vm_compute. reflexivity. Qed.

(* a sell order written with an upper-case input address, paying out to ANOTHER account:
   the payer (= the derived signer) and the pool reserve are debited, the recipient is credited *)
Definition ex_swap : msg := MSwapOrder 0 PBechUpper (mkText PBech (User 7)) false Std 100 (Tok 0) 1 5.
Example swap_example :
  let s' := fst (deliver 1 ex_s ex_swap) in
  snd (deliver 1 ex_s ex_swap) = COk /\ wf ex_swap = true /\
  signers ex_swap = Some [User 0] /\
  coin_bal s' (User 0) Std = coin_bal ex_s (User 0) Std - 100 /\
  coin_bal s' (Escrow 1) (Tok 0) < coin_bal ex_s (Escrow 1) (Tok 0) /\
  coin_bal ex_s (User 7) (Tok 0) < coin_bal s' (User 7) (Tok 0) /\
  debited ex_s s' (User 0) /\ debited ex_s s' (Escrow 1) /\
  is_counterparty ex_s ex_swap (Escrow 1) = true /\ in_signers ex_swap (Escrow 1) = false /\
  is_counterparty ex_s ex_swap (User 0) = false /\ in_signers ex_swap (User 0) = true.
Proof.
  cbv zeta. repeat split; try (vm_compute; reflexivity).
  - left. exists Std. vm_compute. reflexivity.
  - left. exists (Tok 0). vm_compute. reflexivity.
Qed.

(* recipient = the pool's own reserve: still only the payer pays *)
Example swap_to_reserve_example :
  let m := MSwapOrder 0 PBech (mkText PBechUpper (Escrow 1)) true Std 500 (Tok 0) 10 5 in
  let s' := fst (deliver 1 ex_s m) in
  snd (deliver 1 ex_s m) = COk /\ signers m = Some [User 0] /\
  coin_bal s' (User 0) Std < coin_bal ex_s (User 0) Std /\
  coin_bal s' (Escrow 1) (Tok 0) = coin_bal ex_s (Escrow 1) (Tok 0).
Proof. cbv zeta. repeat split; vm_compute; reflexivity. Qed.

(* withdrawal: the provider's pool tokens are burnt, the reserve pays out *)
Example remove_example :
  let m := MRemoveLiquidity 0 PBechUpper (Lpt 1) 100 0 0 5 in
  let s' := fst (deliver 1 ex_s m) in
  snd (deliver 1 ex_s m) = COk /\ signers m = Some [User 0] /\
  coin_bal s' (User 0) (Lpt 1) = coin_bal ex_s (User 0) (Lpt 1) - 100 /\
  coin_bal s' (Escrow 1) Std < coin_bal ex_s (Escrow 1) Std.
Proof. cbv zeta. repeat split; vm_compute; reflexivity. Qed.

Example add_example :
  let m := MAddLiquidity 0 PBech (Tok 0) 400 100 0 5 in
  let s' := fst (deliver 1 ex_s m) in
  snd (deliver 1 ex_s m) = COk /\ signers m = Some [User 0] /\
  coin_bal s' (User 0) Std = coin_bal ex_s (User 0) Std - 100 /\
  coin_bal s' (User 0) (Tok 0) < coin_bal ex_s (User 0) (Tok 0) /\
  coin_bal ex_s (Escrow 1) Std < coin_bal s' (Escrow 1) Std.
Proof. cbv zeta. repeat split; vm_compute; reflexivity. Qed.

(* coins -> tokens on the module-owned pair, receiver (EIP-55 hex) different from the sender *)
Example convert_coin_example :
  let m := MConvertCoin 5 PBechUpper (mkText PHexEip55 (User 6)) 1 30 true true in
  let s' := fst (deliver 1 ex_s m) in
  snd (deliver 1 ex_s m) = COk /\ wf m = true /\ signers m = Some [User 5] /\
  pair_bal s' 1 (User 5) = pair_bal ex_s 1 (User 5) - 30 /\
  token_bal s' 1 (User 6) = token_bal ex_s 1 (User 6) + 30 /\
  debited ex_s s' (User 5).
Proof.
  cbv zeta. repeat split; try (vm_compute; reflexivity).
  right. left. exists 1. vm_compute. reflexivity.
Qed.

(* coins -> tokens on the external pair: the MODULE's token balance decreases (the counterparty) *)
Example convert_coin_external_example :
  let m := MConvertCoin 5 PBech (mkText PHexBare (User 6)) 2 30 true true in
  let s' := fst (deliver 1 ex_s m) in
  snd (deliver 1 ex_s m) = COk /\
  pair_bal s' 2 (User 5) = 10 /\ token_bal s' 2 M_erc20 = 24 /\ token_bal s' 2 (User 6) = 80 /\
  debited ex_s s' M_erc20 /\ in_signers m M_erc20 = false /\ is_counterparty ex_s m M_erc20 = true.
Proof.
  cbv zeta. repeat split; try (vm_compute; reflexivity).
  right. right. exists 2. vm_compute. reflexivity.
Qed.

(* tokens -> coins, hex sender in three spellings, bech32 receiver different from the sender *)
Example convert_erc20_example :
  forall pp, In pp [PHex0x; PHexBare; PHexEip55; PHexUpper] ->
  let m := MConvertERC20 6 pp (User 99) (mkText PBech (User 5)) 2 PHexEip55 20 true true in
  let s' := fst (deliver 1 ex_s m) in
  snd (deliver 1 ex_s m) = COk /\ signers m = Some [User 6] /\
  token_bal s' 2 (User 6) = 30 /\ token_bal s' 2 M_erc20 = 74 /\ pair_bal s' 2 (User 5) = 60.
Proof.
  intros pp [<-|[<-|[<-|[<-|[]]]]]; cbv zeta; repeat split; vm_compute; reflexivity.
Qed.

(* malformed paying fields: nothing is executed; a bech32 field yields no signer at all, the
   hex sender of MsgConvertERC20 yields whatever HexToAddress reads out of the string *)
Example malformed_examples :
  deliver 1 ex_s (MSwapOrder 0 PHex0x (mkText PBech (User 7)) false Std 100 (Tok 0) 1 5) = (ex_s, CRejected) /\
  signers (MSwapOrder 0 PHex0x (mkText PBech (User 7)) false Std 100 (Tok 0) 1 5) = None /\
  deliver 1 ex_s (MConvertERC20 6 PBech (User 202) (mkText PBech (User 5)) 2 PHex0x 20 true true) = (ex_s, CRejected) /\
  signers (MConvertERC20 6 PBech (User 202) (mkText PBech (User 5)) 2 PHex0x 20 true true) = Some [User 202].
Proof. repeat split. Qed.

(* sharpness: the exceptions of the theorem are needed (the reserve and the module account ARE
   debited without being signers), and reading the signer from the OUTPUT address would break it *)
Example exceptions_needed :
  (exists a, debited ex_s (fst (deliver 1 ex_s ex_swap)) a /\ in_signers ex_swap a = false) /\
  (debited ex_s (fst (deliver 1 ex_s ex_swap)) (User 0) /\ User 0 <> User 7).
Proof.
  split.
  - exists (Escrow 1). split; [left; exists (Tok 0); vm_compute; reflexivity|reflexivity].
  - split; [left; exists Std; vm_compute; reflexivity|discriminate].
Qed.

Example history_example :
  let h := [(1, ex_swap); (2, MConvertCoin 5 PBech (mkText PHex0x (User 6)) 1 30 true true);
            (3, MRemoveLiquidity 0 PBech (Lpt 1) 100 0 0 5)] in
  Forall step_ok (trace h ex_s) /\ length (trace h ex_s) = 3%nat /\
  coin_bal (run h ex_s) (User 0) (Lpt 1) = 900 /\ pair_bal (run h ex_s) 1 (User 5) = 70.
Proof.
  cbv zeta. split; [apply history_only_signers_debited; exact ex_s_params|].
  repeat split; vm_compute; reflexivity.
Qed.

(** * The checker's monitor is the boolean form of the theorem

    [SignersCheck.mon_only_signers] (evaluated by the correspondence check on the
    IMPLEMENTATION's states) holds of every transition of the model, whatever
    universe of accounts, denominations and pairs is tracked: a monitor failure
    on observed states is therefore a behaviour the model cannot show. *)
From Canto Require Check.SignersCheck.

Theorem monitor_sound now s m accts denoms pairs :
  params_valid (st_params (s_cs s)) = true ->
  SignersCheck.mon_only_signers accts denoms pairs s (fst (deliver now s m)) m (signers m) = true.
Proof.
  intros HP. unfold SignersCheck.mon_only_signers. apply forallb_forall. intros x _.
  destruct (SignersCheck.lost denoms pairs s (fst (deliver now s m)) x) eqn:HL; [|reflexivity].
  cbn [negb orb].
  assert (HD : debited s (fst (deliver now s m)) x).
  { unfold SignersCheck.lost in HL. apply orb_prop in HL as [HL|HL]; apply existsb_exists in HL as (k & _ & HK).
    - left. exists k. apply Z.ltb_lt. exact HK.
    - apply orb_prop in HK as [HK|HK]; [right; left|right; right]; exists k; apply Z.ltb_lt; exact HK. }
  destruct (only_signers_debited _ _ _ _ HP HD) as [H|H].
  - rewrite H. reflexivity.
  - unfold in_signers in H. rewrite H. apply orb_true_r.
Qed.

Theorem monitor_exact_sound m : SignersCheck.mon_exact_signer m (signers m) = true.
Proof.
  unfold SignersCheck.mon_exact_signer. destruct (payer_wf m) eqn:W; [|reflexivity]. cbn [negb orb].
  rewrite (signers_exact _ W). cbn. rewrite acct_eqb_refl. reflexivity.
Qed.
