(** Proofs about the conversion paths (property C04). *)
From Coq Require Import ZArith List Bool Lia.
From Canto Require Import Model.Convert.
Import ListNotations.
Open Scope Z_scope.

(** * Bank ledger *)

(* exactly [amt] moved from [from] to [to]; nothing else changed *)
Definition moved (b b' : bank) (from to : account) (amt : Z) : Prop :=
  amt <= bal b from /\ supply b' = supply b /\
  (from <> to -> bal b' from = bal b from - amt /\ bal b' to = bal b to + amt) /\
  (from = to -> bal b' from = bal b from) /\
  (forall a, a <> from -> a <> to -> bal b' a = bal b a).

Lemma upd_same f a v : upd f a v a = v.
Proof. unfold upd. rewrite Z.eqb_refl. reflexivity. Qed.
Lemma upd_other f a v x : x <> a -> upd f a v x = f x.
Proof. intros H. unfold upd. destruct (Z.eqb_spec x a); [contradiction|reflexivity]. Qed.

Lemma bank_send_moved from to amt b b' :
  bank_send from to amt b = Some b' -> moved b b' from to amt.
Proof.
  unfold bank_send, moved. destruct (Z.ltb_spec (bal b from) amt) as [L|L]; [discriminate|].
  intros H. injection H as <-. cbn [bal supply].
  split; [lia|]. split; [reflexivity|]. split; [|split].
  - intros Hn. rewrite (upd_other _ to _ from Hn), upd_same, upd_same.
    rewrite (upd_other _ from _ to) by congruence. split; reflexivity.
  - intros <-. rewrite !upd_same. lia.
  - intros a Ha Hb. rewrite !upd_other by assumption. reflexivity.
Qed.

Lemma bank_send_some from to amt b :
  amt <= bal b from -> exists b', bank_send from to amt b = Some b'.
Proof.
  intros H. unfold bank_send. destruct (Z.ltb_spec (bal b from) amt); [lia|]. eauto.
Qed.

(** * monitorApprovalEvent *)
Lemma monitor_clean ls : monitor ls = ScanClean <-> Forall (fun l => l = LogOther) ls.
Proof.
  induction ls as [|l r IH]; cbn [monitor].
  - split; [constructor|reflexivity].
  - destruct l; (split; [try discriminate|]).
    + intros H. inversion H; discriminate.
    + intros H. inversion H; discriminate.
    + intros H. constructor; [reflexivity|apply IH; exact H].
    + intros H. inversion H; subst. apply IH. assumption.
Qed.

Lemma monitor_approval ls : In LogApproval ls -> monitor ls <> ScanClean.
Proof.
  intros HI HC. apply monitor_clean in HC. rewrite Forall_forall in HC.
  specialize (HC _ HI). discriminate.
Qed.
Lemma monitor_no_topics ls : In LogNoTopics ls -> monitor ls <> ScanClean.
Proof.
  intros HI HC. apply monitor_clean in HC. rewrite Forall_forall in HC.
  specialize (HC _ HI). discriminate.
Qed.

(** * Exactness of every path, for every EVM *)
Section Exact.
  Variable E : evm_model.
  Variable M : account.

  (* what the module saw on the token side of a successful path *)
  Definition token_view (e e' : evm E) (c : contract) (who : account)
             (call : reply (evm E)) (delta : Z) (transfer : bool) : Prop :=
    exists t0 t1 r logs,
      call_balance_of E e c who = Some t0 /\
      call = Some (e', r, logs) /\
      call_balance_of E e' c who = Some t1 /\
      t1 = t0 + delta /\
      (transfer = true -> r = RetTrue /\ monitor logs = ScanClean).

  Ltac crack :=
    repeat match goal with
           | H : context [match ?x with _ => _ end] |- _ =>
               match type of x with
               | sumbool _ _ => fail 1
               | _ => destruct x eqn:?; try discriminate
               end
           | H : negb _ = false |- _ => apply negb_false_iff in H
           | H : (_ =? _) = true |- _ => apply Z.eqb_eq in H
           | p : (_ * _)%type |- _ => destruct p
           end.

  Lemma coin_native_coin_exact c S R amt b e b' e' :
    convert_coin_native_coin E M c S R amt (b, e) = Ok (b', e') ->
    moved b b' S M amt /\
    token_view e e' c R (call_mint E e c R amt) amt false.
  Proof.
    unfold convert_coin_native_coin. intros H. crack.
    injection H as <- <-. split.
    - apply bank_send_moved. assumption.
    - exists z, z0, r, l. repeat split; try assumption; try discriminate.
  Qed.

  Lemma erc20_native_coin_exact c S R amt b e b' e' :
    convert_erc20_native_coin E M c S R amt (b, e) = Ok (b', e') ->
    moved b b' M R amt /\ bal b' R = bal b R + amt /\
    token_view e e' c S (call_burn E e c S amt) (- amt) false.
  Proof.
    unfold convert_erc20_native_coin. intros H. crack.
    injection H as <- <-. split; [|split].
    - apply bank_send_moved. assumption.
    - assumption.
    - exists z, z0, r, l. repeat split; try assumption; try discriminate; try lia.
  Qed.

  Lemma erc20_native_erc20_exact c S R amt b e b' e' :
    convert_erc20_native_erc20 E M c S R amt (b, e) = Ok (b', e') ->
    supply b' = supply b + amt /\
    (forall a, bal b' a = if a =? R then bal b a + amt else bal b a) /\
    token_view e e' c M (call_transfer E e c S M amt) amt true.
  Proof.
    unfold convert_erc20_native_erc20. intros H. crack.
    injection H as <- <-.
    unfold bank_mint in *.
    match goal with H : Some _ = Some _ |- _ => injection H as <- end.
    match goal with H : bank_send _ _ _ _ = Some _ |- _ => apply bank_send_moved in H; destruct H as (_ & Hs & Hne & Heq & Hfr) end.
    cbn [bal supply] in *.
    split; [exact Hs|]. split.
    - intros a. destruct (Z.eqb_spec a R) as [->|Na].
      + match goal with H : bal _ R = _ |- _ => exact H end.
      + destruct (Z.eqb_spec a M) as [->|Nm].
        * destruct (Z.eq_dec M R) as [Eq|Ne]; [congruence|].
          destruct (Hne Ne) as [X _]. rewrite X, upd_same. lia.
        * rewrite Hfr by assumption. apply upd_other. assumption.
    - exists z, z0, RetTrue, l. repeat split; try assumption.
  Qed.

  Lemma coin_native_erc20_exact c S R amt b e b' e' :
    convert_coin_native_erc20 E M c S R amt (b, e) = Ok (b', e') ->
    amt <= bal b S /\ supply b' = supply b - amt /\
    (forall a, bal b' a = if a =? S then bal b a - amt else bal b a) /\
    token_view e e' c R (call_transfer E e c M R amt) amt true.
  Proof.
    unfold convert_coin_native_erc20. intros H. crack.
    injection H as <- <-.
    match goal with H : bank_send _ _ _ _ = Some _ |- _ => apply bank_send_moved in H; destruct H as (Hle & Hs & Hne & Heq & Hfr) end.
    unfold bank_burn in *.
    match goal with H : (if ?c then _ else _) = Some _ |- _ => destruct c eqn:Hlt; [discriminate|injection H as <-] end.
    cbn [bal supply].
    split; [exact Hle|]. split; [lia|]. split.
    - intros a. destruct (Z.eqb_spec a S) as [->|Na].
      + destruct (Z.eq_dec S M) as [->|Ne].
        * rewrite upd_same. rewrite (Heq eq_refl). reflexivity.
        * rewrite upd_other by assumption. apply (Hne Ne).
      + destruct (Z.eq_dec a M) as [->|Nm].
        * rewrite upd_same. assert (Ne : S <> M) by congruence.
          destruct (Hne Ne) as [_ X]. lia.
        * rewrite upd_other by assumption. apply Hfr; assumption.
    - exists z, z0, RetTrue, l. repeat split; try assumption.
  Qed.
End Exact.

(** * The two messages: exactness in the words of the property *)

(* whose token balance the path compares before and after *)
Definition checked (M : account) (m : msg) : account :=
  match m_dir m, m_kind m with
  | CoinToToken, _ => m_receiver m            (* the receiver of the tokens *)
  | TokenToCoin, NativeCoin => m_sender m     (* the holder whose tokens are burnt *)
  | TokenToCoin, NativeERC20 => M             (* the module's escrow balance, NOT the sender's *)
  end.

Definition token_delta (m : msg) : Z :=
  match m_dir m, m_kind m with
  | TokenToCoin, NativeCoin => - m_amt m
  | _, _ => m_amt m
  end.

(* the committing call of the path *)
Definition the_call (E : evm_model) (M : account) (m : msg) (e : evm E) : reply (evm E) :=
  match m_dir m, m_kind m with
  | CoinToToken, NativeCoin => call_mint E e (m_contract m) (m_receiver m) (m_amt m)
  | CoinToToken, NativeERC20 => call_transfer E e (m_contract m) M (m_receiver m) (m_amt m)
  | TokenToCoin, NativeCoin => call_burn E e (m_contract m) (m_sender m) (m_amt m)
  | TokenToCoin, NativeERC20 => call_transfer E e (m_contract m) (m_sender m) M (m_amt m)
  end.

Definition uses_transfer (m : msg) : bool :=
  match m_kind m with NativeERC20 => true | NativeCoin => false end.

(* the bank side of a successful conversion *)
Definition bank_exact (M : account) (m : msg) (b b' : bank) : Prop :=
  match m_dir m, m_kind m with
  | CoinToToken, NativeCoin =>       (* sender -amt, escrow +amt, supply unchanged *)
      moved b b' (m_sender m) M (m_amt m)
  | CoinToToken, NativeERC20 =>      (* sender -amt, the coins are burnt *)
      m_amt m <= bal b (m_sender m) /\ supply b' = supply b - m_amt m /\
      (forall a, bal b' a = if a =? m_sender m then bal b a - m_amt m else bal b a)
  | TokenToCoin, NativeCoin =>       (* escrow -amt, receiver +amt, supply unchanged *)
      moved b b' M (m_receiver m) (m_amt m) /\ m_receiver m <> M
  | TokenToCoin, NativeERC20 =>      (* fresh coins: receiver +amt, supply +amt *)
      supply b' = supply b + m_amt m /\
      (forall a, bal b' a = if a =? m_receiver m then bal b a + m_amt m else bal b a)
  end.

Theorem convert_ok_exact E M m b e b' e' :
  exec E M m (b, e) = Done (b', e') ->
  0 < m_amt m /\ m_gate m = true /\ m_has_code m = true /\
  bank_exact M m b b' /\
  exists t0 t1 r logs,
    call_balance_of E e (m_contract m) (checked M m) = Some t0 /\
    the_call E M m e = Some (e', r, logs) /\
    call_balance_of E e' (m_contract m) (checked M m) = Some t1 /\
    t1 = t0 + token_delta m /\
    (uses_transfer m = true -> r = RetTrue /\ Forall (fun l => l = LogOther) logs).
Proof.
  unfold exec. destruct (Z.leb_spec (m_amt m) 0) as [L|L]; [discriminate|].
  destruct (m_gate m) eqn:G; cbn [negb]; [|discriminate].
  destruct (m_has_code m) eqn:C; cbn [negb]; [|discriminate].
  destruct (path E M m (b, e)) as [s'|x p] eqn:P; [|discriminate].
  intros H. injection H as ->.
  split; [exact L|]. split; [reflexivity|]. split; [reflexivity|].
  unfold path in P. unfold bank_exact, checked, token_delta, the_call, uses_transfer.
  destruct (m_dir m), (m_kind m).
  - apply coin_native_coin_exact in P. destruct P as (Hb & t0 & t1 & r & l & A1 & A2 & A3 & A4 & A5).
    split; [exact Hb|]. exists t0, t1, r, l. repeat split; try assumption; discriminate.
  - apply coin_native_erc20_exact in P. destruct P as (H1 & H2 & H3 & t0 & t1 & r & l & A1 & A2 & A3 & A4 & A5).
    split; [auto|]. exists t0, t1, r, l. repeat split; try assumption.
    + apply A5. reflexivity.
    + apply monitor_clean. apply A5. reflexivity.
  - apply erc20_native_coin_exact in P. destruct P as (H1 & H2 & t0 & t1 & r & l & A1 & A2 & A3 & A4 & A5).
    split.
    + split; [exact H1|]. intros Eq. destruct H1 as (_ & _ & _ & Hs & _).
      rewrite Eq in H2. specialize (Hs (eq_sym Eq)). lia.
    + exists t0, t1, r, l. repeat split; try assumption; discriminate.
  - apply erc20_native_erc20_exact in P. destruct P as (H1 & H2 & t0 & t1 & r & l & A1 & A2 & A3 & A4 & A5).
    split; [auto|]. exists t0, t1, r, l. repeat split; try assumption.
    + apply A5. reflexivity.
    + apply monitor_clean. apply A5. reflexivity.
Qed.

(* the handler including a MsgConvertCoin that spells its denomination like the
   pair's contract address (see [exec_named]): exactness needs no precondition
   on the denomination any more - such a message is refused *)
Theorem convert_ok_exact_named E M own m other b e b' e' other' :
  exec_named E M own m other (b, e) = (Done (b', e'), other') ->
  other' = other /\
  0 < m_amt m /\ m_gate m = true /\ m_has_code m = true /\
  bank_exact M m b b' /\
  exists t0 t1 r logs,
    call_balance_of E e (m_contract m) (checked M m) = Some t0 /\
    the_call E M m e = Some (e', r, logs) /\
    call_balance_of E e' (m_contract m) (checked M m) = Some t1 /\
    t1 = t0 + token_delta m /\
    (uses_transfer m = true -> r = RetTrue /\ Forall (fun l => l = LogOther) logs).
Proof.
  unfold exec_named.
  destruct (m_dir m) eqn:D.
  - destruct own; intros H.
    + injection H as H <-. split; [reflexivity|]. apply convert_ok_exact. exact H.
    + discriminate H.
  - destruct own; intros H; injection H as H <-; (split; [reflexivity|]); apply convert_ok_exact; exact H.
Qed.

(* a coin that is merely NAMED like the pair's contract address is never converted:
   the message is refused, both ledgers of the pair, the look-alike ledger and the
   token contract are untouched, and the pair is not removed *)
Theorem lookalike_denomination_refused E M m other s :
  m_dir m = CoinToToken ->
  exists x, exec_named E M false m other s = (Failed x (fst s), other).
Proof. intros D. unfold exec_named. rewrite D. eexists. reflexivity. Qed.

(* "debits the sender exactly that amount" / "credits the receiver exactly that amount" *)
Corollary convert_coin_debits_sender E M m b e b' e' :
  exec E M m (b, e) = Done (b', e') -> m_dir m = CoinToToken -> m_sender m <> M ->
  bal b' (m_sender m) = bal b (m_sender m) - m_amt m /\
  (forall a, a <> m_sender m -> a <> M -> bal b' a = bal b a).
Proof.
  intros H D N. apply convert_ok_exact in H. destruct H as (_ & _ & _ & Hb & _).
  unfold bank_exact in Hb. rewrite D in Hb. destruct (m_kind m).
  - destruct Hb as (_ & _ & Hne & _ & Hfr). split; [apply (Hne N)|exact Hfr].
  - destruct Hb as (_ & _ & Hall). split.
    + rewrite Hall, Z.eqb_refl. reflexivity.
    + intros a Ha _. rewrite Hall. destruct (Z.eqb_spec a (m_sender m)); [contradiction|reflexivity].
Qed.

Corollary convert_erc20_credits_receiver E M m b e b' e' :
  exec E M m (b, e) = Done (b', e') -> m_dir m = TokenToCoin ->
  bal b' (m_receiver m) = bal b (m_receiver m) + m_amt m /\
  (forall a, a <> m_receiver m -> a <> M -> bal b' a = bal b a).
Proof.
  intros H D. apply convert_ok_exact in H. destruct H as (_ & _ & _ & Hb & _).
  unfold bank_exact in Hb. rewrite D in Hb. destruct (m_kind m).
  - destruct Hb as ((_ & _ & Hne & _ & Hfr) & N). split.
    + apply Hne. congruence.
    + intros a Ha Hm. apply Hfr; assumption.
  - destruct Hb as (_ & Hall). split.
    + rewrite Hall, Z.eqb_refl. reflexivity.
    + intros a Ha _. rewrite Hall. destruct (Z.eqb_spec a (m_receiver m)); [contradiction|reflexivity].
Qed.

(** * Message atomicity *)

Theorem convert_failure_atomic E M m s :
  snd (deliver E M m s) <> COk -> fst (deliver E M m s) = s.
Proof.
  unfold deliver. destruct (exec E M m s); cbn [fst snd]; congruence.
Qed.

(* all or nothing, in one statement: a delivered conversion either reports
   success with the exact movement, or leaves both ledgers as they were *)
Theorem deliver_all_or_nothing E M m b e :
  (exists b' e', deliver E M m (b, e) = ((b', e'), COk) /\ exec E M m (b, e) = Done (b', e') /\ bank_exact M m b b')
  \/ (fst (deliver E M m (b, e)) = (b, e) /\ snd (deliver E M m (b, e)) <> COk).
Proof.
  unfold deliver. destruct (exec E M m (b, e)) as [[b' e']| |x p] eqn:X; cbn [fst snd].
  - left. exists b', e'. split; [reflexivity|]. split; [reflexivity|].
    apply convert_ok_exact in X. tauto.
  - right. split; [reflexivity|discriminate].
  - right. split; [reflexivity|discriminate].
Qed.

(* the handler itself is NOT atomic: what [deliver] discards can differ from the initial ledger *)
Definition not_ok E M m s : Prop := fst (deliver E M m s) = s /\ snd (deliver E M m s) <> COk.

Lemma not_done_not_ok E M m s : (forall s', exec E M m s <> Done s') -> not_ok E M m s.
Proof.
  intros H. unfold not_ok, deliver. destruct (exec E M m s) eqn:X; cbn [fst snd].
  - exfalso. apply (H s0). reflexivity.
  - split; [reflexivity|discriminate].
  - split; [reflexivity|discriminate].
Qed.

(** * One lemma per check: each deviation of the contract is refused *)
Section Refusals.
  Variable E : evm_model.
  Variable M : account.
  Variable m : msg.
  Variable b : bank.
  Variable e : evm E.
  Let c := m_contract m.
  Let who := checked M m.

  Ltac by_exact :=
    apply not_done_not_ok; intros [b' e'] X; apply convert_ok_exact in X;
    destruct X as (Hamt & Hgate & Hcode & Hbank & t0' & t1' & r' & l' & Q0 & CL & Q1 & EQ & TR).

  (* the balance query before the call gives no usable answer (error, revert, empty or short data) *)
  Lemma err_balance_before_nil :
    call_balance_of E e c who = None -> not_ok E M m (b, e).
  Proof. intros H. by_exact. subst c who. congruence. Qed.

  (* the committing call fails: revert, VM error, EstimateGas or ApplyMessage error *)
  Lemma err_call_fails :
    the_call E M m e = None -> not_ok E M m (b, e).
  Proof. intros H. by_exact. congruence. Qed.

  (* the balance query after the call gives no usable answer *)
  Lemma err_balance_after_nil e1 r logs :
    the_call E M m e = Some (e1, r, logs) ->
    call_balance_of E e1 c who = None -> not_ok E M m (b, e).
  Proof. intros H1 H2. by_exact. rewrite H1 in CL. injection CL as <- <- <-. subst c who. congruence. Qed.

  (* the reported balance did not change by exactly the amount: misreport in
     either direction, or a different amount moved *)
  Lemma err_balance_mismatch t0 e1 r logs t1 :
    call_balance_of E e c who = Some t0 ->
    the_call E M m e = Some (e1, r, logs) ->
    call_balance_of E e1 c who = Some t1 ->
    t1 <> t0 + token_delta m -> not_ok E M m (b, e).
  Proof.
    intros H0 H1 H2 N. by_exact. rewrite H1 in CL. injection CL as <- <- <-.
    subst c who. rewrite H0 in Q0. rewrite H2 in Q1. congruence.
  Qed.
  Lemma err_balance_over t0 e1 r logs t1 :
    call_balance_of E e c who = Some t0 -> the_call E M m e = Some (e1, r, logs) ->
    call_balance_of E e1 c who = Some t1 -> t1 > t0 + token_delta m -> not_ok E M m (b, e).
  Proof. intros. eapply err_balance_mismatch; eauto. lia. Qed.
  Lemma err_balance_under t0 e1 r logs t1 :
    call_balance_of E e c who = Some t0 -> the_call E M m e = Some (e1, r, logs) ->
    call_balance_of E e1 c who = Some t1 -> t1 < t0 + token_delta m -> not_ok E M m (b, e).
  Proof. intros. eapply err_balance_mismatch; eauto. lia. Qed.

  (* transfer returned false *)
  Lemma err_false_return e1 logs :
    uses_transfer m = true ->
    the_call E M m e = Some (e1, RetFalse, logs) -> not_ok E M m (b, e).
  Proof. intros U H. by_exact. rewrite H in CL. injection CL as <- <- <-. destruct (TR U). discriminate. Qed.

  (* transfer returned data that is not a boolean (empty, short, other word) *)
  Lemma err_bad_return e1 logs :
    uses_transfer m = true ->
    the_call E M m e = Some (e1, RetBad, logs) -> not_ok E M m (b, e).
  Proof. intros U H. by_exact. rewrite H in CL. injection CL as <- <- <-. destruct (TR U). discriminate. Qed.

  (* an Approval event anywhere in the logs of the transfer *)
  Lemma err_approval_log e1 r logs :
    uses_transfer m = true ->
    the_call E M m e = Some (e1, r, logs) -> In LogApproval logs -> not_ok E M m (b, e).
  Proof.
    intros U H HI. by_exact. rewrite H in CL. injection CL as <- <- <-. destruct (TR U) as [_ F].
    rewrite Forall_forall in F. specialize (F _ HI). discriminate.
  Qed.

  (* a log without topics anywhere in the logs of the transfer (the scan panics) *)
  Lemma err_topicless_log e1 r logs :
    uses_transfer m = true ->
    the_call E M m e = Some (e1, r, logs) -> In LogNoTopics logs -> not_ok E M m (b, e).
  Proof.
    intros U H HI. by_exact. rewrite H in CL. injection CL as <- <- <-. destruct (TR U) as [_ F].
    rewrite Forall_forall in F. specialize (F _ HI). discriminate.
  Qed.

  (* bank side: the sender does not hold the amount / the escrow does not hold it *)
  Lemma err_insufficient_coins :
    m_dir m = CoinToToken -> bal b (m_sender m) < m_amt m -> not_ok E M m (b, e).
  Proof.
    intros D L. by_exact. unfold bank_exact in Hbank. rewrite D in Hbank.
    destruct (m_kind m); [destruct Hbank as (X & _)|destruct Hbank as (X & _)]; lia.
  Qed.
  Lemma err_insufficient_escrow :
    m_dir m = TokenToCoin -> m_kind m = NativeCoin -> bal b M < m_amt m -> not_ok E M m (b, e).
  Proof.
    intros D K L. by_exact. unfold bank_exact in Hbank. rewrite D, K in Hbank.
    destruct Hbank as ((X & _) & _). lia.
  Qed.

  (* message-level refusals *)
  Lemma err_nonpositive_amount : m_amt m <= 0 -> not_ok E M m (b, e).
  Proof. intros L. by_exact. lia. Qed.
  Lemma err_gate_closed : m_gate m = false -> not_ok E M m (b, e).
  Proof. intros G. by_exact. congruence. Qed.
End Refusals.

(** * Round trip with the honest contract *)

Definition flip (d : direction) : direction :=
  match d with CoinToToken => TokenToCoin | TokenToCoin => CoinToToken end.

(* the conversion back: same pair, same amount, same party on each ledger
   (the coin-side party and the token-side party swap roles), passing the gate *)
Definition back (m : msg) : msg :=
  mkMsg (flip (m_dir m)) (m_kind m) true true (m_contract m) (m_receiver m) (m_sender m) (m_amt m).

(* every balance on both ledgers, both supplies *)
Definition same_ledgers (b b2 : bank) (h h2 : hledger) : Prop :=
  (forall a, bal b2 a = bal b a) /\ supply b2 = supply b /\
  (forall a, tbal h2 a = tbal h a) /\ total h2 = total h.

Ltac split_tests :=
  repeat (match goal with
          | |- context [?x =? ?y] => destruct (Z.eqb_spec x y); try (exfalso; lia); subst
          | |- context [?x <? ?y] => destruct (Z.ltb_spec x y); try (exfalso; lia)
          | H : context [?x =? ?y] |- _ => destruct (Z.eqb_spec x y); try (exfalso; lia); subst
          | H : context [?x <? ?y] |- _ => destruct (Z.ltb_spec x y); try (exfalso; lia)
          end; cbn [negb orb andb bal supply tbal total h_owner h_paused] in *; cbv iota beta in *; try discriminate).

Ltac split_hyp H :=
  repeat (match type of H with
          | context [?x =? ?y] => destruct (Z.eqb_spec x y); try (exfalso; lia); subst
          | context [?x <? ?y] => destruct (Z.ltb_spec x y); try (exfalso; lia)
          end; cbn [negb orb andb bal supply tbal total h_owner h_paused] in H; cbv iota beta in H; try discriminate H).

Section RoundTrip.
  Variable M : account.
  Variable b : bank.
  Variable h : hledger.
  Hypothesis bal_nonneg : forall a, 0 <= bal b a.
  Hypothesis tbal_nonneg : forall a, 0 <= tbal h a.

  Ltac open_all :=
    unfold exec, path, back, flip,
      convert_coin_native_coin, convert_erc20_native_coin, convert_coin_native_erc20, convert_erc20_native_erc20,
      honest, h_balance_of, h_mint_as, h_burn_as, h_transfer, bank_send, bank_mint, bank_burn, monitor, same_ledgers;
    cbn [m_dir m_kind m_gate m_has_code m_contract m_sender m_receiver m_amt fst snd negb
         call_balance_of call_mint call_burn call_transfer bal supply tbal total h_owner h_paused evm].

  Ltac facts S R :=
    pose proof (bal_nonneg S); pose proof (bal_nonneg R); pose proof (bal_nonneg M);
    pose proof (tbal_nonneg S); pose proof (tbal_nonneg R); pose proof (tbal_nonneg M).

  Ltac finish :=
    eexists; eexists; (split; [reflexivity|]); cbn [bal supply tbal total]; unfold upd;
    (split; [intros a; split_tests; lia|split; [lia|split; [intros a; split_tests; lia|lia]]]).

  Ltac go S R amt :=
    intros X; facts S R;
    destruct (Z.leb_spec amt 0) as [L|L]; [discriminate X|];
    destruct (h_paused h) eqn:HP; rewrite ?orb_true_r in X; cbn [orb] in X; unfold upd in X; split_hyp X; try discriminate X;
    injection X as <- <-; cbn [bal supply tbal total h_owner h_paused]; rewrite ?HP; unfold upd;
    split_tests; finish.

  Lemma round_trip_coin_native_coin c S R amt b1 h1 :
    S <> M ->
    exec (honest M) M (mkMsg CoinToToken NativeCoin true true c S R amt) (b, h) = Done (b1, h1) ->
    exists b2 h2, exec (honest M) M (back (mkMsg CoinToToken NativeCoin true true c S R amt)) (b1, h1) = Done (b2, h2) /\
                  same_ledgers b b2 h h2.
  Proof. intros NS. open_all. go S R amt. Qed.

  Lemma round_trip_coin_native_erc20 c S R amt b1 h1 :
    exec (honest M) M (mkMsg CoinToToken NativeERC20 true true c S R amt) (b, h) = Done (b1, h1) ->
    exists b2 h2, exec (honest M) M (back (mkMsg CoinToToken NativeERC20 true true c S R amt)) (b1, h1) = Done (b2, h2) /\
                  same_ledgers b b2 h h2.
  Proof. open_all. go S R amt. Qed.

  Lemma round_trip_erc20_native_coin c S R amt b1 h1 :
    exec (honest M) M (mkMsg TokenToCoin NativeCoin true true c S R amt) (b, h) = Done (b1, h1) ->
    exists b2 h2, exec (honest M) M (back (mkMsg TokenToCoin NativeCoin true true c S R amt)) (b1, h1) = Done (b2, h2) /\
                  same_ledgers b b2 h h2.
  Proof. open_all. go S R amt. Qed.

  Lemma round_trip_erc20_native_erc20 c S R amt b1 h1 :
    exec (honest M) M (mkMsg TokenToCoin NativeERC20 true true c S R amt) (b, h) = Done (b1, h1) ->
    exists b2 h2, exec (honest M) M (back (mkMsg TokenToCoin NativeERC20 true true c S R amt)) (b1, h1) = Done (b2, h2) /\
                  same_ledgers b b2 h h2.
  Proof. open_all. go S R amt. Qed.
End RoundTrip.

Theorem round_trip M m b h b1 h1 :
  (forall a, 0 <= bal b a) -> (forall a, 0 <= tbal h a) ->
  (m_dir m = CoinToToken -> m_kind m = NativeCoin -> m_sender m <> M) ->
  exec (honest M) M m (b, h) = Done (b1, h1) ->
  exists b2 h2, exec (honest M) M (back m) (b1, h1) = Done (b2, h2) /\ same_ledgers b b2 h h2.
Proof.
  intros Hb Ht Hs X.
  pose proof (convert_ok_exact _ _ _ _ _ _ _ X) as (_ & G & C & _).
  destruct m as [d k g hc c S R amt]. cbn [m_gate m_has_code m_dir m_kind m_sender] in *. subst g hc.
  destruct d, k.
  - apply round_trip_coin_native_coin; auto.
  - apply round_trip_coin_native_erc20; auto.
  - apply round_trip_erc20_native_coin; auto.
  - apply round_trip_erc20_native_erc20; auto.
Qed.

(* in the words of the property: the four holdings of the converting party
   (coins and tokens of the coin-side and of the token-side address) are restored *)
Corollary round_trip_four_balances M m b h b1 h1 :
  (forall a, 0 <= bal b a) -> (forall a, 0 <= tbal h a) ->
  (m_dir m = CoinToToken -> m_kind m = NativeCoin -> m_sender m <> M) ->
  exec (honest M) M m (b, h) = Done (b1, h1) ->
  exists b2 h2, exec (honest M) M (back m) (b1, h1) = Done (b2, h2) /\
    bal b2 (m_sender m) = bal b (m_sender m) /\ bal b2 (m_receiver m) = bal b (m_receiver m) /\
    tbal h2 (m_sender m) = tbal h (m_sender m) /\ tbal h2 (m_receiver m) = tbal h (m_receiver m).
Proof.
  intros Hb Ht Hs X. destruct (round_trip M m b h b1 h1 Hb Ht Hs X) as (b2 & h2 & Y & A & _ & B & _).
  exists b2, h2. split; [exact Y|]. repeat split; auto.
Qed.

(** * Non-vacuity *)

Definition ex_bank : bank := mkBank (fun a => if a =? 1 then 100 else if a =? 99 then 5 else 0) 105.
Definition ex_tokens : hledger := mkH (fun a => if a =? 2 then 7 else 0) 7 99 false.
Definition ex_msg : msg := mkMsg CoinToToken NativeCoin true true 7 1 2 30.

(* the honest contract: a conversion succeeds and moves exactly 30 on both ledgers *)
Example honest_convert_ok :
  match exec (honest 99) 99 ex_msg (ex_bank, ex_tokens) with
  | Done (b', h') => bal b' 1 = 70 /\ bal b' 99 = 35 /\ supply b' = 105 /\ tbal h' 2 = 37 /\ total h' = 37
  | _ => False
  end.
Proof. vm_compute. repeat split. Qed.

(* the hypotheses of round_trip are satisfiable, and its conclusion is met by computation *)
Example round_trip_example :
  (forall a, 0 <= bal ex_bank a) /\ (forall a, 0 <= tbal ex_tokens a) /\ m_sender ex_msg <> 99 /\
  match exec (honest 99) 99 ex_msg (ex_bank, ex_tokens) with
  | Done s1 =>
      match exec (honest 99) 99 (back ex_msg) s1 with
      | Done (b2, h2) => bal b2 1 = 100 /\ bal b2 99 = 5 /\ tbal h2 2 = 7 /\ total h2 = 7
      | _ => False
      end
  | _ => False
  end.
Proof.
  split; [|split; [|split]].
  - intros a. cbn. destruct (a =? 1); [lia|]. destruct (a =? 99); lia.
  - intros a. cbn. destruct (a =? 2); lia.
  - cbn. lia.
  - vm_compute. repeat split.
Qed.

(* an external pair and the reverse order *)
Definition ex_tokens_ext : hledger := mkH (fun a => if a =? 2 then 50 else if a =? 99 then 4 else 0) 54 1234 false.
Definition ex_msg_ext : msg := mkMsg TokenToCoin NativeERC20 true true 8 2 1 20.
Example round_trip_example_ext :
  match exec (honest 99) 99 ex_msg_ext (ex_bank, ex_tokens_ext) with
  | Done (b1, h1) =>
      bal b1 1 = 120 /\ supply b1 = 125 /\ tbal h1 2 = 30 /\ tbal h1 99 = 24 /\
      match exec (honest 99) 99 (back ex_msg_ext) (b1, h1) with
      | Done (b2, h2) => bal b2 1 = 100 /\ supply b2 = 105 /\ tbal h2 2 = 50 /\ tbal h2 99 = 4
      | _ => False
      end
  | _ => False
  end.
Proof. vm_compute. repeat split. Qed.

(* a contract that answers "false": refused, and the handler had already escrowed
   the coins — only [deliver] restores them *)
Definition ex_false : script :=
  mkScript 2 (Some 7) 2 99 2 30 (Some (RetFalse, [LogOther])) 2 (Some 37).
Definition ex_msg_out : msg := mkMsg CoinToToken NativeERC20 true true 8 1 2 30.
Example false_return_refused :
  snd (deliver (scripted 99 ex_false) 99 ex_msg_out (ex_bank, 0)) = CRejected /\
  match exec (scripted 99 ex_false) 99 ex_msg_out (ex_bank, 0) with
  | Failed EFalse p => bal p 1 = 70 /\ bal p 99 = 35       (* partial effect at handler level *)
  | _ => False
  end /\
  bal (fst (fst (deliver (scripted 99 ex_false) 99 ex_msg_out (ex_bank, 0)))) 1 = 100.
Proof. vm_compute. repeat split. Qed.

(* the same script with "true": accepted; with an Approval log, a topic-less
   log, a balance off by one in either direction, or no answer: refused *)
Definition ex_with (ans : option (retval * list log)) (after : option Z) : script :=
  mkScript 2 (Some 7) 2 99 2 30 ans 2 after.
Example scripted_cases :
  snd (deliver (scripted 99 (ex_with (Some (RetTrue, [LogOther])) (Some 37))) 99 ex_msg_out (ex_bank, 0)) = COk /\
  snd (deliver (scripted 99 (ex_with (Some (RetTrue, [LogOther; LogApproval])) (Some 37))) 99 ex_msg_out (ex_bank, 0)) = CRejected /\
  snd (deliver (scripted 99 (ex_with (Some (RetTrue, [LogNoTopics])) (Some 37))) 99 ex_msg_out (ex_bank, 0)) = CRejected /\
  snd (deliver (scripted 99 (ex_with (Some (RetTrue, [LogOther])) (Some 38))) 99 ex_msg_out (ex_bank, 0)) = CRejected /\
  snd (deliver (scripted 99 (ex_with (Some (RetTrue, [LogOther])) (Some 36))) 99 ex_msg_out (ex_bank, 0)) = CRejected /\
  snd (deliver (scripted 99 (ex_with (Some (RetTrue, [LogOther])) None)) 99 ex_msg_out (ex_bank, 0)) = CRejected /\
  snd (deliver (scripted 99 (ex_with (Some (RetBad, [])) (Some 37))) 99 ex_msg_out (ex_bank, 0)) = CRejected /\
  snd (deliver (scripted 99 (ex_with None (Some 37))) 99 ex_msg_out (ex_bank, 0)) = CRejected.
Proof. vm_compute. repeat split. Qed.

(* without the hypothesis of round_trip (the coin-side sender IS the module
   account) the way back is refused: the hypothesis is needed *)
Example round_trip_needs_sender_not_module :
  match exec (honest 99) 99 (mkMsg CoinToToken NativeCoin true true 7 99 2 3) (ex_bank, ex_tokens) with
  | Done s1 => snd (deliver (honest 99) 99 (back (mkMsg CoinToToken NativeCoin true true 7 99 2 3)) s1) = CRejected
  | _ => False
  end.
Proof. vm_compute. reflexivity. Qed.

(* (before the repair of finding F6 the statement without "the message names the pair's own
   denomination" was false - Example convert_ok_exact_without_own_denom_refuted, removed with the repair:
   the look-alike conversion succeeded and the receiver got escrowed tokens for coins of another denomination) *)

