(** Proofs about the token-pair registry (property C15). *)
From stdpp Require Import gmap.
From Canto Require Import Model.TokenPairs.
Open Scope Z_scope.

(** * The registry invariant: the three tables form a one-to-one correspondence *)
Record Inv (s : state) : Prop := mkInv {
  (* a record is stored under the id computed from its own content *)
  inv_key : forall i p, st_pairs s !! i = Some p -> i = id_of p;
  (* every stored record is indexed under its denomination and under its address *)
  inv_fwd : forall i p, st_pairs s !! i = Some p ->
              st_denom s !! p_denom p = Some i /\ st_addr s !! p_addr p = Some i;
  (* every index entry points to a stored record with that denomination / address *)
  inv_denom : forall d i, st_denom s !! d = Some i ->
              exists p, st_pairs s !! i = Some p /\ p_denom p = d;
  inv_addr : forall a i, st_addr s !! a = Some i ->
              exists p, st_pairs s !! i = Some p /\ p_addr p = a
}.

Lemma Inv_ext s s' :
  st_pairs s' = st_pairs s -> st_denom s' = st_denom s -> st_addr s' = st_addr s ->
  Inv s -> Inv s'.
Proof.
  intros Hp Hd Ha [K F D A]. split; rewrite ?Hp, ?Hd, ?Ha; assumption.
Qed.

Lemma inv_empty en : Inv (empty_state en).
Proof.
  split; cbn; intros *; rewrite lookup_empty; discriminate.
Qed.

Lemma elem_of_listing s p : p ∈ listing s <-> exists i, st_pairs s !! i = Some p.
Proof.
  unfold listing. rewrite elem_of_list_fmap. split.
  - intros ([i q] & -> & Hin). apply elem_of_map_to_list in Hin. eauto.
  - intros (i & Hi). exists (i, p). split; [reflexivity|]. apply elem_of_map_to_list. exact Hi.
Qed.

(** ** Preservation by the elementary writes *)
Lemma add_pair_inv p s :
  Inv s -> st_denom s !! p_denom p = None -> st_addr s !! p_addr p = None -> Inv (add_pair p s).
Proof.
  intros [K F D A] Hd Ha.
  assert (Hfree : st_pairs s !! id_of p = None).
  { destruct (st_pairs s !! id_of p) as [q|] eqn:E; [|reflexivity].
    pose proof (K _ _ E) as Hk. destruct (F _ _ E) as [Fd _].
    injection Hk as _ Hk2. rewrite <- Hk2 in Fd. congruence. }
  split; cbn.
  - intros i q Hq. apply lookup_insert_Some in Hq as [[<- <-]|[_ Hq]]; [reflexivity|eauto].
  - intros i q Hq. apply lookup_insert_Some in Hq as [[<- <-]|[Hne Hq]].
    + rewrite !lookup_insert. auto.
    + destruct (F _ _ Hq) as [Fd Fa].
      rewrite !lookup_insert_ne by congruence. auto.
  - intros d i Hi. apply lookup_insert_Some in Hi as [[<- <-]|[Hne Hi]].
    + exists p. rewrite lookup_insert. auto.
    + destruct (D _ _ Hi) as (q & Hq & Hqd). exists q. split; [|exact Hqd].
      rewrite lookup_insert_ne; [exact Hq|]. intros <-. congruence.
  - intros a i Hi. apply lookup_insert_Some in Hi as [[<- <-]|[Hne Hi]].
    + exists p. rewrite lookup_insert. auto.
    + destruct (A _ _ Hi) as (q & Hq & Hqa). exists q. split; [|exact Hqa].
      rewrite lookup_insert_ne; [exact Hq|]. intros <-. congruence.
Qed.

Lemma delete_pair_inv i p s :
  Inv s -> st_pairs s !! i = Some p -> Inv (delete_pair p s).
Proof.
  intros [K F D A] Hp. pose proof (K _ _ Hp) as ->. destruct (F _ _ Hp) as [Fd Fa].
  split; cbn.
  - intros j q Hq. apply lookup_delete_Some in Hq as [_ Hq]. eauto.
  - intros j q Hq. apply lookup_delete_Some in Hq as [Hne Hq].
    destruct (F _ _ Hq) as [Gd Ga].
    rewrite !lookup_delete_ne; [auto| |]; intros E; rewrite E in *; congruence.
  - intros d j Hj. apply lookup_delete_Some in Hj as [Hne Hj].
    destruct (D _ _ Hj) as (q & Hq & Hqd). exists q. split; [|exact Hqd].
    rewrite lookup_delete_ne; [exact Hq|]. intros <-. congruence.
  - intros a j Hj. apply lookup_delete_Some in Hj as [Hne Hj].
    destruct (A _ _ Hj) as (q & Hq & Hqa). exists q. split; [|exact Hqa].
    rewrite lookup_delete_ne; [exact Hq|]. intros <-. congruence.
Qed.

Lemma flip_pair_inv i p s :
  Inv s -> st_pairs s !! i = Some p -> Inv (set_pair (flip p) s).
Proof.
  intros [K F D A] Hp. pose proof (K _ _ Hp) as ->. destruct (F _ _ Hp) as [Fd Fa].
  change (id_of (flip p)) with (id_of p) in *.
  split; cbn; change (id_of (flip p)) with (id_of p).
  - intros j q Hq. apply lookup_insert_Some in Hq as [[<- <-]|[_ Hq]]; [reflexivity|eauto].
  - intros j q Hq. apply lookup_insert_Some in Hq as [[<- <-]|[_ Hq]]; [cbn; auto|eauto].
  - intros d j Hj. destruct (D _ _ Hj) as (q & Hq & Hqd).
    destruct (decide (j = id_of p)) as [->|Hne].
    + exists (flip p). rewrite lookup_insert. split; [reflexivity|]. cbn. congruence.
    + exists q. rewrite lookup_insert_ne by congruence. auto.
  - intros a j Hj. destruct (A _ _ Hj) as (q & Hq & Hqa).
    destruct (decide (j = id_of p)) as [->|Hne].
    + exists (flip p). rewrite lookup_insert. split; [reflexivity|]. cbn. congruence.
    + exists q. rewrite lookup_insert_ne by congruence. auto.
Qed.

(** ** Genesis round trip *)
Lemma foldl_insert_map_to_list {K} `{Countable K} {V} (m : gmap K V) :
  foldl (fun acc e => <[e.1 := e.2]> acc) ∅ (map_to_list m) = m.
Proof.
  assert (G : forall (l : list (K * V)) (acc : gmap K V), NoDup l.*1 ->
            forall k, foldl (fun acc e => <[e.1 := e.2]> acc) acc l !! k =
                      match (list_to_map l : gmap K V) !! k with Some v => Some v | None => acc !! k end).
  { induction l as [|[k0 v0] l IH]; intros acc ND k; cbn [foldl].
    - cbn. rewrite lookup_empty. reflexivity.
    - cbn in ND. apply NoDup_cons in ND as [Hnot ND]. rewrite (IH _ ND). cbn.
      destruct (decide (k = k0)) as [->|Hne].
      + rewrite !lookup_insert.
        rewrite (not_elem_of_list_to_map_1 (M:=gmap K) _ _ Hnot). reflexivity.
      + rewrite !lookup_insert_ne by congruence. reflexivity. }
  apply map_eq. intros k. rewrite G by apply NoDup_fst_map_to_list.
  rewrite list_to_map_to_list, lookup_empty. destruct (m !! k); reflexivity.
Qed.

Lemma foldl_set_pair_values (l : list (pid * pair)) :
  Forall (fun e => e.1 = id_of e.2) l ->
  forall acc : gmap pid pair,
    foldl (fun m p => <[id_of p := p]> m) acc l.*2 = foldl (fun m e => <[e.1 := e.2]> m) acc l.
Proof.
  induction 1 as [|[i p] l Hk _ IH]; intros acc; cbn [fmap list_fmap foldl]; [reflexivity|].
  cbn [fst snd] in *. rewrite <- Hk. apply IH.
Qed.

Lemma export_import_state s :
  (forall i p, st_pairs s !! i = Some p -> i = id_of p) ->
  init_genesis (export_genesis s) (empty_state false) = s.
Proof.
  intros K. destruct s as [P D A en]. unfold init_genesis, export_genesis, listing. cbn in *.
  f_equal.
  - rewrite foldl_set_pair_values; [apply foldl_insert_map_to_list|].
    apply Forall_forall. intros [i p] Hin. apply elem_of_map_to_list in Hin. cbn. eauto.
  - apply foldl_insert_map_to_list.
  - apply foldl_insert_map_to_list.
Qed.

(** ** Every operation preserves the invariant *)

(* the only thing the registry code takes on trust: the address the EVM gives to the
   contract deployed by RegisterCoin is not the address of a registered pair *)
Definition fresh_ok (s : state) (o : op) : Prop :=
  match o with
  | OpRegCoin _ _ _ fresh => st_addr s !! fresh = None
  | _ => True
  end.

Lemma is_some_false {A} (o : option A) : is_some o = false -> o = None.
Proof. destruct o; [discriminate|reflexivity]. Qed.
Lemma is_some_true {A} (o : option A) : is_Some o -> is_some o = true.
Proof. intros [x ->]. reflexivity. Qed.

Lemma step_inv o s : Inv s -> fresh_ok s o -> Inv (step o s).1.
Proof.
  intros HI Hf. destruct o as [auth ext d fresh|auth ext a|auth t|coin t dead|auth b| |]; cbn [step].
  - unfold register_coin.
    destruct (negb auth); [exact HI|]. destruct (negb (st_enable s)); [exact HI|].
    destruct (is_some (st_denom s !! d)) eqn:Ed; [exact HI|]. destruct (negb ext); [exact HI|].
    cbn [fst]. apply add_pair_inv; [exact HI|apply is_some_false, Ed|exact Hf].
  - unfold register_erc20.
    destruct (negb auth); [exact HI|]. destruct (negb (st_enable s)); [exact HI|].
    destruct (is_some (st_addr s !! a)) eqn:Ea; [exact HI|]. destruct (negb ext); [exact HI|].
    destruct (is_some (st_denom s !! TErc20 a)) eqn:Ed; [exact HI|].
    cbn [fst]. apply add_pair_inv; [exact HI|apply is_some_false, Ed|apply is_some_false, Ea].
  - unfold toggle. destruct (negb auth); [exact HI|].
    destruct (get_pair_id s t) as [i|]; [|exact HI].
    destruct (get_pair s i) as [p|] eqn:Ep; [|exact HI].
    cbn [fst]. eapply flip_pair_inv; [exact HI|exact Ep].
  - unfold convert. destruct (negb (st_enable s)); [exact HI|].
    destruct (get_pair_id s t) as [i|]; [|exact HI].
    destruct (get_pair s i) as [p|] eqn:Ep; [|exact HI].
    destruct (negb (p_enabled p)); [exact HI|].
    destruct (coin && negb (bool_decide (t = p_denom p))); [exact HI|].
    destruct (existsb (Z.eqb (p_addr p)) dead); [|exact HI].
    cbn [fst]. eapply delete_pair_inv; [exact HI|exact Ep].
  - unfold set_enable. destruct (negb auth); [exact HI|].
    cbn [fst]. eapply Inv_ext; [| | |exact HI]; reflexivity.
  - cbn [fst]. rewrite export_import_state; [exact HI|apply HI].
  - exact HI.
Qed.

(** ** All histories *)
Fixpoint hist_ok (s : state) (os : list op) : Prop :=
  match os with
  | [] => True
  | o :: r => fresh_ok s o /\ hist_ok (step o s).1 r
  end.

Lemma run_cons o os s : run (o :: os) s = run os (step o s).1.
Proof. reflexivity. Qed.

Theorem run_inv os : forall s, Inv s -> hist_ok s os -> Inv (run os s).
Proof.
  induction os as [|o r IH]; intros s HI HH; [exact HI|].
  destruct HH as [Hf HH]. rewrite run_cons. apply IH; [apply step_inv; assumption|exact HH].
Qed.

Theorem history_inv os en : hist_ok (empty_state en) os -> Inv (run os (empty_state en)).
Proof. apply run_inv, inv_empty. Qed.

(** * What the invariant means, in the words of the property *)

(** at most one pair per denomination and per address; the listing has no repeats *)
Theorem denom_unique s p q :
  Inv s -> p ∈ listing s -> q ∈ listing s -> p_denom p = p_denom q -> p = q.
Proof.
  intros HI Hp Hq E. apply elem_of_listing in Hp as (i & Hp). apply elem_of_listing in Hq as (j & Hq).
  destruct (inv_fwd s HI _ _ Hp) as [Fp _]. destruct (inv_fwd s HI _ _ Hq) as [Fq _].
  rewrite E in Fp. assert (i = j) by congruence. subst j. congruence.
Qed.

Theorem addr_unique s p q :
  Inv s -> p ∈ listing s -> q ∈ listing s -> p_addr p = p_addr q -> p = q.
Proof.
  intros HI Hp Hq E. apply elem_of_listing in Hp as (i & Hp). apply elem_of_listing in Hq as (j & Hq).
  destruct (inv_fwd s HI _ _ Hp) as [_ Fp]. destruct (inv_fwd s HI _ _ Hq) as [_ Fq].
  rewrite E in Fp. assert (i = j) by congruence. subst j. congruence.
Qed.

Theorem listing_nodup s : Inv s -> NoDup (listing s).
Proof.
  intros HI. unfold listing. apply NoDup_fmap_2_strong; [|apply NoDup_map_to_list].
  intros [i p] [j q] Hi Hj E. cbn in E. subst q.
  apply elem_of_map_to_list in Hi, Hj.
  rewrite (inv_key s HI _ _ Hi), (inv_key s HI _ _ Hj). reflexivity.
Qed.

(** the indexes know exactly the denominations / addresses of the listed pairs *)
Theorem denom_registered_iff s d :
  Inv s -> (is_Some (st_denom s !! d) <-> exists p, p ∈ listing s /\ p_denom p = d).
Proof.
  intros HI. split.
  - intros [i Hi]. destruct (inv_denom s HI _ _ Hi) as (p & Hp & Hd).
    exists p. split; [apply elem_of_listing; eauto|exact Hd].
  - intros (p & Hp & <-). apply elem_of_listing in Hp as (i & Hp).
    destruct (inv_fwd s HI _ _ Hp) as [F _]. eauto.
Qed.

Theorem addr_registered_iff s a :
  Inv s -> (is_Some (st_addr s !! a) <-> exists p, p ∈ listing s /\ p_addr p = a).
Proof.
  intros HI. split.
  - intros [i Hi]. destruct (inv_addr s HI _ _ Hi) as (p & Hp & Ha).
    exists p. split; [apply elem_of_listing; eauto|exact Ha].
  - intros (p & Hp & <-). apply elem_of_listing in Hp as (i & Hp).
    destruct (inv_fwd s HI _ _ Hp) as [_ F]. eauto.
Qed.

(** ** Lookups *)

(* the exact condition under which GetTokenPairID, given the denomination of [p], finds [p]:
   the denomination does not have the shape of the hex address of a DIFFERENT registered pair *)
Definition not_shadowed (s : state) (p : pair) : Prop :=
  forall a, hex_of (p_denom p) = Some a -> a = p_addr p \/ st_addr s !! a = None.

Lemma listed_key s p : Inv s -> p ∈ listing s -> st_pairs s !! id_of p = Some p.
Proof.
  intros HI Hp. apply elem_of_listing in Hp as (i & Hp).
  rewrite <- (inv_key s HI _ _ Hp). exact Hp.
Qed.

Theorem lookup_by_id s p : Inv s -> p ∈ listing s -> get_pair s (id_of p) = Some p.
Proof. apply listed_key. Qed.

Theorem lookup_by_addr s p t :
  Inv s -> p ∈ listing s -> hex_of t = Some (p_addr p) -> lookup_tok s t = Some p.
Proof.
  intros HI Hp Ht. pose proof (listed_key s p HI Hp) as Hk.
  destruct (inv_fwd s HI _ _ Hk) as [_ Fa].
  unfold lookup_tok, get_pair_id, get_id_by_addr. rewrite Ht, Fa. exact Hk.
Qed.

Theorem lookup_by_denom_iff s p :
  Inv s -> p ∈ listing s -> (lookup_tok s (p_denom p) = Some p <-> not_shadowed s p).
Proof.
  intros HI Hp. pose proof (listed_key s p HI Hp) as Hk.
  destruct (inv_fwd s HI _ _ Hk) as [Fd Fa].
  unfold lookup_tok, get_pair_id, get_id_by_addr, get_id_by_denom, not_shadowed. split.
  - intros HL a Ha. rewrite Ha in HL.
    destruct (st_addr s !! a) as [j|] eqn:Ej; [|auto]. left.
    destruct (inv_addr s HI _ _ Ej) as (q & Hq & Hqa).
    unfold get_pair in HL. congruence.
  - intros HN. destruct (hex_of (p_denom p)) as [a|] eqn:Ha.
    + destruct (HN a eq_refl) as [->|Hnone].
      * rewrite Fa. exact Hk.
      * rewrite Hnone, Fd. exact Hk.
    + rewrite Fd. exact Hk.
Qed.

Theorem lookup_by_denom s p :
  Inv s -> p ∈ listing s -> not_shadowed s p -> lookup_tok s (p_denom p) = Some p.
Proof. intros HI Hp. apply lookup_by_denom_iff; assumption. Qed.

(* the three lookups agree *)
Theorem lookup_agree s p :
  Inv s -> p ∈ listing s -> not_shadowed s p ->
  get_pair s (id_of p) = Some p /\
  lookup_tok s (p_denom p) = Some p /\
  (forall t, hex_of t = Some (p_addr p) -> lookup_tok s t = Some p).
Proof.
  intros HI Hp HN. split; [apply lookup_by_id; assumption|].
  split; [apply lookup_by_denom; assumption|]. intros t. apply lookup_by_addr; assumption.
Qed.

(* a denomination that does not look like an address is never shadowed *)
Lemma plain_not_shadowed s p : hex_of (p_denom p) = None -> not_shadowed s p.
Proof. intros E a Ha. congruence. Qed.

(* listing = what lookups reach *)
Theorem lookup_sound s t p : lookup_tok s t = Some p -> p ∈ listing s.
Proof.
  unfold lookup_tok. destruct (get_pair_id s t) as [i|]; [|discriminate].
  intros Hp. apply elem_of_listing. exists i. exact Hp.
Qed.

Theorem listing_iff_lookup s p :
  Inv s ->
  (p ∈ listing s <-> exists t, lookup_tok s t = Some p) /\
  (p ∈ listing s <-> exists i, get_pair s i = Some p).
Proof.
  intros HI. split; [|apply elem_of_listing]. split.
  - intros Hp. exists (THex (p_addr p) 0). apply lookup_by_addr; [assumption..|reflexivity].
  - intros (t & Ht). eapply lookup_sound, Ht.
Qed.

(* whatever a lookup by token returns carries that token: as its denomination, or as (a
   spelling of) its address *)
Theorem lookup_tok_matches s t p :
  Inv s -> lookup_tok s t = Some p -> p_denom p = t \/ hex_of t = Some (p_addr p).
Proof.
  intros HI. unfold lookup_tok, get_pair_id, get_id_by_addr, get_id_by_denom.
  destruct (hex_of t) as [a|] eqn:Ha.
  - destruct (st_addr s !! a) as [i|] eqn:Ei.
    + intros Hp. destruct (inv_addr s HI _ _ Ei) as (q & Hq & Hqa).
      unfold get_pair in Hp. right. congruence.
    + destruct (st_denom s !! t) as [i|] eqn:Ed; [|discriminate].
      intros Hp. destruct (inv_denom s HI _ _ Ed) as (q & Hq & Hqd).
      unfold get_pair in Hp. left. congruence.
  - destruct (st_denom s !! t) as [i|] eqn:Ed; [|discriminate].
    intros Hp. destruct (inv_denom s HI _ _ Ed) as (q & Hq & Hqd).
    unfold get_pair in Hp. left. congruence.
Qed.

(** ** Rejections *)
Theorem rejected_no_effect o s : (step o s).2 <> Ok -> (step o s).1 = s.
Proof.
  destruct o as [auth ext d fresh|auth ext a|auth t|coin t dead|auth b| |]; cbn [step].
  - unfold register_coin. repeat (match goal with |- context [if ?c then _ else _] => destruct c end);
      cbn; congruence.
  - unfold register_erc20. repeat (match goal with |- context [if ?c then _ else _] => destruct c end);
      cbn; congruence.
  - unfold toggle. destruct (negb auth); [reflexivity|].
    destruct (get_pair_id s t) as [i|]; [|reflexivity].
    destruct (get_pair s i); [cbn; congruence|reflexivity].
  - unfold convert. destruct (negb (st_enable s)); [reflexivity|].
    destruct (get_pair_id s t) as [i|]; [|reflexivity].
    destruct (get_pair s i) as [p|]; [|reflexivity].
    destruct (negb (p_enabled p)); [reflexivity|].
    destruct (coin && negb (bool_decide (t = p_denom p))); [reflexivity|].
    destruct (existsb _ dead); [cbn; congruence|reflexivity].
  - unfold set_enable. destruct (negb auth); [reflexivity|cbn; congruence].
  - cbn; congruence.
  - reflexivity.
Qed.

Theorem register_coin_dup auth ext d fresh s :
  is_Some (st_denom s !! d) -> step (OpRegCoin auth ext d fresh) s = (s, Rejected).
Proof.
  intros H. cbn [step]. unfold register_coin. rewrite (is_some_true _ H).
  destruct (negb auth); [reflexivity|]. destruct (negb (st_enable s)); reflexivity.
Qed.

Theorem register_erc20_dup auth ext a s :
  is_Some (st_addr s !! a) \/ is_Some (st_denom s !! TErc20 a) ->
  step (OpRegErc20 auth ext a) s = (s, Rejected).
Proof.
  intros H. cbn [step]. unfold register_erc20.
  destruct (negb auth); [reflexivity|]. destruct (negb (st_enable s)); [reflexivity|].
  destruct H as [H|H]; rewrite (is_some_true _ H).
  - reflexivity.
  - destruct (is_some (st_addr s !! a)); [reflexivity|]. destruct (negb ext); reflexivity.
Qed.

(* in the words of the property: for every listed pair, registering its denomination again
   (as a coin), its contract again (as an ERC-20), or the contract whose coin would get a
   listed denomination (cross-registration) is rejected and changes nothing *)
Theorem dup_rejected s p :
  Inv s -> p ∈ listing s ->
  (forall auth ext fresh, step (OpRegCoin auth ext (p_denom p) fresh) s = (s, Rejected)) /\
  (forall auth ext, step (OpRegErc20 auth ext (p_addr p)) s = (s, Rejected)) /\
  (forall auth ext a, p_denom p = TErc20 a -> step (OpRegErc20 auth ext a) s = (s, Rejected)).
Proof.
  intros HI Hp. pose proof (listed_key s p HI Hp) as Hk.
  destruct (inv_fwd s HI _ _ Hk) as [Fd Fa]. repeat split.
  - intros. apply register_coin_dup. eauto.
  - intros. apply register_erc20_dup. left. eauto.
  - intros auth ext a E. apply register_erc20_dup. right. rewrite <- E. eauto.
Qed.

(** ** Toggle *)
Theorem toggle_only_flag auth t s s' :
  Inv s -> step (OpToggle auth t) s = (s', Ok) ->
  exists p,
    lookup_tok s t = Some p /\
    st_pairs s !! id_of p = Some p /\
    st_pairs s' = <[id_of p := flip p]> (st_pairs s) /\
    st_denom s' = st_denom s /\ st_addr s' = st_addr s /\ st_enable s' = st_enable s /\
    p_addr (flip p) = p_addr p /\ p_denom (flip p) = p_denom p /\ p_owner (flip p) = p_owner p /\
    p_enabled (flip p) = negb (p_enabled p).
Proof.
  intros HI. cbn [step]. unfold toggle, lookup_tok. destruct (negb auth); [discriminate|].
  destruct (get_pair_id s t) as [i|]; [|discriminate].
  destruct (get_pair s i) as [p|] eqn:Ep; [|discriminate].
  intros E. injection E as <-. exists p. unfold get_pair in Ep.
  pose proof (inv_key s HI _ _ Ep) as ->. cbn. repeat split; auto.
Qed.

(* every lookup answers as before, except that the toggled pair shows the flipped flag *)
Theorem toggle_lookups auth t s s' :
  Inv s -> step (OpToggle auth t) s = (s', Ok) ->
  exists p, lookup_tok s t = Some p /\
    (forall i, get_pair s' i = (fun q => if decide (q = p) then flip p else q) <$> get_pair s i) /\
    (forall t', lookup_tok s' t' = (fun q => if decide (q = p) then flip p else q) <$> lookup_tok s t').
Proof.
  intros HI Hs. destruct (toggle_only_flag _ _ _ _ HI Hs) as (p & Hl & Hk & Hp & Hd & Ha & _).
  exists p. split; [exact Hl|].
  assert (G : forall i, get_pair s' i = (fun q => if decide (q = p) then flip p else q) <$> get_pair s i).
  { intros i. unfold get_pair. rewrite Hp. destruct (decide (i = id_of p)) as [->|Hne].
    - rewrite lookup_insert, Hk. cbn. rewrite decide_True by reflexivity. reflexivity.
    - rewrite lookup_insert_ne by congruence.
      destruct (st_pairs s !! i) as [q|] eqn:Eq; [|reflexivity]. cbn.
      rewrite decide_False; [reflexivity|]. intros ->.
      apply Hne. exact (inv_key s HI _ _ Eq). }
  split; [exact G|]. intros t'. unfold lookup_tok, get_pair_id, get_id_by_addr, get_id_by_denom.
  rewrite Hd, Ha.
  destruct (match hex_of t' with
            | Some a => match st_addr s !! a with Some i => Some i | None => st_denom s !! t' end
            | None => st_denom s !! t' end) as [i|]; [apply G|reflexivity].
Qed.

Lemma flip_flip p : flip (flip p) = p.
Proof. destruct p as [a d e o]. unfold flip. cbn. rewrite negb_involutive. reflexivity. Qed.

Theorem toggle_twice auth t s s1 s2 :
  Inv s -> step (OpToggle auth t) s = (s1, Ok) -> step (OpToggle auth t) s1 = (s2, Ok) -> s2 = s.
Proof.
  intros HI H1 H2.
  destruct (toggle_only_flag _ _ _ _ HI H1) as (p & Hl & Hk & Hp & Hd & Ha & He & _).
  assert (HI1 : Inv s1). { replace s1 with (step (OpToggle auth t) s).1 by (rewrite H1; reflexivity). apply step_inv; [exact HI|exact I]. }
  destruct (toggle_lookups _ _ _ _ HI H1) as (p' & Hl' & _ & HL). assert (p' = p) by congruence. subst p'.
  destruct (toggle_only_flag _ _ _ _ HI1 H2) as (q & Hlq & Hkq & Hpq & Hdq & Haq & Heq & _).
  rewrite HL, Hl in Hlq. cbn in Hlq. rewrite decide_True in Hlq by reflexivity.
  injection Hlq as <-.
  destruct s as [P D A en], s2 as [P2 D2 A2 en2]. cbn in *. f_equal; try congruence.
  rewrite Hpq, Hp. change (id_of (flip p)) with (id_of p). rewrite insert_insert.
  rewrite flip_flip.
  apply insert_id. exact Hk.
Qed.

(** ** Removal of a pair whose contract is gone *)
Theorem delete_all_three coin t dead s s' :
  Inv s -> step (OpConvert coin t dead) s = (s', Ok) ->
  exists p,
    lookup_tok s t = Some p /\ p_addr p ∈ dead /\
    s' = delete_pair p s /\
    (* all three entries are gone *)
    st_pairs s' !! id_of p = None /\ st_denom s' !! p_denom p = None /\ st_addr s' !! p_addr p = None /\
    (* nothing else is touched *)
    (forall q, q ∈ listing s' <-> q ∈ listing s /\ q <> p) /\
    (forall d, d <> p_denom p -> st_denom s' !! d = st_denom s !! d) /\
    (forall a, a <> p_addr p -> st_addr s' !! a = st_addr s !! a) /\
    (* and no lookup reaches it or anything with its denomination or address any more *)
    (forall t' q, lookup_tok s' t' = Some q -> p_denom q <> p_denom p /\ p_addr q <> p_addr p).
Proof.
  intros HI Hs.
  assert (HI' : Inv s'). { replace s' with (step (OpConvert coin t dead) s).1 by (rewrite Hs; reflexivity). apply step_inv; [exact HI|exact I]. }
  revert Hs. cbn [step]. unfold convert, lookup_tok. destruct (negb (st_enable s)); [discriminate|].
  destruct (get_pair_id s t) as [i|]; [|discriminate].
  destruct (get_pair s i) as [p|] eqn:Ep; [|discriminate].
  destruct (negb (p_enabled p)); [discriminate|].
  destruct (coin && negb (bool_decide (t = p_denom p))); [discriminate|].
  destruct (existsb (Z.eqb (p_addr p)) dead) eqn:Ex; [|discriminate].
  intros E. injection E as <-. exists p. unfold get_pair in Ep.
  pose proof (inv_key s HI _ _ Ep) as ->.
  assert (Hdead : p_addr p ∈ dead).
  { apply existsb_exists in Ex as (x & Hin & Hx). apply Z.eqb_eq in Hx. subst x.
    apply elem_of_list_In. exact Hin. }
  assert (HL : forall q, q ∈ listing (delete_pair p s) <-> q ∈ listing s /\ q <> p).
  { intros q. rewrite !elem_of_listing. cbn. split.
    - intros (j & Hj). apply lookup_delete_Some in Hj as [Hne Hj]. split; [eauto|].
      intros ->. apply Hne. symmetry. exact (inv_key s HI _ _ Hj).
    - intros ((j & Hj) & Hne). exists j. rewrite lookup_delete_ne; [exact Hj|].
      intros <-. congruence. }
  cbn. rewrite !lookup_delete.
  split; [reflexivity|]. split; [exact Hdead|]. split; [reflexivity|].
  split; [reflexivity|]. split; [reflexivity|]. split; [reflexivity|].
  split; [exact HL|].
  split; [intros d Hd; apply lookup_delete_ne; congruence|].
  split; [intros a Ha; apply lookup_delete_ne; congruence|].
  intros t' q Hq. fold (lookup_tok (delete_pair p s) t') in Hq.
  pose proof (lookup_sound _ _ _ Hq) as Hin.
  apply elem_of_listing in Hin as (j & Hj). destruct (inv_fwd _ HI' _ _ Hj) as [Fd Fa].
  split; intros E; rewrite E in *; cbn in Fd, Fa; rewrite lookup_delete in *; discriminate.
Qed.

(** ** Genesis *)
Theorem export_import_id s : Inv s -> step OpExportImport s = (s, Ok).
Proof.
  intros HI. cbn [step]. rewrite export_import_state; [reflexivity|apply HI].
Qed.

(** * Non-vacuity, and the two places where a hypothesis is really needed *)
Definition ex_A : Z := 0xa427e5503d1395d3e4d235f818d7ab7903d35f23.
Definition ex_B : Z := 0x80b5a32e4f032b2a058b4f29ec95eefeeb87adcd.
Definition ex_C : Z := 0xd567b3d7b8fe3c79a1ad8da978812cfc4fa05e75.

(* register an ERC-20, a coin, toggle by denomination and by address, kill the coin's
   contract and convert (removal), register the coin again, export/import *)
Definition ex_history : list op :=
  [OpRegErc20 true true ex_A; OpRegCoin true true (TPlain 1) ex_B;
   OpRegCoin true true (TPlain 1) ex_C; OpRegErc20 true true ex_B;
   OpToggle true (TPlain 1); OpToggle true (THex ex_A 2); OpToggle true (TPlain 1);
   OpConvert true (TPlain 1) [ex_B]; OpRegCoin true true (TPlain 1) ex_C; OpExportImport].

Example ex_history_ok : hist_ok (empty_state true) ex_history.
Proof. vm_compute. tauto. Qed.

Example ex_history_listing :
  listing (run ex_history (empty_state true)) ≡ₚ
  [mkPair ex_A (TErc20 ex_A) false OwnerExternal; mkPair ex_C (TPlain 1) true OwnerModule].
Proof. vm_compute. apply Permutation_swap || reflexivity. Qed.

(* a hex-shaped denomination that is the address of no other pair is found (the F4 repair) *)
Example ex_hex_denom_found :
  let s := run [OpRegErc20 true true ex_A; OpRegCoin true true (THex ex_C 1) ex_B] (empty_state true) in
  lookup_tok s (THex ex_C 1) = Some (mkPair ex_B (THex ex_C 1) true OwnerModule).
Proof. vm_compute. reflexivity. Qed.

(* WITHOUT the hypothesis [not_shadowed] the agreement of lookups is false of the code as it
   is: after registering contract A and then a coin whose base denomination is the 40 hex
   digits of A, the lookup by that denomination returns the pair of A. *)
Theorem lookup_by_denom_unconditional_refuted :
  exists os, hist_ok (empty_state true) os /\
    let s := run os (empty_state true) in
    exists p, p ∈ listing s /\ lookup_tok s (p_denom p) <> Some p.
Proof.
  exists [OpRegErc20 true true ex_A; OpRegCoin true true (THex ex_A 1) ex_B].
  split; [vm_compute; tauto|]. cbn zeta.
  exists (mkPair ex_B (THex ex_A 1) true OwnerModule). split.
  - apply elem_of_listing. exists (ex_B, THex ex_A 1). vm_compute. reflexivity.
  - vm_compute. discriminate.
Qed.

(* the same history also makes a toggle "by denomination" flip the other pair *)
Example shadowed_toggle_hits_other_pair :
  let s := run [OpRegErc20 true true ex_A; OpRegCoin true true (THex ex_A 1) ex_B] (empty_state true) in
  let s' := (step (OpToggle true (THex ex_A 1)) s).1 in
  get_pair s' (ex_A, TErc20 ex_A) = Some (mkPair ex_A (TErc20 ex_A) false OwnerExternal) /\
  get_pair s' (ex_B, THex ex_A 1) = Some (mkPair ex_B (THex ex_A 1) true OwnerModule).
Proof. vm_compute. auto. Qed.

(* WITHOUT [fresh_ok] (the EVM handing out an address that is already registered) the
   invariant would break: RegisterCoin does not check the address index *)
Example fresh_needed :
  let s := run [OpRegErc20 true true ex_A; OpRegCoin true true (TPlain 1) ex_A] (empty_state true) in
  ~ Inv s.
Proof.
  cbn zeta. intros HI.
  pose proof (inv_fwd _ HI (ex_A, TErc20 ex_A) (mkPair ex_A (TErc20 ex_A) true OwnerExternal)) as F.
  assert (E : st_pairs (run [OpRegErc20 true true ex_A; OpRegCoin true true (TPlain 1) ex_A] (empty_state true))
              !! (ex_A, TErc20 ex_A) = Some (mkPair ex_A (TErc20 ex_A) true OwnerExternal)) by (vm_compute; reflexivity).
  destruct (F E) as [_ Fa]. vm_compute in Fa. discriminate.
Qed.

(** * The Boolean form of the invariant used by the checker is the invariant *)
Theorem inv_b_spec s : inv_b s = true <-> Inv s.
Proof.
  unfold inv_b. rewrite !andb_true_iff, !forallb_forall. split.
  - intros [[HP HD] HA]. split.
    + intros i p Hp. specialize (HP (i, p)). cbn in HP.
      rewrite !andb_true_iff, !bool_decide_eq_true in HP.
      apply HP, elem_of_list_In, elem_of_map_to_list, Hp.
    + intros i p Hp. specialize (HP (i, p)). cbn in HP.
      rewrite !andb_true_iff, !bool_decide_eq_true in HP.
      destruct HP as [[_ ?] ?]; [apply elem_of_list_In, elem_of_map_to_list, Hp|auto].
    + intros d i Hi. specialize (HD (d, i)). cbn in HD.
      destruct (st_pairs s !! i) as [p|].
      * exists p. split; [reflexivity|]. eapply bool_decide_eq_true.
        apply HD, elem_of_list_In, elem_of_map_to_list, Hi.
      * discriminate HD. apply elem_of_list_In, elem_of_map_to_list, Hi.
    + intros a i Hi. specialize (HA (a, i)). cbn in HA.
      destruct (st_pairs s !! i) as [p|].
      * exists p. split; [reflexivity|]. eapply bool_decide_eq_true.
        apply HA, elem_of_list_In, elem_of_map_to_list, Hi.
      * discriminate HA. apply elem_of_list_In, elem_of_map_to_list, Hi.
  - intros [K F D A]. repeat split.
    + intros [i p] Hin. apply elem_of_list_In, elem_of_map_to_list in Hin. cbn.
      destruct (F _ _ Hin) as [Fd Fa]. rewrite !andb_true_iff, !bool_decide_eq_true. auto.
    + intros [d i] Hin. apply elem_of_list_In, elem_of_map_to_list in Hin. cbn.
      destruct (D _ _ Hin) as (p & -> & Hp). apply bool_decide_eq_true. exact Hp.
    + intros [a i] Hin. apply elem_of_list_In, elem_of_map_to_list in Hin. cbn.
      destruct (A _ _ Hin) as (p & -> & Hp). apply bool_decide_eq_true. exact Hp.
Qed.

(** ** Non-vacuity of the hypotheses of the individual theorems *)
Definition ex_state : state := run ex_history (empty_state true).

Example ex_inv : Inv ex_state /\ inv_b ex_state = true /\ length (listing ex_state) = 2%nat.
Proof. split; [apply history_inv, ex_history_ok|]. split; vm_compute; reflexivity. Qed.

(* an accepted toggle (by a spelling of the address) and an accepted removal from that state *)
Example ex_toggle_accepted : exists s', step (OpToggle true (THex ex_A 4)) ex_state = (s', Ok).
Proof. eexists. vm_compute. reflexivity. Qed.

Example ex_removal_accepted : exists s', step (OpConvert true (TPlain 1) [ex_C]) ex_state = (s', Ok).
Proof. eexists. vm_compute. reflexivity. Qed.

(* a listed pair with a hex-shaped denomination that is not shadowed *)
Example ex_not_shadowed_hex :
  let s := run [OpRegErc20 true true ex_A; OpRegCoin true true (THex ex_C 1) ex_B] (empty_state true) in
  let p := mkPair ex_B (THex ex_C 1) true OwnerModule in
  Inv s /\ p ∈ listing s /\ not_shadowed s p.
Proof.
  cbn zeta. split; [apply history_inv; vm_compute; tauto|]. split.
  - apply elem_of_listing. exists (ex_B, THex ex_C 1). vm_compute. reflexivity.
  - intros a Ha. cbn in Ha. injection Ha as <-. right. vm_compute. reflexivity.
Qed.
