(** Coinswap proofs, part 6: histories (C01 over any sequence of operations),
    add-then-remove, swap round trips, who can be debited (C07),
    boundaries of the user-set limits (C08), onboarding auto-swaps (C09). *)
From Coq Require Import ZArith List Bool Lia.
From Canto Require Import Lib.SdkInt Lib.SdkDec Lib.SdkDecProofs Model.Coinswap
     Proofs.CoinswapBase Proofs.CoinswapEffects Proofs.CoinswapValue Proofs.CoinswapWF Proofs.CoinswapLaws.
Import ListNotations.
Open Scope Z_scope.

(** * pools are never removed *)
Lemma deliver_pools now s o :
  WF s ->
  st_pools (fst (deliver now s o)) = st_pools s \/
  exists tokn, lookup_pool tokn (st_pools s) = None /\
               st_pools (fst (deliver now s o)) = (tokn, st_next s) :: st_pools s.
Proof.
  intros W. unfold deliver. destruct (exec now s o) as [[s1 r]|] eqn:E; cbn [fst]; [|left; reflexivity].
  destruct o.
  - destruct (swap_conserves now s _ _ _ W E) as (q & _ & _ & _ & P & _). left. exact P.
  - destruct (swap_conserves now s _ _ _ W E) as (q & _ & _ & _ & P & _). left. exact P.
  - destruct (add_ok now s _ _ _ _ _ _ _ _ W E)
      as (tokn & q & m & std_in & dep & A & tax & -> & _ & HL' & _ & _ & _ & _ & _ & _ & _ & _ & _ & _ & Hcase & _).
    cbn [exec] in E. inv. bool_hyps. inv. destruct v as [s2 mm]. cbn [fst snd] in *.
    match goal with HA : add_liquidity _ _ _ _ _ _ = Some _ |- _ =>
      destruct (add_liquidity_effect _ _ _ _ _ _ _ _ HA (wf_params _ W) ltac:(lia) ltac:(lia)) as (_ & _ & HC) end.
    destruct HC as [tax' LP P1 P2 _ _ _ _ _ _ _|q0 LP _ P1 P2 _ _ _ _ _|q0 LP _ P1 P2 _ _ _ _ _ _ _ _ _ _ _ _ _ _ _].
    + right. exists tokn. auto.
    + left. exact P1.
    + left. exact P1.
  - destruct (remove_ok now s _ _ _ _ _ _ _ _ W E) as (q & n & ps & pt & -> & _).
    cbn [exec] in E. inv. bool_hyps. inv. destruct v as [s2 [a b]]. cbn [fst snd] in *.
    match goal with HA : remove_liquidity _ _ _ _ _ _ = Some _ |- _ =>
      destruct (remove_liquidity_effect _ _ _ _ _ _ _ _ _ HA ltac:(lia)) as (tk & _ & _ & _ & _ & _ & _ & _ & _ & _ & [M1 M2 M3] & _) end.
    left. exact M3.
  - cbn [exec] in E. inv.
    match goal with HA : send _ _ _ _ _ = Some _ |- _ =>
      destruct (send_spec _ _ _ _ _ _ HA ltac:(bool_hyps; lia)) as ([M1 M2 M3] & _) end.
    left. exact M3.
  - cbn [exec] in E. inv. bool_hyps. destruct v as [s2 b]. cbn [fst] in *.
    match goal with HA : trade_buy _ _ _ _ _ _ _ = Some _ |- _ =>
      destruct (trade_buy_effect _ _ _ _ _ _ _ _ _ HA ltac:(lia) (wf_params _ W)) as (q0 & _ & _ & _ & _ & _ & _ & _ & _ & [M1 M2 M3] & _) end.
    left. exact M3.
  - cbn [exec] in E. inv. left. reflexivity.
  - cbn [exec] in E. discriminate.
Qed.

Lemma deliver_pool_persist now s o n q :
  WF s -> lookup_pool n (st_pools s) = Some q ->
  lookup_pool n (st_pools (fst (deliver now s o))) = Some q.
Proof.
  intros W HL. destruct (deliver_pools now s o W) as [->|(tokn & HN & ->)]; [exact HL|].
  cbn [lookup_pool]. destruct (Z.eqb_spec tokn n); [subst; congruence|exact HL].
Qed.

(** * C01 over histories *)
(* the pool keeps outstanding tokens at every point of the history *)
Fixpoint alive (h : list (Z * op)) (s : state) (q : Z) : Prop :=
  match h with
  | [] => True
  | (now, o) :: r => 0 < RL (fst (deliver now s o)) q /\ alive r (fst (deliver now s o)) q
  end.

Lemma value_trans s0 s1 s2 n q :
  value_le s0 s1 n q -> value_le s1 s2 n q -> 0 < RL s1 q ->
  0 <= RX s0 q * RY s0 q n -> 0 <= RX s2 q * RY s2 q n ->
  value_le s0 s2 n q.
Proof.
  unfold value_le. intros H1 H2 HL HA HC.
  set (A := RX s0 q * RY s0 q n) in *. set (B := RX s1 q * RY s1 q n) in *. set (C := RX s2 q * RY s2 q n) in *.
  set (l0 := RL s0 q) in *. set (l1 := RL s1 q) in *. set (l2 := RL s2 q) in *.
  assert (K1 : A * (l1 * l1) * (l2 * l2) <= B * (l0 * l0) * (l2 * l2)) by (apply Z.mul_le_mono_nonneg_r; [nia|exact H1]).
  assert (K2 : B * (l2 * l2) * (l0 * l0) <= C * (l1 * l1) * (l0 * l0)) by (apply Z.mul_le_mono_nonneg_r; [nia|exact H2]).
  assert (K3 : (A * (l2 * l2)) * (l1 * l1) <= (C * (l0 * l0)) * (l1 * l1)) by nia.
  apply Z.mul_le_mono_pos_r with (p := l1 * l1); [nia|exact K3].
Qed.

Theorem value_history h : forall s n q,
  WF s -> lookup_pool n (st_pools s) = Some q -> 0 < RL s q -> alive h s q ->
  value_le s (run h s) n q.
Proof.
  induction h as [|[now o] r IH]; intros s n q W HL L0 HA; cbn [run].
  - apply value_refl.
  - destruct HA as [L1 HA].
    pose proof (deliver_WF now s o W) as W1.
    pose proof (deliver_pool_persist now s o n q W HL) as HL1.
    pose proof (value_step now s o n q W HL L0 L1) as V1.
    pose proof (IH _ n q W1 HL1 L1 HA) as V2.
    pose proof (run_WF r _ W1) as W2.
    eapply value_trans; eauto.
    + pose proof (wf_nonneg _ W (Escrow q) Std). pose proof (wf_nonneg _ W (Escrow q) (Tok n)). unfold RX, RY. nia.
    + pose proof (wf_nonneg _ W2 (Escrow q) Std). pose proof (wf_nonneg _ W2 (Escrow q) (Tok n)). unfold RX, RY. nia.
Qed.

(** * add-then-remove never returns more than was deposited (pool with outstanding tokens) *)
Theorem add_then_remove now now' s u n q max_tok exact_std min_liq dl s1 m min_std min_tok dl' s2 ps pt :
  WF s -> lookup_pool n (st_pools s) = Some q -> 0 < st_sup s (Lpt q) ->
  exec now s (AddLiq u (Tok n) max_tok exact_std min_liq dl) = Some (s1, [m]) ->
  exec now' s1 (RemoveLiq u (Lpt q) m min_std min_tok dl') = Some (s2, [ps; pt]) ->
  ps <= st_bal s1 (Escrow q) Std - st_bal s (Escrow q) Std /\
  pt <= st_bal s1 (Escrow q) (Tok n) - st_bal s (Escrow q) (Tok n).
Proof.
  intros W HL L0 E1 E2.
  assert (W1 : WF s1).
  { pose proof (deliver_WF now s (AddLiq u (Tok n) max_tok exact_std min_liq dl) W) as X.
    unfold deliver in X. rewrite E1 in X. exact X. }
  destruct (add_ok now s _ _ _ _ _ _ _ _ W E1)
    as (tokn & q' & m' & std_in & dep & A & tax & ET & ER & HL' & _ & Hs & Hd & _ & Hm0 & EX & EY & HB & HS & _ & Hcase & _).
  inversion ET; subst tokn. inversion ER; subst m'.
  destruct Hcase as [(HNone & _)|(HL2 & -> & -> & Hc)]; [congruence|].
  assert (q' = q) by congruence. subst q'.
  destruct Hc as [(Hz & _)|(_ & HXpos & Hstd & Hm & Hdep)]; [lia|].
  destruct (remove_ok now' s1 _ _ _ _ _ _ _ _ W1 E2)
    as (q2 & n2 & ps' & pt' & EQ & ER2 & HL3 & _ & _ & _ & _ & _ & _ & _ & _ & _ & _ & B1 & B2 & _).
  inversion EQ; subst q2. inversion ER2; subst ps' pt'.
  assert (n2 = n).
  { pose proof (deliver_pool_persist now s (AddLiq u (Tok n) max_tok exact_std min_liq dl) n q W HL) as P.
    unfold deliver in P. rewrite E1 in P. cbn [fst] in P.
    eapply pools_ok_inj; [apply (wf_pools _ W1)|exact HL3|exact P]. }
  subst n2. cbv zeta in B1, B2.
  assert (EL : st_sup s1 (Lpt q) = st_sup s (Lpt q) + m).
  { rewrite HS. unfold delta. rewrite denom_eqb_refl. destruct (denom_eqb _ _); lia. }
  rewrite EX, EY, EL in *.
  set (X := st_bal s (Escrow q) Std) in *. set (Y := st_bal s (Escrow q) (Tok n)) in *. set (L := st_sup s (Lpt q)) in *.
  pose proof (wf_nonneg _ W (Escrow q) (Tok n)) as NY. fold Y in NY.
  assert (M1 : m * X <= L * std_in).
  { rewrite Hm. rewrite Z.mul_comm. apply Z.mul_div_le. lia. }
  assert (D1 : Y * std_in < dep * X).
  { rewrite Hdep. pose proof (Z.mul_succ_div_gt (Y * std_in) X HXpos) as T. unfold Z.succ in T. lia. }
  replace (X + std_in - X) with std_in by lia. replace (Y + dep - Y) with dep by lia.
  destruct B1 as [B1 _]. destruct B2 as [B2 _].
  split.
  - (* ps (L + m) <= m (X + std_in) and m X <= L std_in *)
    destruct (Z_le_gt_dec ps std_in) as [|Hgt]; [assumption|exfalso].
    assert ((std_in + 1) * (L + m) <= ps * (L + m)) by (apply Z.mul_le_mono_nonneg_r; lia).
    nia.
  - destruct (Z_le_gt_dec pt dep) as [|Hgt]; [assumption|exfalso].
    assert (K : (dep + 1) * (L + m) <= pt * (L + m)) by (apply Z.mul_le_mono_nonneg_r; lia).
    assert (K2 : (dep + 1) * (L + m) <= m * (Y + dep)) by lia.
    assert (K3 : dep * L + L + m <= m * Y) by nia.
    assert (K4 : (dep * L + L + m) * X <= m * Y * X) by (apply Z.mul_le_mono_nonneg_r; lia).
    assert (K5 : m * X * Y <= L * std_in * Y) by (apply Z.mul_le_mono_nonneg_r; lia).
    assert (K6 : L * (Y * std_in) <= L * (dep * X)) by (apply Z.mul_le_mono_nonneg_l; lia).
    nia.
Qed.

(** * swap round trips by one trader on one pool *)
(* every message of the history is a sell or buy order of trader [t], paid to [t],
   between the standard coin and token [n] *)
Definition swap_by (t n : Z) (o : op) : Prop :=
  match o with
  | Sell u rec din _ dout _ _ | Buy u rec din _ dout _ _ =>
      u = t /\ rec = User t /\ ((din = Std /\ dout = Tok n) \/ (din = Tok n /\ dout = Std))
  | _ => False
  end.

Record trip_inv (s0 s : state) (t n q : Z) : Prop := {
  ti_wf : WF s;
  ti_pool : lookup_pool n (st_pools s) = Some q;
  ti_std : st_bal s (User t) Std + RX s q = st_bal s0 (User t) Std + RX s0 q;
  ti_tok : st_bal s (User t) (Tok n) + RY s q n = st_bal s0 (User t) (Tok n) + RY s0 q n;
  ti_prod : RX s0 q * RY s0 q n <= RX s q * RY s q n
}.

Lemma trip_step now s0 s t n q o :
  trip_inv s0 s t n q -> swap_by t n o -> trip_inv s0 (fst (deliver now s o)) t n q.
Proof.
  intros [W HL I1 I2 I3] HS.
  pose proof (deliver_WF now s o W) as W1.
  pose proof (deliver_pool_persist now s o n q W HL) as HL1.
  unfold deliver in *. destruct (exec now s o) as [[s1 r]|] eqn:E; cbn [fst] in *; [|split; assumption].
  destruct o; try contradiction; destruct HS as (-> & -> & Hd).
  - destruct (sell_ok now s _ _ _ _ _ _ _ _ _ W E)
      as (q0 & n0 & out & mx & _ & HP & HL0 & _ & HX & HY & Hpay & _ & Hout & Hrec & Hesc & _ & Hprod & _).
    cbv zeta in *.
    assert (q0 = q /\ n0 = n).
    { destruct (pool_of_inv _ _ _ _ HP) as (k & HLk & Hk).
      assert (k = n) by (destruct Hd as [[-> ->]|[-> ->]], Hk as [[A B]|[A B]]; congruence). subst k.
      assert (q0 = q) by congruence. subst q0. split; [reflexivity|].
      eapply pools_ok_inj; [apply (wf_pools _ W)|exact HL0|exact HL]. }
    destruct H as [-> ->].
    assert (Hne : User t <> Escrow q) by discriminate.
    specialize (Hrec Hne). destruct (Hesc Hne) as [E1 E2].
    destruct Hd as [[-> ->]|[-> ->]]; unfold RX, RY in *.
    + split; unfold RX, RY in *; try assumption; try lia; try (rewrite E1, E2; lia); try (rewrite E1, E2; nia).
    + split; unfold RX, RY in *; try assumption; try lia; try (rewrite E1, E2; lia); try (rewrite E1, E2; nia).
  - destruct (buy_ok now s _ _ _ _ _ _ _ _ _ W E)
      as (q0 & n0 & sold & mx & _ & HP & HL0 & _ & HX & HY & Hsold & Hpay & Hrec & Hesc & _ & Hprod & _).
    cbv zeta in *.
    assert (q0 = q /\ n0 = n).
    { destruct (pool_of_inv _ _ _ _ HP) as (k & HLk & Hk).
      assert (k = n) by (destruct Hd as [[-> ->]|[-> ->]], Hk as [[A B]|[A B]]; congruence). subst k.
      assert (q0 = q) by congruence. subst q0. split; [reflexivity|].
      eapply pools_ok_inj; [apply (wf_pools _ W)|exact HL0|exact HL]. }
    destruct H as [-> ->].
    assert (Hne : User t <> Escrow q) by discriminate.
    specialize (Hrec Hne). destruct (Hesc Hne) as [E1 E2].
    destruct Hd as [[-> ->]|[-> ->]]; unfold RX, RY in *.
    + split; unfold RX, RY in *; try assumption; try lia; try (rewrite E1, E2; lia); try (rewrite E1, E2; nia).
    + split; unfold RX, RY in *; try assumption; try lia; try (rewrite E1, E2; lia); try (rewrite E1, E2; nia).
Qed.

Lemma trip_run h : forall s0 s t n q,
  trip_inv s0 s t n q -> Forall (fun e => swap_by t n (snd e)) h -> trip_inv s0 (run h s) t n q.
Proof.
  induction h as [|[now o] r IH]; intros s0 s t n q HI HF; cbn [run]; [exact HI|].
  inversion HF as [|? ? H1 H2]; subst. cbn [snd] in H1.
  apply IH; [|exact H2]. apply trip_step; assumption.
Qed.

(* C01: no round trip of swaps returns more than it started with *)
Theorem swap_round_trip h s t n q :
  WF s -> lookup_pool n (st_pools s) = Some q ->
  Forall (fun e => swap_by t n (snd e)) h ->
  let s' := run h s in
  (* back to the initial token holding: the standard-coin holding did not grow *)
  (st_bal s' (User t) (Tok n) = st_bal s (User t) (Tok n) -> 0 < RY s q n ->
     st_bal s' (User t) Std <= st_bal s (User t) Std) /\
  (* back to the initial standard-coin holding: the token holding did not grow *)
  (st_bal s' (User t) Std = st_bal s (User t) Std -> 0 < RX s q ->
     st_bal s' (User t) (Tok n) <= st_bal s (User t) (Tok n)).
Proof.
  intros W HL HF s'.
  assert (HI : trip_inv s s t n q) by (split; auto; lia).
  destruct (trip_run h s s t n q HI HF) as [W' _ I1 I2 I3]. fold s' in W', I1, I2, I3.
  pose proof (wf_nonneg _ W' (Escrow q) Std) as NX. pose proof (wf_nonneg _ W' (Escrow q) (Tok n)) as NY.
  unfold RX, RY in *.
  split; intros Heq Hpos.
  - assert (st_bal s' (Escrow q) (Tok n) = st_bal s (Escrow q) (Tok n)) by lia.
    assert (st_bal s (Escrow q) Std <= st_bal s' (Escrow q) Std) by nia. lia.
  - assert (st_bal s' (Escrow q) Std = st_bal s (Escrow q) Std) by lia.
    assert (st_bal s (Escrow q) (Tok n) <= st_bal s' (Escrow q) (Tok n)) by nia. lia.
Qed.

(** * C07 (coinswap part): only the paying account -- the message's signer -- and the pool escrow can be debited *)
Section Debit.
Variable now : Z.

Theorem only_payer_debited s o s' r :
  WF s -> exec now s o = Some (s', r) ->
  match o with
  | Sell u _ _ _ _ _ _ | Buy u _ _ _ _ _ _ | AddLiq u _ _ _ _ _ | RemoveLiq u _ _ _ _ _ =>
      forall x e, st_bal s' x e < st_bal s x e -> x = User u \/ exists q, x = Escrow q
  | _ => True
  end.
Proof.
  intros W E. destruct o; try exact I.
  - destruct (swap_conserves now s _ _ _ W E) as (q & _ & _ & _ & _ & _ & HO & _).
    cbn [exec] in E. inv. bool_hyps. destruct v as [s2 b]. cbn [fst] in *.
    match goal with HA : trade_sell _ _ _ _ _ _ _ = Some _ |- _ =>
      destruct (trade_sell_effect _ _ _ _ _ _ _ _ _ HA ltac:(lia) (wf_params _ W))
        as (q0 & _ & _ & _ & _ & _ & Hr0 & _ & _ & _ & _ & HB) end.
    intros x e Hlt. rewrite HB in Hlt. unfold delta in Hlt.
    destruct (at_ x (User sender) e din) eqn:A1; [apply at_true in A1 as [-> _]; left; reflexivity|].
    destruct (at_ x (Escrow q0) e dout) eqn:A2; [apply at_true in A2 as [-> _]; right; eauto|].
    destruct (at_ x (Escrow q0) e din), (at_ x recipient e dout); lia.
  - cbn [exec] in E. inv. bool_hyps. destruct v as [s2 b]. cbn [fst] in *.
    match goal with HA : trade_buy _ _ _ _ _ _ _ = Some _ |- _ =>
      destruct (trade_buy_effect _ _ _ _ _ _ _ _ _ HA ltac:(lia) (wf_params _ W))
        as (q0 & _ & _ & _ & _ & _ & Hr0 & _ & _ & _ & _ & HB) end.
    intros x e Hlt. rewrite HB in Hlt. unfold delta in Hlt.
    destruct (at_ x (User sender) e din) eqn:A1; [apply at_true in A1 as [-> _]; left; reflexivity|].
    destruct (at_ x (Escrow q0) e dout) eqn:A2; [apply at_true in A2 as [-> _]; right; eauto|].
    destruct (at_ x (Escrow q0) e din), (at_ x recipient e dout); lia.
  - destruct (add_ok now s _ _ _ _ _ _ _ _ W E)
      as (tokn & q & m & std_in & dep & A & tax & _ & _ & _ & _ & Hs & Hd & _ & Hm0 & _ & _ & HB & _ & HT & _).
    intros x e Hlt. rewrite HB in Hlt. unfold delta in Hlt.
    destruct (at_ x (User sender) e Std) eqn:A1; [apply at_true in A1 as [-> _]; left; reflexivity|].
    destruct (at_ x (User sender) e (Tok tokn)) eqn:A2; [apply at_true in A2 as [-> _]; left; reflexivity|].
    destruct (at_ x (User sender) e (p_cfee_denom (st_params s))) eqn:A3; [apply at_true in A3 as [-> _]; left; reflexivity|].
    destruct (at_ x (Escrow q) e Std), (at_ x (Escrow q) e (Tok tokn)), (at_ x (User sender) e (Lpt q)),
             (at_ x M_feecollector e (p_cfee_denom (st_params s))); lia.
  - destruct (remove_ok now s _ _ _ _ _ _ _ _ W E)
      as (q & n & ps & pt & _ & _ & _ & _ & _ & _ & _ & _ & _ & _ & _ & _ & _ & _ & _ & _ & HO).
    intros x e Hlt.
    destruct (acct_eqb_spec x (User sender)); [left; assumption|].
    destruct (acct_eqb_spec x (Escrow q)); [right; eauto|].
    rewrite (HO x n0 n1 e) in Hlt. lia.
Qed.
End Debit.

(** * C08: the user-set bounds are sharp: just met is accepted, just missed is rejected *)
Lemma sell_min_boundary s a rec din ain dout m s' out :
  trade_sell s a rec din ain dout m = Some (s', out) ->
  trade_sell s a rec din ain dout out = Some (s', out) /\
  trade_sell s a rec din ain dout (out + 1) = None.
Proof.
  intros H. unfold trade_sell in *.
  destruct (pool_of s din dout) as [q|]; cbn [obind] in *; [|discriminate].
  destruct (0 <? st_bal s (Escrow q) din); [|discriminate].
  destruct (0 <? st_bal s (Escrow q) dout); [|discriminate].
  destruct (input_price ain (st_bal s (Escrow q) din) (st_bal s (Escrow q) dout) (p_fee (st_params s))) as [b|];
    cbn [obind] in *; [|discriminate].
  destruct (negb (b <? m)) eqn:G; [|discriminate].
  assert (b = out).
  { destruct (negb (b <? 0)); [|discriminate]. destruct (quote din ain dout b) as [qd qa].
    destruct (wl_lookup qd (p_wl (st_params s))); cbn [obind] in *; [|discriminate].
    destruct (negb (z <? qa)); [|discriminate].
    destruct (send s a (Escrow q) din ain); cbn [obind] in *; [|discriminate].
    destruct (send s0 (Escrow q) rec dout b); cbn [obind] in *; [|discriminate]. congruence. }
  subst b. split.
  - rewrite Z.ltb_irrefl. cbn [negb]. exact H.
  - assert (Hlt : (out <? out + 1) = true) by (apply Z.ltb_lt; lia). rewrite Hlt. reflexivity.
Qed.

Lemma buy_max_boundary s a rec din mx dout aout s' sold :
  trade_buy s a rec din mx dout aout = Some (s', sold) ->
  trade_buy s a rec din sold dout aout = Some (s', sold) /\
  trade_buy s a rec din (sold - 1) dout aout = None.
Proof.
  intros H. unfold trade_buy in *.
  destruct (pool_of s dout din) as [q|]; cbn [obind] in *; [|discriminate].
  destruct (0 <? st_bal s (Escrow q) din); [|discriminate].
  destruct (0 <? st_bal s (Escrow q) dout); [|discriminate].
  destruct (aout <? st_bal s (Escrow q) dout); [|discriminate].
  destruct (output_price aout (st_bal s (Escrow q) din) (st_bal s (Escrow q) dout) (p_fee (st_params s))) as [b|];
    cbn [obind] in *; [|discriminate].
  destruct (negb (mx <? b)) eqn:G; [|discriminate].
  assert (b = sold).
  { destruct (negb (b <? 0)); [|discriminate]. destruct (quote dout aout din b) as [qd qa].
    destruct (wl_lookup qd (p_wl (st_params s))); cbn [obind] in *; [|discriminate].
    destruct (negb (z <? qa)); [|discriminate].
    destruct (send s a (Escrow q) din b); cbn [obind] in *; [|discriminate].
    destruct (send s0 (Escrow q) rec dout aout); cbn [obind] in *; [|discriminate]. congruence. }
  subst b. split.
  - rewrite Z.ltb_irrefl. cbn [negb]. exact H.
  - assert (Hlt : (sold - 1 <? sold) = true) by (apply Z.ltb_lt; lia). rewrite Hlt. reflexivity.
Qed.

(** * C09 for onboarding auto-swaps: the same whitelist and per-swap maximum apply *)
Theorem autoswap_ok now s u din max_in thr s' r :
  WF s -> exec now s (AutoSwap u din max_in thr) = Some (s', r) ->
  exists q n sold mx,
    r = [sold] /\ din = Tok n /\ lookup_pool n (st_pools s) = Some q /\
    wl_lookup (Tok n) (p_wl (st_params s)) = Some mx /\ 0 < sold <= max_in /\ sold <= mx /\
    st_bal s' (User u) Std = st_bal s (User u) Std + thr /\
    st_bal s' (User u) din = st_bal s (User u) din - sold /\
    st_bal s' (Escrow q) Std = st_bal s (Escrow q) Std - thr /\
    st_bal s' (Escrow q) din = st_bal s (Escrow q) din + sold /\
    (forall e, st_sup s' e = st_sup s e) /\
    (forall x, x <> User u -> x <> Escrow q -> forall e, st_bal s' x e = st_bal s x e).
Proof.
  intros W E. cbn [exec] in E. inv. bool_hyps. destruct v as [s2 b]. cbn [fst snd] in *.
  match goal with HA : trade_buy _ _ _ _ _ _ _ = Some _ |- _ =>
    destruct (trade_buy_effect _ _ _ _ _ _ _ _ _ HA ltac:(lia) (wf_params _ W))
      as (q0 & HP & HX & HY & Hr & Hmax & Hr0 & (mx & HWL & Hmx) & Hbal & _ & HS & HB) end.
  destruct (pool_of_inv _ _ _ _ HP) as (n & HL & [[_ ->]|[A _]]); [|discriminate A].
  unfold quote in HWL, Hmx. cbn [denom_eqb negb fst snd] in *.
  destruct (swap_shape_conserves _ _ _ _ _ _ _ _ _ HB) as [C1 _].
  exists q0, n, b, mx. splits; auto; try lia.
  all: try (rewrite HB; deltas).
  all: try (intros x H1 H2 e; apply C1; assumption).
Qed.

(** * every per-step fact holds at every step of every history (parameters may change in between) *)
Fixpoint along (P : Z -> state -> op -> Prop) (h : list (Z * op)) (s : state) : Prop :=
  match h with
  | [] => True
  | (now, o) :: r => P now s o /\ along P r (fst (deliver now s o))
  end.
Theorem along_history (P : Z -> state -> op -> Prop) :
  (forall now s o, WF s -> P now s o) -> forall h s, WF s -> along P h s.
Proof.
  intros HP h. induction h as [|[now o] r IH]; intros s W; cbn [along]; [exact I|].
  split; [apply HP; exact W|]. apply IH. apply deliver_WF. exact W.
Qed.

(* C09 as one per-step predicate: whatever parameters are in force when the message executes *)
Definition caps_hold (now : Z) (s : state) (o : op) : Prop :=
  forall s' r, exec now s o = Some (s', r) ->
  match o with
  | Sell u rec din ain dout _ _ =>
      is_module rec = false /\
      exists n mx out, wl_lookup (Tok n) (p_wl (st_params s)) = Some mx /\
        ((din = Std /\ dout = Tok n /\ out <= mx /\
          (forall q, pool_of s din dout = Some q -> rec <> Escrow q -> st_bal s' rec dout = st_bal s rec dout + out))
         \/ (din = Tok n /\ dout = Std /\ ain <= mx))
  | Buy u rec din _ dout aout _ =>
      is_module rec = false /\
      exists n mx, wl_lookup (Tok n) (p_wl (st_params s)) = Some mx /\
        ((din = Std /\ dout = Tok n /\ aout <= mx) \/
         (din = Tok n /\ dout = Std /\ st_bal s (User u) din - st_bal s' (User u) din <= mx))
  | AutoSwap u din _ _ =>
      exists n mx, din = Tok n /\ wl_lookup (Tok n) (p_wl (st_params s)) = Some mx /\
        st_bal s (User u) din - st_bal s' (User u) din <= mx
  | AddLiq u tok _ _ _ _ =>
      exists n q, tok = Tok n /\ 0 < wl_amount (Tok n) (p_wl (st_params s)) /\
        lookup_pool n (st_pools s') = Some q /\
        st_bal s' (Escrow q) Std - st_bal s (Escrow q) Std <= p_cap (st_params s) /\
        (0 < st_sup s (Lpt q) -> lookup_pool n (st_pools s) = Some q ->
           st_bal s' (Escrow q) Std <= p_cap (st_params s))
  | _ => True
  end.

Theorem caps_step now s o : WF s -> caps_hold now s o.
Proof.
  intros W s' r E. destruct o; try exact I.
  - destruct (sell_ok now s _ _ _ _ _ _ _ _ _ W E)
      as (q & n & out & mx & _ & HP & _ & _ & _ & _ & _ & _ & _ & Hrec & _ & _ & _ & Hm & Hc & HWL).
    cbv zeta in *. split; [exact Hm|]. exists n, mx, out. split; [exact HWL|].
    destruct Hc as [(A & B & C)|(A & B & C)]; [left|right]; splits; auto.
    intros q' HP' Hne. assert (q' = q) by congruence. subst q'. apply Hrec. exact Hne.
  - destruct (buy_ok now s _ _ _ _ _ _ _ _ _ W E)
      as (q & n & sold & mx & _ & _ & _ & _ & _ & _ & _ & Hpay & _ & _ & _ & _ & Hm & Hc & HWL).
    cbv zeta in *. split; [exact Hm|]. exists n, mx. split; [exact HWL|].
    destruct Hc as [(A & B & C)|(A & B & C)]; [left|right]; splits; auto. lia.
  - destruct (add_ok now s _ _ _ _ _ _ _ _ W E)
      as (tokn & q & m & std_in & dep & A & tax & -> & _ & HL' & _ & _ & _ & _ & _ & EX & _ & _ & _ & _ & _ & HWL & Hcap & Hroom).
    exists tokn, q. splits; auto; try lia.
    intros HL0 HLq. specialize (Hroom HL0 HLq). lia.
  - destruct (autoswap_ok now s _ _ _ _ _ _ W E)
      as (q & n & sold & mx & _ & -> & _ & HWL & _ & Hmx & _ & Hpay & _).
    exists n, mx. splits; auto. lia.
Qed.

Theorem caps_along_history h s : WF s -> along caps_hold h s.
Proof. apply along_history. intros; apply caps_step; assumption. Qed.

(** Non-vacuity: on the example state a sell, an addition and a removal are accepted and the pool stays alive *)
Example ex_history_alive :
  let h := [(1, Sell 0 (User 0) Std 100 (Tok 0) 1 5);
            (2, AddLiq 0 (Tok 0) 300 100 1 5);
            (3, RemoveLiq 0 (Lpt 1) 50 1 1 5)] in
  alive h ex_state 1 /\ lookup_pool 0 (st_pools ex_state) = Some 1 /\ 0 < RL ex_state 1 /\
  snd (deliver 1 ex_state (Sell 0 (User 0) Std 100 (Tok 0) 1 5)) = Some [].
Proof. vm_compute. repeat split; reflexivity. Qed.
