(** Coinswap proofs, part 1: decidable equalities, inversion tactics, bank frame
    lemmas, the arithmetic cores of the AMM and the characterisation of the
    price kernels. *)
From Coq Require Import ZArith List Bool Lia.
From Canto Require Import Lib.SdkInt Lib.SdkDec Lib.SdkDecProofs Model.Coinswap.
Import ListNotations.
Open Scope Z_scope.

(** * decidable equalities *)
Lemma acct_eqb_spec a b : reflect (a = b) (acct_eqb a b).
Proof.
  destruct a as [x|x|x], b as [y|y|y]; cbn [acct_eqb];
    try (destruct (Z.eqb_spec x y); constructor; congruence); constructor; congruence.
Qed.
Lemma denom_eqb_spec a b : reflect (a = b) (denom_eqb a b).
Proof.
  destruct a as [|x|x], b as [|y|y]; cbn [denom_eqb];
    try (destruct (Z.eqb_spec x y); constructor; congruence); constructor; congruence.
Qed.
Lemma acct_eqb_refl a : acct_eqb a a = true.
Proof. destruct (acct_eqb_spec a a); congruence. Qed.
Lemma denom_eqb_refl a : denom_eqb a a = true.
Proof. destruct (denom_eqb_spec a a); congruence. Qed.
Lemma denom_eqb_sym a b : denom_eqb a b = denom_eqb b a.
Proof. destruct (denom_eqb_spec a b), (denom_eqb_spec b a); congruence. Qed.

(** * inversion of the option monad *)
Ltac inv1 :=
  match goal with
  | H : obind ?o _ = Some _ |- _ =>
      let x := fresh "v" in let E := fresh "E" in
      destruct o as [x|] eqn:E; cbn [obind] in H; [|discriminate H]
  | H : (if ?b then _ else None) = Some _ |- _ =>
      let G := fresh "G" in destruct b eqn:G; [|discriminate H]
  | H : Some _ = Some _ |- _ => inversion H; subst; clear H
  | H : None = Some _ |- _ => discriminate H
  | H : (let '(_, _) := ?p in _) = Some _ |- _ =>
      let a := fresh "q" in let b := fresh "q" in let E := fresh "Q" in destruct p as [a b] eqn:E
  end.
Ltac inv := repeat inv1.

Ltac bool_hyps :=
  repeat match goal with
  | H : (_ && _) = true |- _ => apply andb_prop in H; destruct H
  | H : (_ || _) = false |- _ => apply orb_false_elim in H; destruct H
  | H : negb _ = true |- _ => apply negb_true_iff in H
  | H : negb _ = false |- _ => apply negb_false_iff in H
  | H : (_ <? _) = true |- _ => apply Z.ltb_lt in H
  | H : (_ <? _) = false |- _ => apply Z.ltb_ge in H
  | H : (_ <=? _) = true |- _ => apply Z.leb_le in H
  | H : (_ <=? _) = false |- _ => apply Z.leb_gt in H
  | H : (_ =? _) = true |- _ => apply Z.eqb_eq in H
  | H : (_ =? _) = false |- _ => apply Z.eqb_neq in H
  end.

(** * bank frames *)
Definition delta (c : bool) (v : Z) : Z := if c then v else 0.
Definition at_ (x a : acct) (e d : denom) : bool := acct_eqb x a && denom_eqb e d.

Lemma upd_bal_eq b a d v x e :
  upd_bal b a d v x e = if at_ x a e d then v else b x e.
Proof. reflexivity. Qed.

Record same_meta (s s' : state) : Prop := {
  sm_params : st_params s' = st_params s;
  sm_next : st_next s' = st_next s;
  sm_pools : st_pools s' = st_pools s
}.
Lemma same_meta_refl s : same_meta s s. Proof. split; reflexivity. Qed.
Lemma same_meta_trans a b c : same_meta a b -> same_meta b c -> same_meta a c.
Proof. intros [A1 A2 A3] [B1 B2 B3]. split; congruence. Qed.

Lemma send_spec s a b d amt s' :
  send s a b d amt = Some s' -> 0 <= amt ->
  same_meta s s' /\ (forall e, st_sup s' e = st_sup s e) /\ amt <= Z.max 0 (st_bal s a d) /\
  (amt = 0 \/ amt <= st_bal s a d) /\
  forall x e, st_bal s' x e = st_bal s x e + delta (at_ x b e d) amt - delta (at_ x a e d) amt.
Proof.
  unfold send. intros H Hamt.
  destruct (amt =? 0) eqn:Z0.
  - apply Z.eqb_eq in Z0. inversion H; subst s'. subst amt.
    split; [apply same_meta_refl|]. split; [reflexivity|]. split; [lia|]. split; [auto|].
    intros. unfold delta. destruct (at_ x b e d), (at_ x a e d); lia.
  - destruct (st_bal s a d <? amt) eqn:Lt; [discriminate|]. apply Z.ltb_ge in Lt.
    inversion H; subst s'. cbn [set_bank st_params st_next st_pools st_bal st_sup].
    split; [split; reflexivity|]. split; [reflexivity|]. split; [lia|]. split; [auto|].
    intros x e. rewrite !upd_bal_eq. unfold delta.
    destruct (at_ x b e d) eqn:B; destruct (at_ x a e d) eqn:A; try lia.
    + unfold at_ in *. apply andb_prop in A as [A1 A2]. apply andb_prop in B as [B1 B2].
      destruct (acct_eqb_spec x a), (acct_eqb_spec x b), (denom_eqb_spec e d); try discriminate. subst.
      rewrite acct_eqb_refl, denom_eqb_refl. cbn [andb]. lia.
    + unfold at_ in *. apply andb_prop in B as [B1 B2].
      destruct (acct_eqb_spec x b), (denom_eqb_spec e d); try discriminate. subst.
      rewrite denom_eqb_refl. rewrite A. lia.
    + unfold at_ in A. apply andb_prop in A as [A1 A2].
      destruct (acct_eqb_spec x a), (denom_eqb_spec e d); try discriminate. subst. lia.
Qed.

Lemma mint_spec s a d amt :
  0 <= amt ->
  same_meta s (mint s a d amt) /\
  (forall e, st_sup (mint s a d amt) e = st_sup s e + delta (denom_eqb e d) amt) /\
  forall x e, st_bal (mint s a d amt) x e = st_bal s x e + delta (at_ x a e d) amt.
Proof.
  intros Hamt. unfold mint. destruct (amt =? 0) eqn:Z0.
  - apply Z.eqb_eq in Z0. subst. split; [apply same_meta_refl|].
    split; intros; unfold delta; [destruct (denom_eqb _ _)|destruct (at_ _ _ _ _)]; lia.
  - cbn [set_bank st_params st_next st_pools st_bal st_sup].
    split; [split; reflexivity|]. split.
    + intros e. unfold upd_sup, delta. destruct (denom_eqb_spec e d); [subst|]; lia.
    + intros x e. rewrite upd_bal_eq. unfold delta. destruct (at_ x a e d) eqn:A; [|lia].
      unfold at_ in A. apply andb_prop in A as [A1 A2].
      destruct (acct_eqb_spec x a), (denom_eqb_spec e d); try discriminate. subst. lia.
Qed.

Lemma burn_spec s a d amt s' :
  burn s a d amt = Some s' -> 0 <= amt ->
  same_meta s s' /\
  (forall e, st_sup s' e = st_sup s e - delta (denom_eqb e d) amt) /\
  (amt = 0 \/ (amt <= st_bal s a d /\ amt <= st_sup s d)) /\
  forall x e, st_bal s' x e = st_bal s x e - delta (at_ x a e d) amt.
Proof.
  unfold burn. intros H Hamt. destruct (amt =? 0) eqn:Z0.
  - apply Z.eqb_eq in Z0. inversion H; subst.
    split; [apply same_meta_refl|]. split; [|split; [auto|]]; intros; unfold delta;
      [destruct (denom_eqb _ _)|destruct (at_ _ _ _ _)]; lia.
  - destruct ((st_bal s a d <? amt) || (st_sup s d <? amt)) eqn:Lt; [discriminate|].
    apply orb_false_elim in Lt as [Lt Lt2]. apply Z.ltb_ge in Lt. apply Z.ltb_ge in Lt2.
    inversion H; subst s'. cbn [set_bank st_params st_next st_pools st_bal st_sup].
    split; [split; reflexivity|]. split; [|split; [auto|]].
    + intros e. unfold upd_sup, delta. destruct (denom_eqb_spec e d); [subst|]; lia.
    + intros x e. rewrite upd_bal_eq. unfold delta. destruct (at_ x a e d) eqn:A; [|lia].
      unfold at_ in A. apply andb_prop in A as [A1 A2].
      destruct (acct_eqb_spec x a), (denom_eqb_spec e d); try discriminate. subst. lia.
Qed.

(** * arithmetic cores *)

(* sell: dy = dx*g*Y / (X*D + dx*g) *)
Lemma sell_product X Y dx g D :
  0 < X -> 0 < Y -> 0 < dx -> 0 < g -> g <= D ->
  let dy := (dx*g*Y) / (X*D + dx*g) in
  0 <= dy < Y /\ X*Y <= (X+dx)*(Y-dy).
Proof.
  intros HX HY Hdx Hg HgD dy.
  assert (Hden: 0 < X*D + dx*g) by nia.
  assert (H1: dy * (X*D + dx*g) <= dx*g*Y).
  { unfold dy. rewrite Z.mul_comm. apply Z.mul_div_le. exact Hden. }
  assert (H0: 0 <= dy). { unfold dy. apply Z.div_pos; nia. }
  assert (H2: dy < Y).
  { unfold dy. apply Z.div_lt_upper_bound; [exact Hden|].
    assert (0 < X*D) by nia. assert (0 < X*D*Y) by nia. nia. }
  split; [lia|].
  assert (H3: dy * (X+dx) * g <= dx*g*Y) by nia.
  assert (H4: dy * (X+dx) <= dx*Y) by nia.
  nia.
Qed.

(* buy: sold = X*dy*D / ((Y-dy)*g) + 1 *)
Lemma buy_product X Y dy g D :
  0 < X -> 0 < Y -> 0 < dy < Y -> 0 < g -> g <= D ->
  let sold := (X*dy*D) / ((Y-dy)*g) + 1 in
  0 < sold /\ X*Y < (X+sold)*(Y-dy).
Proof.
  intros HX HY Hdy Hg HgD sold.
  assert (Hden: 0 < (Y-dy)*g) by nia.
  pose proof (Z.mul_succ_div_gt (X*dy*D) ((Y-dy)*g) Hden) as H1.
  fold (Z.succ ((X*dy*D) / ((Y-dy)*g))) in H1.
  assert (Hs: sold = Z.succ (X * dy * D / ((Y - dy) * g))) by (unfold sold; lia).
  rewrite <- Hs in H1.
  assert (Hq : 0 <= X * dy * D / ((Y - dy) * g)).
  { apply Z.div_pos; [|exact Hden]. assert (0 <= X * dy) by nia. assert (0 < D) by lia. nia. }
  split; [lia|].
  assert (H2: X*dy*g <= X*dy*D) by nia.
  assert (H3: X*dy*g < (Y-dy)*g*sold) by lia.
  assert (H4: X*dy < (Y-dy)*sold) by nia.
  nia.
Qed.

(* add liquidity: dL = L*dx/X, dy = Y*dx/X + 1 *)
Lemma add_ratio X Y L dx :
  0 < X -> 0 <= Y -> 0 < L -> 0 <= dx ->
  let dL := (L*dx)/X in let dy := (Y*dx)/X + 1 in
  X*Y*((L+dL)*(L+dL)) <= (X+dx)*(Y+dy)*(L*L).
Proof.
  intros HX HY HL Hdx dL dy.
  assert (A: dL*X <= L*dx). { unfold dL. rewrite Z.mul_comm. apply Z.mul_div_le; lia. }
  assert (B: Y*dx < dy*X).
  { unfold dy. pose proof (Z.mul_succ_div_gt (Y*dx) X HX) as H. unfold Z.succ in H. lia. }
  assert (A0: 0 <= dL) by (unfold dL; apply Z.div_pos; nia).
  assert (A1: (L+dL)*X <= L*(X+dx)) by nia.
  assert (B1: Y*(X+dx) <= (Y+dy)*X) by nia.
  assert (A2: ((L+dL)*X)*((L+dL)*X) <= (L*(X+dx))*(L*(X+dx))) by (apply Z.mul_le_mono_nonneg; nia).
  assert (C: X*Y*((L+dL)*(L+dL))*(X*X) <= (X+dx)*(Y+dy)*(L*L)*(X*X)).
  { transitivity (X*Y*((L*(X+dx))*(L*(X+dx)))).
    - replace (X*Y*((L+dL)*(L+dL))*(X*X)) with (X*Y*(((L+dL)*X)*((L+dL)*X))) by ring.
      apply Z.mul_le_mono_nonneg_l; nia.
    - replace (X*Y*((L*(X+dx))*(L*(X+dx)))) with ((L*L*(X+dx)*X)*(Y*(X+dx))) by ring.
      replace ((X+dx)*(Y+dy)*(L*L)*(X*X)) with ((L*L*(X+dx)*X)*((Y+dy)*X)) by ring.
      apply Z.mul_le_mono_nonneg_l; nia. }
  apply Z.mul_le_mono_pos_r with (p := X*X); nia.
Qed.

(* remove liquidity: px = w*X/L, py = w*Y/L, w <= L *)
Lemma remove_ratio X Y L w :
  0 <= X -> 0 <= Y -> 0 < L -> 0 <= w <= L ->
  let px := (w*X)/L in let py := (w*Y)/L in
  0 <= px <= X /\ 0 <= py <= Y /\
  px * L <= w * X /\ py * L <= w * Y /\
  X*Y*((L-w)*(L-w)) <= (X-px)*(Y-py)*(L*L).
Proof.
  intros HX HY HL Hw px py.
  assert (A: px*L <= w*X). { unfold px. rewrite Z.mul_comm. apply Z.mul_div_le; lia. }
  assert (B: py*L <= w*Y). { unfold py. rewrite Z.mul_comm. apply Z.mul_div_le; lia. }
  assert (A0: 0 <= px) by (unfold px; apply Z.div_pos; nia).
  assert (B0: 0 <= py) by (unfold py; apply Z.div_pos; nia).
  assert (A1: px <= X) by nia.
  assert (B1: py <= Y) by nia.
  repeat split; try lia.
  assert (A2: X*(L-w) <= (X-px)*L) by nia.
  assert (B2: Y*(L-w) <= (Y-py)*L) by nia.
  replace (X*Y*((L-w)*(L-w))) with ((X*(L-w))*(Y*(L-w))) by ring.
  replace ((X-px)*(Y-py)*(L*L)) with (((X-px)*L)*((Y-py)*L)) by ring.
  apply Z.mul_le_mono_nonneg; nia.
Qed.

(** * the price kernels compute the textbook formulas (and when they panic) *)
Definition S18 : Z := SdkDec.one.
Lemma S18_val : S18 = 1000000000000000000. Proof. vm_compute. reflexivity. Qed.
Lemma ten18 : 1 * 10 ^ 18 = S18. Proof. vm_compute. reflexivity. Qed.

Lemma int_chk_some x y : SdkInt.chk x = Some y -> y = x /\ Z.abs x < 2 ^ 256.
Proof.
  unfold SdkInt.chk, SdkInt.overflows, SdkInt.bound. destruct (2 ^ 256 <=? Z.abs x) eqn:E; [discriminate|].
  intros H; inversion H; subst. apply Z.leb_gt in E. auto.
Qed.
Lemma dec_chk_some x y : SdkDec.chk x = Some y -> y = x.
Proof. unfold SdkDec.chk. destruct (SdkDec.overflows x); [discriminate|]. intros H; inversion H; auto. Qed.

Lemma input_price_spec a X Y fee r :
  0 <= fee < S18 -> 0 < a -> 0 < X -> 0 < Y ->
  input_price a X Y fee = Some r ->
  r = (a * (S18 - fee) * Y) / (X * S18 + a * (S18 - fee)).
Proof.
  intros Hf Ha HX HY H. unfold input_price in H. inv.
  unfold SdkDec.sub in E. apply dec_chk_some in E. fold S18 in E. subst v.
  unfold SdkInt.of_big in E0. apply int_chk_some in E0 as [-> _].
  unfold SdkInt.mul in E1, E2, E4. apply int_chk_some in E1 as [-> _]. apply int_chk_some in E2 as [-> _].
  unfold SdkInt.with_decimal in E3. cbn [Z.ltb Z.compare] in E3. apply int_chk_some in E3 as [-> _].
  apply int_chk_some in E4 as [-> _].
  unfold SdkInt.add in E5. apply int_chk_some in E5 as [-> _].
  unfold SdkInt.quo in H.
  match type of H with (if ?c then _ else _) = _ => destruct c eqn:Z0 end; [discriminate H|].
  assert (R : r = a * (S18 - fee) * Y ÷ (X * (1 * 10 ^ 18) + a * (S18 - fee))) by congruence.
  clear H. subst r. rewrite ten18.
  assert (G : 0 < S18 - fee <= S18) by lia.
  assert (N1 : 0 <= a * (S18 - fee)) by nia.
  assert (N2 : 0 <= a * (S18 - fee) * Y) by nia.
  assert (N3 : 0 < X * S18) by nia.
  rewrite Z.quot_div_nonneg by lia. reflexivity.
Qed.

Lemma output_price_spec dy X Y fee r :
  0 <= fee < S18 -> 0 < dy < Y -> 0 < X ->
  output_price dy X Y fee = Some r ->
  r = (X * dy * S18) / ((Y - dy) * (S18 - fee)) + 1.
Proof.
  intros Hf Hdy HX H. unfold output_price in H. inv.
  unfold SdkDec.sub in E. apply dec_chk_some in E. fold S18 in E. subst v.
  unfold SdkInt.mul in E0, E2, E5. apply int_chk_some in E0 as [-> _].
  unfold SdkInt.with_decimal in E1. cbn [Z.ltb Z.compare] in E1. apply int_chk_some in E1 as [-> _].
  apply int_chk_some in E2 as [-> _].
  unfold SdkInt.sub in E3. apply int_chk_some in E3 as [-> _].
  unfold SdkInt.of_big in E4. apply int_chk_some in E4 as [-> _].
  apply int_chk_some in E5 as [-> _].
  unfold SdkInt.quo in E6.
  match type of E6 with (if ?c then _ else _) = _ => destruct c eqn:Z0 end; [discriminate E6|].
  assert (R : v6 = X * dy * (1 * 10 ^ 18) ÷ ((Y - dy) * (S18 - fee))) by congruence.
  clear E6. subst v6.
  unfold SdkInt.add in H. apply int_chk_some in H as [-> _].
  rewrite ten18.
  assert (G : 0 < S18 - fee <= S18) by lia.
  assert (N1 : 0 <= X * dy) by nia.
  assert (N2 : 0 <= X * dy * S18) by nia.
  assert (N3 : 0 < (Y - dy) * (S18 - fee)) by nia.
  rewrite Z.quot_div_nonneg by lia. reflexivity.
Qed.

(* the kernels cannot panic while all intermediate values stay below 2^256:
   the exact overflow condition of the sell kernel *)
Lemma input_price_total a X Y fee :
  0 <= fee < S18 -> 0 < a -> 0 < X -> 0 < Y ->
  a * (S18 - fee) * Y < 2 ^ 256 -> X * S18 + a * (S18 - fee) < 2 ^ 256 ->
  exists r, input_price a X Y fee = Some r.
Proof.
  intros Hf Ha HX HY H1 H2. unfold input_price.
  assert (G : 0 < S18 - fee <= S18) by lia.
  assert (chkI : forall x, 0 <= x < 2 ^ 256 -> SdkInt.chk x = Some x).
  { intros x Hx. unfold SdkInt.chk, SdkInt.overflows, SdkInt.bound.
    destruct (2 ^ 256 <=? Z.abs x) eqn:E; [apply Z.leb_le in E; lia|reflexivity]. }
  assert (P0 : 0 < X * S18) by (rewrite S18_val in *; nia).
  assert (P1 : 0 <= a * (S18 - fee)) by nia.
  assert (P2 : 0 <= a * (S18 - fee) * Y) by nia.
  assert (P3 : 0 <= S18 - fee < 2 ^ 256) by (rewrite S18_val in *; lia).
  assert (P4 : 0 <= S18 < 2 ^ 256) by (rewrite S18_val; lia).
  unfold SdkDec.sub, SdkDec.chk, SdkDec.overflows, SdkDec.bound. fold S18.
  destruct (2 ^ 315 <=? Z.abs (S18 - fee)) eqn:E; [apply Z.leb_le in E; rewrite S18_val in *; lia|].
  cbn [obind]. unfold SdkInt.of_big. rewrite chkI by exact P3. cbn [obind].
  unfold SdkInt.mul. rewrite chkI by lia. cbn [obind]. rewrite chkI by lia. cbn [obind].
  unfold SdkInt.with_decimal. cbn [Z.ltb Z.compare]. rewrite ten18.
  rewrite chkI by exact P4. cbn [obind].
  rewrite chkI by lia. cbn [obind]. unfold SdkInt.add. rewrite chkI by lia. cbn [obind].
  unfold SdkInt.quo. destruct (_ =? 0) eqn:Z0; [apply Z.eqb_eq in Z0; lia|]. eauto.
Qed.
