(** Proofs about the node model (property C06).

    What is proved here is the LOGIC of replica agreement: block results and the
    committed state are a function of the committed state and the block list
    alone; the volatile check state, restarts, queries, mempool checks and
    simulations cannot influence any later result.  What cannot be proved here
    (no Gallina function can exhibit it) is the absence of runtime
    nondeterminism in the Go binary -- map iteration order, goroutine
    scheduling, database / IAVL behaviour, CometBFT; that part is explored by
    the four-replica differential of harness/c06.go. *)
From Coq Require Import ZArith List Bool Lia.
From Canto Require Import Lib.SdkInt Lib.SdkDec Model.Epochs Model.Chain.
From Canto Require Model.Inflation Model.Coinswap Model.Csr Model.Authority.
Import ListNotations.
Open Scope Z_scope.

(** Two nodes are the same replica-wise when their committed multistore and
    height agree; the check state may differ arbitrarily. *)
Definition ceq (n1 n2 : node) : Prop :=
  committed n1 = committed n2 /\ height n1 = height n2.

Lemma ceq_refl n : ceq n n.
Proof. split; reflexivity. Qed.
Lemma ceq_sym n1 n2 : ceq n1 n2 -> ceq n2 n1.
Proof. intros [Hc Hh]. split; congruence. Qed.
Lemma ceq_trans n1 n2 n3 : ceq n1 n2 -> ceq n2 n3 -> ceq n1 n3.
Proof. intros [Hc Hh] [Hc' Hh']. split; congruence. Qed.

(** * Atomicity of a transaction (by construction; stated so it cannot silently stop being so):
      a transaction the ante handler refuses leaves no trace; a transaction whose
      message fails leaves exactly the ante handler's effects *)
Lemma deliver_tx_rejected_no_trace now s t :
  snd (deliver_tx now s t) = false ->
  (ante t s = None /\ fst (deliver_tx now s t) = s) \/
  (ante t s = Some (fst (deliver_tx now s t)) /\ exec_msgs now t (fst (deliver_tx now s t)) = None).
Proof.
  unfold deliver_tx. destruct (ante t s) as [s1|] eqn:Ea.
  - destruct (exec_msgs now t s1) as [s2|] eqn:Ex; cbn [fst snd]; intros Hr.
    + discriminate Hr.
    + right. split; [reflexivity|exact Ex].
  - cbn [fst snd]. intros _. left. split; reflexivity.
Qed.

(* for everything but an Ethereum transaction the ante handler has no effect on the projection:
   a failed transaction leaves no trace at all *)
Lemma deliver_tx_rejected_no_trace_cosmos now s t :
  match t with TxEvm _ _ _ _ _ _ => False | _ => True end ->
  snd (deliver_tx now s t) = false -> fst (deliver_tx now s t) = s.
Proof.
  intros Hk. unfold deliver_tx.
  assert (Ha : ante t s = Some s) by (destruct t; [reflexivity|contradiction|reflexivity|reflexivity]).
  rewrite Ha. destruct (exec_msgs now t s) as [s2|] eqn:Ex; cbn [fst snd]; intros Hr.
  - discriminate Hr.
  - reflexivity.
Qed.

(** * A block sees the committed state and the height, nothing else *)
Lemma run_block_ceq b n1 n2 :
  ceq n1 n2 ->
  snd (run_block b n1) = snd (run_block b n2) /\
  ceq (fst (run_block b n1)) (fst (run_block b n2)).
Proof.
  intros [Hc Hh]. unfold run_block. rewrite Hc, Hh.
  destruct (begin_blocker b (height n2 + 1) (committed n2)) as [s1|] eqn:Hb.
  - destruct (deliver_txs (b_time b) (b_txs b) s1) as [s2 codes] eqn:Hd.
    cbn [fst snd]. split; [reflexivity|apply ceq_refl].
  - cbn [fst snd]. split; [reflexivity|]. split; assumption.
Qed.

(* after a committed block nothing volatile is left: the node IS its own restart *)
Lemma run_block_clean b n :
  r_halted (snd (run_block b n)) = false ->
  restart (fst (run_block b n)) = fst (run_block b n).
Proof.
  unfold run_block.
  destruct (begin_blocker b (height n + 1) (committed n)) as [s1|] eqn:Hb.
  - destruct (deliver_txs (b_time b) (b_txs b) s1) as [s2 codes] eqn:Hd.
    cbn [fst snd r_halted]. intros _. reflexivity.
  - cbn [fst snd r_halted]. intros Hf. discriminate Hf.
Qed.

Lemma run_blocks_ceq bs : forall n1 n2,
  ceq n1 n2 ->
  snd (run_blocks bs n1) = snd (run_blocks bs n2) /\
  ceq (fst (run_blocks bs n1)) (fst (run_blocks bs n2)).
Proof.
  induction bs as [|b r IH]; intros n1 n2 Heq; cbn [run_blocks].
  - cbn [fst snd]. split; [reflexivity|assumption].
  - destruct (run_block_ceq b n1 n2 Heq) as [Hres Hn].
    destruct (run_block b n1) as [m1 res1] eqn:R1.
    destruct (run_block b n2) as [m2 res2] eqn:R2.
    cbn [fst snd] in Hres, Hn.
    destruct (IH m1 m2 Hn) as [Hrs Hm].
    destruct (run_blocks r m1) as [k1 rs1] eqn:Q1.
    destruct (run_blocks r m2) as [k2 rs2] eqn:Q2.
    cbn [fst snd] in *. split; [congruence|assumption].
Qed.

(** * run_functional: replicas agree at EVERY height.
    Two nodes whose committed state and height agree (their volatile state may
    differ in any way), fed the same block list, produce -- for every prefix of
    the list, i.e. at every height -- identical block results (result codes
    and digest = AppHash stand-in), identical committed state, identical
    export and identical height. *)
Theorem run_functional : forall bs n1 n2,
  ceq n1 n2 ->
  forall k : nat,
    snd (run_blocks (firstn k bs) n1) = snd (run_blocks (firstn k bs) n2) /\
    committed (fst (run_blocks (firstn k bs) n1)) = committed (fst (run_blocks (firstn k bs) n2)) /\
    export (committed (fst (run_blocks (firstn k bs) n1))) = export (committed (fst (run_blocks (firstn k bs) n2))) /\
    height (fst (run_blocks (firstn k bs) n1)) = height (fst (run_blocks (firstn k bs) n2)).
Proof.
  intros bs n1 n2 Heq k.
  destruct (run_blocks_ceq (firstn k bs) n1 n2 Heq) as [Hres [Hc Hh]].
  split; [exact Hres|]. split; [exact Hc|]. split; [rewrite Hc; reflexivity|exact Hh].
Qed.

(* in particular: from the same genesis *)
Corollary run_functional_genesis : forall g bs (k : nat) v1 v2,
  snd (run_blocks (firstn k bs) (mkNode g v1 0)) = snd (run_blocks (firstn k bs) (mkNode g v2 0)) /\
  committed (fst (run_blocks (firstn k bs) (mkNode g v1 0))) = committed (fst (run_blocks (firstn k bs) (mkNode g v2 0))).
Proof.
  intros g bs k v1 v2.
  assert (Heq : ceq (mkNode g v1 0) (mkNode g v2 0)) by (split; reflexivity).
  destruct (run_functional bs _ _ Heq k) as (A & B & _). split; assumption.
Qed.

(* the results of a prefix are the prefix of the results: a later block cannot change an earlier result *)
Lemma results_prefix bs : forall n (k : nat),
  snd (run_blocks (firstn k bs) n) = firstn k (snd (run_blocks bs n)).
Proof.
  induction bs as [|b r IH]; intros n k.
  - destruct k; reflexivity.
  - destruct k as [|k]; cbn [firstn run_blocks].
    + destruct (run_block b n) as [n1 res]. destruct (run_blocks r n1) as [n2 rs]. reflexivity.
    + destruct (run_block b n) as [n1 res] eqn:R1.
      specialize (IH n1 k).
      destruct (run_blocks (firstn k r) n1) as [m1 rs1] eqn:Q1.
      destruct (run_blocks r n1) as [m2 rs2] eqn:Q2.
      cbn [fst snd firstn] in *. congruence.
Qed.

(** * Restarts and reads *)
Theorem restart_idempotent : forall n,
  restart (restart n) = restart n /\ ceq (restart n) n.
Proof. intros n. split; [reflexivity|split; reflexivity]. Qed.

(* Query and Simulate return the node itself; CheckTx returns a node with the same committed state and height *)
Theorem reads_do_not_touch_committed : forall o n,
  match o with Block _ => False | _ => True end ->
  ceq (fst (step o n)) n /\
  (match o with Query _ | Simulate _ => fst (step o n) = n | _ => True end).
Proof.
  intros o n Hnb. destruct o as [b| |q|t|t]; cbn [step].
  - contradiction.
  - cbn [fst]. split; [split; reflexivity|exact I].
  - cbn [fst]. split; [apply ceq_refl|reflexivity].
  - unfold check_tx. destruct (deliver_tx (c_time (checkst n)) (checkst n) t) as [s' ok].
    cbn [fst]. split; [split; reflexivity|exact I].
  - cbn [fst]. split; [apply ceq_refl|reflexivity].
Qed.

Theorem checktx_only_checkstate : forall t n,
  committed (fst (check_tx t n)) = committed n /\
  height (fst (check_tx t n)) = height n /\
  checkst (fst (check_tx t n)) = fst (deliver_tx (c_time (checkst n)) (checkst n) t) /\
  restart (fst (check_tx t n)) = restart n.
Proof.
  intros t n. unfold check_tx.
  destruct (deliver_tx (c_time (checkst n)) (checkst n) t) as [s' ok].
  cbn [fst committed height checkst]. repeat split.
Qed.

Lemma step_nonblock_ceq o n :
  match o with Block _ => False | _ => True end -> ceq (fst (step o n)) n.
Proof. intros H. exact (proj1 (reads_do_not_touch_committed o n H)). Qed.

(** * stutter_invariance *)
Lemma run_ops_as_blocks h : forall n,
  results_of (snd (run_ops h n)) = snd (run_blocks (blocks_of h) n) /\
  ceq (fst (run_ops h n)) (fst (run_blocks (blocks_of h) n)).
Proof.
  induction h as [|o r IH]; intros n.
  - cbn. split; [reflexivity|apply ceq_refl].
  - destruct o as [b| |q|t|t].
    + (* a block *)
      cbn [run_ops blocks_of run_blocks step].
      destruct (run_block b n) as [n1 res] eqn:R1.
      destruct (IH n1) as [Hres Hn].
      destruct (run_ops r n1) as [m1 outs] eqn:Q1.
      destruct (run_blocks (blocks_of r) n1) as [m2 rs] eqn:Q2.
      cbn [fst snd results_of] in *. split; [congruence|assumption].
    + (* restart *)
      cbn [run_ops blocks_of step].
      destruct (IH (restart n)) as [Hres Hn].
      destruct (run_blocks_ceq (blocks_of r) (restart n) n (ceq_refl _)) as [Hres' Hn'].
      destruct (run_ops r (restart n)) as [m1 outs] eqn:Q1.
      cbn [fst snd results_of] in *.
      split; [congruence|]. eapply ceq_trans; eassumption.
    + (* query *)
      cbn [run_ops blocks_of step].
      destruct (IH n) as [Hres Hn].
      destruct (run_ops r n) as [m1 outs] eqn:Q1.
      cbn [fst snd results_of] in *. split; assumption.
    + (* checktx *)
      cbn [run_ops blocks_of step].
      pose proof (checktx_only_checkstate t n) as (Hc & Hh & _ & _).
      destruct (check_tx t n) as [n1 ok] eqn:C1. cbn [fst] in Hc, Hh.
      assert (Heq : ceq n1 n) by (split; assumption).
      destruct (IH n1) as [Hres Hn].
      destruct (run_blocks_ceq (blocks_of r) n1 n Heq) as [Hres' Hn'].
      destruct (run_ops r n1) as [m1 outs] eqn:Q1.
      cbn [fst snd results_of] in *.
      split; [congruence|]. eapply ceq_trans; eassumption.
    + (* simulate *)
      cbn [run_ops blocks_of step].
      destruct (IH n) as [Hres Hn].
      destruct (run_ops r n) as [m1 outs] eqn:Q1.
      cbn [fst snd results_of] in *. split; assumption.
Qed.

(** For ANY two histories with the same subsequence of blocks -- i.e. any number
    of restarts, queries, mempool checks and simulations inserted at any block
    boundaries of either -- run on replica-wise equal nodes: the lists of block
    results are equal, and the final committed states, exports and heights are equal. *)
Theorem stutter_invariance : forall h1 h2 n1 n2,
  blocks_of h1 = blocks_of h2 -> ceq n1 n2 ->
  results_of (snd (run_ops h1 n1)) = results_of (snd (run_ops h2 n2)) /\
  committed (fst (run_ops h1 n1)) = committed (fst (run_ops h2 n2)) /\
  export (committed (fst (run_ops h1 n1))) = export (committed (fst (run_ops h2 n2))) /\
  height (fst (run_ops h1 n1)) = height (fst (run_ops h2 n2)).
Proof.
  intros h1 h2 n1 n2 Hb Heq.
  destruct (run_ops_as_blocks h1 n1) as [R1 E1].
  destruct (run_ops_as_blocks h2 n2) as [R2 E2].
  rewrite Hb in R1, E1.
  destruct (run_blocks_ceq (blocks_of h2) n1 n2 Heq) as [R3 E3].
  assert (E : ceq (fst (run_ops h1 n1)) (fst (run_ops h2 n2))).
  { eapply ceq_trans; [exact E1|]. eapply ceq_trans; [exact E3|]. apply ceq_sym. exact E2. }
  destruct E as [Ec Eh].
  split; [congruence|]. split; [exact Ec|]. split; [rewrite Ec; reflexivity|exact Eh].
Qed.

(* every later result: the same holds for every prefix of the block sequence, because a
   history with stutters is, block-result-wise, the plain run of its blocks *)
Corollary stutter_every_height : forall h n (k : nat),
  firstn k (results_of (snd (run_ops h n))) = snd (run_blocks (firstn k (blocks_of h)) n).
Proof.
  intros h n k. destruct (run_ops_as_blocks h n) as [R _]. rewrite R.
  symmetry. apply results_prefix.
Qed.

(** * Non-vacuity: a concrete chain with an epoch tick that mints, and a swap *)
Module Ex.
  Definition day_ns : Z := 86400 * 1000000000.
  Definition t0 : Z := 1700000000 * 1000000000.
  Definition ep_day : epoch := mkEpoch 0 t0 day_ns 1 t0 true 1.
  Definition ep_week : epoch := mkEpoch 1 t0 (7 * day_ns) 1 t0 true 1.
  Definition S18 : Z := SdkDec.one.
  Definition iparams : Inflation.params :=
    Inflation.mkParams 0 (Inflation.mkExp (16304348 * S18) (35 * S18 / 100) (2739726 * S18) (66 * S18 / 100) 0)
                       (Inflation.mkDistr S18 0) true.
  Definition infl0 : Inflation.state :=
    Inflation.mkState iparams 0 0 30 0 (543478266666666666666666 * S18) 0 0 0 0 (10 ^ 27).
  Definition cparams : Coinswap.params :=
    Coinswap.mkParams 0 Coinswap.Std 0 0 (10 ^ 22) [(Coinswap.Tok 0, 10 ^ 20)].
  Definition bal0 (a : Coinswap.acct) (d : Coinswap.denom) : Z :=
    match a, d with
    | Coinswap.User 0, Coinswap.Std => 10 ^ 20
    | Coinswap.User 0, Coinswap.Tok 0 => 10 ^ 12
    | Coinswap.Escrow 1, Coinswap.Std => 1000000
    | Coinswap.Escrow 1, Coinswap.Tok 0 => 2000000
    | _, _ => 0
    end.
  Definition sup0 (d : Coinswap.denom) : Z :=
    match d with Coinswap.Std => 10 ^ 27 | Coinswap.Lpt 1 => 1000000 | _ => 10 ^ 13 end.
  Definition swap0 : Coinswap.state := Coinswap.mkState cparams 2 [(0, 1)] bal0 sup0.
  Definition csr0 : Csr.state :=
    Csr.mkState Csr.empty_reg (Csr.mkMoney 0 0 (10 ^ 27) 0 (fun _ => 0)) (Csr.mkCfg (Some 77) true (S18 / 5)).
  Definition auth0 : Authority.chain unit :=
    Authority.mkChain (Authority.mkCs 0 [] 0 0 1 []) (Authority.mkInf [97; 98; 99] 1 0 0 1 0 S18 0 true)
                      (Authority.mkCsr true (S18 / 5)) (Authority.mkOnb true 0 []) (Authority.mkErc true true) tt.
  Definition g0 : cstate := mkC [ep_day; ep_week] infl0 swap0 csr0 auth0 0 t0 0 [103].

  Definition orc : Inflation.oracle := Inflation.mkOracle (10 ^ 18) None.
  Definition sell : tx :=
    TxSwap (Coinswap.Sell 0 (Coinswap.User 0) Coinswap.Std 1000 (Coinswap.Tok 0) 1 (1700000000 + 200000)).
  Definition late : tx :=    (* deadline passed: rejected *)
    TxSwap (Coinswap.Sell 0 (Coinswap.User 0) Coinswap.Std 1000 (Coinswap.Tok 0) 1 5).
  (* block 1 crosses the day boundary (mints), block 2 swaps and carries a rejected transaction *)
  Definition b1 : blk := mkBlk (t0 + day_ns + 5) orc 0 [] [].
  Definition b2 : blk := mkBlk (t0 + day_ns + 11) orc 0 [sell; late] [].

  Definition plain : list op := [Block b1; Block b2].
  Definition noisy : list op :=
    [Query QExport; CheckTx sell; Block b1; Restart; Simulate sell; CheckTx sell; CheckTx sell; Query QPools;
     Restart; Block b2; Query QEpochs].

  Definition out_plain := Eval vm_compute in results_of (snd (run_ops plain (genesis_node g0))).
  Definition out_noisy := Eval vm_compute in results_of (snd (run_ops noisy (genesis_node g0))).
End Ex.

Example ex_same_blocks : blocks_of Ex.noisy = blocks_of Ex.plain.
Proof. reflexivity. Qed.

(* the two histories give the same results (an instance of the theorem, here by computation) ... *)
Example ex_stutter_same : Ex.out_noisy = Ex.out_plain.
Proof. vm_compute. reflexivity. Qed.

(* ... and the results are not trivial: nothing halted, the swap was accepted and the late one
   rejected, the day epoch ticked to 2 with a mint, the digests of the two blocks differ *)
Example ex_nontrivial :
  map r_halted Ex.out_plain = [false; false] /\
  map r_codes Ex.out_plain = [[]; [true; false]] /\
  (exists d1 d2, map r_digest Ex.out_plain = [d1; d2] /\ d1 <> d2 /\
                 nth 3 d1 0 = 2 (* CurrentEpoch of "day" *) /\
                 10 ^ 27 < nth 17 d1 0 (* supply after the mint *)).
Proof.
  split; [vm_compute; reflexivity|]. split; [vm_compute; reflexivity|].
  eexists. eexists. split; [vm_compute; reflexivity|].
  split; [intros H; discriminate H|]. split; [vm_compute; reflexivity|]. vm_compute. reflexivity.
Qed.

(* CheckTx really changes the check state (so "only the check state" is not vacuous),
   and a restart really drops it *)
Example ex_checktx_changes_checkstate :
  let n := fst (check_tx Ex.sell (genesis_node Ex.g0)) in
  digest (checkst n) <> digest (committed n) /\ restart n = genesis_node Ex.g0.
Proof.
  cbv zeta. split.
  - vm_compute. intros H. discriminate H.
  - rewrite (proj2 (proj2 (proj2 (checktx_only_checkstate Ex.sell (genesis_node Ex.g0))))). reflexivity.
Qed.

(* two nodes with different volatile state: same committed state and height, hence the theorems apply *)
Example ex_ceq_different_checkstate :
  let n1 := genesis_node Ex.g0 in
  let n2 := fst (check_tx Ex.sell n1) in
  ceq n2 n1 /\ digest (checkst n2) <> digest (checkst n1).
Proof.
  cbv zeta. split.
  - pose proof (checktx_only_checkstate Ex.sell (genesis_node Ex.g0)) as (A & B & _). split; assumption.
  - vm_compute. intros H. discriminate H.
Qed.

(* late enabling of CSR: genesis without Turnstile and with CSR disabled; governance enables it in
   block 1's end-blocker; block 2's begin-blocker deploys -- whether or not the node was restarted
   (or read from) in between: the decision is taken on the committed state alone *)
Module ExLate.
  Definition csr_off : Csr.state :=
    Csr.mkState Csr.empty_reg (Csr.mkMoney 0 0 (10 ^ 27) 0 (fun _ => 0)) (Csr.mkCfg None false 0).
  Definition auth_off : Authority.chain unit :=
    Authority.mkChain (Authority.mkCs 0 [] 0 0 1 []) (Authority.mkInf [97; 98; 99] 1 0 0 1 0 Ex.S18 0 true)
                      (Authority.mkCsr false 0) (Authority.mkOnb true 0 []) (Authority.mkErc true true) tt.
  Definition g : cstate := mkC [Ex.ep_day; Ex.ep_week] Ex.infl0 Ex.swap0 csr_off auth_off 0 Ex.t0 0 [103].
  Definition enable : param_update := PUAuth (Authority.UpdCsr [103] false (Authority.mkCsr true (Ex.S18 / 5))).
  Definition b1 : blk := mkBlk (Ex.t0 + 5) Ex.orc 0 [] [enable].
  Definition b2 : blk := mkBlk (Ex.t0 + 9) Ex.orc 555 [] [].
  Definition ts (n : node) : option Z := Csr.turnstile (Csr.cfg (c_csr (committed n))).
End ExLate.

Example ex_late_turnstile :
  ExLate.ts (fst (run_ops [Block ExLate.b1] (genesis_node ExLate.g))) = None /\
  ExLate.ts (fst (run_ops [Block ExLate.b1; Block ExLate.b2] (genesis_node ExLate.g))) = Some 555 /\
  ExLate.ts (fst (run_ops [Block ExLate.b1; Restart; Query QExport; Block ExLate.b2] (genesis_node ExLate.g))) = Some 555.
Proof. vm_compute. repeat split. Qed.
