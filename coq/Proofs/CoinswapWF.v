(** Coinswap proofs, part 4: well-formedness is preserved by every message,
    hence holds along every history. *)
From Coq Require Import ZArith List Bool Lia.
From Canto Require Import Lib.SdkInt Lib.SdkDec Lib.SdkDecProofs Model.Coinswap
     Proofs.CoinswapBase Proofs.CoinswapEffects.
Import ListNotations.
Open Scope Z_scope.

Lemma at_true x a e d : at_ x a e d = true -> x = a /\ e = d.
Proof.
  unfold at_. intros H. apply andb_prop in H as [H1 H2].
  destruct (acct_eqb_spec x a), (denom_eqb_spec e d); try discriminate. auto.
Qed.

Lemma send_nonneg s a b d amt s' : nonneg s -> send s a b d amt = Some s' -> 0 <= amt -> nonneg s'.
Proof.
  intros HN H Hamt x e. destruct (send_spec _ _ _ _ _ _ H Hamt) as (_ & _ & _ & B & F).
  rewrite F. unfold delta. pose proof (HN x e).
  destruct (at_ x b e d); destruct (at_ x a e d) eqn:A; try lia;
    apply at_true in A as [-> ->]; lia.
Qed.
Lemma mint_nonneg s a d amt : nonneg s -> 0 <= amt -> nonneg (mint s a d amt).
Proof.
  intros HN Hamt x e. destruct (mint_spec s a d amt Hamt) as (_ & _ & F). rewrite F.
  unfold delta. pose proof (HN x e). destruct (at_ x a e d); lia.
Qed.
Lemma burn_nonneg s a d amt s' : nonneg s -> burn s a d amt = Some s' -> 0 <= amt -> nonneg s'.
Proof.
  intros HN H Hamt x e. destruct (burn_spec _ _ _ _ _ H Hamt) as (_ & _ & B & F).
  rewrite F. unfold delta. pose proof (HN x e).
  destruct (at_ x a e d) eqn:A; try lia. apply at_true in A as [-> ->]. lia.
Qed.

Definition supnn (s : state) : Prop := forall d, 0 <= st_sup s d.
Lemma send_supnn s a b d amt s' : supnn s -> send s a b d amt = Some s' -> 0 <= amt -> supnn s'.
Proof. intros HN H Hamt e. destruct (send_spec _ _ _ _ _ _ H Hamt) as (_ & S & _). rewrite S. apply HN. Qed.
Lemma mint_supnn s a d amt : supnn s -> 0 <= amt -> supnn (mint s a d amt).
Proof.
  intros HN Hamt e. destruct (mint_spec s a d amt Hamt) as (_ & S & _). rewrite S.
  unfold delta. pose proof (HN e). destruct (denom_eqb e d); lia.
Qed.
Lemma burn_supnn s a d amt s' : supnn s -> burn s a d amt = Some s' -> 0 <= amt -> supnn s'.
Proof.
  intros HN H Hamt e. destruct (burn_spec _ _ _ _ _ H Hamt) as (_ & S & B & _). rewrite S.
  unfold delta. pose proof (HN e). destruct (denom_eqb_spec e d); [subst|]; lia.
Qed.

Lemma trade_sell_nonneg s sender rec din ain dout min_out s' r :
  nonneg s -> trade_sell s sender rec din ain dout min_out = Some (s', r) -> 0 < ain -> nonneg s'.
Proof.
  intros HN H Ha. unfold trade_sell in H. inv. bool_hyps.
  eapply send_nonneg; [|eassumption|lia]. eapply send_nonneg; [|eassumption|lia]. exact HN.
Qed.
Lemma trade_buy_nonneg s sender rec din max_in dout aout s' r :
  nonneg s -> trade_buy s sender rec din max_in dout aout = Some (s', r) -> 0 < aout -> nonneg s'.
Proof.
  intros HN H Ha. unfold trade_buy in H. inv. bool_hyps.
  eapply send_nonneg; [|eassumption|lia]. eapply send_nonneg; [|eassumption|lia]. exact HN.
Qed.
Lemma fee_nonneg s creator s' :
  nonneg s -> params_valid (st_params s) = true -> deduct_creation_fee s creator = Some s' -> nonneg s'.
Proof.
  intros HN HP H. unfold deduct_creation_fee in H. inv. bool_hyps.
  destruct (params_valid_tax _ HP) as (_ & HA & _).
  eapply burn_nonneg; [|eassumption|lia]. eapply send_nonneg; [|eassumption|lia].
  eapply send_nonneg; [|eassumption|lia]. exact HN.
Qed.
Lemma add_transfer_nonneg s sender q tok std tk m s' r :
  nonneg s -> add_transfer s sender q tok std tk m = Some (s', r) -> 0 <= std -> 0 <= tk -> 0 <= m -> nonneg s'.
Proof.
  intros HN H H1 H2 H3. unfold add_transfer in H. inv.
  eapply send_nonneg; [|eassumption|lia]. apply mint_nonneg; [|lia].
  eapply send_nonneg; [|eassumption|lia]. eapply send_nonneg; [|eassumption|lia]. exact HN.
Qed.
Lemma add_liquidity_nonneg s sender tokn max_tok exact_std min_liq s' m :
  nonneg s -> params_valid (st_params s) = true ->
  add_liquidity s sender tokn max_tok exact_std min_liq = Some (s', m) -> 0 < max_tok -> 0 < exact_std -> nonneg s'.
Proof.
  intros HN HP H Hmt Hes. unfold add_liquidity in H. inv.
  destruct (lookup_pool tokn (st_pools s)) as [q|].
  - destruct (st_sup s (Lpt q) =? 0); inv; bool_hyps.
    + eapply add_transfer_nonneg; [|eassumption|lia|lia|lia]. exact HN.
    + eapply add_transfer_nonneg; [|eassumption|lia|lia|lia]. exact HN.
  - inv. eapply add_transfer_nonneg; [|eassumption|lia|lia|lia].
    pose proof (fee_nonneg _ _ _ HN HP E) as HN'. intros x e. apply HN'.
Qed.
Lemma remove_liquidity_nonneg s sender q w min_std min_tok s' r :
  nonneg s -> remove_liquidity s sender q w min_std min_tok = Some (s', r) -> 0 < w -> nonneg s'.
Proof.
  intros HN H Hw. unfold remove_liquidity in H. inv. bool_hyps.
  eapply send_nonneg; [|eassumption|lia]. eapply send_nonneg; [|eassumption|lia].
  eapply burn_nonneg; [|eassumption|lia]. eapply send_nonneg; [|eassumption|lia]. exact HN.
Qed.

Lemma trade_sell_supnn s sender rec din ain dout min_out s' r :
  supnn s -> trade_sell s sender rec din ain dout min_out = Some (s', r) -> 0 < ain -> supnn s'.
Proof.
  intros HN H Ha. unfold trade_sell in H. inv. bool_hyps.
  eapply send_supnn; [|eassumption|lia]. eapply send_supnn; [|eassumption|lia]. exact HN.
Qed.
Lemma trade_buy_supnn s sender rec din max_in dout aout s' r :
  supnn s -> trade_buy s sender rec din max_in dout aout = Some (s', r) -> 0 < aout -> supnn s'.
Proof.
  intros HN H Ha. unfold trade_buy in H. inv. bool_hyps.
  eapply send_supnn; [|eassumption|lia]. eapply send_supnn; [|eassumption|lia]. exact HN.
Qed.
Lemma fee_supnn s creator s' :
  supnn s -> params_valid (st_params s) = true -> deduct_creation_fee s creator = Some s' -> supnn s'.
Proof.
  intros HN HP H. unfold deduct_creation_fee in H. inv. bool_hyps.
  destruct (params_valid_tax _ HP) as (_ & HA & _).
  eapply burn_supnn; [|eassumption|lia]. eapply send_supnn; [|eassumption|lia].
  eapply send_supnn; [|eassumption|lia]. exact HN.
Qed.
Lemma add_transfer_supnn s sender q tok std tk m s' r :
  supnn s -> add_transfer s sender q tok std tk m = Some (s', r) -> 0 <= std -> 0 <= tk -> 0 <= m -> supnn s'.
Proof.
  intros HN H H1 H2 H3. unfold add_transfer in H. inv.
  eapply send_supnn; [|eassumption|lia]. apply mint_supnn; [|lia].
  eapply send_supnn; [|eassumption|lia]. eapply send_supnn; [|eassumption|lia]. exact HN.
Qed.
Lemma add_liquidity_supnn s sender tokn max_tok exact_std min_liq s' m :
  supnn s -> params_valid (st_params s) = true ->
  add_liquidity s sender tokn max_tok exact_std min_liq = Some (s', m) -> 0 < max_tok -> 0 < exact_std -> supnn s'.
Proof.
  intros HN HP H Hmt Hes. unfold add_liquidity in H. inv.
  destruct (lookup_pool tokn (st_pools s)) as [q|].
  - destruct (st_sup s (Lpt q) =? 0); inv; bool_hyps.
    + eapply add_transfer_supnn; [|eassumption|lia|lia|lia]. exact HN.
    + eapply add_transfer_supnn; [|eassumption|lia|lia|lia]. exact HN.
  - inv. eapply add_transfer_supnn; [|eassumption|lia|lia|lia].
    pose proof (fee_supnn _ _ _ HN HP E) as HN'. intros e. apply HN'.
Qed.
Lemma remove_liquidity_supnn s sender q w min_std min_tok s' r :
  supnn s -> remove_liquidity s sender q w min_std min_tok = Some (s', r) -> 0 < w -> supnn s'.
Proof.
  intros HN H Hw. unfold remove_liquidity in H. inv. bool_hyps.
  eapply send_supnn; [|eassumption|lia]. eapply send_supnn; [|eassumption|lia].
  eapply burn_supnn; [|eassumption|lia]. eapply send_supnn; [|eassumption|lia]. exact HN.
Qed.

Lemma lookup_pool_none l n : lookup_pool n l = None -> ~ In n (map fst l).
Proof.
  induction l as [|[k q] r IH]; cbn [lookup_pool map fst]; intros H HIn; [contradiction|].
  destruct (Z.eqb_spec k n); [discriminate|]. destruct HIn as [E|HIn]; [contradiction|]. exact (IH H HIn).
Qed.

Lemma pools_ok_cons l next n :
  pools_ok l next -> lookup_pool n l = None -> pools_ok ((n, next) :: l) (next + 1).
Proof.
  intros (N1 & N2 & B) HL. split; [|split].
  - cbn [map fst]. constructor; [apply lookup_pool_none; exact HL|exact N1].
  - cbn [map snd]. constructor; [|exact N2].
    intros HIn. apply in_map_iff in HIn as ([k q] & E & HIn). cbn [snd] in E. subst q.
    specialize (B _ _ HIn). lia.
  - intros k q [E|HIn]; [inversion E; lia|]. specialize (B _ _ HIn). lia.
Qed.

Section Step.
Variable now : Z.

Theorem deliver_WF s o : WF s -> WF (fst (deliver now s o)).
Proof.
  intros W. unfold deliver.
  destruct (exec now s o) as [[s1 r]|] eqn:E; cbn [fst]; [|exact W].
  destruct W as [HP HN HOK HSUP]. fold (supnn s) in HSUP.
  destruct o; cbn [exec] in E; inv; bool_hyps.
  - destruct v as [s2 b]. cbn [fst] in *.
    match goal with HA : trade_sell _ _ _ _ _ _ _ = Some _ |- _ =>
      destruct (trade_sell_effect _ _ _ _ _ _ _ _ _ HA ltac:(lia) HP) as (q0 & _ & _ & _ & _ & _ & _ & _ & _ & [M1 M2 M3] & _);
      pose proof (trade_sell_nonneg _ _ _ _ _ _ _ _ _ HN HA ltac:(lia));
      pose proof (trade_sell_supnn _ _ _ _ _ _ _ _ _ HSUP HA ltac:(lia)) end.
    split; [congruence|assumption|rewrite M2, M3; exact HOK|assumption].
  - destruct v as [s2 b]. cbn [fst] in *.
    match goal with HA : trade_buy _ _ _ _ _ _ _ = Some _ |- _ =>
      destruct (trade_buy_effect _ _ _ _ _ _ _ _ _ HA ltac:(lia) HP) as (q0 & _ & _ & _ & _ & _ & _ & _ & _ & [M1 M2 M3] & _);
      pose proof (trade_buy_nonneg _ _ _ _ _ _ _ _ _ HN HA ltac:(lia));
      pose proof (trade_buy_supnn _ _ _ _ _ _ _ _ _ HSUP HA ltac:(lia)) end.
    split; [congruence|assumption|rewrite M2, M3; exact HOK|assumption].
  - destruct tok as [|tn|]; try discriminate. inv. destruct v as [s2 m]. cbn [fst snd] in *.
    match goal with HA : add_liquidity _ _ _ _ _ _ = Some _ |- _ =>
      destruct (add_liquidity_effect _ _ _ _ _ _ _ _ HA HP ltac:(lia) ltac:(lia)) as (_ & MP & HC);
      pose proof (add_liquidity_nonneg _ _ _ _ _ _ _ _ HN HP HA ltac:(lia) ltac:(lia));
      pose proof (add_liquidity_supnn _ _ _ _ _ _ _ _ HSUP HP HA ltac:(lia) ltac:(lia)) end.
    split; [congruence|assumption| |assumption].
    destruct HC as [tax LP P1 P2 _ _ _ _ _ _ _|q0 LP _ P1 P2 _ _ _ _ _|q0 LP _ P1 P2 _ _ _ _ _ _ _ _ _ _ _ _ _ _ _].
    + rewrite P1, P2. apply pools_ok_cons; assumption.
    + rewrite P1, P2. exact HOK.
    + rewrite P1, P2. exact HOK.
  - destruct lpt as [| |sq]; try discriminate. inv. destruct v as [s2 [ps pt]]. cbn [fst snd] in *.
    match goal with HA : remove_liquidity _ _ _ _ _ _ = Some _ |- _ =>
      destruct (remove_liquidity_effect _ _ _ _ _ _ _ _ _ HA ltac:(lia)) as (tk & _ & _ & _ & _ & _ & _ & _ & _ & _ & [M1 M2 M3] & _);
      pose proof (remove_liquidity_nonneg _ _ _ _ _ _ _ _ HN HA ltac:(lia));
      pose proof (remove_liquidity_supnn _ _ _ _ _ _ _ _ HSUP HA ltac:(lia)) end.
    split; [congruence|assumption|rewrite M2, M3; exact HOK|assumption].
  - match goal with HA : send _ _ _ _ _ = Some _ |- _ =>
      destruct (send_spec _ _ _ _ _ _ HA ltac:(lia)) as ([M1 M2 M3] & _);
      pose proof (send_nonneg _ _ _ _ _ _ HN HA ltac:(lia));
      pose proof (send_supnn _ _ _ _ _ _ HSUP HA ltac:(lia)) end.
    split; [congruence|assumption|rewrite M2, M3; exact HOK|assumption].
  - destruct v as [s2 b]. cbn [fst] in *.
    match goal with HA : trade_buy _ _ _ _ _ _ _ = Some _ |- _ =>
      destruct (trade_buy_effect _ _ _ _ _ _ _ _ _ HA ltac:(lia) HP) as (q0 & _ & _ & _ & _ & _ & _ & _ & _ & [M1 M2 M3] & _);
      pose proof (trade_buy_nonneg _ _ _ _ _ _ _ _ _ HN HA ltac:(lia));
      pose proof (trade_buy_supnn _ _ _ _ _ _ _ _ _ HSUP HA ltac:(lia)) end.
    split; [congruence|assumption|rewrite M2, M3; exact HOK|assumption].
  - split; cbn [st_params st_next st_pools st_bal st_sup]; assumption.
Qed.
End Step.

Theorem run_WF h : forall s, WF s -> WF (run h s).
Proof.
  induction h as [|[now o] r IH]; intros s W; cbn [run]; [exact W|].
  apply IH. apply deliver_WF. exact W.
Qed.

(* a concrete well-formed, non-trivial state (used by the Examples of the property files) *)
Definition ex_params : params := mkParams 3000000000000000 Std 0 0 1000000 [(Tok 0, 500)].
Definition ex_state : state :=
  mkState ex_params 2 [(0, 1)]
          (fun a d => match a, d with
                      | Escrow 1, Std => 1000 | Escrow 1, Tok 0 => 2000
                      | User 0, Std => 500 | User 0, Tok 0 => 500 | User 0, Lpt 1 => 1000
                      | _, _ => 0 end)
          (fun d => match d with Std => 1500 | Tok 0 => 2500 | Lpt 1 => 1000 | _ => 0 end).
Lemma ex_state_WF : WF ex_state.
Proof.
  split.
  - vm_compute. reflexivity.
  - intros a d. cbn. destruct a as [[|[| |]|]|[|[| |]|]|]; destruct d as [|[| |]|[|[| |]|]]; cbn; lia.
  - split; [|split]; cbn.
    + repeat constructor. intros [].
    + repeat constructor. intros [].
    + intros n q [E|[]]. inversion E. lia.
  - intros d. cbn. destruct d as [|[| |]|[|[| |]|]]; cbn; lia.
Qed.
