(** Proofs for C18: on every state satisfying the reachable-state invariant, the exported genesis
    passes validation, can be imported, and export after import is the same document up to the
    exempt field; the module queries answer identically. *)
From stdpp Require Import gmap.
From Coq Require Import ZArith List Bool Lia.
From Canto Require Lib.SdkInt Lib.SdkDec Model.TokenPairs Model.Csr Model.Inflation Model.Coinswap.
From Canto Require Proofs.TokenPairsProofs Proofs.CsrProofs Proofs.InflationProofs Proofs.AuthorityProofs.
From Canto Require Import Model.Authority Model.Epochs Model.Genesis.
Import ListNotations.
Open Scope Z_scope.

(** * Lists of numbers *)
Lemma zmem_In x l : zmem x l = true <-> In x l.
Proof.
  induction l as [|y r IH]; cbn [zmem In]; [split; [discriminate|tauto]|].
  rewrite orb_true_iff, IH, Z.eqb_eq. split; intros [H|H]; auto.
Qed.
Lemma znodup_NoDup l : znodup l = true <-> List.NoDup l.
Proof.
  induction l as [|x r IH]; cbn [znodup].
  - split; [constructor|reflexivity].
  - rewrite andb_true_iff, negb_true_iff, IH. split.
    + intros [A B]. constructor; [|exact B]. intros HIn. apply zmem_In in HIn. congruence.
    + intros H. inversion H as [|? ? Hn Hr]; subst. split; [|exact Hr].
      destruct (zmem x r) eqn:E; [|reflexivity]. apply zmem_In in E. contradiction.
Qed.
Lemma zdedup_nodup l : List.NoDup l -> zdedup l = l.
Proof.
  induction l as [|x r IH]; intros H; cbn [zdedup]; [reflexivity|].
  inversion H as [|? ? Hn Hr]; subst. rewrite (IH Hr). f_equal.
  clear IH Hr H. induction r as [|y r IH]; cbn [filter]; [reflexivity|].
  destruct (Z.eqb_spec y x) as [->|Hne]; cbn [negb].
  - exfalso. apply Hn. left. reflexivity.
  - f_equal. apply IH. intros HIn. apply Hn. right. exact HIn.
Qed.
Lemma zassoc_in {V} k (l : list (Z * V)) v : zassoc k l = Some v -> In (k, v) l.
Proof.
  induction l as [|[k' v'] r IH]; cbn [zassoc]; [discriminate|].
  destruct (Z.eqb_spec k' k) as [->|]; intros H; [inversion H; left; reflexivity|right; auto].
Qed.
Lemma zassoc_none {V} k (l : list (Z * V)) : ~ In k (map fst l) -> zassoc k l = None.
Proof.
  induction l as [|[k' v'] r IH]; cbn [zassoc map fst In]; [reflexivity|].
  intros H. destruct (Z.eqb_spec k' k) as [->|]; [exfalso; apply H; left; reflexivity|].
  apply IH. intros HIn. apply H. right. exact HIn.
Qed.

(** * coinswap *)
Definition by_lpt (ps : list gpool) (l : Z) : option gpool := find (fun p => gp_lpt p =? l) ps.

Record Inv_cs (s : cs_st) : Prop := {
  ics_valid : validate_cs (export_cs s) = true;       (* what InitGenesis itself demands: unique ids and lpt
                                                         denoms, next sequence = 1 + max sequence, ... *)
  ics_params : cs_valid (cs_par s) = true;            (* every stored field passes its validator (C17) *)
  ics_index : forall l, pool_by_lpt s l = by_lpt (cs_pools s) l   (* the lpt-denom index is exact *)
}.

Definition rebuilt_idx (ps : list gpool) : list (Z * Z) := map (fun p => (gp_lpt p, gp_id p)) ps.

Lemma rebuilt_idx_in ps l i : zassoc l (rebuilt_idx ps) = Some i -> In i (map gp_id ps).
Proof.
  induction ps as [|p r IH]; cbn [rebuilt_idx map zassoc]; [discriminate|].
  destruct (Z.eqb_spec (gp_lpt p) l); intros H; [inversion H; left; reflexivity|right; apply IH; exact H].
Qed.

Lemma rebuilt_idx_exact ps l :
  List.NoDup (map gp_id ps) ->
  match zassoc l (rebuilt_idx ps) with
  | Some i => find (fun p => gp_id p =? i) ps
  | None => None
  end = by_lpt ps l.
Proof.
  unfold by_lpt. induction ps as [|p r IH]; intros ND; cbn [rebuilt_idx map zassoc find]; [reflexivity|].
  cbn [map] in ND. inversion ND as [|? ? Hn Hr]; subst.
  destruct (Z.eqb_spec (gp_lpt p) l) as [E|E].
  - cbn [find]. rewrite Z.eqb_refl. reflexivity.
  - fold (rebuilt_idx r). specialize (IH Hr).
    destruct (zassoc l (rebuilt_idx r)) as [i|] eqn:Ei; [|exact IH].
    cbn [find]. destruct (Z.eqb_spec (gp_id p) i) as [Eq|]; [|exact IH].
    exfalso. apply Hn. rewrite Eq. eapply rebuilt_idx_in. exact Ei.
Qed.

Definition cs_after (s : cs_st) : cs_st :=
  mkCsSt (cs_par s) (cs_std s) (cs_std_ok s) (cs_next s) (cs_pools s) (rebuilt_idx (cs_pools s)).

Lemma cs_set_ok p : cs_valid p = true -> cs_set_param_set p cs_zero = Some p.
Proof.
  intros V. rewrite AuthorityProofs.cs_set_spec. rewrite AuthorityProofs.cs_valid_alt in V. rewrite V. reflexivity.
Qed.

Lemma import_cs_export s : Inv_cs s -> import_cs (export_cs s) = Some (cs_after s).
Proof.
  intros [V P _]. unfold import_cs. rewrite V. cbn [negb].
  cbn [export_cs cg_params]. rewrite (cs_set_ok _ P). reflexivity.
Qed.

Lemma validate_cs_nodup_ids s : validate_cs (export_cs s) = true -> List.NoDup (map gp_id (cs_pools s)).
Proof.
  unfold validate_cs. cbn [export_cs cg_pools]. intros H.
  repeat (apply andb_prop in H as [H ?]). apply znodup_NoDup. assumption.
Qed.

Lemma cs_after_by_lpt s l : Inv_cs s -> pool_by_lpt (cs_after s) l = pool_by_lpt s l.
Proof.
  intros HI. rewrite (ics_index s HI). unfold pool_by_lpt, pool_by_id, cs_after. cbn [cs_idx cs_pools].
  apply rebuilt_idx_exact. apply validate_cs_nodup_ids. apply HI.
Qed.

Lemma cs_after_inv s : Inv_cs s -> Inv_cs (cs_after s).
Proof.
  intros HI. split.
  - exact (ics_valid s HI).
  - exact (ics_params s HI).
  - intros l. rewrite cs_after_by_lpt by exact HI. rewrite (ics_index s HI). reflexivity.
Qed.

(** * erc20 *)
Record Inv_erc (s : erc_st) : Prop := {
  ierc_reg : TokenPairsProofs.Inv (es_reg s);         (* the registry invariant of C15 *)
  ierc_syntax : es_syntax_ok s = true
}.

Lemma nodup_dec_NoDup {A} `{EqDecision A} (l : list A) : nodup_dec l = true <-> base.NoDup l.
Proof.
  induction l as [|x r IH]; cbn [nodup_dec].
  - split; [constructor|reflexivity].
  - split.
    + intros H0. apply andb_prop in H0 as [A1 B]. apply negb_true_iff in A1.
      apply list.NoDup_cons. split; [|apply IH; exact B].
      apply bool_decide_eq_false in A1. exact A1.
    + intros H0. apply list.NoDup_cons in H0 as [A1 B]. apply andb_true_intro. split; [|apply IH; exact B].
      apply negb_true_iff. apply bool_decide_eq_false. exact A1.
Qed.

Lemma export_erc_valid s : Inv_erc s -> validate_erc (export_erc s) = true.
Proof.
  intros [HI HS]. unfold validate_erc, export_erc, TokenPairs.export_genesis.
  cbn [eg_pairs eg_syntax_ok eg_params TokenPairs.g_pairs]. rewrite HS. unfold erc_validate.
  rewrite !andb_true_r. apply andb_true_intro. split; apply nodup_dec_NoDup.
  - apply (NoDup_fmap_2_strong TokenPairs.p_addr); [|apply TokenPairsProofs.listing_nodup; exact HI].
    intros p q Hp Hq E. eapply TokenPairsProofs.addr_unique; eauto.
  - apply (NoDup_fmap_2_strong TokenPairs.p_denom); [|apply TokenPairsProofs.listing_nodup; exact HI].
    intros p q Hp Hq E. eapply TokenPairsProofs.denom_unique; eauto.
Qed.

Lemma import_erc_export s : Inv_erc s -> import_erc (export_erc s) = Some s.
Proof.
  intros [HI HS]. unfold import_erc. rewrite AuthorityProofs.erc_set_spec. cbn [SdkInt.obind].
  unfold export_erc. cbn [eg_params eg_pairs eg_denoms eg_addrs eg_syntax_ok erc_enable erc_hook].
  destruct s as [reg hook ok]. cbn [es_reg es_hook es_syntax_ok] in *. f_equal. f_equal.
  pose proof (TokenPairsProofs.export_import_state reg (TokenPairsProofs.inv_key reg HI)) as E.
  destruct (TokenPairs.export_genesis reg) as [en ps ds ads] eqn:G. cbn in *. exact E.
Qed.

(** * csr *)
Record Inv_csr (s : csr_st) : Prop := {
  icsr_reg : CsrProofs.csr_inv (rs_reg s);            (* the registry invariant of C16 *)
  icsr_params : csr_valid (rs_par s) = true;
  icsr_nodup : List.NoDup (rs_dom s);
  icsr_dom : forall n, In n (rs_dom s) <-> Csr.csrs (rs_reg s) n <> None   (* rs_dom lists the stored ids *)
}.

Lemma listed_keys g dom :
  (forall n, In n dom -> Csr.csrs g n <> None) -> map fst (listed g dom) = dom.
Proof.
  unfold listed. induction dom as [|n r IH]; intros H; cbn [flat_map]; [reflexivity|].
  destruct (Csr.csrs g n) as [x|] eqn:E; [|exfalso; apply (H n); [left; reflexivity|exact E]].
  cbn [app map fst]. f_equal. apply IH. intros m Hm. apply H. right. exact Hm.
Qed.

Lemma listed_in g dom n x : In (n, x) (listed g dom) -> Csr.csrs g n = Some x /\ In n dom.
Proof.
  unfold listed. rewrite in_flat_map. intros (m & Hm & Hin).
  destruct (Csr.csrs g m) as [y|] eqn:E; [|contradiction].
  destruct Hin as [Hin|[]]. inversion Hin; subst. auto.
Qed.

Lemma listed_assoc g dom n :
  List.NoDup dom -> zassoc n (listed g dom) = if zmem n dom then Csr.csrs g n else None.
Proof.
  unfold listed. induction dom as [|m r IH]; intros ND; cbn [flat_map zmem]; [reflexivity|].
  inversion ND as [|? ? Hn Hr]; subst. specialize (IH Hr).
  destruct (Z.eqb_spec n m) as [->|Hne]; cbn [orb].
  - destruct (Csr.csrs g m) as [x|] eqn:E; cbn [app zassoc].
    + rewrite Z.eqb_refl. reflexivity.
    + rewrite IH. destruct (zmem m r) eqn:Z1; [|reflexivity]. apply zmem_In in Z1. contradiction.
  - destruct (Csr.csrs g m) as [x|] eqn:E; cbn [app zassoc]; [|exact IH].
    destruct (Z.eqb_spec m n); [congruence|exact IH].
Qed.

Lemma import_csrs_lookup l : forall g n,
  List.NoDup (map fst l) ->
  Csr.csrs (Csr.import_csrs l g) n = match zassoc n l with Some x => Some x | None => Csr.csrs g n end.
Proof.
  unfold Csr.import_csrs. induction l as [|[k x] r IH]; intros g n ND; cbn [fold_left zassoc]; [reflexivity|].
  cbn [map fst] in ND. inversion ND as [|? ? Hn Hr]; subst. cbn [fst snd]. rewrite (IH _ _ Hr).
  rewrite CsrProofs.set_csr_csrs.
  destruct (Z.eqb_spec k n) as [->|Hne].
  - rewrite (zassoc_none _ _ Hn), Z.eqb_refl. reflexivity.
  - destruct (zassoc n r); [reflexivity|]. destruct (Z.eqb_spec n k); [congruence|reflexivity].
Qed.

Definition csr_after (s : csr_st) : csr_st :=
  mkCsrSt (rs_par s) (Csr.import_csrs (listed (rs_reg s) (rs_dom s)) Csr.empty_reg) (rs_dom s) (rs_ts s).

Lemma csr_set_ok p : csr_valid p = true -> csr_set_param_set p csr_zero = Some p.
Proof. intros V. rewrite AuthorityProofs.csr_set_spec. unfold csr_valid in V. rewrite V. reflexivity. Qed.

Lemma import_csr_export s : Inv_csr s -> import_csr (export_csr s) = Some (csr_after s).
Proof.
  intros [HR HP ND HD]. unfold import_csr, export_csr. cbn [rg_params rg_csrs rg_turnstile].
  rewrite (csr_set_ok _ HP). cbn [SdkInt.obind]. unfold csr_after. f_equal. f_equal.
  rewrite listed_keys; [apply zdedup_nodup; exact ND|]. intros n Hn. apply HD. exact Hn.
Qed.

Lemma csr_after_csrs s n : Inv_csr s -> Csr.csrs (rs_reg (csr_after s)) n = Csr.csrs (rs_reg s) n.
Proof.
  intros [HR HP ND HD]. unfold csr_after. cbn [rs_reg].
  rewrite import_csrs_lookup.
  - rewrite (listed_assoc _ _ _ ND). cbn [Csr.empty_reg Csr.csrs].
    destruct (zmem n (rs_dom s)) eqn:Z1.
    + destruct (Csr.csrs (rs_reg s) n); reflexivity.
    + destruct (Csr.csrs (rs_reg s) n) as [x|] eqn:E; [|reflexivity].
      assert (HIn : In n (rs_dom s)) by (apply HD; congruence).
      apply zmem_In in HIn. congruence.
  - rewrite listed_keys; [exact ND|]. intros m Hm. apply HD. exact Hm.
Qed.

Lemma listed_wf s : Inv_csr s -> CsrProofs.wf_genesis (listed (rs_reg s) (rs_dom s)).
Proof.
  intros [HR HP ND HD]. apply (CsrProofs.export_wf (rs_reg s)); [exact HR| |].
  - rewrite listed_keys; [exact ND|]. intros m Hm. apply HD. exact Hm.
  - intros n x Hin. apply listed_in in Hin. tauto.
Qed.

Lemma csr_after_reg_inv s : Inv_csr s -> CsrProofs.csr_inv (rs_reg (csr_after s)).
Proof.
  intros HI. unfold csr_after. cbn [rs_reg].
  apply CsrProofs.import_csrs_inv; [apply CsrProofs.empty_inv|apply listed_wf; exact HI|].
  intros n x _. split; [reflexivity|intros; reflexivity].
Qed.

Lemma csr_after_byc s c : Inv_csr s -> Csr.byc (rs_reg (csr_after s)) c = Csr.byc (rs_reg s) c.
Proof.
  intros HI. pose proof (csr_after_reg_inv s HI) as [HA _]. destruct (icsr_reg s HI) as [HB _].
  destruct (Csr.byc (rs_reg s) c) as [n|] eqn:E.
  - apply HA. apply HB in E as (x & Ex & Hc). exists x. rewrite csr_after_csrs by exact HI. auto.
  - destruct (Csr.byc (rs_reg (csr_after s)) c) as [m|] eqn:E'; [|reflexivity].
    apply HA in E' as (x & Ex & Hc). rewrite csr_after_csrs in Ex by exact HI.
    assert (X : Csr.byc (rs_reg s) c = Some m) by (apply HB; eauto). congruence.
Qed.

Lemma listed_ext g g' dom : (forall n, Csr.csrs g' n = Csr.csrs g n) -> listed g' dom = listed g dom.
Proof.
  intros H. unfold listed. induction dom as [|n r IH]; cbn [flat_map]; [reflexivity|]. rewrite H, IH. reflexivity.
Qed.

Lemma csr_after_listed s : Inv_csr s -> listed (rs_reg (csr_after s)) (rs_dom (csr_after s)) = listed (rs_reg s) (rs_dom s).
Proof. intros HI. cbn [csr_after rs_dom]. apply listed_ext. intros n. apply csr_after_csrs. exact HI. Qed.

Lemma csr_after_inv s : Inv_csr s -> Inv_csr (csr_after s).
Proof.
  intros HI. split.
  - apply csr_after_reg_inv. exact HI.
  - exact (icsr_params s HI).
  - exact (icsr_nodup s HI).
  - intros n. rewrite csr_after_csrs by exact HI. exact (icsr_dom s HI n).
Qed.

(** * inflation *)
Record Inv_inf (s : inf_st) : Prop := {
  iinf_params : inf_valid (is_par s) = true;
  iinf_epp : 0 < is_epp s;
  iinf_ident : 0 <= is_ident s                              (* the configured identifier is not blank *)
}.

Definition ctx_ok (c : ictx) : Prop := 0 <= ic_bonded c /\ 0 <= ic_height c.

Lemma inf_valid_exp p : inf_valid p = true -> InflationProofs.ValidExp (exp_of p).
Proof.
  unfold inf_valid, inf_validate. intros H. apply andb_prop in H as [H _]. apply andb_prop in H as [_ H].
  unfold inf_v_exp in H. apply andb_prop in H as [H _].
  apply InflationProofs.valid_exp_spec. exact H.
Qed.

(* validated parameters: the worst-case evaluation of the provision goes through (provisionComputable) *)
Lemma inf_valid_worst p : inf_valid p = true -> exists v0, Inflation.calc_provision (exp_of p) 0%N 1 0 = Some v0.
Proof.
  unfold inf_valid, inf_validate. intros H. apply andb_prop in H as [H _]. apply andb_prop in H as [_ H].
  unfold inf_v_exp in H. apply andb_prop in H as [_ H]. unfold inf_computable in H. fold (exp_of p) in H.
  destruct (Inflation.calc_provision (exp_of p) 0%N 1 0) as [v0|]; [eauto|discriminate].
Qed.

(* hence the provision can be computed for every period, epochs per period >= 1 and bonded ratio >= 0 *)
Lemma inf_valid_no_panic p x epp bonded :
  inf_valid p = true -> 0 < epp -> 0 <= bonded ->
  Inflation.calc_provision (exp_of p) x epp bonded = Some (InflationProofs.pure_calc (exp_of p) x epp bonded).
Proof.
  intros V He Hb. destruct (inf_valid_worst p V) as (v0 & E0).
  exact (InflationProofs.calc_worst_case _ _ (inf_valid_exp _ V) E0 x epp bonded He Hb).
Qed.

Definition prov_after (c : ictx) (s : inf_st) : Z :=
  InflationProofs.pure_calc (exp_of (is_par s)) (Z.to_N (is_period s)) (is_epp s) (ic_bonded c).
Definition inf_after (c : ictx) (s : inf_st) : inf_st :=
  mkInfSt (is_par s) (is_period s) (is_ident s) (is_epp s) (is_skipped s) (prov_after c s).

Lemma inf_set_ok p : inf_valid p = true -> inf_set_param_set p inf_zero = Some p.
Proof. intros V. rewrite AuthorityProofs.inf_set_spec. unfold inf_valid in V. rewrite V. reflexivity. Qed.

Lemma import_inf_export c s : ctx_ok c -> Inv_inf s -> import_inf c (export_inf s) = Some (inf_after c s).
Proof.
  intros [Hb _] [HP He Hi]. unfold import_inf, export_inf. cbn [ig_params ig_period ig_ident ig_epp ig_skipped].
  rewrite (inf_set_ok _ HP). cbn [SdkInt.obind].
  rewrite (inf_valid_no_panic _ _ _ _ HP He Hb). reflexivity.
Qed.

Lemma export_inf_valid s : Inv_inf s -> validate_inf (export_inf s) = true.
Proof.
  intros [HP He Hi]. unfold validate_inf, export_inf, id_blank. cbn [ig_params ig_ident ig_epp].
  unfold inf_valid in HP. rewrite HP.
  assert (A : (is_ident s <? 0) = false) by (apply Z.ltb_ge; lia).
  assert (B : (0 <? is_epp s) = true) by (apply Z.ltb_lt; lia).
  rewrite A, B. reflexivity.
Qed.

(** * epochs *)
Fixpoint ids_sorted (lo : Z) (l : list epoch) : Prop :=
  match l with [] => True | e :: r => lo < e_id e /\ ids_sorted (e_id e) r end.

Definition epoch_inv (e : epoch) : Prop :=
  e_dur e <> 0 /\ e_start e <> zero_time /\ 0 <= e_cur e /\ 0 <= e_height e.

Record Inv_ep (s : list epoch) : Prop := {
  iep_sorted : ids_sorted (-1) s;                  (* store order, identifiers not blank *)
  iep_each : Forall epoch_inv s
}.

Lemma ids_sorted_weaken lo lo' l : lo' <= lo -> ids_sorted lo l -> ids_sorted lo' l.
Proof. destruct l as [|e r]; cbn [ids_sorted]; [tauto|]. intros H [A B]. split; [lia|exact B]. Qed.

Lemma ids_sorted_notin lo l : ids_sorted lo l -> forall e, In e l -> lo < e_id e.
Proof.
  revert lo. induction l as [|x r IH]; intros lo H e HIn; [destruct HIn|].
  cbn [ids_sorted] in H. destruct H as [A B]. destruct HIn as [->|HIn]; [exact A|].
  specialize (IH _ B e HIn). lia.
Qed.

Lemma ids_sorted_nodup lo l : ids_sorted lo l -> znodup (map e_id l) = true.
Proof.
  revert lo. induction l as [|x r IH]; intros lo H; cbn [map znodup]; [reflexivity|].
  destruct H as [A B]. rewrite (IH _ B), andb_true_r. apply negb_true_iff.
  destruct (zmem (e_id x) (map e_id r)) eqn:E; [|reflexivity].
  apply zmem_In in E. apply in_map_iff in E as (y & Ey & Hy).
  pose proof (ids_sorted_notin _ _ B y Hy). lia.
Qed.

Lemma export_ep_valid s : Inv_ep s -> validate_ep (export_ep s) = true.
Proof.
  intros [HS HE]. unfold validate_ep, export_ep. rewrite (ids_sorted_nodup _ _ HS). cbn [andb].
  apply forallb_forall. intros e HIn.
  pose proof (ids_sorted_notin _ _ HS e HIn) as Hid.
  rewrite Forall_forall in HE. destruct (HE e HIn) as (Hd & _ & Hc & Hh).
  unfold epoch_ok, id_blank.
  assert (A : (e_id e <? 0) = false) by (apply Z.ltb_ge; lia).
  assert (B : (e_dur e =? 0) = false) by (apply Z.eqb_neq; exact Hd).
  assert (C : (e_cur e <? 0) = false) by (apply Z.ltb_ge; lia).
  assert (D : (e_height e <? 0) = false) by (apply Z.ltb_ge; lia).
  rewrite A, B, C, D. reflexivity.
Qed.

(* writing a record whose identifier is above all stored ones appends it *)
Lemma ep_set_append x : forall l lo, ids_sorted lo l -> (forall e, In e l -> e_id e < e_id x) -> ep_set x l = l ++ [x].
Proof.
  induction l as [|y r IH]; intros lo HS Hlt; cbn [ep_set app]; [reflexivity|].
  pose proof (Hlt y (or_introl eq_refl)) as Hy.
  destruct (Z.ltb_spec (e_id x) (e_id y)); [lia|]. destruct (Z.eqb_spec (e_id x) (e_id y)); [lia|].
  destruct HS as [_ HS]. f_equal. apply (IH _ HS). intros e He. apply Hlt. right. exact He.
Qed.

Lemma ids_sorted_app lo a x : ids_sorted lo a -> (forall e, In e a -> e_id e < e_id x) -> lo < e_id x -> ids_sorted lo (a ++ [x]).
Proof.
  revert lo. induction a as [|y r IH]; intros lo HS Hlt Hlo; cbn [app ids_sorted]; [tauto|].
  destruct HS as [A B]. split; [exact A|]. apply IH; [exact B| |].
  - intros e He. apply Hlt. right. exact He.
  - apply Hlt. left. reflexivity.
Qed.

Lemma import_ep_fold (f : epoch -> epoch) (Hid : forall e, e_id (f e) = e_id e) : forall l acc lo,
  ids_sorted lo acc -> (forall a e, In a acc -> In e l -> e_id a < e_id e) ->
  (exists lo', ids_sorted lo' l /\ lo <= lo') ->
  fold_left (fun acc e => ep_set (f e) acc) l acc = acc ++ map f l.
Proof.
  induction l as [|x r IH]; intros acc lo HA Hlt (lo' & HL & Hlo); cbn [fold_left map]; [rewrite app_nil_r; reflexivity|].
  destruct HL as [Hx HR].
  rewrite (ep_set_append (f x) acc lo HA).
  - rewrite (IH (acc ++ [f x]) lo).
    + rewrite <- app_assoc. reflexivity.
    + apply ids_sorted_app; [exact HA| |rewrite Hid; lia].
      intros e He. rewrite Hid. apply (Hlt e x He). left. reflexivity.
    + intros a e Ha He. apply in_app_or in Ha as [Ha|[<-|[]]].
      * apply (Hlt a e Ha). right. exact He.
      * rewrite Hid. apply (ids_sorted_notin _ _ HR e He).
    + exists (e_id x). split; [exact HR|lia].
  - intros e He. rewrite Hid. apply (Hlt e x He). left. reflexivity.
Qed.

Definition ep_after (c : ictx) (s : list epoch) : list epoch := map (import_epoch (ic_time c) (ic_height c)) s.

Lemma import_epoch_id t h e : e_id (import_epoch t h e) = e_id e.
Proof. reflexivity. Qed.

Lemma import_ep_export c s : Inv_ep s -> import_ep c (export_ep s) = Some (ep_after c s).
Proof.
  intros [HS HE]. unfold import_ep, export_ep, ep_after. f_equal.
  rewrite (import_ep_fold (import_epoch (ic_time c) (ic_height c)) (import_epoch_id _ _) s [] (-1)); [reflexivity|exact I| |].
  - intros a e [].
  - exists (-1). split; [exact HS|lia].
Qed.

Lemma mask_import t h e : e_start e <> zero_time -> mask_epoch (import_epoch t h e) = mask_epoch e.
Proof.
  intros H. unfold mask_epoch, import_epoch. cbn [e_id e_start e_dur e_cur e_cur_start e_started].
  destruct (Z.eqb_spec (e_start e) zero_time); [contradiction|reflexivity].
Qed.

Lemma ep_after_mask c s : Inv_ep s -> map mask_epoch (ep_after c s) = map mask_epoch s.
Proof.
  intros [_ HE]. unfold ep_after. rewrite map_map. apply map_ext_in. intros e He.
  rewrite Forall_forall in HE. apply mask_import. apply (HE e He).
Qed.

Lemma ep_after_current c s i : current_epoch (ep_after c s) i = current_epoch s i.
Proof.
  unfold current_epoch, epoch_by_id, ep_after. induction s as [|e r IH]; cbn [map find]; [reflexivity|].
  rewrite import_epoch_id. destruct (e_id e =? i); [reflexivity|exact IH].
Qed.

(** * onboarding *)
Lemma onb_set_ok p : onb_valid p = true -> onb_set_param_set p onb_zero = Some p.
Proof. intros V. rewrite AuthorityProofs.onb_set_spec. unfold onb_valid in V. rewrite V. reflexivity. Qed.

(** * The seven modules together *)
Record Inv (s : state) : Prop := {
  inv_cs : Inv_cs (s_cs s);
  inv_erc : Inv_erc (s_erc s);
  inv_csr : Inv_csr (s_csr s);
  inv_inf : Inv_inf (s_inf s);
  inv_ep : Inv_ep (s_ep s);
  inv_onb : onb_valid (s_onb s) = true
}.

(* the state of the chain initialised from the export *)
Definition after (c : ictx) (s : state) : state :=
  mkSt (cs_after (s_cs s)) (s_erc s) (csr_after (s_csr s)) (inf_after c (s_inf s)) (ep_after c (s_ep s)) (s_gs s) (s_onb s).

Theorem import_export c s : ctx_ok c -> Inv s -> import c (export s) = Some (after c s).
Proof.
  intros Hc [H1 H2 H3 H4 H5 H6]. unfold import, export.
  cbn [g_cs g_erc g_csr g_inf g_ep g_gs g_onb].
  rewrite (import_cs_export _ H1). cbn [SdkInt.obind].
  rewrite (import_erc_export _ H2). cbn [SdkInt.obind].
  rewrite (import_csr_export _ H3). cbn [SdkInt.obind].
  rewrite (import_inf_export _ _ Hc H4). cbn [SdkInt.obind].
  rewrite (import_ep_export _ _ H5). cbn [SdkInt.obind import_gs export_gs].
  unfold import_onb, export_onb. rewrite (onb_set_ok _ H6). reflexivity.
Qed.

(** ** the export passes the modules' own validation *)
Theorem export_valid s : Inv s -> validate (export s) = true.
Proof.
  intros [H1 H2 H3 H4 H5 H6]. unfold validate, export. cbn [g_cs g_erc g_csr g_inf g_ep g_gs g_onb].
  rewrite (ics_valid _ H1), (export_erc_valid _ H2), (export_inf_valid _ H4), (export_ep_valid _ H5).
  unfold validate_csr, export_csr, validate_gs, validate_onb, export_onb. cbn [rg_params].
  pose proof (icsr_params _ H3) as V3. unfold csr_valid in V3. rewrite V3.
  unfold onb_valid in H6. rewrite H6. reflexivity.
Qed.

(** ** importing the export never panics *)
Theorem import_export_defined c s : ctx_ok c -> Inv s -> exists s', import c (export s) = Some s'.
Proof. intros Hc HI. exists (after c s). apply import_export; assumption. Qed.

(** ** export after import is the same document, up to current_epoch_start_height *)
Theorem fixed_point c s s' :
  ctx_ok c -> Inv s -> import c (export s) = Some s' -> gen_equiv (export s') (export s).
Proof.
  intros Hc HI E. rewrite (import_export _ _ Hc HI) in E. inversion E; subst s'. clear E.
  destruct HI as [H1 H2 H3 H4 H5 H6].
  unfold gen_equiv, mask, export, after. cbn [s_cs s_erc s_csr s_inf s_ep s_gs s_onb g_cs g_erc g_csr g_inf g_ep g_gs g_onb].
  f_equal.
  - unfold export_csr. rewrite (csr_after_listed _ H3). reflexivity.
  - unfold export_ep. apply ep_after_mask. exact H5.
Qed.

(** ** the module queries answer identically on the re-imported chain *)
Theorem queries_equal c s s' pr :
  ctx_ok c -> Inv s -> import c (export s) = Some s' -> answer pr s' = answer pr s.
Proof.
  intros Hc HI E. rewrite (import_export _ _ Hc HI) in E. inversion E; subst s'. clear E.
  destruct HI as [H1 H2 H3 H4 H5 H6].
  unfold answer, after. cbn [s_cs s_erc s_csr s_inf s_ep s_gs s_onb].
  rewrite (csr_after_listed _ H3), (ep_after_mask _ _ H5).
  f_equal.
  - apply map_ext. intros l. apply cs_after_by_lpt. exact H1.
  - apply map_ext. intros n. unfold csr_by_nft. apply csr_after_csrs. exact H3.
  - apply map_ext. intros k. unfold csr_by_contract.
    rewrite (csr_after_byc _ _ H3). destruct (Csr.byc (rs_reg (s_csr s)) k) as [n|]; [|reflexivity].
    rewrite (csr_after_csrs _ _ H3). reflexivity.
  - apply map_ext. intros i. apply ep_after_current.
Qed.

(** ** only the provision is recomputed: the re-imported chain is again a state of the invariant, and a
       second export/import round changes nothing more *)
Theorem after_inv c s : ctx_ok c -> Inv s -> Inv (after c s).
Proof.
  intros [Hb Hh] [H1 H2 H3 H4 H5 H6]. split; cbn [after s_cs s_erc s_csr s_inf s_ep s_onb].
  - apply cs_after_inv. exact H1.
  - exact H2.
  - apply csr_after_inv. exact H3.
  - destruct H4 as [A B C]. split; assumption.
  - destruct H5 as [HS HE]. split.
    + unfold ep_after. clear HE. revert HS. generalize (-1). induction (s_ep s) as [|e r IH]; intros lo HS; cbn [map ids_sorted] in *; [exact I|].
      destruct HS as [A B]. split; [exact A|]. apply IH. exact B.
    + unfold ep_after. rewrite Forall_forall in *. intros e He. apply in_map_iff in He as (e0 & <- & He0).
      destruct (HE e0 He0) as (A & B & C & D). unfold epoch_inv, import_epoch. cbn [e_dur e_start e_cur e_height].
      destruct (Z.eqb_spec (e_start e0) zero_time); [contradiction|].
      repeat split; assumption.
  - exact H6.
Qed.

(** * Non-vacuity: a concrete state with two pools, two token pairs, a CSR with revenue, started epochs *)
Definition ex_cs_st : cs_st :=
  mkCsSt AuthorityProofs.ex_cs 1 true 3 [canon_pool 1 5 1; canon_pool 1 6 2] [(2, 6); (1, 5)].
Definition ex_csr_reg : Csr.registry :=
  Csr.set_csr (Csr.set_csr Csr.empty_reg 1 (Csr.mkCsr [100; 101] 5 777)) 4 (Csr.mkCsr [102] 0 0).
Definition ex_csr_st : csr_st := mkCsrSt (mkCsr true (2 * 10 ^ 17)) ex_csr_reg [1; 4] (Some 999).
Definition ex_inf_st : inf_st := mkInfSt AuthorityProofs.ex_inf 2 0 30 5 12345.
Definition ex_ep_st : list epoch := [mkEpoch 0 100 10 3 120 true 7; mkEpoch 1 100 70 1 100 true 2].
Definition ex_st : state :=
  mkSt ex_cs_st (mkErcSt TokenPairsProofs.ex_state true true) ex_csr_st ex_inf_st ex_ep_st (Some 4242) (mkOnb true 4 []).
Definition ex_ctx : ictx := mkICtx 5000 0 (3 * 10 ^ 17).

Lemma ex_csr_reg_inv : CsrProofs.csr_inv ex_csr_reg.
Proof.
  unfold ex_csr_reg. apply CsrProofs.set_csr_inv.
  - apply CsrProofs.set_csr_inv; [apply CsrProofs.empty_inv| | |]; cbn.
    + repeat constructor; cbn; intuition lia.
    + intros c _. left. reflexivity.
    + intros c H. discriminate.
  - cbn. repeat constructor. intros [].
  - cbn. intros c [<-|[]]. left. reflexivity.
  - intros c. rewrite CsrProofs.set_csr_byc. cbn [Csr.c_contracts Csr.empty_reg Csr.byc].
    destruct (Csr.memZ c [100; 101]); [intros H; inversion H|discriminate].
Qed.

Example ex_inv : Inv ex_st.
Proof.
  split; cbn [ex_st s_cs s_erc s_csr s_inf s_ep s_onb].
  - split; [vm_compute; reflexivity|vm_compute; reflexivity|].
    intros l. unfold pool_by_lpt, pool_by_id, by_lpt.
    cbn [ex_cs_st cs_idx cs_pools zassoc find canon_pool gp_id gp_lpt].
    destruct (Z.eqb_spec 2 l) as [<-|N2]; [reflexivity|]. destruct (Z.eqb_spec 1 l) as [<-|N1]; reflexivity.
  - split; [apply TokenPairsProofs.ex_inv|reflexivity].
  - split; cbn [ex_csr_st rs_reg rs_par rs_dom].
    + exact ex_csr_reg_inv.
    + vm_compute. reflexivity.
    + repeat constructor; cbn; intuition lia.
    + intros n. unfold ex_csr_reg. rewrite !CsrProofs.set_csr_csrs. cbn [Csr.empty_reg Csr.csrs In].
      destruct (Z.eqb_spec n 4); destruct (Z.eqb_spec n 1); split; intros H;
        try discriminate; try (right; left; lia); try (left; lia); try (exfalso; apply H; reflexivity).
      destruct H as [H|[H|[]]]; lia.
  - split; cbn [ex_inf_st is_par is_epp is_ident]; [vm_compute; reflexivity|lia|lia].
  - split; cbn [ex_ep_st ids_sorted e_id]; [lia|].
    repeat constructor; cbn; try lia; unfold zero_time; lia.
  - reflexivity.
Qed.

Example ex_ctx_ok : ctx_ok ex_ctx.
Proof. split; cbn; lia. Qed.

(* the example really has content: pools, pairs, CSRs, and the provision is the one thing that changes *)
Example ex_content :
  length (cg_pools (g_cs (export ex_st))) = 2%nat /\
  length (eg_pairs (g_erc (export ex_st))) = 2%nat /\
  length (rg_csrs (g_csr (export ex_st))) = 2%nat /\
  validate (export ex_st) = true /\
  (exists s', import ex_ctx (export ex_st) = Some s' /\ is_prov (s_inf s') <> is_prov (s_inf ex_st) /\
              map e_height (s_ep s') <> map e_height (s_ep ex_st)).
Proof.
  split; [reflexivity|]. split; [vm_compute; reflexivity|]. split; [reflexivity|].
  split; [apply export_valid, ex_inv|].
  exists (after ex_ctx ex_st). split; [apply import_export; [exact ex_ctx_ok|exact ex_inv]|].
  split; [vm_compute; discriminate|cbn; discriminate].
Qed.

(** * Histories: the invariant holds along every history of the operational models

    The chain is the product of the models of the other properties: the AMM (Model/Coinswap.v: pool
    creation, trades, liquidity), the stored parameter sets under governance (Model/Authority.v), the
    token-pair registry (Model/TokenPairs.v: register, toggle, removal), the CSR registry with the
    post-transaction hook (Model/Csr.v: Turnstile events, revenue, counters), the epoch clock with
    inflation as listener (Model/Epochs.v, Model/Inflation.v: ticks, mints, periods, skipped epochs)
    and the govshuttle port (set once, when the first proposal deploys the store contract). *)
From Canto Require Proofs.CoinswapEffects Proofs.CoinswapWF Proofs.GenesisCoinswap Proofs.EpochsProofs.

Record world := mkW {
  w_coin : Coinswap.state;          (* pools and next sequence (its own abstract view of the params is not exported) *)
  w_std : Z;                        (* the standard denomination, validated by the genesis the chain started from *)
  w_par : chain unit;               (* stored params of coinswap, inflation, csr, onboarding, erc20 *)
  w_erc : TokenPairs.state;
  w_csr : Csr.state;
  w_dom : list Z;                   (* NFT ids under the first csr store prefix *)
  w_inf : Inflation.state;
  w_ep : list epoch;
  w_port : option Z
}.

Definition abs_cs (w : world) : cs_st :=
  let ps := Coinswap.st_pools (w_coin w) in
  mkCsSt (c_cs (w_par w)) (w_std w) true (Coinswap.st_next (w_coin w))
         (map (fun e => canon_pool (w_std w) (fst e) (snd e)) ps) (map (fun e => (snd e, fst e)) ps).

(* the stored state the seven modules export (stored pairs carry well-formed strings: RegisterCoin /
   RegisterERC20 validate them; checked on every case by the ValidateGenesis monitor) *)
Definition abs (w : world) : state :=
  mkSt (abs_cs w)
       (mkErcSt (w_erc w) (erc_hook (c_erc (w_par w))) true)
       (mkCsrSt (c_csr (w_par w)) (Csr.reg (w_csr w)) (w_dom w) (Csr.turnstile (Csr.cfg (w_csr w))))
       (mkInfSt (c_inf (w_par w)) (Inflation.st_period (w_inf w)) (Inflation.st_ident (w_inf w))
                (Inflation.st_epp (w_inf w)) (Inflation.st_skipped (w_inf w)) (Inflation.st_provision (w_inf w)))
       (w_ep w) (w_port w) (c_onb (w_par w)).

Inductive wop :=
| WCoinswap (now : Z) (o : Coinswap.op)
| WParams (x : Authority.op unit)
| WErc20 (o : TokenPairs.op)
| WCsrTx (t : Csr.tx)
| WBlock (t h : Z) (o : Inflation.oracle)
| WPort (a : Z).

(* ids of the Register events of a receipt *)
Fixpoint reg_ids (logs : list Csr.log) : list Z :=
  match logs with
  | [] => []
  | l :: r => match Csr.l_payload l with Csr.PRegister _ _ id => Csr.u64 id :: reg_ids r | _ => reg_ids r end
  end.

Definition is_some' {A} (o : option A) : bool := match o with Some _ => true | None => false end.

Definition new_ids (t : Csr.tx) (g' : Csr.registry) (dom : list Z) : list Z :=
  filter (fun n => is_some' (Csr.csrs g' n) && negb (zmem n dom)) (zdedup (reg_ids (Csr.tx_logs t))).

Section History.
Variable gov : str.     (* the governance module's address string *)
Variable day : Z.       (* rank of the identifier "day" *)

Definition wstep (o : wop) (w : world) : world :=
  match o with
  | WCoinswap now x =>
      mkW (fst (Coinswap.deliver now (w_coin w) x)) (w_std w) (w_par w) (w_erc w) (w_csr w) (w_dom w) (w_inf w) (w_ep w) (w_port w)
  | WParams x =>
      mkW (w_coin w) (w_std w) (snd (Authority.step gov x (w_par w))) (w_erc w) (w_csr w) (w_dom w) (w_inf w) (w_ep w) (w_port w)
  | WErc20 x =>
      mkW (w_coin w) (w_std w) (w_par w) (fst (TokenPairs.step x (w_erc w))) (w_csr w) (w_dom w) (w_inf w) (w_ep w) (w_port w)
  | WCsrTx t =>
      let s' := Csr.deliver t (w_csr w) in
      mkW (w_coin w) (w_std w) (w_par w) (w_erc w) s' (w_dom w ++ new_ids t (Csr.reg s') (w_dom w)) (w_inf w) (w_ep w) (w_port w)
  | WBlock t h o =>
      match Inflation.block day o t h (w_ep w) (w_inf w) with
      | Some (es', s') => mkW (w_coin w) (w_std w) (w_par w) (w_erc w) (w_csr w) (w_dom w) s' es' (w_port w)
      | None => w     (* a panic in BeginBlocker halts the chain: no further state *)
      end
  | WPort a =>
      mkW (w_coin w) (w_std w) (w_par w) (w_erc w) (w_csr w) (w_dom w) (w_inf w) (w_ep w)
          (match w_port w with Some p => Some p | None => Some a end)
  end.

Definition wrun (os : list wop) (w : world) : world := fold_left (fun w o => wstep o w) os w.

Record WInv (w : world) : Prop := {
  wi_wf : CoinswapEffects.WF (w_coin w);
  wi_seq : GenesisCoinswap.seq_exact (w_coin w);
  wi_par : chain_valid (w_par w) = true;
  wi_erc : TokenPairsProofs.Inv (w_erc w);
  wi_csr : CsrProofs.csr_inv (Csr.reg (w_csr w));
  wi_dom_nd : List.NoDup (w_dom w);
  wi_dom : forall n, In n (w_dom w) <-> Csr.csrs (Csr.reg (w_csr w)) n <> None;
  wi_epp : 0 < Inflation.st_epp (w_inf w);
  wi_ident : 0 <= Inflation.st_ident (w_inf w);
  wi_ep : Inv_ep (w_ep w)
}.

(* the external facts of one operation: nothing else is assumed about a history.
     WErc20   the address the EVM gives to the contract deployed by RegisterCoin is not the address of a
              registered pair (a fact about the EVM's CREATE address derivation, [TokenPairsProofs.fresh_ok])
     WBlock   the block height is not negative (a fact about CometBFT headers; ValidateGenesis of x/epochs
              demands current_epoch_start_height >= 0)
   Everything else is derived from the models: AMM well-formedness and the pool sequence (Coinswap), validity
   of stored parameters (Authority), the registry invariants (TokenPairs, Csr), and - [deliver_ids] below - that
   the NFT ids a receipt stores are ids of Register events the Turnstile emitted in that receipt. *)
Definition op_ok (w : world) (o : wop) : Prop :=
  match o with
  | WErc20 x => TokenPairsProofs.fresh_ok (w_erc w) x        (* the EVM gives a fresh address to a new contract *)
  | WBlock _ h _ => 0 <= h                                    (* block heights are not negative *)
  | _ => True
  end.

Fixpoint hist_ok (w : world) (os : list wop) : Prop :=
  match os with
  | [] => True
  | o :: r => op_ok w o /\ hist_ok (wstep o w) r
  end.

(** ** the abstraction of an invariant world satisfies [Inv] *)
Lemma zmax_ge l x : In x l -> x <= zmax l.
Proof. induction l as [|y r IH]; intros H; [destruct H|]. cbn [zmax]. destruct H as [->|H]; [lia|]. specialize (IH H). lia. Qed.
Lemma zmax_le l m : 0 <= m -> (forall x, In x l -> x <= m) -> zmax l <= m.
Proof.
  intros Hm. induction l as [|y r IH]; intros H; cbn [zmax]; [exact Hm|].
  pose proof (H y (or_introl eq_refl)). assert (zmax r <= m) by (apply IH; intros x Hx; apply H; right; exact Hx). lia.
Qed.

Lemma abs_cs_inv w :
  CoinswapEffects.WF (w_coin w) -> GenesisCoinswap.seq_exact (w_coin w) -> cs_valid (c_cs (w_par w)) = true ->
  Inv_cs (abs_cs w).
Proof.
  intros [_ _ (ND1 & ND2 & _) _] [SL SH SE ST] HP.
  set (ps := Coinswap.st_pools (w_coin w)) in *.
  assert (Eid : map gp_id (map (fun e => canon_pool (w_std w) (fst e) (snd e)) ps) = map fst ps).
  { rewrite map_map. apply map_ext. reflexivity. }
  assert (Elpt : map gp_lpt (map (fun e => canon_pool (w_std w) (fst e) (snd e)) ps) = map snd ps).
  { rewrite map_map. apply map_ext. reflexivity. }
  assert (Eseq : map seq_of (map (fun e => canon_pool (w_std w) (fst e) (snd e)) ps) = map snd ps).
  { rewrite map_map. apply map_ext. reflexivity. }
  split.
  - unfold validate_cs, export_cs, abs_cs. fold ps. cbn [cg_std_ok cg_pools cg_seq cg_params cs_std_ok cs_pools cs_next cs_par].
    rewrite Eid, Elpt, Eseq.
    rewrite (proj2 (znodup_NoDup _) ND1), (proj2 (znodup_NoDup _) ND2). cbn [andb].
    assert (F : forallb pool_ok (map (fun e => canon_pool (w_std w) (fst e) (snd e)) ps) = true).
    { apply forallb_forall. intros p Hp. apply in_map_iff in Hp as (e & <- & _). reflexivity. }
    rewrite F. cbn [andb].
    assert (M : zmax (map snd ps) + 1 = Coinswap.st_next (w_coin w)).
    { destruct ps as [|[k q] r] eqn:Q.
      - cbn. rewrite SE; [reflexivity|reflexivity].
      - destruct ST as (n & Hn); [discriminate|].
        assert (A : Coinswap.st_next (w_coin w) - 1 <= zmax (map snd ((k, q) :: r))).
        { apply zmax_ge. apply in_map_iff. exists (n, Coinswap.st_next (w_coin w) - 1). split; [reflexivity|exact Hn]. }
        assert (B : zmax (map snd ((k, q) :: r)) <= Coinswap.st_next (w_coin w) - 1).
        { apply zmax_le.
          - specialize (SL _ _ Hn). lia.
          - intros x Hx. apply in_map_iff in Hx as ([k' q'] & <- & Hin). specialize (SH _ _ Hin). cbn [snd]. lia. }
        lia. }
    rewrite M, Z.eqb_refl. cbn [andb].
    unfold cs_valid in HP. do 5 (apply andb_prop in HP as [HP _]). exact HP.
  - exact HP.
  - intros l. unfold pool_by_lpt, pool_by_id, abs_cs. fold ps. cbn [cs_idx cs_pools].
    rewrite <- (rebuilt_idx_exact _ l); [|rewrite Eid; exact ND1].
    unfold rebuilt_idx. rewrite map_map. reflexivity.
Qed.

Theorem abs_inv w : WInv w -> Inv (abs w).
Proof.
  intros [WF SX VP HE HC ND HD He Hi HP].
  pose proof VP as VP'. unfold chain_valid in VP'.
  apply andb_prop in VP' as [VP' Verc]. apply andb_prop in VP' as [VP' Vonb].
  apply andb_prop in VP' as [VP' Vcsr]. apply andb_prop in VP' as [Vcs Vinf].
  split; cbn [abs s_cs s_erc s_csr s_inf s_ep s_onb].
  - apply abs_cs_inv; assumption.
  - split; [exact HE|reflexivity].
  - split; cbn [rs_reg rs_par rs_dom]; assumption.
  - split; cbn [is_par is_epp is_ident]; assumption.
  - exact HP.
  - exact Vonb.
Qed.
End History.

(** ** every operation keeps the invariant *)
Lemma zdedup_In x l : In x (zdedup l) <-> In x l.
Proof.
  induction l as [|y r IH]; cbn [zdedup In]; [tauto|].
  rewrite filter_In, IH. destruct (Z.eqb_spec x y) as [->|Hne].
  - split; intros _; left; reflexivity.
  - split; [intros [H|[H _]]; [left; exact H|right; exact H]|].
    intros [H|H]; [left; exact H|right; split; [exact H|]].
    destruct (Z.eqb_spec x y); [contradiction|reflexivity].
Qed.
Lemma zdedup_NoDup l : List.NoDup (zdedup l).
Proof.
  induction l as [|y r IH]; cbn [zdedup]; constructor.
  - rewrite filter_In. intros [_ H]. rewrite Z.eqb_refl in H. discriminate.
  - apply List.NoDup_filter. exact IH.
Qed.

Lemma lnodup_app (a b : list Z) :
  List.NoDup a -> List.NoDup b -> (forall x, In x a -> In x b -> False) -> List.NoDup (a ++ b).
Proof.
  induction a as [|x r IH]; intros Ha Hb Hd; cbn [app]; [exact Hb|].
  inversion Ha as [|? ? Hn Hr]; subst. constructor.
  - rewrite in_app_iff. intros [H|H]; [contradiction|]. apply (Hd x); [left; reflexivity|exact H].
  - apply IH; [exact Hr|exact Hb|]. intros y Hy. apply Hd. right. exact Hy.
Qed.

Lemma deliver_keeps t s n : Csr.csrs (Csr.reg s) n <> None -> Csr.csrs (Csr.reg (Csr.deliver t s)) n <> None.
Proof.
  intros H. unfold Csr.deliver. destruct (Csr.post_tx t s) as [s'|] eqn:E; [|exact H].
  destruct (Csr.csrs (Csr.reg s) n) as [r|] eqn:A; [|contradiction].
  destruct (CsrProofs.post_tx_keeps _ _ _ _ _ E A) as (r' & B & _). rewrite B. discriminate.
Qed.


(** ** NFT ids appear only through Register events of the Turnstile (derived from Model/Csr.v) *)
Fixpoint ts_reg_ids (ts : Z) (logs : list Csr.log) : list Z :=
  match logs with
  | [] => []
  | l :: r =>
      if Csr.l_emitter l =? ts then
        match Csr.l_payload l with Csr.PRegister _ _ id => Csr.u64 id :: ts_reg_ids ts r | _ => ts_reg_ids ts r end
      else ts_reg_ids ts r
  end.

Lemma ts_reg_ids_incl ts logs n : In n (ts_reg_ids ts logs) -> In n (reg_ids logs).
Proof.
  induction logs as [|l r IH]; cbn [ts_reg_ids reg_ids]; [tauto|].
  destruct (Csr.l_emitter l =? ts); destruct (Csr.l_payload l); cbn [In]; intuition.
Qed.

(* one event: a new id is the id of a Register event emitted by the Turnstile *)
Lemma log_step_ids hc ts g l g' n :
  Csr.log_step hc ts g l = Csr.Apply g' -> Csr.csrs g' n <> None ->
  Csr.csrs g n <> None \/ In n (ts_reg_ids ts [l]).
Proof.
  unfold Csr.log_step. cbn [ts_reg_ids].
  destruct (Csr.l_emitter l =? ts); cbn [negb]; [|discriminate].
  destruct (Csr.l_payload l) as [c0 rv id|c0 id| | | |]; try discriminate.
  - unfold Csr.register_event. destruct (Csr.validate_contract _ _ _); [|discriminate].
    destruct (Csr.csrs g (Csr.u64 id)) eqn:Cn; [discriminate|]. destruct (Csr.validate _); [|discriminate].
    intros X. inversion X; subst g'. rewrite CsrProofs.set_csr_csrs.
    destruct (Z.eqb_spec n (Csr.u64 id)) as [->|Hne]; [intros _; right; left; reflexivity|intros H; left; exact H].
  - unfold Csr.assign_event. destruct (Csr.validate_contract _ _ _); [|discriminate].
    destruct (Csr.csrs g (Csr.u64 id)) as [r0|] eqn:Cn; [|discriminate]. destruct (Csr.validate _); [|discriminate].
    intros X. inversion X; subst g'. rewrite CsrProofs.set_csr_csrs.
    destruct (Z.eqb_spec n (Csr.u64 id)) as [->|Hne]; intros H; left; [rewrite Cn; discriminate|exact H].
Qed.

Lemma ts_reg_ids_cons ts l r n : In n (ts_reg_ids ts [l]) \/ In n (ts_reg_ids ts r) -> In n (ts_reg_ids ts (l :: r)).
Proof.
  cbn [ts_reg_ids]. destruct (Csr.l_emitter l =? ts); [|intros [[]|H]; exact H].
  destruct (Csr.l_payload l); cbn [In]; intuition.
Qed.

Lemma process_events_ids hc ts logs : forall g n,
  Csr.csrs (Csr.process_events hc ts logs g) n <> None ->
  Csr.csrs g n <> None \/ In n (ts_reg_ids ts logs).
Proof.
  induction logs as [|l r IH]; intros g n H; cbn [Csr.process_events] in H; [left; exact H|].
  destruct (Csr.log_step hc ts g l) as [| |g1] eqn:E.
  - destruct (IH _ _ H) as [A|A]; [left; exact A|right; apply ts_reg_ids_cons; right; exact A].
  - left. exact H.
  - destruct (IH _ _ H) as [A|A]; [|right; apply ts_reg_ids_cons; right; exact A].
    destruct (log_step_ids _ _ _ _ _ _ E A) as [B|B]; [left; exact B|right; apply ts_reg_ids_cons; left; exact B].
Qed.

(* the whole hook: the final SetCSR rewrites the record of an NFT that is already there *)
Lemma post_tx_ids t s s' n :
  Csr.post_tx t s = Some s' -> Csr.csrs (Csr.reg s') n <> None ->
  Csr.csrs (Csr.reg s) n <> None \/
  exists ts, Csr.turnstile (Csr.cfg s) = Some ts /\ In n (ts_reg_ids ts (Csr.tx_logs t)).
Proof.
  unfold Csr.post_tx. intros H Hn.
  destruct (negb (Csr.enable (Csr.cfg s))); [inversion H; subst; left; exact Hn|].
  destruct (Csr.turnstile (Csr.cfg s)) as [ts|]; [|discriminate].
  assert (G : forall m, Csr.csrs (Csr.process_events (Csr.tx_code t) ts (Csr.tx_logs t) (Csr.reg s)) m <> None ->
                        Csr.csrs (Csr.reg s) m <> None \/ exists ts0, Some ts = Some ts0 /\ In m (ts_reg_ids ts0 (Csr.tx_logs t))).
  { intros m Hm. destruct (process_events_ids _ _ _ _ _ Hm) as [A|A]; [left; exact A|right; eauto]. }
  set (g := Csr.process_events (Csr.tx_code t) ts (Csr.tx_logs t) (Csr.reg s)) in *.
  destruct (Csr.tx_gas_used t =? 0); [inversion H; subst; cbn [Csr.reg] in Hn; apply G; exact Hn|].
  destruct (Csr.fee_of t) as [fee|]; cbn [SdkInt.obind] in H; [|discriminate].
  destruct (Csr.send_fee (Csr.mon s) fee) as [m1|]; cbn [SdkInt.obind] in H; [|discriminate].
  destruct (match Csr.tx_to t with Some c => Csr.byc g c | None => None end) as [k|].
  - destruct (Csr.csrs g k) as [rk|] eqn:Ck; [|discriminate].
    destruct (Csr.csr_fee_of fee (Csr.share (Csr.cfg s))) as [cf|]; cbn [SdkInt.obind] in H; [|discriminate].
    destruct (SdkInt.SdkInt.sub fee cf) as [rem|]; cbn [SdkInt.obind] in H; [|discriminate].
    destruct (0 <=? rem); [|discriminate].
    destruct (if 0 <? cf then Csr.distribute m1 k cf else Some m1) as [m2|]; cbn [SdkInt.obind] in H; [|discriminate].
    destruct (Csr.burn m2 rem) as [m3|]; cbn [SdkInt.obind] in H; [|discriminate].
    destruct (SdkInt.SdkInt.add (Csr.c_revenue rk) cf) as [rev|]; cbn [SdkInt.obind] in H; [|discriminate].
    inversion H; subst s'. cbn [Csr.reg] in Hn. rewrite CsrProofs.set_csr_csrs in Hn.
    destruct (Z.eqb_spec n k) as [->|Hne]; apply G; [rewrite Ck; discriminate|exact Hn].
  - destruct (Csr.burn m1 fee) as [m2|]; cbn [SdkInt.obind] in H; [|discriminate].
    inversion H; subst s'. cbn [Csr.reg] in Hn. apply G. exact Hn.
Qed.

(* every NFT id present after a receipt was present before, or is the id of a Register event that the
   stored Turnstile emitted in this receipt (a rejected receipt changes nothing) *)
Theorem deliver_ids t s n :
  Csr.csrs (Csr.reg (Csr.deliver t s)) n <> None ->
  Csr.csrs (Csr.reg s) n <> None \/
  exists ts, Csr.turnstile (Csr.cfg s) = Some ts /\ In n (ts_reg_ids ts (Csr.tx_logs t)).
Proof.
  unfold Csr.deliver. destruct (Csr.post_tx t s) as [s'|] eqn:E; [|intros H; left; exact H].
  apply post_tx_ids. exact E.
Qed.

Lemma run_hooks_static day o hs : forall s s',
  Inflation.run_hooks day o hs s = Some s' ->
  Inflation.st_epp s' = Inflation.st_epp s /\ Inflation.st_ident s' = Inflation.st_ident s.
Proof.
  induction hs as [|k r IH]; intros s s' H; cbn [Inflation.run_hooks] in H.
  - inversion H; subst. auto.
  - destruct k as [id n|id n]; [|apply IH; exact H].
    destruct (Inflation.after_epoch_end day o id n s) as [s1|] eqn:E1; cbn [SdkInt.obind] in H; [|discriminate].
    apply InflationProofs.hook_static in E1 as (_ & A & B). apply IH in H as [C D]. split; congruence.
Qed.

Lemma tick_epoch_inv t h e : 0 <= h -> epoch_inv e -> epoch_inv (fst (tick t h e)).
Proof.
  intros Hh (A & B & C & D). unfold tick.
  destruct (_ && _); [cbn [fst]; repeat split; cbn; try assumption; lia|].
  destruct (_ && _); cbn [fst]; repeat split; cbn; try assumption; lia.
Qed.

Lemma begin_block_inv_ep t h es : 0 <= h -> Inv_ep es -> Inv_ep (fst (begin_block t h es)).
Proof.
  intros Hh [HS HE]. rewrite EpochsProofs.block_records. split.
  - clear HE. revert HS. generalize (-1). induction es as [|e r IH]; intros lo HS; cbn [map ids_sorted] in *; [exact I|].
    destruct HS as [A B]. rewrite EpochsProofs.tick_id. split; [exact A|apply IH; exact B].
  - rewrite Forall_forall in *. intros e He. apply in_map_iff in He as (e0 & <- & He0).
    apply tick_epoch_inv; [exact Hh|apply HE; exact He0].
Qed.

Lemma step_c_inf {R} gov (x : op R) st :
  c_inf (snd (step gov x st)) = c_inf st \/
  (exists a n p, x = UpdInflation a n p /\ c_inf (snd (step gov x st)) = p).
Proof.
  destruct x as [a n p|a n p|a n p|a n p|a p|k a inner].
  - rewrite AuthorityProofs.coinswap_update. destruct (_ && _); left; reflexivity.
  - rewrite AuthorityProofs.inflation_update. destruct (_ && _); [right; eauto|left; reflexivity].
  - rewrite AuthorityProofs.csr_update. destruct (_ && _); left; reflexivity.
  - rewrite AuthorityProofs.onboarding_update. destruct (_ && _); left; reflexivity.
  - rewrite AuthorityProofs.erc20_update. destruct (str_eqb gov a); left; reflexivity.
  - left. apply AuthorityProofs.priv_step.
Qed.

Section Steps.
Variable gov : str.
Variable day : Z.

Theorem wstep_inv o w : WInv w -> op_ok w o -> WInv (wstep gov day o w).
Proof.
  intros [WF SX VP HE HC ND HD He Hi HP] OK.
  destruct o as [now x|x|x|t|t h orc|a]; cbn [wstep op_ok] in *.
  - split; cbn [w_coin w_par w_erc w_csr w_dom w_inf w_ep]; try assumption.
    + apply CoinswapWF.deliver_WF. exact WF.
    + eapply GenesisCoinswap.meta_step_seq; [exact SX|apply GenesisCoinswap.deliver_meta; exact WF].
  - split; cbn [w_coin w_par w_erc w_csr w_dom w_inf w_ep]; try assumption.
    apply AuthorityProofs.step_valid. exact VP.
  - split; cbn [w_coin w_par w_erc w_csr w_dom w_inf w_ep]; try assumption.
    apply TokenPairsProofs.step_inv; assumption.
  - split; cbn [w_coin w_par w_erc w_csr w_dom w_inf w_ep]; try assumption.
    + apply CsrProofs.deliver_inv. exact HC.
    + apply lnodup_app; [exact ND| |].
      * apply List.NoDup_filter. apply zdedup_NoDup.
      * intros n Hn Hn'. unfold new_ids in Hn'. apply filter_In in Hn' as [_ Hn'].
        apply andb_prop in Hn' as [_ Hn']. apply negb_true_iff in Hn'.
        apply zmem_In in Hn. congruence.
    + intros n. rewrite in_app_iff. unfold new_ids. rewrite filter_In, zdedup_In. split.
      * intros [Hn|(_ & Hn)].
        -- apply deliver_keeps. apply HD. exact Hn.
        -- apply andb_prop in Hn as [Hn _]. destruct (Csr.csrs _ n); [discriminate|discriminate Hn].
      * intros Hn. destruct (zmem n (w_dom w)) eqn:Z1; [left; apply zmem_In; exact Z1|].
        destruct (deliver_ids _ _ _ Hn) as [Old|(ts & _ & New)]; [left; apply HD; exact Old|].
        apply ts_reg_ids_incl in New.
        right. split; [exact New|].
        destruct (Csr.csrs _ n); [reflexivity|contradiction].
  - destruct (Inflation.block day orc t h (w_ep w) (w_inf w)) as [[es' s']|] eqn:E;
      [|split; assumption].
    unfold Inflation.block in E. destruct (begin_block t h (w_ep w)) as [es1 hs] eqn:B.
    destruct (Inflation.run_hooks day orc hs (w_inf w)) as [s1|] eqn:R; cbn [SdkInt.obind] in E; [|discriminate].
    inversion E; subst es' s'. apply run_hooks_static in R as [R1 R2].
    split; cbn [w_coin w_par w_erc w_csr w_dom w_inf w_ep]; try assumption.
    + rewrite R1. exact He.
    + rewrite R2. exact Hi.
    + replace es1 with (fst (begin_block t h (w_ep w))) by (rewrite B; reflexivity).
      apply begin_block_inv_ep; assumption.
  - split; cbn [w_coin w_par w_erc w_csr w_dom w_inf w_ep]; assumption.
Qed.

Theorem wrun_inv os : forall w, WInv w -> hist_ok gov day w os -> WInv (wrun gov day os w).
Proof.
  induction os as [|o r IH]; intros w HI HH; [exact HI|].
  destruct HH as [H1 H2]. cbn [wrun fold_left]. apply IH; [apply wstep_inv; assumption|exact H2].
Qed.

(** ** the history theorem: after any history of operations from a state of the invariant, the
       export passes validation, imports, re-exports to the same documents and answers the same.
       [hist_ok] holds exactly the two external facts listed at [op_ok] (fresh contract addresses from the EVM,
       block heights >= 0); everything else, including that NFT ids appear only through Register events of the
       Turnstile ([deliver_ids]), is derived from the models. *)
Theorem history c os w :
  ctx_ok c -> WInv w -> hist_ok gov day w os ->
  let s := abs (wrun gov day os w) in
  validate (export s) = true /\
  exists s', import c (export s) = Some s' /\
             gen_equiv (export s') (export s) /\
             forall pr, answer pr s' = answer pr s.
Proof.
  intros Hc HI HH s. assert (HS : Inv s) by (apply abs_inv, wrun_inv; assumption).
  split; [apply export_valid; exact HS|].
  exists (after c s). split; [apply import_export; assumption|]. split.
  - eapply fixed_point; [exact Hc|exact HS|apply import_export; assumption].
  - intros pr. eapply queries_equal; [exact Hc|exact HS|apply import_export; assumption].
Qed.
End Steps.

(** ** Non-vacuity of the history theorem: a concrete world with a pool, two token pairs and two CSRs,
       and a history with a parameter change, the port, a CSR-less transaction and a block *)
Definition ex_par : chain unit :=
  mkChain AuthorityProofs.ex_cs AuthorityProofs.ex_inf (mkCsr true (2 * 10 ^ 17)) (mkOnb true 4 []) (mkErc true true) tt.
Definition ex_csr_state : Csr.state :=
  Csr.mkState ex_csr_reg (Csr.mkMoney 0 0 0 0 (fun _ => 0)) (Csr.mkCfg (Some 999) true (2 * 10 ^ 17)).
Definition ex_world : world :=
  mkW CoinswapWF.ex_state 1 ex_par TokenPairsProofs.ex_state ex_csr_state [1; 4] (InflationProofs.ex_state true) ex_ep_st None.
Definition ex_gov : str := [103; 111; 118].
Definition ex_ops : list wop :=
  [WPort 4242; WParams (UpdCsr ex_gov false (mkCsr true (10 ^ 17)));
   WCsrTx (Csr.mkTx (fun _ => false) [] 0 1 None); WBlock 1000 9 InflationProofs.ex_oracle; WPort 1].

Example ex_winv : WInv ex_world.
Proof.
  split; cbn [ex_world w_coin w_par w_erc w_csr w_dom w_inf w_ep].
  - exact CoinswapWF.ex_state_WF.
  - exact GenesisCoinswap.ex_seq_exact.
  - vm_compute. reflexivity.
  - apply TokenPairsProofs.ex_inv.
  - exact ex_csr_reg_inv.
  - repeat constructor; cbn; intuition lia.
  - exact (icsr_dom _ (inv_csr _ ex_inv)).
  - cbn. lia.
  - cbn. lia.
  - exact (inv_ep _ ex_inv).
Qed.

Example ex_hist_ok : hist_ok ex_gov 0 ex_world ex_ops.
Proof.
  cbn [ex_ops hist_ok op_ok]. repeat split; try lia.
Qed.

Example ex_history_content :
  w_port (wrun ex_gov 0 ex_ops ex_world) = Some 4242 /\
  c_csr (w_par (wrun ex_gov 0 ex_ops ex_world)) = mkCsr true (10 ^ 17) /\
  map e_height (w_ep (wrun ex_gov 0 ex_ops ex_world)) = [9; 9].
Proof. vm_compute. repeat split; reflexivity. Qed.

(** * Every validated inflation genesis can be imported

    Before the repair of the C18 finding (x/inflation/types/params.go validateExponentialCalculation
    had only range checks) parameters such as A = 2^314 (raw) with MaxVariance = 3 were accepted,
    CalculateEpochMintProvision overflowed LegacyDec on them and InitGenesis panicked on the chain's
    own export (harness stream "guard-overflow-params", corpus/C18-export-not-importable-overflowing-
    inflation-params.json).  The validator now evaluates the worst case of the provision; the model
    mirrors it ([inf_computable] in Model/Authority.v) and the statement below holds without any
    overflow guard: whatever passes the module's ValidateGenesis is imported without a panic. *)
Theorem import_defined_for_valid_params c g :
  0 <= ic_bonded c -> validate_inf g = true -> exists s, import_inf c g = Some s.
Proof.
  intros Hb V. unfold validate_inf in V.
  apply andb_prop in V as [V VP]. apply andb_prop in V as [_ Ve]. apply Z.ltb_lt in Ve.
  unfold import_inf. rewrite (inf_set_ok _ VP). cbn [SdkInt.obind].
  rewrite (inf_valid_no_panic _ _ _ _ VP Ve Hb). eauto.
Qed.

(* the overflowing values of the finding are rejected by the repaired validator *)
Example overflowing_params_rejected :
  inf_valid (mkInf [97; 99; 97; 110; 116; 111] (2 ^ 314) 0 0 (8 * 10 ^ 17) (3 * 10 ^ 18) (10 ^ 18) 0 true) = false /\
  inf_valid (mkInf [97; 99; 97; 110; 116; 111] (10 ^ 80) (35 * 10 ^ 16) 0 (8 * 10 ^ 17) 0 (10 ^ 18) 0 true) = false /\
  inf_valid (mkInf [97; 99; 97; 110; 116; 111] (10 ^ 48) (35 * 10 ^ 16) (10 ^ 18) (8 * 10 ^ 17) (10 ^ 58) (10 ^ 18) 0 true) = false /\
  inf_valid AuthorityProofs.ex_inf = true.
Proof. vm_compute. repeat split; reflexivity. Qed.
