(** Proofs about the governance-only handlers (property C17). *)
From Coq Require Import ZArith List Bool Lia.
From Canto Require Import Lib.SdkInt Lib.SdkDec Model.Authority.
Import ListNotations.
Open Scope Z_scope.

Lemma str_eqb_refl a : str_eqb a a = true.
Proof. induction a as [|x r IH]; cbn [str_eqb]; [reflexivity|]. rewrite Z.eqb_refl, IH. reflexivity. Qed.

Lemma str_eqb_eq a : forall b, str_eqb a b = true <-> a = b.
Proof.
  induction a as [|x r IH]; intros [|y s]; cbn [str_eqb]; split; intros H; try reflexivity; try discriminate.
  - apply andb_prop in H as [H1 H2]. apply Z.eqb_eq in H1. apply IH in H2. congruence.
  - inversion H; subst. rewrite Z.eqb_refl. cbn [andb]. apply IH. reflexivity.
Qed.

Lemma str_eqb_neq a b : a <> b -> str_eqb a b = false.
Proof. intros H. destruct (str_eqb a b) eqn:E; [|reflexivity]. apply str_eqb_eq in E. contradiction. Qed.

(** * The generic UpdateParams handler *)

Lemma update_params_inv {P} (validate : P -> bool) (set : P -> P -> option P) gov auth n p st s :
  update_params validate set gov auth n p st = Some s ->
  str_eqb gov auth = true /\ n = false /\ validate p = true /\ set p st = Some s.
Proof.
  unfold update_params. intros H.
  destruct (str_eqb gov auth); [|discriminate].
  destruct n; cbn [negb] in H; [discriminate|].
  destruct (validate p); [|discriminate]. auto.
Qed.

Lemma update_params_non_gov {P} (validate : P -> bool) (set : P -> P -> option P) gov auth n p st :
  str_eqb gov auth = false -> update_params validate set gov auth n p st = None.
Proof. intros H. unfold update_params. rewrite H. reflexivity. Qed.

Lemma update_params_ok {P} (validate : P -> bool) (set : P -> P -> option P) gov n p st :
  update_params validate set gov gov n p st = if negb n && validate p then set p st else None.
Proof. unfold update_params. rewrite str_eqb_refl. destruct n; cbn [negb andb]; [reflexivity|]. destruct (validate p); reflexivity. Qed.

(** * SetParamSet of each module: succeeds exactly on field-valid params, and then stores them whole *)

Lemma cs_set_spec p st :
  cs_set_param_set p st =
  if cs_v_fee (cs_fee p) && cs_v_pcf (cs_pcf_amount p) && cs_v_tax (cs_tax p) &&
     cs_v_max_std (cs_max_std p) && cs_v_max_swap (cs_max_swap p)
  then Some p else None.
Proof.
  unfold cs_set_param_set.
  destruct (cs_v_fee (cs_fee p)); cbn [andb]; [|reflexivity].
  destruct (cs_v_pcf (cs_pcf_amount p)); cbn [andb]; [|reflexivity].
  destruct (cs_v_tax (cs_tax p)); cbn [andb]; [|reflexivity].
  destruct (cs_v_max_std (cs_max_std p)); cbn [andb]; [|reflexivity].
  destruct (cs_v_max_swap (cs_max_swap p)); [|reflexivity].
  destruct p; reflexivity.
Qed.

Lemma inf_set_spec p st :
  inf_set_param_set p st = if inf_validate p then Some p else None.
Proof.
  unfold inf_set_param_set, inf_validate.
  destruct (inf_v_denom (inf_denom p)); cbn [andb]; [|reflexivity].
  destruct (inf_v_exp _ _ _ _ _); cbn [andb]; [|reflexivity].
  destruct (inf_v_dist _ _); [|reflexivity].
  destruct p; reflexivity.
Qed.

Lemma csr_set_spec p st :
  csr_set_param_set p st = if csr_validate p then Some p else None.
Proof.
  unfold csr_set_param_set, csr_validate.
  destruct (csr_v_shares (csr_shares p)); [|reflexivity]. destruct p; reflexivity.
Qed.

Lemma onb_set_spec p st :
  onb_set_param_set p st = if onb_validate p then Some p else None.
Proof.
  unfold onb_set_param_set, onb_validate.
  destruct (onb_v_threshold (onb_threshold p)); [|reflexivity]. destruct p; reflexivity.
Qed.

Lemma erc_set_spec p st : erc_set_param_set p st = Some p.
Proof. unfold erc_set_param_set. destruct p; reflexivity. Qed.

(* Validate() of coinswap is one of its field validators *)
Lemma cs_valid_alt p :
  cs_valid p = cs_v_fee (cs_fee p) && cs_v_pcf (cs_pcf_amount p) && cs_v_tax (cs_tax p) &&
               cs_v_max_std (cs_max_std p) && cs_v_max_swap (cs_max_swap p).
Proof. unfold cs_valid, cs_validate, cs_v_fee. destruct (dec_in_0_1 (cs_fee p)); reflexivity. Qed.

(** * Each UpdateParams handler, characterised *)

Definition upd_cs gov a n p st := update_params cs_validate cs_set_param_set gov a n p st.
Definition upd_inf gov a n p st := update_params inf_validate inf_set_param_set gov a n p st.
Definition upd_csr gov a n p st := update_params csr_validate csr_set_param_set gov a n p st.
Definition upd_onb gov a n p st := update_params onb_validate onb_set_param_set gov a n p st.
Definition upd_erc gov a p st := update_params erc_validate erc_set_param_set gov a false p st.

Lemma upd_cs_spec gov a n p st :
  upd_cs gov a n p st = if str_eqb gov a && negb n && cs_valid p then Some p else None.
Proof.
  unfold upd_cs, update_params. destruct (str_eqb gov a); cbn [andb]; [|reflexivity].
  destruct n; cbn [negb andb]; [reflexivity|].
  rewrite cs_set_spec, cs_valid_alt. unfold cs_validate, cs_v_fee.
  destruct (dec_in_0_1 (cs_fee p)); reflexivity.
Qed.

Lemma upd_inf_spec gov a n p st :
  upd_inf gov a n p st = if str_eqb gov a && negb n && inf_valid p then Some p else None.
Proof.
  unfold upd_inf, update_params, inf_valid. destruct (str_eqb gov a); cbn [andb]; [|reflexivity].
  destruct n; cbn [negb andb]; [reflexivity|].
  rewrite inf_set_spec. destruct (inf_validate p); reflexivity.
Qed.

Lemma upd_csr_spec gov a n p st :
  upd_csr gov a n p st = if str_eqb gov a && negb n && csr_valid p then Some p else None.
Proof.
  unfold upd_csr, update_params, csr_valid. destruct (str_eqb gov a); cbn [andb]; [|reflexivity].
  destruct n; cbn [negb andb]; [reflexivity|].
  rewrite csr_set_spec. destruct (csr_validate p); reflexivity.
Qed.

Lemma upd_onb_spec gov a n p st :
  upd_onb gov a n p st = if str_eqb gov a && negb n && onb_valid p then Some p else None.
Proof.
  unfold upd_onb, update_params, onb_valid. destruct (str_eqb gov a); cbn [andb]; [|reflexivity].
  destruct n; cbn [negb andb]; [reflexivity|].
  rewrite onb_set_spec. destruct (onb_validate p); reflexivity.
Qed.

Lemma upd_erc_spec gov a p st :
  upd_erc gov a p st = if str_eqb gov a then Some p else None.
Proof.
  unfold upd_erc, update_params. destruct (str_eqb gov a); [|reflexivity].
  cbn [negb erc_validate]. apply erc_set_spec.
Qed.

(** * non_gov_rejected: all ten handlers *)

Theorem non_gov_rejected {R} gov (x : op R) st :
  op_auth x <> gov -> step gov x st = (false, st).
Proof.
  intros H. assert (E : str_eqb gov (op_auth x) = false) by (apply str_eqb_neq; congruence).
  unfold step, exec.
  destruct x as [a n p|a n p|a n p|a n p|a p|k a inner]; cbn [op_auth] in E;
    try (rewrite (update_params_non_gov _ _ gov a _ _ _ E); reflexivity).
  unfold privileged. rewrite E. reflexivity.
Qed.

(* the ten handlers, one by one, in the vocabulary of the model *)
Theorem non_gov_rejected_each {R} gov a (st : chain R) :
  a <> gov ->
  (forall n p, step gov (UpdCoinswap a n p) st = (false, st)) /\
  (forall n p, step gov (UpdInflation a n p) st = (false, st)) /\
  (forall n p, step gov (UpdCsr a n p) st = (false, st)) /\
  (forall n p, step gov (UpdOnboarding a n p) st = (false, st)) /\
  (forall p, step gov (UpdErc20 a p) st = (false, st)) /\
  (forall inner, step gov (Priv RegisterCoin a inner) st = (false, st)) /\
  (forall inner, step gov (Priv RegisterERC20 a inner) st = (false, st)) /\
  (forall inner, step gov (Priv ToggleConversion a inner) st = (false, st)) /\
  (forall inner, step gov (Priv LendingMarket a inner) st = (false, st)) /\
  (forall inner, step gov (Priv TreasuryProp a inner) st = (false, st)).
Proof.
  intros H. repeat split; intros; apply non_gov_rejected; cbn [op_auth]; exact H.
Qed.

(* a rejected message changes nothing (atomicity of the executor, by construction of [step]) *)
Lemma rejected_unchanged {R} gov (x : op R) st : fst (step gov x st) = false -> snd (step gov x st) = st.
Proof. unfold step. destruct (exec gov x st); cbn [fst snd]; [discriminate|reflexivity]. Qed.

(** * stored_as_submitted, with the exact acceptance condition *)

Theorem coinswap_update {R} gov a n p (st : chain R) :
  step gov (UpdCoinswap a n p) st =
  if str_eqb gov a && negb n && cs_valid p
  then (true, mkChain p (c_inf st) (c_csr st) (c_onb st) (c_erc st) (c_reg st))
  else (false, st).
Proof.
  unfold step, exec. fold (upd_cs gov a n p (c_cs st)). rewrite upd_cs_spec.
  destruct (str_eqb gov a && negb n && cs_valid p); reflexivity.
Qed.

Theorem inflation_update {R} gov a n p (st : chain R) :
  step gov (UpdInflation a n p) st =
  if str_eqb gov a && negb n && inf_valid p
  then (true, mkChain (c_cs st) p (c_csr st) (c_onb st) (c_erc st) (c_reg st))
  else (false, st).
Proof.
  unfold step, exec. fold (upd_inf gov a n p (c_inf st)). rewrite upd_inf_spec.
  destruct (str_eqb gov a && negb n && inf_valid p); reflexivity.
Qed.

Theorem csr_update {R} gov a n p (st : chain R) :
  step gov (UpdCsr a n p) st =
  if str_eqb gov a && negb n && csr_valid p
  then (true, mkChain (c_cs st) (c_inf st) p (c_onb st) (c_erc st) (c_reg st))
  else (false, st).
Proof.
  unfold step, exec. fold (upd_csr gov a n p (c_csr st)). rewrite upd_csr_spec.
  destruct (str_eqb gov a && negb n && csr_valid p); reflexivity.
Qed.

Theorem onboarding_update {R} gov a n p (st : chain R) :
  step gov (UpdOnboarding a n p) st =
  if str_eqb gov a && negb n && onb_valid p
  then (true, mkChain (c_cs st) (c_inf st) (c_csr st) p (c_erc st) (c_reg st))
  else (false, st).
Proof.
  unfold step, exec. fold (upd_onb gov a n p (c_onb st)). rewrite upd_onb_spec.
  destruct (str_eqb gov a && negb n && onb_valid p); reflexivity.
Qed.

Theorem erc20_update {R} gov a p (st : chain R) :
  step gov (UpdErc20 a p) st =
  if str_eqb gov a
  then (true, mkChain (c_cs st) (c_inf st) (c_csr st) (c_onb st) p (c_reg st))
  else (false, st).
Proof.
  unfold step, exec. fold (upd_erc gov a p (c_erc st)). rewrite upd_erc_spec.
  destruct (str_eqb gov a); reflexivity.
Qed.

Theorem priv_step {R} gov k a inner (st : chain R) :
  c_cs (snd (step gov (Priv k a inner) st)) = c_cs st /\
  c_inf (snd (step gov (Priv k a inner) st)) = c_inf st /\
  c_csr (snd (step gov (Priv k a inner) st)) = c_csr st /\
  c_onb (snd (step gov (Priv k a inner) st)) = c_onb st /\
  c_erc (snd (step gov (Priv k a inner) st)) = c_erc st.
Proof.
  unfold step, exec. destruct (privileged inner gov a (c_reg st)); cbn [obind snd c_cs c_inf c_csr c_onb c_erc];
    repeat split; reflexivity.
Qed.

(* accepted -> the stored parameters of that module are the submitted ones, everything else is untouched *)
Theorem stored_as_submitted {R} gov (x : op R) st st' :
  step gov x st = (true, st') ->
  match x with
  | UpdCoinswap _ _ p => st' = mkChain p (c_inf st) (c_csr st) (c_onb st) (c_erc st) (c_reg st)
  | UpdInflation _ _ p => st' = mkChain (c_cs st) p (c_csr st) (c_onb st) (c_erc st) (c_reg st)
  | UpdCsr _ _ p => st' = mkChain (c_cs st) (c_inf st) p (c_onb st) (c_erc st) (c_reg st)
  | UpdOnboarding _ _ p => st' = mkChain (c_cs st) (c_inf st) (c_csr st) p (c_erc st) (c_reg st)
  | UpdErc20 _ p => st' = mkChain (c_cs st) (c_inf st) (c_csr st) (c_onb st) p (c_reg st)
  | Priv _ _ _ => c_cs st' = c_cs st /\ c_inf st' = c_inf st /\ c_csr st' = c_csr st /\
                  c_onb st' = c_onb st /\ c_erc st' = c_erc st
  end.
Proof.
  destruct x as [a n p|a n p|a n p|a n p|a p|k a inner]; intros H.
  - rewrite coinswap_update in H. destruct (_ && _ && _); inversion H. reflexivity.
  - rewrite inflation_update in H. destruct (_ && _ && _); inversion H. reflexivity.
  - rewrite csr_update in H. destruct (_ && _ && _); inversion H. reflexivity.
  - rewrite onboarding_update in H. destruct (_ && _ && _); inversion H. reflexivity.
  - rewrite erc20_update in H. destruct (str_eqb gov a); inversion H. reflexivity.
  - pose proof (priv_step gov k a inner st) as P. rewrite H in P. cbn [snd] in P. exact P.
Qed.

(* an update is accepted exactly when governance submits complete, valid parameters *)
Theorem accepted_iff {R} gov (st : chain R) :
  (forall a n p, fst (step gov (UpdCoinswap a n p) st) = true <-> a = gov /\ n = false /\ cs_valid p = true) /\
  (forall a n p, fst (step gov (UpdInflation a n p) st) = true <-> a = gov /\ n = false /\ inf_valid p = true) /\
  (forall a n p, fst (step gov (UpdCsr a n p) st) = true <-> a = gov /\ n = false /\ csr_valid p = true) /\
  (forall a n p, fst (step gov (UpdOnboarding a n p) st) = true <-> a = gov /\ n = false /\ onb_valid p = true) /\
  (forall a p, fst (step gov (UpdErc20 a p) st) = true <-> a = gov).
Proof.
  assert (G : forall a n v, (str_eqb gov a && negb n && v = true) <-> (a = gov /\ n = false /\ v = true)).
  { intros a n v. rewrite !andb_true_iff, negb_true_iff, str_eqb_eq. intuition congruence. }
  assert (F : forall (A : Type) (b : bool) (x y : A), fst (if b then (true, x) else (false, y)) = true <-> b = true).
  { intros A b x y. destruct b; cbn [fst]; split; auto. }
  split; [|split; [|split; [|split]]].
  - intros a n p. rewrite coinswap_update, F. apply G.
  - intros a n p. rewrite inflation_update, F. apply G.
  - intros a n p. rewrite csr_update, F. apply G.
  - intros a n p. rewrite onboarding_update, F. apply G.
  - intros a p. rewrite erc20_update, F, str_eqb_eq. split; congruence.
Qed.

(** * stored_valid: an invariant of every history *)

Lemma step_valid {R} gov (x : op R) st :
  chain_valid st = true -> chain_valid (snd (step gov x st)) = true.
Proof.
  intros V. unfold chain_valid in V.
  apply andb_prop in V as [V Ve]. apply andb_prop in V as [V Vo].
  apply andb_prop in V as [V Vc]. apply andb_prop in V as [Vs Vi].
  destruct x as [a n p|a n p|a n p|a n p|a p|k a inner].
  - rewrite coinswap_update. destruct (str_eqb gov a && negb n && cs_valid p) eqn:E; cbn [snd].
    + apply andb_prop in E as [_ E]. unfold chain_valid; cbn [c_cs c_inf c_csr c_onb c_erc].
      rewrite E, Vi, Vc, Vo, Ve. reflexivity.
    + unfold chain_valid. rewrite Vs, Vi, Vc, Vo, Ve. reflexivity.
  - rewrite inflation_update. destruct (str_eqb gov a && negb n && inf_valid p) eqn:E; cbn [snd].
    + apply andb_prop in E as [_ E]. unfold chain_valid; cbn [c_cs c_inf c_csr c_onb c_erc].
      rewrite E, Vs, Vc, Vo, Ve. reflexivity.
    + unfold chain_valid. rewrite Vs, Vi, Vc, Vo, Ve. reflexivity.
  - rewrite csr_update. destruct (str_eqb gov a && negb n && csr_valid p) eqn:E; cbn [snd].
    + apply andb_prop in E as [_ E]. unfold chain_valid; cbn [c_cs c_inf c_csr c_onb c_erc].
      rewrite E, Vs, Vi, Vo, Ve. reflexivity.
    + unfold chain_valid. rewrite Vs, Vi, Vc, Vo, Ve. reflexivity.
  - rewrite onboarding_update. destruct (str_eqb gov a && negb n && onb_valid p) eqn:E; cbn [snd].
    + apply andb_prop in E as [_ E]. unfold chain_valid; cbn [c_cs c_inf c_csr c_onb c_erc].
      rewrite E, Vs, Vi, Vc, Ve. reflexivity.
    + unfold chain_valid. rewrite Vs, Vi, Vc, Vo, Ve. reflexivity.
  - rewrite erc20_update. destruct (str_eqb gov a); cbn [snd]; unfold chain_valid; cbn [c_cs c_inf c_csr c_onb c_erc];
      rewrite Vs, Vi, Vc, Vo; reflexivity.
  - destruct (priv_step gov k a inner st) as (A & B & C & D & E).
    unfold chain_valid. rewrite A, B, C, D, E, Vs, Vi, Vc, Vo, Ve. reflexivity.
Qed.

Theorem stored_valid {R} gov (h : list (op R)) : forall st,
  chain_valid st = true -> chain_valid (run gov h st) = true.
Proof.
  induction h as [|x r IH]; intros st V; cbn [run]; [exact V|].
  apply IH. apply step_valid. exact V.
Qed.

(** * What validity means, in arithmetic *)

Lemma dec_in_0_1_iff v : dec_in_0_1 v = true <-> 0 <= v < 10 ^ 18.
Proof.
  unfold dec_in_0_1, dec_one, SdkDec.one, SdkDec.S.
  rewrite andb_true_iff, negb_true_iff, Z.ltb_ge, Z.ltb_lt. tauto.
Qed.

Theorem cs_valid_meaning p :
  cs_valid p = true <->
  0 <= cs_fee p < 10 ^ 18 /\ 0 <= cs_pcf_amount p /\ 0 <= cs_tax p < 10 ^ 18 /\ 0 < cs_max_std p /\
  cs_v_max_swap (cs_max_swap p) = true.
Proof.
  rewrite cs_valid_alt. unfold cs_v_fee, cs_v_tax, cs_v_pcf, cs_v_max_std.
  rewrite !andb_true_iff, !dec_in_0_1_iff, negb_true_iff, Z.ltb_ge, Z.ltb_lt. tauto.
Qed.

Lemma inf_v_dist_iff s cp : inf_v_dist s cp = true <-> 0 <= s /\ 0 <= cp /\ s + cp = 10 ^ 18.
Proof.
  unfold inf_v_dist, SdkDec.add, SdkDec.chk, SdkDec.overflows, dec_one, SdkDec.one, SdkDec.S.
  rewrite !andb_true_iff, !negb_true_iff, !Z.ltb_ge.
  destruct (SdkDec.bound <=? Z.abs (s + cp)) eqn:O.
  - apply Z.leb_le in O. unfold SdkDec.bound in O.
    assert (B : 10 ^ 18 < 2 ^ 315) by (vm_compute; reflexivity).
    split; [intros [_ X]; discriminate|]. intros (A & C & D). rewrite D in O.
    rewrite Z.abs_eq in O by (vm_compute; discriminate). lia.
  - rewrite Z.eqb_eq. tauto.
Qed.

Theorem inf_valid_meaning p :
  inf_valid p = true <->
  valid_denom (inf_denom p) = true /\
  0 <= inf_a p /\ 0 <= inf_r p <= 10 ^ 18 /\ 0 <= inf_c p /\ 0 < inf_bt p <= 10 ^ 18 /\ 0 <= inf_mv p /\
  inf_computable (inf_a p) (inf_r p) (inf_c p) (inf_bt p) (inf_mv p) = true /\
  0 <= inf_staking p /\ 0 <= inf_community p /\ inf_staking p + inf_community p = 10 ^ 18.
Proof.
  unfold inf_valid, inf_validate, inf_v_denom, inf_v_exp.
  rewrite !andb_true_iff, inf_v_dist_iff, !negb_true_iff, !Z.ltb_ge, Z.ltb_lt.
  unfold dec_one, SdkDec.one, SdkDec.S. tauto.
Qed.

Theorem csr_valid_meaning p : csr_valid p = true <-> 0 <= csr_shares p <= 10 ^ 18.
Proof.
  unfold csr_valid, csr_validate, csr_v_shares. rewrite andb_true_iff, !negb_true_iff, !Z.ltb_ge.
  unfold dec_one, SdkDec.one, SdkDec.S. tauto.
Qed.

Theorem onb_valid_meaning p : onb_valid p = true <-> 0 <= onb_threshold p.
Proof. unfold onb_valid, onb_validate, onb_v_threshold. rewrite negb_true_iff, Z.ltb_ge. tauto. Qed.

(** * Non-vacuity *)

Definition ex_gov : str := [103; 111; 118].
Definition ex_cs := mkCs 3000000000000000 [97; 99; 97; 110; 116; 111] 0 0 (10 ^ 22)
                         [([105; 98; 99; 47; 65], 10000000); ([105; 98; 99; 47; 66], 5)].
Definition ex_inf := mkInf [97; 99; 97; 110; 116; 111] (16304348 * 10 ^ 18) (35 * 10 ^ 16) 0 (8 * 10 ^ 17) 0
                           (10 ^ 18) 0 false.
Definition ex_chain : chain Z :=
  mkChain ex_cs ex_inf (mkCsr false (2 * 10 ^ 17)) (mkOnb true (4 * 10 ^ 18) [[99; 104]]) (mkErc true true) 0.

Example ex_valid : chain_valid ex_chain = true.
Proof. vm_compute. reflexivity. Qed.

Example ex_history :
  let h := [UpdCsr ex_gov false (mkCsr true (10 ^ 18));            (* accepted: share = 1 *)
            UpdCsr ex_gov false (mkCsr true (10 ^ 18 + 1));        (* one ulp too much *)
            UpdCsr [120] false (mkCsr false 0);                    (* not governance *)
            UpdCoinswap ex_gov false (mkCs (10 ^ 18) [] 0 0 1 []); (* fee = 1 *)
            Priv ToggleConversion ex_gov (fun r => Some (r + 1));
            Priv RegisterCoin [120] (fun r => Some (r + 100))] in
  let st := run ex_gov h ex_chain in
  c_csr st = mkCsr true (10 ^ 18) /\ c_cs st = ex_cs /\ c_reg st = 1 /\ chain_valid st = true.
Proof. vm_compute. repeat split; reflexivity. Qed.
