(** Coinswap proofs, part 7: a pool with outstanding pool tokens never has an
    empty reserve (so that every pro-rata and price division is well defined,
    and the share value of C01 is a ratio of positive quantities). *)
From Coq Require Import ZArith List Bool Lia.
From Canto Require Import Lib.SdkInt Lib.SdkDec Lib.SdkDecProofs Model.Coinswap
     Proofs.CoinswapBase Proofs.CoinswapEffects Proofs.CoinswapValue Proofs.CoinswapWF Proofs.CoinswapLaws
     Proofs.CoinswapHistory.
Import ListNotations.
Open Scope Z_scope.

Definition reserves_pos (s : state) : Prop :=
  forall n q, lookup_pool n (st_pools s) = Some q -> 0 < RL s q -> 0 < RX s q /\ 0 < RY s q n.

Ltac deltas :=
  unfold at_, delta, M_feecollector, M_coinswap; cbn [acct_eqb denom_eqb andb];
  repeat match goal with |- context [Z.eqb ?x ?y] => destruct (Z.eqb_spec x y); try lia end;
  cbn [andb]; try lia.

Section Step.
Variable now : Z.

Lemma swap_reserves s s' u rec din dout q0 a b :
  (forall x e, st_bal s' x e = st_bal s x e
       + delta (at_ x (Escrow q0) e din) a - delta (at_ x (User u) e din) a
       + delta (at_ x rec e dout) b - delta (at_ x (Escrow q0) e dout) b) ->
  (forall e, st_sup s' e = st_sup s e) -> st_pools s' = st_pools s ->
  0 <= a -> 0 <= b < st_bal s (Escrow q0) dout ->
  pool_of s din dout = Some q0 -> WF s -> reserves_pos s -> reserves_pos s'.
Proof.
  intros HB HS HPL Ha Hb HP W PR n q HL L1. rewrite HPL in HL.
  assert (L0 : 0 < RL s q) by (unfold RL in *; rewrite HS in L1; exact L1).
  destruct (PR n q HL L0) as [PX PY].
  destruct (swap_view _ _ _ _ _ _ _ _ _ _ _ HB Ha ltac:(lia) HP (wf_pools _ W) HL)
    as [(Hq & H1 & H2)|[(-> & -> & -> & H1 & H2)|(-> & -> & -> & H1 & H2)]]; unfold RX, RY in *; lia.
Qed.

Theorem reserves_step s o : WF s -> reserves_pos s -> reserves_pos (fst (deliver now s o)).
Proof.
  intros W PR. unfold deliver.
  destruct (exec now s o) as [[s1 r]|] eqn:E; cbn [fst]; [|exact PR].
  destruct o.
  - destruct (sell_ok now s _ _ _ _ _ _ _ _ _ W E) as (q & n & out & mx & _ & HP & _ & _ & _ & _ & _ & _ & Hout & _).
    cbv zeta in Hout.
    cbn [exec] in E. inv. bool_hyps. destruct v as [s2 b]. cbn [fst] in *.
    match goal with HA : trade_sell _ _ _ _ _ _ _ = Some _ |- _ =>
      destruct (trade_sell_effect _ _ _ _ _ _ _ _ _ HA ltac:(lia) (wf_params _ W))
        as (q0 & HP0 & HX0 & HY & Hr & _ & Hr0 & _ & _ & [M1 M2 M3] & HS & HB) end.
    pose proof (params_valid_fee _ (wf_params _ W)) as Hfee.
    assert (Hlt : b < st_bal s (Escrow q0) dout).
    { pose proof (sell_product (st_bal s (Escrow q0) din) (st_bal s (Escrow q0) dout) ain
                (S18 - p_fee (st_params s)) S18 HX0 HY ltac:(lia) ltac:(lia) ltac:(lia)) as [P1 _].
      cbv zeta in P1. unfold sell_out in Hr. cbv zeta in Hr. rewrite <- Hr in P1. lia. }
    eapply swap_reserves; eauto; lia.
  - cbn [exec] in E. inv. bool_hyps. destruct v as [s2 b]. cbn [fst] in *.
    match goal with HA : trade_buy _ _ _ _ _ _ _ = Some _ |- _ =>
      destruct (trade_buy_effect _ _ _ _ _ _ _ _ _ HA ltac:(lia) (wf_params _ W))
        as (q0 & HP0 & _ & HY & Hr & _ & Hr0 & _ & _ & [M1 M2 M3] & HS & HB) end.
    rewrite pool_of_sym in HP0.
    eapply swap_reserves; eauto; lia.
  - destruct (add_ok now s _ _ _ _ _ _ _ _ W E)
      as (tokn & q & m & std_in & dep & A & tax & -> & _ & HL' & _ & Hs & Hd & _ & Hm0 & EX & EY & HB & HS & HT & Hcase & _).
    intros n q1 HL1 L1.
    destruct (Z.eq_dec q1 q) as [->|Hq].
    + (* the pool that received the deposit *)
      assert (n = tokn).
      { pose proof (deliver_WF now s (AddLiq sender (Tok tokn) max_tok exact_std min_liq deadline) W) as W1.
        unfold deliver in W1. rewrite E in W1. cbn [fst] in W1.
        eapply pools_ok_inj; [apply (wf_pools _ W1)|exact HL1|exact HL']. }
      subst n. unfold RX, RY. rewrite EX, EY.
      pose proof (wf_nonneg _ W (Escrow q) Std). pose proof (wf_nonneg _ W (Escrow q) (Tok tokn)). lia.
    + (* another pool: it existed before, its reserves are unchanged, its supply did not grow *)
      assert (HL0 : lookup_pool n (st_pools s) = Some q1).
      { destruct Hcase as [(HN & _ & _ & -> & _)|(HLq & _)].
        - cbn [exec] in E. inv. bool_hyps. inv. destruct v as [s2 mm]. cbn [fst snd] in *.
          match goal with HA : add_liquidity _ _ _ _ _ _ = Some _ |- _ =>
            destruct (add_liquidity_effect _ _ _ _ _ _ _ _ HA (wf_params _ W) ltac:(lia) ltac:(lia)) as (_ & _ & HC) end.
          destruct HC as [tax' LP P1 P2 _ _ _ _ _ _ _|q0 LP _ P1 P2 _ _ _ _ _|q0 LP _ P1 P2 _ _ _ _ _ _ _ _ _ _ _ _ _ _ _]; try congruence.
          rewrite P1 in HL1. cbn [lookup_pool] in HL1. destruct (Z.eqb_spec tokn n); [inversion HL1; lia|exact HL1].
        - cbn [exec] in E. inv. bool_hyps. inv. destruct v as [s2 mm]. cbn [fst snd] in *.
          match goal with HA : add_liquidity _ _ _ _ _ _ = Some _ |- _ =>
            destruct (add_liquidity_effect _ _ _ _ _ _ _ _ HA (wf_params _ W) ltac:(lia) ltac:(lia)) as (_ & _ & HC) end.
          destruct HC as [tax' LP P1 P2 _ _ _ _ _ _ _|q0 LP _ P1 P2 _ _ _ _ _|q0 LP _ P1 P2 _ _ _ _ _ _ _ _ _ _ _ _ _ _ _]; try congruence. }
      destruct (add_other_pool _ _ _ _ _ _ _ _ _ _ _ n q1 HB Hq) as [EX1 EY1].
      pose proof (add_sup_view _ _ _ _ _ _ q1 HS) as EL.
      destruct (Z.eqb_spec q1 q); [contradiction|]. unfold delta at 1 in EL.
      assert (L0 : 0 < RL s q1).
      { unfold delta in EL. destruct (denom_eqb (Lpt q1) (p_cfee_denom (st_params s))); lia. }
      rewrite EX1, EY1. apply PR; assumption.
  - destruct (remove_ok now s _ _ _ _ _ _ _ _ W E)
      as (q & n0 & ps & pt & -> & _ & HL0 & _ & HwL & EL & _ & _ & _ & EX & EY & _ & _ & B1 & B2 & HSO & HO).
    cbv zeta in *.
    assert (HPL : st_pools s1 = st_pools s).
    { destruct (deliver_pools now s (RemoveLiq sender (Lpt q) w min_std min_tok deadline) W) as [P|(tk & _ & P)];
        unfold deliver in P; rewrite E in P; cbn [fst] in P; [exact P|].
      exfalso. cbn [exec] in E. inv. bool_hyps. inv. destruct v as [s2 [a b]]. cbn [fst snd] in *.
      match goal with HA : remove_liquidity _ _ _ _ _ _ = Some _ |- _ =>
        destruct (remove_liquidity_effect _ _ _ _ _ _ _ _ _ HA ltac:(lia)) as (tk' & _ & _ & _ & _ & _ & _ & _ & _ & _ & [M1 M2 M3] & _) end.
      rewrite M3 in P. apply (f_equal (@length _)) in P. cbn in P. lia. }
    intros n q1 HL1 L1. rewrite HPL in HL1.
    destruct (Z.eq_dec q1 q) as [->|Hq].
    + assert (n = n0) by (eapply pools_ok_inj; [apply (wf_pools _ W)|exact HL1|exact HL0]). subst n.
      unfold RL in L1. rewrite EL in L1.
      assert (L0 : 0 < RL s q) by (unfold RL; lia).
      destruct (PR n0 q HL0 L0) as [PX PY]. unfold RX, RY in *. rewrite EX, EY.
      (* w < L, so the floor of w X / L is below X *)
      split; nia.
    + unfold RX, RY, RL in *.
      rewrite (HSO (Lpt q1)) in L1 by (intros X; inversion X; contradiction).
      assert (N1 : Escrow q1 <> User sender) by discriminate.
      assert (N2 : Escrow q1 <> Escrow q) by (intros X; inversion X; contradiction).
      rewrite !(HO (Escrow q1) N1 N2).
      apply PR; assumption.
  - (* donation *)
    cbn [exec] in E. inv. bool_hyps.
    match goal with HA : send _ _ _ _ _ = Some _ |- _ =>
      destruct (send_spec _ _ _ _ _ _ HA ltac:(lia)) as ([M1 M2 M3] & HS & _ & _ & HB) end.
    intros n q HL L1. rewrite M3 in HL. unfold RL in L1. rewrite HS in L1.
    destruct (PR n q HL L1) as [PX PY]. unfold RX, RY in *. rewrite !HB. unfold at_, delta. cbn [acct_eqb andb].
    split; repeat match goal with |- context [if ?c then _ else _] => destruct c end; lia.
  - cbn [exec] in E. inv. bool_hyps. destruct v as [s2 b]. cbn [fst] in *.
    match goal with HA : trade_buy _ _ _ _ _ _ _ = Some _ |- _ =>
      destruct (trade_buy_effect _ _ _ _ _ _ _ _ _ HA ltac:(lia) (wf_params _ W))
        as (q0 & HP0 & _ & HY & Hr & _ & Hr0 & _ & _ & [M1 M2 M3] & HS & HB) end.
    rewrite pool_of_sym in HP0.
    eapply swap_reserves; eauto; lia.
  - cbn [exec] in E. inv. intros n q HL L1. apply PR; assumption.
  - cbn [exec] in E. discriminate.
Qed.
End Step.

(* along every history that starts in a state with the invariant (e.g. genesis: no pool) *)
Theorem reserves_history h : forall s, WF s -> reserves_pos s -> reserves_pos (run h s).
Proof.
  induction h as [|[now o] r IH]; intros s W PR; cbn [run]; [exact PR|].
  apply IH; [apply deliver_WF; exact W|apply reserves_step; assumption].
Qed.

Example reserves_pos_example : reserves_pos ex_state.
Proof.
  intros n q HL L1. unfold ex_state in HL. cbn [st_pools lookup_pool] in HL.
  destruct (0 =? n) eqn:E0; [|discriminate]. apply Z.eqb_eq in E0. subst n.
  assert (q = 1) by congruence. subst q. unfold RX, RY, ex_state. cbn. lia.
Qed.
