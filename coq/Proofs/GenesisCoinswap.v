(** C18, coinswap part of the history theorem: along every history of the AMM model
    (Model/Coinswap.v) the next pool sequence is exactly one above the highest sequence in
    use (what ValidateGenesis demands of an export), and sequences start at 1.
    Kept apart from Proofs/GenesisProofs.v because the notations of Lib/SdkInt.v and std++
    cannot be imported together. *)
From Coq Require Import ZArith List Bool Lia.
From Canto Require Import Lib.SdkInt Lib.SdkDec Model.Coinswap
     Proofs.CoinswapBase Proofs.CoinswapEffects Proofs.CoinswapWF.
Import ListNotations.
Open Scope Z_scope.

(* the only ways a message changes the pool list: not at all, or CreatePool *)
Definition meta_step (s s' : state) : Prop :=
  (st_pools s' = st_pools s /\ st_next s' = st_next s) \/
  (exists n, lookup_pool n (st_pools s) = None /\ st_pools s' = (n, st_next s) :: st_pools s /\ st_next s' = st_next s + 1).

Lemma deliver_meta now s o : WF s -> meta_step s (fst (deliver now s o)).
Proof.
  intros W. unfold deliver.
  destruct (exec now s o) as [[s1 r]|] eqn:E; cbn [fst]; [|left; split; reflexivity].
  destruct W as [HP HN HOK HSUP].
  destruct o; cbn [exec] in E; inv; bool_hyps.
  - destruct v as [s2 b]. cbn [fst] in *.
    match goal with HA : trade_sell _ _ _ _ _ _ _ = Some _ |- _ =>
      destruct (trade_sell_effect _ _ _ _ _ _ _ _ _ HA ltac:(lia) HP) as (q0 & _ & _ & _ & _ & _ & _ & _ & _ & [M1 M2 M3] & _) end.
    left. split; assumption.
  - destruct v as [s2 b]. cbn [fst] in *.
    match goal with HA : trade_buy _ _ _ _ _ _ _ = Some _ |- _ =>
      destruct (trade_buy_effect _ _ _ _ _ _ _ _ _ HA ltac:(lia) HP) as (q0 & _ & _ & _ & _ & _ & _ & _ & _ & [M1 M2 M3] & _) end.
    left. split; assumption.
  - destruct tok as [|tn|]; try discriminate. inv. destruct v as [s2 m]. cbn [fst snd] in *.
    match goal with HA : add_liquidity _ _ _ _ _ _ = Some _ |- _ =>
      destruct (add_liquidity_effect _ _ _ _ _ _ _ _ HA HP ltac:(lia) ltac:(lia)) as (_ & MP & HC) end.
    destruct HC as [tax LP P1 P2 _ _ _ _ _ _ _|q0 LP _ P1 P2 _ _ _ _ _|q0 LP _ P1 P2 _ _ _ _ _ _ _ _ _ _ _ _ _ _ _].
    + right. exists tn. auto.
    + left. auto.
    + left. auto.
  - destruct lpt as [| |sq]; try discriminate. inv. destruct v as [s2 [ps pt]]. cbn [fst snd] in *.
    match goal with HA : remove_liquidity _ _ _ _ _ _ = Some _ |- _ =>
      destruct (remove_liquidity_effect _ _ _ _ _ _ _ _ _ HA ltac:(lia)) as (tk & _ & _ & _ & _ & _ & _ & _ & _ & _ & [M1 M2 M3] & _) end.
    left. split; assumption.
  - match goal with HA : send _ _ _ _ _ = Some _ |- _ =>
      destruct (send_spec _ _ _ _ _ _ HA ltac:(lia)) as ([M1 M2 M3] & _) end.
    left. split; assumption.
  - destruct v as [s2 b]. cbn [fst] in *.
    match goal with HA : trade_buy _ _ _ _ _ _ _ = Some _ |- _ =>
      destruct (trade_buy_effect _ _ _ _ _ _ _ _ _ HA ltac:(lia) HP) as (q0 & _ & _ & _ & _ & _ & _ & _ & _ & [M1 M2 M3] & _) end.
    left. split; assumption.
  - left. split; reflexivity.
Qed.

(* next sequence = 1 + highest sequence in use (1 when there is no pool); sequences are >= 1 *)
Record seq_exact (s : state) : Prop := {
  sx_low : forall n q, In (n, q) (st_pools s) -> 1 <= q;
  sx_high : forall n q, In (n, q) (st_pools s) -> q < st_next s;
  sx_empty : st_pools s = [] -> st_next s = 1;
  sx_top : st_pools s <> [] -> exists n, In (n, st_next s - 1) (st_pools s)
}.

Lemma meta_step_seq s s' : seq_exact s -> meta_step s s' -> seq_exact s'.
Proof.
  intros [L H E T] [[P N]|(n & _ & P & N)].
  - split; rewrite ?P, ?N; assumption.
  - assert (Hn : 1 <= st_next s).
    { destruct (st_pools s) as [|[k q] r] eqn:Q; [rewrite E; [lia|reflexivity]|].
      specialize (L k q (or_introl eq_refl)). specialize (H k q (or_introl eq_refl)). lia. }
    split; rewrite ?P, ?N.
    + intros k q [X|X]; [inversion X; subst; exact Hn|eapply L; exact X].
    + intros k q [X|X]; [inversion X; lia|specialize (H _ _ X); lia].
    + discriminate.
    + intros _. exists n. left. f_equal. lia.
Qed.

Theorem run_seq_exact h : forall s, WF s -> seq_exact s -> seq_exact (run h s).
Proof.
  induction h as [|[now o] r IH]; intros s W X; cbn [run]; [exact X|].
  apply IH; [apply deliver_WF; exact W|].
  eapply meta_step_seq; [exact X|apply deliver_meta; exact W].
Qed.

Example ex_seq_exact : seq_exact ex_state.
Proof.
  split; cbn.
  - intros n q [X|[]]. inversion X. lia.
  - intros n q [X|[]]. inversion X. lia.
  - discriminate.
  - intros _. exists 0. left. reflexivity.
Qed.
