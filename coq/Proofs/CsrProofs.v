(** Proofs about the CSR registry (C16) and the CSR fee split (C10). *)
From Coq Require Import ZArith List Bool Lia.
From Canto Require Import Lib.SdkInt Lib.SdkDec Lib.SdkDecProofs Model.Csr.
Import ListNotations.
Open Scope Z_scope.

(** * Lists of addresses *)

Lemma memZ_In x l : memZ x l = true <-> In x l.
Proof.
  unfold memZ. rewrite existsb_exists. split.
  - intros (y & Hy & E). apply Z.eqb_eq in E. subst. exact Hy.
  - intros H. exists x. split; [exact H|apply Z.eqb_refl].
Qed.
Lemma memZ_false x l : memZ x l = false <-> ~ In x l.
Proof.
  rewrite <- memZ_In. destruct (memZ x l); intuition congruence.
Qed.
Lemma nodupb_NoDup l : nodupb l = true <-> NoDup l.
Proof.
  induction l as [|x r IH]; cbn [nodupb].
  - split; [constructor|reflexivity].
  - rewrite andb_true_iff, negb_true_iff, memZ_false, IH. split.
    + intros [A B]. constructor; assumption.
    + intros H. inversion H; subst. split; assumption.
Qed.

(** * The registry invariant (C16) *)

Definition csr_inv (g : registry) : Prop :=
  (forall c n, byc g c = Some n <-> exists r, csrs g n = Some r /\ In c (c_contracts r)) /\
  (forall n r, csrs g n = Some r -> NoDup (c_contracts r)).

Lemma csr_inv_def g :
  csr_inv g <->
  (forall c n, byc g c = Some n <-> exists r, csrs g n = Some r /\ In c (c_contracts r)) /\
  (forall n r, csrs g n = Some r -> NoDup (c_contracts r)).
Proof. unfold csr_inv. tauto. Qed.

(* at most one NFT per contract *)
Lemma inv_one_nft g c n1 r1 n2 r2 :
  csr_inv g -> csrs g n1 = Some r1 -> In c (c_contracts r1) ->
  csrs g n2 = Some r2 -> In c (c_contracts r2) -> n1 = n2.
Proof.
  intros [HI _] A1 B1 A2 B2.
  assert (E1 : byc g c = Some n1) by (apply HI; eauto).
  assert (E2 : byc g c = Some n2) by (apply HI; eauto).
  congruence.
Qed.

Lemma empty_inv : csr_inv empty_reg.
Proof.
  split; cbn.
  - intros c n. split; [discriminate|]. intros (r & A & _). discriminate.
  - intros n r A. discriminate.
Qed.

Lemma set_csr_csrs g n r k : csrs (set_csr g n r) k = if k =? n then Some r else csrs g k.
Proof. reflexivity. Qed.
Lemma set_csr_byc g n r c : byc (set_csr g n r) c = if memZ c (c_contracts r) then Some n else byc g c.
Proof. reflexivity. Qed.

(* SetCSR keeps the invariant when the new list is duplicate-free, claims only
   contracts that are free or already under this id, and drops none *)
Lemma set_csr_inv g n r :
  csr_inv g -> NoDup (c_contracts r) ->
  (forall c, In c (c_contracts r) -> byc g c = None \/ byc g c = Some n) ->
  (forall c, byc g c = Some n -> In c (c_contracts r)) ->
  csr_inv (set_csr g n r).
Proof.
  intros [HI HN] ND Hfree Hkeep. split.
  - intros c m. rewrite set_csr_byc.
    destruct (memZ c (c_contracts r)) eqn:M.
    + apply memZ_In in M. split.
      * intros E. inversion E; subst m. exists r. rewrite set_csr_csrs, Z.eqb_refl. auto.
      * intros (r' & A & B). rewrite set_csr_csrs in A.
        destruct (m =? n) eqn:E; [apply Z.eqb_eq in E; congruence|].
        assert (X : byc g c = Some m) by (apply HI; eauto).
        apply Z.eqb_neq in E. destruct (Hfree c M) as [Y|Y]; congruence.
    + apply memZ_false in M. split.
      * intros E. destruct (proj1 (HI c m) E) as (r' & A & B).
        exists r'. rewrite set_csr_csrs.
        destruct (m =? n) eqn:En; [|auto].
        apply Z.eqb_eq in En. subst m. exfalso. apply M. apply Hkeep. exact E.
      * intros (r' & A & B). rewrite set_csr_csrs in A.
        destruct (m =? n) eqn:En.
        -- inversion A; subst r'. contradiction.
        -- apply HI. eauto.
  - intros m r' A. rewrite set_csr_csrs in A.
    destruct (m =? n); [inversion A; subst; exact ND|eapply HN; eauto].
Qed.

Lemma validate_nodup r : validate r = true -> NoDup (c_contracts r).
Proof.
  unfold validate. rewrite !andb_true_iff. intros [[_ A] _]. apply nodupb_NoDup. exact A.
Qed.

Lemma register_event_inv hc g c id g' :
  csr_inv g -> register_event hc g c id = Some g' -> csr_inv g'.
Proof.
  intros HI. unfold register_event, validate_contract.
  destruct (byc g c) eqn:Bc; [discriminate|].
  destruct (hc c); [|discriminate].
  destruct (csrs g (u64 id)) eqn:Cn; [discriminate|].
  destruct (validate (mkCsr [c] 0 0)) eqn:V; [|discriminate].
  intros E. inversion E; subst g'. clear E.
  apply set_csr_inv; [exact HI|apply validate_nodup; exact V| |]; cbn [c_contracts].
  - intros c' [->|[]]. left. exact Bc.
  - intros c' E. destruct HI as [HI _]. destruct (proj1 (HI c' _) E) as (r & A & _). congruence.
Qed.

Lemma assign_event_inv hc g c id g' :
  csr_inv g -> assign_event hc g c id = Some g' -> csr_inv g'.
Proof.
  intros HI. unfold assign_event, validate_contract.
  destruct (byc g c) eqn:Bc; [discriminate|].
  destruct (hc c); [|discriminate].
  destruct (csrs g (u64 id)) as [r|] eqn:Cn; [|discriminate].
  destruct (validate _) eqn:V; [|discriminate].
  intros E. inversion E; subst g'. clear E.
  apply set_csr_inv; [exact HI|apply validate_nodup in V; exact V| |]; cbn [c_contracts].
  - intros c' H. apply in_app_or in H. destruct H as [H|[->|[]]].
    + right. apply HI. eauto.
    + left. exact Bc.
  - intros c' E. destruct HI as [HI _]. destruct (proj1 (HI c' _) E) as (r' & A & B).
    rewrite Cn in A. inversion A; subst r'. apply in_or_app. left. exact B.
Qed.

Lemma log_step_inv hc ts g l g' : csr_inv g -> log_step hc ts g l = Apply g' -> csr_inv g'.
Proof.
  intros HI. unfold log_step.
  destruct (negb (l_emitter l =? ts)); [discriminate|].
  destruct (l_payload l) as [c rv id|c id| | | |]; try discriminate.
  - destruct (register_event hc g c id) eqn:E; [|discriminate].
    intros X. inversion X; subst. eapply register_event_inv; eauto.
  - destruct (assign_event hc g c id) eqn:E; [|discriminate].
    intros X. inversion X; subst. eapply assign_event_inv; eauto.
Qed.

Lemma process_events_inv hc ts logs : forall g, csr_inv g -> csr_inv (process_events hc ts logs g).
Proof.
  induction logs as [|l r IH]; intros g HI; cbn [process_events]; [exact HI|].
  destruct (log_step hc ts g l) eqn:E; auto.
  apply IH. eapply log_step_inv; eauto.
Qed.

(* the final SetCSR of the hook rewrites the record of an existing NFT with the same list *)
Lemma set_csr_same_list_inv g n r r' :
  csr_inv g -> csrs g n = Some r -> c_contracts r' = c_contracts r -> csr_inv (set_csr g n r').
Proof.
  intros HI A E. apply set_csr_inv; [exact HI| | |]; rewrite E.
  - destruct HI as [_ HN]. eapply HN; eauto.
  - intros c H. right. apply HI. eauto.
  - intros c H. destruct HI as [HI _]. destruct (proj1 (HI c n) H) as (r0 & A0 & B0). congruence.
Qed.

Ltac obind_inv H :=
  match type of H with
  | obind ?e _ = Some _ =>
      let x := fresh "x" in let E := fresh "E" in
      destruct e as [x|] eqn:E; cbn [obind] in H; [|discriminate H]
  end.

Lemma post_tx_inv t s s' : csr_inv (reg s) -> post_tx t s = Some s' -> csr_inv (reg s').
Proof.
  intros HI. unfold post_tx.
  destruct (negb (enable (cfg s))); [intros E; inversion E; subst; exact HI|].
  destruct (turnstile (cfg s)) as [ts|]; [|discriminate].
  pose proof (process_events_inv (tx_code t) ts (tx_logs t) (reg s) HI) as HG.
  set (g := process_events (tx_code t) ts (tx_logs t) (reg s)) in *.
  destruct (tx_gas_used t =? 0); [intros E; inversion E; subst; exact HG|].
  intros H. obind_inv H. obind_inv H.
  destruct (match tx_to t with Some c => byc g c | None => None end) as [n|].
  - destruct (csrs g n) as [r|] eqn:Cn; [|discriminate].
    obind_inv H. obind_inv H.
    destruct (0 <=? x2); [|discriminate].
    obind_inv H. obind_inv H. obind_inv H.
    inversion H; subst s'. cbn [reg].
    eapply set_csr_same_list_inv; eauto.
  - obind_inv H. inversion H; subst s'. exact HG.
Qed.

Lemma deliver_inv t s : csr_inv (reg s) -> csr_inv (reg (deliver t s)).
Proof.
  intros HI. unfold deliver. destruct (post_tx t s) eqn:E; [eapply post_tx_inv; eauto|exact HI].
Qed.

Theorem run_inv l : forall s, csr_inv (reg s) -> csr_inv (reg (run l s)).
Proof.
  induction l as [|t r IH]; intros s HI; cbn [run]; [exact HI|].
  apply IH. apply deliver_inv. exact HI.
Qed.

(** * Genesis import *)

(* what an exported genesis is: ids listed once, duplicate-free lists, no contract under two ids *)
Definition wf_genesis (l : list (Z * csr)) : Prop :=
  NoDup (map fst l) /\
  (forall n r, In (n, r) l -> NoDup (c_contracts r)) /\
  (forall n1 r1 n2 r2 c, In (n1, r1) l -> In (n2, r2) l ->
     In c (c_contracts r1) -> In c (c_contracts r2) -> n1 = n2).

Lemma import_csrs_inv l : forall g,
  csr_inv g -> wf_genesis l ->
  (forall n r, In (n, r) l -> csrs g n = None /\ forall c, In c (c_contracts r) -> byc g c = None) ->
  csr_inv (import_csrs l g).
Proof.
  induction l as [|[n r] l IH]; intros g HI (ND & NL & DJ) Hfresh; cbn [import_csrs fold_left]; [exact HI|].
  fold (import_csrs l (set_csr g n r)). cbn [fst snd].
  destruct (Hfresh n r (or_introl eq_refl)) as [Cn Bn].
  cbn [map fst] in ND. inversion ND as [|? ? Hnot ND']; subst.
  apply IH.
  - apply set_csr_inv; [exact HI|eapply NL; left; reflexivity| |].
    + intros c H. left. apply Bn. exact H.
    + intros c H. destruct HI as [HI _]. destruct (proj1 (HI c n) H) as (r0 & A & _). congruence.
  - split; [exact ND'|]. split.
    + intros m r' H. eapply NL. right. exact H.
    + intros n1 r1 n2 r2 c H1 H2. eapply DJ; right; eassumption.
  - intros m r' H.
    assert (Hm : m <> n).
    { intros Emn. subst m. apply Hnot. apply (in_map fst) in H. exact H. }
    destruct (Hfresh m r' (or_intror H)) as [Cm Bm]. split.
    + rewrite set_csr_csrs. destruct (m =? n) eqn:E; [apply Z.eqb_eq in E; contradiction|exact Cm].
    + intros c Hc. rewrite set_csr_byc.
      destruct (memZ c (c_contracts r)) eqn:M; [|apply Bm; exact Hc].
      apply memZ_In in M. exfalso. apply Hm.
      eapply (DJ m r' n r c); [right; exact H|left; reflexivity|exact Hc|exact M].
Qed.

Theorem import_genesis_inv l ts en sh s :
  wf_genesis l -> reg s = empty_reg -> csr_inv (reg (import_genesis l ts en sh s)).
Proof.
  intros W E. unfold import_genesis. cbn [reg]. rewrite E.
  apply import_csrs_inv; [apply empty_inv|exact W|].
  intros n r _. split; [reflexivity|intros; reflexivity].
Qed.

(* conversely, any complete listing of a registry that satisfies the invariant is a well-formed genesis *)
Theorem export_wf g l :
  csr_inv g -> NoDup (map fst l) -> (forall n r, In (n, r) l -> csrs g n = Some r) -> wf_genesis l.
Proof.
  intros HI ND HL. split; [exact ND|]. split.
  - intros n r H. destruct HI as [_ HN]. eapply HN. apply HL. exact H.
  - intros n1 r1 n2 r2 c H1 H2 C1 C2. eapply inv_one_nft; eauto.
Qed.

(** * Only the Turnstile's own events count *)

Definition from_ts (ts : Z) (l : log) : bool := l_emitter l =? ts.

Theorem only_turnstile_events hc ts logs : forall g,
  process_events hc ts (filter (from_ts ts) logs) g = process_events hc ts logs g.
Proof.
  induction logs as [|l r IH]; intros g; cbn [filter process_events]; [reflexivity|].
  unfold from_ts at 1. destruct (l_emitter l =? ts) eqn:E.
  - cbn [process_events]. destruct (log_step hc ts g l); auto.
  - unfold log_step. rewrite E. cbn [negb]. apply IH.
Qed.

Definition erase_foreign (ts : Z) (t : tx) : tx :=
  mkTx (tx_code t) (filter (from_ts ts) (tx_logs t)) (tx_gas_used t) (tx_gas_price t) (tx_to t).

Theorem only_turnstile t s ts :
  turnstile (cfg s) = Some ts -> post_tx (erase_foreign ts t) s = post_tx t s.
Proof.
  intros H. unfold post_tx, fee_of, erase_foreign. cbn [tx_code tx_logs tx_gas_used tx_gas_price tx_to].
  rewrite H. rewrite only_turnstile_events. reflexivity.
Qed.

Lemma post_tx_cfg t s s' : post_tx t s = Some s' -> cfg s' = cfg s.
Proof.
  unfold post_tx.
  destruct (negb (enable (cfg s))); [intros E; inversion E; reflexivity|].
  destruct (turnstile (cfg s)) as [ts|]; [|discriminate].
  set (g := process_events _ _ _ _).
  destruct (tx_gas_used t =? 0); [intros E; inversion E; reflexivity|].
  intros H. obind_inv H. obind_inv H.
  destruct (match tx_to t with Some c => byc g c | None => None end) as [n|].
  - destruct (csrs g n) as [r|]; [|discriminate].
    obind_inv H. obind_inv H. destruct (0 <=? x2); [|discriminate].
    obind_inv H. obind_inv H. obind_inv H. inversion H; reflexivity.
  - obind_inv H. inversion H; reflexivity.
Qed.
Lemma deliver_cfg t s : cfg (deliver t s) = cfg s.
Proof. unfold deliver. destruct (post_tx t s) eqn:E; [eapply post_tx_cfg; eauto|reflexivity]. Qed.
Lemma run_cfg l : forall s, cfg (run l s) = cfg s.
Proof. induction l as [|t r IH]; intros s; cbn [run]; [reflexivity|]. rewrite IH. apply deliver_cfg. Qed.

Theorem only_turnstile_run ts l : forall s,
  turnstile (cfg s) = Some ts -> run (map (erase_foreign ts) l) s = run l s.
Proof.
  induction l as [|t r IH]; intros s H; cbn [map run]; [reflexivity|].
  assert (D : deliver (erase_foreign ts t) s = deliver t s).
  { unfold deliver. rewrite (only_turnstile t s ts H). reflexivity. }
  rewrite D. apply IH. rewrite deliver_cfg. exact H.
Qed.

(** * Every contract added comes from a Turnstile register/assign event and holds code *)

(* log [l], emitted by the Turnstile, is a register or assign event placing contract c under NFT n *)
Definition places (ts : Z) (l : log) (c n : Z) : Prop :=
  l_emitter l = ts /\
  ((exists rv id, l_payload l = PRegister c rv id /\ u64 id = n) \/
   (exists id, l_payload l = PAssign c id /\ u64 id = n)).

Lemma log_step_added hc ts g l g' c n :
  csr_inv g -> log_step hc ts g l = Apply g' -> byc g' c = Some n ->
  byc g c = Some n \/ (byc g c = None /\ hc c = true /\ places ts l c n).
Proof.
  intros HI. unfold log_step.
  destruct (l_emitter l =? ts) eqn:Em; cbn [negb]; [|discriminate].
  apply Z.eqb_eq in Em.
  destruct (l_payload l) as [c0 rv id|c0 id| | | |] eqn:P; try discriminate.
  - unfold register_event, validate_contract.
    destruct (byc g c0) eqn:Bc; [discriminate|]. destruct (hc c0) eqn:Hc; [|discriminate].
    destruct (csrs g (u64 id)); [discriminate|]. destruct (validate _); [|discriminate].
    intros X. inversion X; subst g'. clear X. rewrite set_csr_byc. cbn [c_contracts memZ existsb].
    destruct (c =? c0) eqn:E; cbn [orb].
    + apply Z.eqb_eq in E. subst c0. intros X. inversion X; subst n. right.
      repeat split; auto. left. eauto.
    + auto.
  - unfold assign_event, validate_contract.
    destruct (byc g c0) eqn:Bc; [discriminate|]. destruct (hc c0) eqn:Hc; [|discriminate].
    destruct (csrs g (u64 id)) as [r|] eqn:Cn; [|discriminate]. destruct (validate _); [|discriminate].
    intros X. inversion X; subst g'. clear X. rewrite set_csr_byc. cbn [c_contracts].
    destruct (memZ c (c_contracts r ++ [c0])) eqn:M; [|auto].
    apply memZ_In in M. apply in_app_or in M. intros X. inversion X; subst n.
    destruct M as [M|[->|[]]].
    + left. apply HI. eauto.
    + right. repeat split; auto. right. eauto.
Qed.

Theorem events_added hc ts logs : forall g c n,
  csr_inv g -> byc (process_events hc ts logs g) c = Some n ->
  byc g c = Some n \/
  (byc g c = None /\ hc c = true /\ exists l, In l logs /\ places ts l c n).
Proof.
  induction logs as [|l r IH]; intros g c n HI; cbn [process_events]; [auto|].
  destruct (log_step hc ts g l) as [| |g'] eqn:E.
  - intros H. destruct (IH g c n HI H) as [A|(A & B & l' & C & D)]; [auto|].
    right. repeat split; auto. exists l'. split; [right; exact C|exact D].
  - auto.
  - intros H. pose proof (log_step_inv _ _ _ _ _ HI E) as HI'.
    destruct (IH g' c n HI' H) as [A|(A & B & l' & C & D)].
    + destruct (log_step_added _ _ _ _ _ _ _ HI E A) as [X|(X & Y & Z0)]; [auto|].
      right. repeat split; auto. exists l. split; [left; reflexivity|exact Z0].
    + right.
      assert (X : byc g c = None).
      { destruct (byc g c) as [m|] eqn:Bg; [|reflexivity]. exfalso.
        (* an entry is never removed or redirected by a step *)
        revert E. unfold log_step. destruct (negb _); [discriminate|].
        destruct (l_payload l) as [c0 rv id|c0 id| | | |]; try discriminate.
        - unfold register_event, validate_contract.
          destruct (byc g c0) eqn:Bc; [discriminate|]. destruct (hc c0); [|discriminate].
          destruct (csrs g (u64 id)); [discriminate|]. destruct (validate _); [|discriminate].
          intros X. inversion X; subst g'. rewrite set_csr_byc in A. cbn [c_contracts memZ existsb] in A.
          destruct (c =? c0) eqn:Ec; cbn [orb] in A; congruence.
        - unfold assign_event, validate_contract.
          destruct (byc g c0) eqn:Bc; [discriminate|]. destruct (hc c0); [|discriminate].
          destruct (csrs g (u64 id)); [|discriminate]. destruct (validate _); [|discriminate].
          intros X. inversion X; subst g'. rewrite set_csr_byc in A.
          destruct (memZ c _); congruence. }
      repeat split; auto. exists l'. split; [right; exact C|exact D].
Qed.

Corollary only_code hc ts logs g c :
  csr_inv g -> byc g c = None -> byc (process_events hc ts logs g) c <> None -> hc c = true.
Proof.
  intros HI N H. destruct (byc (process_events hc ts logs g) c) as [n|] eqn:E; [|congruence].
  destruct (events_added hc ts logs g c n HI E) as [A|(A & B & _)]; congruence.
Qed.

(** * Existing NFTs are never re-created; metrics only move with a fee *)

Definition extends (r r' : csr) : Prop :=
  (exists ext, c_contracts r' = c_contracts r ++ ext) /\ c_txs r' = c_txs r /\ c_revenue r' = c_revenue r.

Lemma extends_refl r : extends r r.
Proof. split; [exists []; symmetry; apply app_nil_r|auto]. Qed.
Lemma extends_trans a b c : extends a b -> extends b c -> extends a c.
Proof.
  intros ((e1 & A) & B & C) ((e2 & D) & E & F). split.
  - exists (e1 ++ e2). rewrite D, A. symmetry. apply app_assoc.
  - split; congruence.
Qed.

Lemma log_step_extends hc ts g l g' n r :
  log_step hc ts g l = Apply g' -> csrs g n = Some r ->
  exists r', csrs g' n = Some r' /\ extends r r'.
Proof.
  unfold log_step. destruct (negb _); [discriminate|].
  destruct (l_payload l) as [c0 rv id|c0 id| | | |]; try discriminate.
  - unfold register_event. destruct (validate_contract _ _ _); [|discriminate].
    destruct (csrs g (u64 id)) eqn:Cn; [discriminate|]. destruct (validate _); [|discriminate].
    intros X A. inversion X; subst g'. rewrite set_csr_csrs.
    destruct (n =? u64 id) eqn:E; [apply Z.eqb_eq in E; congruence|].
    exists r. split; [exact A|apply extends_refl].
  - unfold assign_event. destruct (validate_contract _ _ _); [|discriminate].
    destruct (csrs g (u64 id)) as [r0|] eqn:Cn; [|discriminate]. destruct (validate _); [|discriminate].
    intros X A. inversion X; subst g'. rewrite set_csr_csrs.
    destruct (n =? u64 id) eqn:E.
    + apply Z.eqb_eq in E. subst n. rewrite Cn in A. inversion A; subst r0.
      eexists. split; [reflexivity|]. split; [exists [c0]; reflexivity|auto].
    + exists r. split; [exact A|apply extends_refl].
Qed.

Theorem no_recreate_events hc ts logs : forall g n r,
  csrs g n = Some r ->
  exists r', csrs (process_events hc ts logs g) n = Some r' /\ extends r r'.
Proof.
  induction logs as [|l rest IH]; intros g n r A; cbn [process_events].
  - exists r. split; [exact A|apply extends_refl].
  - destruct (log_step hc ts g l) as [| |g'] eqn:E.
    + apply IH. exact A.
    + exists r. split; [exact A|apply extends_refl].
    + destruct (log_step_extends _ _ _ _ _ _ _ E A) as (r1 & A1 & X1).
      destruct (IH g' n r1 A1) as (r2 & A2 & X2).
      exists r2. split; [exact A2|eapply extends_trans; eauto].
Qed.

(* a record created by the events of a receipt starts with txs = 0, revenue = 0 *)
Lemma log_step_fresh hc ts g l g' n r' :
  log_step hc ts g l = Apply g' -> csrs g n = None -> csrs g' n = Some r' ->
  c_txs r' = 0 /\ c_revenue r' = 0.
Proof.
  unfold log_step. destruct (negb _); [discriminate|].
  destruct (l_payload l) as [c0 rv id|c0 id| | | |]; try discriminate.
  - unfold register_event. destruct (validate_contract _ _ _); [|discriminate].
    destruct (csrs g (u64 id)) eqn:Cn; [discriminate|]. destruct (validate _); [|discriminate].
    intros X A. inversion X; subst g'. rewrite set_csr_csrs.
    destruct (n =? u64 id); [|congruence]. intros Y. inversion Y; subst r'. auto.
  - unfold assign_event. destruct (validate_contract _ _ _); [|discriminate].
    destruct (csrs g (u64 id)) as [r0|] eqn:Cn; [|discriminate]. destruct (validate _); [|discriminate].
    intros X A. inversion X; subst g'. rewrite set_csr_csrs.
    destruct (n =? u64 id) eqn:E; [apply Z.eqb_eq in E; congruence|congruence].
Qed.

Definition rev_of (g : registry) (n : Z) : Z := match csrs g n with Some r => c_revenue r | None => 0 end.
Definition txs_of (g : registry) (n : Z) : Z := match csrs g n with Some r => c_txs r | None => 0 end.

Lemma events_metrics hc ts logs : forall g n,
  rev_of (process_events hc ts logs g) n = rev_of g n /\ txs_of (process_events hc ts logs g) n = txs_of g n.
Proof.
  induction logs as [|l rest IH]; intros g n; cbn [process_events]; [auto|].
  destruct (log_step hc ts g l) as [| |g'] eqn:E; auto.
  destruct (IH g' n) as [A B]. rewrite A, B. unfold rev_of, txs_of.
  destruct (csrs g n) as [r|] eqn:Cn.
  - destruct (log_step_extends _ _ _ _ _ _ _ E Cn) as (r1 & A1 & _ & X & Y). rewrite A1. auto.
  - destruct (csrs g' n) as [r'|] eqn:Cn'; [|auto].
    destruct (log_step_fresh _ _ _ _ _ _ _ E Cn Cn'). auto.
Qed.

(** * Malformed, foreign and other events are inert *)

(* logs after which processEvents returns *)
Definition aborting (ts : Z) (l : log) : Prop :=
  l_emitter l = ts /\ (l_payload l = PMalformed \/ l_payload l = PUnknown).
(* logs that are skipped *)
Definition skipped (ts : Z) (l : log) : Prop :=
  l_emitter l <> ts \/ l_payload l = POther \/ l_payload l = PNoTopics.

Lemma aborting_step hc ts g l : aborting ts l -> log_step hc ts g l = Abort.
Proof.
  intros [E P]. unfold log_step. rewrite E, Z.eqb_refl. cbn [negb].
  destruct P as [-> | ->]; reflexivity.
Qed.
Lemma skipped_step hc ts g l : skipped ts l -> log_step hc ts g l = Skip.
Proof.
  intros H. unfold log_step. destruct (l_emitter l =? ts) eqn:E; cbn [negb]; [|reflexivity].
  apply Z.eqb_eq in E. destruct H as [H|[-> | ->]]; [contradiction|reflexivity|reflexivity].
Qed.

(* a malformed Turnstile event changes nothing itself and hides everything after it *)
Theorem malformed_inert hc ts l post pre : forall g,
  aborting ts l ->
  process_events hc ts (pre ++ l :: post) g = process_events hc ts pre g.
Proof.
  induction pre as [|x pre IH]; intros g H; cbn [app process_events].
  - rewrite aborting_step by exact H. reflexivity.
  - destruct (log_step hc ts g x); auto.
Qed.

(* a foreign log, another Turnstile event or a log without topics can be erased anywhere *)
Theorem skipped_inert hc ts l post pre : forall g,
  skipped ts l ->
  process_events hc ts (pre ++ l :: post) g = process_events hc ts (pre ++ post) g.
Proof.
  induction pre as [|x pre IH]; intros g H; cbn [app process_events].
  - rewrite skipped_step by exact H. reflexivity.
  - destruct (log_step hc ts g x); auto.
Qed.

(** * The fee split (C10) *)

Import SdkDec.

Lemma chk256 x : 0 <= x < 2 ^ 256 -> SdkInt.chk x = Some x.
Proof.
  intros H. unfold SdkInt.chk, SdkInt.overflows, SdkInt.bound.
  destruct (2 ^ 256 <=? Z.abs x) eqn:E; [apply Z.leb_le in E; lia|reflexivity].
Qed.

Lemma fee_of_ok t :
  0 < tx_gas_used t -> 0 <= tx_gas_price t -> tx_gas_used t * tx_gas_price t < 2 ^ 256 ->
  fee_of t = Some (tx_gas_used t * tx_gas_price t).
Proof.
  intros Hu Hp Hf. unfold fee_of, SdkInt.of_big, SdkInt.mul.
  rewrite chk256 by nia. cbn [obind]. rewrite chk256 by nia. cbn [obind].
  destruct (0 <=? tx_gas_used t * tx_gas_price t) eqn:E; [reflexivity|apply Z.leb_gt in E; nia].
Qed.

Lemma fee_of_nonneg t fee : fee_of t = Some fee -> 0 <= fee.
Proof.
  unfold fee_of. intros H. obind_inv H. obind_inv H.
  destruct (0 <=? x0) eqn:Ez; [|discriminate]. inversion H; subst. apply Z.leb_le. exact Ez.
Qed.

(* fee * share is exact before TruncateInt, because one factor is an integer:
   LegacyNewDecFromInt(fee).Mul(share) = fee * share with no rounding, so
   csrFee = floor(fee * share / 10^18) *)
Lemma dec_mul_int_exact fee sh :
  0 <= fee -> 0 <= sh -> rmul (of_int fee) sh = fee * sh.
Proof.
  intros Hf Hs. unfold rmul, of_int.
  replace (fee * S * sh) with (fee * sh * S) by ring.
  apply chop_round_exact. nia.
Qed.

Lemma csr_fee_exact fee sh :
  0 <= fee -> 0 <= sh -> fee * sh < 2 ^ 315 ->
  csr_fee_of fee sh = Some (fee * sh / S).
Proof.
  intros Hf Hs Hb. unfold csr_fee_of, mul. rewrite dec_mul_int_exact by assumption.
  unfold chk, overflows, bound.
  destruct (2 ^ 315 <=? Z.abs (fee * sh)) eqn:E; [apply Z.leb_le in E; nia|]. cbn [obind].
  unfold truncate_int. rewrite Z.quot_div_nonneg by (pose proof S_pos; nia).
  pose proof S_pos as HS.
  assert (Hq : 0 <= fee * sh / S) by (apply Z.div_pos; nia).
  assert (Hq2 : fee * sh / S < 2 ^ 256).
  { apply Z.div_lt_upper_bound; [lia|].
    assert (C : 2 ^ 315 <= S * 2 ^ 256) by (vm_compute; discriminate). lia. }
  destruct (2 ^ 256 <=? Z.abs (fee * sh / S)) eqn:E2; [apply Z.leb_le in E2; lia|reflexivity].
Qed.

Lemma csr_fee_le fee sh : 0 <= fee -> 0 <= sh <= S -> 0 <= fee * sh / S <= fee.
Proof.
  intros Hf Hs. pose proof S_pos as HS. split; [apply Z.div_pos; nia|].
  apply Z.div_le_upper_bound; nia.
Qed.

(* without the exactness lemma: the share of a non-negative fee is non-negative *)
Lemma csr_fee_nonneg fee sh cf : 0 <= fee -> 0 <= sh -> csr_fee_of fee sh = Some cf -> 0 <= cf.
Proof.
  intros Hf Hs. unfold csr_fee_of. intros H. obind_inv H.
  unfold mul, chk in E. destruct (overflows _); [discriminate|]. inversion E; subst x. clear E.
  assert (0 <= rmul (of_int fee) sh) by (rewrite dec_mul_int_exact; nia).
  unfold truncate_int in H. destruct (_ <=? _); [discriminate|]. inversion H; subst cf.
  apply Z.quot_pos; [assumption|pose proof S_pos; lia].
Qed.

(** ** Ledger operations: what a successful call does *)

Lemma send_fee_eff m amt m' :
  send_fee m amt = Some m' ->
  collector m' = collector m - amt /\ module_acct m' = module_acct m + amt /\
  supply m' = supply m /\ ts_acct m' = ts_acct m /\ ts_bal m' = ts_bal m.
Proof.
  unfold send_fee. destruct (amt =? 0) eqn:E.
  - apply Z.eqb_eq in E. intros X. inversion X; subst. repeat split; lia.
  - destruct (amt <=? collector m); [|discriminate]. intros X. inversion X; subst. cbn. auto.
Qed.

Lemma burn_eff m amt m' :
  burn m amt = Some m' ->
  collector m' = collector m /\ module_acct m' = module_acct m - amt /\
  supply m' = supply m - amt /\ ts_acct m' = ts_acct m /\ ts_bal m' = ts_bal m.
Proof.
  unfold burn. destruct (amt =? 0) eqn:E.
  - apply Z.eqb_eq in E. intros X. inversion X; subst. repeat split; lia.
  - destruct (amt <=? module_acct m); [|discriminate]. intros X. inversion X; subst. cbn. auto.
Qed.

Lemma distribute_eff m n cf m' :
  0 <= cf -> (if 0 <? cf then distribute m n cf else Some m) = Some m' ->
  collector m' = collector m /\ module_acct m' = module_acct m - cf /\
  supply m' = supply m /\ ts_acct m' = ts_acct m + cf /\
  (forall k, ts_bal m' k = ts_bal m k + (if k =? n then cf else 0)).
Proof.
  intros Hc. destruct (0 <? cf) eqn:E.
  - unfold distribute. rewrite E. destruct (cf <=? module_acct m); [|discriminate].
    destruct (_ <? 2 ^ 256); [|discriminate]. intros X. inversion X; subst. cbn.
    repeat split; auto. intros k. unfold upd. destruct (k =? n) eqn:Ek; [apply Z.eqb_eq in Ek; subst; lia|lia].
  - apply Z.ltb_ge in E. assert (cf = 0) by lia. subst cf. intros X. inversion X; subst.
    repeat split; try lia. intros k. destruct (k =? n); lia.
Qed.

Lemma send_fee_ok m amt : 0 <= amt <= collector m -> exists m', send_fee m amt = Some m'.
Proof.
  intros H. unfold send_fee. destruct (amt =? 0); [eauto|].
  destruct (amt <=? collector m) eqn:E; [eauto|apply Z.leb_gt in E; lia].
Qed.
Lemma burn_ok m amt : 0 <= amt <= module_acct m -> exists m', burn m amt = Some m'.
Proof.
  intros H. unfold burn. destruct (amt =? 0); [eauto|].
  destruct (amt <=? module_acct m) eqn:E; [eauto|apply Z.leb_gt in E; lia].
Qed.
Lemma distribute_ok m n cf :
  0 <= cf <= module_acct m -> ts_bal m n + cf < 2 ^ 256 ->
  exists m', (if 0 <? cf then distribute m n cf else Some m) = Some m'.
Proof.
  intros H B. destruct (0 <? cf) eqn:E; [|eauto]. unfold distribute. rewrite E.
  destruct (cf <=? module_acct m) eqn:E1; [|apply Z.leb_gt in E1; lia].
  destruct (ts_bal m n + cf <? 2 ^ 256) eqn:E2; [eauto|apply Z.ltb_ge in E2; lia].
Qed.

(** ** The hook on a registered target *)

(* the registry after the events of the receipt, and the NFT of the called contract in it *)
Definition after_events (t : tx) (ts : Z) (s : state) : registry :=
  process_events (tx_code t) ts (tx_logs t) (reg s).
Definition target_nft (t : tx) (g : registry) : option Z :=
  match tx_to t with Some c => byc g c | None => None end.

Record fee_hyps (t : tx) (s : state) (ts : Z) : Prop := {
  fh_enable : enable (cfg s) = true;
  fh_ts : turnstile (cfg s) = Some ts;
  fh_share : 0 <= share (cfg s) <= S;                         (* ValidateShares *)
  fh_used : 0 < tx_gas_used t < 2 ^ 64;
  fh_price : 0 <= tx_gas_price t;
  fh_funded : tx_gas_used t * tx_gas_price t <= collector (mon s);
  fh_small : tx_gas_used t * tx_gas_price t < 2 ^ 255;        (* LegacyDec.Mul stays below 315 bits *)
  fh_module : 0 <= module_acct (mon s)
}.

Theorem split_registered t s ts n r :
  fee_hyps t s ts ->
  let g := after_events t ts s in
  let fee := tx_gas_used t * tx_gas_price t in
  let cf := fee * share (cfg s) / S in
  target_nft t g = Some n -> csrs g n = Some r ->
  ts_bal (mon s) n + fee < 2 ^ 256 -> 0 <= c_revenue r -> c_revenue r + fee < 2 ^ 256 ->
  exists s', post_tx t s = Some s' /\
    collector (mon s') = collector (mon s) - fee /\
    module_acct (mon s') = module_acct (mon s) /\
    supply (mon s') = supply (mon s) - (fee - cf) /\
    ts_acct (mon s') = ts_acct (mon s) + cf /\
    (forall k, ts_bal (mon s') k = ts_bal (mon s) k + (if k =? n then cf else 0)) /\
    csrs (reg s') n = Some (mkCsr (c_contracts r) (u64 (c_txs r + 1)) (c_revenue r + cf)) /\
    (forall k, k <> n -> csrs (reg s') k = csrs g k) /\
    0 <= cf <= fee.
Proof.
  intros [He Ht Hs Hu Hp Hfu Hsm Hm] g fee cf Htg Hr Hb Hr0 Hr1.
  assert (Hfee : 0 <= fee) by (unfold fee; nia).
  assert (Hff : fee_of t = Some fee) by (apply fee_of_ok; unfold fee in *; lia).
  pose proof (csr_fee_le fee (share (cfg s)) Hfee Hs) as Hcf. fold cf in Hcf.
  assert (Hcfe : csr_fee_of fee (share (cfg s)) = Some cf).
  { apply csr_fee_exact; [lia|lia|].
    assert (C : 2 ^ 255 * S <= 2 ^ 315) by (vm_compute; discriminate).
    pose proof S_pos. fold fee in Hsm. nia. }
  destruct (send_fee_ok (mon s) fee ltac:(fold fee in Hfu; lia)) as (m1 & E1).
  destruct (send_fee_eff _ _ _ E1) as (A1 & A2 & A3 & A4 & A5).
  destruct (distribute_ok m1 n cf ltac:(lia) ltac:(rewrite A5; lia)) as (m2 & E2).
  destruct (distribute_eff m1 n cf m2 ltac:(lia) E2) as (B1 & B2 & B3 & B4 & B5).
  destruct (burn_ok m2 (fee - cf) ltac:(lia)) as (m3 & E3).
  destruct (burn_eff _ _ _ E3) as (C1 & C2 & C3 & C4 & C5).
  exists (mkState (set_csr g n (mkCsr (c_contracts r) (u64 (c_txs r + 1)) (c_revenue r + cf))) m3 (cfg s)).
  split.
  - unfold post_tx. rewrite He, Ht. cbn [negb]. fold (after_events t ts s). fold g.
    destruct (tx_gas_used t =? 0) eqn:Eg; [apply Z.eqb_eq in Eg; lia|].
    rewrite Hff. cbn [obind]. rewrite E1. cbn [obind].
    unfold target_nft in Htg. rewrite Htg, Hr, Hcfe. cbn [obind].
    unfold SdkInt.sub. rewrite chk256 by lia. cbn [obind].
    destruct (0 <=? fee - cf) eqn:E0; [|apply Z.leb_gt in E0; lia].
    rewrite E2. cbn [obind]. rewrite E3. cbn [obind].
    unfold SdkInt.add. rewrite chk256 by lia. cbn [obind]. reflexivity.
  - cbn [mon reg]. repeat split; try lia.
    + intros k. rewrite C5, B5, A5. reflexivity.
    + rewrite set_csr_csrs, Z.eqb_refl. reflexivity.
    + intros k Hk. rewrite set_csr_csrs. destruct (k =? n) eqn:E; [apply Z.eqb_eq in E; contradiction|reflexivity].
Qed.

(* unregistered target or contract creation: the whole fee is burned *)
Theorem split_unregistered t s ts :
  fee_hyps t s ts ->
  let g := after_events t ts s in
  let fee := tx_gas_used t * tx_gas_price t in
  target_nft t g = None ->
  exists s', post_tx t s = Some s' /\
    collector (mon s') = collector (mon s) - fee /\
    module_acct (mon s') = module_acct (mon s) /\
    supply (mon s') = supply (mon s) - fee /\
    ts_acct (mon s') = ts_acct (mon s) /\
    ts_bal (mon s') = ts_bal (mon s) /\
    reg s' = g.
Proof.
  intros [He Ht Hs Hu Hp Hfu Hsm Hm] g fee Htg.
  assert (Hfee : 0 <= fee) by (unfold fee; nia).
  assert (Hff : fee_of t = Some fee) by (apply fee_of_ok; unfold fee in *; lia).
  destruct (send_fee_ok (mon s) fee ltac:(fold fee in Hfu; lia)) as (m1 & E1).
  destruct (send_fee_eff _ _ _ E1) as (A1 & A2 & A3 & A4 & A5).
  destruct (burn_ok m1 fee ltac:(lia)) as (m2 & E2).
  destruct (burn_eff _ _ _ E2) as (C1 & C2 & C3 & C4 & C5).
  exists (mkState g m2 (cfg s)). split.
  - unfold post_tx. rewrite He, Ht. cbn [negb]. fold (after_events t ts s). fold g.
    destruct (tx_gas_used t =? 0) eqn:Eg; [apply Z.eqb_eq in Eg; lia|].
    rewrite Hff. cbn [obind]. rewrite E1. cbn [obind].
    unfold target_nft in Htg. rewrite Htg. rewrite E2. reflexivity.
  - cbn [mon reg]. repeat split; try lia; congruence.
Qed.

Corollary split_creation t s ts :
  fee_hyps t s ts -> tx_to t = None ->
  let fee := tx_gas_used t * tx_gas_price t in
  exists s', post_tx t s = Some s' /\
    collector (mon s') = collector (mon s) - fee /\
    module_acct (mon s') = module_acct (mon s) /\
    supply (mon s') = supply (mon s) - fee /\
    ts_acct (mon s') = ts_acct (mon s) /\ ts_bal (mon s') = ts_bal (mon s).
Proof.
  intros H E fee.
  destruct (split_unregistered t s ts H) as (s' & A & B & C & D & F & G & _).
  - unfold target_nft. rewrite E. reflexivity.
  - exists s'. unfold fee. repeat split; assumption.
Qed.

(* gas price 0: nothing moves and nothing fails *)
Corollary split_zero_fee t s ts :
  fee_hyps t s ts -> tx_gas_price t = 0 -> target_nft t (after_events t ts s) = None ->
  exists s', post_tx t s = Some s' /\ collector (mon s') = collector (mon s) /\
    module_acct (mon s') = module_acct (mon s) /\ supply (mon s') = supply (mon s).
Proof.
  intros H E T. destruct (split_unregistered t s ts H T) as (s' & A & B & C & D & _).
  exists s'. rewrite E, Z.mul_0_r in *. repeat split; auto; lia.
Qed.

(* the NFT bounds needed when the target is registered *)
Definition nft_room (t : tx) (s : state) (ts : Z) : Prop :=
  forall n r, target_nft t (after_events t ts s) = Some n -> csrs (after_events t ts s) n = Some r ->
    ts_bal (mon s) n + tx_gas_used t * tx_gas_price t < 2 ^ 256 /\
    0 <= c_revenue r /\ c_revenue r + tx_gas_used t * tx_gas_price t < 2 ^ 256.

(* with the collector funded the hook succeeds for every accepted share,
   whatever the target, provided the registry invariant holds *)
Theorem never_fails t s ts :
  fee_hyps t s ts -> csr_inv (reg s) -> nft_room t s ts -> exists s', post_tx t s = Some s'.
Proof.
  intros H HI Hroom.
  destruct (target_nft t (after_events t ts s)) as [n|] eqn:T.
  - pose proof (process_events_inv (tx_code t) ts (tx_logs t) (reg s) HI) as [HG _].
    fold (after_events t ts s) in HG.
    unfold target_nft in T. destruct (tx_to t) as [c|] eqn:Ec; [|discriminate].
    destruct (proj1 (HG c n) T) as (r & A & _).
    assert (T' : target_nft t (after_events t ts s) = Some n) by (unfold target_nft; rewrite Ec; exact T).
    destruct (Hroom n r T' A) as (B1 & B2 & B3).
    destruct (split_registered t s ts n r H T' A B1 B2 B3) as (s' & E & _). eauto.
  - destruct (split_unregistered t s ts H T) as (s' & E & _). eauto.
Qed.

(** ** Finding F3: the hook before the repair fails for accepted parameters *)

Definition ex_reg : registry := set_csr empty_reg 1 (mkCsr [100] 0 0).
Definition ex_state (sh : Z) : state :=
  mkState ex_reg (mkMoney 1000000000 0 5000000000 0 (fun _ => 0)) (mkCfg (Some 999) true sh).
Definition ex_tx (gp : Z) (to : option Z) : tx := mkTx (fun _ => false) [] 21000 gp to.

Lemma ex_reg_inv : csr_inv ex_reg.
Proof.
  apply set_csr_inv; [apply empty_inv|repeat constructor; intros []| |]; cbn.
  - intros c _. left. reflexivity.
  - intros c H. discriminate.
Qed.

Lemma ex_hyps sh gp to : 0 <= sh <= S -> 0 <= gp <= 1000 -> fee_hyps (ex_tx gp to) (ex_state sh) 999.
Proof.
  intros Hs Hg.
  constructor; cbn [ex_state ex_tx cfg mon enable turnstile share tx_gas_used tx_gas_price collector module_acct];
    try reflexivity; try lia.
Qed.

Lemma ex_room sh gp to : 0 <= gp <= 1000 -> nft_room (ex_tx gp to) (ex_state sh) 999.
Proof.
  intros Hg n r T A. unfold after_events in *. cbn [ex_tx tx_logs process_events ex_state reg] in *.
  unfold target_nft in T. cbn [tx_to ex_tx] in T. destruct to as [c|]; [|discriminate].
  unfold ex_reg in *. rewrite set_csr_byc in T. cbn [c_contracts] in T.
  destruct (memZ c [100]); [|discriminate]. inversion T; subst n.
  rewrite set_csr_csrs in A. cbn in A. inversion A; subst r.
  cbn [mon ts_bal c_revenue tx_gas_used tx_gas_price ex_tx ex_state]. lia.
Qed.

(* the statement of never_fails is false of the unrepaired hook: share 0, share 1, gas price 0 *)
Theorem never_fails_refuted :
  exists t s ts, fee_hyps t s ts /\ csr_inv (reg s) /\ nft_room t s ts /\ post_tx_unfixed t s = None.
Proof.
  exists (ex_tx 1 (Some 100)), (ex_state 0), 999.
  split; [apply ex_hyps; pose proof S_pos; lia|]. split; [apply ex_reg_inv|].
  split; [apply ex_room; lia|]. vm_compute. reflexivity.
Qed.
Theorem never_fails_refuted_share_one :
  exists t s ts, fee_hyps t s ts /\ csr_inv (reg s) /\ nft_room t s ts /\
    share (cfg s) = S /\ post_tx_unfixed t s = None.
Proof.
  exists (ex_tx 1 (Some 100)), (ex_state S), 999.
  split; [apply ex_hyps; pose proof S_pos; lia|]. split; [apply ex_reg_inv|].
  split; [apply ex_room; lia|]. split; [reflexivity|]. vm_compute. reflexivity.
Qed.
Theorem never_fails_refuted_gas_price_zero :
  exists t s ts, fee_hyps t s ts /\ csr_inv (reg s) /\ nft_room t s ts /\
    tx_gas_price t = 0 /\ tx_to t = None /\ post_tx_unfixed t s = None.
Proof.
  exists (ex_tx 0 None), (ex_state 200000000000000000), 999.
  split; [apply ex_hyps; unfold S; lia|]. split; [apply ex_reg_inv|].
  split; [apply ex_room; lia|]. split; [reflexivity|]. split; [reflexivity|]. vm_compute. reflexivity.
Qed.
(* the same three inputs succeed on the hook as it is now *)
Example repaired_on_witnesses :
  post_tx (ex_tx 1 (Some 100)) (ex_state 0) <> None /\
  post_tx (ex_tx 1 (Some 100)) (ex_state S) <> None /\
  post_tx (ex_tx 0 None) (ex_state 200000000000000000) <> None.
Proof. repeat split; vm_compute; discriminate. Qed.

(** ** What any successful call does to the ledgers *)

Lemma rev_of_set_csr g n r k : rev_of (set_csr g n r) k = if k =? n then c_revenue r else rev_of g k.
Proof. unfold rev_of. rewrite set_csr_csrs. destruct (k =? n); reflexivity. Qed.

Lemma post_tx_effect t s s' :
  0 <= share (cfg s) -> post_tx t s = Some s' ->
  exists fee a n,
    0 <= a <= fee /\
    collector (mon s') = collector (mon s) - fee /\
    module_acct (mon s') = module_acct (mon s) /\
    supply (mon s') = supply (mon s) - (fee - a) /\
    ts_acct (mon s') = ts_acct (mon s) + a /\
    (forall k, ts_bal (mon s') k = ts_bal (mon s) k + (if k =? n then a else 0)) /\
    (forall k, rev_of (reg s') k = rev_of (reg s) k + (if k =? n then a else 0)) /\
    (0 < a -> csrs (reg s') n <> None).
Proof.
  intros Hs. unfold post_tx.
  assert (Triv : forall s0, mon s0 = mon s -> (forall k, rev_of (reg s0) k = rev_of (reg s) k) ->
    exists fee a n, 0 <= a <= fee /\ collector (mon s0) = collector (mon s) - fee /\
      module_acct (mon s0) = module_acct (mon s) /\ supply (mon s0) = supply (mon s) - (fee - a) /\
      ts_acct (mon s0) = ts_acct (mon s) + a /\
      (forall k, ts_bal (mon s0) k = ts_bal (mon s) k + (if k =? n then a else 0)) /\
      (forall k, rev_of (reg s0) k = rev_of (reg s) k + (if k =? n then a else 0)) /\
      (0 < a -> csrs (reg s0) n <> None)).
  { intros s0 Em Er. exists 0, 0, 0. rewrite Em. repeat split; try lia.
    - intros k. destruct (k =? 0); lia.
    - intros k. rewrite Er. destruct (k =? 0); lia. }
  destruct (negb (enable (cfg s))); [intros E; inversion E; subst; apply Triv; auto|].
  destruct (turnstile (cfg s)) as [ts|]; [|discriminate].
  pose proof (fun k => proj1 (events_metrics (tx_code t) ts (tx_logs t) (reg s) k)) as Hrev.
  set (g := process_events (tx_code t) ts (tx_logs t) (reg s)) in *.
  destruct (tx_gas_used t =? 0); [intros E; inversion E; subst; apply Triv; auto|].
  intros H. obind_inv H. rename x into fee, E into Ef. pose proof (fee_of_nonneg _ _ Ef) as Hfee.
  obind_inv H. rename x into m1, E into E1.
  destruct (send_fee_eff _ _ _ E1) as (A1 & A2 & A3 & A4 & A5).
  destruct (match tx_to t with Some c => byc g c | None => None end) as [n|].
  - destruct (csrs g n) as [r|] eqn:Cn; [|discriminate].
    obind_inv H. rename x into cf, E into Ec. pose proof (csr_fee_nonneg _ _ _ Hfee Hs Ec) as Hcf.
    obind_inv H. unfold SdkInt.sub, SdkInt.chk in E. destruct (SdkInt.overflows _); [discriminate|].
    inversion E; subst x. clear E.
    destruct (0 <=? fee - cf) eqn:E0; [apply Z.leb_le in E0|discriminate].
    obind_inv H. rename x into m2, E into E2.
    destruct (distribute_eff m1 n cf m2 Hcf E2) as (B1 & B2 & B3 & B4 & B5).
    obind_inv H. rename x into m3, E into E3.
    destruct (burn_eff _ _ _ E3) as (C1 & C2 & C3 & C4 & C5).
    obind_inv H. unfold SdkInt.add, SdkInt.chk in E. destruct (SdkInt.overflows _); [discriminate|].
    inversion E; subst x. clear E. inversion H; subst s'. clear H. cbn [mon reg].
    exists fee, cf, n. repeat split; try lia.
    + intros k. rewrite C5, B5, A5. reflexivity.
    + intros k. rewrite rev_of_set_csr. cbn [c_revenue]. rewrite <- Hrev.
      destruct (k =? n) eqn:Ek; [|lia]. apply Z.eqb_eq in Ek. subst k. unfold rev_of. rewrite Cn. reflexivity.
    + intros _. rewrite set_csr_csrs, Z.eqb_refl. discriminate.
  - obind_inv H. rename x into m2, E into E2.
    destruct (burn_eff _ _ _ E2) as (C1 & C2 & C3 & C4 & C5).
    inversion H; subst s'. clear H. cbn [mon reg].
    exists fee, 0, 0. repeat split; try lia.
    + intros k. rewrite C5, A5. destruct (k =? 0); lia.
    + intros k. rewrite Hrev. destruct (k =? 0); lia.
Qed.

(** ** Histories: existing NFTs persist *)

Lemma post_tx_keeps t s s' n r :
  post_tx t s = Some s' -> csrs (reg s) n = Some r ->
  exists r', csrs (reg s') n = Some r' /\ exists ext, c_contracts r' = c_contracts r ++ ext.
Proof.
  unfold post_tx. intros H A.
  assert (Triv : exists r', csrs (reg s) n = Some r' /\ exists ext, c_contracts r' = c_contracts r ++ ext).
  { exists r. split; [exact A|exists []; symmetry; apply app_nil_r]. }
  destruct (negb (enable (cfg s))); [inversion H; subst; exact Triv|].
  destruct (turnstile (cfg s)) as [ts|]; [|discriminate].
  destruct (no_recreate_events (tx_code t) ts (tx_logs t) (reg s) n r A) as (r1 & A1 & (X & _)).
  set (g := process_events (tx_code t) ts (tx_logs t) (reg s)) in *.
  destruct (tx_gas_used t =? 0); [inversion H; subst; cbn [reg]; eauto|].
  obind_inv H. obind_inv H.
  destruct (match tx_to t with Some c => byc g c | None => None end) as [k|].
  - destruct (csrs g k) as [rk|] eqn:Ck; [|discriminate].
    obind_inv H. obind_inv H. destruct (0 <=? x2); [|discriminate].
    obind_inv H. obind_inv H. obind_inv H. inversion H; subst s'. cbn [reg].
    rewrite set_csr_csrs. destruct (n =? k) eqn:Enk; [|eauto].
    apply Z.eqb_eq in Enk. subst k. rewrite A1 in Ck. inversion Ck; subst rk.
    eexists. split; [reflexivity|]. cbn [c_contracts]. exact X.
  - obind_inv H. inversion H; subst s'. cbn [reg]. eauto.
Qed.

(* txs and revenue of an NFT move only when a fee is processed for a contract of that NFT *)
Lemma post_tx_metrics_frame t s s' ts n :
  post_tx t s = Some s' -> turnstile (cfg s) = Some ts ->
  (tx_gas_used t = 0 \/ enable (cfg s) = false \/ target_nft t (after_events t ts s) <> Some n) ->
  rev_of (reg s') n = rev_of (reg s) n /\ txs_of (reg s') n = txs_of (reg s) n.
Proof.
  unfold post_tx. intros H Ht Hc.
  destruct (enable (cfg s)) eqn:En; cbn [negb] in H; [|inversion H; subst; auto].
  rewrite Ht in H. unfold target_nft, after_events in Hc.
  pose proof (events_metrics (tx_code t) ts (tx_logs t) (reg s) n) as Hm.
  set (g := process_events (tx_code t) ts (tx_logs t) (reg s)) in *.
  destruct (tx_gas_used t =? 0) eqn:Eg; [inversion H; subst; exact Hm|].
  apply Z.eqb_neq in Eg. destruct Hc as [Hc|[Hc|Hc]]; [contradiction|discriminate|].
  obind_inv H. obind_inv H.
  destruct (match tx_to t with Some c => byc g c | None => None end) as [k|].
  - destruct (csrs g k) as [rk|] eqn:Ck; [|discriminate].
    obind_inv H. obind_inv H. destruct (0 <=? x2); [|discriminate].
    obind_inv H. obind_inv H. obind_inv H. inversion H; subst s'. cbn [reg].
    unfold rev_of, txs_of in *. rewrite set_csr_csrs.
    destruct (n =? k) eqn:Enk; [apply Z.eqb_eq in Enk; subst; congruence|exact Hm].
  - obind_inv H. inversion H; subst s'. exact Hm.
Qed.

Theorem no_recreate_run l : forall s n r,
  csrs (reg s) n = Some r ->
  exists r', csrs (reg (run l s)) n = Some r' /\ exists ext, c_contracts r' = c_contracts r ++ ext.
Proof.
  induction l as [|t rest IH]; intros s n r A; cbn [run].
  - exists r. split; [exact A|exists []; symmetry; apply app_nil_r].
  - unfold deliver. destruct (post_tx t s) as [s1|] eqn:E.
    + destruct (post_tx_keeps _ _ _ _ _ E A) as (r1 & A1 & e1 & X1).
      destruct (IH s1 n r1 A1) as (r2 & A2 & e2 & X2).
      exists r2. split; [exact A2|]. exists (e1 ++ e2). rewrite X2, X1. symmetry. apply app_assoc.
    + apply IH. exact A.
Qed.

(** ** Histories: the sums *)

Fixpoint sumZ (f : Z -> Z) (l : list Z) : Z :=
  match l with [] => 0 | x :: r => f x + sumZ f r end.

Lemma sumZ_indicator n a l :
  NoDup l -> sumZ (fun k => if k =? n then a else 0) l = if memZ n l then a else 0.
Proof.
  induction 1 as [|x r Hx ND IH]; cbn [sumZ memZ existsb]; [reflexivity|].
  fold (memZ n r). rewrite IH. rewrite (Z.eqb_sym n x).
  destruct (x =? n) eqn:E; cbn [orb]; [|lia].
  apply Z.eqb_eq in E. subst x. apply memZ_false in Hx. rewrite Hx. lia.
Qed.
Lemma sumZ_plus f g l : sumZ (fun k => f k + g k) l = sumZ f l + sumZ g l.
Proof. induction l as [|x r IH]; cbn [sumZ]; [reflexivity|]. rewrite IH. lia. Qed.
Lemma sumZ_ext f g l : (forall k, f k = g k) -> sumZ f l = sumZ g l.
Proof. intros H. induction l as [|x r IH]; cbn [sumZ]; [reflexivity|]. rewrite IH, H. reflexivity. Qed.

Theorem sum_over_history l : forall s,
  0 <= share (cfg s) ->
  let s' := run l s in
  (* the csr module account keeps nothing *)
  module_acct (mon s') = module_acct (mon s) /\
  (* credited to the Turnstile = left the collector - burned *)
  ts_acct (mon s') - ts_acct (mon s) =
    (collector (mon s) - collector (mon s')) - (supply (mon s) - supply (mon s')) /\
  (* per NFT: recorded revenue grew by exactly what its Turnstile balance grew *)
  (forall n, rev_of (reg s') n - rev_of (reg s) n = ts_bal (mon s') n - ts_bal (mon s) n) /\
  (* summed over the NFTs: the revenue increments are the amount credited to the Turnstile *)
  (forall ns, NoDup ns -> (forall n, csrs (reg s') n <> None -> In n ns) ->
     sumZ (fun n => rev_of (reg s') n - rev_of (reg s) n) ns = ts_acct (mon s') - ts_acct (mon s)).
Proof.
  induction l as [|t rest IH]; intros s Hs; cbn [run].
  - cbn. repeat split; try lia. intros ns _ _. induction ns as [|x r IHr]; cbn [sumZ]; lia.
  - unfold deliver. destruct (post_tx t s) as [s1|] eqn:E; [|apply IH; exact Hs].
    assert (Hs1 : 0 <= share (cfg s1)) by (rewrite (post_tx_cfg _ _ _ E); exact Hs).
    destruct (IH s1 Hs1) as (I1 & I2 & I3 & I4).
    destruct (post_tx_effect _ _ _ Hs E) as (fee & a & n0 & Ha & P1 & P2 & P3 & P4 & P5 & P6 & P7).
    cbn zeta in *. repeat split; try lia.
    + intros n. specialize (I3 n). specialize (P5 n). specialize (P6 n). lia.
    + intros ns ND Hcov.
      rewrite (sumZ_ext _ (fun n => (rev_of (reg (run rest s1)) n - rev_of (reg s1) n) +
                                    (if n =? n0 then a else 0))) by (intros k; specialize (P6 k); lia).
      rewrite sumZ_plus, (I4 ns ND Hcov), (sumZ_indicator n0 a ns ND).
      destruct (memZ n0 ns) eqn:M; [lia|].
      apply memZ_false in M.
      assert (a = 0); [|lia].
      destruct (Z.eq_dec a 0) as [|Hne]; [assumption|]. exfalso. apply M. apply Hcov.
      assert (Hreg : csrs (reg s1) n0 <> None) by (apply P7; lia).
      destruct (csrs (reg s1) n0) as [r|] eqn:Cr; [|congruence].
      destruct (no_recreate_run rest s1 n0 r Cr) as (r' & A & _). congruence.
Qed.

(** * Histories: every registered contract was placed by a Turnstile event of a transaction
      whose code oracle held for it *)

Lemma log_step_some hc ts g l g' c : log_step hc ts g l = Apply g' -> byc g c <> None -> byc g' c <> None.
Proof.
  unfold log_step. destruct (negb _); [discriminate|].
  destruct (l_payload l) as [c0 rv id|c0 id| | | |]; try discriminate.
  - unfold register_event. destruct (validate_contract _ _ _); [|discriminate].
    destruct (csrs g (u64 id)); [discriminate|]. destruct (validate _); [|discriminate].
    intros X. inversion X; subst g'. rewrite set_csr_byc. destruct (memZ c _); [discriminate|auto].
  - unfold assign_event. destruct (validate_contract _ _ _); [|discriminate].
    destruct (csrs g (u64 id)); [|discriminate]. destruct (validate _); [|discriminate].
    intros X. inversion X; subst g'. rewrite set_csr_byc. destruct (memZ c _); [discriminate|auto].
Qed.
Lemma events_some hc ts logs : forall g c, byc g c <> None -> byc (process_events hc ts logs g) c <> None.
Proof.
  induction logs as [|l r IH]; intros g c H; cbn [process_events]; [exact H|].
  destruct (log_step hc ts g l) eqn:E; auto. apply IH. eapply log_step_some; eauto.
Qed.

(* under the invariant the final SetCSR of the hook leaves the contract index as the events left it *)
Lemma post_tx_byc t s s' ts :
  csr_inv (reg s) -> turnstile (cfg s) = Some ts -> enable (cfg s) = true -> post_tx t s = Some s' ->
  forall c, byc (reg s') c = byc (after_events t ts s) c.
Proof.
  intros HI Ht He. unfold post_tx, after_events. rewrite He, Ht. cbn [negb].
  pose proof (process_events_inv (tx_code t) ts (tx_logs t) (reg s) HI) as HG.
  set (g := process_events (tx_code t) ts (tx_logs t) (reg s)) in *.
  destruct (tx_gas_used t =? 0); [intros E; inversion E; reflexivity|].
  intros H. obind_inv H. obind_inv H.
  destruct (match tx_to t with Some c => byc g c | None => None end) as [k|].
  - destruct (csrs g k) as [rk|] eqn:Ck; [|discriminate].
    obind_inv H. obind_inv H. destruct (0 <=? x2); [|discriminate].
    obind_inv H. obind_inv H. obind_inv H. inversion H; subst s'. cbn [reg]. intros c.
    rewrite set_csr_byc. cbn [c_contracts]. destruct (memZ c (c_contracts rk)) eqn:M; [|reflexivity].
    apply memZ_In in M. symmetry. apply HG. eauto.
  - obind_inv H. inversion H; reflexivity.
Qed.

Theorem added_over_history l : forall s ts c n,
  csr_inv (reg s) -> turnstile (cfg s) = Some ts ->
  byc (reg (run l s)) c = Some n ->
  byc (reg s) c = Some n \/
  (byc (reg s) c = None /\
   exists t lg, In t l /\ tx_code t c = true /\ In lg (tx_logs t) /\ places ts lg c n).
Proof.
  induction l as [|t rest IH]; intros s ts c n HI Ht; cbn [run]; [auto|].
  intros H.
  pose proof (deliver_inv t s HI) as HI1.
  assert (Ht1 : turnstile (cfg (deliver t s)) = Some ts) by (rewrite deliver_cfg; exact Ht).
  destruct (IH (deliver t s) ts c n HI1 Ht1 H) as [A|(A & t' & lg & B1 & B2 & B3 & B4)].
  - unfold deliver in A. destruct (post_tx t s) as [s1|] eqn:E; [|auto].
    destruct (enable (cfg s)) eqn:En.
    + rewrite (post_tx_byc t s s1 ts HI Ht En E) in A. unfold after_events in A.
      destruct (events_added _ _ _ _ _ _ HI A) as [X|(X & Y & lg & Z1 & Z2)]; [auto|].
      right. split; [exact X|]. exists t, lg.
      split; [left; reflexivity|]. split; [exact Y|]. split; [exact Z1|exact Z2].
    + unfold post_tx in E. rewrite En in E. cbn [negb] in E. inversion E; subst. auto.
  - right. split.
    + destruct (byc (reg s) c) as [m|] eqn:Bs; [|reflexivity]. exfalso.
      unfold deliver in A. destruct (post_tx t s) as [s1|] eqn:E; [|congruence].
      destruct (enable (cfg s)) eqn:En.
      * rewrite (post_tx_byc t s s1 ts HI Ht En E) in A. unfold after_events in A.
        revert A. apply events_some. congruence.
      * unfold post_tx in E. rewrite En in E. cbn [negb] in E. inversion E; subst. congruence.
    + exists t', lg. split; [right; exact B1|]. split; [exact B2|]. split; [exact B3|exact B4].
Qed.

(** * Non-vacuity *)

Definition ex_log_reg : log := mkLog 999 (PRegister 200 5 (2 ^ 64 + 2)).
Definition ex_log_foreign : log := mkLog 998 (PRegister 300 5 3).
Definition ex_log_bad : log := mkLog 999 PMalformed.
Definition ex_log_asg : log := mkLog 999 (PAssign 400 1).

(* a receipt: a foreign register (ignored), a Turnstile register with an id above 2^64 (truncated to 2),
   a malformed Turnstile event (processing stops), a valid assign (never reached) *)
Example ex_receipt :
  let g := process_events (fun _ => true) 999 [ex_log_foreign; ex_log_reg; ex_log_bad; ex_log_asg] ex_reg in
  byc g 200 = Some 2 /\ byc g 300 = None /\ byc g 400 = None /\ byc g 100 = Some 1 /\
  csrs g 2 = Some (mkCsr [200] 0 0).
Proof. vm_compute. repeat split; reflexivity. Qed.

Example ex_split :
  exists s', post_tx (ex_tx 7 (Some 100)) (ex_state 333333333333333333) = Some s' /\
    collector (mon s') = 1000000000 - 147000 /\ ts_bal (mon s') 1 = 48999 /\
    supply (mon s') = 5000000000 - (147000 - 48999) /\ module_acct (mon s') = 0 /\
    csrs (reg s') 1 = Some (mkCsr [100] 1 48999).
Proof. eexists. split; [vm_compute; reflexivity|]. vm_compute. repeat split; reflexivity. Qed.

Example ex_wf_genesis : wf_genesis [(1, mkCsr [100; 101] 5 7); (2, mkCsr [102] 0 0)].
Proof.
  split; [repeat constructor; cbn; intuition lia|]. split.
  - intros n r [E|[E|[]]]; inversion E; subst; cbn; repeat constructor; cbn; intuition lia.
  - intros n1 r1 n2 r2 c [E1|[E1|[]]] [E2|[E2|[]]]; inversion E1; inversion E2; subst; cbn; intuition lia.
Qed.

(** * The registry part of the hook used by the C16 checker agrees with [post_tx] *)
Lemma hook_reg_agrees t s s' ts :
  turnstile (cfg s) = Some ts -> enable (cfg s) = true -> post_tx t s = Some s' ->
  (forall c, byc (reg s') c = byc (hook_reg t ts (reg s)) c) /\
  (forall n, option_map c_contracts (csrs (reg s') n) = option_map c_contracts (csrs (hook_reg t ts (reg s)) n)).
Proof.
  intros Ht He. unfold post_tx, hook_reg. rewrite He, Ht. cbn [negb].
  set (g := process_events (tx_code t) ts (tx_logs t) (reg s)) in *.
  destruct (tx_gas_used t =? 0); [intros E; inversion E; split; reflexivity|].
  intros H. obind_inv H. obind_inv H.
  destruct (match tx_to t with Some c => byc g c | None => None end) as [k|].
  - destruct (csrs g k) as [rk|] eqn:Ck; [|discriminate].
    obind_inv H. obind_inv H. destruct (0 <=? x2); [|discriminate].
    obind_inv H. obind_inv H. obind_inv H. inversion H; subst s'. cbn [reg]. split.
    + intros c. rewrite !set_csr_byc. reflexivity.
    + intros n. rewrite !set_csr_csrs. destruct (n =? k); reflexivity.
  - obind_inv H. inversion H; split; reflexivity.
Qed.
