(** Proofs about the epoch clock (property C12, and used by C05/C13). *)
From Coq Require Import ZArith List Bool Lia.
From Canto Require Import Model.Epochs.
Import ListNotations.
Open Scope Z_scope.

(** Invariant of a record, relative to the time [t] of the latest block. *)
Definition Inv (t : Z) (e : epoch) : Prop :=
  e_started e = true ->
  e_cur_start e = e_start e + (e_cur e - 1) * e_dur e /\
  1 <= e_cur e /\ e_start e <= t /\ e_cur_start e <= t.

(** Exact specification of one identifier in one block. *)
Definition started_rec (h : Z) (e : epoch) : epoch :=
  mkEpoch (e_id e) (e_start e) (e_dur e) 1 (e_start e) true h.
Definition ticked_rec (h : Z) (e : epoch) : epoch :=
  mkEpoch (e_id e) (e_start e) (e_dur e) (e_cur e + 1) (e_cur_start e + e_dur e) true h.

Definition tick_spec (t h : Z) (e e' : epoch) (hs : list hook) : Prop :=
  if e_started e then
    (e_cur_start e + e_dur e < t /\ e' = ticked_rec h e /\
       hs = [AfterEnd (e_id e) (e_cur e + 1); BeforeStart (e_id e) (e_cur e + 1)]) \/
    (t <= e_cur_start e + e_dur e /\ e' = e /\ hs = [])
  else
    (e_start e <= t /\ e' = started_rec h e /\ hs = [BeforeStart (e_id e) 1]) \/
    (t < e_start e /\ e' = e /\ hs = []).

Lemma tick_meets_spec t0 t h e :
  Inv t0 e -> t0 <= t -> tick_spec t h e (fst (tick t h e)) (snd (tick t h e)).
Proof.
  intros HI Ht. unfold tick_spec, tick.
  destruct (e_started e) eqn:Es; cbn [negb andb].
  - destruct (HI Es) as (_ & _ & Hs & _).
    assert (Hlt : (t <? e_start e) = false) by (apply Z.ltb_ge; lia).
    rewrite Hlt. cbn [negb andb].
    destruct (e_cur_start e + e_dur e <? t) eqn:El; cbn [andb fst snd].
    + apply Z.ltb_lt in El. left. unfold ticked_rec. auto.
    + apply Z.ltb_ge in El. right. auto.
  - destruct (t <? e_start e) eqn:El; cbn [negb andb fst snd].
    + apply Z.ltb_lt in El. rewrite Bool.andb_false_r. cbn [fst snd]. right. auto.
    + apply Z.ltb_ge in El. left. auto.
Qed.

Lemma tick_inv t0 t h e : Inv t0 e -> t0 <= t -> Inv t (fst (tick t h e)).
Proof.
  intros HI Ht. pose proof (tick_meets_spec t0 t h e HI Ht) as S.
  unfold tick_spec in S. unfold Inv in *.
  destruct (e_started e) eqn:Es.
  - destruct (HI eq_refl) as (A & B & C & D).
    destruct S as [(L & E & _)|(L & E & _)]; rewrite E; cbn; intros _.
    + repeat split; lia.
    + repeat split; lia.
  - destruct S as [(L & E & _)|(L & E & _)]; rewrite E; cbn; intros X.
    + repeat split; lia.
    + congruence.
Qed.

Lemma tick_id t h e : e_id (fst (tick t h e)) = e_id e.
Proof. unfold tick. destruct (_ && _); [reflexivity|]. destruct (_ && _); reflexivity. Qed.
Lemma tick_start_dur t h e :
  e_start (fst (tick t h e)) = e_start e /\ e_dur (fst (tick t h e)) = e_dur e.
Proof. unfold tick. destruct (_ && _); [split; reflexivity|]. destruct (_ && _); split; reflexivity. Qed.

(** * Characterisations in the words of the property *)

(* counting starts at the first block whose time is not before the start time *)
Theorem starts_iff t h e :
  e_started e = false ->
  (e_started (fst (tick t h e)) = true <-> e_start e <= t) /\
  (e_start e <= t -> tick t h e = (started_rec h e, [BeforeStart (e_id e) 1])) /\
  (t < e_start e -> tick t h e = (e, [])).
Proof.
  intros Es.
  assert (HI : Inv t e) by (unfold Inv; congruence).
  pose proof (tick_meets_spec t t h e HI (Z.le_refl _)) as S.
  unfold tick_spec in S. rewrite Es in S.
  destruct (tick t h e) as [e' hs]; cbn [fst snd] in *.
  destruct S as [(L & E & H)|(L & E & H)]; subst.
  - split; [split; [lia|reflexivity]|]. split; [reflexivity|lia].
  - split; [split; [congruence|lia]|]. split; [lia|reflexivity].
Qed.

(* thereafter the number increases by exactly one in precisely those blocks
   whose time is strictly after current start + duration; other blocks leave
   the record (height included) unchanged *)
Theorem tick_iff t0 t h e :
  Inv t0 e -> t0 <= t -> e_started e = true ->
  (e_cur (fst (tick t h e)) = e_cur e + 1 <-> e_cur_start e + e_dur e < t) /\
  (e_cur_start e + e_dur e < t ->
     tick t h e = (ticked_rec h e,
                   [AfterEnd (e_id e) (e_cur e + 1); BeforeStart (e_id e) (e_cur e + 1)])) /\
  (t <= e_cur_start e + e_dur e -> tick t h e = (e, [])).
Proof.
  intros HI Ht Es.
  pose proof (tick_meets_spec t0 t h e HI Ht) as S.
  unfold tick_spec in S. rewrite Es in S.
  destruct (tick t h e) as [e' hs]; cbn [fst snd] in *.
  destruct S as [(L & E & H)|(L & E & H)]; subst.
  - split; [split; [lia|reflexivity]|]. split; [reflexivity|lia].
  - split; [split; lia|]. split; [lia|reflexivity].
Qed.

Theorem at_most_one t h e :
  e_cur (fst (tick t h e)) = e_cur e \/
  e_cur (fst (tick t h e)) = e_cur e + 1 \/
  (e_started e = false /\ e_cur (fst (tick t h e)) = 1).
Proof.
  unfold tick. destruct (negb (e_started e) && negb (t <? e_start e)) eqn:A.
  - right. right. apply andb_prop in A as [A _]. apply negb_true_iff in A. cbn. auto.
  - cbn [negb andb].
    match goal with |- context [if ?c then _ else _] => destruct c end; cbn; auto.
Qed.

(** * Histories of one identifier *)

Fixpoint run1 (bs : list (Z * Z)) (e : epoch) : epoch * list hook :=
  match bs with
  | [] => (e, [])
  | (t, h) :: r =>
      let '(e1, hs1) := tick t h e in
      let '(e2, hs2) := run1 r e1 in (e2, hs1 ++ hs2)
  end.

(* block times never decrease, starting from t0 *)
Fixpoint mono (t0 : Z) (bs : list (Z * Z)) : Prop :=
  match bs with
  | [] => True
  | (t, _) :: r => t0 <= t /\ mono t r
  end.
Definition last_time (t0 : Z) (bs : list (Z * Z)) : Z := fold_left (fun _ b => fst b) bs t0.

(* the calls a listener sees for k consecutive ticks after epoch number c *)
Fixpoint seg (id c : Z) (k : nat) : list hook :=
  match k with
  | O => []
  | S k' => AfterEnd id (c + 1) :: BeforeStart id (c + 1) :: seg id (c + 1) k'
  end.

Lemma run1_inv bs : forall t0 e, Inv t0 e -> mono t0 bs -> Inv (last_time t0 bs) (fst (run1 bs e)).
Proof.
  induction bs as [|[t h] r IH]; intros t0 e HI HM; cbn [run1 last_time fold_left fst].
  - exact HI.
  - destruct HM as [Ht HM].
    pose proof (tick_inv t0 t h e HI Ht) as HI1.
    destruct (tick t h e) as [e1 hs1] eqn:E1. cbn [fst] in HI1.
    specialize (IH t e1 HI1 HM).
    destruct (run1 r e1) as [e2 hs2]. cbn [fst] in *. exact IH.
Qed.

Lemma run1_started bs : forall t0 e,
  Inv t0 e -> mono t0 bs -> e_started e = true ->
  exists k : nat,
    snd (run1 bs e) = seg (e_id e) (e_cur e) k /\
    e_cur (fst (run1 bs e)) = e_cur e + Z.of_nat k /\
    e_started (fst (run1 bs e)) = true /\ e_id (fst (run1 bs e)) = e_id e.
Proof.
  induction bs as [|[t h] r IH]; intros t0 e HI HM Es; cbn [run1].
  - exists O. cbn. repeat split; auto; lia.
  - destruct HM as [Ht HM].
    pose proof (tick_inv t0 t h e HI Ht) as HI1.
    pose proof (tick_meets_spec t0 t h e HI Ht) as S. unfold tick_spec in S. rewrite Es in S.
    destruct (tick t h e) as [e1 hs1]. cbn [fst snd] in *.
    destruct S as [(L & E & H)|(L & E & H)]; subst.
    + destruct (IH t (ticked_rec h e) HI1 HM eq_refl) as (k & A & B & C & D).
      destruct (run1 r (ticked_rec h e)) as [e2 hs2]. cbn [fst snd] in *.
      exists (S k). cbn [seg app]. cbn in A, B, D. rewrite A.
      repeat split; auto. lia.
    + destruct (IH t e HI1 HM Es) as (k & A & B & C & D).
      destruct (run1 r e) as [e2 hs2]. cbn [fst snd app] in *.
      exists k. auto.
Qed.

(* From a record that has not started: the listener sees nothing, or
   BeforeStart 1 followed by consecutive (AfterEnd n; BeforeStart n) pairs
   n = 2, 3, ..., and the final number equals the last number announced. *)
Theorem hooks_consecutive bs : forall t0 e,
  mono t0 bs -> e_started e = false ->
  (snd (run1 bs e) = [] /\ fst (run1 bs e) = e) \/
  (exists k : nat,
     snd (run1 bs e) = BeforeStart (e_id e) 1 :: seg (e_id e) 1 k /\
     e_cur (fst (run1 bs e)) = 1 + Z.of_nat k /\
     e_started (fst (run1 bs e)) = true).
Proof.
  induction bs as [|[t h] r IH]; intros t0 e HM Es; cbn [run1].
  - left. auto.
  - destruct HM as [Ht HM].
    destruct (starts_iff t h e Es) as (_ & A & B).
    destruct (Z_le_gt_dec (e_start e) t) as [L|L].
    + rewrite (A L). right.
      assert (HI : Inv t (started_rec h e)).
      { unfold Inv, started_rec; cbn. intros _. repeat split; lia. }
      destruct (run1_started r t (started_rec h e) HI HM eq_refl) as (k & P & Q & R & _).
      destruct (run1 r (started_rec h e)) as [e2 hs2]. cbn [fst snd app] in *.
      exists k. cbn in P, Q. rewrite P. auto.
    + rewrite (B ltac:(lia)).
      destruct (IH t e HM Es) as [(P & Q)|(k & P & Q & R)];
        destruct (run1 r e) as [e2 hs2]; cbn [fst snd app] in *.
      * left. auto.
      * right. exists k. auto.
Qed.

(* never early, and the closed form of the current start, at every point of every history *)
Theorem clock_inv bs t0 e :
  mono t0 bs -> e_started e = false ->
  let e' := fst (run1 bs e) in
  e_started e' = true ->
  e_cur_start e' = e_start e + (e_cur e' - 1) * e_dur e /\
  1 <= e_cur e' /\ e_cur_start e' <= last_time t0 bs.
Proof.
  intros HM Es e' St.
  assert (HI : Inv t0 e) by (unfold Inv; congruence).
  pose proof (run1_inv bs t0 e HI HM) as H. fold e' in H.
  destruct (H St) as (A & B & C & D).
  assert (SD : forall bs e, e_start (fst (run1 bs e)) = e_start e /\ e_dur (fst (run1 bs e)) = e_dur e).
  { clear. induction bs as [|[t h] r IH]; intros e; cbn [run1]; [auto|].
    pose proof (tick_start_dur t h e) as [X Y].
    destruct (tick t h e) as [e1 hs1]. cbn [fst] in *. specialize (IH e1).
    destruct (run1 r e1) as [e2 hs2]. cbn [fst] in *. destruct IH. split; congruence. }
  destruct (SD bs e) as [X Y]. fold e' in X, Y. rewrite <- X, <- Y. auto.
Qed.

(** * Several identifiers in one block *)

Lemma begin_block_map t h es :
  begin_block t h es =
  (map (fun e => fst (tick t h e)) es, flat_map (fun e => snd (tick t h e)) es).
Proof.
  induction es as [|e r IH]; cbn [begin_block map flat_map]; [reflexivity|].
  destruct (tick t h e) as [e' hs]. rewrite IH. reflexivity.
Qed.

Definition hook_id (k : hook) : Z := match k with AfterEnd i _ => i | BeforeStart i _ => i end.

Lemma tick_hook_ids t h e : Forall (fun k => hook_id k = e_id e) (snd (tick t h e)).
Proof.
  unfold tick. destruct (_ && _); cbn; [repeat constructor|].
  destruct (_ && _); cbn; repeat constructor.
Qed.

Definition for_id (i : Z) (hs : list hook) : list hook := filter (fun k => hook_id k =? i) hs.

Lemma for_id_all i hs : Forall (fun k => hook_id k = i) hs -> for_id i hs = hs.
Proof.
  induction 1 as [|k r Hk _ IH]; cbn; [reflexivity|].
  rewrite Hk, Z.eqb_refl. f_equal. exact IH.
Qed.
Lemma for_id_none i j hs : i <> j -> Forall (fun k => hook_id k = j) hs -> for_id i hs = [].
Proof.
  intros Hn. induction 1 as [|k r Hk _ IH]; cbn; [reflexivity|].
  rewrite Hk. destruct (Z.eqb_spec j i); [congruence|]. exact IH.
Qed.
Lemma for_id_app i a b : for_id i (a ++ b) = for_id i a ++ for_id i b.
Proof. unfold for_id. apply filter_app. Qed.

(* what a listener sees for identifier [e_id e] in a block is exactly that
   identifier's own tick, wherever it sits among the others *)
Theorem block_hooks_per_id t h es e :
  NoDup (map e_id es) -> In e es ->
  for_id (e_id e) (snd (begin_block t h es)) = snd (tick t h e).
Proof.
  rewrite begin_block_map. cbn [snd].
  induction es as [|x r IH]; intros ND HIn; [contradiction|].
  cbn [flat_map map] in *. rewrite for_id_app.
  inversion ND as [|? ? Hnot ND']; subst.
  destruct HIn as [->|HIn].
  - rewrite (for_id_all _ _ (tick_hook_ids t h e)).
    assert (flat_nil : for_id (e_id e) (flat_map (fun e0 => snd (tick t h e0)) r) = []).
    { clear IH ND ND'. induction r as [|y s IHs]; cbn [flat_map]; [reflexivity|].
      rewrite for_id_app. rewrite IHs.
      - rewrite (for_id_none (e_id e) (e_id y)); [reflexivity| |apply tick_hook_ids].
        intros E. apply Hnot. cbn [map]. left. congruence.
      - intros X. apply Hnot. cbn [map]. right. exact X. }
    rewrite flat_nil. apply app_nil_r.
  - rewrite (for_id_none (e_id e) (e_id x)); [|intros E; apply Hnot; rewrite <- E; apply in_map; exact HIn|apply tick_hook_ids].
    cbn [app]. apply IH; assumption.
Qed.

(* every identifier is advanced independently by its own tick *)
Theorem block_records t h es :
  fst (begin_block t h es) = map (fun e => fst (tick t h e)) es.
Proof. rewrite begin_block_map. reflexivity. Qed.

(** Non-vacuity: a concrete non-trivial record satisfies the hypotheses *)
Example inv_example :
  Inv 1000 (mkEpoch 0 10 100 3 210 true 7) /\ mono 0 [(5, 1); (5, 2); (400, 3)].
Proof. split; [unfold Inv; cbn; intros _; repeat split; lia|cbn; lia]. Qed.
Example run_example :
  snd (run1 [(5, 1); (10, 2); (111, 3); (500, 4)] (mkEpoch 0 10 100 0 0 false 0))
  = BeforeStart 0 1 :: seg 0 1 2.
Proof. reflexivity. Qed.
